// Package firstop: any registered computation as the FIRST operation of a process (see Parent).
package firstop

import (
	"crypto/sha256"
	"fmt"
	"os"
	"os/exec"
	"sort"
	"strings"
	"sync"

	"verif/harness/mon"
)

// Any exported computation as the FIRST operation of a process. Lazily initialised state (MiMC constants, Poseidon2
// default parameters, twisted Edwards parameters, cached bases, pools) is filled by whichever call comes first, so
// every entry point that needs it must trigger the initialisation itself. The parent computes each operation in a
// warm process (every operation already executed once, in registry order) and starts one child per operation in
// which that operation is the first thing the process does after package initialisation; the child repeats it once
// more. All three values must be equal: the result of a call does not depend on the history of the process.

type Op struct {
	name string
	fn   func() []byte
}

var ops []Op

// Reg registers one operation (call from init functions).
func Reg(name string, fn func() []byte) { ops = append(ops, Op{name, fn}) }

func sortedLazy() []Op {
	s := append([]Op(nil), ops...)
	sort.Slice(s, func(i, j int) bool { return s[i].name < s[j].name })
	return s
}

func digestOf(fn func() []byte) (d string) {
	defer func() {
		if r := recover(); r != nil {
			d = fmt.Sprintf("panic: %.200v", r)
		}
	}()
	h := sha256.Sum256(fn())
	return fmt.Sprintf("%x", h[:12])
}

// firstGenChild: "GEN <index>|<name>|<first>|<second>"
// Child runs operation k first, then once more, prints the two digests and exits.
func Child(k int) {
	ops := sortedLazy()
	if k < 0 || k >= len(ops) {
		fmt.Println("ERROR index out of range")
		os.Exit(3)
	}
	a := digestOf(ops[k].fn)
	b := digestOf(ops[k].fn)
	fmt.Printf("GEN %d|%s|%s|%s\n", k, ops[k].name, a, b)
	os.Exit(0)
}

// ChildConcurrent runs operation k from n goroutines released together, as the first thing the process does: the
// first use of lazily initialised state is then concurrent. It prints the digest all goroutines agree on (or "differ")
// in the place of the first value and a later sequential value in the place of the second.
func ChildConcurrent(k, n int) {
	ops := sortedLazy()
	if k < 0 || k >= len(ops) {
		fmt.Println("ERROR index out of range")
		os.Exit(3)
	}
	out := make([]string, n)
	start := make(chan struct{})
	var wg sync.WaitGroup
	for g := 0; g < n; g++ {
		wg.Add(1)
		go func(g int) {
			defer wg.Done()
			<-start
			out[g] = digestOf(ops[k].fn)
		}(g)
	}
	close(start)
	wg.Wait()
	a := out[0]
	for _, o := range out {
		if o != a {
			a = "differ: " + out[0] + " / " + o
			break
		}
	}
	b := digestOf(ops[k].fn)
	fmt.Printf("GEN %d|%s|%s|%s\n", k, ops[k].name, a, b)
	os.Exit(0)
}

// Parent computes every operation in this (warm) process, starts one child per operation (childArgs + -which=k) and
// compares. only == nil: every registered operation.
func Parent(c *mon.Ctx, only func(name string) bool, childMode string) {
	self, err := os.Executable()
	if err != nil {
		c.Inconclusive("first-op: %v", err)
		return
	}
	ops := sortedLazy()
	warm := make([]string, len(ops))
	for i := range ops {
		digestOf(ops[i].fn)
	}
	for i := range ops {
		warm[i] = digestOf(ops[i].fn)
	}
	type res struct {
		out string
		err error
	}
	results := make([]res, len(ops))
	sem := make(chan struct{}, 8)
	done := make(chan int, len(ops))
	for k := range ops {
		if only != nil && !only(ops[k].name) {
			done <- k
			continue
		}
		go func(k int) {
			sem <- struct{}{}
			out, err := exec.Command(self, "-mode="+childMode, fmt.Sprintf("-which=%d", k)).CombinedOutput()
			results[k] = res{string(out), err}
			<-sem
			done <- k
		}(k)
	}
	for range ops {
		<-done
	}
	for k, op := range ops {
		if !mon.Selected(op.name) || (only != nil && !only(op.name)) {
			continue
		}
		c.Current("first operation of a process: " + op.name)
		r := results[k]
		if r.err != nil {
			if strings.Contains(r.err.Error(), "exit status 66") { // exit code of the race runtime
				c.Fail("first-op/"+op.name+"/data-race-in-the-first-use", "the race detector reported a data race in the child for %s; output tail: %s", op.name, tail(r.out, 900))
				continue
			}
			c.Fail("first-op/"+op.name+"/child-crashed", "child for %s died: %v; output tail: %s", op.name, r.err, tail(r.out, 600))
			continue
		}
		found := false
		for _, line := range strings.Split(r.out, "\n") {
			if !strings.HasPrefix(line, "GEN ") {
				continue
			}
			p := strings.SplitN(line[4:], "|", 4)
			if len(p) != 4 || p[1] != op.name {
				continue
			}
			found = true
			c.Check("first-op", "first-op/"+op.name+"/first-call-of-a-fresh-process-differs-from-warm-process", p[2] == warm[k], func() string {
				return fmt.Sprintf("%s: first call in a fresh process gives %s, the same call in a process where every other operation already ran gives %s", op.name, p[2], warm[k])
			})
			c.Check("first-op", "first-op/"+op.name+"/second-call-differs-from-first", p[3] == p[2], func() string {
				return fmt.Sprintf("%s: fresh process, first call %s, second call %s (warm process: %s)", op.name, p[2], p[3], warm[k])
			})
			c.Check("first-op", "first-op/"+op.name+"/panics", !strings.HasPrefix(p[2], "panic") && !strings.HasPrefix(warm[k], "panic"), func() string {
				return fmt.Sprintf("%s: fresh %s warm %s", op.name, p[2], warm[k])
			})
			c.Class("first-op/" + op.name)
		}
		if !found {
			c.Inconclusive("first-op: child for %s printed no result: %s", op.name, tail(r.out, 300))
		}
	}
	c.AddExtra("first_operation_children", int64(len(ops)))
}

func tail(s string, n int) string {
	if len(s) > n {
		return s[len(s)-n:]
	}
	return s
}
