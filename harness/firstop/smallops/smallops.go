// Package smallops registers the small-field operations of the first-operation check (package firstop). It imports
// the field, fft and poseidon2 packages only - not vortex, whose package-level permutations would initialise the
// Poseidon2 tables of every process that links it.
package smallops

import (
	"fmt"

	"github.com/consensys/gnark-crypto/field/babybear"
	bbfft "github.com/consensys/gnark-crypto/field/babybear/fft"
	bbp2 "github.com/consensys/gnark-crypto/field/babybear/poseidon2"
	"github.com/consensys/gnark-crypto/field/goldilocks"
	glp2 "github.com/consensys/gnark-crypto/field/goldilocks/poseidon2"
	"github.com/consensys/gnark-crypto/field/koalabear"
	kbfft "github.com/consensys/gnark-crypto/field/koalabear/fft"
	kbp2 "github.com/consensys/gnark-crypto/field/koalabear/poseidon2"

	"verif/harness/firstop"
)

func errb(err error) []byte {
	if err != nil {
		return []byte("|error: " + err.Error())
	}
	return []byte("|ok")
}

func renderParams(width, rf, rp int, keys any) []byte { return []byte(fmt.Sprint(width, rf, rp, keys)) }

func init() {
	// small fields: default Poseidon2 parameters behind sync.OnceValue
	firstop.Reg("koalabear/poseidon2.NewMerkleDamgardHasher.Write.Sum", func() []byte {
		h := kbp2.NewMerkleDamgardHasher()
		var buf []byte
		for i := 0; i < h.BlockSize()/koalabear.Bytes; i++ {
			var e koalabear.Element
			e.SetUint64(uint64(1000 + i))
			b := e.Bytes()
			buf = append(buf, b[:]...)
		}
		_, err := h.Write(buf)
		return append(h.Sum(nil), errb(err)...)
	})
	firstop.Reg("koalabear/poseidon2.GetDefaultParameters", func() []byte {
		return func() []byte {
			p := kbp2.GetDefaultParameters()
			return renderParams(p.Width, p.NbFullRounds, p.NbPartialRounds, p.RoundKeys)
		}()
	})
	firstop.Reg("babybear/poseidon2.NewMerkleDamgardHasher.Write.Sum", func() []byte {
		h := bbp2.NewMerkleDamgardHasher()
		var buf []byte
		for i := 0; i < h.BlockSize()/babybear.Bytes; i++ {
			var e babybear.Element
			e.SetUint64(uint64(1000 + i))
			b := e.Bytes()
			buf = append(buf, b[:]...)
		}
		_, err := h.Write(buf)
		return append(h.Sum(nil), errb(err)...)
	})
	firstop.Reg("babybear/poseidon2.GetDefaultParameters", func() []byte {
		return func() []byte {
			p := bbp2.GetDefaultParameters()
			return renderParams(p.Width, p.NbFullRounds, p.NbPartialRounds, p.RoundKeys)
		}()
	})
	firstop.Reg("goldilocks/poseidon2.NewMerkleDamgardHasher.Write.Sum", func() []byte {
		h := glp2.NewMerkleDamgardHasher()
		var buf []byte
		for i := 0; i < h.BlockSize()/goldilocks.Bytes; i++ {
			var e goldilocks.Element
			e.SetUint64(uint64(1000 + i))
			b := e.Bytes()
			buf = append(buf, b[:]...)
		}
		_, err := h.Write(buf)
		return append(h.Sum(nil), errb(err)...)
	})
	// both constructors for the parameter sets that have specialised vector kernels (their tables are prepared
	// elsewhere), and one set without
	for _, ps := range [][3]int{{16, 6, 21}, {24, 6, 21}, {16, 6, 12}} {
		ps := ps
		in := func() []koalabear.Element {
			v := make([]koalabear.Element, ps[0])
			for i := range v {
				v[i].SetUint64(uint64(77*i + 5))
			}
			return v
		}
		out := func(v []koalabear.Element, err error) []byte {
			var b []byte
			for i := range v {
				x := v[i].Bytes()
				b = append(b, x[:]...)
			}
			return append(b, errb(err)...)
		}
		firstop.Reg(fmt.Sprintf("koalabear/poseidon2.NewPermutation(%d,%d,%d).Permutation", ps[0], ps[1], ps[2]), func() []byte {
			v := in()
			return out(v, kbp2.NewPermutation(ps[0], ps[1], ps[2]).Permutation(v))
		})
		firstop.Reg(fmt.Sprintf("koalabear/poseidon2.NewPermutationWithSeed(%d,%d,%d).Permutation", ps[0], ps[1], ps[2]), func() []byte {
			v := in()
			return out(v, kbp2.NewPermutationWithSeed(ps[0], ps[1], ps[2], "first-operation").Permutation(v))
		})
	}
	for _, ps := range [][3]int{{16, 8, 13}, {24, 8, 21}, {16, 6, 12}} {
		ps := ps
		in := func() []babybear.Element {
			v := make([]babybear.Element, ps[0])
			for i := range v {
				v[i].SetUint64(uint64(77*i + 5))
			}
			return v
		}
		out := func(v []babybear.Element, err error) []byte {
			var b []byte
			for i := range v {
				x := v[i].Bytes()
				b = append(b, x[:]...)
			}
			return append(b, errb(err)...)
		}
		firstop.Reg(fmt.Sprintf("babybear/poseidon2.NewPermutation(%d,%d,%d).Permutation", ps[0], ps[1], ps[2]), func() []byte {
			v := in()
			return out(v, bbp2.NewPermutation(ps[0], ps[1], ps[2]).Permutation(v))
		})
		firstop.Reg(fmt.Sprintf("babybear/poseidon2.NewPermutationWithSeed(%d,%d,%d).Permutation", ps[0], ps[1], ps[2]), func() []byte {
			v := in()
			return out(v, bbp2.NewPermutationWithSeed(ps[0], ps[1], ps[2], "first-operation").Permutation(v))
		})
	}
	for _, ps := range [][3]int{{8, 6, 17}, {12, 6, 17}} {
		ps := ps
		in := func() []goldilocks.Element {
			v := make([]goldilocks.Element, ps[0])
			for i := range v {
				v[i].SetUint64(uint64(77*i + 5))
			}
			return v
		}
		out := func(v []goldilocks.Element, err error) []byte {
			var b []byte
			for i := range v {
				x := v[i].Bytes()
				b = append(b, x[:]...)
			}
			return append(b, errb(err)...)
		}
		firstop.Reg(fmt.Sprintf("goldilocks/poseidon2.NewPermutation(%d,%d,%d).Permutation", ps[0], ps[1], ps[2]), func() []byte {
			v := in()
			return out(v, glp2.NewPermutation(ps[0], ps[1], ps[2]).Permutation(v))
		})
		firstop.Reg(fmt.Sprintf("goldilocks/poseidon2.NewPermutationWithSeed(%d,%d,%d).Permutation", ps[0], ps[1], ps[2]), func() []byte {
			v := in()
			return out(v, glp2.NewPermutationWithSeed(ps[0], ps[1], ps[2], "first-operation").Permutation(v))
		})
	}
	firstop.Reg("koalabear/fft.NewDomain(64).FFT", func() []byte {
		d := kbfft.NewDomain(64)
		v := make([]koalabear.Element, 64)
		for i := range v {
			v[i].SetUint64(uint64(3*i + 1))
		}
		d.FFT(v, kbfft.DIF)
		var b []byte
		for i := range v {
			x := v[i].Bytes()
			b = append(b, x[:]...)
		}
		return b
	})
	firstop.Reg("babybear/fft.NewDomain(64).FFT", func() []byte {
		d := bbfft.NewDomain(64)
		v := make([]babybear.Element, 64)
		for i := range v {
			v[i].SetUint64(uint64(3*i + 1))
		}
		d.FFT(v, bbfft.DIF)
		var b []byte
		for i := range v {
			x := v[i].Bytes()
			b = append(b, x[:]...)
		}
		return b
	})
	firstop.Reg("goldilocks/poseidon2.GetDefaultParameters", func() []byte {
		return func() []byte {
			p := glp2.GetDefaultParameters()
			return renderParams(p.Width, p.NbFullRounds, p.NbPartialRounds, p.RoundKeys)
		}()
	})
}
