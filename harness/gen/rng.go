// Package gen: seeded PRNG (xoshiro256**) and input generators.
package gen

import (
	"math/big"
	"math/bits"
)

type Rng struct{ s [4]uint64 }

func splitmix(x *uint64) uint64 {
	*x += 0x9e3779b97f4a7c15
	z := *x
	z = (z ^ (z >> 30)) * 0xbf58476d1ce4e5b9
	z = (z ^ (z >> 27)) * 0x94d049bb133111eb
	return z ^ (z >> 31)
}

// New returns a generator determined by (seed, stream).
func New(seed int64, stream string) *Rng {
	x := uint64(seed)
	for _, b := range []byte(stream) {
		x = x*1099511628211 ^ uint64(b)
	}
	r := &Rng{}
	for i := range r.s {
		r.s[i] = splitmix(&x)
	}
	return r
}

func (r *Rng) Uint64() uint64 {
	s := &r.s
	res := bits.RotateLeft64(s[1]*5, 7) * 9
	t := s[1] << 17
	s[2] ^= s[0]
	s[3] ^= s[1]
	s[1] ^= s[2]
	s[0] ^= s[3]
	s[2] ^= t
	s[3] = bits.RotateLeft64(s[3], 45)
	return res
}

func (r *Rng) Intn(n int) int {
	if n <= 0 {
		return 0
	}
	return int(r.Uint64() % uint64(n))
}

func (r *Rng) Bool() bool { return r.Uint64()&1 == 1 }

func (r *Rng) Bytes(n int) []byte {
	b := make([]byte, n)
	for i := 0; i < n; i += 8 {
		v := r.Uint64()
		for j := 0; j < 8 && i+j < n; j++ {
			b[i+j] = byte(v >> (8 * j))
		}
	}
	return b
}

// BigBits returns a uniform integer of at most nbits bits.
func (r *Rng) BigBits(nbits int) *big.Int {
	if nbits <= 0 {
		return new(big.Int)
	}
	b := r.Bytes((nbits + 7) / 8)
	if nbits%8 != 0 {
		b[0] &= byte(1<<(nbits%8)) - 1
	}
	return new(big.Int).SetBytes(b)
}

// BigBelow returns a uniform integer in [0,n).
func (r *Rng) BigBelow(n *big.Int) *big.Int {
	if n.Sign() <= 0 {
		return new(big.Int)
	}
	for {
		v := r.BigBits(n.BitLen())
		if v.Cmp(n) < 0 {
			return v
		}
	}
}

// Perm returns a permutation of 0..n-1.
func (r *Rng) Perm(n int) []int {
	p := make([]int, n)
	for i := range p {
		p[i] = i
	}
	for i := n - 1; i > 0; i-- {
		j := r.Intn(i + 1)
		p[i], p[j] = p[j], p[i]
	}
	return p
}
