//go:build !c14all

package main

import (
	"fmt"
	"math/big"

	ghash "github.com/consensys/gnark-crypto/hash"

	"verif/harness/adapt/fields"
	"verif/harness/oracle/ohash"
)

// ---------------------------------------------------------------- MiMC

type mimcInfo struct {
	pkg    string
	id     ghash.Hash
	d      int // documented S-box degree
	rounds int // documented number of rounds
	seed   string
}

type mimcGlue struct {
	newPkg    func() ghash.StateStorer
	newLE     func() ghash.StateStorer
	newBE     func() ghash.StateStorer
	consts    func() []big.Int
	sum       func([]byte) ([]byte, error)
	blockSize int
}

type mimcInst struct {
	mimcInfo
	mimcGlue
	q     *big.Int
	bytes int
	h2f   func(msg, dst []byte) (*big.Int, error) // hash-to-field of the field package (trusted here, property C13)
	spec  *ohash.MiMC
}

var mimcInsts []*mimcInst

func mkMimc[E any, P fields.Ptr[E]](f *fields.Field[E, P], info mimcInfo, g mimcGlue) *mimcInst {
	return &mimcInst{mimcInfo: info, mimcGlue: g, q: f.Modulus, bytes: f.Bytes,
		h2f: func(msg, dst []byte) (*big.Int, error) {
			es, err := f.Hash(msg, dst, 1)
			if err != nil {
				return nil, err
			}
			return f.Value(&es[0]), nil
		},
		spec: ohash.NewMiMC(f.Modulus, info.d, info.rounds, info.seed)}
}

// ---------------------------------------------------------------- Poseidon2

type permI[E any] interface {
	Permutation([]E) error
	Compress(l, r []byte) ([]byte, error)
	BlockSize() int
}

type p2Info struct {
	pkg                string
	id                 ghash.Hash
	tag                string // name inside the documented seed string
	d                  int    // documented S-box degree
	defT, defRF, defRP int    // documented default parameters (compression)
	widths             []int
	small              bool
}

type p2Glue[E any] struct {
	newPerm       func(t, rf, rp int) permI[E]
	newPermSeed   func(t, rf, rp int, seed string) permI[E]
	roundKeys     func(t, rf, rp int) [][]E
	roundKeysSeed func(t, rf, rp int, seed string) [][]E
	paramString   func(t, rf, rp int) string
	defParams     func() (int, int, int)
	degree        func() int
	newMD         func() ghash.StateStorer
	perm16x24     func(p permI[E], in *[24][16]E)
}

// permH is one library permutation instance behind big.Int closures.
type permH struct {
	permute    func(x []*big.Int, fenced bool) ([]*big.Int, error)
	permuteLen func(n int) error // all-zero input of n elements
	compress   func(l, r []byte) ([]byte, error)
	blockSize  func() int
	perm16x24  func(in [][]*big.Int) [][]*big.Int // 16 states of 24 elements; nil if the package has none
}

type p2Inst struct {
	p2Info
	q           *big.Int
	bytes       int
	newMD       func() ghash.StateStorer
	defParams   func() (int, int, int)
	degree      func() int
	paramString func(t, rf, rp int) string
	roundKeys   func(t, rf, rp int, seed *string) [][]*big.Int
	newPerm     func(t, rf, rp int, seed *string) *permH
}

var p2Insts []*p2Inst

func mkP2[E any, P fields.Ptr[E]](f *fields.Field[E, P], info p2Info, g p2Glue[E]) *p2Inst {
	toBig := func(es []E) []*big.Int {
		out := make([]*big.Int, len(es))
		for i := range es {
			out[i] = f.Value(&es[i])
		}
		return out
	}
	pi := &p2Inst{p2Info: info, q: f.Modulus, bytes: f.Bytes, newMD: g.newMD, defParams: g.defParams, degree: g.degree, paramString: g.paramString}
	pi.roundKeys = func(t, rf, rp int, seed *string) [][]*big.Int {
		var rk [][]E
		if seed == nil {
			rk = g.roundKeys(t, rf, rp)
		} else {
			rk = g.roundKeysSeed(t, rf, rp, *seed)
		}
		out := make([][]*big.Int, len(rk))
		for i := range rk {
			out[i] = toBig(rk[i])
		}
		return out
	}
	pi.newPerm = func(t, rf, rp int, seed *string) *permH {
		var p permI[E]
		if seed == nil {
			p = g.newPerm(t, rf, rp)
		} else {
			p = g.newPermSeed(t, rf, rp, *seed)
		}
		ar := newArena(4096)
		h := &permH{compress: p.Compress, blockSize: p.BlockSize}
		h.permute = func(x []*big.Int, fenced bool) ([]*big.Int, error) {
			var buf []E
			if fenced {
				buf = arenaElems[E](ar, len(x))
			} else {
				buf = make([]E, len(x))
			}
			for i := range x {
				buf[i] = f.FromValue(x[i])
			}
			err := p.Permutation(buf)
			for i := range buf {
				if !f.Canonical(&buf[i]) {
					return toBig(buf), fmt.Errorf("verif: output element %d has non-canonical limbs %s", i, f.Raw(&buf[i]).Text(16))
				}
			}
			return toBig(buf), err
		}
		h.permuteLen = func(n int) error { return p.Permutation(make([]E, n)) }
		if g.perm16x24 != nil {
			h.perm16x24 = func(in [][]*big.Int) [][]*big.Int {
				var m [24][16]E
				for s := 0; s < 16; s++ {
					for k := 0; k < 24; k++ {
						m[k][s] = f.FromValue(in[s][k])
					}
				}
				g.perm16x24(p, &m)
				out := make([][]*big.Int, 16)
				for s := 0; s < 16; s++ {
					out[s] = make([]*big.Int, 24)
					for k := 0; k < 24; k++ {
						out[s][k] = f.Value(&m[k][s])
					}
				}
				return out
			}
		}
		return h
	}
	return pi
}

// documented internal diagonals of the small-field instances (Plonky3 / HorizenLabs constants)
var p2Diag = map[string]map[int]string{
	"koalabear": {
		16: "-2, 1, 2, 1/2, 3, 4, -1/2, -3, -4, 1/2^8, 1/8, 1/2^24, -1/2^8, -1/8, -1/16, -1/2^24",
		24: "-2, 1, 2, 1/2, 3, 4, -1/2, -3, -4, 1/2^8, 1/4, 1/8, 1/16, 1/32, 1/64, 1/2^24, -1/2^8, -1/8, -1/16, -1/32, -1/64, -1/2^7, -1/2^9, -1/2^24",
	},
	"babybear": {
		16: "-2, 1, 2, 1/2, 3, 4, -1/2, -3, -4, 1/2^8, 1/4, 1/8, 1/2^27, -1/2^8, -1/16, -1/2^27",
		24: "-2, 1, 2, 1/2, 3, 4, -1/2, -3, -4, 1/2^8, 1/4, 1/8, 1/16, 1/2^7, 1/2^9, 1/2^27, -1/2^8, -1/4, -1/8, -1/16, -1/32, -1/64, -1/2^7, -1/2^27",
	},
}

var goldilocksDiag = map[int][]uint64{
	8: {0xa98811a1fed4e3a5, 0x1cc48b54f377e2a0, 0xe40cd4f6c5609a26, 0x11de79ebca97a4a3, 0x9177c73d8b7e929c, 0x2a6fe8085797e791, 0x3de6e93329f8d5ad, 0x3f7af9125da962fe},
	12: {0xc3b6c08e23ba9300, 0xd84b5de94a324fb6, 0x0d0c371c5b35b84f, 0x7964f570e7188037, 0x5daf18bbd996604b, 0x6743bc47b9595257,
		0x5528b9362c59bb70, 0xac45e25b7127b68b, 0xa2077d7dfbb606b5, 0xf3faac6faee378ae, 0x0c6388b51545e883, 0xd27dbb6944917b60},
}

func (pi *p2Inst) seedString(t, rf, rp int) string {
	return fmt.Sprintf("Poseidon2-%s[t=%d,rF=%d,rP=%d,d=%d]", pi.tag, t, rf, rp, pi.d)
}

// spec builds the specification model of one parameter set.
func (pi *p2Inst) spec(t, rf, rp int, seed *string) *ohash.P2 {
	s := pi.seedString(t, rf, rp)
	if seed != nil {
		s = *seed
	}
	var me, mi [][]*big.Int
	switch {
	case !pi.small:
		me, mi = ohash.SmallExternal(t), ohash.SmallInternal(t)
	case pi.tag == "goldilocks":
		var d []*big.Int
		for _, v := range goldilocksDiag[t] {
			d = append(d, new(big.Int).SetUint64(v))
		}
		me, mi = ohash.BlockExternal(t, ohash.M4Paper), ohash.OnesPlusDiag(d)
	default:
		me, mi = ohash.BlockExternal(t, ohash.M4Plonky3), ohash.OnesPlusDiag(ohash.ParseDiag(pi.q, p2Diag[pi.tag][t]))
	}
	return ohash.NewP2(pi.q, pi.d, t, rf, rp, s, me, mi)
}

// ---------------------------------------------------------------- SIS

type sisH[E any] struct {
	hash   func(v, res []E) error
	a, ag  func() [][]E
	degree func() int
	bound  func() int
	limbs  func(v []E, limbBytes int) []uint64
}

type sisInst struct {
	pkg   string
	q     *big.Int
	bytes int
	bits  int
	run   func(env *sisEnv)
	pre   func(grid []sisParam) // builds the portable-path instances (called with cpu.SupportAVX512 = false)
}

var sisInsts []*sisInst

func mkSis[E any, P fields.Ptr[E]](f *fields.Field[E, P], pkg string, newSis func(seed int64, logTwoDegree, logTwoBound, maxNb int) (*sisH[E], error)) *sisInst {
	si := &sisInst{pkg: pkg, q: f.Modulus, bytes: f.Bytes, bits: f.Bits}
	portable := map[sisParam]*sisH[E]{}
	si.pre = func(grid []sisParam) {
		for _, p := range grid {
			if p.portable {
				if h, err := newSis(p.seed, p.ld, p.lb, p.max); err == nil {
					portable[p] = h
				}
			}
		}
	}
	si.run = func(env *sisEnv) { runSis(env, si, f, newSis, portable) }
	return si
}
