//go:build !c14all

// C14: MiMC / Poseidon2 / ring-SIS against specification models (oracle/ohash) and the streaming
// semantics of every registered hash.Hash: bounded-exhaustive call histories replayed on twin
// hashers (which differ only in the bytes behind len(p)) against a chain model, seeded long
// histories, aliasing scripts, registry metadata, malformed input.
package main

import (
	"bytes"
	"flag"
	"fmt"
	"hash"
	"sort"
	"sync"

	ghash "github.com/consensys/gnark-crypto/hash"

	"verif/harness/mon"
)

var flagMode = flag.String("mode", "all", "spec | stream | sis | all")

// observe records a behaviour that the property statement does not forbid (lead's triage): it is counted and
// described in the evidence file (extra: observed/<key>, observed-detail/<key>) but is never a violation.
var observedOnce sync.Map

func observe(c *mon.Ctx, op, key string, ok bool, detail func() string) bool {
	c.Eval("observation/"+op, 1)
	if ok {
		return true
	}
	c.AddExtra("observed/"+key, 1)
	if _, dup := observedOnce.LoadOrStore(key, true); !dup {
		d := detail()
		if len(d) > 1500 {
			d = d[:1500] + "..."
		}
		c.Extra("observed-detail/"+key, d)
	}
	return false
}

type task struct {
	name string
	fn   func()
}

func runTasks(c *mon.Ctx, tasks []task, workers int) {
	var wg sync.WaitGroup
	ch := make(chan task)
	for w := 0; w < workers; w++ {
		wg.Add(1)
		go func() {
			defer wg.Done()
			for t := range ch {
				func() {
					defer func() {
						if r := recover(); r != nil {
							c.Fail(t.name+"/harness/panic", "panic outside a guarded call: %v", r)
						}
					}()
					t.fn()
				}()
			}
		}()
	}
	for _, t := range tasks {
		ch <- t
	}
	close(ch)
	wg.Wait()
}

// ---------------------------------------------------------------- aliasing scripts

type astep struct {
	do      string // W, Sum0, SumPs, State, SetSt, Reset, clobber
	payload int    // index of a block payload
}

var aliasScripts = map[string][]string{
	"Sum-result-mutated":                  {"W:0", "Sum0", "clobber", "Sum0", "W:1", "Sum0"},
	"initial-Sum-result-mutated":          {"Sum0", "clobber", "Reset", "W:0", "Sum0", "Reset", "Sum0"},
	"Sum-after-Reset-result-mutated":      {"W:0", "Sum0", "Reset", "Sum0", "clobber", "Reset", "Sum0", "W:1", "Sum0"},
	"State-result-mutated":                {"W:0", "State", "clobber", "Sum0", "W:1", "Sum0"},
	"SetState-argument-mutated-afterward": {"W:0", "State", "Reset", "SetSt", "clobber", "Sum0", "W:1", "Sum0"},
	"Sum(spare-capacity)-result-mutated":  {"W:0", "SumPs", "clobber", "Sum0", "W:1", "Sum0"},
	"Write-argument-mutated-afterward":    {"W:0", "clobber", "Sum0", "W:1", "clobber", "Sum0"},
}

// aliasChecks (observations only, not violations: the property does not quantify over caller-side mutation)
// runs each script on two hashers: on the first one every slice exchanged with the hasher in the
// previous step is overwritten by the caller ("clobber"), on the second one it is not. All later outputs must agree.
func aliasChecks(c *mon.Ctx, ch *chain, st *streamer) {
	names := make([]string, 0, len(aliasScripts))
	for n := range aliasScripts {
		names = append(names, n)
	}
	sort.Strings(names)
	cons := []func() hash.Hash{func() hash.Hash { return ch.newPkg() }}
	if ch.newReg != nil {
		cons = append(cons, ch.newReg)
	}
	for _, name := range names {
		for ci, con := range cons {
			name, script := name, aliasScripts[name]
			key := ch.name + "/alias/" + name
			c.Class(key)
			var outs [2][][]byte
			broke := false
			for w := 0; w < 2 && !broke; w++ {
				w := w
				h := con()
				var last []byte  // the slice most recently exchanged with the hasher
				var saved []byte // State() copy
				pan, pv := mon.Try(func() {
					for _, s := range script {
						switch {
						case s == "Sum0":
							last = h.Sum(nil)
							outs[w] = append(outs[w], append([]byte(nil), last...))
						case s == "SumPs":
							b := make([]byte, 3, 3+2*ch.B())
							last = h.Sum(b)
							outs[w] = append(outs[w], append([]byte(nil), last...))
						case s == "State":
							last = h.(ghash.StateStorer).State()
							saved = append([]byte(nil), last...)
							outs[w] = append(outs[w], saved)
						case s == "SetSt":
							last = append([]byte(nil), saved...)
							if err := h.(ghash.StateStorer).SetState(last); err != nil {
								outs[w] = append(outs[w], []byte("error:"+err.Error()))
							}
						case s == "Reset":
							h.Reset()
						case s == "clobber":
							if w == 0 {
								for i := range last {
									last[i] ^= 0x5A
								}
							}
						default: // W:k
							k := int(s[2] - '0')
							last = st.mkCall("Write(2*block,spare-cap)", 900+k, mstate{}).p
							last = append([]byte(nil), last...)
							if _, err := h.Write(last); err != nil {
								outs[w] = append(outs[w], []byte("error:"+err.Error()))
							}
						}
					}
				})
				if pan {
					outs[w] = append(outs[w], []byte(fmt.Sprintf("panic:%v", pv)))
				}
			}
			same := len(outs[0]) == len(outs[1])
			for i := 0; same && i < len(outs[0]); i++ {
				same = bytes.Equal(outs[0][i], outs[1][i])
			}
			observe(c, "alias", key, same, func() string {
				return fmt.Sprintf("script %v (constructor %d): outputs with the caller overwriting its slices %x, without %x", script, ci, outs[0], outs[1])
			})
		}
	}
}

// ---------------------------------------------------------------- main

func main() {
	c := mon.Init("C14")
	mode := *flagMode
	want := func(m string) bool { return mode == "all" || mode == m }
	prebuildPortable(c.Thorough(), want("spec"), want("sis"))
	var tasks []task

	if want("spec") {
		for _, mi := range mimcInsts {
			mi := mi
			if mon.Selected(mi.pkg) || mon.Selected(mi.id.String()) {
				tasks = append(tasks, task{mi.pkg, func() { specMimc(c, mi); specRegistry(c, mi.id, mi.bytes) }})
			}
		}
		for _, pi := range p2Insts {
			pi := pi
			if mon.Selected(pi.pkg) || mon.Selected(pi.id.String()) {
				tasks = append(tasks, task{pi.pkg, func() { specP2(c, pi); specRegistry(c, pi.id, pi.bytes*pi.defT/2) }})
				for _, ps := range pi.paramSets(c.Thorough()) {
					ps := ps
					tasks = append(tasks, task{pi.pkg, func() { specP2Param(c, pi, ps) }})
				}
			}
		}
		tasks = append(tasks, task{"field/koalabear/vortex", func() { specVortex(c) }})
	}

	if want("stream") {
		var chains []*chain
		var extra []*chain // option variants: seeded walks only
		for _, mi := range mimcInsts {
			if mon.Selected(mi.pkg) || mon.Selected(mi.id.String()) {
				chains = append(chains, mi.chain())
				extra = append(extra, mi.chainLE(), mi.chainBE())
			}
		}
		for _, pi := range p2Insts {
			if mon.Selected(pi.pkg) || mon.Selected(pi.id.String()) {
				chains = append(chains, pi.chain())
			}
		}
		depth := c.Pick(4, 5)
		c.Extra("history_depth_exhaustive", depth)
		c.Extra("history_alphabet", alphabet)
		for _, ch := range chains {
			ch := ch
			for _, first := range alphabet {
				first := first
				tasks = append(tasks, task{ch.name, func() {
					if !ch.smoke(c) {
						return
					}
					st := newStreamer(c, ch, "dfs")
					st.dfs(nil, mstate{st: ch.zero()}, 0, depth, []string{first})
					c.AddExtra("histories_explored/"+ch.name, st.nodes)
				}})
			}
			tasks = append(tasks, task{ch.name, func() {
				if !ch.smoke(c) {
					return
				}
				st := newStreamer(c, ch, "walk")
				aliasChecks(c, ch, st)
				for id := 0; id < c.Pick(40, 600); id++ {
					st.walk(id, 30)
				}
			}})
		}
		for _, ch := range extra {
			ch := ch
			tasks = append(tasks, task{ch.name, func() {
				if !ch.smoke(c) {
					return
				}
				st := newStreamer(c, ch, "walk")
				st.dfs(nil, mstate{st: ch.zero()}, 0, 2, nil)
				for id := 0; id < c.Pick(20, 300); id++ {
					st.walk(id, 30)
				}
			}})
		}
	}

	if want("sis") {
		for _, si := range sisInsts {
			si := si
			if mon.Selected(si.pkg) {
				for _, lb := range []int{8, 16, 32, 64} {
					for half := 0; half < 2; half++ {
						lb, half := lb, half
						tasks = append(tasks, task{si.pkg, func() { si.run(&sisEnv{c: c, lb: lb, half: half}) }})
					}
				}
			}
		}
	}
	runTasks(c, tasks, 16)
	c.Finish()
}
