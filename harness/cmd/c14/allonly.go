//go:build c14all

// C14, registry stage: this binary imports ONLY github.com/consensys/gnark-crypto/hash/all, whose documentation
// says it registers every hash function of the library, and asks the registry for every identifier.
package main

import (
	"fmt"

	ghash "github.com/consensys/gnark-crypto/hash"
	_ "github.com/consensys/gnark-crypto/hash/all"

	"verif/harness/mon"
)

func main() {
	c := mon.Init("C14")
	n := 0
	var missing []string
	for id := ghash.Hash(0); id.String() != "unknown hash function" && id < 1000; id++ {
		id := id
		n++
		c.Class("hash/all/" + id.String())
		if !id.Available() {
			// observation only: New() on an unregistered id is a documented panic
			missing = append(missing, id.String())
			continue
		}
		c.Guard("hash/all/New-panics/"+id.String(), id.String, func() {
			h := id.New()
			blk := make([]byte, h.BlockSize())
			blk[len(blk)-1] = 1
			_, err := h.Write(blk)
			d := h.Sum(nil)
			c.Check("hash/all", "hash/all/unusable/"+id.String(), err == nil && len(d) == h.Size(), func() string {
				return fmt.Sprintf("hash.%s.New(): Write(one block of BlockSize()=%d bytes) err=%v, Sum(nil) has %d bytes, Size()=%d", id, h.BlockSize(), err, len(d), h.Size())
			})
		})
	}
	c.Extra("identifiers", n)
	c.Extra("observed/hash/all/not-registered", missing)
	c.Finish()
}
