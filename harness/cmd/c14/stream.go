//go:build !c14all

package main

import (
	"bytes"
	"fmt"
	"hash"
	"math/big"
	"strings"
	"sync"

	ghash "github.com/consensys/gnark-crypto/hash"

	"verif/harness/gen"
	"verif/harness/mon"
)

// chain is the streaming specification shared by MiMC (Miyaguchi-Preneel) and the Merkle-Damgard wrappers:
// a state of ne field elements, IV = 0, one step per block of ne elements; digest = state.
type chain struct {
	name   string // violation key prefix, e.g. hash/MIMC_BN254
	kind   string // "mimc" | "md"
	q      *big.Int
	eb, ne int  // element bytes, elements per block
	le     bool // elements are parsed little-endian (MiMC option); output is always big-endian
	step   func(state, block []*big.Int) []*big.Int
	newReg func() hash.Hash // through the registry (nil for option variants)
	newPkg func() ghash.StateStorer

	gate   sync.Once
	usable bool
}

// smoke decides once per hasher whether it can absorb one well-formed block at all. A hasher that cannot is
// reported under a single key and its histories are not explored (every one of them would fail the same way).
func (ch *chain) smoke(c *mon.Ctx) bool {
	ch.gate.Do(func() {
		ch.usable = true
		cons := []func() hash.Hash{func() hash.Hash { return ch.newPkg() }}
		if ch.newReg != nil {
			cons = append(cons, ch.newReg)
		}
		one := make([]*big.Int, ch.ne)
		for i := range one {
			one[i] = big.NewInt(int64(i + 1))
		}
		blk := ch.enc(one)
		if ch.le {
			blk = nil
			for _, v := range one {
				b := make([]byte, ch.eb)
				v.FillBytes(b)
				for l, r := 0, len(b)-1; l < r; l, r = l+1, r-1 {
					b[l], b[r] = b[r], b[l]
				}
				blk = append(blk, b...)
			}
		}
		want := ch.enc(ch.step(ch.zero(), one))
		for ci, con := range cons {
			var iv, d []byte
			var n int
			var err error
			if c.Guard(ch.name+"/smoke/panic", func() string { return fmt.Sprintf("New; Sum(nil); Write(%x); Sum(nil) (constructor %d)", blk, ci) }, func() {
				h := con()
				iv = h.Sum(nil)
				n, err = h.Write(append([]byte(nil), blk...))
				d = h.Sum(nil)
			}) {
				ch.usable = false
				continue
			}
			c.Class(ch.name + "/smoke")
			ok := c.Check("stream/smoke", ch.name+"/smoke/write-of-one-block-rejected", err == nil, func() string {
				h2 := con()
				n2, err2 := h2.Write(make([]byte, h2.BlockSize()))
				return fmt.Sprintf("a new hasher (constructor %d) rejects one block of %d canonical elements (%d bytes, the input size of one compression step): Write(%x) = %d, %v; Sum(nil) before = %x, after = %x. A write of BlockSize()=%d zero bytes on another new hasher: %d, %v", ci, ch.ne, len(blk), blk, n, err, iv, d, h2.BlockSize(), n2, err2)
			})
			ok = ok && c.Check("stream/smoke", ch.name+"/smoke/initial-digest-mismatch", bytes.Equal(iv, ch.enc(ch.zero())), func() string {
				return fmt.Sprintf("Sum(nil) of a new hasher = %x, want the zero IV %x", iv, ch.enc(ch.zero()))
			})
			ok = ok && c.Check("stream/smoke", ch.name+"/smoke/one-block-digest-mismatch", bytes.Equal(d, want), func() string {
				return fmt.Sprintf("Write(%x); Sum(nil) = %x, want %x", blk, d, want)
			})
			ch.usable = ch.usable && ok
		}
	})
	return ch.usable
}

func (ch *chain) B() int { return ch.eb * ch.ne }

func (ch *chain) enc(st []*big.Int) []byte {
	out := make([]byte, 0, ch.B())
	for _, v := range st {
		b := make([]byte, ch.eb)
		v.FillBytes(b)
		out = append(out, b...)
	}
	return out
}

func (ch *chain) zero() []*big.Int {
	st := make([]*big.Int, ch.ne)
	for i := range st {
		st[i] = new(big.Int)
	}
	return st
}

// parseBlock reads ne elements; ok=false when one of them is not canonical.
func (ch *chain) parseBlock(b []byte, le bool) ([]*big.Int, bool) {
	out := make([]*big.Int, ch.ne)
	for i := range out {
		e := append([]byte(nil), b[i*ch.eb:(i+1)*ch.eb]...)
		if le {
			for l, r := 0, len(e)-1; l < r; l, r = l+1, r-1 {
				e[l], e[r] = e[r], e[l]
			}
		}
		out[i] = new(big.Int).SetBytes(e)
		if out[i].Cmp(ch.q) >= 0 {
			return nil, false
		}
	}
	return out, true
}

// absorb applies the documented Write semantics to a state: (new state, malformed).
//   - both kinds: a write shorter than one block is left-padded with zeros (documented in mimc.go, and the
//     behaviour of the Merkle-Damgard wrapper for its last partial block);
//   - mimc: any other length that is not a multiple of the block size is malformed;
//   - md: full blocks, then the partial tail left-padded;
//   - a block holding a non-canonical element is malformed.
func (ch *chain) absorb(st []*big.Int, p []byte) ([]*big.Int, bool) {
	B := ch.B()
	if len(p) == 0 {
		return st, false
	}
	var blocks [][]byte
	pad := func(t []byte) []byte { return append(make([]byte, B-len(t), B), t...) }
	switch {
	case len(p) < B:
		blocks = append(blocks, pad(p))
	case ch.kind == "mimc" && len(p)%B != 0:
		return nil, true
	default:
		for i := 0; i+B <= len(p); i += B {
			blocks = append(blocks, p[i:i+B])
		}
		if r := len(p) % B; r != 0 {
			blocks = append(blocks, pad(p[len(p)-r:]))
		}
	}
	for _, b := range blocks {
		els, ok := ch.parseBlock(b, ch.le)
		if !ok {
			return nil, true
		}
		st = ch.step(st, els)
	}
	return st, false
}

// ---------------------------------------------------------------- calls

const (
	opWrite = iota
	opSum
	opReset
	opState
	opSetState
)

type call struct {
	kind   string // label used in keys / classes
	op     int
	p      []byte
	spare  int  // poisoned spare capacity behind p
	fenced bool // p ends at a guard page (len == cap)
}

func (cl call) String() string {
	switch cl.op {
	case opWrite:
		return fmt.Sprintf("%s{len=%d spare=%d fenced=%v %x}", cl.kind, len(cl.p), cl.spare, cl.fenced, cl.p)
	case opSum, opSetState:
		return fmt.Sprintf("%s{%x spare=%d}", cl.kind, cl.p, cl.spare)
	}
	return cl.kind
}

func pathString(path []call, last call) string {
	var sb strings.Builder
	for _, c := range path {
		sb.WriteString(c.String())
		sb.WriteString(" ; ")
	}
	sb.WriteString(last.String())
	return sb.String()
}

// model state (immutable values)
type mstate struct {
	st    []*big.Int
	dirty bool   // a write was rejected: the content of the hasher is unspecified until Reset / SetState
	saved []byte // last State() result
}

var alphabet = []string{"Write(empty)", "Write(<block)", "Write(block)", "Write(2*block,spare-cap)", "Write(3*block,guarded)", "Write(block+1,guarded)", "Write(block+1,spare-cap)", "Write(3*block-1,spare-cap)", "Write(non-canonical)", "Sum(nil)", "Sum(prefix)", "Sum(prefix,spare-cap)", "Reset", "State", "SetState(saved)"}

type streamer struct {
	c     *mon.Ctx
	ch    *chain
	ar    [2]*arena
	seed  int64
	n     int64 // node counter (constructor variety)
	nodes int64
}

func newStreamer(c *mon.Ctx, ch *chain, stream string) *streamer {
	return &streamer{c: c, ch: ch, ar: [2]*arena{newArena(pageSize), newArena(pageSize)}, seed: c.Seed}
}

func (s *streamer) elem(r *gen.Rng) *big.Int {
	q := s.ch.q
	switch r.Intn(8) {
	case 0:
		return new(big.Int)
	case 1:
		return big.NewInt(1)
	case 2:
		return new(big.Int).Sub(q, big.NewInt(1))
	case 3:
		return new(big.Int).Sub(q, big.NewInt(2))
	case 4:
		return big.NewInt(int64(r.Intn(1 << 16)))
	}
	return r.BigBelow(q)
}

func (s *streamer) encElem(v *big.Int) []byte {
	b := make([]byte, s.ch.eb)
	v.FillBytes(b)
	if s.ch.le {
		for l, r := 0, len(b)-1; l < r; l, r = l+1, r-1 {
			b[l], b[r] = b[r], b[l]
		}
	}
	return b
}

func (s *streamer) blocks(r *gen.Rng, n int) []byte {
	var out []byte
	for i := 0; i < n*s.ch.ne; i++ {
		out = append(out, s.encElem(s.elem(r))...)
	}
	return out
}

// mkCall builds the concrete call of a kind at a history position; deterministic in (seed, instance, slot, kind).
func (s *streamer) mkCall(kind string, slot int, m mstate) call {
	r := gen.New(s.seed, fmt.Sprintf("c14/%s/%d/%s", s.ch.name, slot, kind))
	B := s.ch.B()
	switch kind {
	case "Write(empty)":
		if r.Bool() {
			return call{kind: kind, op: opWrite, p: nil}
		}
		return call{kind: kind, op: opWrite, p: []byte{}, spare: B}
	case "Write(<block)":
		n := 1 + r.Intn(B-1)
		p := r.Bytes(n)
		if n == B-1 || s.ch.eb > 1 { // keep every padded element canonical: clear the leading byte of each element touched
			for i := range p {
				if (B-n+i)%s.ch.eb == 0 && !s.ch.le {
					p[i] = 0
				}
				if s.ch.le && (B-n+i)%s.ch.eb == s.ch.eb-1 {
					p[i] = 0
				}
			}
		}
		return call{kind: kind, op: opWrite, p: p, spare: r.Intn(2) * B}
	case "Write(block)":
		return call{kind: kind, op: opWrite, p: s.blocks(r, 1)}
	case "Write(2*block,spare-cap)":
		return call{kind: kind, op: opWrite, p: s.blocks(r, 2), spare: B + r.Intn(B)}
	case "Write(3*block,guarded)":
		return call{kind: kind, op: opWrite, p: s.blocks(r, 3), fenced: true}
	case "Write(block+1,guarded)":
		p := append(s.blocks(r, 1), 0) // tail byte 0: canonical when left-padded
		return call{kind: kind, op: opWrite, p: p, fenced: true}
	case "Write(block+1,spare-cap)":
		p := append(s.blocks(r, 1), byte(r.Intn(100)))
		return call{kind: kind, op: opWrite, p: p, spare: 2 * B}
	case "Write(3*block-1,spare-cap)":
		p := s.blocks(r, 3)
		p = p[:len(p)-1]
		// the tail (B-1 bytes, left-padded) must stay canonical for the md kind: zero the first byte of each element of the tail
		t := p[2*B:]
		for i := range t {
			if !s.ch.le && (1+i)%s.ch.eb == 0 {
				t[i] = 0
			}
			if s.ch.le && (1+i)%s.ch.eb == s.ch.eb-1 {
				t[i] = 0
			}
		}
		return call{kind: kind, op: opWrite, p: p, spare: 2 * B}
	case "Write(non-canonical)":
		nb := 1 + r.Intn(3)
		p := s.blocks(r, nb)
		pos := r.Intn(nb * s.ch.ne)
		var v *big.Int
		switch r.Intn(4) {
		case 0:
			v = new(big.Int).Set(s.ch.q)
		case 1:
			v = new(big.Int).Add(s.ch.q, big.NewInt(int64(1+r.Intn(1000))))
		case 2:
			v = new(big.Int).Sub(new(big.Int).Lsh(big.NewInt(1), uint(8*s.ch.eb)), big.NewInt(1)) // all FF
		default:
			top := new(big.Int).Lsh(big.NewInt(1), uint(8*s.ch.eb))
			v = new(big.Int).Add(s.ch.q, r.BigBelow(new(big.Int).Sub(top, s.ch.q)))
		}
		copy(p[pos*s.ch.eb:], s.encElem(v))
		return call{kind: kind, op: opWrite, p: p, spare: r.Intn(2) * B}
	case "Sum(nil)":
		return call{kind: kind, op: opSum}
	case "Sum(prefix)":
		return call{kind: kind, op: opSum, p: r.Bytes(1 + r.Intn(7))}
	case "Sum(prefix,spare-cap)":
		return call{kind: kind, op: opSum, p: r.Bytes(1 + r.Intn(2*B)), spare: 2 * B}
	case "Reset":
		return call{kind: kind, op: opReset}
	case "State":
		return call{kind: kind, op: opState}
	case "SetState(saved)":
		if m.saved != nil {
			return call{kind: kind, op: opSetState, p: append([]byte(nil), m.saved...)}
		}
		st := make([]*big.Int, s.ch.ne)
		for i := range st {
			st[i] = s.elem(r)
		}
		return call{kind: "SetState(fresh)", op: opSetState, p: s.ch.enc(st)}
	}
	panic("unknown call kind " + kind)
}

// materialize builds the slice handed to the library for hasher w (0/1): same bytes, different poison behind len.
func (s *streamer) materialize(cl call, w int) []byte {
	if cl.p == nil && cl.spare == 0 {
		return nil
	}
	if cl.fenced {
		return s.ar[w].bytesAtEnd(cl.p)
	}
	buf := make([]byte, len(cl.p)+cl.spare)
	copy(buf, cl.p)
	for i := len(cl.p); i < len(buf); i++ {
		if w == 0 {
			buf[i] = 0x00 // reads as canonical zero elements
		} else {
			buf[i] = 0xFF // reads as non-canonical elements
		}
	}
	return buf[:len(cl.p)]
}

type outcome struct {
	n        int
	err      error
	ret      []byte
	panicked bool
	pval     any
}

func (s *streamer) exec(h hash.Hash, cl call, w int) (o outcome) {
	defer func() {
		if r := recover(); r != nil {
			o.panicked, o.pval = true, r
		}
	}()
	switch cl.op {
	case opWrite:
		o.n, o.err = h.Write(s.materialize(cl, w))
	case opSum:
		o.ret = h.Sum(s.materialize(cl, w))
	case opReset:
		h.Reset()
	case opState:
		o.ret = append([]byte(nil), h.(ghash.StateStorer).State()...)
	case opSetState:
		o.err = h.(ghash.StateStorer).SetState(append([]byte(nil), cl.p...))
	}
	return
}

func (s *streamer) fresh(variant int64) hash.Hash {
	var h hash.Hash
	if variant&1 == 0 && s.ch.newReg != nil {
		h = s.ch.newReg()
	} else {
		h = s.ch.newPkg()
	}
	return h
}

// applyModel returns the model state after cl and whether the call must be rejected.
func (s *streamer) applyModel(m mstate, cl call) (mstate, bool) {
	switch cl.op {
	case opWrite:
		st, bad := s.ch.absorb(m.st, cl.p)
		if bad {
			return mstate{st: nil, dirty: true, saved: m.saved}, true
		}
		return mstate{st: st, saved: m.saved}, false
	case opReset:
		return mstate{st: s.ch.zero(), saved: m.saved}, false
	case opState:
		return mstate{st: m.st, saved: s.ch.enc(m.st)}, false
	case opSetState:
		st, ok := s.ch.parseBlock(cl.p, false)
		if !ok || len(cl.p) != s.ch.B() {
			return m, true
		}
		return mstate{st: st, saved: m.saved}, false
	}
	return m, false
}

// check compares the outcomes of one call on the twin hashers with the model. It returns false when the
// history must not be continued (the hasher and the model have diverged).
func (s *streamer) check(hs [2]hash.Hash, path []call, cl call, m mstate, probe bool) (mstate, bool) {
	c, ch := s.c, s.ch
	key := func(kind string) string { return ch.name + "/" + cl.kind + "/" + kind }
	desc := func(extra string) func() string {
		return func() string { return fmt.Sprintf("history: %s :: %s", pathString(path, cl), extra) }
	}
	m2, wantErr := s.applyModel(m, cl)
	var o [2]outcome
	for w := 0; w < 2; w++ {
		o[w] = s.exec(hs[w], cl, w)
	}
	c.Class(ch.name + "/" + cl.kind)
	for w := 0; w < 2; w++ {
		if o[w].panicked {
			c.Check("stream/"+cl.kind, key("panic"), false, desc(fmt.Sprintf("PANIC %v (twin %d)", o[w].pval, w)))
			return m2, false
		}
	}
	ok := true
	switch cl.op {
	case opWrite, opSetState:
		for w := 0; w < 2; w++ {
			if wantErr {
				if !c.Check("stream/"+cl.kind, key("malformed-input-accepted"), o[w].err != nil, desc(fmt.Sprintf("no error returned, n=%d (twin %d)", o[w].n, w))) {
					return m2, false
				}
			} else if !c.Check("stream/"+cl.kind, key("unexpected-error"), o[w].err == nil, desc(fmt.Sprintf("err=%v n=%d (twin %d)", o[w].err, o[w].n, w))) {
				return m2, false
			}
		}
		if cl.op == opWrite && !wantErr {
			// io.Writer: 0 <= n <= len(p), and n == len(p) when err == nil. Observation only (not in the property statement).
			observe(c, "Write-n", key("n!=len(p)"), o[0].n == len(cl.p), desc(fmt.Sprintf("Write returned n=%d for len(p)=%d", o[0].n, len(cl.p))))
		}
		if wantErr {
			// the rejected call may have absorbed a prefix (unspecified), but never anything outside p[:len(p)]:
			// the twins only differ in the bytes behind len(p), so whatever they answer now must be identical.
			var d [2][]byte
			for w := 0; w < 2; w++ {
				w := w
				if p, v := mon.Try(func() { d[w] = hs[w].Sum(nil) }); p {
					c.Check("stream/"+cl.kind, key("panic-in-Sum-after-rejected-write"), false, desc(fmt.Sprintf("PANIC %v", v)))
					return m2, false
				}
			}
			if !c.Check("stream/"+cl.kind, key("depends-on-bytes-outside-slice"), bytes.Equal(d[0], d[1]), desc(fmt.Sprintf("after the rejected call Sum(nil) = %x when the spare capacity holds 00.., %x when it holds FF..", d[0], d[1]))) {
				return m2, false
			}
			if cl.op == opSetState {
				return m, true // rejected SetState: state unchanged (not dirty)
			}
			return m2, true
		}
	case opSum:
		want := append(append([]byte(nil), cl.p...), ch.enc(m.st)...)
		for w := 0; w < 2; w++ {
			if !c.Check("stream/"+cl.kind, key("result-mismatch"), bytes.Equal(o[w].ret, want), desc(fmt.Sprintf("Sum returned %x, want prefix||digest = %x (twin %d)", o[w].ret, want, w))) {
				ok = false
				break
			}
		}
	case opState:
		want := ch.enc(m.st)
		for w := 0; w < 2; w++ {
			if !c.Check("stream/"+cl.kind, key("state-mismatch"), bytes.Equal(o[w].ret, want), desc(fmt.Sprintf("State returned %x, want %x (twin %d)", o[w].ret, want, w))) {
				ok = false
				break
			}
		}
	}
	if probe && !m2.dirty {
		// Sum(nil) twice: the digest of everything absorbed so far, unchanged by asking.
		want := ch.enc(m2.st)
		for w := 0; w < 2 && ok; w++ {
			for k := 0; k < 2; k++ {
				var d []byte
				w := w
				if p, v := mon.Try(func() { d = hs[w].Sum(nil) }); p {
					c.Check("stream/"+cl.kind, key("panic-in-following-Sum"), false, desc(fmt.Sprintf("PANIC %v", v)))
					return m2, false
				}
				kind := "digest-mismatch"
				if k == 1 {
					kind = "second-Sum-differs"
				}
				if !c.Check("stream/"+cl.kind, key(kind), bytes.Equal(d, want), desc(fmt.Sprintf("Sum(nil) after the call = %x, want %x (twin %d, ask %d)", d, want, w, k))) {
					ok = false
					break
				}
				// the digest handed out is the caller's: overwriting it, and whatever spare capacity it came with, must
				// not reach the hasher (the second ask, and every later step of the history, would show it)
				full := d[:cap(d)]
				for i := range full {
					full[i] = 0xA5
				}
			}
		}
	}
	return m2, ok
}

func (s *streamer) kinds(m mstate) []string {
	if m.dirty {
		return []string{"Reset", "SetState(saved)"}
	}
	return alphabet
}

// node replays path on two fresh hashers and checks cl as the next call.
func (s *streamer) node(path []call, cl call, m mstate) (mstate, bool) {
	s.n++
	hs := [2]hash.Hash{s.fresh(s.n), s.fresh(s.n)}
	for _, pc := range path {
		for w := 0; w < 2; w++ {
			if o := s.exec(hs[w], pc, w); o.panicked {
				s.c.Fail(s.ch.name+"/harness/replay-panic", "replaying %s panicked: %v", pathString(path, cl), o.pval)
				return m, false
			}
		}
	}
	s.c.Current(s.ch.name + " " + cl.kind)
	s.nodes++
	return s.check(hs, path, cl, m, true)
}

func (s *streamer) dfs(path []call, m mstate, depth, maxDepth int, first []string) {
	ks := s.kinds(m)
	if first != nil {
		ks = first
	}
	for _, k := range ks {
		cl := s.mkCall(k, depth, m)
		m2, ok := s.node(path, cl, m)
		if ok && depth+1 < maxDepth {
			s.dfs(append(path[:len(path):len(path)], cl), m2, depth+1, maxDepth, nil)
		}
	}
}

// walk runs one seeded long history on live hashers.
func (s *streamer) walk(id, length int) {
	r := gen.New(s.seed, fmt.Sprintf("c14/walk/%s/%d", s.ch.name, id))
	s.n++
	hs := [2]hash.Hash{s.fresh(s.n), s.fresh(s.n)}
	m := mstate{st: s.ch.zero()}
	var path []call
	for i := 0; i < length; i++ {
		ks := s.kinds(m)
		k := ks[r.Intn(len(ks))]
		cl := s.mkCall(k, 1000*id+i+100, m)
		m2, ok := s.check(hs, path, cl, m, r.Intn(3) == 0)
		if !ok {
			return
		}
		path = append(path, cl)
		m = m2
	}
	// final digest
	if !m.dirty {
		s.check(hs, path, call{kind: "Sum(nil)", op: opSum}, m, true)
	}
}
