//go:build !c14all

package main

import (
	"fmt"
	"math/big"
	"sort"

	"github.com/consensys/gnark-crypto/utils/cpu"

	"verif/harness/adapt/fields"
	"verif/harness/gen"
	"verif/harness/mon"
	"verif/harness/oracle/ohash"
)

type sisEnv struct {
	c    *mon.Ctx
	lb   int // limb size handled by this task
	half int // 0: degrees 2^1..2^7, 1: degrees 2^8, 2^9
}

type sisParam struct {
	seed     int64
	ld, lb   int
	max      int
	portable bool // koalabear / babybear degree 512, 16-bit limbs: built with cpu.SupportAVX512 = false
}

func (p sisParam) String() string {
	s := fmt.Sprintf("degree=2^%d,limb=%d,max=%d", p.ld, p.lb, p.max)
	if p.portable {
		s += ",portable"
	}
	return s
}

func (p sisParam) class() string {
	s := fmt.Sprintf("degree=2^%d,limb=%d", p.ld, p.lb)
	if p.portable {
		s += ",portable"
	}
	return s
}

// sisGrid: every degree 2^1..2^9 x every limb size the constructor documents (multiples of 8 dividing the element
// size, at most Bits) x a few capacities (one key polynomial exactly / one limb more / several).
func sisGrid(si *sisInst, thorough bool) []sisParam {
	var out []sisParam
	lds := []int{1, 2, 3, 4, 5, 6, 7, 8, 9}
	for _, lb := range []int{8, 16, 32, 64} {
		if lb > si.bits || si.bytes%(lb/8) != 0 {
			continue
		}
		lpe := si.bytes * 8 / lb
		for _, ld := range lds {
			d := 1 << ld
			exact := (d + lpe - 1) / lpe
			maxes := []int{1, exact, exact + 1, 3*exact + 2}
			if thorough {
				maxes = append(maxes, 0, 2*exact, 7*exact+3)
			}
			seen := map[int]bool{}
			for k, m := range maxes {
				if seen[m] {
					continue
				}
				seen[m] = true
				reps := 1
				if thorough {
					reps = 4 // more keys
				}
				for rep := 0; rep < reps; rep++ {
					p := sisParam{seed: int64(5+k+10*ld) + int64(rep)*1_000_003*int64(1+rep), ld: ld, lb: lb, max: m}
					if rep == 3 {
						p.seed = -p.seed
					}
					out = append(out, p)
					if ld == 9 && lb == 16 && si.bytes == 4 && cpu.SupportAVX512 {
						p.portable = true
						out = append(out, p)
					}
				}
			}
		}
	}
	return out
}

func bitrevPerm(n int) []int {
	out := make([]int, n)
	lg := 0
	for 1<<lg < n {
		lg++
	}
	for i := range out {
		r := 0
		for b := 0; b < lg; b++ {
			if i&(1<<b) != 0 {
				r |= 1 << (lg - 1 - b)
			}
		}
		out[i] = r
	}
	return out
}

func runSis[E any, P fields.Ptr[E]](env *sisEnv, si *sisInst, f *fields.Field[E, P], newSis func(seed int64, ld, lb, max int) (*sisH[E], error), portable map[sisParam]*sisH[E]) {
	c := env.c
	P_ := si.pkg
	q := f.Modulus
	scale := new(big.Int).ModInverse(new(big.Int).Lsh(big.NewInt(1), uint(8*f.Bytes)), q) // sis.sage: coefficients are limb * 2^(-8*Bytes)
	r := gen.New(c.Seed, fmt.Sprintf("c14/sis/%s/%d/%d", P_, env.lb, env.half))
	ar, arRes := newArena(pageSize), newArena(pageSize)
	qm1 := new(big.Int).Sub(q, big.NewInt(1))
	for _, p := range sisGrid(si, c.Thorough()) {
		p := p
		if p.lb != env.lb || (p.ld >= 8) != (env.half == 1) {
			continue
		}
		d := 1 << p.ld
		limbBytes := p.lb / 8
		lpe := f.Bytes / limbBytes
		cls := p.class()
		c.Current(P_ + " " + p.String())
		var h *sisH[E]
		if p.portable {
			h = portable[p]
			if h == nil {
				continue
			}
		} else {
			var err error
			if c.Guard(P_+"/NewRSis/panic/"+cls, p.String, func() { h, err = newSis(p.seed, p.ld, p.lb, p.max) }) {
				continue
			}
			if !c.Check("NewRSis", P_+"/NewRSis/unexpected-error/"+cls, err == nil, func() string { return fmt.Sprintf("%s: %v", p, err) }) {
				continue
			}
		}
		c.Class(P_ + "/NewRSis/" + cls)
		nPoly := ohash.SISNbPolys(p.max, f.Bytes, limbBytes, d)
		A := ohash.SISKey(q, p.seed, nPoly, d)
		la := h.a()
		okKey := len(la) == nPoly && h.degree() == d && h.bound() == p.lb
		where := fmt.Sprintf("%d polynomials (want %d), Degree=%d LogTwoBound=%d", len(la), nPoly, h.degree(), h.bound())
		for i := 0; okKey && i < nPoly; i++ {
			if len(la[i]) != d {
				okKey, where = false, fmt.Sprintf("A[%d] has %d coefficients", i, len(la[i]))
				break
			}
			for j := 0; j < d; j++ {
				if f.Value(&la[i][j]).Cmp(A[i][j]) != 0 {
					okKey, where = false, fmt.Sprintf("A[%d][%d] = %s, BLAKE2b derivation gives %s", i, j, f.Value(&la[i][j]).Text(16), A[i][j].Text(16))
					break
				}
			}
		}
		c.Check("NewRSis", P_+"/NewRSis/key-derivation-mismatch/"+cls, okKey, func() string { return p.String() + ": " + where })
		if !okKey {
			// continue with the key the instance really holds, so that Hash is judged on its own
			A = make([][]*big.Int, len(la))
			for i := range la {
				A[i] = make([]*big.Int, len(la[i]))
				for j := range la[i] {
					A[i][j] = f.Value(&la[i][j])
				}
			}
			if len(la) != nPoly {
				continue
			}
		}
		// Ag: the values of A[i] on the roots of X^d + 1 (as a multiset: the order is the library's FFT layout)
		if d <= 32 && nPoly > 0 {
			w := primitiveRoot(q, 2*d)
			lag := h.ag()
			for i := 0; i < nPoly && i < 2; i++ {
				var want, got []string
				x := new(big.Int).Set(w)
				w2 := new(big.Int).Mul(w, w)
				w2.Mod(w2, q)
				for k := 0; k < d; k++ {
					acc := new(big.Int)
					for j := d - 1; j >= 0; j-- {
						acc.Mul(acc, x).Add(acc, A[i][j]).Mod(acc, q)
					}
					want = append(want, acc.Text(16))
					x.Mul(x, w2).Mod(x, q)
					got = append(got, f.Value(&lag[i][k]).Text(16))
				}
				sort.Strings(want)
				sort.Strings(got)
				same := len(want) == len(got)
				for k := 0; same && k < len(want); k++ {
					same = want[k] == got[k]
				}
				c.Check("NewRSis", P_+"/NewRSis/Ag-not-the-evaluations-of-A/"+cls, same, func() string {
					return fmt.Sprintf("%s polynomial %d: Ag = %v, values of A on the roots of X^%d+1 = %v (sorted)", p, i, got, d, want)
				})
			}
		}
		// inputs
		type input struct {
			cls string
			v   []*big.Int
		}
		mk := func(n int, g func(i int) *big.Int) []*big.Int {
			v := make([]*big.Int, n)
			for i := range v {
				v[i] = g(i)
			}
			return v
		}
		rnd := func(int) *big.Int { return r.BigBelow(q) }
		var ins []input
		counts := []int{0, 1, p.max / 2, p.max - 1, p.max}
		if c.Thorough() {
			counts = append(counts, p.max/3, 2*p.max/3, p.max-2)
		}
		seenN := map[int]bool{}
		for _, n := range counts {
			if n < 0 || n > p.max || seenN[n] {
				continue
			}
			seenN[n] = true
			ins = append(ins, input{fmt.Sprintf("random,n=%s", countClass(n, p.max)), mk(n, rnd)})
		}
		if p.max > 0 {
			ins = append(ins,
				input{"all-zero", mk(p.max, func(int) *big.Int { return new(big.Int) })},
				input{"all-q-1", mk(p.max, func(int) *big.Int { return new(big.Int).Set(qm1) })},
				input{"single-nonzero-last", mk(p.max, func(i int) *big.Int {
					if i == p.max-1 {
						return big.NewInt(1)
					}
					return new(big.Int)
				})},
				input{"small-values(high-limbs-zero)", mk(p.max, func(int) *big.Int { return big.NewInt(int64(r.Intn(200))) })},
				input{"limbs-all-ones-pattern", mk(p.max, func(i int) *big.Int {
					v := new(big.Int).Lsh(big.NewInt(1), uint(p.lb*(1+i%lpe)))
					v.Sub(v, big.NewInt(1))
					return v.Mod(v, q)
				})},
			)
			// one whole key polynomial's worth of zero limbs in the middle (the skip branch of InnerHash)
			epp := d / lpe // elements per polynomial (when lpe | d)
			if epp >= 1 && nPoly >= 3 {
				ins = append(ins, input{"zero-polynomial-in-the-middle", mk(p.max, func(i int) *big.Int {
					if i >= epp && i < 2*epp {
						return new(big.Int)
					}
					return r.BigBelow(q)
				})})
			}
		}
		for k, in := range ins {
			in := in
			n := len(in.v)
			c.Class(P_ + "/Hash/" + cls + "/" + in.cls)
			// input and output placed against guard pages on every other case
			var v, res []E
			if k%2 == 0 {
				v, res = arenaElems[E](ar, n), arenaElems[E](arRes, d)
			} else {
				v, res = make([]E, n, n+3), make([]E, d)
			}
			for i := range in.v {
				v[i] = f.FromValue(in.v[i])
			}
			garbage := f.FromValue(big.NewInt(7))
			for i := range res {
				res[i] = garbage
			}
			limbs := ohash.Limbs(in.v, f.Bytes, limbBytes)
			want, oerr := ohash.SISHash(q, scale, A, limbs, d)
			if oerr != nil {
				c.Fail(P_+"/harness/oracle", "%v", oerr)
				continue
			}
			desc := func() string { return fmt.Sprintf("%s seed=%d input(%s) %s", p, p.seed, in.cls, vecStr(in.v)) }
			c.Guard(P_+"/Hash/panic/"+cls, desc, func() {
				err := h.hash(v, res)
				got := make([]*big.Int, d)
				canon := true
				for i := range res {
					got[i] = f.Value(&res[i])
					canon = canon && f.Canonical(&res[i])
				}
				c.Check("Hash", P_+"/Hash/mismatch/"+cls, err == nil && canon && eqVec(got, want), func() string {
					return fmt.Sprintf("%s: err=%v canonical=%v got %s want %s", desc(), err, canon, vecStr(got), vecStr(want))
				})
				// input untouched
				same := true
				for i := range in.v {
					same = same && f.Value(&v[i]).Cmp(in.v[i]) == 0
				}
				c.Check("Hash", P_+"/Hash/input-modified/"+cls, same, desc)
				if k < 3 {
					// asking again gives the same answer (instance buffers are reused)
					res2 := make([]E, d)
					err2 := h.hash(v, res2)
					ok2 := err2 == nil
					for i := range res2 {
						ok2 = ok2 && f.Value(&res2[i]).Cmp(want[i]) == 0
					}
					c.Check("Hash", P_+"/Hash/second-call-differs/"+cls, ok2, desc)
				}
			})
			// the limb iterator on the same input
			if k < 4 {
				c.Guard(P_+"/LimbIterator/panic/"+cls, desc, func() {
					gl := h.limbs(v, limbBytes)
					ok := len(gl) == len(limbs)
					for i := 0; ok && i < len(gl); i++ {
						ok = gl[i] == limbs[i]
					}
					c.Check("LimbIterator", P_+"/LimbIterator/mismatch/"+fmt.Sprintf("limb=%d", p.lb), ok, func() string {
						return fmt.Sprintf("%s: got %v want %v", desc(), gl, limbs)
					})
				})
			}
		}
		// rejected calls: too many elements, wrong output length
		c.Class(P_ + "/Hash/rejected/" + cls)
		c.Guard(P_+"/Hash/panic/too-many-elements", p.String, func() {
			v := arenaElems[E](ar, p.max+1)
			res := make([]E, d)
			err := h.hash(v, res)
			c.Check("Hash", P_+"/Hash/too-many-elements-accepted", err != nil, func() string { return fmt.Sprintf("%s: %d elements hashed without error", p, p.max+1) })
		})
		for _, rl := range []int{0, d - 1, d + 1, 2 * d} {
			rl := rl
			c.Guard(P_+"/Hash/panic/wrong-output-length", p.String, func() {
				v := make([]E, p.max)
				res := arenaElems[E](arRes, rl)
				err := h.hash(v, res)
				c.Check("Hash", P_+"/Hash/wrong-output-length-accepted", err != nil, func() string { return fmt.Sprintf("%s: len(res)=%d accepted", p, rl) })
			})
		}
	}
}

func countClass(n, max int) string {
	switch {
	case n == 0:
		return "0"
	case n == max:
		return "max"
	case n == max-1:
		return "max-1"
	case n == 1:
		return "1"
	}
	return "partial"
}

// primitiveRoot returns an element of exact order n = 2^k in F_q^*.
func primitiveRoot(q *big.Int, n int) *big.Int {
	e := new(big.Int).Div(new(big.Int).Sub(q, big.NewInt(1)), big.NewInt(int64(n)))
	half := big.NewInt(int64(n / 2))
	for g := int64(2); ; g++ {
		w := new(big.Int).Exp(big.NewInt(g), e, q)
		if new(big.Int).Exp(w, half, q).Cmp(big.NewInt(1)) != 0 {
			return w
		}
	}
}
