//go:build !c14all

package main

import (
	"bytes"
	"fmt"
	"math/big"

	"github.com/consensys/gnark-crypto/field/koalabear"
	"github.com/consensys/gnark-crypto/field/koalabear/vortex"
	ghash "github.com/consensys/gnark-crypto/hash"
	"github.com/consensys/gnark-crypto/utils/cpu"

	"verif/harness/adapt/fields"
	"verif/harness/gen"
	"verif/harness/mon"
	"verif/harness/oracle/ohash"
)

func eqVec(a, b []*big.Int) bool {
	if len(a) != len(b) {
		return false
	}
	for i := range a {
		if a[i].Cmp(b[i]) != 0 {
			return false
		}
	}
	return true
}

func vecStr(a []*big.Int) string {
	s := "["
	for i, v := range a {
		if i > 0 {
			s += " "
		}
		s += v.Text(16)
	}
	return s + "]"
}

type labeled struct {
	cls string
	v   []*big.Int
}

// stateInputs: boundary and seeded states of t elements.
func stateInputs(r *gen.Rng, q *big.Int, t, nRandom int) []labeled {
	qm1 := new(big.Int).Sub(q, big.NewInt(1))
	fill := func(f func(i int) *big.Int) []*big.Int {
		v := make([]*big.Int, t)
		for i := range v {
			v[i] = f(i)
		}
		return v
	}
	out := []labeled{
		{"all-zero", fill(func(int) *big.Int { return new(big.Int) })},
		{"all-one", fill(func(int) *big.Int { return big.NewInt(1) })},
		{"all-q-1", fill(func(int) *big.Int { return new(big.Int).Set(qm1) })},
		{"counting", fill(func(i int) *big.Int { return big.NewInt(int64(i)) })},
		{"alternating-0/q-1", fill(func(i int) *big.Int {
			if i%2 == 0 {
				return new(big.Int)
			}
			return new(big.Int).Set(qm1)
		})},
		{"powers-of-two", fill(func(i int) *big.Int {
			return new(big.Int).Mod(new(big.Int).Lsh(big.NewInt(1), uint(7*i+q.BitLen()-3)), q)
		})},
	}
	for k := 0; k < t; k++ {
		k := k
		out = append(out, labeled{"one-hot(q-1)", fill(func(i int) *big.Int {
			if i == k {
				return new(big.Int).Set(qm1)
			}
			return new(big.Int)
		})})
	}
	for k := 0; k < nRandom; k++ {
		out = append(out, labeled{"random", fill(func(int) *big.Int { return r.BigBelow(q) })})
	}
	for k := 0; k < nRandom/2+1; k++ {
		out = append(out, labeled{"mixed-boundary", fill(func(int) *big.Int {
			switch r.Intn(5) {
			case 0:
				return new(big.Int)
			case 1:
				return new(big.Int).Set(qm1)
			case 2:
				return new(big.Int).Rsh(q, 1)
			}
			return r.BigBelow(q)
		})})
	}
	return out
}

func gcdInt(d int, q *big.Int) int64 {
	qm1 := new(big.Int).Sub(q, big.NewInt(1))
	return new(big.Int).GCD(nil, nil, big.NewInt(int64(d)), qm1).Int64()
}

// rootOfUnity returns an element of exact order d (d prime, d | q-1).
func rootOfUnity(d int, q *big.Int) *big.Int {
	e := new(big.Int).Div(new(big.Int).Sub(q, big.NewInt(1)), big.NewInt(int64(d)))
	for g := int64(2); ; g++ {
		z := new(big.Int).Exp(big.NewInt(g), e, q)
		if z.Cmp(big.NewInt(1)) != 0 {
			return z
		}
	}
}

// ---------------------------------------------------------------- MiMC, direct API

func (mi *mimcInst) chain() *chain {
	return &chain{name: "hash/" + mi.id.String(), kind: "mimc", q: mi.q, eb: mi.bytes, ne: 1,
		step:   func(st, blk []*big.Int) []*big.Int { return []*big.Int{mi.spec.Absorb(st[0], blk[0])} },
		newReg: mi.id.New, newPkg: mi.newPkg}
}

func (mi *mimcInst) chainLE() *chain {
	ch := mi.chain()
	ch.name, ch.le, ch.newReg, ch.newPkg = mi.pkg+"/NewMiMC(WithByteOrder(LittleEndian))", true, nil, mi.newLE
	return ch
}

func (mi *mimcInst) chainBE() *chain {
	ch := mi.chain()
	ch.name, ch.newReg, ch.newPkg = mi.pkg+"/NewMiMC(WithByteOrder(BigEndian))", nil, mi.newBE
	return ch
}

func specMimc(c *mon.Ctx, mi *mimcInst) {
	P := mi.pkg
	r := gen.New(c.Seed, "c14/spec/"+P)
	ch := mi.chain()
	B := mi.bytes
	// the round function must be a permutation of F_q (MiMC, Albrecht et al. 2016, section 2: gcd(d, q-1) = 1)
	g := gcdInt(mi.d, mi.q)
	c.Class(P + "/params")
	observe(c, "params", P+"/params/sbox-exponent-not-coprime-to-q-1", g == 1, func() string {
		// witness through the library: E_0 is not injective
		z := rootOfUnity(mi.d, mi.q)
		m := big.NewInt(12345)
		u := new(big.Int).Add(m, mi.spec.C[0])
		m2 := new(big.Int).Mul(u, z)
		m2.Sub(m2, mi.spec.C[0]).Mod(m2, mi.q)
		dg := func(v *big.Int) *big.Int {
			h := mi.newPkg()
			h.Write(ch.enc([]*big.Int{v}))
			d := new(big.Int).SetBytes(h.Sum(nil))
			return d.Sub(d, v).Mod(d, mi.q) // H(m) - m = E_0(m) for the first block
		}
		return fmt.Sprintf("d=%d divides q-1 (gcd=%d): x -> x^%d is %d-to-1, the documented round function is not a permutation. Library witness: E_0(m)=H(m)-m is %s for m=%s and %s for the different m'=(m+c0)*zeta-c0=%s (zeta=%s of order %d)",
			mi.d, g, mi.d, g, dg(m).Text(16), m.Text(16), dg(m2).Text(16), m2.Text(16), z.Text(16), mi.d)
	})
	// constants
	c.Class(P + "/GetConstants")
	c.Guard(P+"/GetConstants/panic", func() string { return "GetConstants()" }, func() {
		cs := mi.consts()
		ok := len(cs) == mi.rounds
		bad := -1
		for i := 0; ok && i < len(cs); i++ {
			if cs[i].Cmp(mi.spec.C[i]) != 0 {
				ok, bad = false, i
			}
		}
		c.Check("GetConstants", P+"/GetConstants/mismatch", ok, func() string {
			if bad >= 0 {
				return fmt.Sprintf("constant %d = %s, documented derivation (iterated legacy Keccak-256 of %q, mod q) gives %s", bad, cs[bad].Text(16), mi.seed, mi.spec.C[bad].Text(16))
			}
			return fmt.Sprintf("%d constants, documented number of rounds %d", len(cs), mi.rounds)
		})
	})
	c.Check("BlockSize", P+"/BlockSize/mismatch", mi.blockSize == B, func() string { return fmt.Sprintf("BlockSize=%d fr.Bytes=%d", mi.blockSize, B) })

	// package function Sum(msg)
	st := newStreamer(c, ch, "spec")
	msgs := []struct {
		cls string
		p   []byte
	}{{"empty", nil}, {"1-block", st.blocks(r, 1)}, {"3-blocks", st.blocks(r, 3)}, {"8-blocks", st.blocks(r, 8)}, {"short", []byte{1, 2, 3}}}
	nc := st.blocks(r, 2)
	copy(nc[B:], ch.enc([]*big.Int{mi.q}))
	msgs = append(msgs, struct {
		cls string
		p   []byte
	}{"non-canonical", nc}, struct {
		cls string
		p   []byte
	}{"block+1", append(st.blocks(r, 1), 7)})
	for _, m := range msgs {
		m := m
		want, bad := ch.absorb(ch.zero(), m.p)
		c.Class(P + "/Sum(func)/" + m.cls)
		c.Guard(P+"/Sum(func)/panic/"+m.cls, func() string { return fmt.Sprintf("mimc.Sum(%x)", m.p) }, func() {
			got, err := mi.sum(append([]byte(nil), m.p...))
			if bad {
				c.Check("Sum(func)", P+"/Sum(func)/malformed-input-accepted/"+m.cls, err != nil, func() string { return fmt.Sprintf("mimc.Sum(%x) = %x, nil", m.p, got) })
				return
			}
			c.Check("Sum(func)", P+"/Sum(func)/mismatch/"+m.cls, err == nil && bytes.Equal(got, ch.enc(want)), func() string {
				return fmt.Sprintf("mimc.Sum(%x) = %x, %v; want %x", m.p, got, err, ch.enc(want))
			})
		})
	}
	// WriteString: absorbs hash_to_field(raw, "string:")
	for _, raw := range [][]byte{[]byte("hello"), {}, r.Bytes(100)} {
		raw := raw
		c.Class(P + "/WriteString")
		c.Guard(P+"/WriteString/panic", func() string { return fmt.Sprintf("WriteString(%x)", raw) }, func() {
			h := mi.newPkg()
			ws, ok := h.(interface{ WriteString([]byte) error })
			if !ok {
				c.Fail(P+"/WriteString/missing", "the hasher has no WriteString method")
				return
			}
			pre := st.blocks(r, 1)
			h.Write(pre)
			err := ws.WriteString(raw)
			e, herr := mi.h2f(raw, []byte("string:"))
			if herr != nil || err != nil {
				c.Check("WriteString", P+"/WriteString/unexpected-error", false, func() string { return fmt.Sprintf("err=%v hash-to-field err=%v", err, herr) })
				return
			}
			want, _ := ch.absorb(ch.zero(), append(append([]byte(nil), pre...), ch.enc([]*big.Int{e})...))
			got := h.Sum(nil)
			c.Check("WriteString", P+"/WriteString/mismatch", bytes.Equal(got, ch.enc(want)), func() string {
				return fmt.Sprintf("Write(%x);WriteString(%x);Sum = %x want %x", pre, raw, got, ch.enc(want))
			})
		})
	}
	// SetState with something that is not a state: error, no panic
	top := new(big.Int).Sub(new(big.Int).Lsh(big.NewInt(1), uint(8*B)), big.NewInt(1))
	for _, bs := range []struct {
		cls string
		p   []byte
	}{{"nil", nil}, {"len-1", make([]byte, B-1)}, {"len+1", make([]byte, B+1)}, {"value=q", ch.enc([]*big.Int{mi.q})}, {"all-FF", ch.enc([]*big.Int{top})}} {
		bs := bs
		c.Class(P + "/SetState(invalid)/" + bs.cls)
		c.Guard(P+"/SetState(invalid)/panic/"+bs.cls, func() string { return fmt.Sprintf("SetState(%x)", bs.p) }, func() {
			h := mi.newPkg()
			pre := st.blocks(r, 2)
			h.Write(pre)
			err := h.SetState(bs.p)
			c.Check("SetState(invalid)", P+"/SetState(invalid)/accepted/"+bs.cls, err != nil, func() string { return fmt.Sprintf("SetState(%x) returned nil", bs.p) })
		})
	}
}

// registry metadata of one id
func specRegistry(c *mon.Ctx, id ghash.Hash, B int) {
	N := "hash/" + id.String()
	c.Class(N + "/registry")
	if !c.Check("registry", N+"/registry/not-available", id.Available(), func() string {
		return "the package is imported by this binary but hash." + id.String() + ".Available() is false"
	}) {
		return
	}
	c.Guard(N+"/registry/panic", func() string { return "New / Size / BlockSize" }, func() {
		h := id.New()
		observe(c, "registry", N+"/Size/registry-table-mismatch", id.Size() == h.Size(), func() string {
			return fmt.Sprintf("hash.%s.Size() = %d but hash.%s.New().Size() = %d (digest length %d)", id, id.Size(), id, h.Size(), len(h.Sum(nil)))
		})
		c.Check("registry", N+"/Size/not-digest-length", h.Size() == B, func() string {
			return fmt.Sprintf("New().Size() = %d, a digest is %d bytes", h.Size(), B)
		})
		c.Check("registry", N+"/BlockSize/not-the-absorbed-block", h.BlockSize() == B, func() string {
			return fmt.Sprintf("New().BlockSize() = %d but one compression step consumes %d bytes", h.BlockSize(), B)
		})
	})
}

// ---------------------------------------------------------------- Poseidon2, direct API

func (pi *p2Inst) chain() *chain {
	sp := pi.spec(pi.defT, pi.defRF, pi.defRP, nil)
	return &chain{name: "hash/" + pi.id.String(), kind: "md", q: pi.q, eb: pi.bytes, ne: pi.defT / 2,
		step: sp.Compress, newReg: pi.id.New, newPkg: pi.newMD}
}

type p2Param struct {
	t, rf, rp int
	seed      *string
	generic   bool // small fields: built with cpu.SupportAVX512 = false (portable path)
}

func (p p2Param) String() string {
	s := fmt.Sprintf("t=%d,rf=%d,rp=%d", p.t, p.rf, p.rp)
	if p.seed != nil {
		s += ",custom-seed"
	}
	if p.generic {
		s += ",portable"
	}
	return s
}

func (pi *p2Inst) paramSets(thorough bool) []p2Param {
	custom := "verif custom seed / " + pi.tag
	var out []p2Param
	for _, t := range pi.widths {
		rf, rp := pi.defRF, pi.defRP
		if pi.small && t != pi.defT { // documented sponge parameters
			switch pi.tag {
			case "koalabear":
				rf, rp = 6, 21
			case "babybear":
				rf, rp = 8, 21
			case "goldilocks":
				rf, rp = 6, 17
			}
		}
		out = append(out, p2Param{t, rf, rp, nil, false}, p2Param{t, rf, rp, &custom, false},
			p2Param{t, 2, 1, nil, false}, p2Param{t, 4, 3, nil, false}, p2Param{t, 8, 56, nil, false}, p2Param{t, rf, 0, nil, false})
		if pi.small && pi.tag != "goldilocks" {
			out = append(out, p2Param{t, rf, rp, nil, true}, p2Param{t, rf, rp + 1, nil, false})
			// the round numbers of the other specialised kernel with this width, through both constructors: a kernel
			// selected for the wrong triple runs the wrong number of rounds
			for _, cr := range [][2]int{{8, 13}, {8, 21}, {6, 21}, {6, 13}} {
				if cr[0] != rf || cr[1] != rp {
					out = append(out, p2Param{t, cr[0], cr[1], nil, false}, p2Param{t, cr[0], cr[1], &custom, false})
				}
			}
		}
		if thorough {
			out = append(out, p2Param{t, 2, 0, nil, false}, p2Param{t, 6, 7, &custom, false}, p2Param{t, 10, 30, nil, false})
		}
	}
	return out
}

// prebuilt portable-path permutations (cpu.SupportAVX512 is a process-wide switch: they are built serially in main)
var portablePerms = map[string]*permH{}

func prebuildPortable(thorough bool, p2, sis bool) {
	if !cpu.SupportAVX512 {
		return
	}
	grids := map[*sisInst][]sisParam{}
	for _, si := range sisInsts {
		if sis && mon.Selected(si.pkg) {
			grids[si] = sisGrid(si, thorough)
		}
	}
	cpu.SupportAVX512 = false
	defer func() { cpu.SupportAVX512 = true }()
	for si, g := range grids {
		si.pre(g)
	}
	if !p2 {
		return
	}
	for _, pi := range p2Insts {
		if !pi.small || !mon.Selected(pi.pkg) {
			continue
		}
		for _, ps := range pi.paramSets(false) {
			if ps.generic {
				portablePerms[pi.pkg+"/"+ps.String()] = pi.newPerm(ps.t, ps.rf, ps.rp, ps.seed)
			}
		}
	}
}

func specP2(c *mon.Ctx, pi *p2Inst) {
	P := pi.pkg
	// parameters
	c.Class(P + "/params")
	g := gcdInt(pi.d, pi.q)
	observe(c, "params", P+"/params/sbox-exponent-not-coprime-to-q-1", g == 1, func() string {
		// witness through the library: two different states with the same image
		sp := pi.spec(pi.defT, pi.defRF, pi.defRP, nil)
		z := rootOfUnity(pi.d, pi.q)
		x := make([]*big.Int, pi.defT)
		for i := range x {
			x[i] = big.NewInt(int64(1000 + i))
		}
		// u = M_E x + c0 ; u' = u with u'_0 = zeta*u_0 ; x' = M_E^-1 (u' - c0). For t=2, M_E = [[2,1],[1,2]], inverse = 1/3 [[2,-1],[-1,2]].
		u0 := new(big.Int).Add(new(big.Int).Add(new(big.Int).Lsh(x[0], 1), x[1]), sp.RC[0][0])
		u0.Mod(u0, pi.q)
		du := new(big.Int).Sub(new(big.Int).Mul(u0, z), u0) // change of u_0
		inv3 := new(big.Int).ModInverse(big.NewInt(3), pi.q)
		x2 := []*big.Int{new(big.Int).Add(x[0], new(big.Int).Mul(new(big.Int).Lsh(du, 1), inv3)), new(big.Int).Sub(x[1], new(big.Int).Mul(du, inv3))}
		for i := range x2 {
			x2[i].Mod(x2[i], pi.q)
		}
		h := pi.newPerm(pi.defT, pi.defRF, pi.defRP, nil)
		y1, _ := h.permute(x, false)
		y2, _ := h.permute(x2, false)
		return fmt.Sprintf("d=%d divides q-1 (gcd=%d): the S-box x^%d is %d-to-1 and the 'permutation' is not injective. Library witness (default parameters): Permutation(%s) = %s and Permutation(%s) = %s",
			pi.d, g, pi.d, g, vecStr(x), vecStr(y1), vecStr(x2), vecStr(y2))
	})
	c.Check("params", P+"/DegreeSBox/mismatch", pi.degree() == pi.d, func() string { return fmt.Sprintf("DegreeSBox()=%d documented %d", pi.degree(), pi.d) })
	dt, drf, drp := pi.defParams()
	c.Check("params", P+"/GetDefaultParameters/mismatch", dt == pi.defT && drf == pi.defRF && drp == pi.defRP, func() string {
		return fmt.Sprintf("GetDefaultParameters() = (%d,%d,%d), documented (%d,%d,%d)", dt, drf, drp, pi.defT, pi.defRF, pi.defRP)
	})
	c.Check("params", P+"/Parameters.String/mismatch", pi.paramString(pi.defT, pi.defRF, pi.defRP) == pi.seedString(pi.defT, pi.defRF, pi.defRP), func() string {
		return fmt.Sprintf("String()=%q want %q", pi.paramString(pi.defT, pi.defRF, pi.defRP), pi.seedString(pi.defT, pi.defRF, pi.defRP))
	})

}

// specP2Param checks one parameter set of one package (its own task).
func specP2Param(c *mon.Ctx, pi *p2Inst, ps p2Param) {
	P := pi.pkg
	r := gen.New(c.Seed, "c14/spec/"+P+"/"+ps.String())
	for once := true; once; once = false {
		sp := pi.spec(ps.t, ps.rf, ps.rp, ps.seed)
		cls := ps.String()
		// round keys
		c.Class(P + "/RoundKeys/" + cls)
		c.Guard(P+"/RoundKeys/panic/"+cls, func() string { return "NewParameters " + cls }, func() {
			rk := pi.roundKeys(ps.t, ps.rf, ps.rp, ps.seed)
			ok := len(rk) == len(sp.RC)
			where := ""
			for i := 0; ok && i < len(rk); i++ {
				if !eqVec(rk[i], sp.RC[i]) {
					ok = false
					where = fmt.Sprintf("round %d: got %s want %s", i, vecStr(rk[i]), vecStr(sp.RC[i]))
				}
			}
			c.Check("RoundKeys", P+"/RoundKeys/mismatch/"+fmt.Sprintf("t=%d", ps.t), ok, func() string {
				return fmt.Sprintf("%s seed %q: %d rounds (want %d) %s", cls, sp.SeedString, len(rk), len(sp.RC), where)
			})
		})
		// permutation
		var h *permH
		if ps.generic {
			h = portablePerms[P+"/"+cls]
			if h == nil {
				continue // no AVX512 on this machine: the default construction already is the portable path
			}
		} else if c.Guard(P+"/NewPermutation/panic/"+cls, func() string { return cls }, func() { h = pi.newPerm(ps.t, ps.rf, ps.rp, ps.seed) }) {
			continue
		}
		ins := stateInputs(r, pi.q, ps.t, c.Pick(12, 250))
		for k, in := range ins {
			in := in
			fenced := k%2 == 0
			c.Class(P + "/Permutation/" + cls + "/" + in.cls)
			want := sp.Permute(in.v)
			c.Guard(P+"/Permutation/panic/"+cls, func() string { return vecStr(in.v) }, func() {
				got, err := h.permute(in.v, fenced)
				c.Check("Permutation", P+"/Permutation/mismatch/"+cls, err == nil && eqVec(got, want), func() string {
					return fmt.Sprintf("%s input(%s) %s: got %s err=%v want %s", cls, in.cls, vecStr(in.v), vecStr(got), err, vecStr(want))
				})
			})
		}
		// wrong buffer sizes: documented error
		for _, n := range []int{0, 1, ps.t - 1, ps.t + 1, 2 * ps.t} {
			n := n
			c.Class(P + "/Permutation/wrong-length")
			c.Guard(P+"/Permutation/panic/wrong-length", func() string { return fmt.Sprintf("%s len=%d", cls, n) }, func() {
				err := h.permuteLen(n)
				c.Check("Permutation", P+"/Permutation/wrong-length-accepted", err != nil, func() string { return fmt.Sprintf("%s: %d elements accepted", cls, n) })
			})
		}
		// batched permutation
		if h.perm16x24 != nil && ps.t == 24 {
			c.Class(P + "/Permutation16x24/" + cls)
			in := make([][]*big.Int, 16)
			for s := range in {
				in[s] = ins[(s*5+3)%len(ins)].v
			}
			c.Guard(P+"/Permutation16x24/panic/"+cls, func() string { return cls }, func() {
				got := h.perm16x24(in)
				for s := range in {
					s := s
					want := sp.Permute(in[s])
					c.Check("Permutation16x24", P+"/Permutation16x24/mismatch/"+cls, eqVec(got[s], want), func() string {
						return fmt.Sprintf("%s column %d input %s: got %s want %s", cls, s, vecStr(in[s]), vecStr(got[s]), vecStr(want))
					})
				}
			})
		}
		// compression
		if ps.t%2 != 0 {
			c.Guard(P+"/Compress/panic/odd-width", func() string { return cls }, func() {
				_, err := h.compress(make([]byte, pi.bytes), make([]byte, pi.bytes))
				c.Check("Compress", P+"/Compress/odd-width-accepted", err != nil, func() string { return cls + ": Compress on a width-3 permutation returned no error" })
			})
			continue
		}
		n := ps.t / 2
		enc := func(v []*big.Int) []byte {
			var out []byte
			for _, e := range v {
				b := make([]byte, pi.bytes)
				e.FillBytes(b)
				out = append(out, b...)
			}
			return out
		}
		for _, in := range ins {
			in := in
			c.Class(P + "/Compress/" + cls + "/" + in.cls)
			want := enc(sp.Compress(in.v[:n], in.v[n:]))
			c.Guard(P+"/Compress/panic/"+cls, func() string { return vecStr(in.v) }, func() {
				got, err := h.compress(enc(in.v[:n]), enc(in.v[n:]))
				c.Check("Compress", P+"/Compress/mismatch/"+cls, err == nil && bytes.Equal(got, want), func() string {
					return fmt.Sprintf("%s Compress(%x, %x) = %x, %v want %x", cls, enc(in.v[:n]), enc(in.v[n:]), got, err, want)
				})
			})
		}
		if ps.rf == pi.defRF && ps.rp == pi.defRP && ps.seed == nil && !ps.generic {
			// the Compressor contract: inputs and output have BlockSize() bytes
			c.Check("Compress", P+"/Compressor/BlockSize-is-not-the-input-size", h.blockSize() == n*pi.bytes, func() string {
				_, err := h.compress(make([]byte, h.blockSize()), make([]byte, h.blockSize()))
				return fmt.Sprintf("%s: BlockSize() = %d but Compress wants %d-byte inputs (hash.Compressor: 'inputs and outputs are all of the same size, which is the block size'); Compress on BlockSize() bytes: err=%v",
					cls, h.blockSize(), n*pi.bytes, err)
			})
		}
		// malformed halves
		good := enc(ins[3].v[:n])
		ncv := append([]*big.Int{}, ins[3].v[:n]...)
		ncv[n-1] = new(big.Int).Set(pi.q)
		nc := enc(ncv)
		ff := bytes.Repeat([]byte{0xFF}, n*pi.bytes)
		for _, bad := range []struct {
			cls  string
			l, r []byte
		}{{"left-non-canonical", nc, good}, {"right-non-canonical", good, nc}, {"left-all-FF", ff, good}, {"right-all-FF", good, ff},
			{"left-short", good[:len(good)-1], good}, {"right-short", good, good[:len(good)-1]}, {"left-long", append(append([]byte{}, good...), 0), good},
			{"right-long", good, append(append([]byte{}, good...), 0)}, {"left-nil", nil, good}, {"right-nil", good, nil}} {
			bad := bad
			c.Class(P + "/Compress/malformed/" + bad.cls)
			c.Guard(P+"/Compress/panic/"+bad.cls, func() string { return fmt.Sprintf("%s Compress(%x, %x)", cls, bad.l, bad.r) }, func() {
				out, err := h.compress(bad.l, bad.r)
				c.Check("Compress", P+"/Compress/malformed-input-accepted/"+bad.cls, err != nil, func() string {
					return fmt.Sprintf("%s Compress(%x, %x) = %x, nil", cls, bad.l, bad.r, out)
				})
			})
		}
	}
}

// ---------------------------------------------------------------- Vortex wrappers over the koalabear permutation

func specVortex(c *mon.Ctx) {
	const P = "field/koalabear/vortex"
	if !mon.Selected(P) {
		return
	}
	f := fields.Koalabear()
	var kp *p2Inst
	for _, pi := range p2Insts {
		if pi.tag == "koalabear" {
			kp = pi
		}
	}
	sp16, sp24 := kp.spec(16, 6, 21, nil), kp.spec(24, 6, 21, nil)
	r := gen.New(c.Seed, "c14/vortex")
	q := f.Modulus
	val := func() *big.Int {
		switch r.Intn(6) {
		case 0:
			return new(big.Int)
		case 1:
			return new(big.Int).Sub(q, big.NewInt(1))
		}
		return r.BigBelow(q)
	}
	// documented: "Poseidon2 hash of an array of field elements. The input is zero-padded": overwrite-mode sponge,
	// rate = state[8:24], capacity = state[0:8] = digest
	model := func(x []*big.Int) []*big.Int {
		st := make([]*big.Int, 24)
		for i := range st {
			st[i] = new(big.Int)
		}
		for i := 0; i < len(x); i += 16 {
			for k := 0; k < 16; k++ {
				if i+k < len(x) {
					st[8+k] = x[i+k]
				} else {
					st[8+k] = new(big.Int)
				}
			}
			st = sp24.Permute(st)
		}
		return st[:8]
	}
	lens := []int{0, 1, 7, 15, 16, 17, 24, 31, 32, 33, 48, 50, 64, 100, 512}
	for _, n := range lens {
		n := n
		x := make([]*big.Int, n)
		xe := make([]koalabear.Element, n)
		for i := range x {
			x[i] = val()
			xe[i] = f.FromValue(x[i])
		}
		cls := "full-blocks"
		if n%16 != 0 {
			cls = "partial-last-block,one-block"
			if n > 16 {
				cls = "partial-last-block,several-blocks"
			}
		}
		c.Class(P + "/HashPoseidon2/" + cls)
		c.Guard(P+"/HashPoseidon2/panic/"+cls, func() string { return fmt.Sprintf("len=%d", n) }, func() {
			got := vortex.HashPoseidon2(xe)
			gv := make([]*big.Int, 8)
			for i := range gv {
				gv[i] = f.Value(&got[i])
			}
			want := model(x)
			c.Check("HashPoseidon2", P+"/HashPoseidon2/mismatch/"+cls, eqVec(gv, want), func() string {
				return fmt.Sprintf("len=%d input %s: got %s, zero-padded overwrite sponge gives %s", n, vecStr(x), vecStr(gv), vecStr(want))
			})
		})
	}
	// CompressPoseidon2(a,b) = first 8 elements of P16(a || b)
	for k := 0; k < c.Pick(20, 200); k++ {
		x := make([]*big.Int, 16)
		var a, b vortex.Hash
		for i := range x {
			x[i] = val()
			if i < 8 {
				a[i] = f.FromValue(x[i])
			} else {
				b[i-8] = f.FromValue(x[i])
			}
		}
		c.Class(P + "/CompressPoseidon2")
		c.Guard(P+"/CompressPoseidon2/panic", func() string { return vecStr(x) }, func() {
			got := vortex.CompressPoseidon2(a, b)
			gv := make([]*big.Int, 8)
			for i := range gv {
				gv[i] = f.Value(&got[i])
			}
			want := sp16.Permute(x)[:8]
			c.Check("CompressPoseidon2", P+"/CompressPoseidon2/mismatch", eqVec(gv, want), func() string {
				return fmt.Sprintf("input %s: got %s want %s", vecStr(x), vecStr(gv), vecStr(want))
			})
		})
	}
	// HashPoseidon2x16: 16 rows hashed in parallel = HashPoseidon2 of each row (row length a multiple of 16)
	for _, size := range []int{16, 32, 64, 512} {
		size := size
		rows := make([][]*big.Int, 16)
		flat := make([]koalabear.Element, 16*size)
		for j := range rows {
			rows[j] = make([]*big.Int, size)
			for i := range rows[j] {
				rows[j][i] = val()
				flat[j*size+i] = f.FromValue(rows[j][i])
			}
		}
		c.Class(fmt.Sprintf("%s/HashPoseidon2x16/row=%d", P, size))
		c.Guard(P+"/HashPoseidon2x16/panic", func() string { return fmt.Sprintf("row=%d", size) }, func() {
			leaves := make([]vortex.Hash, 16)
			vortex.HashPoseidon2x16(flat, leaves, size)
			for j := range rows {
				j := j
				gv := make([]*big.Int, 8)
				for i := range gv {
					gv[i] = f.Value(&leaves[j][i])
				}
				want := model(rows[j])
				c.Check("HashPoseidon2x16", P+"/HashPoseidon2x16/mismatch", eqVec(gv, want), func() string {
					return fmt.Sprintf("row length %d, row %d: got %s want %s", size, j, vecStr(gv), vecStr(want))
				})
			}
		})
	}
	_ = ohash.M4Paper
}
