//go:build !c14all

package main

import (
	"syscall"
	"unsafe"
)

// arena is a read-write mapping followed by an inaccessible guard page: slices handed out end exactly at the
// guard, so that any read or write past len() (Go code or assembly) faults. mon.Init sets SetPanicOnFault, the
// fault becomes a recoverable panic and mon.Guard turns it into a violation. An arena is used by one goroutine.
type arena struct {
	mem  []byte
	size int // usable bytes before the guard page
}

const pageSize = 4096

func newArena(n int) *arena {
	n = (n + pageSize - 1) / pageSize * pageSize
	mem, err := syscall.Mmap(-1, 0, n+pageSize, syscall.PROT_READ|syscall.PROT_WRITE, syscall.MAP_ANON|syscall.MAP_PRIVATE)
	if err != nil {
		panic("c14: mmap: " + err.Error())
	}
	if err := syscall.Mprotect(mem[n:], syscall.PROT_NONE); err != nil {
		panic("c14: mprotect: " + err.Error())
	}
	return &arena{mem: mem, size: n}
}

func (a *arena) grow(n int) {
	if n > a.size {
		b := newArena(n)
		*a = *b // the old mapping is leaked on purpose (tiny, rare)
	}
}

// bytesAtEnd copies p so that it ends at the guard page; len == cap.
func (a *arena) bytesAtEnd(p []byte) []byte {
	a.grow(len(p))
	off := a.size - len(p)
	b := a.mem[off:a.size:a.size]
	copy(b, p)
	return b
}

// arenaElems returns n zeroed elements ending at the guard page.
func arenaElems[E any](a *arena, n int) []E {
	var z E
	sz := int(unsafe.Sizeof(z))
	a.grow(n * sz)
	if n == 0 {
		return unsafe.Slice((*E)(unsafe.Pointer(&a.mem[a.size-sz])), 1)[1:1:1]
	}
	off := a.size - n*sz
	for i := off; i < a.size; i++ {
		a.mem[i] = 0
	}
	return unsafe.Slice((*E)(unsafe.Pointer(&a.mem[off])), n)
}
