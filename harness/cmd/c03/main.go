// C03: every scalar-multiplication entry point vs oracle double-and-add, for every integer scalar
// class (0, negative, > r, thousands of bits, GLV-lattice crafted), all groups + TE curves.
package main

import (
	"fmt"
	"math/big"
	"strings"
	"sync"

	"verif/harness/adapt/groups"
	"verif/harness/adapt/te"
	"verif/harness/gen"
	"verif/harness/mon"
	"verif/harness/oracle/ocurve"
	"verif/harness/oracle/ofield"
	"verif/harness/oracle/oted"
)

var one = big.NewInt(1)

type sc struct {
	v   *big.Int
	cls string
}

// scalars returns the scalar workload for group order r.
func scalars(r *big.Int, rng *gen.Rng, nRand int, thorough bool, extraLambdaSquares ...int64) []sc {
	var out []sc
	seen := map[string]bool{}
	add := func(v *big.Int, cls string) {
		if seen[v.String()] {
			return
		}
		seen[v.String()] = true
		out = append(out, sc{new(big.Int).Set(v), cls})
	}
	pm := func(v *big.Int, cls string) { add(v, cls); add(new(big.Int).Neg(v), "-"+cls) }
	for i := int64(0); i <= 3; i++ {
		pm(big.NewInt(i), "small")
	}
	pm(new(big.Int).Sub(r, one), "r-1")
	pm(r, "r")
	pm(new(big.Int).Add(r, one), "r+1")
	pm(new(big.Int).Add(new(big.Int).Lsh(r, 1), one), "2r+1")
	pm(new(big.Int).Rsh(r, 1), "(r-1)/2")
	n := r.BitLen()
	ks := []int{63, 64, 65, 127, 128, 129, n/2 - 1, n / 2, n/2 + 1, n - 1, n, n + 1, 255, 256, 257, 300, 1000, 4096}
	// lengths around the number of words of a reduced scalar and up to one word more: routines that index the words of
	// the scalar clamp an index there
	W := 64 * ((n + 63) / 64)
	ks = append(ks, W-1, W, W+1, W+32, W+63, W+64, W+65)
	for _, k := range ks {
		if k <= 0 {
			continue
		}
		p := new(big.Int).Lsh(one, uint(k))
		pm(p, fmt.Sprintf("2^%d", k))
		pm(new(big.Int).Sub(p, one), fmt.Sprintf("2^%d-1", k))
	}
	// GLV-lattice crafted scalars a + b*lambda mod r for both primitive cube roots of unity mod r
	// (when r = 1 mod 3): their decomposition has one short / zero half, maximal halves or negative halves.
	if new(big.Int).Mod(r, big.NewInt(3)).Int64() == 1 {
		m3 := new(big.Int).Sub(r, big.NewInt(3))
		if sq := new(big.Int).ModSqrt(m3, r); sq != nil {
			inv2 := new(big.Int).ModInverse(big.NewInt(2), r)
			for si, s := range []*big.Int{sq, new(big.Int).Sub(r, sq)} {
				lam := new(big.Int).Sub(s, one)
				lam.Mul(lam, inv2).Mod(lam, r)
				half := new(big.Int).Lsh(one, uint(n/2))
				cands := []*big.Int{big.NewInt(1), new(big.Int).Lsh(one, 63), new(big.Int).Lsh(one, 64), new(big.Int).Lsh(one, 65), half, new(big.Int).Sub(half, one), new(big.Int).Lsh(half, 1)}
				for ai, a := range append([]*big.Int{big.NewInt(0)}, cands...) {
					for bi, b := range cands {
						if !thorough && (ai+bi+si)%3 != 0 {
							continue
						}
						for _, sg := range []int64{1, -1} {
							v := new(big.Int).Mul(b, lam)
							v.Mul(v, big.NewInt(sg)).Add(v, a).Mod(v, r)
							add(v, fmt.Sprintf("glv-crafted(lambda%d)", si))
						}
					}
				}
			}
		}
	}
	// scalars whose Montgomery form (s * 2^(64*limbs) mod r, the in-memory representation of an fr.Element) is short
	// or sparse: m * R^-1 mod r for small and word-aligned m. Their integer value is full length; a routine that
	// measures the wrong representation mis-sizes its loops on exactly these.
	if r.BitLen() > 64 {
		R := new(big.Int).Lsh(one, uint(64*((r.BitLen()+63)/64)))
		if rinv := new(big.Int).ModInverse(R, r); rinv != nil {
			for _, m := range []*big.Int{big.NewInt(1), big.NewInt(2), new(big.Int).Lsh(one, 63), new(big.Int).Lsh(one, 64), new(big.Int).Lsh(one, 127), new(big.Int).Lsh(one, 128), new(big.Int).Sub(new(big.Int).Lsh(one, 64), one)} {
				v := new(big.Int).Mul(m, rinv)
				pm(v.Mod(v, r), "montgomery-short")
			}
			// and the converse: short integers are the existing small / 2^k classes, whose Montgomery form is long
		}
	}
	// same construction for other endomorphism eigenvalues lambda with lambda^2 = D mod r (bandersnatch: D = -2)
	for _, D := range extraLambdaSquares {
		if sq := new(big.Int).ModSqrt(new(big.Int).Mod(big.NewInt(D), r), r); sq != nil {
			half := new(big.Int).Lsh(one, uint(n/2))
			cands := []*big.Int{big.NewInt(1), new(big.Int).Lsh(one, 63), new(big.Int).Lsh(one, 64), new(big.Int).Lsh(one, 65), half, new(big.Int).Sub(half, one), new(big.Int).Lsh(half, 1)}
			for si, lam := range []*big.Int{sq, new(big.Int).Sub(r, sq)} {
				for ai, a := range append([]*big.Int{big.NewInt(0)}, cands...) {
					for bi, b := range cands {
						if !thorough && (ai+bi+si)%3 != 0 {
							continue
						}
						for _, sg := range []int64{1, -1} {
							v := new(big.Int).Mul(b, lam)
							v.Mul(v, big.NewInt(sg)).Add(v, a).Mod(v, r)
							add(v, fmt.Sprintf("glv-crafted(lambda^2=%d,%d)", D, si))
						}
					}
				}
			}
		}
	}
	for i := 0; i < nRand; i++ {
		pm(rng.BigBelow(r), "random<r")
		if i%2 == 0 {
			pm(rng.BigBits(n+1+rng.Intn(200)), "random>r")
			pm(rng.BigBits(1+rng.Intn(n)), "random-short")
		}
	}
	return out
}

func runGroup(c *mon.Ctx, g *groups.Group) {
	N := g.Name
	if err := g.Bind(); err != nil {
		c.Fail(N+"/constants/validation", "%v", err)
		return
	}
	rng := gen.New(c.Seed, "c03/"+N)
	C := g.C
	f := g.F
	S := scalars(g.R, rng, c.Pick(6, 40), c.Thorough())
	type bp struct {
		p   ocurve.Pt
		cls string
	}
	pts := []bp{{g.G, "G"}, {C.Mul(g.G, rng.BigBelow(g.R)), "kG"}, {ocurve.Pt{Inf: true}, "O"}}
	randZ := func() ofield.El {
		z := f.Zero()
		for i := range z {
			z[i] = rng.BigBelow(g.P)
		}
		if f.IsZero(z) {
			return f.One()
		}
		return z
	}
	// expected multiples cache
	exp := make([][]ocurve.Pt, len(pts))
	for pi, p := range pts {
		exp[pi] = make([]ocurve.Pt, len(S))
		for si, s := range S {
			exp[pi][si] = C.Mul(p.p, new(big.Int).Mod(s.v, g.R))
		}
	}
	c.Extra(N+".scalars", len(S))
	for _, op := range g.Ops {
		key := N + "/" + op.Name
		switch op.Sem {
		case "smul", "smulbase":
			for pi, p := range pts {
				if op.Sem == "smulbase" && pi != 0 {
					continue
				}
				for si, s := range S {
					if op.Sem == "smul" && pi == 2 && si%4 != 0 {
						continue
					}
					var in []groups.Rep
					if op.Sem == "smul" {
						z := f.One()
						if si%2 == 1 {
							z = randZ()
						}
						in = []groups.Rep{g.Rep(p.p, op.In[0], z)}
					}
					keep := new(big.Int).Set(s.v)
					desc := func() string { return fmt.Sprintf("%s(%s, s=%s [%s])", op.Name, p.cls, s.v.String(), s.cls) }
					c.Current(key + " " + s.cls)
					var out groups.Rep
					if c.Guard(key+"/panic/"+s.cls, desc, func() { out = op.F(in, []*big.Int{s.v}) }) {
						continue
					}
					if out.Sys == "note" {
						c.Fail(key+"/returned-pointer-is-not-the-receiver", "%s: %s", desc(), out.Note)
						continue
					}
					c.Check(op.Name, key+"/scalar-modified", s.v.Cmp(keep) == 0, desc)
					got := g.Pt(out)
					c.Check(op.Name, key+"/mismatch/"+p.cls+"/"+s.cls, C.Eq(got, exp[pi][si]), func() string {
						return fmt.Sprintf("%s = %s, oracle [s mod r]P = %s", desc(), C.String(got), C.String(exp[pi][si]))
					})
					c.Class(key + "/" + p.cls + "/" + s.cls)
				}
			}
		case "jsmul", "jsmulbase":
			// subset of scalars for the S x S grid
			var sub []int
			W := 64 * ((g.R.BitLen() + 63) / 64)
			wordCls := map[string]bool{}
			for _, k := range []int{W, W + 1, W + 32, W + 63, W + 64} {
				wordCls[fmt.Sprintf("2^%d", k)] = true
				wordCls[fmt.Sprintf("-2^%d-1", k)] = true
			}
			for si, s := range S {
				if wordCls[s.cls] { // lengths up to one word beyond a reduced scalar
					sub = append(sub, si)
					continue
				}
				switch s.cls {
				case "small", "-small", "r-1", "-r-1", "r", "r+1", "2^64", "-2^64", "2^255", "2^256", "-2^256", "2^257", "2^1000", "-2^4096-1", "2^4096":
					sub = append(sub, si)
				case "montgomery-short", "-montgomery-short":
					if si%2 == 0 || c.Thorough() { // both scalars of a pair can be of this class
						sub = append(sub, si)
					}
				}
			}
			for k := 0; k < len(S) && len(sub) < c.Pick(26, 60); k += 5 {
				sub = append(sub, k)
			}
			for _, i1 := range sub {
				for _, i2 := range sub {
					p1, p2 := 0, 1
					if (i1+i2)%7 == 0 {
						p2 = 0 // same point twice
					}
					if (i1+i2)%11 == 0 {
						p1 = 2 // infinity as first point
					}
					s1, s2 := S[i1], S[i2]
					var in []groups.Rep
					var want ocurve.Pt
					if op.Sem == "jsmul" {
						in = []groups.Rep{g.Rep(pts[p1].p, op.In[0], f.One()), g.Rep(pts[p2].p, op.In[1], f.One())}
						want = C.Add(exp[p1][i1], exp[p2][i2])
					} else {
						in = []groups.Rep{g.Rep(pts[p2].p, op.In[0], f.One())}
						want = C.Add(exp[0][i1], exp[p2][i2])
					}
					desc := func() string {
						return fmt.Sprintf("%s(%s,%s; s1=%s [%s], s2=%s [%s])", op.Name, pts[p1].cls, pts[p2].cls, s1.v, s1.cls, s2.v, s2.cls)
					}
					c.Current(key + " " + s1.cls + " " + s2.cls)
					var out groups.Rep
					big1, big2 := "", ""
					if s1.v.BitLen() > 8*((g.R.BitLen()+63)/64)*8 {
						big1 = ">limbs"
					}
					if s2.v.BitLen() > 8*((g.R.BitLen()+63)/64)*8 {
						big2 = ">limbs"
					}
					if c.Guard(key+"/panic/s1"+big1+"/s2"+big2, desc, func() { out = op.F(in, []*big.Int{s1.v, s2.v}) }) {
						continue
					}
					if out.Sys == "note" {
						c.Fail(key+"/returned-pointer-is-not-the-receiver", "%s: %s", desc(), out.Note)
						continue
					}
					got := g.Pt(out)
					c.Check(op.Name, key+"/mismatch/"+s1.cls+"/"+s2.cls, C.Eq(got, want), func() string {
						return fmt.Sprintf("%s = %s, oracle %s", desc(), C.String(got), C.String(want))
					})
					c.Class(key + "/" + s1.cls + "/" + s2.cls)
				}
			}
		}
	}
	// same-base batch
	if g.BatchScalarMul != nil {
		for _, n := range []int{0, 1, 2, 3, 4, 5, 33, 100} {
			if n == 100 && !c.Thorough() && g.F.Deg() > 1 {
				continue
			}
			for variant := 0; variant < 3; variant++ {
				idx := make([]int, n)
				svals := make([]*big.Int, n)
				for i := range idx {
					switch variant {
					case 0:
						idx[i] = (i*7 + n) % len(S)
					case 1: // large reduced scalars: r-1, 2^(n-1) etc. stress the top window
						idx[i] = []int{8, 10, 0, 2}[i%4] % len(S)
					default:
						idx[i] = rng.Intn(len(S))
					}
					svals[i] = new(big.Int).Mod(S[idx[i]].v, g.R) // fr.Element input: reduced
				}
				for pi := 0; pi < 2; pi++ {
					base := g.Rep(pts[pi].p, "aff", f.One())
					var out []groups.Rep
					key := N + "/BatchScalarMultiplication"
					if c.Guard(fmt.Sprintf("%s/panic/n=%d", key, n), func() string { return fmt.Sprintf("n=%d variant=%d", n, variant) }, func() { out = g.BatchScalarMul(base, svals) }) {
						continue
					}
					if !c.Check("BatchScalarMultiplication", key+"/length", len(out) == n, func() string { return fmt.Sprintf("n=%d got %d", n, len(out)) }) {
						continue
					}
					for i := range out {
						got := g.Pt(out[i])
						c.Check("BatchScalarMultiplication", fmt.Sprintf("%s/mismatch/n=%d/%s", key, n, S[idx[i]].cls), C.Eq(got, exp[pi][idx[i]]), func() string {
							return fmt.Sprintf("BatchScalarMultiplication(%s, n=%d) entry %d scalar %s [%s] = %s, oracle %s", pts[pi].cls, n, i, svals[i], S[idx[i]].cls, C.String(got), C.String(exp[pi][idx[i]]))
						})
					}
					c.Class(fmt.Sprintf("%s/n%d/v%d/%s", key, n, variant, pts[pi].cls))
				}
			}
		}
	}
	// large batches: the window size of the fixed-base table grows with the batch length (cost model over c = 2..16);
	// one batch per length just above the lengths where the model switches, scalars cycling through the class list
	// so that every expected value is already known from the oracle
	if g.BatchScalarMul != nil {
		large := []int{300, 1000, 3000, 10000, 25000}
		if c.Thorough() {
			large = append(large, 70000, 200000)
		}
		for _, n := range large {
			svals := make([]*big.Int, n)
			idx := make([]int, n)
			off := rng.Intn(len(S))
			for i := range svals {
				idx[i] = (i + off) % len(S)
				svals[i] = new(big.Int).Mod(S[idx[i]].v, g.R)
			}
			base := g.Rep(pts[0].p, "aff", f.One())
			var out []groups.Rep
			key := N + "/BatchScalarMultiplication"
			if c.Guard(fmt.Sprintf("%s/panic/n=%d", key, n), func() string { return fmt.Sprintf("n=%d large", n) }, func() { out = g.BatchScalarMul(base, svals) }) {
				continue
			}
			if !c.Check("BatchScalarMultiplication", key+"/length", len(out) == n, func() string { return fmt.Sprintf("n=%d got %d", n, len(out)) }) {
				continue
			}
			bad := 0
			for i := range out {
				got := g.Pt(out[i])
				if !c.Check("BatchScalarMultiplication", fmt.Sprintf("%s/mismatch/n=%d/%s", key, n, S[idx[i]].cls), C.Eq(got, exp[0][idx[i]]), func() string {
					return fmt.Sprintf("BatchScalarMultiplication(%s, n=%d) entry %d scalar %s [%s] = %s, oracle %s", pts[0].cls, n, i, svals[i], S[idx[i]].cls, C.String(got), C.String(exp[0][idx[i]]))
				}) {
					if bad++; bad > 20 {
						break
					}
				}
			}
			c.Class(fmt.Sprintf("%s/n%d/large", key, n))
		}
	}
	c.SampleOnce(N, map[string]any{"group": N, "scalar_classes": len(S), "example_scalar": S[len(S)/2].v.String(), "class": S[len(S)/2].cls})
}

func runTE(c *mon.Ctx, g *te.Curve) {
	N := g.Name
	if err := g.Bind(); err != nil {
		c.Fail(N+"/constants/validation", "%v", err)
		return
	}
	rng := gen.New(c.Seed, "c03te/"+N)
	C := g.C
	f := g.F
	var extra []int64
	if strings.Contains(N, "bandersnatch") {
		extra = []int64{-2} // the GLV endomorphism of bandersnatch has eigenvalue sqrt(-2)
	}
	S := scalars(g.Order, rng, c.Pick(6, 40), c.Thorough(), extra...)
	type bp struct {
		p   oted.Pt
		cls string
	}
	pts := []bp{{g.B, "B"}, {C.Mul(g.B, rng.BigBelow(g.Order)), "kB"}, {C.Zero(), "O"}}
	exp := make([][]oted.Pt, len(pts))
	for pi, p := range pts {
		exp[pi] = make([]oted.Pt, len(S))
		for si, s := range S {
			exp[pi][si] = C.Mul(p.p, new(big.Int).Mod(s.v, g.Order))
		}
	}
	for _, op := range g.Ops {
		if op.Sem != "smul" {
			continue
		}
		key := N + "/" + op.Name
		for pi, p := range pts {
			for si, s := range S {
				if pi == 2 && si%4 != 0 {
					continue
				}
				z := f.One()
				if si%2 == 1 {
					z = ofield.El{rng.BigBelow(g.Q)}
					if f.IsZero(z) {
						z = f.One()
					}
				}
				in := []te.Rep{g.Rep(p.p, op.In[0], z)}
				desc := func() string { return fmt.Sprintf("%s(%s, s=%s [%s])", op.Name, p.cls, s.v, s.cls) }
				keep := new(big.Int).Set(s.v)
				var out te.Rep
				c.Current(key + " " + s.cls)
				if c.Guard(key+"/panic/"+s.cls, desc, func() { out = op.F(in, []*big.Int{s.v}) }) {
					continue
				}
				if out.Sys == "note" {
					c.Fail(key+"/returned-pointer-is-not-the-receiver", "%s: %s", desc(), out.Note)
					continue
				}
				c.Check(op.Name, key+"/scalar-modified", s.v.Cmp(keep) == 0, desc)
				got, ok := g.Pt(out)
				if ok && out.Sys == "ext" {
					ok = g.ExtConsistent(out)
				}
				c.Check(op.Name, key+"/mismatch/"+p.cls+"/"+s.cls, ok && C.Eq(got, exp[pi][si]), func() string {
					return fmt.Sprintf("%s = %s, oracle %s (well-formed %v)", desc(), g.Str(out), C.String(exp[pi][si]), ok)
				})
				c.Class(key + "/" + p.cls + "/" + s.cls)
			}
		}
	}
	c.SampleOnce(N, map[string]any{"curve": N, "scalar_classes": len(S)})
	// last: the parameters handed out by the package are the caller's own copy (a scalar multiplication that reduces
	// modulo a shared order is wrong for the rest of the process otherwise)
	if g.GetterPrivate != nil {
		if err := g.GetterPrivate(); err != nil {
			c.Fail(g.Name+"/GetEdwardsCurve/returned-parameters-share-storage-with-the-package", "%v", err)
		}
		c.Eval("GetEdwardsCurve", 1)
	}
}

func main() {
	c := mon.Init("C03")
	var wg sync.WaitGroup
	sem := make(chan struct{}, 16)
	run := func(name string, fn func()) {
		if !mon.Selected(name) {
			return
		}
		wg.Add(1)
		go func() {
			defer wg.Done()
			sem <- struct{}{}
			defer func() { <-sem }()
			defer func() {
				if r := recover(); r != nil {
					c.Fail(name+"/harness/panic", "panic outside a guarded call: %v", r)
				}
			}()
			fn()
		}()
	}
	for _, gi := range groups.All {
		gi := gi
		run(gi.Name, func() { runGroup(c, gi.New()) })
	}
	for _, ci := range te.All {
		ci := ci
		run(ci.Name, func() { runTE(c, ci.New()) })
	}
	wg.Wait()
	c.Finish()
}
