package main

import (
	"verif/harness/firstop"
	"verif/harness/mon"
)

// see package firstop
func regLazy(name string, fn func() []byte) { firstop.Reg(name, fn) }

func firstGenChild() { firstop.Child(*which) }

func firstGenConcChild() { firstop.ChildConcurrent(*which, 16) }

func firstGenConc(c *mon.Ctx) { firstop.Parent(c, nil, "firstgenconcop") }

func firstGen(c *mon.Ctx, only func(name string) bool) { firstop.Parent(c, only, "firstgenop") }
