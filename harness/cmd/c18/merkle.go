package main

import (
	"bytes"
	"crypto/sha256"
	"fmt"

	"github.com/consensys/gnark-crypto/accumulator/merkletree"

	"verif/harness/mon"
)

// Root() and Prove() of the streaming Merkle tree are queries: they give the same answer when asked again, and the tree can be extended afterwards as if it had never
// been asked. One goroutine only: the tree owns a hash object.
func merkleQueries(c *mon.Ctx, w *world) {
	if !mon.Selected("merkletree") {
		return
	}
	leaf := func(i int) []byte { return []byte(fmt.Sprintf("leaf-%03d-of-the-tree", i)) }
	for _, n := range []int{1, 2, 3, 5, 6, 7, 8, 11} {
		for _, idx := range []int{0, n / 2, n - 1} {
			key := fmt.Sprintf("merkletree/n%d", n)
			c.Current(key)
			t := merkletree.New(sha256.New())
			if err := t.SetIndex(uint64(idx)); err != nil {
				continue
			}
			for i := 0; i < n; i++ {
				t.Push(leaf(i))
			}
			r1 := t.Root()
			r2 := t.Root()
			c.Check("merkletree", key+"/Root-repeat-differs", bytes.Equal(r1, r2), func() string { return fmt.Sprintf("n=%d index=%d: %x then %x", n, idx, r1, r2) })
			pr1, ps1, _, _ := t.Prove()
			pr2, ps2, _, _ := t.Prove()
			same := bytes.Equal(pr1, pr2) && len(ps1) == len(ps2)
			for i := 0; same && i < len(ps1); i++ {
				same = bytes.Equal(ps1[i], ps2[i])
			}
			c.Check("merkletree", key+"/Prove-repeat-differs", same && bytes.Equal(pr1, r1), func() string {
				return fmt.Sprintf("n=%d index=%d: proofs of %d and %d elements", n, idx, len(ps1), len(ps2))
			})
			// extend the tree that was asked, and a twin that never was
			twin := merkletree.New(sha256.New())
			twin.SetIndex(uint64(idx))
			for i := 0; i < n+3; i++ {
				twin.Push(leaf(i))
				if i >= n {
					t.Push(leaf(i))
				}
			}
			ra, pa, _, _ := t.Prove()
			rb, pb, _, _ := twin.Prove()
			same = bytes.Equal(ra, rb) && len(pa) == len(pb)
			for i := 0; same && i < len(pa); i++ {
				same = bytes.Equal(pa[i], pb[i])
			}
			c.Check("merkletree", key+"/tree-differs-after-having-been-asked", same, func() string {
				return fmt.Sprintf("n=%d index=%d: after 3 more leaves the root is %x, a tree that was never asked gives %x", n, idx, ra, rb)
			})
			c.Class(key)
		}
	}
}
