// C18: purity, repeatability and concurrent use of shared inputs.
//   - shared(): every entry point is called on the same argument objects: solo reference, 2 more sequential
//     calls (repeatability), deep snapshots of every argument before/after (purity), then N client goroutines
//     under several GOMAXPROCS values; every recorded operation must return the solo reference
//     (history checked with porcupine against the stateless sequential model).
//   - the polynomial Pool (the one stateful concurrent object): Make/Dump histories with unique buffer ids
//     checked for linearizability per buffer (free/held register), plus exclusive-ownership patterns.
//   - -mode=firstuse: the first action of a fresh process is 64 goroutines hitting every lazily initialised
//     global at once.
//   - built with -race in the race stages (reports are violations).
package main

import (
	"bytes"
	"flag"
	"fmt"
	"reflect"
	"runtime"
	"sort"
	"strings"
	"sync"
	"sync/atomic"
	"time"
	"unsafe"

	"github.com/anishathalye/porcupine"

	"verif/harness/gen"
	"verif/harness/mon"
	"verif/harness/mon/snap"
)

var propID = flag.String("prop", "C18", "property id the results are reported under (the first-operation stage is also registered for C02)")

var mode = flag.String("mode", "all", "all | race | firstuse | firstops (children: dumpte, firstop)")

type curveRun struct {
	name string
	fn   func(c *mon.Ctx, w *world)
}

var curveRuns []curveRun

func sliceOf[T any](v ...T) []T { return v }

func elBytes[E any](v []E) []byte {
	if len(v) == 0 {
		return nil
	}
	n := len(v) * int(unsafe.Sizeof(v[0]))
	return append([]byte(nil), unsafe.Slice((*byte)(unsafe.Pointer(&v[0])), n)...)
}

func dataPtr[E any](s []E) uintptr { return uintptr(unsafe.Pointer(unsafe.SliceData(s))) }

type recorded struct {
	name string
	fn   func() []byte
	ref  []byte
}

type world struct {
	entries []recorded
	c       *mon.Ctx
	race    bool
	clock   atomic.Int64
	procs   []int
	pi      int
	slices  sync.Map
	rng     *gen.Rng
}

func (w *world) size(q, t int) int {
	if w.race {
		return q / 2
	}
	return w.c.Pick(q, t)
}
func (w *world) keepAlive(s any) { w.slices.Store(reflect.ValueOf(s).Pointer(), s) }
func (w *world) slice(id uintptr) any {
	v, _ := w.slices.Load(id)
	return v
}

type opIn struct{ name string }

// shared runs the purity / repeatability / concurrency protocol on one entry point.
func (w *world) shared(name string, args []any, fn func() []byte) {
	c := w.c
	c.Current(name)
	snapAll := func() [][32]byte {
		out := make([][32]byte, len(args))
		for i, a := range args {
			out[i] = snap.Hash(a)
		}
		return out
	}
	before := snapAll()
	var ref []byte
	// the solo call runs under the no-progress watchdog: a call that parks all its goroutines for good (or spins on a
	// trivial workload) for one setting of the task count while it returns at once for another is a dependence on
	// that option
	if !mon.Watch(c, name, func() string { return name + " (solo call)" }, 90*time.Second, func() { ref = fn() }) {
		return
	}
	if ref == nil {
		return // the call panicked (reported by the watchdog wrapper)
	}
	checkArgs := func(phase string) bool {
		after := snapAll()
		ok := true
		for i := range after {
			if after[i] != before[i] {
				c.Fail(fmt.Sprintf("%s/argument-modified/arg%d", name, i), "%s: argument %d (%T) has a different deep content after %s", name, i, args[i], phase)
				ok = false
			}
		}
		c.Eval("purity", len(args))
		return ok
	}
	w.entries = append(w.entries, recorded{name, fn, ref})
	pure := checkArgs("the first call")
	for rep := 2; rep <= 3; rep++ {
		var r []byte
		if c.Guard(name+"/panic", func() string { return fmt.Sprintf("call %d", rep) }, func() { r = fn() }) {
			return
		}
		c.Check("repeat", name+"/repeat-differs", bytes.Equal(r, ref), func() string {
			return fmt.Sprintf("%s: call #%d on the same argument objects returned %x…, the first call returned %x…", name, rep, head(r), head(ref))
		})
	}
	if !pure {
		// the call rewrites its arguments: concurrent use would only re-report the same defect as races/mismatches
		c.Class(name + "/sequential-only")
		return
	}
	// concurrent clients
	clients := []int{2, 8}
	per := 3
	if c.Thorough() && !w.race {
		clients = []int{2, 8, 64}
	}
	if w.race {
		clients = []int{4}
		per = 2
	}
	var ops []porcupine.Operation
	var mu sync.Mutex
	for _, n := range clients {
		gmp := w.procs[w.pi%len(w.procs)]
		w.pi++
		prev := runtime.GOMAXPROCS(gmp)
		var wg sync.WaitGroup
		for cl := 0; cl < n; cl++ {
			wg.Add(1)
			go func(cl int) {
				defer wg.Done()
				for k := 0; k < per; k++ {
					if (cl+k)%3 == 0 {
						runtime.Gosched()
					}
					t0 := w.clock.Add(1)
					var r []byte
					p, v := mon.Try(func() { r = fn() })
					t1 := w.clock.Add(1)
					if p {
						r = []byte(fmt.Sprintf("panic: %v", v))
					}
					mu.Lock()
					ops = append(ops, porcupine.Operation{ClientId: cl, Input: opIn{name}, Call: t0, Output: string(r), Return: t1})
					mu.Unlock()
				}
			}(cl)
		}
		wg.Wait()
		runtime.GOMAXPROCS(prev)
		c.Class(fmt.Sprintf("%s/clients%d/procs%d", name, n, gmp))
	}
	// history check: stateless sequential model - every operation must return the solo reference
	model := porcupine.Model{
		Init: func() any { return 0 },
		Step: func(st, in, out any) (bool, any) { return out.(string) == string(ref), st },
	}
	res, _ := porcupine.CheckOperationsVerbose(model, ops, 60*time.Second)
	c.Eval("history-op", len(ops))
	switch res {
	case porcupine.Illegal:
		bad := 0
		var w1 string
		for _, o := range ops {
			if o.Output.(string) != string(ref) {
				bad++
				w1 = o.Output.(string)
			}
		}
		c.Fail(name+"/concurrent-result-differs", "%s: %d of %d concurrent operations returned a value different from the solo reference (e.g. %x… vs %x…)", name, bad, len(ops), head([]byte(w1)), head(ref))
	case porcupine.Unknown:
		c.Inconclusive("history check timed out for %s", name)
	}
	checkArgs("the concurrent phase")
	c.SampleOnce("history", map[string]any{"entry": name, "operations": len(ops), "first": fmt.Sprintf("client %d call@%d return@%d", ops[0].ClientId, ops[0].Call, ops[0].Return)})
}

func head(b []byte) []byte {
	if len(b) > 12 {
		return b[:12]
	}
	return b
}

// recheck calls every recorded entry point once more, after all the other calls of the run (which went through the
// shared scratch pools, caches and lazily initialised globals): the result must still be the solo reference.
func (w *world) recheck(phase string) {
	for _, e := range w.entries {
		var r []byte
		if w.c.Guard(e.name+"/panic", func() string { return "re-check " + phase }, func() { r = e.fn() }) {
			continue
		}
		w.c.Check("recheck", e.name+"/result-changed-after-other-calls", bytes.Equal(r, e.ref), func() string {
			return fmt.Sprintf("%s: called again %s, returned %x…, its first result was %x…", e.name, phase, head(r), head(e.ref))
		})
	}
	w.c.Class("recheck/" + phase)
}

// hostile returns dst and msg carved out of ONE buffer (dst first, msg right behind it, then poison): dst has
// spare capacity that overlaps msg, so a callee appending to dst would overwrite the message. The whole buffer is
// returned too, for the purity snapshot.
func hostile(dst, msg []byte) (d, m, whole []byte) {
	whole = make([]byte, len(dst)+len(msg)+32)
	copy(whole, dst)
	copy(whole[len(dst):], msg)
	for i := len(dst) + len(msg); i < len(whole); i++ {
		whole[i] = 0xA5
	}
	return whole[:len(dst)], whole[len(dst) : len(dst)+len(msg)], whole
}

// ---- polynomial pool ----

type poolAPI struct {
	Make func(n int) (id uintptr, write func(v uint64), read func() []uint64)
	Dump func(id uintptr)
}

type poolIn struct {
	op string // "make" | "dump"
	id uintptr
}

func poolHistory(c *mon.Ctx, w *world, N string, newPool func(sizes ...int) poolAPI) {
	name := N + "/polynomial.Pool"
	rounds := 6
	clients := 8
	steps := 60
	if w.race {
		rounds, steps = 2, 30
	}
	for round := 0; round < rounds; round++ {
		p := newPool(16, 64)
		var ops []porcupine.Operation
		var mu sync.Mutex
		var wg sync.WaitGroup
		gmp := w.procs[(w.pi+round)%len(w.procs)]
		prev := runtime.GOMAXPROCS(gmp)
		var bad atomic.Int64
		for cl := 0; cl < clients; cl++ {
			wg.Add(1)
			go func(cl int) {
				defer wg.Done()
				r := gen.New(c.Seed, fmt.Sprintf("pool/%s/%d/%d", N, round, cl))
				type held struct {
					id   uintptr
					read func() []uint64
					pat  uint64
					n    int
				}
				var hs []held
				for s := 0; s < steps; s++ {
					if len(hs) == 0 || (len(hs) < 4 && r.Intn(2) == 0) {
						n := []int{1, 7, 16, 17, 40, 64}[r.Intn(6)]
						t0 := w.clock.Add(1)
						var id uintptr
						var wr func(uint64)
						var rd func() []uint64
						pn, pv := mon.Try(func() { id, wr, rd = p.Make(n) })
						t1 := w.clock.Add(1)
						if pn {
							c.Fail(name+"/Make/panic", "Make(%d) panicked under concurrent use: %v", n, pv)
							return
						}
						pat := uint64(cl+1)<<40 | uint64(s)<<8
						wr(pat)
						hs = append(hs, held{id, rd, pat, n})
						mu.Lock()
						ops = append(ops, porcupine.Operation{ClientId: cl, Input: poolIn{"make", id}, Call: t0, Output: id, Return: t1})
						mu.Unlock()
					} else {
						i := r.Intn(len(hs))
						h := hs[i]
						runtime.Gosched()
						got := h.read()
						for k, v := range got {
							if v != h.pat+uint64(k) {
								bad.Add(1)
								c.Fail(name+"/buffer-shared-between-clients", "buffer %#x handed to client %d was overwritten while held (entry %d = %#x, expected %#x)", h.id, cl, k, v, h.pat+uint64(k))
								break
							}
						}
						t0 := w.clock.Add(1)
						pn, pv := mon.Try(func() { p.Dump(h.id) })
						t1 := w.clock.Add(1)
						if pn {
							c.Fail(name+"/Dump/panic", "Dump of a held buffer panicked under concurrent use: %v", pv)
							return
						}
						hs = append(hs[:i], hs[i+1:]...)
						mu.Lock()
						ops = append(ops, porcupine.Operation{ClientId: cl, Input: poolIn{"dump", h.id}, Call: t0, Output: h.id, Return: t1})
						mu.Unlock()
					}
				}
			}(cl)
		}
		wg.Wait()
		runtime.GOMAXPROCS(prev)
		// per-buffer register model: free <-> held
		model := porcupine.Model{
			Partition: func(history []porcupine.Operation) [][]porcupine.Operation {
				m := map[uintptr][]porcupine.Operation{}
				for _, o := range history {
					id := o.Input.(poolIn).id
					m[id] = append(m[id], o)
				}
				keys := make([]uintptr, 0, len(m))
				for k := range m {
					keys = append(keys, k)
				}
				sort.Slice(keys, func(i, j int) bool { return keys[i] < keys[j] })
				out := make([][]porcupine.Operation, 0, len(m))
				for _, k := range keys {
					out = append(out, m[k])
				}
				return out
			},
			Init: func() any { return false }, // held?
			Step: func(st, in, out any) (bool, any) {
				held := st.(bool)
				if in.(poolIn).op == "make" {
					return !held, true
				}
				return held, false
			},
		}
		res, _ := porcupine.CheckOperationsVerbose(model, ops, 60*time.Second)
		c.Eval("pool-history-op", len(ops))
		bufs := map[uintptr]bool{}
		for _, o := range ops {
			bufs[o.Input.(poolIn).id] = true
		}
		switch res {
		case porcupine.Illegal:
			c.Fail(name+"/history-not-linearizable", "round %d: the Make/Dump history (%d operations on %d buffers) is not linearizable w.r.t. the free/held model: some buffer was handed out twice without an intervening Dump", round, len(ops), len(bufs))
		case porcupine.Unknown:
			c.Inconclusive("pool history check timed out")
		}
		c.Class(fmt.Sprintf("%s/round%d/procs%d/buffers%d", name, round, gmp, len(bufs)))
		if round == 0 {
			c.SampleOnce("pool-history", map[string]any{"pool": name, "operations": len(ops), "distinct_buffers": len(bufs), "clients": clients})
		}
	}
}

func main() {
	if !flag.Parsed() {
		flag.Parse()
	}
	switch *mode {
	case "dumpte":
		dumpTE()
	case "firstop":
		firstOpChild()
	case "firstgenop":
		firstGenChild()
	case "firstgenconcop":
		firstGenConcChild()
	}
	c := mon.Init(*propID)
	if *mode == "firstuse" {
		firstUse(c)
		c.Finish()
	}
	if *mode == "firstopsconc" { // every registered operation: first use of the process from 16 goroutines at once
		firstGenConc(c)
		c.Finish()
	}
	if *mode == "firstops" {
		if *propID != "C14" && *propID != "C13" {
			firstOps(c)
		}
		switch *propID {
		case "C18":
			firstGen(c, nil)
		case "C13": // hashing to fields and curves
			firstGen(c, func(name string) bool {
				return strings.Contains(name, "HashTo") || strings.Contains(name, "MapTo") || strings.Contains(name, "EncodeTo") || strings.HasSuffix(name, ".Hash")
			})
		case "C14": // the hash entry points only
			firstGen(c, func(name string) bool {
				return strings.Contains(name, "mimc") || strings.Contains(name, "poseidon2") || strings.Contains(name, "pedersen-hash")
			})
		}
		c.Finish()
	}
	w := &world{c: c, race: *mode == "race", procs: []int{1, 2, 3, 8, 16}, rng: gen.New(c.Seed, "c18")}
	sort.Slice(curveRuns, func(i, j int) bool { return curveRuns[i].name < curveRuns[j].name })
	for _, cr := range curveRuns {
		if !mon.Selected(cr.name) {
			continue
		}
		func() {
			defer func() {
				if r := recover(); r != nil {
					c.Fail(cr.name+"/harness/panic", "panic outside a guarded call: %v", r)
				}
			}()
			cr.fn(c, w)
			w.recheck("after the calls of " + cr.name)
		}()
	}
	if mon.Selected("getters") {
		globalGetters(c, w)
	}
	signatures(c, w) // filtered per package name
	transcripts(c, w)
	merkleQueries(c, w)
	if mon.Selected("small-fields") {
		smallFields(c, w)
		smallFields2(c, w)
	}
	w.recheck("at the end of the run")
	c.Extra("gomaxprocs_rotation", w.procs)
	c.Finish()
}
