package main

import (
	_ "verif/harness/firstop/smallops" // small-field operations

	"bytes"
	"crypto/sha256"
	"fmt"

	"github.com/consensys/gnark-crypto/ecc/bls12-381/bandersnatch"
	bandeddsa "github.com/consensys/gnark-crypto/ecc/bls12-381/bandersnatch/eddsa"
	bls381fr "github.com/consensys/gnark-crypto/ecc/bls12-381/fr"
	"github.com/consensys/gnark-crypto/ecc/grumpkin"
	grfr "github.com/consensys/gnark-crypto/ecc/grumpkin/fr"
	grmimc "github.com/consensys/gnark-crypto/ecc/grumpkin/fr/mimc"
	grp2 "github.com/consensys/gnark-crypto/ecc/grumpkin/fr/poseidon2"
	"github.com/consensys/gnark-crypto/ecc/secp256k1"
	starkfp2 "github.com/consensys/gnark-crypto/ecc/stark-curve/fp"
	pedersenhash "github.com/consensys/gnark-crypto/ecc/stark-curve/pedersen-hash"
)

func errb(err error) []byte {
	if err != nil {
		return []byte("|error: " + err.Error())
	}
	return []byte("|ok")
}

func init() {
	// grumpkin
	grmsg := func() []byte {
		var e grfr.Element
		e.SetUint64(12345)
		b := e.Bytes()
		e.SetUint64(777)
		b2 := e.Bytes()
		return append(b[:], b2[:]...)
	}
	regLazy("grumpkin/mimc.NewMiMC.Write.Sum", func() []byte {
		h := grmimc.NewMiMC()
		_, err := h.Write(grmsg())
		return append(h.Sum(nil), errb(err)...)
	})
	regLazy("grumpkin/mimc.Sum", func() []byte { r, err := grmimc.Sum(grmsg()); return append(r, errb(err)...) })
	regLazy("grumpkin/mimc.GetConstants", func() []byte { return []byte(renderAny(grmimc.GetConstants())) })
	regLazy("grumpkin/poseidon2.NewMerkleDamgardHasher.Write.Sum", func() []byte {
		h := grp2.NewMerkleDamgardHasher()
		_, err := h.Write(grmsg())
		return append(h.Sum(nil), errb(err)...)
	})
	regLazy("grumpkin/poseidon2.GetDefaultParameters", func() []byte { return []byte(renderAny(grp2.GetDefaultParameters())) })
	regLazy("grumpkin/HashToG1", func() []byte {
		p, err := grumpkin.HashToG1([]byte("first operation"), []byte("VERIF-V01-CS01"))
		b := p.Bytes()
		return append(b[:], errb(err)...)
	})
	regLazy("secp256k1/HashToG1", func() []byte {
		p, err := secp256k1.HashToG1([]byte("first operation"), []byte("VERIF-V01-CS01"))
		b := p.RawBytes()
		return append(b[:], errb(err)...)
	})
	regLazy("stark-curve/pedersen-hash.Pedersen", func() []byte {
		var a, b starkfp2.Element
		a.SetUint64(12345)
		b.SetUint64(777)
		r := pedersenhash.Pedersen(&a, &b)
		r2 := pedersenhash.PedersenArray(&a, &b, &a)
		x, y := r.Bytes(), r2.Bytes()
		return append(x[:], y[:]...)
	})

	// bandersnatch
	regLazy("bls12-381/bandersnatch.GetEdwardsCurve", func() []byte { return []byte(renderAny(bandersnatch.GetEdwardsCurve())) })
	regLazy("bls12-381/bandersnatch.PointAffine.SetBytes", func() []byte {
		var out []byte
		for y := uint64(2); y < 40; y++ {
			var e bls381fr.Element
			e.SetUint64(y)
			b := e.Bytes()
			for i, j := 0, len(b)-1; i < j; i, j = i+1, j-1 {
				b[i], b[j] = b[j], b[i]
			}
			var p bandersnatch.PointAffine
			_, err := p.SetBytes(b[:])
			out = append(out, errb(err)...)
			if err == nil {
				xb := p.X.Bytes()
				out = append(out, xb[:]...)
			}
		}
		return out
	})
	regLazy("bls12-381/bandersnatch.PointAffine.IsOnCurve", func() []byte {
		var p bandersnatch.PointAffine
		p.Y.SetOne()
		out := []byte(fmt.Sprint(p.IsOnCurve()))
		p.X.SetOne()
		return append(out, fmt.Sprint(p.IsOnCurve())...)
	})
	regLazy("bls12-381/bandersnatch/eddsa.GenerateKey.Sign.Verify", func() []byte {
		sk, err := bandeddsa.GenerateKey(bytes.NewReader(bytes.Repeat([]byte{0x5a, 0x11, 0xc3}, 64)))
		if err != nil {
			return errb(err)
		}
		out := sk.Public().Bytes()
		sig, err := sk.Sign([]byte("first operation"), sha256.New())
		out = append(append(out, sig...), errb(err)...)
		ok, err := sk.Public().Verify(sig, []byte("first operation"), sha256.New())
		return append(append(out, fmt.Sprint(ok)...), errb(err)...)
	})

}
