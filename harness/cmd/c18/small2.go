package main

import (
	"fmt"
	"math/big"

	b377fr "github.com/consensys/gnark-crypto/ecc/bls12-377/fr"
	b377sis "github.com/consensys/gnark-crypto/ecc/bls12-377/fr/sis"
	bn254p2 "github.com/consensys/gnark-crypto/ecc/bn254/fr/poseidon2"
	bb "github.com/consensys/gnark-crypto/field/babybear"
	bbfft "github.com/consensys/gnark-crypto/field/babybear/fft"
	bbp2 "github.com/consensys/gnark-crypto/field/babybear/poseidon2"
	bbsis "github.com/consensys/gnark-crypto/field/babybear/sis"
	gl "github.com/consensys/gnark-crypto/field/goldilocks"
	glfft "github.com/consensys/gnark-crypto/field/goldilocks/fft"
	glp2 "github.com/consensys/gnark-crypto/field/goldilocks/poseidon2"
	glsis "github.com/consensys/gnark-crypto/field/goldilocks/sis"
	kbp2 "github.com/consensys/gnark-crypto/field/koalabear/poseidon2"
	gnarkhash "github.com/consensys/gnark-crypto/hash"

	"verif/harness/gen"
	"verif/harness/mon"
)

// sisShared: one ring-SIS key object hashed repeatedly and from several goroutines (the key carries precomputed
// tables and, depending on the instantiation, scratch buffers).
func sisShared[E any](c *mon.Ctx, w *world, N string, newKey func(logDeg, logBound, max int) (any, int, error), hash func(key any, in, res []E) error, rnd func(n int) []E) {
	for _, ps := range [][2]int{{9, 16}, {6, 8}, {2, 8}} {
		key, deg, err := newKey(ps[0], ps[1], 512)
		if err != nil {
			c.Fail(N+"/sis.NewRSis/error", "%v", err)
			continue
		}
		for _, shape := range []string{"dense", "sparse"} {
			in := rnd(300)
			if shape == "sparse" {
				var zero E
				for i := range in {
					if i < 100 || i%7 != 0 {
						in[i] = zero
					}
				}
			}
			w.shared(fmt.Sprintf("%s/sis.RSis.Hash(log%d,b%d,%s) shared key", N, ps[0], ps[1], shape), []any{key, in}, func() []byte {
				res := make([]E, deg)
				if err := hash(key, in, res); err != nil {
					return []byte(err.Error())
				}
				return elBytes(res)
			})
		}
	}
}

// hasherReuse: a hasher object is reusable after Reset whatever happened to it before (its initial state is not a
// buffer that SetState / Write / Sum may overwrite), and a state handed out by State() is not rewritten later.
func hasherReuse(c *mon.Ctx, name string, newH func() gnarkhash.StateStorer, b1, b2 []byte) {
	fresh := newH()
	fresh.Write(b1)
	d0 := fresh.Sum(nil)
	h := newH()
	h.Write(b2)
	mid := append([]byte(nil), h.State()...)
	h.Reset()
	if err := h.SetState(append([]byte(nil), mid...)); err != nil { // resume a saved state on a fresh / reset object
		c.Fail(name+"/SetState/error", "%v", err)
		return
	}
	h.Write(b1)
	h.Sum(nil)
	handed := h.State()
	keep := append([]byte(nil), handed...)
	h.Reset()
	h.Write(b1)
	d1 := h.Sum(nil)
	c.Check("hasher-reuse", name+"/Reset-after-SetState/digest-differs-from-fresh-hasher", string(d0) == string(d1), func() string {
		return fmt.Sprintf("%s: New; Write(b2); s=State; Reset; SetState(s); Write(b1); Sum; Reset; Write(b1); Sum = %x, a fresh hasher gives %x", name, d1, d0)
	})
	c.Check("hasher-reuse", name+"/State/handed-out-state-rewritten", string(keep) == string(handed), func() string {
		return fmt.Sprintf("%s: the slice returned by State() changed after later calls on the hasher", name)
	})
	c.Class(name + "/hasher-reuse")
}

// smallFields2: goldilocks, babybear and the bls12-377 scalar field: ring-SIS keys, FFT domains and Poseidon2
// permutation objects shared between calls and goroutines.
func smallFields2(c *mon.Ctx, w *world) {
	{
		blk := func(n int, v byte) []byte { b := make([]byte, n); b[n-1] = v; return b }
		hasherReuse(c, "bn254/poseidon2.MerkleDamgardHasher", bn254p2.NewMerkleDamgardHasher, blk(32, 5), blk(32, 9))
		hasherReuse(c, "field/koalabear/poseidon2.MerkleDamgardHasher", kbp2.NewMerkleDamgardHasher, blk(32, 5), blk(32, 9))
		hasherReuse(c, "field/babybear/poseidon2.MerkleDamgardHasher", bbp2.NewMerkleDamgardHasher, blk(32, 5), blk(32, 9))
		hasherReuse(c, "field/goldilocks/poseidon2.MerkleDamgardHasher", glp2.NewMerkleDamgardHasher, blk(32, 5), blk(32, 9))
	}
	{
		const N = "field/goldilocks"
		rng := gen.New(c.Seed, "c18/"+N)
		q := gl.Modulus()
		rnd := func(n int) []gl.Element {
			v := make([]gl.Element, n)
			for i := range v {
				v[i].SetBigInt(rng.BigBelow(q))
			}
			return v
		}
		sisShared(c, w, N, func(d, b, m int) (any, int, error) { k, err := glsis.NewRSis(3, d, b, m); return k, 1 << d, err },
			func(k any, in, res []gl.Element) error { return k.(*glsis.RSis).Hash(in, res) }, rnd)
		d := glfft.NewDomain(4096)
		src := rnd(4096)
		w.shared(N+"/fft.Domain.FFT shared domain", []any{d, src}, func() []byte {
			a := append([]gl.Element(nil), src...)
			d.FFT(a, glfft.DIF, glfft.WithNbTasks(4))
			d.FFTInverse(a, glfft.DIT, glfft.OnCoset())
			return elBytes(a)
		})
		h := glp2.NewPermutation(8, 6, 17)
		in := rnd(8)
		w.shared(N+"/poseidon2.Permutation(t=8) shared permutation object", []any{h, in}, func() []byte {
			a := append([]gl.Element(nil), in...)
			if err := h.Permutation(a); err != nil {
				return []byte(err.Error())
			}
			return elBytes(a)
		})
	}
	{
		const N = "field/babybear"
		rng := gen.New(c.Seed, "c18/"+N)
		q := bb.Modulus()
		rnd := func(n int) []bb.Element {
			v := make([]bb.Element, n)
			for i := range v {
				v[i].SetBigInt(rng.BigBelow(q))
			}
			return v
		}
		sisShared(c, w, N, func(d, b, m int) (any, int, error) { k, err := bbsis.NewRSis(3, d, b, m); return k, 1 << d, err },
			func(k any, in, res []bb.Element) error { return k.(*bbsis.RSis).Hash(in, res) }, rnd)
		d := bbfft.NewDomain(4096)
		src := rnd(4096)
		w.shared(N+"/fft.Domain.FFT shared domain", []any{d, src}, func() []byte {
			a := append([]bb.Element(nil), src...)
			d.FFT(a, bbfft.DIF, bbfft.WithNbTasks(4))
			d.FFTInverse(a, bbfft.DIT, bbfft.OnCoset())
			return elBytes(a)
		})
		for _, t := range []int{16, 24} {
			h := bbp2.NewPermutation(t, 6, 21)
			in := rnd(t)
			w.shared(fmt.Sprintf("%s/poseidon2.Permutation(t=%d) shared permutation object", N, t), []any{h, in}, func() []byte {
				a := append([]bb.Element(nil), in...)
				if err := h.Permutation(a); err != nil {
					return []byte(err.Error())
				}
				return elBytes(a)
			})
		}
	}
	{
		const N = "bls12-377/fr"
		rng := gen.New(c.Seed, "c18/"+N)
		q := b377fr.Modulus()
		rnd := func(n int) []b377fr.Element {
			v := make([]b377fr.Element, n)
			for i := range v {
				v[i].SetBigInt(rng.BigBelow(q))
			}
			return v
		}
		_ = big.NewInt
		sisShared(c, w, N, func(d, b, m int) (any, int, error) { k, err := b377sis.NewRSis(3, d, b, m); return k, 1 << d, err },
			func(k any, in, res []b377fr.Element) error { return k.(*b377sis.RSis).Hash(in, res) }, func(n int) []b377fr.Element { return rnd(n / 10) })
	}
}
