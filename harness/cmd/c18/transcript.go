package main

import (
	"bytes"
	"crypto/sha256"
	"fmt"
	"hash"

	bn254mimc2 "github.com/consensys/gnark-crypto/ecc/bn254/fr/mimc"
	fiatshamir "github.com/consensys/gnark-crypto/fiat-shamir"

	"verif/harness/mon"
)

// Fiat-Shamir transcript: a bound value is an argument of Bind, not a buffer the transcript may keep looking at. The
// library's own callers (permutation, plookup) bind several commitments through one scratch array that they overwrite
// between the calls; the challenge must cover every value as it was when it was bound.
func transcripts(c *mon.Ctx, w *world) {
	if !mon.Selected("fiat-shamir") {
		return
	}
	val := func(i int) []byte { // 32 bytes, a canonical field element for MiMC as well
		b := make([]byte, 32)
		b[30], b[31] = byte(i+1), byte(7*i+3)
		return b
	}
	for _, hc := range []struct {
		name string
		mk   func() hash.Hash
	}{{"sha256", sha256.New}, {"mimc", func() hash.Hash { return bn254mimc2.NewMiMC() }}} {
		key := "fiat-shamir/" + hc.name
		c.Current(key)
		run := func(reuse, scribble bool) (out []byte, err error) {
			t := fiatshamir.NewTranscript(hc.mk(), "alpha", "beta")
			buf := make([]byte, 32)
			var kept [][]byte
			for i := 0; i < 3; i++ {
				v := val(i)
				if reuse {
					copy(buf, v)
					v = buf
				}
				if err = t.Bind("alpha", v); err != nil {
					return nil, err
				}
				kept = append(kept, v)
			}
			if scribble {
				for _, k := range kept {
					for j := range k {
						k[j] = 0
					}
					k[31] = 1
				}
			}
			a, err := t.ComputeChallenge("alpha")
			if err != nil {
				return nil, err
			}
			if err = t.Bind("beta", val(9)); err != nil {
				return nil, err
			}
			b, err := t.ComputeChallenge("beta")
			return append(append([]byte(nil), a...), b...), err
		}
		var ref []byte
		var err error
		if c.Guard(key+"/panic", func() string { return "fresh slices" }, func() { ref, err = run(false, false) }) || err != nil {
			c.Inconclusive("%s: reference transcript failed: %v", key, err)
			continue
		}
		for _, v := range []struct {
			name            string
			reuse, scribble bool
		}{{"one-buffer-reused-for-every-Bind", true, false}, {"bound-slices-overwritten-before-ComputeChallenge", false, true}} {
			var got []byte
			if c.Guard(key+"/panic", func() string { return v.name }, func() { got, err = run(v.reuse, v.scribble) }) {
				continue
			}
			c.Check("transcript", key+"/challenge-depends-on-the-callers-buffer/"+v.name, err == nil && bytes.Equal(got, ref), func() string {
				return fmt.Sprintf("%s: challenges %x (err=%v), with a fresh slice per Bind %x", v.name, head(got), err, head(ref))
			})
			c.Class(key + "/" + v.name)
		}
	}
}
