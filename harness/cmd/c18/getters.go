package main

import (
	"fmt"
	"math/big"
	"reflect"
	"strings"
	"sync"

	"github.com/consensys/gnark-crypto/ecc"
	bandersnatch "github.com/consensys/gnark-crypto/ecc/bls12-381/bandersnatch"
	secpfp "github.com/consensys/gnark-crypto/ecc/secp256k1/fp"
	secpfr "github.com/consensys/gnark-crypto/ecc/secp256k1/fr"
	starkfp "github.com/consensys/gnark-crypto/ecc/stark-curve/fp"
	starkfr "github.com/consensys/gnark-crypto/ecc/stark-curve/fr"
	"github.com/consensys/gnark-crypto/field/babybear"
	"github.com/consensys/gnark-crypto/field/goldilocks"
	"github.com/consensys/gnark-crypto/field/koalabear"

	"verif/harness/mon"
)

// Getters of lazily initialised or constant global state hand out values. What a caller does to the value it
// received - including in-place arithmetic on a big.Int field, which reuses the limbs - must not be visible to the
// next caller: "global state never leaks information between calls".

var bigIntType = reflect.TypeOf(big.Int{})

// render writes every number reachable from v, big.Int by value.
func render(sb *strings.Builder, v reflect.Value, depth int) {
	if depth > 8 {
		return
	}
	if v.Type() == bigIntType {
		if v.CanAddr() {
			sb.WriteString(v.Addr().Interface().(*big.Int).Text(16))
		} else {
			x := v.Interface().(big.Int)
			sb.WriteString(x.Text(16))
		}
		sb.WriteByte(';')
		return
	}
	switch v.Kind() {
	case reflect.Pointer, reflect.Interface:
		if !v.IsNil() {
			render(sb, v.Elem(), depth+1)
		}
	case reflect.Struct:
		sb.WriteByte('{')
		for i := 0; i < v.NumField(); i++ {
			if v.Type().Field(i).IsExported() {
				render(sb, v.Field(i), depth+1)
			}
		}
		sb.WriteByte('}')
	case reflect.Slice, reflect.Array:
		sb.WriteByte('[')
		for i := 0; i < v.Len(); i++ {
			render(sb, v.Index(i), depth+1)
		}
		sb.WriteByte(']')
	case reflect.Uint64, reflect.Uint32, reflect.Uint, reflect.Uint8, reflect.Uint16:
		fmt.Fprintf(sb, "%x,", v.Uint())
	case reflect.Int, reflect.Int64, reflect.Int32, reflect.Int8, reflect.Int16:
		fmt.Fprintf(sb, "%d,", v.Int())
	case reflect.Bool:
		fmt.Fprintf(sb, "%v,", v.Bool())
	case reflect.String:
		sb.WriteString(v.String())
	}
}

// scribble changes, in place, everything a caller can reach through the value it owns. variant selects the kind of
// big.Int operation (all of them keep the result inside the existing limbs, as (order-1)/2 or order-1 would).
func scribble(v reflect.Value, variant, depth int) int {
	if depth > 8 {
		return 0
	}
	if v.Type() == bigIntType && v.CanAddr() {
		x := v.Addr().Interface().(*big.Int)
		switch variant % 4 {
		case 0:
			x.Rsh(x, 1)
		case 1:
			x.Sub(x, big.NewInt(1))
		case 2:
			x.SetUint64(7)
		default:
			for i, w := range x.Bits() {
				x.Bits()[i] = w ^ 0x5555
			}
		}
		return 1
	}
	n := 0
	switch v.Kind() {
	case reflect.Pointer, reflect.Interface:
		if !v.IsNil() {
			n += scribble(v.Elem(), variant, depth+1)
		}
	case reflect.Struct:
		for i := 0; i < v.NumField(); i++ {
			if v.Type().Field(i).IsExported() {
				n += scribble(v.Field(i), variant, depth+1)
			}
		}
	case reflect.Slice, reflect.Array:
		for i := 0; i < v.Len(); i++ {
			n += scribble(v.Index(i), variant, depth+1)
		}
	case reflect.Uint64, reflect.Uint32, reflect.Uint, reflect.Uint8, reflect.Uint16:
		if v.CanSet() {
			v.SetUint(v.Uint() ^ 0x33)
			n++
		}
	}
	return n
}

func renderAny(x any) string {
	var sb strings.Builder
	render(&sb, reflect.ValueOf(x), 0)
	return sb.String()
}

// owned puts the returned value in an addressable box, as a caller's local variable would be (a shallow copy: any
// slice or limb sharing with the library's state is kept).
func owned(x any) reflect.Value {
	b := reflect.New(reflect.TypeOf(x)).Elem()
	b.Set(reflect.ValueOf(x))
	return b
}

// getterPrivacy: get, modify the received value in place, get again - sequentially with every kind of in-place
// modification, then from concurrent callers (under the race detector the shared limbs are a reported race).
func getterPrivacy(c *mon.Ctx, w *world, name string, get func() any) {
	c.Current(name + " returned value is private")
	var ref string
	if c.Guard(name+"/panic", func() string { return "first call" }, func() { ref = renderAny(get()) }) {
		return
	}
	for variant := 0; variant < 4; variant++ {
		var touched int
		var again string
		if c.Guard(name+"/panic", func() string { return fmt.Sprintf("variant %d", variant) }, func() {
			mine := owned(get())
			touched = scribble(mine, variant, 0)
			again = renderAny(get())
		}) {
			return
		}
		c.AddExtra("getter_values_modified_in_place", int64(touched))
		if touched == 0 {
			c.Inconclusive("%s: nothing in the returned value could be modified", name)
		}
		c.Check("getter-privacy", name+"/caller-modification-visible-to-next-call", again == ref, func() string {
			return fmt.Sprintf("in-place modification #%d of the value one caller received changed what the next call returns:\n first: %.200s\n after: %.200s", variant, ref, again)
		})
		if again != ref {
			return
		}
	}
	var wg sync.WaitGroup
	outs := make([]string, 8)
	for g := range outs {
		wg.Add(1)
		go func(g int) {
			defer wg.Done()
			defer func() { recover() }()
			for rep := 0; rep < 4; rep++ {
				mine := owned(get())
				scribble(mine, g+rep, 0)
				outs[g] = renderAny(get())
			}
		}(g)
	}
	wg.Wait()
	for g, o := range outs {
		c.Check("getter-privacy", name+"/concurrent-callers-see-each-others-modifications", o == ref, func() string {
			return fmt.Sprintf("goroutine %d obtained %.200s instead of %.200s while other goroutines modified their own copies", g, o, ref)
		})
	}
}

// getters of packages outside the seven pairing curves
func globalGetters(c *mon.Ctx, w *world) {
	for _, id := range ecc.Implemented() {
		id := id
		getterPrivacy(c, w, "ecc.ID("+id.String()+").ScalarField", func() any { return id.ScalarField() })
		getterPrivacy(c, w, "ecc.ID("+id.String()+").BaseField", func() any { return id.BaseField() })
	}
	getterPrivacy(c, w, "bls12-381/bandersnatch.GetEdwardsCurve", func() any { return bandersnatch.GetEdwardsCurve() })
	getterPrivacy(c, w, "secp256k1/fp.Modulus", func() any { return secpfp.Modulus() })
	getterPrivacy(c, w, "secp256k1/fr.Modulus", func() any { return secpfr.Modulus() })
	getterPrivacy(c, w, "stark-curve/fp.Modulus", func() any { return starkfp.Modulus() })
	getterPrivacy(c, w, "stark-curve/fr.Modulus", func() any { return starkfr.Modulus() })
	getterPrivacy(c, w, "koalabear.Modulus", func() any { return koalabear.Modulus() })
	getterPrivacy(c, w, "babybear.Modulus", func() any { return babybear.Modulus() })
	getterPrivacy(c, w, "goldilocks.Modulus", func() any { return goldilocks.Modulus() })
}

// callMap calls a map-to-curve function that takes a field element by pointer or by value and returns a point.
func callMap(fn any, u any) []byte {
	f := reflect.ValueOf(fn)
	arg := reflect.ValueOf(u)
	if f.Type().In(0).Kind() != reflect.Pointer {
		arg = arg.Elem()
	}
	out := f.Call([]reflect.Value{arg})[0]
	p := reflect.New(out.Type())
	p.Elem().Set(out)
	b := p.MethodByName("RawBytes").Call(nil)[0]
	return []byte(fmt.Sprintf("%x", b.Interface()))
}
