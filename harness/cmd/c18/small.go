package main

import (
	"fmt"
	"sync"

	bls377te "github.com/consensys/gnark-crypto/ecc/bls12-377/twistededwards"
	"github.com/consensys/gnark-crypto/ecc/bls12-381/bandersnatch"
	bls381mimc "github.com/consensys/gnark-crypto/ecc/bls12-381/fr/mimc"
	bls381te "github.com/consensys/gnark-crypto/ecc/bls12-381/twistededwards"
	bn254fr "github.com/consensys/gnark-crypto/ecc/bn254/fr"
	bn254mimc "github.com/consensys/gnark-crypto/ecc/bn254/fr/mimc"
	bn254poly "github.com/consensys/gnark-crypto/ecc/bn254/fr/polynomial"
	bn254p2 "github.com/consensys/gnark-crypto/ecc/bn254/fr/poseidon2"
	bn254te "github.com/consensys/gnark-crypto/ecc/bn254/twistededwards"
	bw6761te "github.com/consensys/gnark-crypto/ecc/bw6-761/twistededwards"
	kb "github.com/consensys/gnark-crypto/field/koalabear"
	kbext "github.com/consensys/gnark-crypto/field/koalabear/extensions"
	kbfft "github.com/consensys/gnark-crypto/field/koalabear/fft"
	kbp2 "github.com/consensys/gnark-crypto/field/koalabear/poseidon2"
	kbsis "github.com/consensys/gnark-crypto/field/koalabear/sis"
	"github.com/consensys/gnark-crypto/field/koalabear/vortex"

	"verif/harness/gen"
	"verif/harness/mon"
)

// smallFields: koalabear kernels and Vortex on shared parameter objects.
func smallFields(c *mon.Ctx, w *world) {
	const N = "field/koalabear"
	rng := gen.New(c.Seed, "c18/"+N)
	q := kb.Modulus()
	rnd := func(n int) []kb.Element {
		v := make([]kb.Element, n)
		for i := range v {
			v[i].SetBigInt(rng.BigBelow(q))
		}
		return v
	}
	for _, ps := range [][3]int{{16, 6, 21}, {24, 6, 21}, {16, 8, 13}} {
		h := kbp2.NewPermutation(ps[0], ps[1], ps[2])
		in := rnd(ps[0])
		w.shared(fmt.Sprintf("%s/poseidon2.Permutation(t=%d,rf=%d,rp=%d) shared permutation object", N, ps[0], ps[1], ps[2]), []any{h, in}, func() []byte {
			a := append([]kb.Element(nil), in...)
			if err := h.Permutation(a); err != nil {
				return []byte(err.Error())
			}
			return elBytes(a)
		})
	}
	for _, ps := range [][2]int{{9, 16}, {6, 8}} {
		key, err := kbsis.NewRSis(3, ps[0], ps[1], 512)
		if err != nil {
			c.Fail(N+"/sis.NewRSis/error", "%v", err)
			continue
		}
		in := rnd(300)
		w.shared(fmt.Sprintf("%s/sis.RSis.Hash(log%d,b%d) shared key", N, ps[0], ps[1]), []any{key, in}, func() []byte {
			res := make([]kb.Element, key.Degree)
			if err := key.Hash(in, res); err != nil {
				return []byte(err.Error())
			}
			return elBytes(res)
		})
	}
	{
		d := kbfft.NewDomain(4096)
		src := rnd(4096)
		w.shared(N+"/fft.Domain.FFT shared domain", []any{d, src}, func() []byte {
			a := append([]kb.Element(nil), src...)
			d.FFT(a, kbfft.DIF, kbfft.WithNbTasks(4))
			d.FFTInverse(a, kbfft.DIT, kbfft.OnCoset())
			return elBytes(a)
		})
	}
	// Vortex: shared params, shared input matrix, shared proof
	{
		numCol, numRow := 64, 16
		sisParams, _ := kbsis.NewRSis(0, 9, 16, numRow)
		params, err := vortex.NewParams(numCol, numRow, sisParams, 2, 4)
		if err != nil {
			c.Fail(N+"/vortex.NewParams/error", "%v", err)
			return
		}
		m := make([][]kb.Element, numRow)
		for i := range m {
			m[i] = rnd(numCol)
		}
		var x, alpha kbext.E4
		e4 := rnd(8)
		x.B0.A0, x.B0.A1, x.B1.A0, x.B1.A1 = e4[0], e4[1], e4[2], e4[3]
		alpha.B0.A0, alpha.B0.A1, alpha.B1.A0, alpha.B1.A1 = e4[4], e4[5], e4[6], e4[7]
		ys := make([]kbext.E4, numRow)
		for i := range m {
			ys[i], _ = vortex.EvalBasePolyLagrange(m[i], x)
		}
		cols := []int{0, 5, 17, 63}
		w.shared(N+"/vortex.Commit+OpenLinComb+OpenColumns(params,matrix)", []any{params, m}, func() []byte {
			ps, err := vortex.Commit(params, m)
			if err != nil {
				return []byte(err.Error())
			}
			ps.OpenLinComb(alpha)
			proof, err := ps.OpenColumns(cols)
			if err != nil {
				return []byte(err.Error())
			}
			root := ps.GetCommitment()
			out := elBytes(root[:])
			out = append(out, elBytes(proof.UAlpha)...)
			for _, col := range proof.OpenedColumns {
				out = append(out, elBytes(col)...)
			}
			return out
		})
		ps, err := vortex.Commit(params, m)
		if err == nil {
			ps.OpenLinComb(alpha)
			proof, err := ps.OpenColumns(cols)
			if err == nil {
				in := vortex.VerifierInput{Proof: proof, MerkleRoot: ps.GetCommitment(), ClaimedValues: ys, EvaluationPoint: x, Alpha: alpha, SelectedColumns: cols}
				w.shared(N+"/vortex.Params.Verify(input) shared params and proof", []any{params, &in}, func() []byte {
					return []byte(fmt.Sprint(params.Verify(in)))
				})
			}
		}
	}
}

// firstUse: the first action of this process: 64 goroutines hit every lazily initialised global at once;
// all results must agree with each other and with a later sequential call.
func firstUse(c *mon.Ctx) {
	var msg []byte
	for i := 0; i < 2; i++ {
		var e bn254fr.Element
		e.SetUint64(uint64(12345 + i))
		b := e.Bytes()
		msg = append(msg, b[:]...)
	}
	var msg381 []byte
	{
		var z [32]byte
		z[31] = 7
		msg381 = append(z[:], z[:]...)
	}
	vals := make([]bn254fr.Element, 6)
	for i := range vals {
		vals[i].SetUint64(uint64(3*i + 1))
	}
	type fu struct {
		name string
		fn   func() string
	}
	fns := []fu{
		{"bn254/twistededwards.GetEdwardsCurve", func() string { return fmt.Sprint(bn254te.GetEdwardsCurve()) }},
		{"bls12-381/twistededwards.GetEdwardsCurve", func() string { return fmt.Sprint(bls381te.GetEdwardsCurve()) }},
		{"bls12-381/bandersnatch.GetEdwardsCurve", func() string { return fmt.Sprint(bandersnatch.GetEdwardsCurve()) }},
		{"bls12-377/twistededwards.GetEdwardsCurve", func() string { return fmt.Sprint(bls377te.GetEdwardsCurve()) }},
		{"bw6-761/twistededwards.GetEdwardsCurve", func() string { return fmt.Sprint(bw6761te.GetEdwardsCurve()) }},
		{"bn254/mimc.NewMiMC().Sum", func() string { h := bn254mimc.NewMiMC(); h.Write(msg); return fmt.Sprintf("%x", h.Sum(nil)) }},
		{"bls12-381/mimc.NewMiMC().Sum", func() string { h := bls381mimc.NewMiMC(); h.Write(msg381); return fmt.Sprintf("%x", h.Sum(nil)) }},
		{"bn254/mimc.GetConstants", func() string { return fmt.Sprint(bn254mimc.GetConstants()[:3]) }},
		{"bn254/poseidon2.GetDefaultParameters", func() string {
			p := bn254p2.GetDefaultParameters()
			return fmt.Sprint(p.Width, p.NbFullRounds, p.NbPartialRounds, p.RoundKeys[0])
		}},
		{"bn254/polynomial.InterpolateOnRange", func() string { return fmt.Sprint(bn254poly.InterpolateOnRange(vals)) }},
		{"bn254/poseidon2.NewMerkleDamgardHasher", func() string {
			h := bn254p2.NewMerkleDamgardHasher()
			h.Write(msg)
			return fmt.Sprintf("%x", h.Sum(nil))
		}},
	}
	const G = 64
	results := make([][]string, len(fns))
	for i := range results {
		results[i] = make([]string, G)
	}
	var start, wg sync.WaitGroup
	start.Add(1)
	for g := 0; g < G; g++ {
		wg.Add(1)
		go func(g int) {
			defer wg.Done()
			start.Wait()
			for k := range fns {
				i := (k + g) % len(fns) // different goroutines start on different globals
				p, v := mon.Try(func() { results[i][g] = fns[i].fn() })
				if p {
					results[i][g] = fmt.Sprintf("panic: %v", v)
				}
			}
		}(g)
	}
	start.Done()
	wg.Wait()
	for i, f := range fns {
		ref := f.fn()
		bad := 0
		for g := 0; g < G; g++ {
			if results[i][g] != ref {
				bad++
			}
		}
		c.Check("first-use", f.name+"/first-use-result-differs", bad == 0, func() string {
			return fmt.Sprintf("%s: %d of %d simultaneous first users obtained a value different from a later sequential call", f.name, bad, G)
		})
		c.Eval("first-use", G-1)
		c.Class(f.name + "/first-use")
	}
	c.Sample(map[string]any{"mode": "firstuse", "goroutines": G, "globals": len(fns)})
}
