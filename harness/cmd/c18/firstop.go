package main

import (
	"encoding/json"
	"flag"
	"fmt"
	"math/big"
	"os"
	"os/exec"
	"strings"

	"verif/harness/adapt/te"
	"verif/harness/mon"
	"verif/harness/oracle/ofield"
	"verif/harness/oracle/oted"
)

// First operation of a process on a package with lazily initialised parameters (the twisted Edwards packages keep
// their curve constants behind a sync.Once): whatever exported operation comes first must already compute on the
// right curve. The parent (stage -mode=firstops) asks a child (-mode=dumpte) for the constants, then starts one child
// per operation index (-mode=firstop -which=k); in such a child the adapters are built from the dumped constants
// (te.Preset), so the library's parameters are untouched until operation (k + package index) mod #ops of each
// package is executed on operands built from stored coordinates. Its result is compared with the big-integer
// Edwards group law. Further operations then follow in the same child (their results must also be right).

var (
	which    = flag.Int("which", 0, "firstop: operation index")
	dumpFile = flag.String("dump", "", "firstop: file with the constants written by -mode=dumpte")
)

type teDump map[string][6]string // path -> Order, Cofactor, A, D, BaseX, BaseY (decimal)

func dumpTE() {
	out := teDump{}
	for _, ci := range te.All {
		g := ci.New()
		out[g.Name] = [6]string{g.Order.String(), g.Cofactor.String(), g.A.String(), g.D.String(), g.Base.C[0][0].String(), g.Base.C[1][0].String()}
	}
	b, _ := json.Marshal(out)
	if err := os.WriteFile(*dumpFile, b, 0o644); err != nil {
		fmt.Println("ERROR", err)
		os.Exit(3)
	}
	os.Exit(0)
}

func bi(s string) *big.Int { v, _ := new(big.Int).SetString(s, 10); return v }

// firstOpChild prints one line per (package, operation): "RES <package>|<op>|<first|later>|ok" or "...|MISMATCH <detail>".
func firstOpChild() {
	raw, err := os.ReadFile(*dumpFile)
	if err != nil {
		fmt.Println("ERROR", err)
		os.Exit(3)
	}
	var d teDump
	if err := json.Unmarshal(raw, &d); err != nil {
		fmt.Println("ERROR", err)
		os.Exit(3)
	}
	for k, v := range d {
		te.Preset[k] = te.PresetConsts{Order: bi(v[0]), Cofactor: bi(v[1]), A: bi(v[2]), D: bi(v[3]), BaseX: bi(v[4]), BaseY: bi(v[5])}
	}
	for pi, ci := range te.All {
		g := ci.New() // does not touch the library parameters (Preset)
		if err := g.Bind(); err != nil {
			fmt.Printf("RES %s|Bind|first|MISMATCH %v\n", g.Name, err)
			continue
		}
		C, f := g.C, g.F
		P1, P2 := C.Mul(g.B, big.NewInt(5)), C.Mul(g.B, big.NewInt(11))
		z1, z2 := f.FromInt(big.NewInt(7)), f.FromInt(big.NewInt(13))
		var ops []te.Op
		for _, op := range g.Ops {
			switch op.Sem {
			case "add", "dbl", "neg", "id", "smul", "oncurve":
				if !strings.Contains(op.Name, "/inplace") {
					ops = append(ops, op)
				}
			}
		}
		order := make([]int, 0, len(ops))
		for j := range ops {
			order = append(order, (*which+pi+j)%len(ops))
		}
		for n, oi := range order {
			if n >= 4 {
				break // the first operation, then three more in the same process
			}
			op := ops[oi]
			in := make([]te.Rep, len(op.In))
			pts := []oted.Pt{P1, P2}
			zs := []ofield.El{z1, z2}
			for a, sys := range op.In {
				in[a] = g.Rep(pts[a%2], sys, zs[a%2])
			}
			var sc []*big.Int
			if op.NScalars > 0 {
				sc = []*big.Int{big.NewInt(-9)}
			}
			var want oted.Pt
			wantBool, isBool := false, false
			ok := true
			switch op.Sem {
			case "add":
				want, ok = C.Add(P1, P2)
			case "dbl":
				want, ok = C.Add(P1, P1)
			case "neg":
				want = C.Neg(P1)
			case "id":
				want = P1
			case "smul":
				want = C.Mul(P1, sc[0])
			case "oncurve":
				wantBool, isBool = true, true
			}
			if !ok {
				continue
			}
			phase := "later"
			if n == 0 {
				phase = "first"
			}
			var res te.Rep
			pan, pv := mon.Try(func() { res = op.F(in, sc) })
			switch {
			case pan:
				fmt.Printf("RES %s|%s|%s|MISMATCH panic %v\n", g.Name, op.Name, phase, pv)
			case isBool:
				if res.B == wantBool {
					fmt.Printf("RES %s|%s|%s|ok\n", g.Name, op.Name, phase)
				} else {
					fmt.Printf("RES %s|%s|%s|MISMATCH %s(5B) = %v\n", g.Name, op.Name, phase, op.Name, res.B)
				}
			default:
				got, okp := g.Pt(res)
				if okp && C.Eq(got, want) {
					fmt.Printf("RES %s|%s|%s|ok\n", g.Name, op.Name, phase)
				} else {
					fmt.Printf("RES %s|%s|%s|MISMATCH %s on 5B (and 11B / scalar -9) = %s, the group law gives (%s, %s)\n", g.Name, op.Name, phase, op.Name, g.Str(res), f.String(want.X), f.String(want.Y))
				}
			}
		}
	}
	os.Exit(0)
}

// firstOps is the stage: it spawns the children and turns their lines into checks.
func firstOps(c *mon.Ctx) {
	self, err := os.Executable()
	if err != nil {
		c.Inconclusive("first-op: %v", err)
		return
	}
	tmp, err := os.CreateTemp("", "c18-tedump-*.json")
	if err != nil {
		c.Inconclusive("first-op: %v", err)
		return
	}
	tmp.Close()
	defer os.Remove(tmp.Name())
	if out, err := exec.Command(self, "-mode=dumpte", "-dump="+tmp.Name()).CombinedOutput(); err != nil {
		c.Inconclusive("first-op: dump child failed: %v %s", err, out)
		return
	}
	nOps := 26 // at least the number of operations of a package: each one is the first operation of some child
	for k := 0; k < nOps; k++ {
		out, err := exec.Command(self, "-mode=firstop", fmt.Sprintf("-which=%d", k), "-dump="+tmp.Name()).CombinedOutput()
		if err != nil {
			c.Fail(fmt.Sprintf("first-op/child-crashed/which=%d", k), "child %d died: %v; output tail: %s", k, err, tail(string(out), 600))
			continue
		}
		for _, line := range strings.Split(string(out), "\n") {
			if !strings.HasPrefix(line, "RES ") {
				continue
			}
			p := strings.SplitN(line[4:], "|", 4)
			if len(p) != 4 {
				continue
			}
			c.Check("first-op", p[0]+"/"+p[1]+"/first-operation-of-the-process-wrong/"+p[2], p[3] == "ok", func() string {
				return fmt.Sprintf("%s as the %s operation of a fresh process on %s (operands built from stored coordinates, curve parameters never requested): %s", p[1], p[2], p[0], p[3])
			})
			c.Class(p[0] + "/" + p[1] + "/" + p[2])
		}
	}
}

func tail(s string, n int) string {
	if len(s) > n {
		return s[len(s)-n:]
	}
	return s
}
