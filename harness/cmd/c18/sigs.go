package main

import (
	"bytes"
	"crypto/sha256"
	"fmt"
	"hash"
	"math/big"

	"github.com/consensys/gnark-crypto/signature"

	"verif/harness/adapt/sigs"
	"verif/harness/mon"
)

// Signature packages: keys, messages, (r, s) pairs and hash objects handed to Sign / Verify / RecoverFrom are the
// caller's. Keys and integers are shared read-only inputs (purity, repeatability, concurrent use through w.shared);
// a hash object is used by one goroutine at a time, but the same object is used again - after Sign, after Verify,
// after the caller hashed something else - and the outcome may not depend on what it was used for before.
func signatures(c *mon.Ctx, w *world) {
	msg := []byte("calls are pure, repeatable and safe to run concurrently")
	seed := func(b byte) *bytes.Reader { return bytes.NewReader(bytes.Repeat([]byte{b, 0x3c, 0xa5, 0x11}, 128)) }
	errs := func(err error) []byte {
		if err != nil {
			return []byte("|error: " + err.Error())
		}
		return []byte("|ok")
	}
	hashers := []struct {
		name string
		mk   func() hash.Hash
	}{{"sha256", sha256.New}}
	for _, ed := range sigs.AllEdDSA {
		if !mon.Selected(ed.Name) {
			continue
		}
		d := ed.New()
		N := ed.Name
		sk, err := d.GenerateKey(seed(7))
		if err != nil {
			c.Inconclusive("%s: GenerateKey: %v", N, err)
			continue
		}
		pk := sk.Public()
		var sig0 []byte
		w.shared(N+"/Sign(msg,new sha256)", []any{sk, msg}, func() []byte {
			s, err := sk.Sign(msg, sha256.New())
			if sig0 == nil {
				sig0 = append([]byte(nil), s...)
			}
			return append(append([]byte(nil), s...), errs(err)...)
		})
		if sig0 == nil {
			continue
		}
		sigArg := append([]byte(nil), sig0...)
		w.shared(N+"/Verify(sig,msg,new sha256)", []any{pk, sigArg, msg}, func() []byte {
			ok, err := pk.Verify(sigArg, msg, sha256.New())
			return append([]byte(fmt.Sprint(ok)), errs(err)...)
		})
		for _, hc := range append(hashers, struct {
			name string
			mk   func() hash.Hash
		}{"mimc", d.MiMC}) {
			m := msg
			if hc.name == "mimc" {
				m = make([]byte, 2*d.FrBytes) // two canonical elements
				m[d.FrBytes-1], m[2*d.FrBytes-1] = 5, 9
			}
			key := N + "/one-hash-object(" + hc.name + ")"
			c.Current(key)
			var ref []byte
			if c.Guard(key+"/panic", func() string { return "reference signature" }, func() { ref, err = sk.Sign(m, hc.mk()) }) || err != nil {
				continue
			}
			h := hc.mk()
			step := func(what string, fn func() ([]byte, bool, error)) {
				var s []byte
				var ok bool
				var e error
				if c.Guard(key+"/panic", func() string { return what }, func() { s, ok, e = fn() }) {
					return
				}
				if s != nil {
					c.Check("hash-object-reuse", key+"/signature-depends-on-previous-use-of-the-hash-object", e == nil && bytes.Equal(s, ref), func() string {
						return fmt.Sprintf("%s: %x err=%v, with a new hash object %x", what, head(s), e, head(ref))
					})
				} else {
					c.Check("hash-object-reuse", key+"/verification-depends-on-previous-use-of-the-hash-object", ok && e == nil, func() string {
						return fmt.Sprintf("%s: ok=%v err=%v", what, ok, e)
					})
				}
			}
			sign := func() ([]byte, bool, error) { s, e := sk.Sign(m, h); return s, false, e }
			verify := func() ([]byte, bool, error) { ok, e := pk.Verify(ref, m, h); return nil, ok, e }
			step("Sign (first use)", sign)
			step("Verify after Sign", verify)
			step("Sign after Verify", sign)
			step("Sign after Sign", sign)
			step("Verify after Verify", verify)
			step("Verify after Verify", verify)
			h.Write(m) // the caller hashed something of its own
			step("Sign after the caller's own Write", sign)
			h.Write(m)
			step("Verify after the caller's own Write", verify)
			c.Class(key)
		}
	}
	for _, ec := range sigs.AllECDSA {
		if !mon.Selected(ec.Name) {
			continue
		}
		d := ec.New()
		N := ec.Name
		sk, err := d.GenerateKey(seed(9))
		if err != nil {
			c.Inconclusive("%s: GenerateKey: %v", N, err)
			continue
		}
		pk := sk.Public()
		// one hash object through Sign / Verify / Sign (signatures are randomised: each must verify with a new object)
		{
			key := N + "/one-hash-object(sha256)"
			c.Current(key)
			h := sha256.New()
			check := func(what string) {
				var s []byte
				var e error
				if c.Guard(key+"/panic", func() string { return what }, func() { s, e = sk.Sign(msg, h) }) {
					return
				}
				ok, e2 := pk.Verify(s, msg, sha256.New())
				c.Check("hash-object-reuse", key+"/signature-depends-on-previous-use-of-the-hash-object", e == nil && ok && e2 == nil, func() string {
					return fmt.Sprintf("%s: err=%v; verification with a new hash object: %v %v", what, e, ok, e2)
				})
				ok, e2 = pk.Verify(s, msg, h)
				c.Check("hash-object-reuse", key+"/verification-depends-on-previous-use-of-the-hash-object", ok && e2 == nil, func() string {
					return fmt.Sprintf("Verify with the same object after %s: %v %v", what, ok, e2)
				})
			}
			check("Sign (first use)")
			check("Sign after Verify")
			check("Sign after Verify (again)")
			h.Write(msg)
			check("Sign after the caller's own Write")
			c.Class(key)
		}
		// recovery: the (r, s) pair is the caller's signature; every recovery id
		if d.SignForRecover != nil && d.RecoverFrom != nil {
			v0, r0, s0, err := d.SignForRecover(sk, msg, sha256.New())
			if err == nil {
				r, s := new(big.Int).Set(r0), new(big.Int).Set(s0)
				for dv := uint(0); dv < 4; dv++ {
					v := (v0 + dv) % 4
					w.shared(fmt.Sprintf("%s/RecoverFrom(msg,v=%d,r,s)/honest-signature", N, v), []any{msg, r, s}, func() []byte {
						p, err := d.RecoverFrom(msg, v, r, s)
						if err != nil {
							return errs(err)
						}
						return append(p.Bytes(), errs(err)...)
					})
				}
			}
			// small r: r + n is still below p on curves where p - n is large (secp256k1: about 2^128), so the ids 2 and 3
			// take the "x = r + n" branch with a candidate that exists
			for _, rv := range []int64{1, 2, 3, 5, 7} {
				r, s := big.NewInt(rv), big.NewInt(3*rv+1)
				for v := uint(0); v < 4; v++ {
					w.shared(fmt.Sprintf("%s/RecoverFrom(msg,v=%d,r=%d,s)", N, v, rv), []any{msg, r, s}, func() []byte {
						p, err := d.RecoverFrom(msg, v, r, s)
						if err != nil || p == nil {
							return errs(err)
						}
						return append(p.Bytes(), errs(err)...)
					})
				}
			}
		}
	}
}

var _ signature.PublicKey
