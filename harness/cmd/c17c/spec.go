package main

import (
	"math/big"
	"sort"
	"strings"
)

// The reference verifiers: every check the scheme's specification asks of a verifier, evaluated with math/big on
// the neutral image of the proof object. They return the names of the checks that FAIL (empty = accept).
//
// Permutation argument (grand product, PLONK sect. 5 / Bayer-Groth), statement (size n, [t1], [t2]):
//   the values of t1 and t2 on the subgroup <g> of order n are the same multiset.
//   eps <- FS([t1],[t2]); Z(1) = 1, Z(gX)(eps - t2(X)) = Z(X)(eps - t1(X)) on <g>; omega <- FS([Z]);
//   q = [Z(gX)(eps-t2) - Z(eps-t1) + omega*L0*(Z-1)] / (X^n-1), L0 = (X^n-1)/(X-1); eta <- FS([q]).
//   checks: "identity" (at eta, on the claimed values), "batch-kzg" (t1,t2,Z,q opened at eta),
//   "shift-kzg" (Z opened at g*eta), "generator" (g has order exactly n).

const (
	ckIdentity  = "identity"
	ckBatchKZG  = "batch-kzg"
	ckShiftKZG  = "shift-kzg"
	ckGenerator = "generator"
	ckShape     = "shape" // wrong number of claimed values / digests (malformed object)
)

type permTerms struct{ rec, l0 bool }

var permAll = permTerms{true, true}

func (e *env) permChallenges(p permP) (eps, omega, eta *big.Int) {
	t := e.newTranscript("epsilon", "omega", "eta")
	eps = t.challenge("epsilon", p.T1, p.T2)
	omega = t.challenge("omega", p.Z)
	eta = t.challenge("eta", p.Q)
	return
}

// permIdentityLHS returns the numerator at eta computed from the claimed values (terms selectable) and eta^n - 1.
func (e *env) permNumerator(p permP, tm permTerms, eps, omega, eta *big.Int) (num, zh *big.Int) {
	F := e.F
	zh = F.Sub(F.Exp(eta, p.Size), one)
	num = new(big.Int)
	if tm.rec {
		a := F.Mul(F.Sub(eps, p.BV[1]), p.SV)
		b := F.Mul(F.Sub(eps, p.BV[0]), p.BV[2])
		num = F.Add(num, F.Sub(a, b))
	}
	if tm.l0 {
		l0 := F.Mul(zh, F.Inv(F.Sub(eta, one)))
		num = F.Add(num, F.Mul(omega, F.Mul(l0, F.Sub(p.BV[2], one))))
	}
	return
}

// permOracle: ch, when given, replaces the challenges (eps, omega, eta) derived from the proof - used only to validate
// forgeries that are built against a verifier deriving its challenges differently.
func (e *env) permOracle(p permP, tm permTerms, ch ...*big.Int) []string {
	var fail []string
	if len(p.BV) != 4 || p.Size < 1 {
		return []string{ckShape}
	}
	F := e.F
	eps, omega, eta := e.permChallenges(p)
	if len(ch) == 3 {
		eps, omega, eta = ch[0], ch[1], ch[2]
	}
	if eta.Cmp(one) == 0 {
		return []string{"degenerate-challenge"}
	}
	num, zh := e.permNumerator(p, tm, eps, omega, eta)
	if num.Cmp(F.Mul(zh, p.BV[3])) != 0 {
		fail = append(fail, ckIdentity)
	}
	if e.in.BatchVerify([]any{p.T1, p.T2, p.Z, p.Q}, p.BH, p.BV, eta, e.vk) != nil {
		fail = append(fail, ckBatchKZG)
	}
	if e.in.KzgVerify(p.Z, p.SH, p.SV, F.Mul(eta, p.G), e.vk) != nil {
		fail = append(fail, ckShiftKZG)
	}
	if !e.exactOrder(p.G, p.Size) {
		fail = append(fail, ckGenerator)
	}
	return fail
}

// Plookup (eprint 2020/315 sect. 3), statement (size n, [f], [t]): f(g^i) for i < n-1 are values of t on <g>.
//   s = sort(f, t) by t, h1 = s[0..n-1], h2 = s[n-1..2n-2]; beta, gamma <- FS([t],[f],[h1],[h2]); alpha <- FS([Z]); nu <- FS([h])
//   (a) L0(X)(Z-1) = 0                                   L0 = (X^n-1)/(X-1)
//   (b) (X-g^(n-1)) [ Z(1+beta)(gamma+f)(gamma(1+beta)+t+beta t(gX)) - Z(gX)(gamma(1+beta)+h1+beta h1(gX))(gamma(1+beta)+h2+beta h2(gX)) ] = 0
//   (c) Ln(X)(h1 - h2(gX)) = 0                            Ln = (X^n-1)/(X-g^(n-1))
//   (d) Ln(X)(Z-1) = 0
//   all on <g>, folded as (b) + alpha (a) + alpha^2 (d) + alpha^3 (c) = (X^n-1) h, checked at nu.

type vecTerms struct{ a, b, c, d bool }

var vecAll = vecTerms{true, true, true, true}

func (e *env) vecChallenges(p vecP) (beta, gamma, alpha, nu *big.Int) {
	t := e.newTranscript("beta", "gamma", "alpha", "nu")
	beta = t.challenge("beta", p.T, p.F, p.H1, p.H2)
	gamma = t.challenge("gamma")
	alpha = t.challenge("alpha", p.Z)
	nu = t.challenge("nu", p.H)
	return
}

func (e *env) vecNumerator(p vecP, tm vecTerms, beta, gamma, alpha, nu *big.Int) (num, zh *big.Int) {
	F := e.F
	n := int64(p.Size)
	h1, h2, t, z, f := p.BV[0], p.BV[1], p.BV[2], p.BV[3], p.BV[4]
	h1g, h2g, tg, zg := p.SV[0], p.SV[1], p.SV[2], p.SV[3]
	gl := F.Exp(p.G, n-1)
	zh = F.Sub(F.Exp(nu, n), one)
	ob := F.Add(one, beta)
	gob := F.Mul(gamma, ob)
	l0 := F.Mul(zh, F.Inv(F.Sub(nu, one)))
	ln := F.Mul(zh, F.Inv(F.Sub(nu, gl)))
	num = new(big.Int)
	if tm.b {
		m := F.Mul(F.Mul(z, ob), F.Mul(F.Add(gamma, f), F.Add(gob, F.Add(t, F.Mul(beta, tg)))))
		k := F.Mul(zg, F.Mul(F.Add(gob, F.Add(h1, F.Mul(beta, h1g))), F.Add(gob, F.Add(h2, F.Mul(beta, h2g)))))
		num = F.Add(num, F.Mul(F.Sub(nu, gl), F.Sub(m, k)))
	}
	a1 := alpha
	a2 := F.Mul(a1, alpha)
	a3 := F.Mul(a2, alpha)
	if tm.a {
		num = F.Add(num, F.Mul(a1, F.Mul(l0, F.Sub(z, one))))
	}
	if tm.d {
		num = F.Add(num, F.Mul(a2, F.Mul(ln, F.Sub(z, one))))
	}
	if tm.c {
		num = F.Add(num, F.Mul(a3, F.Mul(ln, F.Sub(h1, h2g))))
	}
	return
}

func (e *env) vecOracle(p vecP, tm vecTerms, ch ...*big.Int) []string {
	var fail []string
	if len(p.BV) != 6 || len(p.SV) != 4 || p.Size < 1 || p.Size > 1<<40 {
		return []string{ckShape}
	}
	F := e.F
	beta, gamma, alpha, nu := e.vecChallenges(p)
	if len(ch) == 4 {
		beta, gamma, alpha, nu = ch[0], ch[1], ch[2], ch[3]
	}
	gl := F.Exp(p.G, int64(p.Size)-1)
	if nu.Cmp(one) == 0 || nu.Cmp(gl) == 0 {
		return []string{"degenerate-challenge"}
	}
	num, zh := e.vecNumerator(p, tm, beta, gamma, alpha, nu)
	if num.Cmp(F.Mul(zh, p.BV[5])) != 0 {
		fail = append(fail, ckIdentity)
	}
	if e.in.BatchVerify([]any{p.H1, p.H2, p.T, p.Z, p.F, p.H}, p.BH, p.BV, nu, e.vk) != nil {
		fail = append(fail, ckBatchKZG)
	}
	if e.in.BatchVerify([]any{p.H1, p.H2, p.T, p.Z}, p.SH, p.SV, F.Mul(nu, p.G), e.vk) != nil {
		fail = append(fail, ckShiftKZG)
	}
	if !e.exactOrder(p.G, int64(p.Size)) {
		fail = append(fail, ckGenerator)
	}
	return fail
}

// Lookup of table rows (plookup sect. 4, "vector lookups" by random folding), statement ([f_0..f_{k-1}], [t_0..t_{k-1}]):
// every column of f is a column of t.
//   lambda <- FS([f_i]..., [t_i]...); F = sum lambda^i f_i, T = sum lambda^i t_i (homomorphically on the commitments);
//   checks: "comf" sum lambda^i [f_i] = [f] of the vector lookup; "comt" sum lambda^i [t_i] = [t1] of the permutation argument;
//   "perm-t2" [t2] of the permutation argument (the sorted folded table) = [t] of the vector lookup; "domain" both inner arguments
//   are over the same subgroup; "perm:*" the permutation argument; "vec:*" the vector lookup.

const (
	ckComF   = "comf"
	ckComT   = "comt-vs-permutation.t1"
	ckPermT2 = "permutation.t2-vs-lookup.t"
	ckDomain = "domain-mismatch"
)

func (e *env) tabLambda(p tabP) *big.Int {
	t := e.newTranscript("lambda")
	pts := append(append([]any{}, p.Fs...), p.Ts...)
	return t.challenge("lambda", pts...)
}

func (e *env) foldPts(ps []any, lambda *big.Int) any {
	acc := ps[len(ps)-1]
	for i := len(ps) - 2; i >= 0; i-- {
		acc = e.in.G1Add(e.in.G1Mul(acc, lambda), ps[i])
	}
	return acc
}

func (e *env) tabOracle(p tabP, ch ...*big.Int) []string {
	if len(p.Fs) != len(p.Ts) || len(p.Fs) == 0 {
		return []string{ckShape}
	}
	var fail []string
	lambda := e.tabLambda(p)
	if len(ch) == 1 {
		lambda = ch[0]
	}
	if !e.in.G1Eq(e.foldPts(p.Fs, lambda), p.Vec.F) {
		fail = append(fail, ckComF)
	}
	if !e.in.G1Eq(e.foldPts(p.Ts, lambda), p.Perm.T1) {
		fail = append(fail, ckComT)
	}
	if !e.in.G1Eq(p.Perm.T2, p.Vec.T) {
		fail = append(fail, ckPermT2)
	}
	if p.Perm.Size != int64(p.Vec.Size) || p.Perm.G.Cmp(p.Vec.G) != 0 {
		fail = append(fail, ckDomain)
	}
	for _, f := range e.permOracle(p.Perm, permAll) {
		fail = append(fail, "perm:"+f)
	}
	for _, f := range e.vecOracle(p.Vec, vecAll) {
		fail = append(fail, "vec:"+f)
	}
	return fail
}

func failStr(f []string) string {
	if len(f) == 0 {
		return "none"
	}
	s := append([]string(nil), f...)
	sort.Strings(s)
	return strings.Join(s, "+")
}

func sameSet(a, b []string) bool { return failStr(a) == failStr(b) }
