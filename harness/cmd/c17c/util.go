package main

import (
	"crypto/sha256"
	"fmt"
	"math/big"

	fiatshamir "github.com/consensys/gnark-crypto/fiat-shamir"

	"verif/harness/adapt/permlook"
	"verif/harness/gen"
	"verif/harness/mon"
	"verif/harness/oracle/opoly"
)

// env is one curve with a reference string whose trapdoor is known to the forger.
type env struct {
	c     *mon.Ctx
	in    *permlook.Inst
	F     opoly.F
	alpha *big.Int // trapdoor of the SRS
	pk    any
	vk    any
	gen   any // G1 generator
	perm  string
	vec   string
	tab   string
}

type poly = []*big.Int

var one = big.NewInt(1)

func bi(k int64) *big.Int { return big.NewInt(k) }

func (e *env) rnd(r *gen.Rng) *big.Int { return r.BigBelow(e.F.P) }

// rndNZ returns a random element different from 0 and 1.
func (e *env) rndNZ(r *gen.Rng) *big.Int {
	for {
		v := r.BigBelow(e.F.P)
		if v.Sign() != 0 && v.Cmp(one) != 0 {
			return v
		}
	}
}

func (e *env) pow(a *big.Int, k int64) *big.Int { return e.F.Exp(a, k) }

// root returns an element of exact multiplicative order n (n a power of two dividing r-1), found from the definition.
func (e *env) root(n int) *big.Int {
	if n == 1 {
		return big.NewInt(1)
	}
	pm1 := new(big.Int).Sub(e.F.P, one)
	q, rem := new(big.Int).QuoRem(pm1, big.NewInt(int64(n)), new(big.Int))
	if rem.Sign() != 0 {
		panic(fmt.Sprintf("%s: no subgroup of order %d", e.in.Name, n))
	}
	for c := int64(2); c < 200; c++ {
		w := new(big.Int).Exp(big.NewInt(c), q, e.F.P)
		if e.F.IsPrimitiveRoot(w, n) {
			return w
		}
	}
	panic("no primitive root found")
}

// order returns the multiplicative order of g if it divides some multiple bound <= lim of small size, by brute force
// over the divisors of n: exactOrder reports whether g has order exactly n (n >= 1), from the definition
// (g^n = 1 and g^(n/p) != 1 for every prime p dividing n).
func (e *env) exactOrder(g *big.Int, n int64) bool {
	if n < 1 || g.Sign() == 0 {
		return false
	}
	if e.F.Exp(g, n).Cmp(one) != 0 {
		return false
	}
	m := n
	for p := int64(2); p*p <= m; p++ {
		if m%p == 0 {
			if e.F.Exp(g, n/p).Cmp(one) == 0 {
				return false
			}
			for m%p == 0 {
				m /= p
			}
		}
	}
	if m > 1 && e.F.Exp(g, n/m).Cmp(one) == 0 {
		return false
	}
	return true
}

// ---- polynomials (coefficient vectors, low degree first) over opoly.F

func pcopy(a poly) poly {
	r := make(poly, len(a))
	for i := range a {
		r[i] = new(big.Int).Set(a[i])
	}
	return r
}

func (e *env) pconst(v *big.Int) poly { return poly{e.F.Red(v)} }

func (e *env) padd(a, b poly) poly {
	n := len(a)
	if len(b) > n {
		n = len(b)
	}
	r := make(poly, n)
	for i := range r {
		r[i] = new(big.Int)
		if i < len(a) {
			r[i].Add(r[i], a[i])
		}
		if i < len(b) {
			r[i].Add(r[i], b[i])
		}
		r[i].Mod(r[i], e.F.P)
	}
	return r
}

func (e *env) pscale(a poly, k *big.Int) poly {
	r := make(poly, len(a))
	for i := range a {
		r[i] = e.F.Mul(a[i], k)
	}
	return r
}

func (e *env) psub(a, b poly) poly { return e.padd(a, e.pscale(b, e.F.Neg(one))) }

func (e *env) pmul(a, b poly) poly {
	r := e.F.MulPoly(a, b)
	if r == nil {
		return poly{new(big.Int)}
	}
	return r
}

// paddc returns a + c (constant).
func (e *env) paddc(a poly, c *big.Int) poly { return e.padd(a, poly{e.F.Red(c)}) }

// pshift returns a(gX).
func (e *env) pshift(a poly, g *big.Int) poly {
	r := make(poly, len(a))
	p := big.NewInt(1)
	for i := range a {
		r[i] = e.F.Mul(a[i], p)
		p = e.F.Mul(p, g)
	}
	return r
}

func (e *env) peval(a poly, x *big.Int) *big.Int { return e.F.Horner(a, x) }

// pdivXn returns (q, rem) with a = q*(X^n - 1) + rem, deg rem < n.
func (e *env) pdivXn(a poly, n int) (poly, poly) {
	w := pcopy(a)
	if len(w) <= n {
		return poly{new(big.Int)}, w
	}
	q := make(poly, len(w)-n)
	for i := len(w) - 1; i >= n; i-- {
		q[i-n] = w[i]
		w[i-n] = e.F.Add(w[i-n], w[i])
		w[i] = new(big.Int)
	}
	return q, w[:n]
}

// pdivLin returns (q, rem) with a = q*(X - c) + rem.
func (e *env) pdivLin(a poly, c *big.Int) (poly, *big.Int) {
	if len(a) == 0 {
		return poly{new(big.Int)}, new(big.Int)
	}
	q := make(poly, len(a)-1)
	acc := new(big.Int)
	for i := len(a) - 1; i >= 1; i-- {
		acc = e.F.Add(e.F.Mul(acc, c), a[i])
		q[i-1] = acc
	}
	rem := e.F.Add(e.F.Mul(acc, c), a[0])
	if len(q) == 0 {
		q = poly{new(big.Int)}
	}
	return q, rem
}

func pzero(a poly) bool { return opoly.Trim(a) == 0 }

// ptrim drops leading zero coefficients but keeps at least min coefficients.
func ptrim(a poly, min int) poly {
	n := opoly.Trim(a)
	if n < min {
		n = min
	}
	if n > len(a) {
		r := pcopy(a)
		for len(r) < n {
			r = append(r, new(big.Int))
		}
		return r
	}
	return a[:n]
}

// xnMinus1OverLin returns (X^n - 1)/(X - c) for c^n = 1.
func (e *env) xnMinus1OverLin(n int, c *big.Int) poly {
	a := make(poly, n+1)
	for i := range a {
		a[i] = new(big.Int)
	}
	a[0] = e.F.Neg(one)
	a[n] = big.NewInt(1)
	q, rem := e.pdivLin(a, c)
	if rem.Sign() != 0 {
		panic("xnMinus1OverLin: c is not an n-th root of unity")
	}
	return q
}

// interp returns the polynomial of degree < n taking the values v on 1, w, w^2, ... (w of exact order n = len(v)).
func (e *env) interp(v []*big.Int, w *big.Int) poly {
	return e.F.InterpolateOnPowers(v, big.NewInt(1), w)
}

// equivocate returns p' with p'(alpha) = p(alpha) (same commitment under the SRS) and p'(z) = p(z) + delta.
func (e *env) equivocate(p poly, z, delta *big.Int) poly {
	if delta == nil || delta.Sign() == 0 {
		return p
	}
	d := e.F.Inv(e.F.Sub(z, e.alpha))
	k := e.F.Mul(delta, d) // delta/(z - alpha)
	return e.padd(p, poly{e.F.Mul(k, e.F.Neg(e.alpha)), k})
}

// ---- Fiat-Shamir as specified by the packages: sha256 transcript of named challenges, commitments bound
// through their uncompressed encoding, the digest reduced modulo r.

type transcript struct {
	e  *env
	fs *fiatshamir.Transcript
}

func (e *env) newTranscript(names ...string) *transcript {
	return &transcript{e, fiatshamir.NewTranscript(sha256.New(), names...)}
}

func (t *transcript) challenge(name string, pts ...any) *big.Int {
	for _, p := range pts {
		if err := t.fs.Bind(name, t.e.in.G1Raw(p)); err != nil {
			panic(err)
		}
	}
	b, err := t.fs.ComputeChallenge(name)
	if err != nil {
		panic(err)
	}
	return new(big.Int).Mod(new(big.Int).SetBytes(b), t.e.F.P)
}

func (e *env) commit(p poly) any {
	d, err := e.in.Commit(p, e.pk)
	if err != nil {
		panic(fmt.Sprintf("kzg.Commit(len %d): %v", len(p), err))
	}
	return d
}

func short(v *big.Int) string {
	if v == nil {
		return "nil"
	}
	s := v.Text(16)
	if len(s) > 14 {
		return s[:6] + ".." + s[len(s)-6:]
	}
	return s
}

func shorts(vs []*big.Int) string {
	s := "["
	for i, v := range vs {
		if i > 0 {
			s += " "
		}
		if i >= 10 {
			s += "..."
			break
		}
		s += short(v)
	}
	return s + "]"
}

// chk counts one evaluation of op (per-operation evidence) and records a violation under key when !ok.
func chk(c *mon.Ctx, op, key string, ok bool, detail func() string) {
	c.Eval(op, 1)
	if !ok {
		c.Fail(key, "%s", detail())
	}
}
