package main

import (
	"fmt"
	"math/big"
	"reflect"
	"strings"

	"verif/harness/gen"
)

// Untargeted single-component substitutions: every component of a proof object, found by reflection, is replaced by
// zero / identity, a random value, the value shifted by a constant, its negative, the same component of another honest
// proof (same shape, other statement; and other size), and - for aggregates - exchanged / rotated elements.
// Every component of these three proof objects is uniquely determined by the statement and the reference string
// (commitments fix the challenges, challenges fix the evaluation points, KZG opening proofs and evaluations are unique),
// so a proof that differs from the honest one in one component must be rejected.

type scheme struct {
	name    string // "permutation", "vector", "tables"
	prefix  string // key prefix incl. the verifier's name
	op      string
	verify  func(p any) verdict
	oracle  func(p any) []string
	context string
}

type mutation struct {
	kind  string
	shape bool // changes the shape of the object (lengths): a panic is then tolerated (and counted)
	apply func(nd node) bool
}

func (e *env) mutationsFor(nd node, r *gen.Rng, others map[string]any) []mutation {
	var ms []mutation
	fromOther := func(label string) {
		o, ok := others[label]
		if !ok {
			return
		}
		for _, on := range e.nodes(o) {
			if on.path == nd.path && on.v.Type() == nd.v.Type() {
				src := on
				ms = append(ms, mutation{kind: label, apply: func(x node) bool {
					e.deepCopy(x.v, src.v)
					return true
				}})
				return
			}
		}
	}
	switch nd.kind {
	case kFr:
		rv := e.rnd(r)
		ms = append(ms,
			mutation{kind: "zero", apply: func(x node) bool { e.setFr(x.v, new(big.Int)); return true }},
			mutation{kind: "random", apply: func(x node) bool { e.setFr(x.v, rv); return true }},
			mutation{kind: "plus-one", apply: func(x node) bool { e.setFr(x.v, e.F.Add(e.getFr(x.v), one)); return true }},
			mutation{kind: "negated", apply: func(x node) bool { e.setFr(x.v, e.F.Neg(e.getFr(x.v))); return true }},
		)
	case kG1:
		rp := e.in.G1Mul(e.gen, e.rndNZ(r))
		ms = append(ms,
			mutation{kind: "identity", apply: func(x node) bool { e.setG1(x.v, e.in.G1Inf()); return true }},
			mutation{kind: "random", apply: func(x node) bool { e.setG1(x.v, rp); return true }},
			mutation{kind: "plus-generator", apply: func(x node) bool { e.setG1(x.v, e.in.G1Add(e.getG1(x.v), e.gen)); return true }},
			mutation{kind: "negated", apply: func(x node) bool { e.setG1(x.v, e.in.G1Neg(e.getG1(x.v))); return true }},
		)
	case kInt:
		rv := int64(r.Intn(1 << 20))
		for _, m := range []struct {
			k string
			f func(v int64) int64
		}{{"zero", func(int64) int64 { return 0 }}, {"plus-one", func(v int64) int64 { return v + 1 }}, {"minus-one", func(v int64) int64 { return v - 1 }},
			{"doubled", func(v int64) int64 { return 2 * v }}, {"halved", func(v int64) int64 { return v / 2 }}, {"negated", func(v int64) int64 { return -v }},
			{"random", func(int64) int64 { return rv }}} {
			f := m.f
			ms = append(ms, mutation{kind: m.k, apply: func(x node) bool { x.v.SetInt(f(x.v.Int())); return true }})
		}
	case kUint:
		rv := uint64(r.Intn(1 << 20))
		big64 := r.Uint64() | 1<<63
		for _, m := range []struct {
			k string
			f func(v uint64) uint64
		}{{"zero", func(uint64) uint64 { return 0 }}, {"plus-one", func(v uint64) uint64 { return v + 1 }}, {"minus-one", func(v uint64) uint64 { return v - 1 }},
			{"doubled", func(v uint64) uint64 { return 2 * v }}, {"halved", func(v uint64) uint64 { return v / 2 }},
			{"random", func(uint64) uint64 { return rv }}, {"random-64-bit", func(uint64) uint64 { return big64 }}} {
			f := m.f
			ms = append(ms, mutation{kind: m.k, apply: func(x node) bool { x.v.SetUint(f(x.v.Uint())); return true }})
		}
	case kStruct:
		ms = append(ms, mutation{kind: "zero-value", apply: func(x node) bool {
			// keep the lengths of inner slices (a well-formed object), zero every leaf
			var leaves []node
			e.walk(x.v, x.path, &leaves)
			for _, l := range leaves {
				switch l.kind {
				case kFr, kG1, kInt, kUint:
					l.v.Set(reflect.Zero(l.v.Type()))
				}
			}
			return true
		}})
	case kSlice:
		ms = append(ms,
			mutation{kind: "first-two-exchanged", apply: func(x node) bool {
				if x.v.Len() < 2 {
					return false
				}
				a := reflect.New(x.v.Type().Elem()).Elem()
				a.Set(x.v.Index(0))
				x.v.Index(0).Set(x.v.Index(1))
				x.v.Index(1).Set(a)
				return true
			}},
			mutation{kind: "rotated", apply: func(x node) bool {
				n := x.v.Len()
				if n < 3 {
					return false
				}
				s := reflect.MakeSlice(x.v.Type(), n, n)
				for i := 0; i < n; i++ {
					s.Index(i).Set(x.v.Index((i + 1) % n))
				}
				x.v.Set(s)
				return true
			}},
			mutation{kind: "last-dropped", shape: true, apply: func(x node) bool {
				if x.v.Len() < 1 {
					return false
				}
				x.v.Set(x.v.Slice(0, x.v.Len()-1))
				return true
			}},
			mutation{kind: "last-duplicated", shape: true, apply: func(x node) bool {
				if x.v.Len() < 1 {
					return false
				}
				x.v.Set(reflect.Append(x.v, x.v.Index(x.v.Len()-1)))
				return true
			}},
			mutation{kind: "emptied", shape: true, apply: func(x node) bool {
				x.v.Set(reflect.MakeSlice(x.v.Type(), 0, 0))
				return true
			}},
		)
	}
	fromOther("other-honest-proof")
	fromOther("other-honest-proof-of-another-size")
	return ms
}

// stripIdx("a.b[3].c") = "a.b[i].c" is NOT used for keys (indices are few and meaningful); it shortens class names.
func stripIdx(p string) string {
	for {
		i := strings.IndexByte(p, '[')
		if i < 0 {
			return p
		}
		j := strings.IndexByte(p[i:], ']')
		p = p[:i] + "<i>" + p[i+j+1:]
	}
}

func (e *env) untargeted(sc scheme, r *gen.Rng, base any, others map[string]any) {
	c := e.c
	baseNodes := e.nodes(base)
	for i, nd := range baseNodes {
		for _, m := range e.mutationsFor(nd, r, others) {
			cl := e.clone(base)
			x := e.nodes(cl)[i]
			if x.path != nd.path {
				panic("walk order changed")
			}
			if !m.apply(x) {
				continue
			}
			if e.sameProof(cl, base) {
				c.AddExtra(sc.name+"/substitutions-without-effect", 1)
				continue
			}
			c.Current(fmt.Sprintf("%s %s substitution %s/%s %s", e.in.Name, sc.name, nd.path, m.kind, sc.context))
			v := sc.verify(cl)
			c.Class(fmt.Sprintf("%s/substitution/%s/%s", sc.prefix, stripIdx(nd.path), m.kind))
			if v.panicked {
				c.AddExtra(sc.name+"/verifier-panics-on-substituted-proof", 1)
				if m.shape {
					c.SampleOnce(sc.prefix+"/panic-on-malformed/"+stripIdx(nd.path)+"/"+m.kind, fmt.Sprintf("%s: %s %s -> panic: %v", sc.context, nd.path, m.kind, v.pval))
					c.Eval(sc.op, 1)
					continue
				}
				chk(c, sc.op, sc.prefix+"/panic/substitution/"+nd.path+"/"+m.kind, false, func() string {
					return fmt.Sprintf("%s: component %s := %s -> verifier panicked: %v", sc.context, nd.path, m.kind, v.pval)
				})
				continue
			}
			key := sc.prefix + "/substitution-accepted/" + nd.path + "/" + m.kind
			var fails []string
			if v.accepted {
				fails = sc.oracle(cl)
				if forgeryMode(c, sc.name, fails, nil) != modeStrict {
					// all algebraic evidence is still valid (degenerate statements such as n = 2, where the constraint polynomial is
					// identically zero): only (size, g) became inconsistent, or nothing at all - see forgeryMode
					lenient(c, sc.op, sc.name, fmt.Sprintf("%s/substitution/%s/%s", sc.prefix, stripIdx(nd.path), m.kind), v)
					continue
				}
				if onlyLinking(fails) {
					key = sc.prefix + "/substitution-accepted/permutation-argument-not-linked/" + nd.path + "/" + m.kind
				}
			}
			chk(c, sc.op, key, !v.accepted, func() string {
				return fmt.Sprintf("%s: honest proof with component %s := %s -> verifier returned nil; checks failing in the reference verifier: %s", sc.context, nd.path, m.kind, failStr(fails))
			})
		}
	}
}
