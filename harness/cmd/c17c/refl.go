package main

import (
	"fmt"
	"math/big"
	"reflect"
	"unsafe"
)

// open makes a (possibly unexported) addressable field readable and writable.
func open(v reflect.Value) reflect.Value {
	return reflect.NewAt(v.Type(), unsafe.Pointer(v.UnsafeAddr())).Elem()
}

// field returns the named field of the struct v (addressable), opened.
func field(v reflect.Value, name string) reflect.Value {
	f := v.FieldByName(name)
	if !f.IsValid() {
		panic(fmt.Sprintf("proof layout: type %s has no field %q", v.Type(), name))
	}
	return open(f)
}

// leaf kinds
const (
	kFr = iota
	kG1
	kInt
	kUint
	kStruct
	kSlice
)

type node struct {
	path string
	kind int
	v    reflect.Value // opened
}

func (e *env) kindOf(t reflect.Type) int {
	switch {
	case t == e.in.FrType:
		return kFr
	case t == e.in.G1Type:
		return kG1
	}
	switch t.Kind() {
	case reflect.Int, reflect.Int64:
		return kInt
	case reflect.Uint64, reflect.Uint:
		return kUint
	case reflect.Struct:
		return kStruct
	case reflect.Slice:
		return kSlice
	}
	panic(fmt.Sprintf("proof layout: unsupported component type %s", t))
}

// walk lists every component of the proof object v (addressable): inner structs, slices, and leaves.
func (e *env) walk(v reflect.Value, path string, out *[]node) {
	k := e.kindOf(v.Type())
	if path != "" {
		*out = append(*out, node{path, k, v})
	}
	switch k {
	case kStruct:
		for i := 0; i < v.NumField(); i++ {
			p := v.Type().Field(i).Name
			if path != "" {
				p = path + "." + p
			}
			e.walk(open(v.Field(i)), p, out)
		}
	case kSlice:
		for i := 0; i < v.Len(); i++ {
			e.walk(v.Index(i), fmt.Sprintf("%s[%d]", path, i), out)
		}
	}
}

func (e *env) nodes(proof any) []node {
	var out []node
	e.walk(reflect.ValueOf(proof).Elem(), "", &out)
	return out
}

// deepCopy copies src into dst (same type, both addressable), duplicating slices.
func (e *env) deepCopy(dst, src reflect.Value) {
	switch e.kindOf(src.Type()) {
	case kStruct:
		for i := 0; i < src.NumField(); i++ {
			e.deepCopy(open(dst.Field(i)), open(src.Field(i)))
		}
	case kSlice:
		if src.IsNil() {
			dst.Set(reflect.Zero(src.Type()))
			return
		}
		s := reflect.MakeSlice(src.Type(), src.Len(), src.Len())
		for i := 0; i < src.Len(); i++ {
			e.deepCopy(s.Index(i), src.Index(i))
		}
		dst.Set(s)
	default:
		dst.Set(src)
	}
}

func (e *env) clone(proof any) any {
	src := reflect.ValueOf(proof).Elem()
	dst := reflect.New(src.Type())
	e.deepCopy(dst.Elem(), src)
	return dst.Interface()
}

// same compares two components (same type) by value: field elements by value, points as group elements.
func (e *env) same(a, b reflect.Value) bool {
	switch e.kindOf(a.Type()) {
	case kFr:
		return e.in.FrGet(a.Addr().Interface()).Cmp(e.in.FrGet(b.Addr().Interface())) == 0
	case kG1:
		return e.in.G1Eq(e.in.G1Get(a.Addr().Interface()), e.in.G1Get(b.Addr().Interface()))
	case kInt:
		return a.Int() == b.Int()
	case kUint:
		return a.Uint() == b.Uint()
	case kStruct:
		for i := 0; i < a.NumField(); i++ {
			if !e.same(open(a.Field(i)), open(b.Field(i))) {
				return false
			}
		}
		return true
	case kSlice:
		if a.Len() != b.Len() {
			return false
		}
		for i := 0; i < a.Len(); i++ {
			if !e.same(a.Index(i), b.Index(i)) {
				return false
			}
		}
		return true
	}
	return false
}

func (e *env) sameProof(a, b any) bool {
	return e.same(reflect.ValueOf(a).Elem(), reflect.ValueOf(b).Elem())
}

// ---- neutral images of the three proof objects (field names are the documented layout of the structs)

type permP struct {
	Size int64
	G    *big.Int
	T1   any
	T2   any
	Z    any
	Q    any
	BH   any        // batchedProof.H
	BV   []*big.Int // batchedProof.ClaimedValues: t1, t2, z, q at eta
	SH   any        // shiftedProof.H
	SV   *big.Int   // shiftedProof.ClaimedValue: z at g*eta
}

type vecP struct {
	Size uint64
	G    *big.Int
	H1   any
	H2   any
	T    any
	Z    any
	F    any
	H    any
	BH   any
	BV   []*big.Int // h1, h2, t, z, f, h at nu
	SH   any
	SV   []*big.Int // h1, h2, t, z at g*nu
}

type tabP struct {
	Fs, Ts []any
	Vec    vecP
	Perm   permP
}

func (e *env) getFr(v reflect.Value) *big.Int { return e.in.FrGet(v.Addr().Interface()) }
func (e *env) setFr(v reflect.Value, x *big.Int) {
	e.in.FrSet(v.Addr().Interface(), e.F.Red(x))
}
func (e *env) getG1(v reflect.Value) any    { return e.in.G1Get(v.Addr().Interface()) }
func (e *env) setG1(v reflect.Value, p any) { e.in.G1Set(v.Addr().Interface(), p) }
func (e *env) getFrs(v reflect.Value) []*big.Int {
	out := make([]*big.Int, v.Len())
	for i := range out {
		out[i] = e.getFr(v.Index(i))
	}
	return out
}
func (e *env) setFrs(v reflect.Value, xs []*big.Int) {
	s := reflect.MakeSlice(v.Type(), len(xs), len(xs))
	for i := range xs {
		e.setFr(s.Index(i), xs[i])
	}
	v.Set(s)
}
func (e *env) getG1s(v reflect.Value) []any {
	out := make([]any, v.Len())
	for i := range out {
		out[i] = e.getG1(v.Index(i))
	}
	return out
}
func (e *env) setG1s(v reflect.Value, ps []any) {
	s := reflect.MakeSlice(v.Type(), len(ps), len(ps))
	for i := range ps {
		e.setG1(s.Index(i), ps[i])
	}
	v.Set(s)
}

func (e *env) decPermV(v reflect.Value) permP {
	b, s := field(v, "batchedProof"), field(v, "shiftedProof")
	return permP{
		Size: field(v, "size").Int(), G: e.getFr(field(v, "g")),
		T1: e.getG1(field(v, "t1")), T2: e.getG1(field(v, "t2")), Z: e.getG1(field(v, "z")), Q: e.getG1(field(v, "q")),
		BH: e.getG1(field(b, "H")), BV: e.getFrs(field(b, "ClaimedValues")),
		SH: e.getG1(field(s, "H")), SV: e.getFr(field(s, "ClaimedValue")),
	}
}

func (e *env) encPermV(v reflect.Value, p permP) {
	b, s := field(v, "batchedProof"), field(v, "shiftedProof")
	field(v, "size").SetInt(p.Size)
	e.setFr(field(v, "g"), p.G)
	e.setG1(field(v, "t1"), p.T1)
	e.setG1(field(v, "t2"), p.T2)
	e.setG1(field(v, "z"), p.Z)
	e.setG1(field(v, "q"), p.Q)
	e.setG1(field(b, "H"), p.BH)
	e.setFrs(field(b, "ClaimedValues"), p.BV)
	e.setG1(field(s, "H"), p.SH)
	e.setFr(field(s, "ClaimedValue"), p.SV)
}

func (e *env) decVecV(v reflect.Value) vecP {
	b, s := field(v, "BatchedProof"), field(v, "BatchedProofShifted")
	return vecP{
		Size: field(v, "size").Uint(), G: e.getFr(field(v, "g")),
		H1: e.getG1(field(v, "h1")), H2: e.getG1(field(v, "h2")), T: e.getG1(field(v, "t")),
		Z: e.getG1(field(v, "z")), F: e.getG1(field(v, "f")), H: e.getG1(field(v, "h")),
		BH: e.getG1(field(b, "H")), BV: e.getFrs(field(b, "ClaimedValues")),
		SH: e.getG1(field(s, "H")), SV: e.getFrs(field(s, "ClaimedValues")),
	}
}

func (e *env) encVecV(v reflect.Value, p vecP) {
	b, s := field(v, "BatchedProof"), field(v, "BatchedProofShifted")
	field(v, "size").SetUint(p.Size)
	e.setFr(field(v, "g"), p.G)
	e.setG1(field(v, "h1"), p.H1)
	e.setG1(field(v, "h2"), p.H2)
	e.setG1(field(v, "t"), p.T)
	e.setG1(field(v, "z"), p.Z)
	e.setG1(field(v, "f"), p.F)
	e.setG1(field(v, "h"), p.H)
	e.setG1(field(b, "H"), p.BH)
	e.setFrs(field(b, "ClaimedValues"), p.BV)
	e.setG1(field(s, "H"), p.SH)
	e.setFrs(field(s, "ClaimedValues"), p.SV)
}

func (e *env) decPerm(proof any) permP { return e.decPermV(reflect.ValueOf(proof).Elem()) }
func (e *env) decVec(proof any) vecP   { return e.decVecV(reflect.ValueOf(proof).Elem()) }
func (e *env) decTab(proof any) tabP {
	v := reflect.ValueOf(proof).Elem()
	return tabP{Fs: e.getG1s(field(v, "fs")), Ts: e.getG1s(field(v, "ts")),
		Vec: e.decVecV(field(v, "foldedProof")), Perm: e.decPermV(field(v, "permutationProof"))}
}

func (e *env) encPerm(p permP) any {
	o := e.in.NewProof("perm")
	e.encPermV(reflect.ValueOf(o).Elem(), p)
	return o
}
func (e *env) encVec(p vecP) any {
	o := e.in.NewProof("vec")
	e.encVecV(reflect.ValueOf(o).Elem(), p)
	return o
}
func (e *env) encTab(p tabP) any {
	o := e.in.NewProof("tab")
	v := reflect.ValueOf(o).Elem()
	e.setG1s(field(v, "fs"), p.Fs)
	e.setG1s(field(v, "ts"), p.Ts)
	e.encVecV(field(v, "foldedProof"), p.Vec)
	e.encPermV(field(v, "permutationProof"), p.Perm)
	return o
}

func cpP(p permP) permP {
	p.BV = append([]*big.Int(nil), p.BV...)
	return p
}
func cpV(p vecP) vecP {
	p.BV = append([]*big.Int(nil), p.BV...)
	p.SV = append([]*big.Int(nil), p.SV...)
	return p
}
func cpT(p tabP) tabP {
	p.Fs = append([]any(nil), p.Fs...)
	p.Ts = append([]any(nil), p.Ts...)
	p.Vec = cpV(p.Vec)
	p.Perm = cpP(p.Perm)
	return p
}
