package main

import (
	"fmt"
	"math/big"

	"verif/harness/gen"
	"verif/harness/mon"
)

type vecStmt struct {
	f, t  []*big.Int
	class string
}

func nextPow2(x int) int {
	n := 1
	for n < x {
		n *= 2
	}
	return n
}

// vecDomain is the size of the domain the documented prover uses for |f|, |t|.
func vecDomain(lf, lt int) int {
	if lt <= lf {
		return nextPow2(lf + 1)
	}
	return nextPow2(lt)
}

func (e *env) vecTable(r *gen.Rng, lt int, class string) []*big.Int {
	t := make([]*big.Int, lt)
	for i := range t {
		switch class {
		case "small", "small-unsorted":
			t[i] = big.NewInt(int64(3*i + 1))
		case "edge-values":
			ed := []*big.Int{new(big.Int), big.NewInt(1), new(big.Int).Sub(e.F.P, one), new(big.Int).Sub(e.F.P, big.NewInt(2))}
			if i < len(ed) {
				t[i] = ed[i]
			} else {
				t[i] = e.rnd(r)
			}
		case "table-duplicates":
			if i > 0 && r.Intn(2) == 0 {
				t[i] = new(big.Int).Set(t[r.Intn(i)])
			} else {
				t[i] = e.rnd(r)
			}
		case "constant-table":
			if i == 0 {
				t[i] = e.rnd(r)
			} else {
				t[i] = new(big.Int).Set(t[0])
			}
		default:
			t[i] = e.rnd(r)
		}
	}
	if class != "sorted" && class != "small" {
		pm := r.Perm(lt)
		u := make([]*big.Int, lt)
		for i := range u {
			u[i] = t[pm[i]]
		}
		t = u
	} else {
		sortBig(t)
	}
	return t
}

func (e *env) vecStatement(r *gen.Rng, lf, lt int, class string) vecStmt {
	t := e.vecTable(r, lt, class)
	f := make([]*big.Int, lf)
	for i := range f {
		switch class {
		case "f-constant":
			f[i] = t[0]
		case "f-covers-table":
			f[i] = t[i%lt]
		default:
			f[i] = t[r.Intn(lt)]
		}
	}
	return vecStmt{f, t, class}
}

var vecClasses = []string{"random", "sorted", "small", "small-unsorted", "edge-values", "table-duplicates", "constant-table", "f-constant", "f-covers-table"}

func (e *env) vecVerify(p any) verdict { return run(func() error { return e.in.VecVerify(e.vk, p) }) }

func (e *env) vecHonest(s vecStmt) (proof any, ok bool) {
	c := e.c
	op := "plookup.VerifyLookupVector/honest"
	lf, lt := len(s.f), len(s.t)
	n := vecDomain(lf, lt)
	c.Current(fmt.Sprintf("%s vector honest |f|=%d |t|=%d %s", e.vec, lf, lt, s.class))
	var err error
	pan, pv := mon.Try(func() { proof, err = e.in.VecProve(e.pk, s.f, s.t) })
	shape := shapeClass(lf, lt)
	if pan || err != nil {
		chk(c, "plookup.ProveLookupVector", e.vec+"/ProveLookupVector/fails-on-admissible/"+shape, false, func() string {
			return fmt.Sprintf("|f|=%d |t|=%d class=%s f=%s t=%s: err=%v panic=%v", lf, lt, s.class, shorts(s.f), shorts(s.t), err, pv)
		})
		return nil, false
	}
	v := e.vecVerify(proof)
	fails := e.vecOracle(e.decVec(proof), vecAll)
	c.Class(fmt.Sprintf("%s/vector/honest/%s/|f|=%d,|t|=%d,n=%d", e.vec, s.class, lf, lt, n))
	chk(c, op, e.vec+"/VerifyLookupVector/honest-rejected/"+shape, v.accepted, func() string {
		return fmt.Sprintf("|f|=%d |t|=%d n=%d class=%s f=%s t=%s: honest proof -> %s; reference verifier failing checks: %s", lf, lt, n, s.class, shorts(s.f), shorts(s.t), v, failStr(fails))
	})
	chk(c, op, e.vec+"/ProveLookupVector/honest-proof-fails-specification/"+failStr(fails), len(fails) == 0, func() string {
		return fmt.Sprintf("|f|=%d |t|=%d n=%d class=%s: the library prover's proof does not satisfy %s (library verifier: %s)", lf, lt, n, s.class, failStr(fails), v)
	})
	return proof, v.accepted
}

func shapeClass(lf, lt int) string {
	n := vecDomain(lf, lt)
	s := ""
	switch {
	case lt <= lf:
		s = "|t|<=|f|"
	default:
		s = "|t|>|f|"
	}
	if lt&(lt-1) != 0 {
		s += ",|t|-not-pow2"
	}
	if n <= 2 {
		s += fmt.Sprintf(",n=%d", n)
	}
	return s
}

// padded returns the length-n vectors the prover works with: f and t padded with their last entry, t sorted.
func padded(s vecStmt, n int) (fv, tv []*big.Int) {
	fv, tv = make([]*big.Int, n), make([]*big.Int, n)
	for i := range fv {
		if i < len(s.f) {
			fv[i] = s.f[i]
		} else {
			fv[i] = s.f[len(s.f)-1]
		}
		if i < len(s.t) {
			tv[i] = s.t[i]
		} else {
			tv[i] = s.t[len(s.t)-1]
		}
	}
	tv = append([]*big.Int(nil), tv...)
	sortBig(tv)
	return
}

func (e *env) fresh(r *gen.Rng, avoid []*big.Int) *big.Int {
	for {
		v := e.rnd(r)
		ok := true
		for _, x := range avoid {
			if x.Cmp(v) == 0 {
				ok = false
			}
		}
		if ok {
			return v
		}
	}
}

// vecTargeted: one forgery per verifier check, around the true statement s (honest = the library's proof of s).
func (e *env) vecTargeted(r *gen.Rng, s vecStmt, honest any) {
	c := e.c
	F := e.F
	op := "plookup.VerifyLookupVector/forgery"
	n := vecDomain(len(s.f), len(s.t))
	cls := fmt.Sprintf("n=%d", n)
	hp := e.decVec(honest)
	w := hp.G
	if !e.exactOrder(w, int64(n)) || hp.Size != uint64(n) {
		c.Fail(e.vec+"/ProveLookupVector/domain/"+nClass(n), "|f|=%d |t|=%d: size=%d g=%s, expected the subgroup of order %d", len(s.f), len(s.t), hp.Size, short(w), n)
		return
	}
	fv, tv := padded(s, n)
	h1v, h2v := sortedMerge(fv, tv)
	delta := e.rndNZ(r)
	ip := func(v []*big.Int) poly { return e.interp(v, w) }
	accum := func(fv, tv, h1v, h2v []*big.Int, k int, z0 *big.Int, forceLast *big.Int) func(b, g *big.Int) poly {
		return func(b, g *big.Int) poly {
			zv, _ := e.vecAccum(fv, tv, h1v, h2v, k, b, g, z0)
			if forceLast != nil {
				zv[((n-1)*k)%n] = forceLast
			}
			return ip(zv)
		}
	}
	// accumulator whose start value is chosen so that it ENDS at 1: z0 = 1/rho
	accumEndsAt1 := func(fv, tv, h1v, h2v []*big.Int) func(b, g *big.Int) poly {
		return func(b, g *big.Int) poly {
			_, rho := e.vecAccum(fv, tv, h1v, h2v, 1, b, g, one)
			zv, _ := e.vecAccum(fv, tv, h1v, h2v, 1, b, g, F.Inv(rho))
			return ip(zv)
		}
	}
	try := func(kind string, p vecP, want []string, note string) {
		c.Current(fmt.Sprintf("%s vector forgery %s n=%d", e.vec, kind, n))
		got := e.vecOracle(p, vecAll)
		if want != nil && !e.selfCheck(e.vec+"/vector", kind+"/"+cls, got, want) {
			return
		}
		mode := forgeryMode(c, "vector", got, want)
		if mode == modeSkip {
			return
		}
		v := e.vecVerify(e.encVec(p))
		if mode == modeLenient {
			lenient(c, op, "vector", e.vec+"/vector/forgery/"+kind+"/"+nClass(n), v)
			return
		}
		e.expectReject(op, e.vec+"/VerifyLookupVector", kind, nClass(n), v, got, func() string {
			return fmt.Sprintf("n=%d size=%d g=%s f=%s t=%s %s claimed(nu)=%s claimed(g*nu)=%s", n, p.Size, short(p.G), shorts(s.f), shorts(s.t), note, shorts(p.BV), shorts(p.SV))
		})
	}
	mk := func(fv, tv, h1v, h2v []*big.Int, g *big.Int, z func(b, g *big.Int) poly, tm vecTerms) vecSpec {
		return vecSpec{size: uint64(n), g: g, f: ip(fv), t: ip(tv), h1: ip(h1v), h2: ip(h2v), zOf: z, terms: tm}
	}
	// the forger must reach "exact" and pass the reference verifier WITHOUT the targeted term before it is submitted
	termForgery := func(kind string, sp vecSpec, note string) {
		o := e.forgeVec(sp)
		if !o.exact {
			c.Inconclusive("%s: vector forgery %s not exact n=%d", e.vec, kind, n)
			return
		}
		if !e.selfCheck(e.vec+"/vector", kind+"(term skipped)/"+cls, e.vecOracle(o.P, sp.terms), nil) {
			return
		}
		try(kind, o.P, []string{ckIdentity}, note)
	}

	// 0. forger's honest run
	base := e.forgeVec(mk(fv, tv, h1v, h2v, w, accum(fv, tv, h1v, h2v, 1, one, nil), vecAll))
	if f := e.vecOracle(base.P, vecAll); len(f) != 0 || !base.exact {
		c.Inconclusive("%s: the vector forger's honest run fails %s (exact=%v) n=%d", e.vec, failStr(f), base.exact, n)
		return
	}
	if !e.sameProof(e.encVec(base.P), honest) {
		c.AddExtra("vector/spec-prover-differs-from-library-prover", 1)
	}
	{
		v := e.vecVerify(e.encVec(base.P))
		c.Class(e.vec + "/vector/honest/spec-prover/" + cls)
		chk(c, "plookup.VerifyLookupVector/honest", e.vec+"/VerifyLookupVector/honest-rejected/spec-prover/"+nClass(n), v.accepted, func() string {
			return fmt.Sprintf("n=%d: proof computed from the specification (all reference checks hold) -> %s", n, v)
		})
	}

	// a false statement: one looked-up value outside the table
	badF := append([]*big.Int(nil), fv...)
	badIdx := r.Intn(n - 1)
	badF[badIdx] = e.fresh(r, tv)
	bh1, bh2 := sortedMerge(badF, tv)
	noteBad := fmt.Sprintf("f'[%d]=%s not in t;", badIdx, short(badF[badIdx]))

	// 1. through the library prover
	{
		bf := append([]*big.Int(nil), s.f...)
		bf[r.Intn(len(bf))] = e.fresh(r, tv)
		var pr any
		var err error
		pan, _ := mon.Try(func() { pr, err = e.in.VecProve(e.pk, bf, s.t) })
		if !pan && err == nil {
			try("not-in-table/library-prover", e.decVec(pr), nil, "f'="+shorts(bf))
		} else {
			c.Class(e.vec + "/vector/forgery/not-in-table/library-prover-refuses/" + cls)
		}
	}
	// 2. (d) Z(g^(n-1)) = 1 is the only failing term: honest accumulator on the false statement, quotient without (d)
	termForgery("identity/term-Z-ends-at-1", mk(badF, tv, bh1, bh2, w, accum(badF, tv, bh1, bh2, 1, one, nil), vecTerms{a: true, b: true, c: true}), noteBad)
	// 3. (a) Z(1) = 1 is the only failing term: accumulator started at 1/rho so that it ends at 1
	termForgery("identity/term-Z-starts-at-1", mk(badF, tv, bh1, bh2, w, accumEndsAt1(badF, tv, bh1, bh2), vecTerms{b: true, c: true, d: true}), noteBad)
	// 4. (b) the recursion is the only failing term: last accumulator value forced to 1
	if n >= 2 {
		termForgery("identity/term-recursion", mk(badF, tv, bh1, bh2, w, accum(badF, tv, bh1, bh2, 1, one, one), vecTerms{a: true, c: true, d: true}), noteBad)
	}
	// 5. (c) the overlap h1(g^(n-1)) = h2(1) is the only failing term: f = (u,..,u) with u outside t, h1 = t, h2 = (u,..,u)
	{
		u := e.fresh(r, tv)
		uf, uh2 := make([]*big.Int, n), make([]*big.Int, n)
		for i := range uf {
			uf[i], uh2[i] = u, u
		}
		termForgery("identity/term-overlap-h1-h2/constant-f-outside-table", mk(uf, tv, tv, uh2, w, accum(uf, tv, tv, uh2, 1, one, nil), vecTerms{a: true, b: true, d: true}), "f=(u,..,u) u="+short(u)+" not in t; h1=t h2=(u,..,u);")
		// h1 and h2 exchanged on the true statement (the product (b) is symmetric in h1,h2)
		if h1v[n-1].Cmp(h2v[0]) != 0 || h2v[n-1].Cmp(h1v[0]) != 0 {
			termForgery("identity/term-overlap-h1-h2/h1-h2-exchanged", mk(fv, tv, h2v, h1v, w, accum(fv, tv, h2v, h1v, 1, one, nil), vecTerms{a: true, b: true, d: true}), "h1<->h2;")
		}
	}
	// 6. one claimed value moved and opened validly with the trapdoor: only the identity fails
	bn := []string{"h1(nu)", "h2(nu)", "t(nu)", "z(nu)", "f(nu)", "h(nu)"}
	sn := []string{"h1(g*nu)", "h2(g*nu)", "t(g*nu)", "z(g*nu)"}
	for i := 0; i < 6; i++ {
		sp := mk(fv, tv, h1v, h2v, w, accum(fv, tv, h1v, h2v, 1, one, nil), vecAll)
		sp.dB[i] = delta
		try("identity/claimed-value-moved/"+bn[i], e.forgeVec(sp).P, []string{ckIdentity}, "delta="+short(delta))
	}
	for i := 0; i < 4; i++ {
		sp := mk(fv, tv, h1v, h2v, w, accum(fv, tv, h1v, h2v, 1, one, nil), vecAll)
		sp.dS[i] = delta
		try("identity/claimed-value-moved/"+sn[i], e.forgeVec(sp).P, []string{ckIdentity}, "delta="+short(delta))
	}
	// 7. openings
	{
		p := cpV(base.P)
		p.BV[4] = F.Add(p.BV[4], delta)
		p.BV[5] = e.solveVecH(p)
		try("batch-opening/values-consistent-with-identity", p, []string{ckBatchKZG}, "f(nu)+=delta, h(nu) solved")
		p = cpV(base.P)
		p.BH = e.in.G1Add(p.BH, e.gen)
		try("batch-opening/H-shifted", p, []string{ckBatchKZG}, "")
		p = cpV(base.P)
		p.SH = e.in.G1Add(p.SH, e.gen)
		try("shifted-opening/H-shifted", p, []string{ckShiftKZG}, "")
		p = cpV(base.P)
		p.SV[2] = F.Add(p.SV[2], delta)
		h2 := e.solveVecH(p)
		sp := mk(fv, tv, h1v, h2v, w, accum(fv, tv, h1v, h2v, 1, one, nil), vecAll)
		sp.dB[5] = F.Sub(h2, base.P.BV[5])
		o := e.forgeVec(sp)
		o.P.SV = p.SV
		try("shifted-opening/values-consistent-with-identity", o.P, []string{ckShiftKZG}, "t(g*nu)+=delta, h(nu) solved and opened with the trapdoor")
		// shifted batch replaced by a valid batch opening of the same four polynomials at nu
		h, vals, err := e.in.BatchOpen([]poly{base.polys[0], base.polys[1], base.polys[2], base.polys[3]}, []any{p.H1, p.H2, p.T, p.Z}, base.nu, e.pk)
		if err == nil {
			p = cpV(base.P)
			p.SH, p.SV = h, vals
			try("shifted-opening/opened-at-nu-instead-of-g*nu", p, nil, "")
		}
	}
	// 8. generator of smaller order, proof consistent with it, the statement false off the orbit of 1
	for _, k := range lowOrderSteps(n) {
		orbit := orbitOf(n, k)
		m := len(orbit)
		// a true lookup of size m along the orbit; unrelated values (f outside t) elsewhere
		tt := make([]*big.Int, m)
		for i := range tt {
			tt[i] = e.rnd(r)
		}
		sortBig(tt)
		ff := make([]*big.Int, m)
		for i := range ff {
			ff[i] = tt[r.Intn(m)]
		}
		var hh1, hh2 []*big.Int
		if m == 1 {
			hh1, hh2 = []*big.Int{tt[0]}, []*big.Int{tt[0]}
		} else {
			hh1, hh2 = sortedMerge(ff, tt)
		}
		gf, gt, gh1, gh2 := make([]*big.Int, n), make([]*big.Int, n), make([]*big.Int, n), make([]*big.Int, n)
		for i := 0; i < n; i++ {
			gf[i], gt[i], gh1[i], gh2[i] = e.rnd(r), e.rnd(r), e.rnd(r), e.rnd(r)
		}
		for j, i := range orbit {
			gf[i], gt[i], gh1[i], gh2[i] = ff[j], tt[j], hh1[j], hh2[j]
		}
		g := F.Exp(w, int64(k))
		o := e.forgeVec(mk(gf, gt, gh1, gh2, g, accum(gf, gt, gh1, gh2, k, one, nil), vecAll))
		if !o.exact {
			c.Inconclusive("%s: vector low-order generator forgery not exact n=%d k=%d", e.vec, n, k)
			continue
		}
		try(fmt.Sprintf("generator/order-%s", ordClass(m, n)), o.P, []string{ckGenerator}, fmt.Sprintf("g=w^%d f'=%s t'=%s;", k, shorts(gf), shorts(gt)))
	}
	seen := map[int]bool{1: true}
	for _, k := range []int{0, 2, 3, n - 1, n / 2} {
		if n < 2 || seen[k%n] {
			continue
		}
		seen[k%n] = true
		p := cpV(base.P)
		p.G = F.Exp(w, int64(k))
		try("generator/replaced-in-honest-proof/"+genClass(k%n, n), p, nil, fmt.Sprintf("g=w^%d", k))
	}
	// 8c. another primitive root with a proof consistent with it (true lookup laid out along its orbit): accepted
	if n >= 4 {
		k := 3
		orbit := orbitOf(n, k)
		gf, gt, gh1, gh2 := make([]*big.Int, n), make([]*big.Int, n), make([]*big.Int, n), make([]*big.Int, n)
		for j, i := range orbit {
			gf[i], gt[i], gh1[i], gh2[i] = fv[j], tv[j], h1v[j], h2v[j]
		}
		g := F.Exp(w, int64(k))
		o := e.forgeVec(mk(gf, gt, gh1, gh2, g, accum(gf, gt, gh1, gh2, k, one, nil), vecAll))
		f := e.vecOracle(o.P, vecAll)
		if !o.exact || len(f) != 0 {
			c.Inconclusive("%s: vector alternative-generator proof fails %s n=%d", e.vec, failStr(f), n)
		} else {
			v := e.vecVerify(e.encVec(o.P))
			c.Class(e.vec + "/vector/honest/other-primitive-root/" + cls)
			chk(c, "plookup.VerifyLookupVector/honest", e.vec+"/VerifyLookupVector/honest-rejected/other-primitive-root", v.accepted, func() string {
				return fmt.Sprintf("n=%d g=w^%d (order n): every specified check holds -> %s", n, k, v)
			})
		}
	}
	// 8d. challenge binding (see the permutation argument): unrelated f and t (false statement), one commitment chosen after
	// the challenge it should have been bound to, so that the grand product closes.
	{
		af, at, ah1, ah2 := make([]*big.Int, n), make([]*big.Int, n), make([]*big.Int, n), make([]*big.Int, n)
		for i := 0; i < n; i++ {
			af[i], at[i], ah1[i], ah2[i] = e.rnd(r), e.rnd(r), e.rnd(r), e.rnd(r)
		}
		ah2[0] = ah1[n-1]
		for _, late := range []string{"f", "t", "h1", "h2", "z", "h"} {
			cf, ct, c1, c2 := append([]*big.Int(nil), af...), append([]*big.Int(nil), at...), append([]*big.Int(nil), ah1...), append([]*big.Int(nil), ah2...)
			// pair factors for the challenges (b, g)
			type pf struct{ F, T, H1, H2 []*big.Int }
			pairs := func(b, g *big.Int) (pf, *big.Int, *big.Int) {
				ob := F.Add(one, b)
				gob := F.Mul(g, ob)
				var p pf
				for i := 0; i+1 < n; i++ {
					p.F = append(p.F, F.Mul(ob, F.Add(g, cf[i])))
					p.T = append(p.T, F.Add(gob, F.Add(ct[i], F.Mul(b, ct[i+1]))))
					p.H1 = append(p.H1, F.Add(gob, F.Add(c1[i], F.Mul(b, c1[i+1]))))
					p.H2 = append(p.H2, F.Add(gob, F.Add(c2[i], F.Mul(b, c2[i+1]))))
				}
				return p, ob, gob
			}
			prodOf := func(vs []*big.Int, skip int) *big.Int {
				acc := big.NewInt(1)
				for i, x := range vs {
					if i != skip {
						acc = F.Mul(acc, x)
					}
				}
				return acc
			}
			sp := vecSpec{size: uint64(n), g: w, f: ip(cf), t: ip(ct), h1: ip(c1), h2: ip(c2), terms: vecAll, late: late}
			sp.zOf = func(b, g *big.Int) poly {
				zv, _ := e.vecAccum(cf, ct, c1, c2, 1, b, g, one)
				return ip(zv)
			}
			sp.polLate = func(b, g *big.Int) poly {
				p, ob, gob := pairs(b, g)
				lhsAll := func(sf, st int) *big.Int { return F.Mul(prodOf(p.F, sf), prodOf(p.T, st)) }
				rhsAll := func(s1, s2 int) *big.Int { return F.Mul(prodOf(p.H1, s1), prodOf(p.H2, s2)) }
				switch late {
				case "f":
					x := F.Mul(rhsAll(-1, -1), F.Inv(lhsAll(0, -1))) // (1+b)(g+f0)
					cf[0] = F.Sub(F.Mul(x, F.Inv(ob)), g)
					return ip(cf)
				case "t":
					x := F.Mul(rhsAll(-1, -1), F.Inv(lhsAll(-1, 0)))
					ct[0] = F.Sub(F.Sub(x, gob), F.Mul(b, ct[1]))
					return ip(ct)
				case "h1":
					x := F.Mul(lhsAll(-1, -1), F.Inv(rhsAll(0, -1)))
					c1[0] = F.Sub(F.Sub(x, gob), F.Mul(b, c1[1]))
					return ip(c1)
				default: // h2: its last entry only occurs in the last pair
					x := F.Mul(lhsAll(-1, -1), F.Inv(rhsAll(-1, n-2)))
					c2[n-1] = F.Mul(F.Sub(F.Sub(x, gob), c2[n-2]), F.Inv(b))
					return ip(c2)
				}
			}
			sp.zLate = func(b, g, al *big.Int) poly {
				// (b) holds at g^1..g^(n-2), Z(g^(n-1)) = 1, and at x = 1: B(1) + alpha*n*(Z(1)-1) = 0
				p, _, _ := pairs(b, g)
				rat := func(i int) *big.Int {
					return F.Mul(F.Mul(p.F[i], p.T[i]), F.Inv(F.Mul(p.H1[i], p.H2[i])))
				}
				R := big.NewInt(1)
				for i := 1; i+1 < n; i++ {
					R = F.Mul(R, rat(i))
				}
				gl := F.Exp(w, int64(n)-1)
				u := F.Mul(F.Mul(al, big.NewInt(int64(n))), F.Inv(F.Sub(one, gl))) // alpha*n/(1-gl)
				m0, k0 := F.Mul(p.F[0], p.T[0]), F.Mul(p.H1[0], p.H2[0])
				z1 := F.Inv(R)
				cc := F.Mul(F.Add(F.Mul(k0, z1), u), F.Inv(F.Add(m0, u)))
				zv := make([]*big.Int, n)
				zv[0] = cc
				zv[1] = z1
				for i := 1; i+2 < n+1 && i+1 < n; i++ {
					zv[i+1] = F.Mul(zv[i], rat(i))
				}
				return ip(zv)
			}
			o := e.forgeVec(sp)
			kind := "challenge-binding/" + map[string]string{"f": "beta-gamma-without-f", "t": "beta-gamma-without-t", "h1": "beta-gamma-without-h1", "h2": "beta-gamma-without-h2", "z": "alpha-without-z", "h": "nu-without-h"}[late]
			if late != "h" && !o.exact {
				c.Inconclusive("%s: vector %s forgery not exact n=%d", e.vec, kind, n)
				continue
			}
			if !e.selfCheck(e.vec+"/vector", kind+"(forger's challenges)/"+cls, e.vecOracle(o.P, vecAll, o.beta, o.gamma, o.alpha, o.nu), nil) {
				continue
			}
			try(kind, o.P, nil, fmt.Sprintf("f'=%s t'=%s (unrelated)", shorts(cf), shorts(ct)))
		}
	}
	// 9. size replaced in the honest proof
	for _, sz := range []int64{int64(2 * n), int64(n / 2), int64(n + 1), int64(n - 1), 0, 3 * int64(n)} {
		if sz == int64(n) {
			continue
		}
		p := cpV(base.P)
		p.Size = uint64(sz)
		try("size/replaced-in-honest-proof/"+sizeClass(sz, n), p, nil, "")
	}
	// 10. cross-over with a proof of another true statement on the same domain
	{
		s2 := e.vecStatement(r, len(s.f), len(s.t), "random")
		f2, t2 := padded(s2, n)
		g1, g2 := sortedMerge(f2, t2)
		o2 := e.forgeVec(mk(f2, t2, g1, g2, w, accum(f2, t2, g1, g2, 1, one, nil), vecAll))
		p := cpV(base.P)
		p.F = o2.P.F
		try("cross-over/f-of-another-proof", p, nil, "")
		p = cpV(base.P)
		p.T = o2.P.T
		try("cross-over/t-of-another-proof", p, nil, "")
		p = cpV(base.P)
		p.BH, p.BV, p.SH, p.SV = o2.P.BH, append([]*big.Int(nil), o2.P.BV...), o2.P.SH, append([]*big.Int(nil), o2.P.SV...)
		try("cross-over/openings-of-another-proof", p, nil, "")
		p = cpV(o2.P)
		p.F, p.T = base.P.F, base.P.T
		try("cross-over/statement-swapped-under-a-valid-proof", p, nil, "")
		p = cpV(base.P)
		p.H1, p.H2 = p.H2, p.H1
		try("cross-over/h1-h2-commitments-exchanged", p, nil, "")
	}
}

// vecNonPow2: size = 2m (m odd) with g = -1 passes the library's order test; the lookup is then only enforced on {1,-1}.
func (e *env) vecNonPow2(r *gen.Rng) {
	c := e.c
	F := e.F
	for _, m := range []int{3, 5, 7, 9, 11, 13} {
		n := 2 * m
		pm1 := new(big.Int).Sub(F.P, one)
		if new(big.Int).Mod(pm1, big.NewInt(int64(n))).Sign() != 0 {
			continue
		}
		var w *big.Int
		for b := int64(2); b < 100 && w == nil; b++ {
			x := new(big.Int).Exp(big.NewInt(b), new(big.Int).Div(pm1, big.NewInt(int64(n))), F.P)
			if e.exactOrder(x, int64(n)) {
				w = x
			}
		}
		if w == nil {
			continue
		}
		gf, gt, gh1, gh2 := make([]*big.Int, n), make([]*big.Int, n), make([]*big.Int, n), make([]*big.Int, n)
		for i := 0; i < n; i++ {
			gf[i], gt[i], gh1[i], gh2[i] = e.rnd(r), e.rnd(r), e.rnd(r), e.rnd(r)
		}
		// orbit of 1 under -1 = w^m: indices {0, m}; a true lookup of size 2 there: t = (a,b) sorted, f = (a), s = (a,a,b)
		a, b := e.rnd(r), e.rnd(r)
		if a.Cmp(b) > 0 {
			a, b = b, a
		}
		gt[0], gt[m] = a, b
		gf[0], gf[m] = a, a
		gh1[0], gh1[m] = a, a
		gh2[0], gh2[m] = a, b
		g := F.Exp(w, int64(m))
		ip := func(v []*big.Int) poly { return e.interpAny(v, w) }
		zOf := func(bt, gm *big.Int) poly {
			zv, _ := e.vecAccum(gf, gt, gh1, gh2, m, bt, gm, one)
			return ip(zv)
		}
		o := e.forgeVec(vecSpec{size: uint64(n), g: g, f: ip(gf), t: ip(gt), h1: ip(gh1), h2: ip(gh2), zOf: zOf, terms: vecAll})
		if !o.exact {
			c.Inconclusive("%s: vector size=%d g=-1 forgery not exact", e.vec, n)
			return
		}
		got := e.vecOracle(o.P, vecAll)
		if !e.selfCheck(e.vec+"/vector", "generator/size-not-power-of-two", got, []string{ckGenerator}) {
			return
		}
		v := e.vecVerify(e.encVec(o.P))
		e.expectReject("plookup.VerifyLookupVector/forgery", e.vec+"/VerifyLookupVector", "generator/size-2m-with-g=-1", "any", v, got, func() string {
			return fmt.Sprintf("size=%d (=2*%d) g=-1 (order 2, passes g^(size/2)!=1 and g^size=1); f on the order-%d subgroup=%s t=%s (f not in t); a true size-2 lookup on {1,-1}, Z=0 elsewhere; quotient exact", n, m, n, shorts(gf), shorts(gt))
		})
		return
	}
	c.Note("%s: no subgroup of order 2m (m odd <= 13) in the scalar field, size-2m forgery not built", e.vec)
}
