package main

import (
	"fmt"
	"math/big"
)

// The forger: the provers of the three arguments written from the specification over math/big polynomials, with
// knobs the honest prover does not have (any shift element g, any accumulator, any subset of the constraint terms in
// the quotient, challenges replaced by chosen values, claimed values moved with the help of the SRS trapdoor).
// Commitments and opening proofs come from the library's kzg package.

type permSpec struct {
	size   int64
	g      *big.Int
	t1, t2 poly
	// zOf returns the accumulator polynomial for the challenge eps.
	zOf func(eps *big.Int) poly
	// epsUse, when set, replaces the Fiat-Shamir epsilon in the prover's computations.
	epsUse *big.Int
	terms  permTerms
	// dB[i] / dS: move the claimed value i of the batch opening / of the shifted opening by that amount (trapdoor).
	dB [4]*big.Int
	dS *big.Int
	// late names ONE commitment ("t1", "t2", "z", "q") that the forger leaves out of its transcript and chooses AFTER it
	// has seen the challenge that commitment should have been bound to (the proof succeeds only against a verifier
	// that forgets to bind it): t1Late / t2Late / zLate give the polynomial, "q" corrects the quotient at eta.
	late           string
	t1Late, t2Late func(eps *big.Int) poly
	zLate          func(eps, omega *big.Int) poly
}

type permOut struct {
	P               permP
	eps, omega, eta *big.Int
	exact           bool // the quotient division left no remainder
	t1, t2, z, q    poly
}

func (e *env) forgePerm(s permSpec) permOut {
	F := e.F
	n := int(s.size)
	var o permOut
	o.P.Size, o.P.G = s.size, s.g
	tr := e.newTranscript("epsilon", "omega", "eta")
	var pts []any
	if s.late != "t1" {
		o.t1 = ptrim(s.t1, 2)
		o.P.T1 = e.commit(o.t1)
		pts = append(pts, o.P.T1)
	}
	if s.late != "t2" {
		o.t2 = ptrim(s.t2, 2)
		o.P.T2 = e.commit(o.t2)
		pts = append(pts, o.P.T2)
	}
	o.eps = tr.challenge("epsilon", pts...)
	eps := o.eps
	if s.epsUse != nil {
		eps = s.epsUse
	}
	if s.late == "t1" {
		o.t1 = ptrim(s.t1Late(eps), 2)
		o.P.T1 = e.commit(o.t1)
	}
	if s.late == "t2" {
		o.t2 = ptrim(s.t2Late(eps), 2)
		o.P.T2 = e.commit(o.t2)
	}
	if s.late == "z" {
		o.omega = tr.challenge("omega")
		o.z = ptrim(s.zLate(eps, o.omega), 2)
		o.P.Z = e.commit(o.z)
	} else {
		o.z = ptrim(s.zOf(eps), 2)
		o.P.Z = e.commit(o.z)
		o.omega = tr.challenge("omega", o.P.Z)
	}
	num := poly{new(big.Int)}
	if s.terms.rec {
		a := e.pmul(e.pshift(o.z, s.g), e.psub(e.pconst(eps), o.t2))
		b := e.pmul(o.z, e.psub(e.pconst(eps), o.t1))
		num = e.padd(num, e.psub(a, b))
	}
	if s.terms.l0 {
		l0 := e.xnMinus1OverLin(n, one)
		num = e.padd(num, e.pscale(e.pmul(l0, e.paddc(o.z, F.Neg(one))), o.omega))
	}
	q, rem := e.pdivXn(num, n)
	o.exact = pzero(rem)
	o.q = ptrim(q, 2)
	if s.late == "q" {
		o.eta = tr.challenge("eta")
		// q := q + rem(eta)/(eta^n - 1): the identity then holds AT eta although num is not a multiple of X^n - 1
		k := F.Mul(e.peval(rem, o.eta), F.Inv(F.Sub(F.Exp(o.eta, int64(n)), one)))
		o.q = ptrim(e.paddc(o.q, k), 2)
		o.P.Q = e.commit(o.q)
	} else {
		o.P.Q = e.commit(o.q)
		o.eta = tr.challenge("eta", o.P.Q)
	}
	polys := []poly{o.t1, o.t2, o.z, o.q}
	for i := range polys {
		polys[i] = e.equivocate(polys[i], o.eta, s.dB[i])
	}
	var err error
	o.P.BH, o.P.BV, err = e.in.BatchOpen(polys, []any{o.P.T1, o.P.T2, o.P.Z, o.P.Q}, o.eta, e.pk)
	if err != nil {
		panic(fmt.Sprintf("forgePerm: BatchOpen: %v", err))
	}
	sh := F.Mul(o.eta, s.g)
	o.P.SH, o.P.SV, err = e.in.Open(e.equivocate(o.z, sh, s.dS), sh, e.pk)
	if err != nil {
		panic(fmt.Sprintf("forgePerm: Open: %v", err))
	}
	return o
}

// permAccum returns the values on 1, w, .., w^(n-1) of the accumulator that starts with z0 at 1 and follows
// Z(g x)(eps - t2(x)) = Z(x)(eps - t1(x)) along the orbit of 1 under g = w^k, and is 0 outside that orbit.
// closed reports whether the relation also holds at the last point of the orbit (back to 1).
func (e *env) permAccum(t1v, t2v []*big.Int, k int, eps, z0 *big.Int) (zv []*big.Int, closed bool) {
	F := e.F
	n := len(t1v)
	zv = make([]*big.Int, n)
	for i := range zv {
		zv[i] = new(big.Int)
	}
	zv[0] = new(big.Int).Set(z0)
	idx := 0
	cur := z0
	for {
		den := F.Sub(eps, t2v[idx])
		if den.Sign() == 0 {
			panic("permAccum: eps hits a value of t2")
		}
		nxt := F.Mul(cur, F.Mul(F.Sub(eps, t1v[idx]), F.Inv(den)))
		idx = (idx + k) % n
		if idx == 0 {
			return zv, nxt.Cmp(z0) == 0
		}
		zv[idx] = nxt
		cur = nxt
	}
}

type vecSpec struct {
	size         uint64
	g            *big.Int
	f, t, h1, h2 poly
	zOf          func(beta, gamma *big.Int) poly
	alphaUse     *big.Int
	terms        vecTerms
	dB           [6]*big.Int
	dS           [4]*big.Int
	// late names ONE commitment ("t", "f", "h1", "h2", "z", "h") left out of the forger's transcript and chosen after
	// the challenge it should have been bound to (see permSpec.late).
	late    string
	polLate func(beta, gamma *big.Int) poly        // for t, f, h1, h2
	zLate   func(beta, gamma, alpha *big.Int) poly // for z
}

type vecOut struct {
	P                      vecP
	beta, gamma, alpha, nu *big.Int
	exact                  bool
	polys                  [6]poly // h1, h2, t, z, f, h
}

func (e *env) forgeVec(s vecSpec) vecOut {
	F := e.F
	n := int(s.size)
	var o vecOut
	o.P.Size, o.P.G = s.size, s.g
	tr := e.newTranscript("beta", "gamma", "alpha", "nu")
	in := map[string]poly{"t": s.t, "f": s.f, "h1": s.h1, "h2": s.h2}
	cm := map[string]any{}
	var pts []any
	for _, nm := range []string{"t", "f", "h1", "h2"} { // binding order of the specification
		if s.late == nm {
			continue
		}
		in[nm] = ptrim(in[nm], 2)
		cm[nm] = e.commit(in[nm])
		pts = append(pts, cm[nm])
	}
	o.beta = tr.challenge("beta", pts...)
	o.gamma = tr.challenge("gamma")
	beta, gamma := o.beta, o.gamma
	if _, isPol := in[s.late]; isPol {
		in[s.late] = ptrim(s.polLate(beta, gamma), 2)
		cm[s.late] = e.commit(in[s.late])
	}
	f, t, h1, h2 := in["f"], in["t"], in["h1"], in["h2"]
	o.P.T, o.P.F, o.P.H1, o.P.H2 = cm["t"], cm["f"], cm["h1"], cm["h2"]
	var z poly
	if s.late == "z" {
		o.alpha = tr.challenge("alpha")
		z = ptrim(s.zLate(beta, gamma, o.alpha), 2)
		o.P.Z = e.commit(z)
	} else {
		z = ptrim(s.zOf(beta, gamma), 2)
		o.P.Z = e.commit(z)
		o.alpha = tr.challenge("alpha", o.P.Z)
	}
	alpha := o.alpha
	if s.alphaUse != nil {
		alpha = s.alphaUse
	}
	g := s.g
	gl := F.Exp(g, int64(n)-1)
	ob := F.Add(one, beta)
	gob := F.Mul(gamma, ob)
	l0 := e.xnMinus1OverLin(n, one)
	ln := e.xnMinus1OverLin(n, gl)
	num := poly{new(big.Int)}
	if s.terms.b {
		m := e.pmul(e.pscale(z, ob), e.pmul(e.paddc(f, gamma), e.paddc(e.padd(t, e.pscale(e.pshift(t, g), beta)), gob)))
		k := e.pmul(e.pshift(z, g), e.pmul(
			e.paddc(e.padd(h1, e.pscale(e.pshift(h1, g), beta)), gob),
			e.paddc(e.padd(h2, e.pscale(e.pshift(h2, g), beta)), gob)))
		num = e.padd(num, e.pmul(poly{F.Neg(gl), big.NewInt(1)}, e.psub(m, k)))
	}
	a1 := alpha
	a2 := F.Mul(a1, alpha)
	a3 := F.Mul(a2, alpha)
	zm1 := e.paddc(z, F.Neg(one))
	if s.terms.a {
		num = e.padd(num, e.pscale(e.pmul(l0, zm1), a1))
	}
	if s.terms.d {
		num = e.padd(num, e.pscale(e.pmul(ln, zm1), a2))
	}
	if s.terms.c {
		num = e.padd(num, e.pscale(e.pmul(ln, e.psub(h1, e.pshift(h2, g))), a3))
	}
	q, rem := e.pdivXn(num, n)
	o.exact = pzero(rem)
	h := ptrim(q, 2)
	if s.late == "h" {
		o.nu = tr.challenge("nu")
		k := F.Mul(e.peval(rem, o.nu), F.Inv(F.Sub(F.Exp(o.nu, int64(n)), one)))
		h = ptrim(e.paddc(h, k), 2)
		o.P.H = e.commit(h)
	} else {
		o.P.H = e.commit(h)
		o.nu = tr.challenge("nu", o.P.H)
	}
	o.polys = [6]poly{h1, h2, t, z, f, h}
	ps := make([]poly, 6)
	for i := range ps {
		ps[i] = e.equivocate(o.polys[i], o.nu, s.dB[i])
	}
	var err error
	o.P.BH, o.P.BV, err = e.in.BatchOpen(ps, []any{o.P.H1, o.P.H2, o.P.T, o.P.Z, o.P.F, o.P.H}, o.nu, e.pk)
	if err != nil {
		panic(fmt.Sprintf("forgeVec: BatchOpen: %v", err))
	}
	sh := F.Mul(o.nu, g)
	ps = make([]poly, 4)
	for i := range ps {
		ps[i] = e.equivocate(o.polys[i], sh, s.dS[i])
	}
	o.P.SH, o.P.SV, err = e.in.BatchOpen(ps, []any{o.P.H1, o.P.H2, o.P.T, o.P.Z}, sh, e.pk)
	if err != nil {
		panic(fmt.Sprintf("forgeVec: BatchOpen (shifted): %v", err))
	}
	return o
}

// vecAccum returns the values on 1, w, .. of the accumulator that starts with z0 at 1 and follows relation (b)
// along the orbit x_j = g^j (g = w^k of order m = n/gcd(n,k)) for j = 0..m-2, and is 0 outside the orbit.
// It returns the value reached at x_(m-1) = g^(n-1).
func (e *env) vecAccum(fv, tv, h1v, h2v []*big.Int, k int, beta, gamma, z0 *big.Int) (zv []*big.Int, last *big.Int) {
	F := e.F
	n := len(tv)
	zv = make([]*big.Int, n)
	for i := range zv {
		zv[i] = new(big.Int)
	}
	zv[0] = new(big.Int).Set(z0)
	ob := F.Add(one, beta)
	gob := F.Mul(gamma, ob)
	idx := 0
	cur := z0
	for {
		nx := (idx + k) % n
		if nx == 0 { // idx is the last point of the orbit: (X - g^(n-1)) vanishes there
			return zv, cur
		}
		numr := F.Mul(F.Mul(ob, F.Add(gamma, fv[idx])), F.Add(gob, F.Add(tv[idx], F.Mul(beta, tv[nx]))))
		den := F.Mul(F.Add(gob, F.Add(h1v[idx], F.Mul(beta, h1v[nx]))), F.Add(gob, F.Add(h2v[idx], F.Mul(beta, h2v[nx]))))
		if den.Sign() == 0 {
			panic("vecAccum: zero denominator")
		}
		cur = F.Mul(cur, F.Mul(numr, F.Inv(den)))
		zv[nx] = cur
		idx = nx
	}
}

// sortedMerge returns s = (f[0..n-2], t) sorted (canonical integer order), split as h1 = s[0..n-1], h2 = s[n-1..2n-2].
func sortedMerge(fv, tv []*big.Int) (h1, h2 []*big.Int) {
	n := len(tv)
	s := make([]*big.Int, 0, 2*n-1)
	s = append(s, tv...)
	s = append(s, fv[:n-1]...)
	sortBig(s)
	return append([]*big.Int(nil), s[:n]...), append([]*big.Int(nil), s[n-1:]...)
}

func sortBig(s []*big.Int) {
	// insertion sort is enough for the sizes used here (<= 2*256)
	for i := 1; i < len(s); i++ {
		for j := i; j > 0 && s[j-1].Cmp(s[j]) > 0; j-- {
			s[j-1], s[j] = s[j], s[j-1]
		}
	}
}

// solvePermQ returns the value q(eta) that makes the permutation identity hold for the claimed values of p.
func (e *env) solvePermQ(p permP) *big.Int {
	eps, omega, eta := e.permChallenges(p)
	num, zh := e.permNumerator(p, permAll, eps, omega, eta)
	return e.F.Mul(num, e.F.Inv(zh))
}

// solveVecH returns the value h(nu) that makes the plookup identity hold for the claimed values of p.
func (e *env) solveVecH(p vecP) *big.Int {
	beta, gamma, alpha, nu := e.vecChallenges(p)
	num, zh := e.vecNumerator(p, vecAll, beta, gamma, alpha, nu)
	return e.F.Mul(num, e.F.Inv(zh))
}
