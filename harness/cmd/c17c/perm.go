package main

import (
	"fmt"
	"math/big"
	"strings"

	"verif/harness/gen"
	"verif/harness/mon"
)

// verdict of one library Verify call
type verdict struct {
	accepted bool
	panicked bool
	err      error
	pval     any
}

func run(fn func() error) (v verdict) {
	var err error
	p, val := mon.Try(func() { err = fn() })
	return verdict{accepted: !p && err == nil, panicked: p, err: err, pval: val}
}

func (v verdict) String() string {
	switch {
	case v.panicked:
		return fmt.Sprintf("PANIC(%v)", v.pval)
	case v.accepted:
		return "ACCEPTED"
	}
	return fmt.Sprintf("rejected(%v)", v.err)
}

func nClass(n int) string {
	if n <= 2 {
		return fmt.Sprintf("n=%d", n)
	}
	return "n>=4"
}

// expectReject records the outcome of the verifier on a forged proof. want = the checks the reference verifier
// reports as failing (never empty here).
func (e *env) expectReject(op, prefix, kind, cls string, v verdict, oracleFail []string, detail func() string) {
	e.c.Class(prefix + "/forgery/" + kind + "/" + cls)
	if v.panicked {
		chk(e.c, op, prefix+"/panic/"+kind, false, func() string {
			return fmt.Sprintf("%s: verifier panicked: %v; reference verifier fails %s", detail(), v.pval, failStr(oracleFail))
		})
		return
	}
	chk(e.c, op, prefix+"/forgery-accepted/"+kind, !v.accepted, func() string {
		return fmt.Sprintf("%s: verifier returned nil; checks failing in the reference verifier: %s", detail(), failStr(oracleFail))
	})
}

// selfCheck validates a targeted forgery against the reference verifier: exactly the targeted checks fail.
// A mismatch is a defect of the forger (or of the kzg / fiat-shamir code it relies on), not of the verifier under test.
func (e *env) selfCheck(prefix, kind string, got, want []string) bool {
	if sameSet(got, want) {
		return true
	}
	e.c.Inconclusive("%s: forger self-check failed for %s: reference verifier fails {%s}, the forgery was built to fail {%s}", prefix, kind, failStr(got), failStr(want))
	return false
}

const (
	modeStrict = iota
	modeSkip
	modeLenient
)

// forgeryMode decides what is demanded of the verifier for a modified proof whose failing reference checks are `got`.
// Targeted forgeries (want != nil) are always strict. An opportunistic modification (want == nil) that the reference
// verifier does not reject is not a forgery (degenerate statements: constant accumulator, zero quotient): skipped.
// When only the domain parameters (size, g) have become inconsistent while all algebraic evidence is still valid, the
// statement that is proven is still true: nothing is demanded (acceptances are counted in the evidence); the generator /
// size checks have their own targeted forgeries on false statements.
func forgeryMode(c *mon.Ctx, scheme string, got, want []string) int {
	if want != nil {
		return modeStrict
	}
	if len(got) == 0 {
		c.AddExtra(scheme+"/modifications-still-valid-per-specification(skipped)", 1)
		return modeSkip
	}
	for _, g := range got {
		if i := strings.LastIndexByte(g, ':'); i >= 0 { // "perm:generator", "vec:shape" inside a table lookup
			g = g[i+1:]
		}
		if g != ckGenerator && g != ckShape && g != ckDomain {
			return modeStrict
		}
	}
	return modeLenient
}

func lenient(c *mon.Ctx, op, scheme, class string, v verdict) {
	c.Class(class + "/evidence-valid,size-or-generator-inconsistent")
	c.Eval(op, 1)
	if v.accepted {
		c.AddExtra(scheme+"/accepted:evidence-valid-but-size-or-generator-inconsistent", 1)
	}
}

type permStmt struct {
	n      int
	t1, t2 []*big.Int
	class  string
}

func (e *env) permStatement(r *gen.Rng, n int, class string) permStmt {
	t1 := make([]*big.Int, n)
	for i := range t1 {
		t1[i] = e.rnd(r)
	}
	switch class {
	case "all-equal":
		for i := range t1 {
			t1[i] = new(big.Int).Set(t1[0])
		}
	case "duplicates":
		for i := range t1 {
			t1[i] = new(big.Int).Set(t1[r.Intn(1+n/3)])
		}
	case "edge-values":
		ed := []*big.Int{new(big.Int), big.NewInt(1), new(big.Int).Sub(e.F.P, one), big.NewInt(2)}
		for i := range t1 {
			if r.Intn(2) == 0 {
				t1[i] = new(big.Int).Set(ed[r.Intn(len(ed))])
			}
		}
	case "small":
		for i := range t1 {
			t1[i] = big.NewInt(int64(r.Intn(50)))
		}
	}
	t2 := make([]*big.Int, n)
	switch class {
	case "identity-perm":
		copy(t2, t1)
	case "reversal":
		for i := range t2 {
			t2[i] = t1[n-1-i]
		}
	case "rotation":
		for i := range t2 {
			t2[i] = t1[(i+1)%n]
		}
	default:
		pm := r.Perm(n)
		for i := range t2 {
			t2[i] = t1[pm[i]]
		}
	}
	return permStmt{n, t1, t2, class}
}

var permClasses = []string{"random", "identity-perm", "reversal", "rotation", "all-equal", "duplicates", "edge-values", "small"}

func (e *env) permVerify(p any) verdict { return run(func() error { return e.in.PermVerify(e.vk, p) }) }

// permHonest: the library prover on a true statement; the proof must be accepted, and the reference verifier agrees.
func (e *env) permHonest(s permStmt) (proof any, ok bool) {
	c := e.c
	op := "permutation.Verify/honest"
	cls := fmt.Sprintf("%s/%s", nClass(s.n), s.class)
	c.Current(fmt.Sprintf("%s honest n=%d %s", e.perm, s.n, s.class))
	var err error
	pan, pv := mon.Try(func() { proof, err = e.in.PermProve(e.pk, s.t1, s.t2) })
	if (pan || err != nil) && s.n == 1 && !pan {
		// size 1 = 2^0: the prover returns an error (kzg cannot open the constant polynomials involved). No proof exists, so
		// there is no verifier verdict to examine; recorded in the evidence, not a violation of this property.
		c.Class(e.perm + "/honest/n=1/prover-returns-error")
		c.Extra(e.perm+"/Prove(n=1)", fmt.Sprintf("error: %v", err))
		return nil, false
	}
	if pan || err != nil {
		// the prover refusing an admissible statement is not a verifier verdict; it is reported separately
		chk(c, "permutation.Prove", e.perm+"/Prove/fails-on-admissible/"+nClass(s.n), false, func() string {
			return fmt.Sprintf("n=%d class=%s t1=%s t2=%s: Prove returned err=%v panic=%v", s.n, s.class, shorts(s.t1), shorts(s.t2), err, pv)
		})
		return nil, false
	}
	v := e.permVerify(proof)
	fails := e.permOracle(e.decPerm(proof), permAll)
	c.Class(e.perm + "/honest/" + cls + fmt.Sprintf("/n=%d", s.n))
	chk(c, op, e.perm+"/Verify/honest-rejected/"+nClass(s.n), v.accepted, func() string {
		return fmt.Sprintf("n=%d class=%s t1=%s t2=%s: honest proof -> %s; reference verifier failing checks: %s", s.n, s.class, shorts(s.t1), shorts(s.t2), v, failStr(fails))
	})
	chk(c, op, e.perm+"/Prove/honest-proof-fails-specification/"+failStr(fails), len(fails) == 0, func() string {
		return fmt.Sprintf("n=%d class=%s: the proof of the library prover does not satisfy the specified checks %s (library verifier: %s)", s.n, s.class, failStr(fails), v)
	})
	return proof, v.accepted
}

// falsify returns a copy of t2 that is not a permutation of t1 (one entry replaced by a fresh value).
func (e *env) falsify(r *gen.Rng, t1, t2 []*big.Int) []*big.Int {
	out := append([]*big.Int(nil), t2...)
	for {
		v := e.rnd(r)
		fresh := true
		for _, x := range t1 {
			if x.Cmp(v) == 0 {
				fresh = false
			}
		}
		if fresh {
			out[r.Intn(len(out))] = v
			return out
		}
	}
}

func (e *env) honestAccumOf(t1v, t2v []*big.Int, w *big.Int, k int, z0 *big.Int) func(eps *big.Int) poly {
	return func(eps *big.Int) poly {
		zv, _ := e.permAccum(t1v, t2v, k, eps, z0)
		return e.interpAny(zv, w)
	}
}

// interpAny interpolates on the powers of w (order n = len(v)), any n dividing r-1.
func (e *env) interpAny(v []*big.Int, w *big.Int) poly {
	n := len(v)
	if n&(n-1) == 0 {
		return e.interp(v, w)
	}
	F := e.F
	winv := F.Inv(w)
	ninv := F.Inv(big.NewInt(int64(n)))
	out := make(poly, n)
	for k := 0; k < n; k++ {
		acc := new(big.Int)
		wk := F.Exp(winv, int64(k))
		x := big.NewInt(1)
		for j := 0; j < n; j++ {
			acc = F.Add(acc, F.Mul(v[j], x))
			x = F.Mul(x, wk)
		}
		out[k] = F.Mul(acc, ninv)
	}
	return out
}

// permTargeted builds, for one true statement s (and falsified variants), one forgery per verifier check.
func (e *env) permTargeted(r *gen.Rng, s permStmt, honest any) {
	c := e.c
	op := "permutation.Verify/forgery"
	n := s.n
	cls := fmt.Sprintf("n=%d", n)
	hp := e.decPerm(honest)
	w := hp.G // the generator the library prover used (validated below)
	if !e.exactOrder(w, int64(n)) {
		c.Fail(e.perm+"/Prove/generator-not-primitive/"+nClass(n), "n=%d g=%s does not have order n", n, short(w))
		return
	}
	P1, P2 := e.interp(s.t1, w), e.interp(s.t2, w)
	bad2 := e.falsify(r, s.t1, s.t2)
	B2 := e.interp(bad2, w)
	delta := e.rndNZ(r)

	try := func(kind string, p permP, want []string, note string) {
		c.Current(fmt.Sprintf("%s forgery %s n=%d", e.perm, kind, n))
		got := e.permOracle(p, permAll)
		if want != nil && !e.selfCheck(e.perm, kind+"/"+cls, got, want) {
			return
		}
		mode := forgeryMode(c, "permutation", got, want)
		if mode == modeSkip {
			return
		}
		obj := e.encPerm(p)
		v := e.permVerify(obj)
		if mode == modeLenient {
			lenient(c, op, "permutation", e.perm+"/forgery/"+kind+"/"+nClass(n), v)
			return
		}
		e.expectReject(op, e.perm+"/Verify", kind, nClass(n), v, got, func() string {
			return fmt.Sprintf("n=%d size=%d g=%s t1=%s t2=%s %s claimed(eta)=%s claimed(g*eta)=%s", n, p.Size, short(p.G), shorts(s.t1), shorts(s.t2), note, shorts(p.BV), short(p.SV))
		})
	}

	// 0. the forger's own honest run is a valid proof (and equals the library's, the prover being deterministic)
	base := e.forgePerm(permSpec{size: int64(n), g: w, t1: P1, t2: P2, zOf: e.honestAccumOf(s.t1, s.t2, w, 1, one), terms: permAll})
	if f := e.permOracle(base.P, permAll); len(f) != 0 || !base.exact {
		c.Inconclusive("%s: the forger's honest run fails %s (exact=%v) n=%d", e.perm, failStr(f), base.exact, n)
		return
	}
	if !e.sameProof(e.encPerm(base.P), honest) {
		c.AddExtra("perm/spec-prover-differs-from-library-prover", 1)
	}
	{
		v := e.permVerify(e.encPerm(base.P))
		c.Class(e.perm + "/honest/spec-prover/" + cls)
		chk(c, "permutation.Verify/honest", e.perm+"/Verify/honest-rejected/spec-prover/"+nClass(n), v.accepted, func() string {
			return fmt.Sprintf("n=%d: proof computed from the specification (all reference checks hold) -> %s", n, v)
		})
	}

	// 1. false statement through the library prover
	{
		var pr any
		var err error
		pan, _ := mon.Try(func() { pr, err = e.in.PermProve(e.pk, s.t1, bad2) })
		if !pan && err == nil {
			try("non-permutation/library-prover", e.decPerm(pr), nil, "t2'="+shorts(bad2))
		} else {
			c.Class(e.perm + "/forgery/non-permutation/library-prover-refuses/" + cls)
		}
	}
	// 2. false statement, quotient built WITHOUT the recursion term: only the recursion part of the identity fails
	{
		o := e.forgePerm(permSpec{size: int64(n), g: w, t1: P1, t2: B2, zOf: e.honestAccumOf(s.t1, bad2, w, 1, one), terms: permTerms{rec: false, l0: true}})
		if o.exact && e.selfCheck(e.perm, "recursion-term(skip)/"+cls, e.permOracle(o.P, permTerms{rec: false, l0: true}), nil) {
			try("identity/recursion-term", o.P, []string{ckIdentity}, "t2'="+shorts(bad2))
		} else if !o.exact {
			c.Inconclusive("%s: recursion-term forgery not exact n=%d", e.perm, n)
		}
	}
	// 3. Z = 0 (and Z = c(X^n-1)): recursion holds trivially for ANY t1,t2; only L0(Z-1) fails
	for vi, zp := range []poly{{new(big.Int), new(big.Int)}, nil} {
		name := "identity/Z(1)=1-term/zero-accumulator"
		if vi == 1 {
			name = "identity/Z(1)=1-term/accumulator-vanishing-on-domain"
			zp = make(poly, n+1)
			for i := range zp {
				zp[i] = new(big.Int)
			}
			zp[0] = e.F.Neg(delta)
			zp[n] = new(big.Int).Set(delta)
		}
		zc := zp
		o := e.forgePerm(permSpec{size: int64(n), g: w, t1: P1, t2: B2, zOf: func(*big.Int) poly { return zc }, terms: permTerms{rec: true, l0: false}})
		if o.exact && e.selfCheck(e.perm, name+"(skip)/"+cls, e.permOracle(o.P, permTerms{rec: true, l0: false}), nil) {
			try(name, o.P, []string{ckIdentity}, "t2'="+shorts(bad2))
		} else if !o.exact {
			c.Inconclusive("%s: %s forgery not exact n=%d", e.perm, name, n)
		}
	}
	// 4. one claimed value moved, its opening proof made valid with the trapdoor: only the identity fails
	names := []string{"t1(eta)", "t2(eta)", "z(eta)", "q(eta)"}
	for i := 0; i < 4; i++ {
		sp := permSpec{size: int64(n), g: w, t1: P1, t2: P2, zOf: e.honestAccumOf(s.t1, s.t2, w, 1, one), terms: permAll}
		sp.dB[i] = delta
		try("identity/claimed-value-moved/"+names[i], e.forgePerm(sp).P, []string{ckIdentity}, "delta="+short(delta))
	}
	{
		sp := permSpec{size: int64(n), g: w, t1: P1, t2: P2, zOf: e.honestAccumOf(s.t1, s.t2, w, 1, one), terms: permAll, dS: delta}
		try("identity/claimed-value-moved/z(g*eta)", e.forgePerm(sp).P, []string{ckIdentity}, "delta="+short(delta))
	}
	// 5. claimed values moved consistently (identity holds), opening proofs untouched: only the KZG check fails
	{
		p := cpP(base.P)
		p.BV[0] = e.F.Add(p.BV[0], delta)
		p.BV[3] = e.solvePermQ(p)
		try("batch-opening/values-consistent-with-identity", p, []string{ckBatchKZG}, "t1(eta)+=delta, q(eta) solved")
		p = cpP(base.P)
		p.BH = e.in.G1Add(p.BH, e.gen)
		try("batch-opening/H-shifted", p, []string{ckBatchKZG}, "")
		p = cpP(base.P)
		p.SH = e.in.G1Add(p.SH, e.gen)
		try("shifted-opening/H-shifted", p, []string{ckShiftKZG}, "")
		// z(g eta) moved, q(eta) re-solved and opened validly with the trapdoor: only the shifted opening fails
		p = cpP(base.P)
		p.SV = e.F.Add(p.SV, delta)
		q2 := e.solvePermQ(p)
		sp := permSpec{size: int64(n), g: w, t1: P1, t2: P2, zOf: e.honestAccumOf(s.t1, s.t2, w, 1, one), terms: permAll}
		sp.dB[3] = e.F.Sub(q2, base.P.BV[3])
		o := e.forgePerm(sp)
		o.P.SV = p.SV
		try("shifted-opening/values-consistent-with-identity", o.P, []string{ckShiftKZG}, "z(g*eta)+=delta, q(eta) solved and opened with the trapdoor")
		// shifted opening replaced by an opening of z at eta (valid opening, wrong point)
		p = cpP(base.P)
		h, val, err := e.in.Open(base.z, base.eta, e.pk)
		if err == nil {
			p.SH, p.SV = h, val
			try("shifted-opening/opened-at-eta-instead-of-g*eta", p, nil, "")
		}
	}
	// 6. generator: shift element of smaller order, the whole proof consistent with it, statement false off the orbit of 1
	for _, k := range lowOrderSteps(n) {
		t2v := make([]*big.Int, n)
		// t2 agrees with t1 as a multiset on the orbit {w^(k j)} (a rotation of it), arbitrary elsewhere
		orbit := orbitOf(n, k)
		onOrbit := map[int]bool{}
		for _, i := range orbit {
			onOrbit[i] = true
		}
		for j, i := range orbit {
			t2v[i] = s.t1[orbit[(j+1)%len(orbit)]]
		}
		for i := range t2v {
			if !onOrbit[i] {
				t2v[i] = e.rnd(r)
			}
		}
		g := e.F.Exp(w, int64(k))
		o := e.forgePerm(permSpec{size: int64(n), g: g, t1: P1, t2: e.interp(t2v, w), zOf: e.honestAccumOf(s.t1, t2v, w, k, one), terms: permAll})
		if !o.exact {
			c.Inconclusive("%s: low-order generator forgery not exact n=%d k=%d", e.perm, n, k)
			continue
		}
		try("generator/order-"+ordClass(len(orbit), n), o.P, []string{ckGenerator}, fmt.Sprintf("g=w^%d t2'=%s", k, shorts(t2v)))
	}
	// 6b. g replaced in the honest proof
	for _, k := range []int{0, 2, 3, n - 1, n / 2} {
		if n < 2 || k%n == 1 {
			continue
		}
		p := cpP(base.P)
		p.G = e.F.Exp(w, int64(k))
		try(fmt.Sprintf("generator/replaced-in-honest-proof/%s", genClass(k, n)), p, nil, fmt.Sprintf("g=w^%d", k))
	}
	// 6b'. the honest proof relabelled as a statement of size 1 with generator 1 (the trivial domain): the algebraic
	// relation and the openings still have to hold for that size
	if n >= 2 {
		p := cpP(base.P)
		p.Size, p.G = 1, big.NewInt(1)
		try("size-and-generator-relabelled-to-the-trivial-domain", p, nil, "size=1 g=1")
		p = cpP(base.P)
		p.Size, p.G = 2, new(big.Int).Sub(e.F.P, big.NewInt(1))
		if n != 2 {
			try("size-and-generator-relabelled-to-size-2", p, nil, "size=2 g=-1")
		}
	}
	// 6c. another primitive n-th root, proof consistent with it: a valid proof of the true statement -> accepted
	if n >= 4 {
		k := 3
		if n >= 8 && r.Intn(2) == 0 {
			k = n - 3
		}
		g := e.F.Exp(w, int64(k))
		o := e.forgePerm(permSpec{size: int64(n), g: g, t1: P1, t2: P2, zOf: e.honestAccumOf(s.t1, s.t2, w, k, one), terms: permAll})
		f := e.permOracle(o.P, permAll)
		if !o.exact || len(f) != 0 {
			c.Inconclusive("%s: alternative-generator proof fails %s n=%d", e.perm, failStr(f), n)
		} else {
			v := e.permVerify(e.encPerm(o.P))
			c.Class(e.perm + "/honest/other-primitive-root/" + cls)
			chk(c, "permutation.Verify/honest", e.perm+"/Verify/honest-rejected/other-primitive-root", v.accepted, func() string {
				return fmt.Sprintf("n=%d g=w^%d (order n): every specified check holds -> %s", n, k, v)
			})
		}
	}
	// 7. size replaced in the honest proof
	for _, sz := range []int64{int64(2 * n), int64(n / 2), int64(n + 1), int64(n - 1), 0, -int64(n), 3 * int64(n)} {
		if sz == int64(n) {
			continue
		}
		p := cpP(base.P)
		p.Size = sz
		try("size/replaced-in-honest-proof/"+sizeClass(sz, n), p, nil, "")
	}
	// 8. epsilon not taken from the transcript: a false statement that holds at a prover-chosen epsilon'
	if n >= 2 {
		F := e.F
		epsP := e.rnd(r)
		t2v := append([]*big.Int(nil), s.t1...)
		a2 := e.rnd(r)
		// (eps'-t1[0])(eps'-t1[1]) = (eps'-a2)(eps'-b2)
		b2 := F.Sub(epsP, F.Mul(F.Mul(F.Sub(epsP, s.t1[0]), F.Sub(epsP, s.t1[1])), F.Inv(F.Sub(epsP, a2))))
		t2v[0], t2v[1] = a2, b2
		o := e.forgePerm(permSpec{size: int64(n), g: w, t1: P1, t2: e.interp(t2v, w), epsUse: epsP, zOf: e.honestAccumOf(s.t1, t2v, w, 1, one), terms: permAll})
		if !o.exact {
			c.Inconclusive("%s: chosen-epsilon forgery not exact n=%d", e.perm, n)
		} else {
			try("challenge/epsilon-chosen-by-prover", o.P, []string{ckIdentity}, fmt.Sprintf("eps'=%s t2'=%s", short(epsP), shorts(t2v)))
		}
	}
	// 8b. challenge binding: one commitment is left out of the forger's transcript and chosen after the challenge; the proof
	// is valid for a verifier that forgets to bind that commitment, and the statement is false (unrelated vectors).
	if n >= 2 {
		F := e.F
		a1, a2 := make([]*big.Int, n), make([]*big.Int, n)
		for i := range a1 {
			a1[i], a2[i] = e.rnd(r), e.rnd(r)
		}
		prod := func(eps *big.Int, v []*big.Int, from int) *big.Int {
			acc := big.NewInt(1)
			for i := from; i < len(v); i++ {
				acc = F.Mul(acc, F.Sub(eps, v[i]))
			}
			return acc
		}
		ratio := func(eps *big.Int, i int) *big.Int {
			return F.Mul(F.Sub(eps, a1[i]), F.Inv(F.Sub(eps, a2[i])))
		}
		for _, late := range []string{"t1", "t2", "z", "q"} {
			c1, c2 := append([]*big.Int(nil), a1...), append([]*big.Int(nil), a2...)
			sp := permSpec{size: int64(n), g: w, t1: e.interp(c1, w), t2: e.interp(c2, w), terms: permAll, late: late}
			sp.zOf = func(eps *big.Int) poly {
				zv, _ := e.permAccum(c1, c2, 1, eps, one)
				return e.interp(zv, w)
			}
			sp.t1Late = func(eps *big.Int) poly {
				c1[0] = F.Sub(eps, F.Mul(prod(eps, c2, 0), F.Inv(prod(eps, c1, 1))))
				return e.interp(c1, w)
			}
			sp.t2Late = func(eps *big.Int) poly {
				c2[0] = F.Sub(eps, F.Mul(prod(eps, c1, 0), F.Inv(prod(eps, c2, 1))))
				return e.interp(c2, w)
			}
			sp.zLate = func(eps, omega *big.Int) poly {
				// recursion everywhere except at x = 1, where rec(1) + omega*n*(Z(1)-1) = 0
				R := big.NewInt(1)
				for i := 1; i < n; i++ {
					R = F.Mul(R, ratio(eps, i))
				}
				A, B := F.Sub(eps, a1[0]), F.Sub(eps, a2[0])
				on := F.Mul(omega, big.NewInt(int64(n)))
				cc := F.Mul(F.Mul(R, on), F.Inv(F.Add(F.Sub(B, F.Mul(R, A)), F.Mul(R, on))))
				zv := make([]*big.Int, n)
				zv[0] = cc
				zv[1%n] = F.Mul(F.Sub(F.Mul(cc, A), F.Mul(on, F.Sub(cc, one))), F.Inv(B))
				for i := 1; i+1 < n; i++ {
					zv[i+1] = F.Mul(zv[i], ratio(eps, i))
				}
				return e.interp(zv, w)
			}
			o := e.forgePerm(sp)
			kind := "challenge-binding/" + map[string]string{"t1": "epsilon-without-t1", "t2": "epsilon-without-t2", "z": "omega-without-z", "q": "eta-without-q"}[late]
			if late != "q" && !o.exact {
				c.Inconclusive("%s: %s forgery not exact n=%d", e.perm, kind, n)
				continue
			}
			if !e.selfCheck(e.perm, kind+"(forger's challenges)/"+cls, e.permOracle(o.P, permAll, o.eps, o.omega, o.eta), nil) {
				continue
			}
			try(kind, o.P, nil, fmt.Sprintf("t1'=%s t2'=%s (unrelated); forger's challenges eps=%s omega=%s eta=%s", shorts(c1), shorts(c2), short(o.eps), short(o.omega), short(o.eta)))
		}
	}
	// 9. proof components taken from a proof of another statement of the same size (cross-over)
	{
		s2 := e.permStatement(r, n, "random")
		o2 := e.forgePerm(permSpec{size: int64(n), g: w, t1: e.interp(s2.t1, w), t2: e.interp(s2.t2, w), zOf: e.honestAccumOf(s2.t1, s2.t2, w, 1, one), terms: permAll})
		p := cpP(base.P)
		p.T2 = o2.P.T2
		try("cross-over/t2-of-another-proof", p, nil, "")
		p = cpP(base.P)
		p.BH, p.BV, p.SH, p.SV = o2.P.BH, append([]*big.Int(nil), o2.P.BV...), o2.P.SH, o2.P.SV
		try("cross-over/openings-of-another-proof", p, nil, "")
		p = cpP(o2.P)
		p.T1, p.T2 = base.P.T1, base.P.T2
		try("cross-over/statement-swapped-under-a-valid-proof", p, nil, "")
	}
}

// permNonPow2 : size = 2m (m odd), g = -1. The library tests g^(size/2) != 1 and g^size = 1, which -1 passes; the argument
// then only constrains the orbit {1,-1}. Built over the subgroup of order 2m when it exists in the field.
func (e *env) permNonPow2(r *gen.Rng) {
	c := e.c
	for _, m := range []int{3, 5, 7, 9, 11, 13} {
		n := 2 * m
		pm1 := new(big.Int).Sub(e.F.P, one)
		if new(big.Int).Mod(pm1, big.NewInt(int64(n))).Sign() != 0 {
			continue
		}
		// element of exact order n
		var w *big.Int
		for b := int64(2); b < 100 && w == nil; b++ {
			x := new(big.Int).Exp(big.NewInt(b), new(big.Int).Div(pm1, big.NewInt(int64(n))), e.F.P)
			if e.exactOrder(x, int64(n)) {
				w = x
			}
		}
		if w == nil {
			continue
		}
		t1v, t2v := make([]*big.Int, n), make([]*big.Int, n)
		for i := range t1v {
			t1v[i], t2v[i] = e.rnd(r), e.rnd(r)
		}
		// orbit of 1 under -1 = w^m is {0, m}: same multiset there, unrelated values elsewhere
		t2v[0], t2v[m] = t1v[m], t1v[0]
		g := e.F.Exp(w, int64(m)) // = -1
		o := e.forgePerm(permSpec{size: int64(n), g: g, t1: e.interpAny(t1v, w), t2: e.interpAny(t2v, w), zOf: e.honestAccumOf(t1v, t2v, w, m, one), terms: permAll})
		if !o.exact {
			c.Inconclusive("%s: size=%d g=-1 forgery not exact", e.perm, n)
			return
		}
		got := e.permOracle(o.P, permAll)
		if !e.selfCheck(e.perm, "generator/size-not-power-of-two", got, []string{ckGenerator}) {
			return
		}
		v := e.permVerify(e.encPerm(o.P))
		e.expectReject("permutation.Verify/forgery", e.perm+"/Verify", "generator/size-2m-with-g=-1", "any", v, got, func() string {
			return fmt.Sprintf("size=%d (=2*%d) g=-1 (order 2, passes g^(size/2)!=1 and g^size=1); t1 on the order-%d subgroup=%s t2=%s (not a permutation); Z follows the recursion on {1,-1} and is 0 on the rest of the subgroup; quotient exact", n, m, n, shorts(t1v), shorts(t2v))
		})
		return
	}
	c.Note("%s: no subgroup of order 2m (m odd <= 13) in the scalar field, size-2m forgery not built", e.perm)
}

func lowOrderSteps(n int) []int {
	var ks []int
	seen := map[int]bool{}
	for _, k := range []int{0, 2, n / 2, 4} {
		if k >= n && k != 0 {
			continue
		}
		if n == 1 {
			continue
		}
		ord := len(orbitOf(n, k))
		if ord == n || seen[ord] {
			continue
		}
		seen[ord] = true
		ks = append(ks, k)
	}
	return ks
}

func orbitOf(n, k int) []int {
	o := []int{0}
	for i := k % n; i != 0; i = (i + k) % n {
		o = append(o, i)
	}
	return o
}

func ordClass(ord, n int) string {
	switch {
	case ord == 1:
		return "1"
	case ord == 2:
		return "2"
	case ord*2 == n:
		return "n/2"
	}
	return "divisor"
}

func genClass(k, n int) string {
	switch {
	case k%n == 0:
		return "g=1"
	case k == n/2:
		return "g=-1"
	case k == n-1:
		return "g^-1"
	case k%2 == 1:
		return "other-primitive-root"
	}
	return "lower-order"
}

func sizeClass(sz int64, n int) string {
	switch {
	case sz == 0:
		return "0"
	case sz < 0:
		return "negative"
	case sz == int64(2*n):
		return "2n"
	case sz == int64(n/2):
		return "n/2"
	case sz == int64(n+1):
		return "n+1"
	case sz == int64(n-1):
		return "n-1"
	}
	return "other"
}
