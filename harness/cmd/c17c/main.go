// C17C (part of C17): permutation argument (ecc/<curve>/fr/permutation: Prove / Verify) and lookup arguments
// (ecc/<curve>/fr/plookup: ProveLookupVector / VerifyLookupVector, ProveLookupTables / VerifyLookupTables) on the 7
// curves that carry them. Honest proofs must be accepted; one targeted forgery per verifier check (checks listed from
// the scheme's specification, see spec.go) and every single-component substitution must be rejected.
package main

import (
	"flag"
	"fmt"
	"sync"

	"verif/harness/adapt/permlook"
	"verif/harness/gen"
	"verif/harness/mon"
	"verif/harness/oracle/opoly"
)

var flagWorkers = flag.Int("workers", 3, "concurrent tasks per curve")

type tasks struct {
	wg  sync.WaitGroup
	sem chan struct{}
	c   *mon.Ctx
}

func (t *tasks) do(name string, fn func()) {
	t.wg.Add(1)
	go func() {
		defer t.wg.Done()
		t.sem <- struct{}{}
		defer func() { <-t.sem }()
		if p, v := mon.Try(fn); p {
			t.c.Fail("harness/panic/"+name, "task %s panicked: %v", name, v)
		}
	}()
}

func main() {
	c := mon.Init("C17")
	var wg sync.WaitGroup
	for _, it := range permlook.All {
		if !mon.Selected(it.Name) {
			continue
		}
		it := it
		wg.Add(1)
		go func() {
			defer wg.Done()
			if p, v := mon.Try(func() { runCurve(c, it.New()) }); p {
				c.Fail("harness/panic/"+it.Name, "curve task panicked: %v", v)
			}
		}()
	}
	wg.Wait()
	c.Finish()
}

func runCurve(c *mon.Ctx, in *permlook.Inst) {
	maxN := c.Pick(64, 256)
	seedRng := gen.New(c.Seed, "c17c/srs/"+in.Name)
	e := &env{c: c, in: in, F: opoly.F{P: in.R}, gen: in.G1Gen(),
		perm: in.PermPkg, vec: in.LookPkg, tab: in.LookPkg}
	e.alpha = e.rndNZ(seedRng)
	var err error
	e.pk, e.vk, err = in.NewSRS(uint64(4*maxN+16), e.alpha)
	if err != nil {
		c.Inconclusive("%s: kzg.NewSRS failed: %v", in.Name, err)
		return
	}
	t := &tasks{sem: make(chan struct{}, *flagWorkers), c: c}
	rng := func(parts ...any) *gen.Rng { return gen.New(c.Seed, "c17c/"+in.Name+"/"+fmt.Sprint(parts...)) }

	// ---------------- permutation
	permSizes := []int{1, 2, 4, 8, 16, 64}
	permForgeSizes := []int{2, 4, 16}
	permSubstSizes := []int{8}
	reps := 1
	if c.Thorough() {
		permSizes = []int{1, 2, 4, 8, 16, 32, 64, 128, 256}
		permForgeSizes = []int{2, 4, 8, 16, 32, 64}
		permSubstSizes = []int{2, 4, 16, 64}
		reps = 4
	}
	for _, n := range permSizes {
		n := n
		t.do(fmt.Sprint("perm-honest-", n), func() {
			r := rng("perm-honest", n)
			for rep := 0; rep < reps; rep++ {
				for ci, cl := range permClasses {
					if !c.Thorough() && n > 16 && ci > 1 {
						break
					}
					e.permHonest(e.permStatement(r, n, cl))
				}
			}
		})
	}
	for _, n := range permForgeSizes {
		n := n
		for rep := 0; rep < reps; rep++ {
			rep := rep
			t.do(fmt.Sprint("perm-forge-", n), func() {
				r := rng("perm-forge", n, rep)
				s := e.permStatement(r, n, []string{"random", "small", "duplicates", "edge-values"}[rep%4])
				if pr, ok := e.permHonest(s); ok {
					e.permTargeted(r, s, pr)
				}
			})
		}
	}
	t.do("perm-nonpow2", func() { e.permNonPow2(rng("perm-nonpow2")) })
	for _, n := range permSubstSizes {
		n := n
		t.do(fmt.Sprint("perm-subst-", n), func() {
			r := rng("perm-subst", n)
			s := e.permStatement(r, n, "random")
			base, ok := e.permHonest(s)
			if !ok {
				return
			}
			others := map[string]any{}
			if o, ok := e.permHonest(e.permStatement(r, n, "random")); ok {
				others["other-honest-proof"] = o
			}
			if o, ok := e.permHonest(e.permStatement(r, 2*n, "random")); ok {
				others["other-honest-proof-of-another-size"] = o
			}
			e.untargeted(scheme{name: "permutation", prefix: e.perm + "/Verify", op: "permutation.Verify/substitution",
				verify: e.permVerify, oracle: func(p any) []string { return e.permOracle(e.decPerm(p), permAll) },
				context: fmt.Sprintf("n=%d t1=%s t2=%s", n, shorts(s.t1), shorts(s.t2))}, r, base, others)
		})
	}

	// ---------------- plookup, vector
	type ft struct{ lf, lt int }
	vecShapes := []ft{{1, 1}, {1, 2}, {2, 1}, {3, 4}, {3, 3}, {4, 3}, {5, 8}, {7, 8}, {8, 8}, {6, 5}, {2, 7}, {9, 17}, {31, 32}, {40, 63}}
	vecForge := []ft{{1, 2}, {3, 4}, {6, 8}}
	vecSubst := []ft{{5, 7}}
	if c.Thorough() {
		vecShapes = nil
		for _, lt := range []int{1, 2, 3, 4, 5, 7, 8, 9, 15, 16, 17, 31, 32, 33, 63, 64, 100, 128} {
			for _, lf := range []int{1, 2, 3, lt - 1, lt, lt + 1, 2*lt + 1} {
				if lf >= 1 && vecDomain(lf, lt) <= maxN {
					vecShapes = append(vecShapes, ft{lf, lt})
				}
			}
		}
		vecForge = []ft{{1, 1}, {1, 2}, {3, 4}, {2, 3}, {7, 8}, {12, 16}, {20, 32}, {63, 64}, {70, 5}}
		vecSubst = []ft{{1, 2}, {3, 4}, {5, 7}, {30, 20}}
	}
	seen := map[ft]bool{}
	for _, sh := range vecShapes {
		if seen[sh] {
			continue
		}
		seen[sh] = true
		sh := sh
		t.do(fmt.Sprint("vec-honest-", sh), func() {
			r := rng("vec-honest", sh.lf, sh.lt)
			for rep := 0; rep < (reps+1)/2; rep++ {
				for ci, cl := range vecClasses {
					if !c.Thorough() && vecDomain(sh.lf, sh.lt) > 8 && ci > 1 {
						break
					}
					e.vecHonest(e.vecStatement(r, sh.lf, sh.lt, cl))
				}
			}
		})
	}
	for _, sh := range vecForge {
		sh := sh
		for rep := 0; rep < reps; rep++ {
			rep := rep
			t.do(fmt.Sprint("vec-forge-", sh), func() {
				r := rng("vec-forge", sh.lf, sh.lt, rep)
				s := e.vecStatement(r, sh.lf, sh.lt, []string{"random", "small", "table-duplicates", "edge-values"}[rep%4])
				if pr, ok := e.vecHonest(s); ok {
					e.vecTargeted(r, s, pr)
				}
			})
		}
	}
	t.do("vec-nonpow2", func() { e.vecNonPow2(rng("vec-nonpow2")) })
	for _, sh := range vecSubst {
		sh := sh
		t.do(fmt.Sprint("vec-subst-", sh), func() {
			r := rng("vec-subst", sh.lf, sh.lt)
			s := e.vecStatement(r, sh.lf, sh.lt, "random")
			base, ok := e.vecHonest(s)
			if !ok {
				return
			}
			others := map[string]any{}
			if o, ok := e.vecHonest(e.vecStatement(r, sh.lf, sh.lt, "random")); ok {
				others["other-honest-proof"] = o
			}
			if o, ok := e.vecHonest(e.vecStatement(r, 2*sh.lf+3, 2*sh.lt+3, "random")); ok {
				others["other-honest-proof-of-another-size"] = o
			}
			e.untargeted(scheme{name: "vector", prefix: e.vec + "/VerifyLookupVector", op: "plookup.VerifyLookupVector/substitution",
				verify: e.vecVerify, oracle: func(p any) []string { return e.vecOracle(e.decVec(p), vecAll) },
				context: fmt.Sprintf("|f|=%d |t|=%d f=%s t=%s", sh.lf, sh.lt, shorts(s.f), shorts(s.t))}, r, base, others)
		})
	}

	// ---------------- plookup, tables
	type kft struct{ k, lf, lt int }
	tabShapes := []kft{{1, 1, 1}, {1, 3, 4}, {2, 1, 2}, {2, 3, 4}, {3, 7, 8}, {2, 5, 3}, {3, 4, 4}, {2, 10, 16}, {4, 30, 33}}
	tabForge := []kft{{1, 3, 4}, {2, 3, 4}, {3, 6, 8}}
	tabSubst := []kft{{2, 3, 4}}
	if c.Thorough() {
		tabShapes = nil
		for _, k := range []int{1, 2, 3, 5} {
			for _, lt := range []int{1, 2, 3, 4, 7, 8, 9, 16, 31, 64} {
				for _, lf := range []int{1, lt - 1, lt, lt + 2} {
					if lf >= 1 && vecDomain(lf, lt) <= maxN/2 {
						tabShapes = append(tabShapes, kft{k, lf, lt})
					}
				}
			}
		}
		tabForge = []kft{{1, 1, 2}, {1, 3, 4}, {2, 1, 1}, {2, 3, 4}, {3, 6, 8}, {2, 20, 9}, {4, 30, 32}, {2, 60, 64}}
		tabSubst = []kft{{1, 3, 4}, {2, 1, 2}, {3, 5, 8}}
	}
	seenT := map[kft]bool{}
	for _, sh := range tabShapes {
		if seenT[sh] {
			continue
		}
		seenT[sh] = true
		sh := sh
		t.do(fmt.Sprint("tab-honest-", sh), func() {
			r := rng("tab-honest", sh.k, sh.lf, sh.lt)
			for rep := 0; rep < (reps+1)/2; rep++ {
				for ci, cl := range tabClasses {
					if !c.Thorough() && vecDomain(sh.lf, sh.lt) > 8 && ci > 0 {
						break
					}
					e.tabHonest(e.tabStatement(r, sh.k, sh.lf, sh.lt, cl))
				}
			}
		})
	}
	for _, sh := range tabForge {
		sh := sh
		for rep := 0; rep < reps; rep++ {
			rep := rep
			t.do(fmt.Sprint("tab-forge-", sh), func() {
				r := rng("tab-forge", sh.k, sh.lf, sh.lt, rep)
				s := e.tabStatement(r, sh.k, sh.lf, sh.lt, []string{"small", "random", "duplicate-columns", "random"}[rep%4])
				if pr, ok := e.tabHonest(s); ok {
					e.tabTargeted(r, s, pr)
				}
			})
		}
	}
	for _, sh := range tabSubst {
		sh := sh
		t.do(fmt.Sprint("tab-subst-", sh), func() {
			r := rng("tab-subst", sh.k, sh.lf, sh.lt)
			s := e.tabStatement(r, sh.k, sh.lf, sh.lt, "random")
			base, ok := e.tabHonest(s)
			if !ok {
				return
			}
			others := map[string]any{}
			if o, ok := e.tabHonest(e.tabStatement(r, sh.k, sh.lf, sh.lt, "random")); ok {
				others["other-honest-proof"] = o
			}
			if o, ok := e.tabHonest(e.tabStatement(r, sh.k, 2*sh.lf+3, 2*sh.lt+3, "random")); ok {
				others["other-honest-proof-of-another-size"] = o
			}
			e.untargeted(scheme{name: "tables", prefix: e.tab + "/VerifyLookupTables", op: "plookup.VerifyLookupTables/substitution",
				verify: e.tabVerify, oracle: func(p any) []string { return e.tabOracle(e.decTab(p)) },
				context: fmt.Sprintf("rows=%d |f|=%d |t|=%d f=%s t=%s", sh.k, sh.lf, sh.lt, rowsStr(s.f), rowsStr(s.t))}, r, base, others)
		})
	}
	t.wg.Wait()
}
