// C02: point arithmetic vs the textbook affine group law, in every coordinate system,
// for all 17 short-Weierstrass groups and the 8 twisted-Edwards curves.
package main

import (
	"fmt"
	"math/big"
	"sync"

	"verif/harness/adapt/groups"
	"verif/harness/gen"
	"verif/harness/mon"
	"verif/harness/oracle/ocurve"
	"verif/harness/oracle/ofield"
)

type pp struct {
	p     ocurve.Pt
	cls   string
	onC   bool // on curve
	inSub bool
}

// buildPool returns oracle-constructed points with class labels.
func buildPool(c *mon.Ctx, g *groups.Group, rng *gen.Rng, nRand int) []pp {
	C := g.C
	f := g.F
	var pool []pp
	add := func(p ocurve.Pt, cls string) {
		on := C.IsOnCurve(p)
		in := on && C.Mul(p, g.R).Inf
		pool = append(pool, pp{p, cls, on, in})
	}
	G := g.G
	add(ocurve.Pt{Inf: true}, "O")
	add(G, "G")
	add(C.Double(G), "2G")
	add(C.Add(C.Double(G), G), "3G")
	add(C.Neg(G), "-G")
	add(C.Neg(C.Double(G)), "-2G")
	for i := 0; i < nRand; i++ {
		add(C.Mul(G, rng.BigBelow(g.R)), "kG")
	}
	// random curve points (outside the r-torsion when the cofactor is > 1), cofactor-torsion points
	found := 0
	for tries := 0; tries < 200 && found < 2; tries++ {
		x := f.Zero()
		for i := range x {
			x[i] = rng.BigBelow(g.P)
		}
		q, ok := C.LiftX(x)
		if !ok {
			continue
		}
		found++
		rq := C.Mul(q, g.R)
		if rq.Inf {
			add(q, "random-curve-point(in-subgroup: cofactor 1)")
			continue
		}
		add(q, "curve-point-outside-subgroup")
		add(rq, "cofactor-torsion-point")
		add(C.Add(rq, G), "cofactor-torsion+G")
		add(C.Neg(q), "-(curve-point-outside-subgroup)")
	}
	// 3-torsion: on y^2 = x^3 + b the points (0, +-sqrt(b)) have order 3 when b is a square
	if f.IsZero(C.A) {
		if y, ok := f.Sqrt(C.B); ok && !f.IsZero(y) {
			p := ocurve.Pt{X: f.Zero(), Y: y}
			if C.IsOnCurve(p) && C.Add(C.Double(p), p).Inf {
				add(p, "order-3(0,sqrt(b))")
				add(C.Add(p, G), "order-3+G")
			}
		}
	}
	// 2-torsion (y = 0) when a rational root of x^3+ax+b is easy to find: a = 0 => x = cbrt(-b)
	if f.IsZero(C.A) {
		// x = (-b)^((2q-1)/3) is a cube root when q = 2 mod 3; otherwise try exponent-based search is skipped
		q := f.Order()
		if new(big.Int).Mod(q, big.NewInt(3)).Int64() == 2 {
			e := new(big.Int).Mul(q, big.NewInt(2))
			e.Sub(e, big.NewInt(1)).Div(e, big.NewInt(3))
			x := f.Exp(f.Neg(C.B), e)
			p := ocurve.Pt{X: x, Y: f.Zero()}
			if C.IsOnCurve(p) {
				add(p, "2-torsion(y=0)")
				add(C.Add(p, G), "2-torsion+G")
			}
		}
	}
	return pool
}

func offCurve(g *groups.Group, rng *gen.Rng) []pp {
	f := g.F
	G := g.G
	var out []pp
	mk := func(x, y ofield.El, cls string) {
		p := ocurve.Pt{X: x, Y: y}
		if !g.C.IsOnCurve(p) {
			out = append(out, pp{p, cls, false, false})
		}
	}
	mk(f.Copy(G.X), f.Add(G.Y, f.One()), "off-curve(Gx,Gy+1)")
	mk(f.Add(G.X, f.One()), f.Copy(G.Y), "off-curve(Gx+1,Gy)")
	mk(f.One(), f.Zero(), "off-curve(1,0)")
	mk(f.Zero(), f.One(), "off-curve(0,1)")
	x := f.Zero()
	y := f.Zero()
	for i := range x {
		x[i], y[i] = rng.BigBelow(g.P), rng.BigBelow(g.P)
	}
	mk(x, y, "off-curve(random)")
	return out
}

func runGroup(c *mon.Ctx, g *groups.Group) {
	N := g.Name
	if err := g.Bind(); err != nil {
		c.Fail(N+"/constants/validation", "%v", err)
		return
	}
	c.Eval("constants", 3)
	rng := gen.New(c.Seed, "c02/"+N)
	f := g.F
	C := g.C
	pool := buildPool(c, g, rng, c.Pick(3, 30))
	off := offCurve(g, rng)
	randZ := func() ofield.El {
		for {
			z := f.Zero()
			for i := range z {
				z[i] = rng.BigBelow(g.P)
			}
			if !f.IsZero(z) {
				return z
			}
		}
	}
	zs := []ofield.El{f.One(), randZ(), f.Neg(f.One())}
	if c.Thorough() {
		zs = append(zs, randZ(), f.FromInt64(2))
	}
	c.Extra(N+".pool", len(pool))
	for _, op := range g.Ops {
		switch op.Sem {
		case "smul", "smulbase", "jsmul", "jsmulbase", "clearcofactor":
			continue // C03 / C13
		}
		nIn := len(op.In)
		key := N + "/" + op.Name
		// enumerate operand tuples
		var rec func(k int, pts []pp, reps []groups.Rep, zlabel string)
		rec = func(k int, pts []pp, reps []groups.Rep, zlabel string) {
			if k == nIn {
				evalOp(c, g, op, key, pts, reps, zlabel)
				return
			}
			cands := pool
			if op.Out == "bool" && op.Sem != "equal" {
				cands = append(append([]pp{}, pool...), off...)
			}
			for pi, p := range cands {
				zchoices := zs
				if op.In[k] == "aff" {
					zchoices = zs[:1]
				} else if nIn == 2 && !c.Thorough() {
					// pairs: vary Z on a rotating subset to bound the cost
					zchoices = []ofield.El{zs[(pi+k)%len(zs)], zs[(pi+k+1)%len(zs)]}
				}
				for zi, z := range zchoices {
					r := g.Rep(p.p, op.In[k], z)
					rec(k+1, append(pts[:k:k], p), append(reps[:k:k], r), fmt.Sprintf("%s/z%d", zlabel, zi))
				}
				// the identity as the zero value of the type (all coordinates 0): what `var p G1Jac` and several library
				// routines (MultiExp of a vanishing sum) produce; Z = 0 makes it the identity like any other representative.
				// Not used for the curve / subgroup predicates, which are only demanded on well-formed representatives.
				if p.p.Inf && (op.In[k] == "jac" || op.In[k] == "ext") && op.Sem != "oncurve" && op.Sem != "insubgroup" {
					r := g.Rep(p.p, op.In[k], f.One())
					for ci := range r.C {
						r.C[ci] = f.Zero()
					}
					pz := p
					pz.cls = "O(zero-value)"
					rec(k+1, append(pts[:k:k], pz), append(reps[:k:k], r), zlabel+"/zero-value")
				}
			}
		}
		rec(0, nil, nil, "")
		_ = C
	}
	// batch Jacobian -> affine
	if g.BatchJacToAff != nil {
		for _, n := range []int{0, 1, 2, 7} {
			for inf := -1; inf < n; inf++ {
				in := make([]groups.Rep, n)
				want := make([]ocurve.Pt, n)
				for i := range in {
					p := pool[(i*3+n)%len(pool)]
					if i == inf {
						p = pool[0]
					}
					want[i] = p.p
					in[i] = g.Rep(p.p, "jac", zs[(i+1)%len(zs)])
				}
				var out []groups.Rep
				if c.Guard(N+"/BatchJacobianToAffine/panic", func() string { return fmt.Sprintf("n=%d inf@%d", n, inf) }, func() { out = g.BatchJacToAff(in) }) {
					continue
				}
				ok := len(out) == n
				for i := 0; ok && i < n; i++ {
					ok = C.Eq(g.Pt(out[i]), want[i])
				}
				c.Check("BatchJacobianToAffine", N+"/BatchJacobianToAffine/mismatch", ok, func() string { return fmt.Sprintf("n=%d infinity at %d", n, inf) })
				c.Class(fmt.Sprintf("%s/BatchJacobianToAffine/n%d/inf%d", N, n, inf))
			}
		}
	}
}

func evalOp(c *mon.Ctx, g *groups.Group, op groups.Op, key string, pts []pp, reps []groups.Rep, zlabel string) {
	C := g.C
	desc := func() string {
		s := op.Name + "("
		for i, r := range reps {
			if i > 0 {
				s += "; "
			}
			s += pts[i].cls + "=" + g.Str(r)
		}
		return s + ")"
	}
	cls := ""
	for _, p := range pts {
		cls += p.cls + ","
	}
	if len(pts) == 2 && C.Eq(pts[0].p, pts[1].p) && !pts[0].p.Inf {
		cls += "P=Q"
	}
	if len(pts) == 2 && C.Eq(pts[0].p, C.Neg(pts[1].p)) && !pts[0].p.Inf {
		cls += "P=-Q"
	}
	allOn := true
	for _, p := range pts {
		allOn = allOn && p.onC
	}
	if op.Out != "bool" && !allOn {
		return
	}
	if op.Sem == "id-noninf" && pts[0].p.Inf {
		return
	}
	c.Current(key + " " + cls)
	var out groups.Rep
	// snapshot inputs for the purity monitor
	before := make([]string, len(reps))
	for i, r := range reps {
		before[i] = g.Str(r)
	}
	if c.Guard(key+"/panic", desc, func() { out = op.F(reps, nil) }) {
		return
	}
	if out.Sys == "note" {
		c.Fail(key+"/returned-pointer-is-not-the-receiver/"+cls, "%s: %s", desc(), out.Note)
		return
	}
	for i, r := range reps {
		if g.Str(r) != before[i] {
			c.Fail(key+"/harness-input-changed", "%s", desc())
		}
	}
	c.Class(key + "/" + cls)
	if op.Out == "bool" {
		var want bool
		switch op.Sem {
		case "isinf":
			want = pts[0].p.Inf
		case "oncurve":
			want = pts[0].onC
		case "insubgroup":
			want = pts[0].inSub
		case "equal":
			want = C.Eq(pts[0].p, pts[1].p)
		}
		c.Check(op.Name, key+"/predicate-mismatch/"+fmt.Sprint(want)+"/"+cls, out.B == want, func() string {
			return fmt.Sprintf("%s = %v, oracle says %v", desc(), out.B, want)
		})
		return
	}
	var want ocurve.Pt
	switch op.Sem {
	case "add":
		want = C.Add(pts[0].p, pts[1].p)
	case "sub":
		want = C.Sub(pts[0].p, pts[1].p)
	case "dbl":
		want = C.Double(pts[0].p)
	case "dblneg":
		want = C.Neg(C.Double(pts[0].p))
	case "neg":
		want = C.Neg(pts[0].p)
	case "id", "id-noninf":
		want = pts[0].p
	default:
		return
	}
	got := g.Pt(out)
	// structural sanity of the representation: ext must satisfy ZZ^3 = ZZZ^2 when finite
	okRep := true
	if out.Sys == "ext" && !g.F.IsZero(out.C[2]) {
		okRep = g.F.Eq(g.F.Mul(g.F.Sqr(out.C[2]), out.C[2]), g.F.Sqr(out.C[3]))
	}
	special := "generic"
	switch {
	case want.Inf:
		special = "result-O"
	case len(pts) == 2 && (pts[0].p.Inf || pts[1].p.Inf):
		special = "operand-O"
	case len(pts) == 2 && C.Eq(pts[0].p, pts[1].p):
		special = "P=Q"
	}
	c.Check(op.Name, key+"/group-law-mismatch/"+special+"/"+cls, okRep && C.Eq(got, want), func() string {
		return fmt.Sprintf("%s = %s -> %s, oracle says %s (ZZ^3==ZZZ^2: %v)", desc(), g.Str(out), C.String(got), C.String(want), okRep)
	})
	// the result is itself a value the library must accept: its own predicates, applied to the representation that
	// was returned (not to a normalised copy), say "on the curve" and, when every operand is in the subgroup, "in
	// the subgroup" - an identity returned as (X, Y, 0) with Y^2 != X^3 is refused by the library's own IsOnCurve
	allSub := true
	for _, p := range pts {
		allSub = allSub && p.inSub
	}
	for _, pr := range g.Ops {
		if pr.Out != "bool" || len(pr.In) != 1 || pr.In[0] != out.Sys || (pr.Sem != "oncurve" && pr.Sem != "insubgroup") {
			continue
		}
		if pr.Sem == "insubgroup" && !allSub {
			continue
		}
		var b groups.Rep
		if c.Guard(key+"/result-refused-by/"+pr.Name+"/panic", desc, func() { b = pr.F([]groups.Rep{out}, nil) }) {
			continue
		}
		c.Check(op.Name, key+"/result-refused-by/"+pr.Name+"/"+special, b.B, func() string {
			return fmt.Sprintf("%s = %s (= %s): %s of this result is false", desc(), g.Str(out), C.String(got), pr.Name)
		})
	}
	if len(pts) == 2 && c.Seed >= 0 {
		c.SampleOnce(g.Name+"/"+op.Name, map[string]any{"group": g.Name, "op": op.Name, "operands": cls, "result": C.String(got)})
	}
}

func main() {
	c := mon.Init("C02")
	var wg sync.WaitGroup
	sem := make(chan struct{}, 16)
	run := func(name string, fn func()) {
		if !mon.Selected(name) {
			return
		}
		wg.Add(1)
		go func() {
			defer wg.Done()
			sem <- struct{}{}
			defer func() { <-sem }()
			defer func() {
				if r := recover(); r != nil {
					c.Fail(name+"/harness/panic", "panic outside a guarded call: %v", r)
				}
			}()
			fn()
		}()
	}
	for _, gi := range groups.All {
		gi := gi
		run(gi.Name, func() { runGroup(c, gi.New()) })
	}
	runTE(c, run)
	wg.Wait()
	c.Finish()
}
