package main

import (
	"fmt"

	"verif/harness/adapt/te"
	"verif/harness/gen"
	"verif/harness/mon"
	"verif/harness/oracle/ofield"
	"verif/harness/oracle/oted"
)

type tp struct {
	p   oted.Pt
	cls string
	on  bool
}

func runTE(c *mon.Ctx, run func(name string, fn func())) {
	for _, ci := range te.All {
		ci := ci
		run(ci.Name, func() { runTECurve(c, ci.New()) })
	}
}

func runTECurve(c *mon.Ctx, g *te.Curve) {
	N := g.Name
	if err := g.Bind(); err != nil {
		c.Fail(N+"/constants/validation", "%v", err)
		return
	}
	c.Eval("constants", 3)
	rng := gen.New(c.Seed, "c02te/"+N)
	f := g.F
	C := g.C
	var pool []tp
	add := func(p oted.Pt, cls string) { pool = append(pool, tp{p, cls, C.IsOnCurve(p)}) }
	B := g.B
	add(C.Zero(), "O")
	add(B, "B")
	add(C.Double(B), "2B")
	add(C.Neg(B), "-B")
	add(C.Mul(B, rng.BigBelow(g.Order)), "kB")
	add(C.Mul(B, rng.BigBelow(g.Order)), "kB")
	add(oted.Pt{X: f.Zero(), Y: f.Neg(f.One())}, "order-2(0,-1)")
	found := 0
	for tries := 0; tries < 100 && found < 2; tries++ {
		y := ofield.El{rng.BigBelow(g.Q)}
		q, ok := C.LiftY(y)
		if !ok {
			continue
		}
		tq, okm := C.TryMul(q, g.Order)
		if !okm {
			continue
		}
		found++
		add(q, "curve-point-outside-subgroup")
		add(tq, "cofactor-torsion-point")
		if w, ok := C.Add(tq, B); ok {
			add(w, "cofactor-torsion+B")
		}
	}
	off := []tp{{oted.Pt{X: f.Copy(B.X), Y: f.Add(B.Y, f.One())}, "off-curve(Bx,By+1)", false}, {oted.Pt{X: f.One(), Y: f.One()}, "off-curve(1,1)", false}}
	randZ := func() ofield.El {
		for {
			z := ofield.El{rng.BigBelow(g.Q)}
			if !f.IsZero(z) {
				return z
			}
		}
	}
	zs := []ofield.El{f.One(), randZ(), f.Neg(f.One()), randZ()}
	for _, op := range g.Ops {
		if op.Sem == "smul" {
			continue
		}
		key := N + "/" + op.Name
		nIn := len(op.In)
		var rec func(k int, pts []tp, reps []te.Rep)
		rec = func(k int, pts []tp, reps []te.Rep) {
			if k == nIn {
				evalTE(c, g, op, key, pts, reps)
				return
			}
			cands := pool
			if op.Sem == "oncurve" {
				cands = append(append([]tp{}, pool...), off...)
			}
			for _, p := range cands {
				zc := zs
				if op.In[k] == "aff" || op.In[k] == "ext1" {
					zc = zs[:1]
				}
				for _, z := range zc {
					rec(k+1, append(pts[:k:k], p), append(reps[:k:k], g.Rep(p.p, op.In[k], z)))
				}
			}
		}
		rec(0, nil, nil)
	}
}

func evalTE(c *mon.Ctx, g *te.Curve, op te.Op, key string, pts []tp, reps []te.Rep) {
	C := g.C
	desc := func() string {
		s := op.Name + "("
		for i, r := range reps {
			if i > 0 {
				s += "; "
			}
			s += pts[i].cls + "=" + g.Str(r)
		}
		return s + ")"
	}
	cls := ""
	for _, p := range pts {
		cls += p.cls + ","
	}
	if len(pts) == 2 && C.Eq(pts[0].p, pts[1].p) {
		cls += "P=Q"
	}
	for _, p := range pts {
		if !p.on && op.Sem != "oncurve" {
			return
		}
	}
	c.Current(key + " " + cls)
	var out te.Rep
	if c.Guard(key+"/panic", desc, func() { out = op.F(reps, nil) }) {
		return
	}
	c.Class(key + "/" + cls)
	if op.Out == "bool" {
		var want bool
		switch op.Sem {
		case "oncurve":
			want = pts[0].on
		case "iszero":
			want = C.Eq(pts[0].p, C.Zero())
		case "equal":
			want = C.Eq(pts[0].p, pts[1].p)
		}
		c.Check(op.Name, key+"/predicate-mismatch/"+fmt.Sprint(want)+"/"+cls, out.B == want, func() string {
			return fmt.Sprintf("%s = %v, oracle says %v", desc(), out.B, want)
		})
		return
	}
	var want oted.Pt
	switch op.Sem {
	case "add":
		w, okAdd := C.Add(pts[0].p, pts[1].p)
		if !okAdd {
			c.AddExtra(g.Name+".skipped_exceptional_oracle_additions", 1)
			return
		}
		want = w
	case "dbl":
		w, okAdd := C.Add(pts[0].p, pts[0].p)
		if !okAdd {
			c.AddExtra(g.Name+".skipped_exceptional_oracle_additions", 1)
			return
		}
		want = w
	case "neg":
		want = C.Neg(pts[0].p)
	case "id":
		want = pts[0].p
	default:
		return
	}
	got, ok := g.Pt(out)
	if ok && out.Sys == "ext" {
		ok = g.ExtConsistent(out)
	}
	special := "generic"
	if len(pts) == 2 && C.Eq(pts[0].p, pts[1].p) {
		special = "P=Q"
	}
	c.Check(op.Name, key+"/group-law-mismatch/"+special+"/"+cls, ok && C.Eq(got, want), func() string {
		return fmt.Sprintf("%s = %s, oracle says %s (well-formed: %v)", desc(), g.Str(out), C.String(want), ok)
	})
	c.SampleOnce(g.Name+"/"+op.Name, map[string]any{"curve": g.Name, "op": op.Name, "operands": cls})
}
