// C05: pairings: bilinearity, non-degeneracy, exact order, PairingCheck <=> sum a_i b_i = 0 mod r,
// agreement of all computation variants, infinity handling, size-mismatch errors.
package main

import (
	"fmt"
	"math/big"
	"sync"

	"verif/harness/adapt/pairings"
	"verif/harness/adapt/towers"
	"verif/harness/gen"
	"verif/harness/mon"
	"verif/harness/oracle/ofield"
)

var one = big.NewInt(1)

func strs(v []*big.Int) string {
	s := "["
	for i, x := range v {
		if i > 0 {
			s += " "
		}
		if x.BitLen() > 40 {
			s += "0x" + x.Text(16)[:8] + "…"
		} else {
			s += x.String()
		}
	}
	return s + "]"
}

func runPairing(c *mon.Ctx, p *pairings.Pairing) {
	N := p.Name
	rng := gen.New(c.Seed, "c05/"+N)
	tw := towers.For(N, p.P)
	F := tw.GT
	r := p.R
	// base value g = e(G1,G2) through the reference variant; its algebraic properties are checked by the oracle
	g, err := p.GT("Pair", []*big.Int{one}, []*big.Int{one})
	if err != nil || len(g) != F.Deg() {
		c.Fail(N+"/Pair/generators", "Pair(G1,G2) failed: %v (deg %d vs %d)", err, len(g), F.Deg())
		return
	}
	c.Check("order", N+"/generator-pairing/degenerate", !F.IsOne(g), func() string { return "e(G1,G2) = 1" })
	c.Check("order", N+"/generator-pairing/order-not-r", F.IsOne(F.Exp(g, r)), func() string { return "e(G1,G2)^r != 1" })
	c.Class(N + "/generator-order")
	// expected value for exponent sum
	cache := map[string]ofield.El{}
	expect := func(as, bs []*big.Int) ofield.El {
		e := new(big.Int)
		for i := range as {
			e.Add(e, new(big.Int).Mul(as[i], bs[i]))
		}
		e.Mod(e, r)
		if v, ok := cache[e.String()]; ok {
			return v
		}
		v := F.Exp(g, e)
		cache[e.String()] = v
		return v
	}
	rnd := func() *big.Int { return rng.BigBelow(r) }
	type tc struct {
		as, bs []*big.Int
		cls    string
	}
	var cases []tc
	specials := []*big.Int{big.NewInt(0), big.NewInt(1), new(big.Int).Sub(r, one), big.NewInt(2)}
	// k = 1: all special x special, random
	for _, a := range append(specials, rnd()) {
		for _, b := range append(specials, rnd()) {
			cases = append(cases, tc{[]*big.Int{a}, []*big.Int{b}, "k1"})
		}
	}
	maxK := c.Pick(5, 9)
	for k := 2; k <= maxK; k++ {
		// random
		mkv := func() []*big.Int {
			v := make([]*big.Int, k)
			for i := range v {
				v[i] = rnd()
			}
			return v
		}
		cases = append(cases, tc{mkv(), mkv(), fmt.Sprintf("k%d/random", k)})
		// zero (infinity) at each position on G1 side, G2 side, both
		for pos := 0; pos < k; pos++ {
			for side := 0; side < 3; side++ {
				if !c.Thorough() && k > 3 && (pos+side+k)%2 == 0 {
					continue
				}
				as, bs := mkv(), mkv()
				if side == 0 || side == 2 {
					as[pos] = new(big.Int)
				}
				if side == 1 || side == 2 {
					bs[pos] = new(big.Int)
				}
				cases = append(cases, tc{as, bs, fmt.Sprintf("k%d/infinity-side%d-pos%d", k, side, pos)})
			}
		}
		// all pairs at infinity
		zs := make([]*big.Int, k)
		for i := range zs {
			zs[i] = new(big.Int)
		}
		cases = append(cases, tc{zs, mkv(), fmt.Sprintf("k%d/all-infinity", k)})
		// vectors with sum a_i b_i = 0: last b fixed so that the sum vanishes; permutations
		as, bs := mkv(), mkv()
		s := new(big.Int)
		for i := 0; i < k-1; i++ {
			s.Add(s, new(big.Int).Mul(as[i], bs[i]))
		}
		as[k-1] = big.NewInt(1)
		bs[k-1] = new(big.Int).Mod(new(big.Int).Neg(s), r)
		cases = append(cases, tc{as, bs, fmt.Sprintf("k%d/sum-zero", k)})
		perm := rng.Perm(k)
		pa, pb := make([]*big.Int, k), make([]*big.Int, k)
		for i, j := range perm {
			pa[i], pb[i] = as[j], bs[j]
		}
		cases = append(cases, tc{pa, pb, fmt.Sprintf("k%d/sum-zero-permuted", k)})
		// sum zero with an infinity pair inserted at the front / middle
		if k >= 3 {
			ia, ib := append([]*big.Int{new(big.Int)}, as[1:]...), append([]*big.Int{rnd()}, bs[1:]...)
			// recompute last to keep sum zero without pair 0
			s2 := new(big.Int)
			for i := 1; i < k-1; i++ {
				s2.Add(s2, new(big.Int).Mul(ia[i], ib[i]))
			}
			ib[k-1] = new(big.Int).Mod(new(big.Int).Neg(s2), r)
			cases = append(cases, tc{ia, ib, fmt.Sprintf("k%d/sum-zero-infinity-first", k)})
			ma, mb := append([]*big.Int{}, as...), append([]*big.Int{}, bs...)
			ma[1], mb[1] = rnd(), new(big.Int)
			s3 := new(big.Int)
			for i := 0; i < k-1; i++ {
				if i != 1 {
					s3.Add(s3, new(big.Int).Mul(ma[i], mb[i]))
				}
			}
			mb[k-1] = new(big.Int).Mod(new(big.Int).Neg(s3), r)
			cases = append(cases, tc{ma, mb, fmt.Sprintf("k%d/sum-zero-infinity-middle", k)})
		}
		// (a,-a | b,b) pattern and same G1 point everywhere, same G2 point everywhere
		if k == 2 {
			a, b := rnd(), rnd()
			cases = append(cases, tc{[]*big.Int{a, new(big.Int).Sub(r, a)}, []*big.Int{b, b}, "k2/a,-a|b,b"})
		}
		sa, sb := mkv(), mkv()
		for i := range sa {
			sa[i] = sa[0]
		}
		cases = append(cases, tc{sa, sb, fmt.Sprintf("k%d/same-G1-point", k)})
		sa2, sb2 := mkv(), mkv()
		for i := range sb2 {
			sb2[i] = sb2[0]
		}
		cases = append(cases, tc{sa2, sb2, fmt.Sprintf("k%d/same-G2-point", k)})
	}
	// large batches: products of many pairs go through the same loops, but an implementation that works in blocks
	// (of 64 pairs, say) has its own code for the last partial block; small scalars keep the setup cheap
	bigKs := []int{17, 64, 65, 70}
	if c.Thorough() {
		bigKs = append(bigKs, 127, 128, 129, 200)
	}
	for _, k := range bigKs {
		as, bs := make([]*big.Int, k), make([]*big.Int, k)
		s := new(big.Int)
		for i := range as {
			as[i], bs[i] = big.NewInt(int64(rng.Intn(1<<20)+1)), big.NewInt(int64(rng.Intn(1<<20)+1))
			if i < k-1 {
				s.Add(s, new(big.Int).Mul(as[i], bs[i]))
			}
		}
		cases = append(cases, tc{append([]*big.Int(nil), as...), append([]*big.Int(nil), bs...), fmt.Sprintf("k%d/random", k)})
		zs, zb := append([]*big.Int(nil), as...), append([]*big.Int(nil), bs...)
		zs[k-1], zb[k-1] = big.NewInt(1), new(big.Int).Mod(new(big.Int).Neg(s), r)
		cases = append(cases, tc{zs, zb, fmt.Sprintf("k%d/sum-zero", k)})
		// all but the last pairs cancel: only a verifier that looks at the last pair rejects
		fa, fb := append([]*big.Int(nil), zs...), append([]*big.Int(nil), zb...)
		s2 := new(big.Int)
		for i := 0; i < k-2; i++ {
			s2.Add(s2, new(big.Int).Mul(fa[i], fb[i]))
		}
		fa[k-2], fb[k-2] = big.NewInt(1), new(big.Int).Mod(new(big.Int).Neg(s2), r)
		fa[k-1], fb[k-1] = big.NewInt(2), big.NewInt(3)
		cases = append(cases, tc{fa, fb, fmt.Sprintf("k%d/all-but-last-cancel", k)})
	}
	for ci, t := range cases {
		want := expect(t.as, t.bs)
		wantCheck := F.IsOne(want)
		desc := func(v string) func() string {
			return func() string { return fmt.Sprintf("%s(a=%s, b=%s) [%s]", v, strs(t.as), strs(t.bs), t.cls) }
		}
		c.Current(N + " " + t.cls)
		for _, v := range pairings.GTVariants {
			var got ofield.El
			var err error
			if c.Guard(N+"/"+v+"/panic/"+t.cls, desc(v), func() { got, err = p.GT(v, t.as, t.bs) }) {
				continue
			}
			if err == pairings.ErrInputModified {
				c.Fail(N+"/"+v+"/input-modified", "%s", desc(v)())
				continue
			}
			if !c.Check(v, N+"/"+v+"/unexpected-error", err == nil, func() string { return fmt.Sprintf("%s: %v", desc(v)(), err) }) {
				continue
			}
			c.Check(v, N+"/"+v+"/value-mismatch/"+t.cls, F.Eq(got, want), func() string {
				return fmt.Sprintf("%s != e(G1,G2)^(sum a_i b_i); got %s…", desc(v)(), head60(F.String(got)))
			})
			c.Class(N + "/" + v + "/" + t.cls)
		}
		for _, v := range pairings.CheckVariants {
			var ok bool
			var err error
			if c.Guard(N+"/"+v+"/panic/"+t.cls, desc(v), func() { ok, err = p.Check(v, t.as, t.bs) }) {
				continue
			}
			if !c.Check(v, N+"/"+v+"/unexpected-error", err == nil, func() string { return fmt.Sprintf("%s: %v", desc(v)(), err) }) {
				continue
			}
			c.Check(v, fmt.Sprintf("%s/%s/decision-mismatch/%s/want-%v", N, v, t.cls, wantCheck), ok == wantCheck, func() string {
				return fmt.Sprintf("%s = %v, sum a_i b_i = 0 mod r is %v", desc(v)(), ok, wantCheck)
			})
		}
		if ci == len(cases)/2 {
			c.SampleOnce(N, map[string]any{"curve": N, "class": t.cls, "a": strs(t.as), "b": strs(t.bs)})
		}
	}
	// errors: k = 0 and length mismatch
	for _, v := range pairings.GTVariants {
		_, err := p.GT(v, nil, nil)
		c.Check(v, N+"/"+v+"/missing-error/k=0", err != nil, func() string { return v + " with no pair returned no error" })
		_, err = p.GT(v, []*big.Int{one, one}, []*big.Int{one})
		c.Check(v, N+"/"+v+"/missing-error/length-mismatch", err != nil, func() string { return v + " with 2 G1 points and 1 G2 point returned no error" })
		_, err = p.GT(v, []*big.Int{one}, []*big.Int{one, one})
		c.Check(v, N+"/"+v+"/missing-error/length-mismatch", err != nil, func() string { return v + " with 1 G1 point and 2 G2 points returned no error" })
	}
	for _, v := range pairings.CheckVariants {
		_, err := p.Check(v, nil, nil)
		c.Check(v, N+"/"+v+"/missing-error/k=0", err != nil, func() string { return v + " with no pair returned no error" })
		_, err = p.Check(v, []*big.Int{one, one}, []*big.Int{one})
		c.Check(v, N+"/"+v+"/missing-error/length-mismatch", err != nil, func() string { return v + " length mismatch returned no error" })
	}
	c.Class(N + "/errors")
}

func head60(s string) string {
	if len(s) > 60 {
		return s[:60]
	}
	return s
}

func main() {
	c := mon.Init("C05")
	var wg sync.WaitGroup
	for _, pi := range pairings.All {
		if !mon.Selected(pi.Name) {
			continue
		}
		pi := pi
		wg.Add(1)
		go func() {
			defer wg.Done()
			defer func() {
				if r := recover(); r != nil {
					c.Fail(pi.Name+"/harness/panic", "panic outside a guarded call: %v", r)
				}
			}()
			runPairing(c, pi.New())
		}()
	}
	wg.Wait()
	c.Finish()
}
