// c09f: the small-field kernels as the first operation of a fresh process, in a binary that links nothing else of the
// library (see firstop/smallops).
package main

import (
	"flag"

	"verif/harness/firstop"
	_ "verif/harness/firstop/smallops"
	"verif/harness/mon"
)

var (
	mode  = flag.String("mode", "parent", "parent | firstgenop (child)")
	which = flag.Int("which", 0, "child: operation index")
)

func main() {
	if !flag.Parsed() {
		flag.Parse()
	}
	if *mode == "firstgenop" {
		firstop.Child(*which)
	}
	c := mon.Init("C09")
	firstop.Parent(c, nil, "firstgenop")
	c.Finish()
}
