package main

import (
	"crypto/sha256"
	"fmt"
	"math/big"
	"reflect"

	"verif/harness/adapt/kzgs"
)

// secForeign: a reference string whose G1 part is written in another base. The scheme does not depend on which
// generator of G1 the ceremony used: with Pk.G1[i] = [s tau^i]G1 and Vk.G1 = [s]G1 (G2 part unchanged) every honest
// opening verifies and the accept frontier is the same relation c - v = (tau - z) h on the scalars taken relative to
// the base [s]G1. A verifier that takes the curve's own generator instead of Vk.G1 only agrees when s = 1 - which is
// what NewSRS and the setup ceremony produce, so nothing else in this check would see it.
func (e *env) secForeign() {
	c, in, N, f := e.c, e.in, e.N, e.f
	rng := e.rng("foreign-base")
	for _, sv := range []*big.Int{big.NewInt(7), rng.BigBelow(f.r), new(big.Int).Sub(f.r, big.NewInt(1))} {
		if sv.Sign() == 0 {
			continue
		}
		size := 6
		s := e.newSRS(rng, size, "random", false)
		if s == nil {
			return
		}
		// rescale the G1 part in place through the library's own point type
		scale := func(p reflect.Value) { // p: pointer to a G1Affine
			p.MethodByName("ScalarMultiplication").Call([]reflect.Value{p, reflect.ValueOf(sv)})
		}
		ok := true
		func() {
			defer func() {
				if r := recover(); r != nil {
					ok = false
					c.Inconclusive("%s: cannot rescale the reference string: %v", N, r)
				}
			}()
			g1s := reflect.ValueOf(s.pk).Elem().FieldByName("G1")
			for i := 0; i < g1s.Len(); i++ {
				scale(g1s.Index(i).Addr())
			}
			scale(reflect.ValueOf(s.vk).Elem().FieldByName("G1").Addr())
		}()
		if !ok {
			return
		}
		base := func(k *big.Int) kzgs.Pt { return e.o.mulG(f.mul(k, sv)) } // [k] of the base [s]G1
		tag := "s=" + map[bool]string{true: "small", false: "generic"}[sv.BitLen() < 8]
		if new(big.Int).Add(sv, big.NewInt(1)).Cmp(f.r) == 0 {
			tag = "s=-1"
		}
		for n := 1; n <= size; n++ {
			p := e.mkPoly(rng, n, "dense")
			z := rng.BigBelow(f.r)
			desc := func() string { return fmt.Sprintf("base [s]G1 with %s, polynomial of %d coefficients, z=%s", tag, n, hx(z)) }
			poly := in.NewPoly(p)
			var C kzgs.Pt
			var pr kzgs.Proof
			var err, err2 error
			if c.Guard(N+"/foreign-base/panic/"+tag, desc, func() {
				C, err = in.Commit(poly, s.pk)
				pr, err2 = in.Open(poly, z, s.pk)
			}) || err != nil || err2 != nil {
				c.Check("Commit", N+"/foreign-base/Commit-or-Open/error/"+tag, err == nil && err2 == nil, func() string { return desc() + fmt.Sprint(": ", err, err2) })
				continue
			}
			v := f.horner(p, z)
			c.Check("Commit", N+"/foreign-base/Commit/value-mismatch/"+tag, C.Eq(base(s.polyAtTau(p))), desc)
			c.Check("Open", N+"/foreign-base/Open/claimed-value-mismatch/"+tag, pr.V.Cmp(v) == 0, desc)
			var verr error
			if !c.Guard(N+"/foreign-base/Verify/panic/"+tag, desc, func() { verr = in.Verify(C, pr, z, s.vk) }) {
				c.Check("Verify", N+"/foreign-base/Verify/false-reject/honest/"+tag, verr == nil, func() string { return desc() + ": " + fmt.Sprint(verr) })
			}
			// false values: v+1, and the value the same proof would carry in the base G1 (s*v, v/s)
			for wi, wv := range []*big.Int{f.add(v, big.NewInt(1)), f.mul(v, sv), f.mul(v, new(big.Int).ModInverse(sv, f.r))} {
				if wv.Cmp(v) == 0 {
					continue
				}
				bad := kzgs.Proof{H: pr.H, V: wv}
				if !c.Guard(N+"/foreign-base/Verify/panic/"+tag, desc, func() { verr = in.Verify(C, bad, z, s.vk) }) {
					c.Check("Verify", fmt.Sprintf("%s/foreign-base/Verify/false-accept/wrong-value%d/%s", N, wi, tag), verr != nil, func() string {
						return desc() + fmt.Sprintf(": claimed value %s instead of %s accepted", hx(wv), hx(v))
					})
				}
			}
			// the batched verifiers on the same string
			if n >= 2 {
				q := e.mkPoly(rng, n-1, "dense")
				polys := []any{poly, in.NewPoly(q)}
				Cq, errq := in.Commit(polys[1], s.pk)
				if errq != nil {
					continue
				}
				ds := []kzgs.Pt{C, Cq}
				var bp kzgs.BatchProof
				if c.Guard(N+"/foreign-base/BatchOpenSinglePoint/panic/"+tag, desc, func() { bp, err = in.BatchOpenSinglePoint(polys, ds, z, sha256.New(), s.pk) }) || err != nil {
					continue
				}
				if !c.Guard(N+"/foreign-base/BatchVerifySinglePoint/panic/"+tag, desc, func() { verr = in.BatchVerifySinglePoint(ds, bp, z, sha256.New(), s.vk) }) {
					c.Check("BatchVerifySinglePoint", N+"/foreign-base/BatchVerifySinglePoint/false-reject/honest/"+tag, verr == nil, func() string { return desc() + ": " + fmt.Sprint(verr) })
				}
				prq, erro := in.Open(polys[1], z, s.pk)
				if erro == nil {
					if !c.Guard(N+"/foreign-base/BatchVerifyMultiPoints/panic/"+tag, desc, func() {
						verr = in.BatchVerifyMultiPoints(ds, []kzgs.Proof{pr, prq}, []*big.Int{z, z}, s.vk)
					}) {
						c.Check("BatchVerifyMultiPoints", N+"/foreign-base/BatchVerifyMultiPoints/false-reject/honest/"+tag, verr == nil, func() string { return desc() + ": " + fmt.Sprint(verr) })
					}
				}
			}
			c.Class(fmt.Sprintf("%s/foreign-base/%s/n%d", N, tag, n))
		}
	}
}
