package main

// The accept/reject frontier: arbitrary tuples of scalars (c, h, v, z) define commitment [c]G1 and quotient
// [h]G1; Verify, BatchVerifySinglePoint and BatchVerifyMultiPoints must accept exactly when the scalar
// relation(s) hold. Valid tuples are solved for c; every single-coordinate alteration, compensating double
// alterations, infinity and negated points are then decided by the same relation.

import (
	"crypto/sha256"
	"fmt"
	"hash"
	"math/big"

	"verif/harness/adapt/kzgs"
	"verif/harness/gen"
)

type tup struct{ c, h, v, z *big.Int }

func (t tup) clone() tup {
	return tup{new(big.Int).Set(t.c), new(big.Int).Set(t.h), new(big.Int).Set(t.v), new(big.Int).Set(t.z)}
}

// validTuple solves c = v + (tau - z) h.
func (s *srsCtx) validTuple(rng *gen.Rng, hc, vc, zc string) tup {
	f := s.e.f
	z, h, v := s.zOf(rng, zc), s.e.scalar(rng, hc), s.e.scalar(rng, vc)
	return tup{f.add(v, f.mul(f.sub(s.tau, z), h)), h, v, z}
}

type alteration struct {
	name string
	fn   func(s *srsCtx, rng *gen.Rng, t tup) tup
}

var alterations = []alteration{
	{"c+1", func(s *srsCtx, _ *gen.Rng, t tup) tup { t.c = s.e.f.add(t.c, one); return t }},
	{"c-1", func(s *srsCtx, _ *gen.Rng, t tup) tup { t.c = s.e.f.sub(t.c, one); return t }},
	{"c=random", func(s *srsCtx, r *gen.Rng, t tup) tup { t.c = r.BigBelow(s.e.f.r); return t }},
	{"C=O", func(s *srsCtx, _ *gen.Rng, t tup) tup { t.c = new(big.Int); return t }},
	{"C=-C", func(s *srsCtx, _ *gen.Rng, t tup) tup { t.c = s.e.f.neg(t.c); return t }},
	{"h+1", func(s *srsCtx, _ *gen.Rng, t tup) tup { t.h = s.e.f.add(t.h, one); return t }},
	{"h-1", func(s *srsCtx, _ *gen.Rng, t tup) tup { t.h = s.e.f.sub(t.h, one); return t }},
	{"h=random", func(s *srsCtx, r *gen.Rng, t tup) tup { t.h = r.BigBelow(s.e.f.r); return t }},
	{"H=O", func(s *srsCtx, _ *gen.Rng, t tup) tup { t.h = new(big.Int); return t }},
	{"H=-H", func(s *srsCtx, _ *gen.Rng, t tup) tup { t.h = s.e.f.neg(t.h); return t }},
	{"v+1", func(s *srsCtx, _ *gen.Rng, t tup) tup { t.v = s.e.f.add(t.v, one); return t }},
	{"v-1", func(s *srsCtx, _ *gen.Rng, t tup) tup { t.v = s.e.f.sub(t.v, one); return t }},
	{"v=random", func(s *srsCtx, r *gen.Rng, t tup) tup { t.v = r.BigBelow(s.e.f.r); return t }},
	{"v=0", func(s *srsCtx, _ *gen.Rng, t tup) tup { t.v = new(big.Int); return t }},
	{"v=-v", func(s *srsCtx, _ *gen.Rng, t tup) tup { t.v = s.e.f.neg(t.v); return t }},
	{"z+1", func(s *srsCtx, _ *gen.Rng, t tup) tup { t.z = s.e.f.add(t.z, one); return t }},
	{"z-1", func(s *srsCtx, _ *gen.Rng, t tup) tup { t.z = s.e.f.sub(t.z, one); return t }},
	{"z=random", func(s *srsCtx, r *gen.Rng, t tup) tup { t.z = r.BigBelow(s.e.f.r); return t }},
	{"z=tau", func(s *srsCtx, _ *gen.Rng, t tup) tup { t.z = new(big.Int).Set(s.tau); return t }},
	{"z=-z", func(s *srsCtx, _ *gen.Rng, t tup) tup { t.z = s.e.f.neg(t.z); return t }},
	{"swap-C-H", func(s *srsCtx, _ *gen.Rng, t tup) tup { t.c, t.h = t.h, t.c; return t }},
	{"swap-v-z", func(s *srsCtx, _ *gen.Rng, t tup) tup { t.v, t.z = t.z, t.v; return t }},
	// double alterations that keep the relation (must still be accepted)
	{"c+d,v+d", func(s *srsCtx, r *gen.Rng, t tup) tup {
		d := r.BigBelow(s.e.f.r)
		t.c, t.v = s.e.f.add(t.c, d), s.e.f.add(t.v, d)
		return t
	}},
	{"h+d,c+d(tau-z)", func(s *srsCtx, r *gen.Rng, t tup) tup {
		f := s.e.f
		d := r.BigBelow(f.r)
		t.h, t.c = f.add(t.h, d), f.add(t.c, f.mul(d, f.sub(s.tau, t.z)))
		return t
	}},
	{"z+d,c-dh", func(s *srsCtx, r *gen.Rng, t tup) tup {
		f := s.e.f
		d := r.BigBelow(f.r)
		t.z, t.c = f.add(t.z, d), f.sub(t.c, f.mul(d, t.h))
		return t
	}},
	// double alterations that do not
	{"c+d,v-d", func(s *srsCtx, r *gen.Rng, t tup) tup {
		d := big.NewInt(int64(1 + r.Intn(9)))
		t.c, t.v = s.e.f.add(t.c, d), s.e.f.sub(t.v, d)
		return t
	}},
}

// altKeys returns verifying keys that must behave like the shared one: a value copy, the key of a second
// NewSRS with the same trapdoor, and keys that went through each serialisation.
func (s *srsCtx) altKeys(rng *gen.Rng) (names []string, keys []any) {
	e := s.e
	in := e.in
	names, keys = append(names, "value-copy"), append(keys, in.CloneVk(s.vk))
	alpha := s.tau
	if s2, err := in.NewSRS(uint64(s.size), alpha); err == nil && s.tauCls != "alpha=-1" {
		names, keys = append(names, "second-NewSRS"), append(keys, in.Vk(s2))
	}
	for _, w := range []string{"WriteTo", "WriteRawTo"} {
		if k, ok := e.roundTrip("VerifyingKey", s.vk, w, "ReadFrom", "plain"); ok {
			names, keys = append(names, w+"+ReadFrom"), append(keys, k)
		}
	}
	if srs2, ok := e.dumpTrip(s, 0, 0); ok {
		names, keys = append(names, "WriteDump+ReadDump"), append(keys, in.Vk(srs2))
	}
	for i, k := range keys {
		e.c.Check("VerifyingKey", e.N+"/VerifyingKey/alt-key-differs/"+names[i], in.VkEqual(k, s.pristine), func() string {
			return "a verifying key obtained by " + names[i] + " differs from the original (tau=" + hx(s.tau) + ")"
		})
	}
	return
}

func (e *env) secExact() {
	c, N := e.c, e.N
	rng := e.rng("exact")
	hcs := []string{"0", "1", "r-1", "random"}
	vcs := []string{"0", "1", "r-1", "random"}
	zcs := []string{"0", "1", "r-1", "tau", "tau+1", "tau-1", "random"}
	nRandom := c.Pick(60, 320)
	nAlt := c.Pick(7, len(alterations)) // alterations per special base in quick; all of them in thorough
	for round, cls := range []string{"random", "alpha=-1", "r-1", "1", "0"} {
		if round > 0 && !c.Thorough() && cls != "alpha=-1" {
			continue
		}
		s := e.newSRS(rng, 4, cls, true)
		if s == nil {
			continue
		}
		altNames, alt := s.altKeys(rng)
		call := 0
		key := func() (any, string) {
			call++
			if call%16 == 0 && len(alt) > 0 {
				i := (call / 16) % len(alt)
				return alt[i], "/key:" + altNames[i]
			}
			return s.vk, ""
		}
		run := func(base tup, baseCls string, which []int) {
			vk, kn := key()
			s.verifyScalars(vk, "valid/"+baseCls+kn, base.c, base.h, base.v, base.z)
			for _, ai := range which {
				a := alterations[ai]
				t := a.fn(s, rng, base.clone())
				vk, kn := key()
				s.verifyScalars(vk, "altered/"+a.name+kn, t.c, t.h, t.v, t.z)
			}
		}
		all := make([]int, len(alterations))
		for i := range all {
			all[i] = i
		}
		nb := 0
		for _, hc := range hcs {
			for _, vc := range vcs {
				for _, zc := range zcs {
					if round > 0 && (nb%3 != round%3) {
						nb++
						continue
					}
					nb++
					c.Current(fmt.Sprintf("%s exact %s h:%s v:%s z:%s", N, cls, hc, vc, zc))
					base := s.validTuple(rng, hc, vc, zc)
					which := all
					if nAlt < len(all) {
						which = rng.Perm(len(all))[:nAlt]
					}
					run(base, fmt.Sprintf("h:%s,v:%s,z:%s", hc, vc, zc), which)
				}
			}
		}
		nr := nRandom
		if round > 0 {
			nr /= 4
		}
		for i := 0; i < nr; i++ {
			base := s.validTuple(rng, "random", "random", "random")
			which := all
			if !c.Thorough() {
				which = rng.Perm(len(all))[:10]
			}
			run(base, "random", which)
		}
		// the first tuple again on the n-th use of the same key object
		base := s.validTuple(rng, "random", "random", "random")
		s.verifyScalars(s.vk, "valid/nth-use", base.c, base.h, base.v, base.z)
		s.verifyScalars(s.vk, "altered/nth-use", base.c, base.h, e.f.add(base.v, one), base.z)
		noteStat("verifications_through_shared_key_objects", N, float64(s.uses))
		noteStat("verifications_through_one_key_object", N+"/exact/tau:"+cls, float64(s.uses))
	}
}

// ---------------------------------------------------------------------------------------------------------
// batched single point

type batchTuple struct {
	cs, vs []*big.Int
	h, z   *big.Int
	data   [][]byte
}

func (b batchTuple) clone() batchTuple {
	cp := func(v []*big.Int) []*big.Int {
		o := make([]*big.Int, len(v))
		for i := range v {
			o[i] = new(big.Int).Set(v[i])
		}
		return o
	}
	d := make([][]byte, len(b.data))
	for i := range b.data {
		d[i] = append([]byte(nil), b.data[i]...)
	}
	return batchTuple{cp(b.cs), cp(b.vs), new(big.Int).Set(b.h), new(big.Int).Set(b.z), d}
}

func (s *srsCtx) digests(cs []*big.Int) []kzgs.Pt {
	out := make([]kzgs.Pt, len(cs))
	for i := range cs {
		out[i] = s.e.o.mulG(cs[i])
	}
	return out
}

// batchFold returns sum gamma^i (c_i - v_i), sum gamma^i c_i, sum gamma^i v_i for the verifier's view of the claim.
func (s *srsCtx) batchFold(b batchTuple) (diff, fc, fv, gamma *big.Int) {
	f := s.e.f
	gamma = s.e.gamma(b.z, s.digests(b.cs), b.vs, b.data)
	diff, fc, fv = new(big.Int), new(big.Int), new(big.Int)
	g := big.NewInt(1)
	for i := range b.cs {
		fc = f.add(fc, f.mul(g, b.cs[i]))
		fv = f.add(fv, f.mul(g, b.vs[i]))
		g = f.mul(g, gamma)
	}
	diff = f.sub(fc, fv)
	return
}

func (s *srsCtx) batchHolds(b batchTuple) bool {
	if len(b.cs) != len(b.vs) {
		return false // documented: ErrInvalidNbDigests
	}
	f := s.e.f
	diff, _, _, _ := s.batchFold(b)
	return diff.Cmp(f.mul(f.sub(s.tau, b.z), b.h)) == 0
}

func (b batchTuple) String() string {
	return fmt.Sprintf("c=%s v=%s h=%s z=%s data=%q", hxs(b.cs), hxs(b.vs), hx(b.h), hx(b.z), b.data)
}

func newHash(dirty bool) hash.Hash {
	h := sha256.New()
	if dirty {
		h.Write([]byte("left over from a previous use"))
	}
	return h
}

// batchVerify calls BatchVerifySinglePoint (and FoldProof + Verify, the documented decomposition) on the claim.
func (s *srsCtx) batchVerify(vk any, cls string, b batchTuple, dirty bool) {
	e := s.e
	c, in, N := e.c, e.in, e.N
	want := s.batchHolds(b)
	desc := func() string { return fmt.Sprintf("BatchVerifySinglePoint tau=%s %s", hx(s.tau), b) }
	Cs, H := s.digests(b.cs), e.o.mulG(b.h)
	bp := kzgs.BatchProof{H: H, Vs: b.vs}
	var err error
	if c.Guard(N+"/BatchVerifySinglePoint/panic/"+cls, desc, func() {
		err = in.BatchVerifySinglePoint(Cs, bp, b.z, newHash(dirty), vk, b.data...)
	}) {
		return
	}
	s.used("BatchVerifySinglePoint", vk)
	s.verdict("BatchVerifySinglePoint", fmt.Sprintf("%s/k=%d", cls, len(b.cs)), err, want, desc)
}

// foldCheck compares FoldProof with the oracle's folding.
func (s *srsCtx) foldCheck(cls string, b batchTuple) {
	e := s.e
	c, in, N := e.c, e.in, e.N
	_, fc, fv, gamma := s.batchFold(b)
	desc := func() string { return fmt.Sprintf("FoldProof tau=%s %s (oracle gamma=%s)", hx(s.tau), b, hx(gamma)) }
	var pr kzgs.Proof
	var d kzgs.Pt
	var err error
	if c.Guard(N+"/FoldProof/panic/"+cls, desc, func() {
		pr, d, err = in.FoldProof(s.digests(b.cs), kzgs.BatchProof{H: e.o.mulG(b.h), Vs: b.vs}, b.z, newHash(false), b.data...)
	}) {
		return
	}
	if err != nil {
		c.Fail(N+"/FoldProof/unexpected-error/"+cls, "%s: %v", desc(), err)
		return
	}
	c.Check("FoldProof", N+"/FoldProof/folded-value-mismatch/"+cls, pr.V.Cmp(fv) == 0, func() string {
		return fmt.Sprintf("%s: ClaimedValue = %s, oracle sum gamma^i v_i = %s", desc(), hx(pr.V), hx(fv))
	})
	c.Check("FoldProof", N+"/FoldProof/folded-digest-mismatch/"+cls, d.Eq(e.o.mulG(fc)), func() string {
		return fmt.Sprintf("%s: digest = %v, oracle [sum gamma^i c_i]G1 = %v", desc(), d, e.o.mulG(fc))
	})
	c.Check("FoldProof", N+"/FoldProof/quotient-changed/"+cls, pr.H.Eq(e.o.mulG(b.h)), func() string { return desc() + ": H changed" })
	c.Class(fmt.Sprintf("%s/FoldProof/%s/k=%d", N, cls, len(b.cs)))
}

var dataVariants = [][][]byte{nil, {[]byte("x")}, {nil, []byte("abc")}, {[]byte("ab"), []byte("c")}}

func (e *env) secBatch() {
	c, in, N, f := e.c, e.in, e.N, e.f
	rng := e.rng("batch")
	sizes := []int{4, 17}
	ks := []int{1, 2, 5}
	if c.Thorough() {
		sizes = append(sizes, 64, 200)
		ks = append(ks, 3, 16)
	}
	for si, size := range sizes {
		s := e.newSRS(rng, size, []string{"random", "alpha=-1", "unreduced", "small"}[si%4], false)
		if s == nil {
			continue
		}
		// ---- honest prover ----
		variant := 0
		for _, k := range ks {
			for _, lenCls := range []string{"len=1", "len=2", "len=size", "random", "mixed"} {
				for _, zc := range []string{"random", "tau", "0"} {
					variant++
					data := dataVariants[variant%len(dataVariants)]
					ps := make([][]*big.Int, k)
					polys := make([]any, k)
					cs := make([]*big.Int, k)
					for i := range ps {
						n := 1
						switch lenCls {
						case "len=2":
							n = 2
						case "len=size":
							n = size
						case "random":
							if i == 0 {
								n = 2 + rng.Intn(size-1)
							} else {
								n = len(ps[0])
							}
						case "mixed":
							n = 1 + rng.Intn(size)
						}
						shape := "dense"
						if i == 1 && variant%5 == 0 {
							shape = "zero"
						}
						ps[i] = e.mkPoly(rng, n, shape)
						polys[i] = in.NewPoly(ps[i])
						cs[i] = s.polyAtTau(ps[i])
					}
					if k >= 2 && variant%7 == 0 { // the same polynomial twice
						ps[1], polys[1], cs[1] = ps[0], polys[0], cs[0]
					}
					if lenCls == "mixed" { // the key names the input class actually built
						longest := 0
						for i := range ps {
							longest = max(longest, len(ps[i]))
						}
						if longest == 1 {
							lenCls = "len=1"
						}
					}
					z := s.zOf(rng, zc)
					cls := fmt.Sprintf("%s/z:%s", lenCls, zc)
					desc := func() string {
						return fmt.Sprintf("BatchOpenSinglePoint k=%d %s tau=%s z=%s data=%q polys=%v", k, cls, hx(s.tau), hx(z), data, ps)
					}
					c.Current(N + " " + desc())
					Cs := s.digests(cs)
					var bp kzgs.BatchProof
					var err error
					dirty := variant%3 == 0
					if c.Guard(N+"/BatchOpenSinglePoint/panic/"+lenCls, desc, func() {
						bp, err = in.BatchOpenSinglePoint(polys, Cs, z, newHash(dirty), s.pk, data...)
					}) {
						continue
					}
					c.Class(fmt.Sprintf("%s/BatchOpenSinglePoint/%s/k=%d", N, cls, k))
					vs := make([]*big.Int, k)
					for i := range ps {
						vs[i] = f.horner(ps[i], z)
					}
					// oracle quotient: sum gamma^i q_i(tau)
					gamma := e.gamma(z, Cs, vs, data)
					h, g := new(big.Int), big.NewInt(1)
					for i := range ps {
						h = f.add(h, f.mul(g, f.horner(f.quotient(ps[i], z), s.tau)))
						g = f.mul(g, gamma)
					}
					b := batchTuple{cs, vs, h, z, data}
					if !c.Check("BatchOpenSinglePoint", N+"/BatchOpenSinglePoint/unexpected-error/"+lenCls, err == nil, func() string {
						return fmt.Sprintf("%s returned error %q; the oracle proof is H=[%s]G1 values=%s", desc(), err, hx(h), hxs(vs))
					}) {
						s.batchVerify(s.vk, "oracle-proof/"+lenCls, b, false)
						continue
					}
					okV := len(bp.Vs) == k
					for i := 0; okV && i < k; i++ {
						okV = bp.Vs[i].Cmp(vs[i]) == 0
					}
					c.Check("BatchOpenSinglePoint", N+"/BatchOpenSinglePoint/claimed-values-mismatch/"+lenCls, okV, func() string {
						return fmt.Sprintf("%s: ClaimedValues = %s, oracle %s", desc(), hxs(bp.Vs), hxs(vs))
					})
					okH := c.Check("BatchOpenSinglePoint", N+"/BatchOpenSinglePoint/quotient-mismatch/"+lenCls, bp.H.Eq(e.o.mulG(h)), func() string {
						return fmt.Sprintf("%s: H = %v, oracle [sum gamma^i q_i(tau)]G1 = %v (gamma=%s)", desc(), bp.H, e.o.mulG(h), hx(gamma))
					})
					for i := range ps {
						after := in.PolyVals(polys[i])
						same := len(after) == len(ps[i])
						for j := 0; same && j < len(after); j++ {
							same = after[j].Cmp(ps[i][j]) == 0
						}
						c.Check("BatchOpenSinglePoint", N+"/BatchOpenSinglePoint/input-polynomial-modified/"+lenCls, same, func() string {
							return fmt.Sprintf("%s: polynomial %d is now %s", desc(), i, hxs(after))
						})
					}
					if !okV || !okH {
						// completeness of the library's own output, whatever the oracle expected
						var verr error
						if !c.Guard(N+"/BatchVerifySinglePoint/panic/honest", desc, func() {
							verr = in.BatchVerifySinglePoint(Cs, bp, z, newHash(false), s.vk, data...)
						}) {
							s.used("BatchVerifySinglePoint", s.vk)
							c.Check("BatchVerifySinglePoint", N+"/BatchVerifySinglePoint/false-reject/honest-unmodelled", verr == nil, func() string { return desc() + ": " + fmt.Sprint(verr) })
						}
						continue
					}
					s.batchVerify(s.vk, "honest/"+cls, b, variant%2 == 0)
					s.foldCheck("honest", b)
					// altered honest claims
					j := rng.Intn(k)
					a := b.clone()
					a.vs[j] = f.add(a.vs[j], one)
					s.batchVerify(s.vk, "honest-altered/value", a, false)
					a = b.clone()
					a.data = append(a.data, []byte("y"))
					s.batchVerify(s.vk, "honest-altered/transcript-data", a, false)
					a = b.clone()
					a.z = f.add(a.z, one)
					s.batchVerify(s.vk, "honest-altered/point", a, false)
				}
			}
		}
		// documented errors of the prover: digest count, empty / oversized polynomial
		{
			p1, p2 := in.NewPoly(e.mkPoly(rng, 2, "dense")), in.NewPoly(e.mkPoly(rng, size+1, "dense"))
			d := s.digests([]*big.Int{one})
			var err error
			if !c.Guard(N+"/BatchOpenSinglePoint/panic/count-mismatch", func() string { return "2 polynomials, 1 digest" }, func() {
				_, err = in.BatchOpenSinglePoint([]any{p1, p1}, d, one, newHash(false), s.pk)
			}) {
				c.Check("BatchOpenSinglePoint", N+"/BatchOpenSinglePoint/missing-error/count-mismatch", err != nil, func() string { return "2 polynomials with 1 digest accepted" })
			}
			if !c.Guard(N+"/BatchOpenSinglePoint/panic/out-of-domain", func() string { return "len(p) = size+1" }, func() {
				_, err = in.BatchOpenSinglePoint([]any{p1, p2}, s.digests([]*big.Int{one, one}), one, newHash(false), s.pk)
			}) {
				c.Check("BatchOpenSinglePoint", N+"/BatchOpenSinglePoint/missing-error/out-of-domain", err != nil, func() string { return "a polynomial longer than the SRS accepted" })
			}
			c.Class(N + "/BatchOpenSinglePoint/documented-errors")
		}
		// ---- arbitrary claims ----
		nb := c.Pick(6, 24)
		for _, k := range ks {
			for i := 0; i < nb; i++ {
				b := batchTuple{cs: make([]*big.Int, k), vs: make([]*big.Int, k), data: dataVariants[i%len(dataVariants)]}
				zc := []string{"random", "random", "tau", "0", "tau+1", "r-1"}[i%6]
				b.z = s.zOf(rng, zc)
				for j := 0; j < k; j++ {
					b.cs[j] = e.scalar(rng, []string{"random", "random", "0", "1", "random"}[(i+j)%5])
					b.vs[j] = e.scalar(rng, []string{"random", "0", "random", "r-1", "random"}[(i+2*j)%5])
					if zc == "tau" { // c_i = v_i makes every quotient valid at z = tau
						b.vs[j] = new(big.Int).Set(b.cs[j])
					}
				}
				if k >= 2 && i%4 == 1 {
					b.cs[1], b.vs[1] = new(big.Int).Set(b.cs[0]), new(big.Int).Set(b.vs[0]) // duplicate claim
				}
				if zc == "tau" {
					b.h = rng.BigBelow(f.r)
				} else {
					diff, _, _, _ := s.batchFold(batchTuple{b.cs, b.vs, zero, b.z, b.data})
					b.h = f.mul(diff, f.inv(f.sub(s.tau, b.z)))
				}
				cls := "z:" + zc
				c.Current(N + " batch exact " + b.String())
				s.batchVerify(s.vk, "valid/"+cls, b, i%3 == 0)
				if i%3 == 0 {
					s.foldCheck("arbitrary", b)
				}
				j := rng.Intn(k)
				alts := []struct {
					name string
					fn   func(a *batchTuple)
				}{
					{"v_j+1", func(a *batchTuple) { a.vs[j] = f.add(a.vs[j], one) }},
					{"v_j=random", func(a *batchTuple) { a.vs[j] = rng.BigBelow(f.r) }},
					{"c_j+1", func(a *batchTuple) { a.cs[j] = f.add(a.cs[j], one) }},
					{"C_j=O", func(a *batchTuple) { a.cs[j] = new(big.Int) }},
					{"c_j+d,v_j+d", func(a *batchTuple) { // the per-claim difference is kept but gamma moves
						d := rng.BigBelow(f.r)
						a.cs[j], a.vs[j] = f.add(a.cs[j], d), f.add(a.vs[j], d)
					}},
					{"h+1", func(a *batchTuple) { a.h = f.add(a.h, one) }},
					{"H=O", func(a *batchTuple) { a.h = new(big.Int) }},
					{"H=-H", func(a *batchTuple) { a.h = f.neg(a.h) }},
					{"z+1", func(a *batchTuple) { a.z = f.add(a.z, one) }},
					{"z=random", func(a *batchTuple) { a.z = rng.BigBelow(f.r) }},
					{"data-appended", func(a *batchTuple) { a.data = append(a.data, []byte{0}) }},
					{"data-dropped", func(a *batchTuple) { a.data = nil }},
					{"data-resplit", func(a *batchTuple) { // same concatenation, other chunking: the transcript hashes the concatenation
						var all []byte
						for _, d := range a.data {
							all = append(all, d...)
						}
						a.data = [][]byte{all}
					}},
					{"claims-rotated", func(a *batchTuple) {
						a.cs = append(a.cs[1:], a.cs[0])
						a.vs = append(a.vs[1:], a.vs[0])
					}},
					{"claims-swapped-values", func(a *batchTuple) {
						if k >= 2 {
							a.vs[0], a.vs[1] = a.vs[1], a.vs[0]
						}
					}},
					{"value-dropped", func(a *batchTuple) { a.vs = a.vs[:k-1] }},
					{"digest-dropped", func(a *batchTuple) { a.cs = a.cs[:k-1] }},
				}
				for ai, al := range alts {
					if !c.Thorough() && (ai+i)%3 != 0 {
						continue
					}
					a := b.clone()
					al.fn(&a)
					s.batchVerify(s.vk, "altered/"+al.name, a, false)
				}
			}
		}
		noteStat("verifications_through_shared_key_objects", N, float64(s.uses))
	}
}

// ---------------------------------------------------------------------------------------------------------
// multi point

func (s *srsCtx) multiVerify(vk any, cls string, ts []tup, dropDigest, dropProof, dropPoint bool) {
	e := s.e
	c, in, N := e.c, e.in, e.N
	want := !(dropDigest || dropProof || dropPoint) && len(ts) > 0
	for _, t := range ts {
		want = want && s.holds(t.c, t.h, t.v, t.z)
	}
	desc := func() string {
		d := fmt.Sprintf("BatchVerifyMultiPoints tau=%s n=%d", hx(s.tau), len(ts))
		for i, t := range ts {
			d += fmt.Sprintf(" [%d: c=%s h=%s v=%s z=%s holds=%v]", i, hx(t.c), hx(t.h), hx(t.v), hx(t.z), s.holds(t.c, t.h, t.v, t.z))
		}
		return d
	}
	ds := make([]kzgs.Pt, len(ts))
	prs := make([]kzgs.Proof, len(ts))
	zs := make([]*big.Int, len(ts))
	for i, t := range ts {
		ds[i], prs[i], zs[i] = e.o.mulG(t.c), kzgs.Proof{H: e.o.mulG(t.h), V: t.v}, t.z
	}
	if dropDigest {
		ds = ds[:len(ds)-1]
	}
	if dropProof {
		prs = prs[:len(prs)-1]
	}
	if dropPoint {
		zs = zs[:len(zs)-1]
	}
	var err error
	if c.Guard(N+"/BatchVerifyMultiPoints/panic/"+cls, desc, func() { err = in.BatchVerifyMultiPoints(ds, prs, zs, vk) }) {
		return
	}
	s.used("BatchVerifyMultiPoints", vk)
	s.verdict("BatchVerifyMultiPoints", fmt.Sprintf("%s/n=%d", cls, len(ts)), err, want, desc)
}

func (e *env) secMulti() {
	c, N, f := e.c, e.N, e.f
	rng := e.rng("multi")
	ns := []int{1, 2, 5}
	if c.Thorough() {
		ns = append(ns, 3, 8, 17, 64)
	}
	for round, cls := range []string{"random", "alpha=-1"} {
		s := e.newSRS(rng, 3, cls, true)
		if s == nil {
			continue
		}
		// documented errors
		s.multiVerify(s.vk, "empty", nil, false, false, false)
		nb0 := c.Pick(8, 24)
		if round > 0 {
			nb0 = c.Pick(3, 8)
		}
		for _, n := range ns {
			nb := nb0
			if n > 8 {
				nb = (nb0 + 3) / 4
			}
			for i := 0; i < nb; i++ {
				ts := make([]tup, n)
				for j := range ts {
					hc := []string{"random", "random", "0", "1"}[(i+j)%4]
					vc := []string{"random", "0", "random", "r-1"}[(i+3*j)%4]
					zc := []string{"random", "random", "tau", "0", "random", "tau+1"}[(i+5*j)%6]
					ts[j] = s.validTuple(rng, hc, vc, zc)
				}
				if n >= 2 && i%4 == 1 {
					ts[1] = ts[0].clone() // the same claim twice
				}
				if n >= 2 && i%4 == 2 {
					ts[1].z = new(big.Int).Set(ts[0].z) // two claims at the same point
					ts[1].c = f.add(ts[1].v, f.mul(f.sub(s.tau, ts[1].z), ts[1].h))
				}
				c.Current(fmt.Sprintf("%s multi n=%d i=%d", N, n, i))
				s.multiVerify(s.vk, "valid", ts, false, false, false)
				cp := func() []tup {
					o := make([]tup, n)
					for j := range ts {
						o[j] = ts[j].clone()
					}
					return o
				}
				// one altered claim at every position (quick: a seeded position)
				positions := []int{rng.Intn(n)}
				if c.Thorough() || n <= 2 {
					positions = positions[:0]
					for j := 0; j < n && j < 4; j++ {
						positions = append(positions, j)
					}
					if n > 4 {
						positions = append(positions, n-1)
					}
				}
				for _, j := range positions {
					for _, ai := range rng.Perm(len(alterations))[:c.Pick(3, 8)] {
						a := cp()
						a[j] = alterations[ai].fn(s, rng, a[j])
						s.multiVerify(s.vk, fmt.Sprintf("altered/%s", alterations[ai].name), a, false, false, false)
					}
				}
				if n >= 2 {
					// errors that cancel in an unweighted sum: c_0 + d, c_1 - d (same for values, quotients)
					a := cp()
					d := big.NewInt(int64(1 + rng.Intn(7)))
					a[0].c, a[1].c = f.add(a[0].c, d), f.sub(a[1].c, d)
					s.multiVerify(s.vk, "altered/cancelling-commitments", a, false, false, false)
					a = cp()
					a[0].v, a[n-1].v = f.add(a[0].v, d), f.sub(a[n-1].v, d)
					s.multiVerify(s.vk, "altered/cancelling-values", a, false, false, false)
					if n >= 3 { // the same between two claims that both carry a drawn weight
						a = cp()
						a[n-2].c, a[n-1].c = f.add(a[n-2].c, d), f.sub(a[n-1].c, d)
						s.multiVerify(s.vk, "altered/cancelling-commitments-late", a, false, false, false)
						a = cp()
						a[1].v, a[n-1].v = f.add(a[1].v, d), f.sub(a[n-1].v, d)
						s.multiVerify(s.vk, "altered/cancelling-values-late", a, false, false, false)
					}
					a = cp()
					a[0].h, a[1].h = a[1].h, a[0].h
					s.multiVerify(s.vk, "altered/quotients-swapped", a, false, false, false)
					a = cp()
					a[0].z, a[1].z = a[1].z, a[0].z
					s.multiVerify(s.vk, "altered/points-swapped", a, false, false, false)
					// a consistent permutation of whole claims stays valid
					a = cp()
					a[0], a[n-1] = a[n-1], a[0]
					s.multiVerify(s.vk, "valid/claims-permuted", a, false, false, false)
				}
				if i == 0 {
					s.multiVerify(s.vk, "length-mismatch/digests", cp(), true, false, false)
					s.multiVerify(s.vk, "length-mismatch/proofs", cp(), false, true, false)
					s.multiVerify(s.vk, "length-mismatch/points", cp(), false, false, true)
				}
			}
		}
		noteStat("verifications_through_shared_key_objects", N, float64(s.uses))
	}
}
