package main

// The reference model of C11. Everything here is written from the definition of the KZG scheme
// (Kate-Zaverucha-Goldberg 2010, section 3.2 "PolyCommit_DL") over math/big:
//
//   SRS(tau)      = ([tau^i]G1 for i < size ; G2, [tau]G2)
//   Commit(p)     = [p(tau)]G1
//   Open(p, z)    = (v, [q(tau)]G1) with v = p(z) and q = (p - v)/(X - z)
//   Verify accepts (C, H, v, z)  <=>  e(C - [v]G1, G2) = e(H, [tau]G2 - [z]G2)
//
// With the trapdoor known and C = [c]G1, H = [h]G1 the pairing equation is, by bilinearity and
// non-degeneracy of e on the order-r subgroups, the scalar equation  c - v = (tau - z) h  (mod r).
// Group elements are produced by the textbook affine chord-and-tangent law (oracle/ocurve).

import (
	"crypto/sha256"
	"fmt"
	"math/big"
	"sync"

	"verif/harness/adapt/kzgs"
	"verif/harness/adapt/towers"
	"verif/harness/oracle/ocurve"
	"verif/harness/oracle/ofield"
)

var (
	zero = big.NewInt(0)
	one  = big.NewInt(1)
)

// sf is the scalar field Z/r.
type sf struct{ r *big.Int }

func (f sf) red(a *big.Int) *big.Int    { return new(big.Int).Mod(a, f.r) }
func (f sf) add(a, b *big.Int) *big.Int { return f.red(new(big.Int).Add(a, b)) }
func (f sf) sub(a, b *big.Int) *big.Int { return f.red(new(big.Int).Sub(a, b)) }
func (f sf) mul(a, b *big.Int) *big.Int { return f.red(new(big.Int).Mul(a, b)) }
func (f sf) neg(a *big.Int) *big.Int    { return f.red(new(big.Int).Neg(a)) }
func (f sf) inv(a *big.Int) *big.Int    { return new(big.Int).ModInverse(a, f.r) }
func (f sf) exp(a *big.Int, k int64) *big.Int {
	return new(big.Int).Exp(a, big.NewInt(k), f.r)
}

// horner evaluates sum p[i] x^i.
func (f sf) horner(p []*big.Int, x *big.Int) *big.Int {
	acc := new(big.Int)
	for i := len(p) - 1; i >= 0; i-- {
		acc.Mul(acc, x)
		acc.Add(acc, p[i])
		acc.Mod(acc, f.r)
	}
	return acc
}

// quotient returns q with p - p(z) = (X - z) q, by comparing coefficients: q[n-2] = p[n-1],
// q[i-1] = p[i] + z q[i]. A constant polynomial has the empty (zero) quotient.
func (f sf) quotient(p []*big.Int, z *big.Int) []*big.Int {
	n := len(p)
	if n <= 1 {
		return nil
	}
	q := make([]*big.Int, n-1)
	q[n-2] = f.red(p[n-1])
	for i := n - 2; i >= 1; i-- {
		q[i-1] = f.add(p[i], f.mul(z, q[i]))
	}
	return q
}

// sqrtMinusOne returns the two elements of order 4 of (Z/r)* (r = 1 mod 4 for every curve here).
func (f sf) order4() (a, b *big.Int, ok bool) {
	rm1 := new(big.Int).Sub(f.r, one)
	if new(big.Int).And(rm1, big.NewInt(3)).Sign() != 0 {
		return nil, nil, false
	}
	e := new(big.Int).Rsh(rm1, 2)
	for g := int64(2); g < 200; g++ {
		t := new(big.Int).Exp(big.NewInt(g), e, f.r)
		if f.mul(t, t).Cmp(rm1) == 0 {
			return t, f.neg(t), true
		}
	}
	return nil, nil, false
}

// g1o is the oracle view of G1: [k]G as a sum of table entries [j 16^i]G, one per base-16 digit of k.
type g1o struct {
	F   *ofield.Fld
	C   *ocurve.Curve
	G   ocurve.Pt
	r   *big.Int
	tbl [][15]ocurve.Pt

	mu    sync.Mutex
	cache map[string]kzgs.Pt
}

func newG1(in *kzgs.Inst) (*g1o, error) {
	F := ofield.Prime(in.P)
	o := &g1o{F: F, r: in.R, cache: map[string]kzgs.Pt{}}
	o.C = &ocurve.Curve{F: F, A: F.FromInt(in.A), B: F.FromInt(in.B)}
	o.G = ocurve.Pt{X: F.FromInt(in.G1.X), Y: F.FromInt(in.G1.Y)}
	if !in.P.ProbablyPrime(20) || !in.R.ProbablyPrime(20) {
		return nil, fmt.Errorf("p or r is not prime")
	}
	if !o.C.IsOnCurve(o.G) {
		return nil, fmt.Errorf("the G1 generator is not on y^2 = x^3 + %s x + %s", in.A, in.B)
	}
	// tbl[i][j-1] = [j 16^i]G, built with the group law only: tbl[i][0] = 16 tbl[i-1][0] by four doublings,
	// tbl[i][j] = tbl[i][j-1] + tbl[i][0]
	nw := (in.R.BitLen() + 3) / 4
	o.tbl = make([][15]ocurve.Pt, nw)
	base := o.G
	for i := 0; i < nw; i++ {
		o.tbl[i][0] = base
		for j := 1; j < 15; j++ {
			o.tbl[i][j] = o.C.Add(o.tbl[i][j-1], base)
		}
		for k := 0; k < 4; k++ {
			base = o.C.Double(base)
		}
	}
	// [r]G = O with the generic ladder (independent of the table) and with the table; a random-looking scalar both ways
	if rg := o.C.Mul(o.G, in.R); !rg.Inf {
		return nil, fmt.Errorf("[r]G1 != O in the oracle")
	}
	probe := new(big.Int).Rsh(new(big.Int).Mul(in.R, big.NewInt(0x9E3779B9)), 33)
	if !o.mulPt(in.R).Inf || !o.C.Eq(o.mulPt(probe), o.C.Mul(o.G, probe)) || !o.C.Eq(o.mulPt(big.NewInt(5)), o.C.Mul(o.G, big.NewInt(5))) {
		return nil, fmt.Errorf("oracle table self-check failed")
	}
	return o, nil
}

// mulPt returns [k]G for 0 <= k < 16^len(tbl), one addition per non-zero base-16 digit.
func (o *g1o) mulPt(k *big.Int) ocurve.Pt {
	acc := ocurve.Pt{Inf: true}
	for i := 0; 4*i < k.BitLen(); i++ {
		d := k.Bit(4*i) | k.Bit(4*i+1)<<1 | k.Bit(4*i+2)<<2 | k.Bit(4*i+3)<<3
		if d != 0 {
			acc = o.C.Add(acc, o.tbl[i][d-1])
		}
	}
	return acc
}

func (o *g1o) lib(p ocurve.Pt) kzgs.Pt {
	if p.Inf {
		return kzgs.Infinity()
	}
	return kzgs.Pt{X: new(big.Int).Set(p.X[0]), Y: new(big.Int).Set(p.Y[0])}
}

func (o *g1o) pt(p kzgs.Pt) ocurve.Pt {
	if p.Inf() {
		return ocurve.Pt{Inf: true}
	}
	return ocurve.Pt{X: ofield.El{new(big.Int).Set(p.X)}, Y: ofield.El{new(big.Int).Set(p.Y)}}
}

// mulG returns [k mod r]G1.
func (o *g1o) mulG(k *big.Int) kzgs.Pt {
	k = new(big.Int).Mod(k, o.r)
	key := k.Text(62)
	o.mu.Lock()
	if p, ok := o.cache[key]; ok {
		o.mu.Unlock()
		return p
	}
	o.mu.Unlock()
	// a neighbour of a known multiple costs one addition
	var p kzgs.Pt
	o.mu.Lock()
	prev, okPrev := o.cache[new(big.Int).Sub(k, one).Text(62)]
	next, okNext := o.cache[new(big.Int).Add(k, one).Text(62)]
	o.mu.Unlock()
	switch {
	case okPrev && k.Sign() > 0:
		p = o.lib(o.C.Add(o.pt(prev), o.G))
	case okNext && new(big.Int).Add(k, one).Cmp(o.r) < 0:
		p = o.lib(o.C.Sub(o.pt(next), o.G))
	default:
		p = o.lib(o.mulPt(k))
	}
	o.mu.Lock()
	if len(o.cache) > 20000 {
		o.cache = map[string]kzgs.Pt{}
	}
	o.cache[key] = p
	o.mu.Unlock()
	return p
}

// g2o is the oracle view of G2: the twist y^2 = x^3 + b' over the documented tower, b' read off the generator
// (validated by [r]G2 = O).
type g2o struct {
	F *ofield.Fld
	C *ocurve.Curve
	G ocurve.Pt
}

func newG2(in *kzgs.Inst) (*g2o, error) {
	tw := towers.For(in.Name, in.P)
	F := tw.G2F
	if len(in.G2.X) != F.Deg() {
		return nil, fmt.Errorf("G2 coordinate degree %d, oracle twist field degree %d", len(in.G2.X), F.Deg())
	}
	G := ocurve.Pt{X: in.G2.X, Y: in.G2.Y}
	b := F.Sub(F.Sqr(G.Y), F.Mul(F.Sqr(G.X), G.X))
	o := &g2o{F: F, C: &ocurve.Curve{F: F, A: F.Zero(), B: b}, G: G}
	if rg := o.C.Mul(G, in.R); !rg.Inf {
		return nil, fmt.Errorf("[r]G2 != O in the oracle")
	}
	return o, nil
}

func (o *g2o) eq(p ocurve.Pt, q kzgs.G2) bool {
	if p.Inf {
		return o.F.IsZero(q.X) && o.F.IsZero(q.Y)
	}
	return o.F.Eq(p.X, q.X) && o.F.Eq(p.Y, q.Y)
}

// gamma is the folding challenge of the batched single-point protocol as documented in the package:
// Fiat-Shamir challenge "gamma" of a one-challenge transcript = H("gamma" || bindings in order), bound to the
// point, the digests, the claimed values and the extra transcript data, read as a big-endian integer mod r.
// Scalars are bound as fixed-width big-endian; digests as their Marshal() bytes (encoding = property C07).
func (e *env) gamma(z *big.Int, digests []kzgs.Pt, vs []*big.Int, data [][]byte) *big.Int {
	h := sha256.New()
	h.Write([]byte("gamma"))
	h.Write(z.FillBytes(make([]byte, e.in.FrBytes)))
	for _, d := range digests {
		h.Write(e.in.MarshalG1(d))
	}
	for _, v := range vs {
		h.Write(v.FillBytes(make([]byte, e.in.FrBytes)))
	}
	for _, d := range data {
		h.Write(d)
	}
	return e.f.red(new(big.Int).SetBytes(h.Sum(nil)))
}

func hx(v *big.Int) string {
	if v == nil {
		return "<nil>"
	}
	return "0x" + v.Text(16)
}

func hxs(vs []*big.Int) string {
	s := "["
	for i, v := range vs {
		if i > 0 {
			s += " "
		}
		s += hx(v)
	}
	return s + "]"
}
