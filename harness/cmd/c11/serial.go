package main

// Serialisation round trips (SRS / ProvingKey / VerifyingKey / OpeningProof / BatchOpeningProof / MpcSetup,
// every writer x reader pair, dumps with and without point limits, the curve-typed constructor of the
// top-level kzg package), behaviour of the deserialised objects, the race workload.

import (
	"bytes"
	"crypto/sha256"
	"fmt"
	"io"
	"math/big"
	"sync"
	"testing/iotest"

	"verif/harness/adapt/kzgs"
	"verif/harness/gen"
)

type (
	writerTo interface {
		WriteTo(io.Writer) (int64, error)
	}
	rawWriterTo interface {
		WriteRawTo(io.Writer) (int64, error)
	}
	readerFrom interface {
		ReadFrom(io.Reader) (int64, error)
	}
	unsafeRF interface {
		UnsafeReadFrom(io.Reader) (int64, error)
	}
	dumper interface {
		WriteDump(io.Writer, ...int) error
		ReadDump(io.Reader, ...int) error
	}
)

var trailer = []byte{0xA5, 0x5A, 0xC3, 0x3C, 0x0F, 0xF0, 0x99}

func (e *env) write(kind string, obj any, writer string) ([]byte, bool) {
	c, N := e.c, e.N
	var buf bytes.Buffer
	var n int64
	var err error
	op := kind + "." + writer
	ok := true
	if c.Guard(N+"/"+op+"/panic", func() string { return op }, func() {
		switch writer {
		case "WriteTo":
			n, err = obj.(writerTo).WriteTo(&buf)
		case "WriteRawTo":
			w, is := obj.(rawWriterTo)
			if !is {
				ok = false
				return
			}
			n, err = w.WriteRawTo(&buf)
		default:
			panic("writer " + writer)
		}
	}) || !ok {
		return nil, false
	}
	if err != nil {
		c.Fail(N+"/"+op+"/unexpected-error", "%s: %v", op, err)
		return nil, false
	}
	c.Check(op, N+"/"+op+"/byte-count", n == int64(buf.Len()), func() string {
		return fmt.Sprintf("%s returned n=%d but wrote %d bytes", op, n, buf.Len())
	})
	return buf.Bytes(), true
}

// read decodes enc (followed by trailing bytes that belong to the next object of the stream) into dst.
func (e *env) read(kind string, dst any, enc []byte, reader, style string) bool {
	c, N := e.c, e.N
	op := kind + "." + reader
	under := bytes.NewReader(append(append([]byte(nil), enc...), trailer...))
	var rd io.Reader = under
	if style == "one-byte" {
		rd = iotest.OneByteReader(under)
	}
	var n int64
	var err error
	ok := true
	if c.Guard(N+"/"+op+"/panic/"+style, func() string { return op }, func() {
		switch reader {
		case "ReadFrom":
			n, err = dst.(readerFrom).ReadFrom(rd)
		case "UnsafeReadFrom":
			r, is := dst.(unsafeRF)
			if !is {
				ok = false
				return
			}
			n, err = r.UnsafeReadFrom(rd)
		default:
			panic("reader " + reader)
		}
	}) || !ok {
		return false
	}
	if err != nil {
		c.Fail(N+"/"+op+"/unexpected-error/"+style, "%s on %d bytes written by the library: %v", op, len(enc), err)
		return false
	}
	c.Check(op, N+"/"+op+"/byte-count/"+style, n == int64(len(enc)), func() string {
		return fmt.Sprintf("%s returned n=%d for an encoding of %d bytes", op, n, len(enc))
	})
	c.Check(op, N+"/"+op+"/over-read/"+style, under.Len() == len(trailer), func() string {
		return fmt.Sprintf("%s left %d bytes in the stream, the next object starts %d bytes before the end", op, under.Len(), len(trailer))
	})
	return true
}

// roundTrip writes obj with writer, reads it back with reader into a fresh object of the same kind and
// compares; returns the new object.
func (e *env) roundTrip(kind string, obj any, writer, reader, style string) (any, bool) {
	c, in, N := e.c, e.in, e.N
	enc, ok := e.write(kind, obj, writer)
	if !ok {
		return nil, false
	}
	dst := in.NewObj(kind)
	if !e.read(kind, dst, enc, reader, style) {
		return nil, false
	}
	pair := writer + "+" + reader
	c.Class(fmt.Sprintf("%s/%s/%s/%s", N, kind, pair, style))
	if !c.Check(kind+".roundtrip", N+"/"+kind+"/roundtrip-mismatch/"+pair, in.EqualObj(obj, dst), func() string {
		return fmt.Sprintf("%s read back with %s differs from the object written by %s (%d bytes)", kind, reader, writer, len(enc))
	}) {
		return dst, false
	}
	if enc2, ok := e.write(kind, dst, writer); ok {
		c.Check(kind+".roundtrip", N+"/"+kind+"/reencode-mismatch/"+pair, bytes.Equal(enc, enc2), func() string {
			return fmt.Sprintf("%s: encoding of the decoded object differs (%d vs %d bytes)", kind, len(enc), len(enc2))
		})
	}
	return dst, true
}

// dumpTrip: WriteDump(w, wmax) then ReadDump(r, rmax); 0 = argument omitted.
func (e *env) dumpTrip(s *srsCtx, wmax, rmax int) (any, bool) {
	c, in, N := e.c, e.in, e.N
	cls := fmt.Sprintf("wmax=%s,rmax=%s", limCls(wmax, s.size), limCls(rmax, s.size))
	var buf bytes.Buffer
	var err error
	d := func() string { return fmt.Sprintf("SRS dump size=%d wmax=%d rmax=%d", s.size, wmax, rmax) }
	if c.Guard(N+"/SRS.WriteDump/panic/"+cls, d, func() {
		if wmax != 0 {
			err = s.srs.(dumper).WriteDump(&buf, wmax)
		} else {
			err = s.srs.(dumper).WriteDump(&buf)
		}
	}) {
		return nil, false
	}
	if err != nil {
		c.Fail(N+"/SRS.WriteDump/unexpected-error/"+cls, "%s: %v", d(), err)
		return nil, false
	}
	dst := in.NewObj("SRS")
	under := bytes.NewReader(append(append([]byte(nil), buf.Bytes()...), trailer...))
	if c.Guard(N+"/SRS.ReadDump/panic/"+cls, d, func() {
		if rmax != 0 {
			err = dst.(dumper).ReadDump(under, rmax)
		} else {
			err = dst.(dumper).ReadDump(under)
		}
	}) {
		return nil, false
	}
	if err != nil {
		c.Fail(N+"/SRS.ReadDump/unexpected-error/"+cls, "%s: %v", d(), err)
		return nil, false
	}
	// documented: "If maxPkPoints is provided, the number of points in the ProvingKey will be limited to maxPkPoints"
	want := s.size
	if wmax > 0 && wmax < want {
		want = wmax
	}
	if rmax > 0 && rmax < want {
		want = rmax
	}
	c.Class(N + "/SRS/WriteDump+ReadDump/" + cls)
	c.Check("SRS.ReadDump", N+"/SRS.ReadDump/over-read/"+cls, under.Len() == len(trailer), func() string {
		return fmt.Sprintf("%s: %d bytes left, expected %d", d(), under.Len(), len(trailer))
	})
	exp := in.MakeSRS(in.PkPrefix(s.pk, want), s.vk)
	return dst, c.Check("SRS.roundtrip", N+"/SRS/roundtrip-mismatch/WriteDump+ReadDump/"+cls, in.EqualObj(exp, dst), func() string {
		return fmt.Sprintf("%s: the SRS read back is not (Pk.G1[:%d], Vk) of the original (got %d points)", d(), want, len(in.PkPoints(in.Pk(dst))))
	})
}

func limCls(m, size int) string {
	switch {
	case m == 0:
		return "none"
	case m < 0:
		return "negative"
	case m < size:
		return "<size"
	case m == size:
		return "=size"
	}
	return ">size"
}

// useKeys exercises a deserialised (pk, vk) pair: commit, open and verify a fresh polynomial, and decide a few
// arbitrary tuples, all against the oracle of the ORIGINAL reference string.
func (s *srsCtx) useKeys(rng *gen.Rng, how string, pk, vk any) {
	e := s.e
	c, in, N, f := e.c, e.in, e.N, e.f
	if pk != nil {
		n := len(in.PkPoints(pk))
		p := e.mkPoly(rng, n, "dense")
		poly := in.NewPoly(p)
		z := rng.BigBelow(f.r)
		var C kzgs.Pt
		var pr kzgs.Proof
		var err1, err2 error
		d := func() string {
			return fmt.Sprintf("keys after %s: Commit/Open len=%d tau=%s z=%s p=%s", how, n, hx(s.tau), hx(z), hxs(p))
		}
		if c.Guard(N+"/roundtrip-behaviour/panic/"+how, d, func() {
			C, err1 = in.Commit(poly, pk)
			pr, err2 = in.Open(poly, z, pk)
		}) {
			return
		}
		cS, h, v := s.polyAtTau(p), f.horner(f.quotient(p, z), s.tau), f.horner(p, z)
		if n == 1 {
			err2 = nil // Open on one coefficient: recorded by the honest section
			pr = kzgs.Proof{H: e.o.mulG(h), V: v}
		}
		ok := c.Check("roundtrip-behaviour", N+"/roundtrip-behaviour/prover-differs/"+how, err1 == nil && err2 == nil && C.Eq(e.o.mulG(cS)) && pr.H.Eq(e.o.mulG(h)) && pr.V.Cmp(v) == 0, func() string {
			return fmt.Sprintf("%s: errors %v %v, C=%v (oracle %v) H=%v (oracle %v) v=%s (oracle %s)", d(), err1, err2, C, e.o.mulG(cS), pr.H, e.o.mulG(h), hx(pr.V), hx(v))
		})
		if ok && vk != nil {
			s.verifyPts(vk, "after-"+how+"/honest", C, pr.H, cS, h, v, z)
		}
	}
	if vk != nil {
		for i := 0; i < 3; i++ {
			t := s.validTuple(rng, "random", "random", []string{"random", "tau", "0"}[i])
			s.verifyScalars(vk, "after-"+how+"/valid", t.c, t.h, t.v, t.z)
			s.verifyScalars(vk, "after-"+how+"/altered", t.c, t.h, f.add(t.v, one), f.add(t.z, big.NewInt(int64(i))))
		}
	}
}

func (e *env) secSerial() {
	c, in, N, f := e.c, e.in, e.N, e.f
	rng := e.rng("serial")
	sizes := []int{2, 3, 17, 64}
	if c.Thorough() {
		sizes = append(sizes, 100, 256, 1000)
	}
	for si, size := range sizes {
		s := e.newSRS(rng, size, []string{"random", "1", "alpha=-1", "r-1", "small"}[si%5], false)
		if s == nil {
			continue
		}
		c.Current(fmt.Sprintf("%s serial size=%d", N, size))
		for _, w := range []string{"WriteTo", "WriteRawTo"} {
			for _, r := range []string{"ReadFrom", "UnsafeReadFrom"} {
				styles := []string{"plain"}
				if size <= 17 {
					styles = append(styles, "one-byte")
				}
				for _, style := range styles {
					how := w + "+" + r
					if srs2, ok := e.roundTrip("SRS", s.srs, w, r, style); ok {
						s.useKeys(rng, "SRS."+how, in.Pk(srs2), in.Vk(srs2))
					}
					if pk2, ok := e.roundTrip("ProvingKey", s.pk, w, r, style); ok && style == "plain" {
						s.useKeys(rng, "ProvingKey."+how, pk2, nil)
					}
					if r == "ReadFrom" { // VerifyingKey has no UnsafeReadFrom
						if vk2, ok := e.roundTrip("VerifyingKey", s.vk, w, r, style); ok && style == "plain" {
							s.useKeys(rng, "VerifyingKey."+how, nil, vk2)
						}
					}
				}
			}
		}
		// the curve-typed constructor of the top-level package must hand out this curve's SRS type
		top := in.NewObj("TopLevelSRS")
		if c.Check("kzg.NewSRS", N+"/kzg.NewSRS(curveID)/wrong-type", in.IsSRS(top), func() string { return fmt.Sprintf("got %T", top) }) {
			if enc, ok := e.write("SRS", s.srs, "WriteTo"); ok && e.read("SRS", top, enc, "ReadFrom", "plain") {
				c.Check("kzg.NewSRS", N+"/kzg.NewSRS(curveID)/roundtrip-mismatch", in.EqualObj(s.srs, top), func() string { return "SRS read through the top-level constructor differs" })
				c.Class(N + "/kzg.NewSRS(curveID)/ReadFrom")
			}
		}
		// reading into an object that already holds another (longer) reference string
		if size <= 17 {
			if big2 := e.newSRS(rng, size+3, "small", false); big2 != nil {
				if enc, ok := e.write("SRS", s.srs, "WriteTo"); ok {
					dst, _ := e.roundTrip("SRS", big2.srs, "WriteTo", "ReadFrom", "plain")
					if dst != nil && e.read("SRS", dst, enc, "ReadFrom", "plain") {
						c.Check("SRS.roundtrip", N+"/SRS/roundtrip-mismatch/into-used-object", in.EqualObj(s.srs, dst), func() string {
							return fmt.Sprintf("ReadFrom into an SRS holding %d points: result differs from the %d-point original", size+3, size)
						})
						c.Class(N + "/SRS/ReadFrom/into-used-object")
					}
				}
			}
		}
		// dumps
		lims := [][2]int{{0, 0}, {size - 1, 0}, {0, size - 1}, {1, 0}, {0, 1}, {size, size}, {size + 5, size + 5}, {-1, -1}, {size - 1, 1}}
		for _, l := range lims {
			if srs2, ok := e.dumpTrip(s, l[0], l[1]); ok && (l[0] <= 0 || l[0] >= 2) {
				s.useKeys(rng, "SRS.WriteDump+ReadDump", in.Pk(srs2), in.Vk(srs2))
			}
		}
		// proofs
		for i := 0; i < c.Pick(6, 30); i++ {
			t := s.validTuple(rng, []string{"random", "0", "1", "random"}[i%4], []string{"random", "0", "r-1"}[i%3], "random")
			for _, style := range []string{"plain", "one-byte"} {
				obj := in.ProofObj(kzgs.Proof{H: e.o.mulG(t.h), V: t.v})
				if o2, ok := e.roundTrip("OpeningProof", obj, "WriteTo", "ReadFrom", style); ok {
					p2 := in.ObjProof(o2)
					s.verifyPts(s.vk, "after-OpeningProof.roundtrip/valid", e.o.mulG(t.c), p2.H, t.c, t.h, p2.V, t.z)
				}
			}
			k := []int{0, 1, 2, 5, 33}[i%5]
			b := batchTuple{cs: make([]*big.Int, k), vs: make([]*big.Int, k), z: t.z, h: t.h}
			for j := 0; j < k; j++ {
				b.cs[j], b.vs[j] = rng.BigBelow(f.r), e.scalar(rng, []string{"random", "0", "r-1"}[j%3])
			}
			if k > 0 {
				diff, _, _, _ := s.batchFold(batchTuple{b.cs, b.vs, zero, b.z, nil})
				b.h = f.mul(diff, f.inv(f.sub(s.tau, b.z)))
			}
			bobj := in.BatchProofObj(kzgs.BatchProof{H: e.o.mulG(b.h), Vs: b.vs})
			if o2, ok := e.roundTrip("BatchOpeningProof", bobj, "WriteTo", "ReadFrom", []string{"plain", "one-byte"}[i%2]); ok && k > 0 {
				bp2 := in.ObjBatchProof(o2)
				b2 := b.clone()
				b2.vs = bp2.Vs
				s.batchVerify(s.vk, "after-BatchOpeningProof.roundtrip/valid", b2, false)
				// reading a shorter proof into the object that holds this one
				short := in.BatchProofObj(kzgs.BatchProof{H: e.o.mulG(one), Vs: []*big.Int{big.NewInt(7)}})
				if enc, ok := e.write("BatchOpeningProof", short, "WriteTo"); ok && e.read("BatchOpeningProof", o2, enc, "ReadFrom", "plain") {
					c.Check("BatchOpeningProof.roundtrip", N+"/BatchOpeningProof/roundtrip-mismatch/into-used-object", in.EqualObj(short, o2), func() string {
						return fmt.Sprintf("ReadFrom into a proof holding %d values: result differs from the 1-value original", k)
					})
				}
			}
		}
		noteStat("verifications_through_shared_key_objects", N, float64(s.uses))
	}
}

// secMpc: setup transcripts. The contribution randomness is the library's (crypto/rand), so the trapdoor of
// these strings is unknown: the checks are round trips of the transcript, equality of what the original and
// the deserialised transcript produce, and completeness of the sealed string.
func (e *env) secMpc() {
	c, in, N, f := e.c, e.in, e.N, e.f
	rng := e.rng("mpc")
	sizes := []int{2, 5}
	if c.Thorough() {
		sizes = append(sizes, 3, 16, 33)
	}
	enc := func(s any) ([]byte, bool) { return e.write("MpcSetup", s, "WriteTo") }
	for _, n := range sizes {
		c.Current(fmt.Sprintf("%s mpc N=%d", N, n))
		var s0 any
		if c.Guard(N+"/InitializeSetup/panic", func() string { return fmt.Sprint(n) }, func() { s0 = in.InitializeSetup(n) }) {
			continue
		}
		// the transcript before any contribution
		if b0, ok := enc(s0); ok {
			dst := in.NewObj("MpcSetup")
			if e.readSetup(dst, b0, "uncontributed", "plain") {
				if b1, ok := enc(dst); ok {
					c.Check("MpcSetup.roundtrip", N+"/MpcSetup/reencode-mismatch/uncontributed", bytes.Equal(b0, b1), func() string { return "uncontributed transcript changed by a round trip" })
				}
			}
			c.Class(N + "/MpcSetup/roundtrip/uncontributed")
		}
		prev := s0
		cur := in.InitializeSetup(n)
		nContrib := c.Pick(2, 3)
		for k := 1; k <= nContrib; k++ {
			if c.Guard(N+"/MpcSetup.Contribute/panic", func() string { return fmt.Sprint(n, k) }, func() { in.Contribute(cur) }) {
				break
			}
			b, ok := enc(cur)
			if !ok {
				break
			}
			style := []string{"plain", "one-byte"}[k%2]
			dst := in.NewObj("MpcSetup")
			cls := fmt.Sprintf("contributions=%d", k)
			if !e.readSetup(dst, b, cls, style) {
				break
			}
			c.Class(fmt.Sprintf("%s/MpcSetup/roundtrip/%s/N=%d/%s", N, cls, n, style))
			if b2, ok := enc(dst); ok {
				c.Check("MpcSetup.roundtrip", N+"/MpcSetup/reencode-mismatch/contributed", bytes.Equal(b, b2), func() string {
					return fmt.Sprintf("N=%d after %d contributions: the re-encoded transcript differs (%d vs %d bytes)", n, k, len(b), len(b2))
				})
			}
			// the received transcript must be accepted as the successor of the previous one, like the sender's object
			var errA, errB error
			if !c.Guard(N+"/MpcSetup.Verify/panic", func() string { return cls }, func() {
				errA = in.VerifySetup(prev, cur)
				errB = in.VerifySetup(prev, dst)
			}) {
				c.Check("MpcSetup.Verify", N+"/MpcSetup.Verify/false-reject/honest-contribution", errA == nil, func() string {
					return fmt.Sprintf("N=%d contribution %d (sender's object): %v", n, k, errA)
				})
				c.Check("MpcSetup.Verify", N+"/MpcSetup.Verify/false-reject/honest-contribution-after-roundtrip", errB == nil, func() string {
					return fmt.Sprintf("N=%d contribution %d (deserialised): %v", n, k, errB)
				})
			}
			// sealing the sender's object and the received object with the same beacon must give the same string.
			// Seal mutates its receiver: work on two further copies read from the same bytes.
			a1 := in.NewObj("MpcSetup")
			if e.readSetup(a1, b, cls, "plain") {
				// a1 <- deserialised ; reference: the sender's own state, sealed last (it ends the chain)
				if k == nContrib {
					beacon := []byte("beacon " + fmt.Sprint(n, k))
					var sealedRecv, sealedSend any
					if !c.Guard(N+"/MpcSetup.Seal/panic", func() string { return cls }, func() {
						sealedRecv = in.Seal(a1, beacon)
						sealedSend = in.Seal(cur, beacon)
					}) {
						// component by component, so that a recorded finding on one component hides nothing else
						g1s, g2s := in.VkPoints(in.Vk(sealedSend))
						g1r, g2r := in.VkPoints(in.Vk(sealedRecv))
						what := fmt.Sprintf("N=%d: Seal(beacon) of the transcript read back from its own bytes vs Seal(beacon) of the sender's object", n)
						same := c.Check("MpcSetup.roundtrip", N+"/MpcSetup/roundtrip-mismatch/sealed-srs/Pk", in.EqualObj(in.Pk(sealedSend), in.Pk(sealedRecv)), func() string { return what + ": Pk.G1 differ" })
						sameG1 := c.Check("MpcSetup.roundtrip", N+"/MpcSetup/roundtrip-mismatch/sealed-srs/Vk.G1", g1s.Eq(g1r), func() string {
							return fmt.Sprintf("%s: Vk.G1 sender=%v received=%v", what, g1s, g1r)
						})
						sameG2 := c.Check("MpcSetup.roundtrip", N+"/MpcSetup/roundtrip-mismatch/sealed-srs/Vk.G2", e.o2.F.Eq(g2s[0].X, g2r[0].X) && e.o2.F.Eq(g2s[0].Y, g2r[0].Y) && e.o2.F.Eq(g2s[1].X, g2r[1].X) && e.o2.F.Eq(g2s[1].Y, g2r[1].Y), func() string {
							return what + ": Vk.G2 differ"
						})
						if same && sameG1 && sameG2 {
							same = c.Check("MpcSetup.roundtrip", N+"/MpcSetup/roundtrip-mismatch/sealed-srs/Vk.Lines", in.EqualObj(in.Vk(sealedSend), in.Vk(sealedRecv)), func() string { return what + ": Vk.Lines differ" })
						}
						c.Check("MpcSetup.Seal", N+"/MpcSetup.Seal/vk-lines-mismatch", in.VkLinesOK(in.Vk(sealedSend)), func() string { return "sealed Vk.Lines != PrecomputeLines(Vk.G2)" })
						e.sealedUsable(rng, "sender", sealedSend, f)
						if !(same && sameG1 && sameG2) {
							how := "after-roundtrip"
							if same && sameG2 && g1r.Inf() {
								how = "after-roundtrip/Vk.G1-missing"
							}
							e.sealedUsable(rng, how, sealedRecv, f)
						}
					}
				}
			}
			prev = dst
		}
	}
}

func (e *env) readSetup(dst any, b []byte, cls, style string) bool {
	c, N := e.c, e.N
	under := bytes.NewReader(append(append([]byte(nil), b...), trailer...))
	var rd io.Reader = under
	if style == "one-byte" {
		rd = iotest.OneByteReader(under)
	}
	var n int64
	var err error
	if c.Guard(N+"/MpcSetup.ReadFrom/panic/"+cls, func() string { return cls }, func() { n, err = dst.(readerFrom).ReadFrom(rd) }) {
		return false
	}
	if !c.Check("MpcSetup.ReadFrom", N+"/MpcSetup.ReadFrom/unexpected-error/"+cls, err == nil, func() string {
		return fmt.Sprintf("ReadFrom on the %d bytes produced by WriteTo (%s, reader %s): %v", len(b), cls, style, err)
	}) {
		return false
	}
	c.Check("MpcSetup.ReadFrom", N+"/MpcSetup.ReadFrom/byte-count/"+cls, n == int64(len(b)) && under.Len() == len(trailer), func() string {
		return fmt.Sprintf("ReadFrom returned n=%d for %d bytes, %d left in the stream (expected %d)", n, len(b), under.Len(), len(trailer))
	})
	return true
}

// sealedUsable: completeness on a reference string whose trapdoor nobody knows.
func (e *env) sealedUsable(rng *gen.Rng, how string, srs any, f sf) {
	c, in, N := e.c, e.in, e.N
	pk, vk := in.Pk(srs), in.Vk(srs)
	n := len(in.PkPoints(pk))
	for _, ln := range []int{n, 2} {
		p := e.mkPoly(rng, ln, "dense")
		poly := in.NewPoly(p)
		z := rng.BigBelow(f.r)
		d := func() string { return fmt.Sprintf("sealed SRS (%s, %d points): p=%s z=%s", how, n, hxs(p), hx(z)) }
		var err error
		var C kzgs.Pt
		var pr kzgs.Proof
		if c.Guard(N+"/sealed-srs/panic/"+how, d, func() {
			if C, err = in.Commit(poly, pk); err == nil {
				if pr, err = in.Open(poly, z, pk); err == nil {
					err = in.Verify(C, pr, z, vk)
				}
			}
		}) {
			continue
		}
		c.Check("sealed-srs", N+"/sealed-srs/honest-proof-rejected/"+how, err == nil && pr.V.Cmp(f.horner(p, z)) == 0, func() string {
			return fmt.Sprintf("%s: Commit/Open/Verify = %v, claimed %s, p(z) = %s", d(), err, hx(pr.V), hx(f.horner(p, z)))
		})
		c.Class(N + "/sealed-srs/" + how)
	}
}

// secRace: small workload for the race detector: the library's internal goroutines (BatchOpenSinglePoint,
// MultiExp, ToLagrangeG1) and concurrent use of one proving key / one verifying key object.
func (e *env) secRace() {
	c, in, f := e.c, e.in, e.f
	rng := e.rng("race")
	s := e.newSRS(rng, 33, "random", false)
	if s == nil {
		return
	}
	var wg sync.WaitGroup
	for g := 0; g < 4; g++ {
		wg.Add(1)
		r := gen.New(c.Seed, fmt.Sprintf("c11/%s/race/%d", e.N, g))
		go func() {
			defer wg.Done()
			for it := 0; it < 3; it++ {
				k := 1 + it*2
				ps := make([][]*big.Int, k)
				polys := make([]any, k)
				cs := make([]*big.Int, k)
				for i := range ps {
					ps[i] = e.mkPoly(r, 33, "dense")
					polys[i] = in.NewPoly(ps[i])
					cs[i] = s.polyAtTau(ps[i])
				}
				z := r.BigBelow(f.r)
				s.honest(r, ps[0], "dense", nil, true)
				bp, err := in.BatchOpenSinglePoint(polys, s.digests(cs), z, sha256.New(), s.pk)
				if err != nil {
					c.Fail(e.N+"/BatchOpenSinglePoint/unexpected-error/race", "%v", err)
					continue
				}
				b := batchTuple{cs, bp.Vs, nil, z, nil}
				diff, _, _, _ := s.batchFold(batchTuple{cs, bp.Vs, zero, z, nil})
				b.h = f.mul(diff, f.inv(f.sub(s.tau, z)))
				if !bp.H.Eq(e.o.mulG(b.h)) {
					c.Fail(e.N+"/BatchOpenSinglePoint/quotient-mismatch/race", "H differs from the oracle under concurrency")
				}
				s.batchVerify(s.vk, "honest/race", b, false)
				ts := []tup{s.validTuple(r, "random", "random", "random"), s.validTuple(r, "random", "random", "tau")}
				s.multiVerify(s.vk, "valid/race", ts, false, false, false)
			}
		}()
	}
	wg.Wait()
	if _, err := in.ToLagrangeG1(in.PkPoints(s.pk)[:32]); err != nil {
		c.Fail(e.N+"/ToLagrangeG1/unexpected-error", "%v", err)
	}
}
