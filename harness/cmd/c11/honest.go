package main

// Completeness: reference strings vs the oracle (secSRS), Commit / Open / Verify on honestly generated
// proofs for every polynomial length 1..size (secHonest), ToLagrangeG1 (secLagrange).

import (
	"errors"
	"fmt"
	"math/big"
	"os"
	"strings"

	"verif/harness/adapt/kzgs"
	"verif/harness/gen"
)

// selectedPrefix lets VERIF_ONLY name a section ("bn254/exact") or a bare section name ("exact").
func selectedPrefix(name string) bool {
	for _, p := range strings.Split(os.Getenv("VERIF_ONLY"), ",") {
		if p == "" {
			continue
		}
		if strings.HasPrefix(p, name+"/") {
			return true
		}
		isCurve := false
		for _, it := range kzgs.All {
			if strings.Contains(it.Name, p) || strings.HasPrefix(p, it.Name) {
				isCurve = true
			}
		}
		if !isCurve {
			return true
		}
	}
	return false
}

var tauClasses = []string{"random", "small", "1", "0", "r-1", "unreduced", "negative", "alpha=-1"}

func (e *env) secSRS() {
	c, in, N := e.c, e.in, e.N
	rng := e.rng("srs")
	// documented domain: "minimum srs size is 2"
	for _, size := range []uint64{0, 1} {
		var err error
		var srs any
		if c.Guard(fmt.Sprintf("%s/NewSRS/panic/size=%d", N, size), func() string { return fmt.Sprintf("NewSRS(%d, 5)", size) }, func() {
			srs, err = in.NewSRS(size, big.NewInt(5))
		}) {
			continue
		}
		c.Check("NewSRS", N+"/NewSRS/missing-error/size<2", err != nil && errors.Is(err, in.Errs["ErrMinSRSSize"]), func() string {
			return fmt.Sprintf("NewSRS(%d, 5) returned srs=%v err=%v, documented: ErrMinSRSSize", size, srs != nil, err)
		})
		c.Class(fmt.Sprintf("%s/NewSRS/size=%d/error", N, size))
	}
	sizes := []int{2, 3, 4, 17, 64}
	small := []int{2, 5}
	if c.Thorough() {
		sizes = append(sizes, 5, 8, 33, 256, 1000)
		small = []int{2, 3, 5, 16, 65}
	}
	for _, cls := range tauClasses {
		sz := small
		if cls == "random" {
			sz = sizes
		}
		for _, size := range sz {
			c.Current(fmt.Sprintf("%s srs %s size %d", N, cls, size))
			e.newSRS(rng, size, cls, true)
		}
	}
}

// mkPoly returns n coefficients of the named shape.
func (e *env) mkPoly(rng *gen.Rng, n int, shape string) []*big.Int {
	r := e.f.r
	p := make([]*big.Int, n)
	for i := range p {
		p[i] = new(big.Int)
	}
	nz := func() *big.Int {
		for {
			if v := rng.BigBelow(r); v.Sign() != 0 {
				return v
			}
		}
	}
	switch shape {
	case "dense", "rooted":
		for i := range p {
			p[i] = rng.BigBelow(r)
		}
		p[n-1] = nz()
	case "zero":
	case "const-padded":
		p[0] = nz()
	case "lead-zero":
		for i := 0; i < (n+1)/2; i++ {
			p[i] = rng.BigBelow(r)
		}
	case "sparse":
		p[0], p[n-1] = nz(), nz()
	case "maxcoef":
		for i := range p {
			p[i] = new(big.Int).Sub(r, one)
		}
	case "monomial":
		p[n-1] = big.NewInt(1)
	case "small-coef": // witness-like values: every coefficient below 2^12, all digits in the lowest window of the MSM
		for i := range p {
			p[i] = big.NewInt(int64(1 + rng.Intn(4093)))
		}
	case "runs": // long runs of one full-size value
		var v *big.Int
		for i := range p {
			if i%(n/7+1) == 0 {
				v = nz()
			}
			p[i] = v
		}
	default:
		panic("shape " + shape)
	}
	return p
}

func lenClass(n, size int) string {
	switch {
	case n == 1:
		return "len=1"
	case n == size:
		return "len=size"
	}
	return "1<len<size"
}

// zOf returns an evaluation point of the named class.
func (s *srsCtx) zOf(rng *gen.Rng, cls string) *big.Int {
	f := s.e.f
	switch cls {
	case "tau":
		return new(big.Int).Set(s.tau)
	case "tau+1":
		return f.add(s.tau, one)
	case "tau-1":
		return f.sub(s.tau, one)
	}
	return s.e.scalar(rng, cls)
}

// honest runs Commit, Open at every point class, Verify on one polynomial and compares each value with the oracle.
func (s *srsCtx) honest(rng *gen.Rng, p []*big.Int, shape string, root *big.Int, tamper bool) {
	e := s.e
	c, in, N, f := e.c, e.in, e.N, e.f
	n := len(p)
	lc := lenClass(n, s.size)
	poly := in.NewPoly(p)
	pdesc := func() string {
		ps := hxs(p)
		if len(ps) > 700 {
			ps = ps[:700] + "…"
		}
		return fmt.Sprintf("tau=%s [%s] size=%d len(p)=%d shape=%s p=%s", hx(s.tau), s.tauCls, s.size, n, shape, ps)
	}
	c.Current(N + " honest " + pdesc())
	cS := s.polyAtTau(p)
	wantC := e.o.mulG(cS)
	var C kzgs.Pt
	var err error
	if c.Guard(N+"/Commit/panic/"+lc, pdesc, func() { C, err = in.Commit(poly, s.pk) }) {
		return
	}
	if err != nil {
		c.Fail(N+"/Commit/unexpected-error/"+lc, "Commit: %v on %s", err, pdesc())
		return
	}
	commitOK := c.Check("Commit", N+"/Commit/value-mismatch/"+lc, C.Eq(wantC), func() string {
		return fmt.Sprintf("Commit = %v, oracle [p(tau)]G1 = %v, %s", C, wantC, pdesc())
	})
	c.Class(fmt.Sprintf("%s/Commit/%s/%s/tau:%s", N, lc, shape, s.tauCls))
	if n >= 2 && (n%7 == 0 || n == s.size) {
		for _, nt := range []int{1, 3} {
			var C2 kzgs.Pt
			if !c.Guard(N+"/Commit/panic/nbTasks", pdesc, func() { C2, err = in.Commit(poly, s.pk, nt) }) {
				c.Check("Commit", N+"/Commit/value-mismatch/nbTasks", err == nil && C2.Eq(wantC), func() string {
					return fmt.Sprintf("Commit(nbTasks=%d) = %v err=%v, oracle %v, %s", nt, C2, err, wantC, pdesc())
				})
			}
		}
	}
	zcls := []string{"0", "1", "r-1", "tau", "tau+1", "random"}
	if root != nil {
		zcls = append(zcls, "root")
		if !c.Thorough() && n > 3 && n < s.size { // quick: the dense polynomial of the same length takes the other classes
			zcls = []string{"root", "tau", "random"}
		}
	}
	type opened struct{ h, v, z *big.Int }
	var okTuples []opened
	for _, zc := range zcls {
		var z *big.Int
		if zc == "root" {
			z = root
		} else {
			z = s.zOf(rng, zc)
		}
		v := f.horner(p, z)
		q := f.quotient(p, z)
		h := f.horner(q, s.tau)
		wantH := e.o.mulG(h)
		odesc := func() string { return fmt.Sprintf("Open(p, z=%s [%s]) %s", hx(z), zc, pdesc()) }
		var pr kzgs.Proof
		if c.Guard(N+"/Open/panic/"+lc, odesc, func() { pr, err = in.Open(poly, z, s.pk) }) {
			continue
		}
		c.Class(fmt.Sprintf("%s/Open/%s/%s/z:%s", N, lc, shape, zc))
		if !c.Check("Open", N+"/Open/unexpected-error/"+lc, err == nil, func() string {
			return fmt.Sprintf("%s returned error %q; the oracle proof is (H=%v, v=%s)", odesc(), err, wantH, hx(v))
		}) {
			// the statement still has a proof: the oracle's one must verify
			s.verifyPts(s.vk, "oracle-proof/"+lc, wantC, wantH, cS, h, v, z)
			continue
		}
		okV := c.Check("Open", N+"/Open/claimed-value-mismatch/"+lc, pr.V.Cmp(v) == 0, func() string {
			return fmt.Sprintf("%s: ClaimedValue = %s, oracle p(z) = %s", odesc(), hx(pr.V), hx(v))
		})
		okH := c.Check("Open", N+"/Open/quotient-mismatch/"+lc, pr.H.Eq(wantH), func() string {
			return fmt.Sprintf("%s: H = %v, oracle [q(tau)]G1 = %v (q(tau) = %s)", odesc(), pr.H, wantH, hx(h))
		})
		if commitOK && okV && okH {
			// the library's own outputs, whose discrete logarithms the oracle now knows
			s.verifyPts(s.vk, "honest/z:"+zc, C, pr.H, cS, h, v, z)
			okTuples = append(okTuples, opened{h, v, z})
		} else {
			// completeness is about the library's outputs: they must verify whatever the oracle expected
			var verr error
			if !c.Guard(N+"/Verify/panic/honest", odesc, func() { verr = in.Verify(C, pr, z, s.vk) }) {
				s.used("Verify", s.vk)
				c.Check("Verify", N+"/Verify/false-reject/honest-unmodelled", verr == nil, func() string { return odesc() + ": " + fmt.Sprint(verr) })
			}
		}
	}
	after := in.PolyVals(poly)
	same := len(after) == n
	for i := 0; same && i < n; i++ {
		same = after[i].Cmp(p[i]) == 0
	}
	c.Check("Open", N+"/Open/input-polynomial-modified/"+lc, same, func() string {
		return fmt.Sprintf("the caller's coefficients changed during Commit/Open: now %s, %s", hxs(after), pdesc())
	})
	if tamper && len(okTuples) > 0 {
		t := okTuples[rng.Intn(len(okTuples))]
		d := big.NewInt(int64(1 + rng.Intn(5)))
		s.verifyScalars(s.vk, "honest-altered/value", cS, t.h, f.add(t.v, d), t.z)
		s.verifyScalars(s.vk, "honest-altered/point", cS, t.h, t.v, f.add(t.z, d))
		s.verifyScalars(s.vk, "honest-altered/quotient", cS, f.add(t.h, d), t.v, t.z)
		s.verifyScalars(s.vk, "honest-altered/commitment", f.add(cS, d), t.h, t.v, t.z)
	}
}

func (e *env) secHonest() {
	c, in, N := e.c, e.in, e.N
	rng := e.rng("honest")
	type sc struct {
		size int
		cls  string
	}
	// every trapdoor class gets a string; the largest strings get a generic trapdoor (distinct powers)
	sizes := []sc{{2, "alpha=-1"}, {3, "negative"}, {4, "unreduced"}, {17, "r-1"}, {64, "random"}}
	if c.Thorough() {
		sizes = append(sizes, sc{5, "small"}, sc{33, "1"}, sc{65, "0"}, sc{257, "random"}, sc{1024, "small"})
	}
	shapes := []string{"zero", "const-padded", "lead-zero", "sparse", "maxcoef", "monomial"}
	for _, sz := range sizes {
		size, cls := sz.size, sz.cls
		s := e.newSRS(rng, size, cls, false)
		if s == nil {
			continue
		}
		for n := 1; n <= size; n++ {
			if size > 300 && !(n <= 4 || n >= size-2 || n%97 == 0) {
				continue // sampled lengths for the largest string
			}
			p := e.mkPoly(rng, n, "dense")
			s.honest(rng, p, "dense", nil, n%3 == 0 || n <= 3 || n == size)
			// a polynomial with a known root, opened at the root
			root := rng.BigBelow(e.f.r)
			pr := e.mkPoly(rng, n, "rooted")
			pr[0] = e.f.sub(pr[0], e.f.horner(pr, root))
			s.honest(rng, pr, "rooted", root, false)
			if n <= 3 || n >= size-1 || n%16 == 0 {
				for _, sh := range shapes {
					if n == 1 && (sh == "lead-zero" || sh == "sparse") {
						continue
					}
					s.honest(rng, e.mkPoly(rng, n, sh), sh, nil, false)
				}
			}
		}
		// documented domain of Commit / Open: 0 < len(p) <= size
		for _, n := range []int{0, size + 1} {
			poly := in.NewPoly(e.mkPoly(rng, max(n, 1), "dense")[:n])
			var err error
			d := func() string { return fmt.Sprintf("len(p)=%d size=%d", n, size) }
			if !c.Guard(N+"/Commit/panic/out-of-domain", d, func() { _, err = in.Commit(poly, s.pk) }) {
				c.Check("Commit", N+"/Commit/missing-error/out-of-domain", errors.Is(err, in.Errs["ErrInvalidPolynomialSize"]), func() string { return d() + ": " + fmt.Sprint(err) })
			}
			if !c.Guard(N+"/Open/panic/out-of-domain", d, func() { _, err = in.Open(poly, big.NewInt(3), s.pk) }) {
				c.Check("Open", N+"/Open/missing-error/out-of-domain", errors.Is(err, in.Errs["ErrInvalidPolynomialSize"]), func() string { return d() + ": " + fmt.Sprint(err) })
			}
			c.Class(fmt.Sprintf("%s/Commit+Open/out-of-domain/len=%d", N, n))
		}
		// a proving key prefix is a proving key: polynomials that fit the prefix commit to the same values
		if size >= 4 {
			half := in.PkPrefix(s.pk, size/2)
			p := e.mkPoly(rng, size/2, "dense")
			var C kzgs.Pt
			var err error
			if !c.Guard(N+"/Commit/panic/prefix-key", func() string { return "prefix key" }, func() { C, err = in.Commit(in.NewPoly(p), half) }) {
				c.Check("Commit", N+"/Commit/value-mismatch/prefix-key", err == nil && C.Eq(e.o.mulG(s.polyAtTau(p))), func() string {
					return fmt.Sprintf("Commit with Pk.G1[:%d]: %v err=%v", size/2, C, err)
				})
			}
		}
		noteStat("verifications_through_shared_key_objects", N, float64(s.uses))
	}
	// strings long enough for the window sizes at which the multi-exponentiation behind Commit and Open balances its
	// work per window (more than 4096 points): odd and even lengths, coefficients that load a few windows only
	big := []int{5001}
	if c.Thorough() {
		big = append(big, 8193)
	}
	for _, size := range big {
		s := e.newSRS(rng, size, "random", false)
		if s == nil {
			continue
		}
		for _, n := range []int{size, size - 1, 4097} {
			for _, sh := range []string{"small-coef", "runs", "dense"} {
				if sh == "dense" && n != size {
					continue
				}
				s.honest(rng, e.mkPoly(rng, n, sh), sh, nil, false)
			}
		}
	}
}

// secLagrange: ToLagrangeG1(Pk.G1[:n])[i] = [L_i(tau)]G1 for the Lagrange basis of the order-n subgroup
// {w^i}; the oracle does not assume which primitive n-th root the library uses: it must be one of them.
func (e *env) secLagrange() {
	c, in, N, f := e.c, e.in, e.N, e.f
	rng := e.rng("lagrange")
	ns := []int{1, 2, 4, 8, 16}
	if c.Thorough() {
		ns = append(ns, 32, 64, 128)
	}
	s := e.newSRS(rng, ns[len(ns)-1], "random", false)
	if s == nil {
		return
	}
	pts := in.PkPoints(s.pk)
	// a generator of the 2-power torsion part large enough for the sizes used
	rm1 := new(big.Int).Sub(f.r, one)
	for _, n := range ns {
		d := func() string { return fmt.Sprintf("ToLagrangeG1(Pk.G1[:%d]) tau=%s", n, hx(s.tau)) }
		var out []kzgs.Pt
		var err error
		if c.Guard(fmt.Sprintf("%s/ToLagrangeG1/panic/n=%d", N, n), d, func() { out, err = in.ToLagrangeG1(pts[:n]) }) {
			continue
		}
		if err != nil || len(out) != n {
			c.Fail(N+"/ToLagrangeG1/unexpected-error", "%s: len=%d err=%v", d(), len(out), err)
			continue
		}
		// candidates: all primitive n-th roots of unity
		var w0 *big.Int
		if n > 1 {
			ex := new(big.Int).Div(rm1, big.NewInt(int64(n)))
			for g := int64(2); g < 500; g++ {
				w := new(big.Int).Exp(big.NewInt(g), ex, f.r)
				if f.exp(w, int64(n/2)).Cmp(rm1) == 0 {
					w0 = w
					break
				}
			}
			if w0 == nil {
				c.Inconclusive("%s: no primitive %d-th root of unity found", N, n)
				return
			}
		} else {
			w0 = big.NewInt(1)
		}
		lag := func(w *big.Int, i int) *big.Int { // L_i(tau) = (1/n) sum_j (tau / w^i)^j
			x := f.mul(s.tau, f.inv(f.exp(w, int64(i))))
			acc, pw := new(big.Int), big.NewInt(1)
			for j := 0; j < n; j++ {
				acc = f.add(acc, pw)
				pw = f.mul(pw, x)
			}
			return f.mul(acc, f.inv(big.NewInt(int64(n))))
		}
		var w *big.Int
		if n <= 2 {
			w = w0 // unique primitive root
		} else {
			for k := 1; k < n; k += 2 {
				cand := f.exp(w0, int64(k))
				if out[1].Eq(e.o.mulG(lag(cand, 1))) {
					w = cand
					break
				}
			}
		}
		if !c.Check("ToLagrangeG1", N+"/ToLagrangeG1/not-a-lagrange-basis", w != nil, func() string {
			return d() + ": out[1] is [L_1(tau)]G1 for no primitive n-th root of unity"
		}) {
			continue
		}
		for i := 0; i < n; i++ {
			want := e.o.mulG(lag(w, i))
			c.Check("ToLagrangeG1", N+"/ToLagrangeG1/value-mismatch", out[i].Eq(want), func() string {
				return fmt.Sprintf("%s: out[%d] = %v, oracle [L_%d(tau)]G1 = %v (w=%s)", d(), i, out[i], i, want, hx(w))
			})
		}
		c.Class(fmt.Sprintf("%s/ToLagrangeG1/n=%d", N, n))
	}
	// documented: "Size of coeffs must be a power of 2"
	var err error
	if !c.Guard(N+"/ToLagrangeG1/panic/n=3", func() string { return "n=3" }, func() { _, err = in.ToLagrangeG1(pts[:3]) }) {
		c.Check("ToLagrangeG1", N+"/ToLagrangeG1/missing-error/not-power-of-two", err != nil, func() string { return "n=3 accepted" })
	}
}
