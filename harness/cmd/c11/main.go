// C11: KZG completeness and exact acceptance with a known trapdoor, for the 7 pairing curves.
//
// Every reference string is produced by the library's NewSRS(size, tau) with tau chosen by the monitor and
// is validated against the oracle ([tau^i]G1, [tau]G2). Every group element handed to a verification routine
// is [k]G1 for a scalar k known to the oracle, so the expected verdict of each call is the scalar relation
// c - v = (tau - z) h (mod r) (see oracle.go). Honest paths (Commit / Open / BatchOpenSinglePoint) are compared
// value by value with the oracle and must verify; serialisation round trips must reproduce the objects and
// their behaviour; one verifying key object is reused across a whole run and must never change.
package main

import (
	"errors"
	"flag"
	"fmt"
	"math/big"
	"os"
	"runtime/pprof"
	"sync"
	"time"

	"verif/harness/adapt/kzgs"
	"verif/harness/gen"
	"verif/harness/mon"
)

var flagMode = flag.String("mode", "main", "main | race")

type env struct {
	c  *mon.Ctx
	in *kzgs.Inst
	N  string
	f  sf
	o  *g1o
	o2 *g2o
}

func (e *env) rng(section string) *gen.Rng { return gen.New(e.c.Seed, "c11/"+e.N+"/"+section) }

// scalar returns a scalar of the named class.
func (e *env) scalar(rng *gen.Rng, cls string) *big.Int {
	switch cls {
	case "0":
		return new(big.Int)
	case "1":
		return big.NewInt(1)
	case "2":
		return big.NewInt(2)
	case "r-1":
		return new(big.Int).Sub(e.f.r, one)
	case "small":
		return big.NewInt(int64(2 + rng.Intn(1000)))
	case "2^64":
		return new(big.Int).Lsh(one, 64)
	}
	return rng.BigBelow(e.f.r)
}

// srsCtx is one reference string with its trapdoor.
type srsCtx struct {
	e        *env
	tau      *big.Int
	tauCls   string
	size     int
	srs      any
	pk, vk   any
	pristine any        // value copy of the verifying key taken right after validation
	pows     []*big.Int // tau^i
	mu       sync.Mutex
	uses     int
}

// tauInput returns the alpha argument handed to NewSRS for a trapdoor class and the trapdoor it denotes
// (nil when it has to be read off the reference string: the documented alpha = -1 shortcut).
func (e *env) tauInput(rng *gen.Rng, cls string) (alpha, tau *big.Int) {
	r := e.f.r
	switch cls {
	case "random":
		t := rng.BigBelow(r)
		return t, t
	case "small":
		t := big.NewInt(int64(2 + rng.Intn(1000)))
		return t, t
	case "1":
		return big.NewInt(1), big.NewInt(1)
	case "0":
		return big.NewInt(0), big.NewInt(0)
	case "r-1":
		t := new(big.Int).Sub(r, one)
		return t, t
	case "unreduced": // alpha = tau + r: NewSRS reduces its randomness source into Fr
		t := rng.BigBelow(r)
		return new(big.Int).Add(t, r), t
	case "negative": // alpha = -k, k != 1: tau = r - k
		k := big.NewInt(int64(2 + rng.Intn(1000)))
		return new(big.Int).Neg(k), new(big.Int).Sub(r, k)
	case "alpha=-1": // documented: "Set Alpha = -1 to generate quickly a balanced, valid SRS": alpha of order 4
		return big.NewInt(-1), nil
	}
	panic("tau class " + cls)
}

// newSRS builds a reference string through the library and validates it against the oracle.
// full = false checks only the first three and the last power (the srs section checks every power).
func (e *env) newSRS(rng *gen.Rng, size int, cls string, full bool) *srsCtx {
	c, in, N := e.c, e.in, e.N
	alpha, tau := e.tauInput(rng, cls)
	var srs any
	var err error
	desc := func() string { return fmt.Sprintf("NewSRS(size=%d, alpha=%s) [%s]", size, alpha, cls) }
	if c.Guard(N+"/NewSRS/panic/"+cls, desc, func() { srs, err = in.NewSRS(uint64(size), alpha) }) {
		return nil
	}
	if err != nil || srs == nil {
		c.Fail(N+"/NewSRS/unexpected-error/"+cls, "%s: %v", desc(), err)
		return nil
	}
	s := &srsCtx{e: e, tauCls: cls, size: size, srs: srs, pk: in.Pk(srs), vk: in.Vk(srs)}
	pts := in.PkPoints(s.pk)
	if !c.Check("NewSRS", N+"/NewSRS/wrong-size", len(pts) == size, func() string { return fmt.Sprintf("%s: %d G1 points", desc(), len(pts)) }) {
		return nil
	}
	if tau == nil { // alpha = -1: one of the two elements of order 4
		a, b, ok := e.f.order4()
		if !ok {
			c.Inconclusive("%s: oracle found no element of order 4", N)
			return nil
		}
		switch {
		case pts[1].Eq(e.o.mulG(a)):
			tau = a
		case pts[1].Eq(e.o.mulG(b)):
			tau = b
		default:
			c.Fail(N+"/NewSRS/alpha=-1/not-order-4", "%s: Pk.G1[1] is neither [i]G1 nor [-i]G1 for i^2 = -1", desc())
			return nil
		}
		c.Eval("NewSRS", 1)
	}
	s.tau = tau
	s.pows = make([]*big.Int, size)
	s.pows[0] = big.NewInt(1)
	for i := 1; i < size; i++ {
		s.pows[i] = e.f.mul(s.pows[i-1], tau)
	}
	okAll := true
	for i := 0; i < size; i++ {
		if !full && i > 2 && i != size-1 {
			continue
		}
		want := e.o.mulG(s.pows[i])
		okAll = c.Check("NewSRS", N+"/NewSRS/power-mismatch/"+cls, pts[i].Eq(want), func() string {
			return fmt.Sprintf("%s: Pk.G1[%d] = %v, oracle [tau^%d]G1 = %v (tau=%s)", desc(), i, pts[i], i, want, hx(tau))
		}) && okAll
	}
	g1, g2 := in.VkPoints(s.vk)
	okAll = c.Check("NewSRS", N+"/NewSRS/vk-g1-mismatch/"+cls, g1.Eq(in.G1), func() string { return desc() + ": Vk.G1 is not the generator" }) && okAll
	okAll = c.Check("NewSRS", N+"/NewSRS/vk-g2-mismatch/"+cls, e.o2.eq(e.o2.G, g2[0]), func() string { return desc() + ": Vk.G2[0] is not the generator" }) && okAll
	wantG2 := e.o2.C.Mul(e.o2.G, tau)
	okAll = c.Check("NewSRS", N+"/NewSRS/vk-g2-mismatch/"+cls, e.o2.eq(wantG2, g2[1]), func() string {
		return fmt.Sprintf("%s: Vk.G2[1] != oracle [tau]G2 (tau=%s)", desc(), hx(tau))
	}) && okAll
	okAll = c.Check("NewSRS", N+"/NewSRS/vk-lines-mismatch/"+cls, in.VkLinesOK(s.vk), func() string {
		return desc() + ": Vk.Lines[k] != PrecomputeLines(Vk.G2[k])"
	}) && okAll
	c.Class(fmt.Sprintf("%s/NewSRS/%s/size=%d", N, cls, size))
	if !okAll {
		return nil // the trapdoor model does not describe this string; the mismatch is already recorded
	}
	s.pristine = in.CloneVk(s.vk)
	return s
}

// polyAtTau evaluates p at the trapdoor.
func (s *srsCtx) polyAtTau(p []*big.Int) *big.Int { return s.e.f.horner(p, s.tau) }

// holds is the oracle's decision for the tuple (C = [c]G1, H = [h]G1, v, z).
func (s *srsCtx) holds(cS, h, v, z *big.Int) bool {
	f := s.e.f
	return f.sub(cS, v).Cmp(f.mul(f.sub(s.tau, z), h)) == 0
}

// used records one more use of a verifying key object and checks that the call left it untouched.
func (s *srsCtx) used(op string, vk any) {
	s.mu.Lock()
	s.uses++
	s.mu.Unlock()
	if !s.e.in.VkEqual(vk, s.pristine) {
		s.e.c.Fail(s.e.N+"/VerifyingKey/modified-by/"+op, "the verifying key differs from its pristine copy after a call to %s (use #%d, tau=%s)", op, s.uses, hx(s.tau))
	}
}

// verdict compares the outcome of one verification call with the oracle decision.
func (s *srsCtx) verdict(op, cls string, err error, want bool, desc func() string) {
	c, N := s.e.c, s.e.N
	if errors.Is(err, kzgs.ErrInputModified) {
		c.Fail(N+"/"+op+"/input-modified/"+cls, "%s", desc())
		return
	}
	got := err == nil
	kind := "false-accept"
	if want {
		kind = "false-reject"
	}
	c.Check(op, N+"/"+op+"/"+kind+"/"+cls, got == want, func() string {
		return fmt.Sprintf("%s: library error = %v, oracle decision accept = %v", desc(), err, want)
	})
	w := "reject"
	if want {
		w = "accept"
	}
	c.Class(N + "/" + op + "/" + cls + "/" + w)
	if _, seen := sampled.LoadOrStore(op+"/"+w, true); !seen {
		c.SampleOnce(op+"/"+w, map[string]any{"instance": N, "class": cls, "case": desc(), "library_error": fmt.Sprint(err), "oracle_accepts": want})
	}
}

var sampled sync.Map

// stats collects per-instance figures that end up as one evidence entry each.
var (
	statMu sync.Mutex
	stats  = map[string]map[string]float64{}
)

func noteStat(group, key string, v float64) {
	statMu.Lock()
	if stats[group] == nil {
		stats[group] = map[string]float64{}
	}
	stats[group][key] += v
	statMu.Unlock()
}

// verifyPts calls Verify on explicit points whose discrete logarithms are (cS, h).
func (s *srsCtx) verifyPts(vk any, cls string, C, H kzgs.Pt, cS, h, v, z *big.Int) {
	e := s.e
	want := s.holds(cS, h, v, z)
	desc := func() string {
		return fmt.Sprintf("Verify(C=[c]G1, {H=[h]G1, v}, z) tau=%s c=%s h=%s v=%s z=%s [size=%d tau:%s]", hx(s.tau), hx(cS), hx(h), hx(v), hx(z), s.size, s.tauCls)
	}
	var err error
	if e.c.Guard(e.N+"/Verify/panic/"+cls, desc, func() { err = e.in.Verify(C, kzgs.Proof{H: H, V: v}, z, vk) }) {
		return
	}
	s.used("Verify", vk)
	s.verdict("Verify", cls, err, want, desc)
}

// verifyScalars builds the points with the oracle.
func (s *srsCtx) verifyScalars(vk any, cls string, cS, h, v, z *big.Int) {
	s.verifyPts(vk, cls, s.e.o.mulG(cS), s.e.o.mulG(h), cS, h, v, z)
}

func runCurve(c *mon.Ctx, in *kzgs.Inst) {
	e := &env{c: c, in: in, N: in.Name, f: sf{in.R}}
	var err error
	if e.o, err = newG1(in); err != nil {
		c.Inconclusive("%s: oracle G1 does not validate: %v", in.Name, err)
		return
	}
	if e.o2, err = newG2(in); err != nil {
		c.Inconclusive("%s: oracle G2 does not validate: %v", in.Name, err)
		return
	}
	secs := []struct {
		name string
		fn   func()
	}{
		{"srs", e.secSRS}, {"honest", e.secHonest}, {"exact", e.secExact}, {"batch", e.secBatch},
		{"multi", e.secMulti}, {"serial", e.secSerial}, {"mpc", e.secMpc}, {"lagrange", e.secLagrange}, {"foreign", e.secForeign},
	}
	if *flagMode == "race" {
		secs = secs[:0]
		secs = append(secs, struct {
			name string
			fn   func()
		}{"race", e.secRace})
	}
	var wg sync.WaitGroup
	for _, s := range secs {
		if !mon.Selected(in.Name + "/" + s.name) {
			continue
		}
		wg.Add(1)
		s := s
		go func() {
			defer wg.Done()
			defer func() {
				if r := recover(); r != nil {
					c.Fail(in.Name+"/harness/panic/"+s.name, "panic outside a guarded call: %v", r)
				}
			}()
			t0 := time.Now()
			s.fn()
			noteStat("section_wall_s", in.Name+"/"+s.name, float64(int(time.Since(t0).Seconds()*10))/10) // informative only
		}()
	}
	wg.Wait()
}

func main() {
	c := mon.Init("C11")
	if pf := os.Getenv("C11_CPUPROFILE"); pf != "" { // debugging aid, never set by the driver
		if f, err := os.Create(pf); err == nil {
			_ = pprof.StartCPUProfile(f)
			defer pprof.StopCPUProfile()
		}
	}
	var wg sync.WaitGroup
	for _, it := range kzgs.All {
		if !mon.Selected(it.Name) && !selectedPrefix(it.Name) {
			continue
		}
		wg.Add(1)
		it := it
		go func() {
			defer wg.Done()
			defer func() {
				if r := recover(); r != nil {
					c.Fail(it.Name+"/harness/panic", "panic outside a guarded call: %v", r)
				}
			}()
			runCurve(c, it.New())
		}()
	}
	wg.Wait()
	pprof.StopCPUProfile()
	statMu.Lock()
	for k, v := range stats {
		c.Extra(k, v)
	}
	statMu.Unlock()
	c.Finish()
}
