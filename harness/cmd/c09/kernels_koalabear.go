package main

import (
	"bytes"
	"crypto/sha256"
	"fmt"
	"sync"

	fr "github.com/consensys/gnark-crypto/field/koalabear"
	ext "github.com/consensys/gnark-crypto/field/koalabear/extensions"
	"github.com/consensys/gnark-crypto/field/koalabear/fft"
	"github.com/consensys/gnark-crypto/field/koalabear/poseidon2"
	"github.com/consensys/gnark-crypto/field/koalabear/sis"

	"verif/harness/gen"
	"verif/harness/mon"
	"verif/harness/mon/efence"
)

// kernelsKoalabear: FFT kernels, Poseidon2 permutations, SIS, MulAccE4 of field/koalabear (AVX-512 vs generic).
func kernelsKoalabear(c *mon.Ctx) {
	const N = "field/koalabear"
	rng := gen.New(c.Seed, "c09k/"+N)
	q := fr.Modulus()
	rnd := func(n int) []fr.Element {
		v := make([]fr.Element, n)
		for i := range v {
			switch i % 7 {
			case 0:
				v[i].SetBigInt(q).Sub(&v[i], &fr.Element{}) // 0
			case 1:
				v[i].SetOne().Neg(&v[i]) // q-1
			default:
				v[i].SetBigInt(rng.BigBelow(q))
			}
		}
		return v
	}
	// FFT: every size 2^0..2^maxLog, both decimations, coset on/off, nbTasks 1 and 4, fenced buffers
	maxLog := c.Pick(13, 16)
	for lg := 0; lg <= maxLog; lg++ {
		n := 1 << lg
		d := fft.NewDomain(uint64(n))
		dnp := fft.NewDomain(uint64(n), fft.WithoutPrecompute())
		src := rnd(n)
		for di, dom := range []*fft.Domain{d, dnp} {
			for _, dec := range []fft.Decimation{fft.DIF, fft.DIT} {
				for coset := 0; coset < 2; coset++ {
					for _, nbt := range []int{1, 4} {
						if lg > 10 && nbt == 4 && coset == 1 && !c.Thorough() {
							continue
						}
						var regs []*efence.Region
						a := fenced(&regs, src, (lg+coset)%2 == 0)
						opts := []fft.Option{fft.WithNbTasks(nbt)}
						if coset == 1 {
							opts = append(opts, fft.OnCoset())
						}
						rec(c, fmt.Sprintf("%s/FFT/log%d/precomp%d/dec%d/coset%d/tasks%d", N, lg, di, dec, coset, nbt), func() []byte {
							dom.FFT(a, dec, opts...)
							return rawBytes(a)
						})
						rec(c, fmt.Sprintf("%s/FFTInverse/log%d/precomp%d/dec%d/coset%d/tasks%d", N, lg, di, dec, coset, nbt), func() []byte {
							dom.FFTInverse(a, dec, opts...)
							return rawBytes(a)
						})
						for _, r := range regs {
							r.Free()
						}
					}
				}
			}
		}
		c.Class(fmt.Sprintf("%s/FFT/log%d", N, lg))
	}
	// large domains: the vector kernels count blocks of 16 elements in registers, and butterfly layers of 2^20 elements
	// and more only exist from 2^21 points on; digests of the outputs are recorded
	bigLogs := []int{21}
	if c.Thorough() {
		bigLogs = append(bigLogs, 22, 23)
	}
	for _, lg := range bigLogs {
		n := 1 << lg
		d := fft.NewDomain(uint64(n))
		src := rnd(n)
		for _, dec := range []fft.Decimation{fft.DIF, fft.DIT} {
			for _, nbt := range []int{1, 4} {
				a := append([]fr.Element(nil), src...)
				rec(c, fmt.Sprintf("%s/FFT/log%d/dec%d/tasks%d/digest", N, lg, dec, nbt), func() []byte {
					d.FFT(a, dec, fft.WithNbTasks(nbt))
					h := sha256.Sum256(rawBytes(a))
					return h[:]
				})
				rec(c, fmt.Sprintf("%s/FFTInverse/log%d/dec%d/tasks%d/digest", N, lg, dec, nbt), func() []byte {
					d.FFTInverse(a, dec, fft.WithNbTasks(nbt))
					h := sha256.Sum256(rawBytes(a))
					return h[:]
				})
			}
		}
		c.Class(fmt.Sprintf("%s/FFT/log%d", N, lg))
	}
	// Poseidon2 permutations: the two AVX-512 parameter sets, other parameter sets, the 16x24 batch kernel
	for _, ps := range [][3]int{{16, 6, 21}, {24, 6, 21}, {16, 8, 13}, {24, 8, 21}, {16, 6, 12}, {24, 4, 9}} {
		h := poseidon2.NewPermutation(ps[0], ps[1], ps[2])
		for k := 0; k < c.Pick(20, 200); k++ {
			var regs []*efence.Region
			in := fenced(&regs, rnd(ps[0]), k%2 == 0)
			if k == 0 {
				for i := range in {
					in[i].SetZero()
				}
			}
			rec(c, fmt.Sprintf("%s/Poseidon2.Permutation/t%d-rf%d-rp%d/%d", N, ps[0], ps[1], ps[2], k), func() []byte {
				if err := h.Permutation(in); err != nil {
					return []byte("error:" + err.Error())
				}
				return rawBytes(in)
			})
			for _, r := range regs {
				r.Free()
			}
		}
		if ps[0] >= 2 && ps[0]%2 == 0 {
			for k := 0; k < 8; k++ {
				l, r := rnd(ps[0]/2), rnd(ps[0]/2)
				lb, rb := make([]byte, 0, 4*len(l)), make([]byte, 0, 4*len(r))
				for i := range l {
					b1, b2 := l[i].Bytes(), r[i].Bytes()
					lb, rb = append(lb, b1[:]...), append(rb, b2[:]...)
				}
				rec(c, fmt.Sprintf("%s/Poseidon2.Compress/t%d-rf%d-rp%d/%d", N, ps[0], ps[1], ps[2], k), func() []byte {
					out, err := h.Compress(lb, rb)
					if err != nil {
						return []byte("error:" + err.Error())
					}
					return out
				})
			}
		}
		c.Class(fmt.Sprintf("%s/Poseidon2/t%d-rf%d-rp%d", N, ps[0], ps[1], ps[2]))
	}
	// one permutation object used by several goroutines at once (how the Vortex package uses its package-level
	// permutations): a kernel that keeps scratch state in the object instead of in registers or on the stack only
	// differs from the other builds here. Every goroutine works on its own inputs; outputs are recorded per goroutine.
	for _, ps := range [][3]int{{16, 6, 21}, {24, 6, 21}, {16, 8, 13}, {24, 8, 21}, {16, 6, 12}} {
		h := poseidon2.NewPermutation(ps[0], ps[1], ps[2])
		const G, K = 8, 40
		ins := make([][][]fr.Element, G)
		outs := make([][][]byte, G)
		for g := range ins {
			ins[g] = make([][]fr.Element, K)
			outs[g] = make([][]byte, K)
			for k := range ins[g] {
				ins[g][k] = rnd(ps[0])
			}
		}
		var wg sync.WaitGroup
		for g := 0; g < G; g++ {
			wg.Add(1)
			go func(g int) {
				defer wg.Done()
				for k := 0; k < K; k++ {
					v := append([]fr.Element(nil), ins[g][k]...)
					if err := h.Permutation(v); err != nil {
						outs[g][k] = []byte("error:" + err.Error())
						continue
					}
					outs[g][k] = rawBytes(v)
				}
			}(g)
		}
		wg.Wait()
		for g := 0; g < G; g++ {
			for k := 0; k < K; k++ {
				o := outs[g][k]
				rec(c, fmt.Sprintf("%s/Poseidon2.Permutation/shared-object/t%d-rf%d-rp%d/g%d/%d", N, ps[0], ps[1], ps[2], g, k), func() []byte { return o })
			}
		}
		// the same inputs once more, sequentially: a build whose concurrent results differ from its own sequential ones
		for g := 0; g < G; g += 3 {
			for k := 0; k < K; k += 7 {
				v := append([]fr.Element(nil), ins[g][k]...)
				h.Permutation(v)
				c.Check("Poseidon2", fmt.Sprintf("%s/Poseidon2.Permutation/shared-object/concurrent-differs-from-sequential/t%d-rf%d-rp%d", N, ps[0], ps[1], ps[2]), bytes.Equal(rawBytes(v), outs[g][k]), func() string {
					return fmt.Sprintf("goroutine %d input %d", g, k)
				})
			}
		}
	}
	// parameter grid through both constructors: the vectorised kernels are specialised for a few (width, rounds)
	// triples and selected by flags computed in the constructors; every other triple must take the portable rounds
	for _, t := range []int{16, 24} {
		for _, rf := range []int{6, 8} {
			for _, rp := range []int{12, 13, 19, 20, 21, 22, 23} {
				for ctor := 0; ctor < 2; ctor++ {
					if !c.Thorough() && (t+rf+rp+ctor)%2 == 1 && rp != 21 && rp != 22 {
						continue
					}
					var h *poseidon2.Permutation
					name := "NewPermutation"
					if ctor == 1 {
						name = "NewPermutationWithSeed"
						h = poseidon2.NewPermutationWithSeed(t, rf, rp, "c09-grid-seed")
					} else {
						h = poseidon2.NewPermutation(t, rf, rp)
					}
					for k := 0; k < 3; k++ {
						in := rnd(t)
						rec(c, fmt.Sprintf("%s/Poseidon2.Permutation/grid/%s/t%d-rf%d-rp%d/%d", N, name, t, rf, rp, k), func() []byte {
							if err := h.Permutation(in); err != nil {
								return []byte("error:" + err.Error())
							}
							return rawBytes(in)
						})
					}
				}
			}
		}
	}
	c.Class(N + "/Poseidon2/parameter-grid")
	{
		h := poseidon2.NewPermutation(16, 6, 21)
		for k := 0; k < c.Pick(6, 40); k++ {
			var in [24][16]fr.Element
			for i := range in {
				copy(in[i][:], rnd(16))
			}
			rec(c, fmt.Sprintf("%s/Poseidon2.Permutation16x24/%d", N, k), func() []byte {
				h.Permutation16x24(&in)
				var out []byte
				for i := range in {
					out = append(out, rawBytes(in[i][:])...)
				}
				return out
			})
		}
		c.Class(N + "/Poseidon2.Permutation16x24")
	}
	// SIS: the AVX-512 parameter set (degree 512, 16-bit limbs) and generic ones, every input length class
	for _, ps := range [][2]int{{9, 16}, {9, 8}, {6, 16}, {6, 8}, {3, 8}, {1, 16}, {8, 16}} {
		maxN := 1 << 10
		s, err := sis.NewRSis(5, ps[0], ps[1], maxN)
		if err != nil {
			tr.put(fmt.Sprintf("%s/SIS/log%d-b%d/constructor", N, ps[0], ps[1]), []byte(err.Error()))
			continue
		}
		// the exported key material (the polynomials and their evaluation form): the same in every build, whatever
		// private tables the vector code derives from it
		keyDigest := func() []byte {
			h := sha256.New()
			for i := range s.A {
				h.Write(rawBytes(s.A[i]))
				h.Write(rawBytes(s.Ag[i]))
			}
			return h.Sum(nil)
		}
		rec(c, fmt.Sprintf("%s/SIS/log%d-b%d/exported-A-and-Ag/after-NewRSis", N, ps[0], ps[1]), keyDigest)
		defer rec(c, fmt.Sprintf("%s/SIS/log%d-b%d/exported-A-and-Ag/after-hashing", N, ps[0], ps[1]), keyDigest)
		for _, n := range []int{0, 1, 2, 3, 127, 128, 129, 255, 256, 257, 511, 512, 513, 1000, 1024} {
			var regs []*efence.Region
			v := fenced(&regs, rnd(n), n%2 == 0)
			res := fenced(&regs, make([]fr.Element, s.Degree), n%2 == 1)
			rec(c, fmt.Sprintf("%s/SIS.Hash/log%d-b%d/n%d", N, ps[0], ps[1], n), func() []byte {
				if err := s.Hash(v, res); err != nil {
					return []byte("error:" + err.Error())
				}
				return rawBytes(res)
			})
			for _, r := range regs {
				r.Free()
			}
		}
		// a destination that already holds a digest (or anything else): the result is that of a fresh destination
		for _, n := range []int{0, 1, 256, 1000} {
			v := rnd(n)
			fresh := make([]fr.Element, s.Degree)
			used := rnd(s.Degree)
			key := fmt.Sprintf("%s/SIS.Hash/log%d-b%d/used-destination/n%d", N, ps[0], ps[1], n)
			var e1, e2 error
			rec(c, key, func() []byte {
				e1 = s.Hash(v, fresh)
				e2 = s.Hash(v, used)
				if e1 != nil || e2 != nil {
					return []byte(fmt.Sprintf("error:%v / %v", e1, e2))
				}
				return rawBytes(used)
			})
			c.Check("SIS.Hash", key+"/differs-from-fresh-destination", (e1 == nil) == (e2 == nil) && (e1 != nil || bytes.Equal(rawBytes(used), rawBytes(fresh))), func() string {
				return fmt.Sprintf("%s: Hash of %d elements into a destination holding other values: err=%v, into a zeroed destination: err=%v; first words %x vs %x", key, n, e2, e1, rawBytes(used[:1]), rawBytes(fresh[:1]))
			})
		}
		// sparse inputs: runs of zero elements aligned / not aligned with the 256-element blocks
		for si, zr := range [][2]int{{0, 256}, {256, 512}, {0, 512}, {100, 400}, {512, 768}, {255, 257}, {0, 1000}} {
			v := rnd(1000)
			for i := zr[0]; i < zr[1] && i < len(v); i++ {
				v[i].SetZero()
			}
			res := make([]fr.Element, s.Degree)
			rec(c, fmt.Sprintf("%s/SIS.Hash/log%d-b%d/sparse%d", N, ps[0], ps[1], si), func() []byte {
				if err := s.Hash(v, res); err != nil {
					return []byte("error:" + err.Error())
				}
				return rawBytes(res)
			})
		}
		c.Class(fmt.Sprintf("%s/SIS/log%d-b%d", N, ps[0], ps[1]))
	}
	// MulAccE4
	for _, n := range []int{0, 1, 3, 4, 5, 8, 15, 16, 17, 64, 100} {
		var alpha ext.E4
		al := rnd(4)
		alpha.B0.A0, alpha.B0.A1, alpha.B1.A0, alpha.B1.A1 = al[0], al[1], al[2], al[3]
		var regs []*efence.Region
		scale := fenced(&regs, rnd(n), true)
		r4 := rnd(4 * n)
		resv := make([]ext.E4, n)
		for i := range resv {
			resv[i].B0.A0, resv[i].B0.A1, resv[i].B1.A0, resv[i].B1.A1 = r4[4*i], r4[4*i+1], r4[4*i+2], r4[4*i+3]
		}
		res := fenced(&regs, resv, true)
		rec(c, fmt.Sprintf("%s/MulAccE4/n%d", N, n), func() []byte {
			ext.MulAccE4(&alpha, scale, res)
			return rawBytes(res)
		})
		for _, r := range regs {
			r.Free()
		}
	}
	c.Class(N + "/MulAccE4")
}
