package main

import "verif/harness/mon"

func smallFieldKernels(c *mon.Ctx) {
	if mon.Selected("field/koalabear") {
		kernelsKoalabear(c)
	}
	if mon.Selected("field/babybear") {
		kernelsBabybear(c)
	}
}
