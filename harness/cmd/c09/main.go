// C09: results do not depend on the CPU-specific code path. The same seeded workload is run by four builds
// (default assembly, -tags noadx, -tags noavx, -tags purego); each writes a transcript
// (case id -> digest of the byte-exact outputs, or "panic"); the compare stage aligns the transcripts.
// Vector / kernel inputs and outputs live in guard-page fenced memory.
package main

import (
	"bufio"
	"crypto/sha256"
	"encoding/hex"
	"flag"
	"fmt"
	"math/big"
	"os"
	"reflect"
	"sort"
	"strings"
	"sync"
	"sync/atomic"
	"unsafe"

	"verif/harness/adapt/fields"
	"verif/harness/adapt/towers"
	"verif/harness/adapt/towertypes"
	"verif/harness/gen"
	"verif/harness/mon"
	"verif/harness/mon/efence"
	"verif/harness/oracle/ofield"
)

var (
	mode   = flag.String("mode", "run", "run | compare")
	trFile = flag.String("transcript", "", "transcript file to write (run) ")
	files  = flag.String("files", "", "comma separated name=path transcripts (compare)")
)

type transcript struct {
	mu sync.Mutex
	m  map[string]string
}

func (t *transcript) put(id string, data []byte) {
	h := sha256.Sum256(data)
	t.mu.Lock()
	t.m[id] = hex.EncodeToString(h[:10])
	t.mu.Unlock()
}
func (t *transcript) panicked(id string, v any) {
	t.mu.Lock()
	t.m[id] = "panic"
	t.mu.Unlock()
}

var tr = &transcript{m: map[string]string{}}

// rec runs fn (which returns the output bytes) and records digest or panic.
func rec(c *mon.Ctx, id string, fn func() []byte) {
	var out []byte
	p, v := mon.Try(func() { out = fn() })
	c.Eval("case", 1)
	if p {
		tr.panicked(id, v)
		return
	}
	tr.put(id, out)
}

var fenceSeq atomic.Int64

func rawBytes[E any](v []E) []byte {
	if len(v) == 0 {
		return nil
	}
	n := len(v) * int(unsafe.Sizeof(v[0]))
	return append([]byte(nil), unsafe.Slice((*byte)(unsafe.Pointer(&v[0])), n)...)
}

// fenced returns a slice of n elements placed flush against a guard page (at the end or at the start),
// initialised from src.
//
// Every third buffer is instead placed 1..3 elements after the start of the region: buffers flush against a page
// are 64-byte aligned whenever their length is a multiple of 16 words, which is exactly what the Go allocator
// gives to the library's own tests; vector kernels must also work on sub-slices (aligned-move instructions fault
// on them, which kills the process and shows as a crash of the default build only).
func fenced[E any](regs *[]*efence.Region, src []E, atEnd bool) []E {
	var z E
	sz := int(unsafe.Sizeof(z))
	r, err := efence.New(len(src)*sz + 64 + 3*sz)
	if err != nil {
		panic(err)
	}
	*regs = append(*regs, r)
	var b []byte
	seq := int(fenceSeq.Add(1))
	switch {
	case seq%3 == 0:
		k := 1 + (seq/3)%3
		b = r.AtStart((len(src) + k) * sz)[k*sz:]
	case atEnd:
		b = r.AtEnd(len(src) * sz)
	default:
		b = r.AtStart(len(src) * sz)
	}
	s := efence.Slice[E](b, len(src))
	copy(s, src)
	return s
}

func run[E any, P fields.Ptr[E]](c *mon.Ctx, f *fields.Field[E, P]) {
	N := f.Name
	rng := gen.New(c.Seed, "c09/"+N)
	L := fields.Lattice(f, rng, c.Pick(10, 40), c.Thorough())
	els := make([]E, len(L.V))
	for i, v := range L.V {
		els[i] = f.FromValue(v)
	}
	one := func(e *E) []byte { return rawBytes([]E{*e}) }
	// element-level routines with several implementations
	for i := range els {
		x := els[i]
		id := func(op string) string { return fmt.Sprintf("%s/%s/%d", N, op, i) }
		rec(c, id("Square"), func() []byte { var z E; P(&z).Square(&x); return one(&z) })
		rec(c, id("Bits"), func() []byte { return []byte(fmt.Sprint(f.BitsOf(&x))) })
		rec(c, id("Bytes"), func() []byte { return f.BytesOf(&x) })
		rec(c, id("MulBy3"), func() []byte { z := x; f.MulBy3(&z); return one(&z) })
		rec(c, id("MulBy5"), func() []byte { z := x; f.MulBy5(&z); return one(&z) })
		rec(c, id("MulBy13"), func() []byte { z := x; f.MulBy13(&z); return one(&z) })
		rec(c, id("Inverse"), func() []byte { var z E; P(&z).Inverse(&x); return one(&z) })
		rec(c, id("Halve"), func() []byte { z := x; P(&z).Halve(); return one(&z) })
		rec(c, id("Sqrt"), func() []byte {
			var z E
			if P(&z).Sqrt(&x) == nil {
				return []byte("nil")
			}
			// either root is acceptable mathematically, but all code paths must return the same one
			return one(&z)
		})
		rec(c, id("SetBigInt"), func() []byte { var z E; P(&z).SetBigInt(L.V[i]); return one(&z) })
		rec(c, id("String"), func() []byte { return []byte(P(&x).String()) })
		if f.Mul2ExpNegN != nil {
			rec(c, id("Mul2ExpNegN"), func() []byte { var z E; f.Mul2ExpNegN(&z, &x, uint32(i%33)); return one(&z) })
		}
	}
	c.Class(N + "/unary")
	step := 1
	if len(els) > 60 && !c.Thorough() {
		step = 2
	}
	for i := 0; i < len(els); i += step {
		for j := 0; j < len(els); j += step {
			x, y := els[i], els[j]
			id := func(op string) string { return fmt.Sprintf("%s/%s/%d,%d", N, op, i, j) }
			rec(c, id("Mul"), func() []byte { var z E; P(&z).Mul(&x, &y); return one(&z) })
			rec(c, id("Add"), func() []byte { var z E; P(&z).Add(&x, &y); return one(&z) })
			rec(c, id("Sub"), func() []byte { var z E; P(&z).Sub(&x, &y); return one(&z) })
			rec(c, id("Butterfly"), func() []byte { a, b := x, y; f.Butterfly(&a, &b); return rawBytes([]E{a, b}) })
		}
	}
	c.Class(N + "/binary")
	// vectors: all lengths crossing block sizes and tails, all sub-slice alignments, fenced memory
	var lens []int
	for n := 0; n <= 70; n++ {
		lens = append(lens, n)
	}
	for _, r := range [][2]int{{111, 129}, {255, 257}, {511, 513}} {
		for n := r[0]; n <= r[1]; n++ {
			lens = append(lens, n)
		}
	}
	if c.Thorough() {
		lens = append(lens, 1023, 1024, 1025, 4099)
	}
	maxN := lens[len(lens)-1] + 4
	srcA, srcB := make([]E, maxN), make([]E, maxN)
	for i := range srcA {
		srcA[i] = els[(i*7+3)%len(els)]
		srcB[i] = els[(i*11+5)%len(els)]
		if i%5 == 0 {
			srcA[i] = f.FromValue(new(big.Int).Sub(f.Modulus, big.NewInt(1)))
			srcB[i] = srcA[i]
		}
		if i%3 == 1 {
			srcA[i] = f.FromValue(rng.BigBelow(f.Modulus))
			srcB[i] = f.FromValue(rng.BigBelow(f.Modulus))
		}
	}
	// long vectors: the vectorised reductions keep unreduced partial sums and fold them with a precomputed constant; an
	// error there grows with the length and stays hidden at the lengths above
	longLens := []int{8192, 20000, 100003}
	if c.Thorough() {
		longLens = append(longLens, 400000, 1 << 20)
	}
	for _, n := range longLens {
		a, b := make([]E, n), make([]E, n)
		for i := range a {
			switch i % 4 {
			case 0:
				a[i], b[i] = srcA[i%len(srcA)], srcB[(i+1)%len(srcB)]
			case 1:
				a[i], b[i] = f.FromValue(new(big.Int).Sub(f.Modulus, big.NewInt(1))), f.FromValue(new(big.Int).Sub(f.Modulus, big.NewInt(int64(1+i%5))))
			default:
				a[i], b[i] = f.FromValue(rng.BigBelow(f.Modulus)), f.FromValue(rng.BigBelow(f.Modulus))
			}
		}
		rec(c, fmt.Sprintf("%s/Vector.Sum/long/n%d", N, n), func() []byte { s := f.VecSum(a); return one(&s) })
		rec(c, fmt.Sprintf("%s/Vector.InnerProduct/long/n%d", N, n), func() []byte { s := f.VecInnerProduct(a, b); return one(&s) })
		ones := make([]E, n) // all entries q-1: the largest partial sums
		for i := range ones {
			ones[i] = a[1]
		}
		rec(c, fmt.Sprintf("%s/Vector.Sum/long-all-q-1/n%d", N, n), func() []byte { s := f.VecSum(ones); return one(&s) })
		rec(c, fmt.Sprintf("%s/Vector.InnerProduct/long-all-q-1/n%d", N, n), func() []byte { s := f.VecInnerProduct(ones, ones); return one(&s) })
	}
	c.Class(N + "/long-vectors")
	sc := els[len(els)/2]
	for _, n := range lens {
		for off := 0; off < 4; off++ {
			if n > 130 && off > 1 && !c.Thorough() {
				continue
			}
			atEnd := (n+off)%2 == 0
			var regs []*efence.Region
			a := fenced(&regs, srcA[off:off+n], atEnd)
			b := fenced(&regs, srcB[off:off+n], atEnd)
			res := fenced(&regs, make([]E, n), atEnd)
			id := func(op string) string { return fmt.Sprintf("%s/Vector.%s/n%d/off%d", N, op, n, off) }
			rec(c, id("Add"), func() []byte { f.VecAdd(res, a, b); return rawBytes(res) })
			rec(c, id("Sub"), func() []byte { f.VecSub(res, a, b); return rawBytes(res) })
			rec(c, id("Mul"), func() []byte { f.VecMul(res, a, b); return rawBytes(res) })
			rec(c, id("ScalarMul"), func() []byte { s := sc; f.VecScalarMul(res, a, &s); return rawBytes(res) })
			if off == 0 && (n <= 40 || n%16 <= 1) {
				// special scalars: values that are special as integers (0, 1, -1, ...) and values whose in-memory
				// (Montgomery) word is special (R^-1 is stored as 1, R as R^2 mod q, ...): a shortcut keyed on the wrong
				// representation only exists in one of the implementations
				for si, cls := range L.Cls {
					switch cls {
					case "small", "q-small", "R", "R^-1", "R^2", "-R":
						sv := els[si]
						rec(c, fmt.Sprintf("%s/Vector.ScalarMul/special-scalar-%s-%d/n%d", N, cls, si, n), func() []byte { s := sv; f.VecScalarMul(res, a, &s); return rawBytes(res) })
					}
				}
			}
			// in-place forms (the receiver is an operand): a kernel that covers the tail with an overlapping block, or
			// that reads an operand again after it stored part of the result, only differs from the portable loop here
			if off <= 1 {
				work := fenced(&regs, make([]E, n), atEnd)
				rec(c, id("Add/res=a"), func() []byte { copy(work, a); f.VecAdd(work, work, b); return rawBytes(work) })
				rec(c, id("Add/res=b"), func() []byte { copy(work, b); f.VecAdd(work, a, work); return rawBytes(work) })
				rec(c, id("Add/res=a=b"), func() []byte { copy(work, a); f.VecAdd(work, work, work); return rawBytes(work) })
				rec(c, id("Sub/res=a"), func() []byte { copy(work, a); f.VecSub(work, work, b); return rawBytes(work) })
				rec(c, id("Sub/res=b"), func() []byte { copy(work, b); f.VecSub(work, a, work); return rawBytes(work) })
				rec(c, id("Sub/res=a=b"), func() []byte { copy(work, a); f.VecSub(work, work, work); return rawBytes(work) })
				rec(c, id("Mul/res=a"), func() []byte { copy(work, a); f.VecMul(work, work, b); return rawBytes(work) })
				rec(c, id("Mul/res=b"), func() []byte { copy(work, b); f.VecMul(work, a, work); return rawBytes(work) })
				rec(c, id("Mul/res=a=b"), func() []byte { copy(work, a); f.VecMul(work, work, work); return rawBytes(work) })
				rec(c, id("ScalarMul/res=a"), func() []byte { copy(work, a); s := sc; f.VecScalarMul(work, work, &s); return rawBytes(work) })
				rec(c, id("InnerProduct/a=b"), func() []byte { s := f.VecInnerProduct(a, a); return one(&s) })
			}
			rec(c, id("Sum"), func() []byte { s := f.VecSum(a); return one(&s) })
			rec(c, id("InnerProduct"), func() []byte { s := f.VecInnerProduct(a, b); return one(&s) })
			// length contract: operands of different lengths are refused (panic) by every implementation alike; a
			// build that silently truncates instead is a dependence on the code path
			if off == 0 && n >= 1 && (n <= 40 || n%16 <= 1) {
				longer := fenced(&regs, srcB[:n+1], atEnd)
				shorter := fenced(&regs, srcB[:n-1], atEnd)
				for li, o := range [][]E{longer, shorter} {
					o := o
					idm := func(op string) string { return fmt.Sprintf("%s/Vector.%s/length-mismatch%d/n%d", N, op, li, n) }
					rec(c, idm("Add"), func() []byte { f.VecAdd(res, a, o); return rawBytes(res) })
					rec(c, idm("Sub"), func() []byte { f.VecSub(res, o, b); return rawBytes(res) })
					rec(c, idm("Mul"), func() []byte { f.VecMul(res, a, o); return rawBytes(res) })
					rec(c, idm("ScalarMul"), func() []byte { s := sc; f.VecScalarMul(res, o, &s); return rawBytes(res) })
					rec(c, idm("InnerProduct"), func() []byte { s := f.VecInnerProduct(a, o); return one(&s) })
					rec(c, idm("InnerProduct-receiver"), func() []byte { s := f.VecInnerProduct(o, b); return one(&s) })
				}
			}
			// accumulator boundary shapes: values cancelling pairwise (sum = 0 mod q with an integer sum that is a
			// multiple of q), all zero, sum = q-1 and sum = 1
			if off == 0 && n >= 2 {
				sh := fenced(&regs, make([]E, n), atEnd)
				sb := fenced(&regs, make([]E, n), atEnd)
				for shape := 0; shape < 4; shape++ {
					for i := 0; i+1 < n; i += 2 {
						sh[i] = srcA[i]
						P(&sh[i+1]).Neg(&srcA[i])
						sb[i], sb[i+1] = srcB[i], srcB[i]
					}
					var zero, unit, minus E
					unit = f.One()
					P(&minus).Neg(&unit)
					if n%2 == 1 {
						sh[n-1], sb[n-1] = zero, zero
					}
					switch shape {
					case 1: // all zero
						for i := range sh {
							sh[i], sb[i] = zero, zero
						}
					case 2: // sum = q-1
						sh[n-1] = minus
						sb[n-1] = unit
						if n%2 == 0 {
							sh[n-2], sb[n-2] = zero, zero
						}
					case 3: // sum = 1
						sh[n-1] = unit
						sb[n-1] = unit
						if n%2 == 0 {
							sh[n-2], sb[n-2] = zero, zero
						}
					}
					rec(c, fmt.Sprintf("%s/Vector.Sum/shape%d/n%d", N, shape, n), func() []byte { s := f.VecSum(sh); return one(&s) })
					rec(c, fmt.Sprintf("%s/Vector.InnerProduct/shape%d/n%d", N, shape, n), func() []byte { s := f.VecInnerProduct(sh, sb); return one(&s) })
				}
			}
			// inputs must be untouched (also a cross-config observable)
			rec(c, id("inputs-after"), func() []byte { return append(rawBytes(a), rawBytes(b)...) })
			for _, r := range regs {
				r.Free()
			}
		}
		c.Class(fmt.Sprintf("%s/vector/n%d", N, n))
	}
	// BatchInvert (uses Mul/Inverse) on fenced memory
	for _, n := range []int{0, 1, 2, 17, 64} {
		var regs []*efence.Region
		a := fenced(&regs, srcA[:n], true)
		rec(c, fmt.Sprintf("%s/BatchInvert/n%d", N, n), func() []byte { return rawBytes(f.BatchInvert(a)) })
		for _, r := range regs {
			r.Free()
		}
	}
	c.SampleOnce(N, map[string]any{"field": N, "cases": "Mul/Square/Add/Sub/Butterfly/MulBy*/Inverse/Sqrt/conversions on the lattice; vector ops n=0..70,111..129,255..257,511..513 x 4 alignments on fenced memory"})
}

// towerCases: E2/E4/... arithmetic of every tower (E2 has assembly on several curves; small-field E4 has AVX-512 kernels).
func towerCases(c *mon.Ctx) {
	for _, ti := range towertypes.All {
		if !mon.Selected(ti.Name) {
			continue
		}
		tw := ti.New()
		rng := gen.New(c.Seed, "c09t/"+tw.Name)
		for _, p := range tw.Types {
			T := reflect.TypeOf(p).Elem()
			deg := len(towers.Flatten(p))
			if deg > 4 && !c.Thorough() {
				continue // the CPU-specific code is in the prime field, E2 and the small-field E4; higher levels are built on them
			}
			nv := c.Pick(14, 40)
			vals := make([]reflect.Value, nv)
			for i := range vals {
				v := make(ofield.El, deg)
				for k := range v {
					switch {
					case i == 0:
						v[k] = new(big.Int)
					case i == 1 && k == 0:
						v[k] = big.NewInt(1)
					case i == 1:
						v[k] = new(big.Int)
					case i == 2:
						v[k] = new(big.Int).Sub(tw.P, big.NewInt(1))
					case i%4 == 3 && k%2 == 1:
						v[k] = new(big.Int)
					default:
						v[k] = rng.BigBelow(tw.P)
					}
				}
				np := reflect.New(T)
				towers.Unflatten(np.Interface(), v)
				vals[i] = np
			}
			pT := reflect.PointerTo(T)
			for mi := 0; mi < pT.NumMethod(); mi++ {
				m := pT.Method(mi)
				mt := m.Type
				bin := mt.NumIn() == 3 && mt.In(1) == pT && mt.In(2) == pT && mt.NumOut() == 1 && mt.Out(0) == pT
				un := mt.NumIn() == 2 && mt.In(1) == pT && mt.NumOut() == 1 && mt.Out(0) == pT
				if !bin && !un {
					continue
				}
				if m.Name == "Sqrt" || m.Name == "Set" {
					continue
				}
				for i := range vals {
					if un {
						i := i
						rec(c, fmt.Sprintf("%s.%s.%s/%d", tw.Name, T.Name(), m.Name, i), func() []byte {
							z := reflect.New(T)
							z.MethodByName(m.Name).Call([]reflect.Value{vals[i]})
							return []byte(fmt.Sprint(towers.Flatten(z.Interface())))
						})
						continue
					}
					for j := range vals {
						if (i+j)%2 == 1 && !c.Thorough() {
							continue
						}
						i, j := i, j
						rec(c, fmt.Sprintf("%s.%s.%s/%d,%d", tw.Name, T.Name(), m.Name, i, j), func() []byte {
							z := reflect.New(T)
							z.MethodByName(m.Name).Call([]reflect.Value{vals[i], vals[j]})
							return []byte(fmt.Sprint(towers.Flatten(z.Interface())))
						})
					}
				}
				c.Class(tw.Name + "." + T.Name() + "." + m.Name)
			}
		}
	}
}

func writeTranscript(path string) error {
	keys := make([]string, 0, len(tr.m))
	for k := range tr.m {
		keys = append(keys, k)
	}
	sort.Strings(keys)
	fo, err := os.Create(path)
	if err != nil {
		return err
	}
	w := bufio.NewWriter(fo)
	for _, k := range keys {
		fmt.Fprintf(w, "%s\t%s\n", k, tr.m[k])
	}
	w.Flush()
	return fo.Close()
}

func readTranscript(path string) (map[string]string, error) {
	fi, err := os.Open(path)
	if err != nil {
		return nil, err
	}
	defer fi.Close()
	m := map[string]string{}
	sc := bufio.NewScanner(fi)
	sc.Buffer(make([]byte, 1<<20), 1<<20)
	for sc.Scan() {
		p := strings.SplitN(sc.Text(), "\t", 2)
		if len(p) == 2 {
			m[p[0]] = p[1]
		}
	}
	return m, sc.Err()
}

func compare(c *mon.Ctx) {
	type cfg struct {
		name string
		m    map[string]string
	}
	var cfgs []cfg
	for _, f := range strings.Split(*files, ",") {
		p := strings.SplitN(f, "=", 2)
		m, err := readTranscript(p[1])
		if err != nil {
			c.Inconclusive("transcript of configuration %s is missing (%v)", p[0], err)
			c.Finish()
		}
		cfgs = append(cfgs, cfg{p[0], m})
	}
	base := cfgs[0]
	for _, o := range cfgs[1:] {
		if len(o.m) != len(base.m) {
			c.Fail("transcript/case-count-differs/"+o.name, "configuration %s recorded %d cases, %s recorded %d", o.name, len(o.m), base.name, len(base.m))
		}
	}
	keys := make([]string, 0, len(base.m))
	for k := range base.m {
		keys = append(keys, k)
	}
	sort.Strings(keys)
	for _, k := range keys {
		for _, o := range cfgs[1:] {
			v, ok := o.m[k]
			parts := strings.Split(k, "/")
			// key: instance/op (strip the per-case suffix)
			kk := k
			if len(parts) > 1 {
				kk = strings.Join(parts[:len(parts)-1], "/")
			}
			c.Check("compare", kk+"/differs-between/"+base.name+"-and-"+o.name, ok && v == base.m[k], func() string {
				return fmt.Sprintf("case %s: %s gives %s, %s gives %s (digests of the byte-exact output; 'panic' = the call panicked)", k, base.name, base.m[k], o.name, v)
			})
		}
		if strings.Count(k, "/") <= 3 {
			c.Class(strings.Join(strings.Split(k, "/")[:strings.Count(k, "/")], "/"))
		}
	}
	npanic := 0
	for _, v := range base.m {
		if v == "panic" {
			npanic++
		}
	}
	c.Extra("cases_per_configuration", len(base.m))
	c.Extra("configurations", len(cfgs))
	c.Extra("cases_panicking_in_all_configurations", npanic)
	c.Sample(map[string]any{"case": keys[len(keys)/2], "digest": base.m[keys[len(keys)/2]]})
	c.Finish()
}

func main() {
	c := mon.Init("C09")
	if *mode == "compare" {
		compare(c)
		return
	}
	var wg sync.WaitGroup
	sem := make(chan struct{}, 16)
	for _, fl := range allFields {
		if !mon.Selected(fl.name) {
			continue
		}
		fl := fl
		wg.Add(1)
		go func() {
			defer wg.Done()
			sem <- struct{}{}
			defer func() { <-sem }()
			fl.fn(c)
		}()
	}
	wg.Wait()
	towerCases(c)
	smallFieldKernels(c)
	c.Extra("cases", len(tr.m))
	c.Class("configuration/" + c.Stage)
	c.Class("transcript-written")
	if *trFile != "" {
		if err := writeTranscript(*trFile); err != nil {
			c.Inconclusive("cannot write transcript: %v", err)
		}
	}
	c.Sample(map[string]any{"configuration": c.Stage, "cases": len(tr.m)})
	c.Finish()
}
