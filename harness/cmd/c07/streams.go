package main

import (
	"bytes"
	"errors"
	"fmt"
	"io"
	"math/big"
	"reflect"
	"testing/iotest"

	"verif/harness/gen"
	"verif/harness/mon"
	"verif/harness/oracle/ocodec"
	"verif/harness/oracle/ocurve"
)

// ---- readers and writers of the workload ----

type maxReader struct {
	r io.Reader
	k int
}

func (m *maxReader) Read(p []byte) (int, error) {
	if len(p) > m.k {
		p = p[:m.k]
	}
	return m.r.Read(p)
}

var chunkings = []string{"whole", "1-byte", "7-byte", "half", "data+EOF"}

func chunked(kind string, b []byte) io.Reader {
	r := bytes.NewReader(b)
	switch kind {
	case "1-byte":
		return iotest.OneByteReader(r)
	case "7-byte":
		return &maxReader{r, 7}
	case "half":
		return iotest.HalfReader(r)
	case "data+EOF":
		return iotest.DataErrReader(r)
	}
	return r
}

var errFull = errors.New("c07: writer is full")

// limitWriter accepts budget bytes, then fails for good (a short write with an error, then (0, err)).
type limitWriter struct {
	buf    bytes.Buffer
	budget int
	failed bool
}

func (w *limitWriter) Write(p []byte) (int, error) {
	room := w.budget - w.buf.Len()
	if len(p) <= room {
		return w.buf.Write(p)
	}
	w.failed = true
	if room > 0 {
		w.buf.Write(p[:room])
		return room, errFull
	}
	return 0, errFull
}

// hiccupWriter fails exactly one Write call (the k-th, nothing written) and works otherwise.
type hiccupWriter struct {
	buf    bytes.Buffer
	k      int
	calls  int
	failed bool
}

func (w *hiccupWriter) Write(p []byte) (int, error) {
	w.calls++
	if w.calls == w.k {
		w.failed = true
		return 0, errFull
	}
	return w.buf.Write(p)
}

// ---- value generation ----

type pools struct {
	g1, g2 []ocurve.Pt // subgroup points, entry 0 = O
}

func mkPool(r *grp, rng *gen.Rng, n int) []ocurve.Pt {
	if r == nil {
		return nil
	}
	C := r.fm.C
	base := C.Mul(r.g.G, rng.BigBelow(r.g.R))
	out := []ocurve.Pt{{Inf: true}}
	cur := base
	for len(out) < n {
		if !cur.Inf {
			r.fm.Learn(cur, true)
			out = append(out, cur)
		}
		cur = C.Add(cur, base)
	}
	return out
}

func (s *slib) genVal(k ocodec.Kind, rng *gen.Rng, pl *pools, size int) ocodec.Val {
	v := ocodec.Val{Kind: k}
	u := func() uint64 {
		switch rng.Intn(5) {
		case 0:
			return 0
		case 1:
			return ^uint64(0)
		case 2:
			return 1 << 63
		}
		return rng.Uint64()
	}
	el := func(mod *big.Int) *big.Int {
		switch rng.Intn(6) {
		case 0:
			return new(big.Int)
		case 1:
			return new(big.Int).Sub(mod, big.NewInt(1))
		case 2:
			return big.NewInt(1)
		}
		return rng.BigBelow(mod)
	}
	vec := func(mod *big.Int, n int) []*big.Int {
		out := make([]*big.Int, n)
		for i := range out {
			out[i] = el(mod)
		}
		return out
	}
	pt := func(pool []ocurve.Pt) ocurve.Pt {
		if rng.Intn(6) == 0 {
			return pool[0]
		}
		return pool[1+rng.Intn(len(pool)-1)]
	}
	switch k {
	case ocodec.KU64:
		v.U = []uint64{u()}
	case ocodec.KU32:
		v.U = []uint64{u() & 0xffffffff}
	case ocodec.KU64s:
		v.U = make([]uint64, size)
		for i := range v.U {
			v.U[i] = u()
		}
	case ocodec.KU64ss:
		v.UU = make([][]uint64, size)
		for i := range v.UU {
			v.UU[i] = make([]uint64, rng.Intn(4))
			for j := range v.UU[i] {
				v.UU[i][j] = u()
			}
		}
	case ocodec.KFr:
		v.E = vec(s.gr.FrMod, 1)
	case ocodec.KFp:
		v.E = vec(s.gr.FpMod, 1)
	case ocodec.KFrs:
		v.E = vec(s.gr.FrMod, size)
	case ocodec.KFps:
		v.E = vec(s.gr.FpMod, size)
	case ocodec.KFrss:
		v.EE = make([][]*big.Int, size)
		for i := range v.EE {
			v.EE[i] = vec(s.gr.FrMod, rng.Intn(4))
		}
	case ocodec.KFrsss:
		v.EEE = make([][][]*big.Int, size)
		for i := range v.EEE {
			v.EEE[i] = make([][]*big.Int, rng.Intn(3))
			for j := range v.EEE[i] {
				v.EEE[i][j] = vec(s.gr.FrMod, rng.Intn(3))
			}
		}
	case ocodec.KG1:
		v.P = []ocurve.Pt{pt(pl.g1)}
	case ocodec.KG2:
		v.P = []ocurve.Pt{pt(pl.g2)}
	case ocodec.KG1s, ocodec.KG2s:
		pool := pl.g1
		if k == ocodec.KG2s {
			pool = pl.g2
		}
		v.P = make([]ocurve.Pt, size)
		for i := range v.P {
			v.P[i] = pt(pool)
		}
	case ocodec.KBlob:
		v.B = rng.Bytes(s.gr.BlobLen)
	}
	return v
}

type item struct {
	v     ocodec.Val
	form  int // encoder argument form
	tform int // decoder target form
}

func (s *slib) kinds() []ocodec.Kind {
	ks := append([]ocodec.Kind(nil), s.l.kinds...)
	if s.l.name != "stark-curve" {
		ks = append(ks, ocodec.KBlob)
	}
	return ks
}

func isSliceKind(k ocodec.Kind) bool {
	switch k {
	case ocodec.KU64s, ocodec.KU64ss, ocodec.KFrs, ocodec.KFps, ocodec.KFrss, ocodec.KFrsss, ocodec.KG1s, ocodec.KG2s:
		return true
	}
	return false
}

// history builds a seeded sequence of items covering every kind of the package at least once.
func (s *slib) history(rng *gen.Rng, pl *pools, sizes []int, extra int) []item {
	ks := s.kinds()
	var ord []ocodec.Kind
	for _, i := range rng.Perm(len(ks)) {
		ord = append(ord, ks[i])
	}
	for i := 0; i < extra; i++ {
		ord = append(ord, ks[rng.Intn(len(ks))])
	}
	var out []item
	for _, k := range ord {
		size := sizes[rng.Intn(len(sizes))]
		it := item{v: s.genVal(k, rng, pl, size)}
		switch k {
		case ocodec.KFrs, ocodec.KFps:
			if s.l.name != "stark-curve" {
				it.form, it.tform = rng.Intn(3), rng.Intn(2)
			}
		case ocodec.KG1s, ocodec.KG2s:
			if s.l.name != "stark-curve" {
				it.form = rng.Intn(2)
			}
		}
		out = append(out, it)
	}
	return out
}

func itemKey(s *slib, it item) string { return s.l.name + "/" + it.v.Kind.String() }

// ---- the checks ----

// encodeHistory drives one library Encoder over the history and compares with the reference stream.
func encodeHistory(c *mon.Ctx, s *slib, h []item, raw bool, tag string) (ref []byte, bounds []int) {
	var buf bytes.Buffer
	enc := s.encoder(&buf, raw)
	mode := "compressed"
	if raw {
		mode = "raw"
	}
	for i, it := range h {
		want := s.gr.Encode(it.v, raw)
		before := buf.Len()
		ref = append(ref, want...)
		bounds = append(bounds, len(ref))
		op := "Encoder.Encode[" + mode + "]"
		key := func(kind string) string {
			return fmt.Sprintf("%s/%s/%s/form%d/%s", itemKey(s, it), op, kind, it.form, tag)
		}
		c.Class(fmt.Sprintf("%s/%s/form%d/n=%s", itemKey(s, it), op, it.form, sizeClass(it.v)))
		var err error
		if c.Guard(key("panic"), func() string { return s.gr.Describe(it.v) }, func() { err = enc.Encode(s.toLib(it.v, it.form)) }) {
			return nil, nil
		}
		if !c.Check(op, key("error-on-valid"), err == nil, func() string { return fmt.Sprintf("item %d %s: %v", i, s.gr.Describe(it.v), err) }) {
			return nil, nil
		}
		got := buf.Bytes()[before:]
		c.Check(op, key("encoding-mismatch"), bytes.Equal(got, want), func() string {
			return fmt.Sprintf("item %d %s: library wrote %s, reference %s", i, s.gr.Describe(it.v), hx(got), hx(want))
		})
		c.Check(op, key("BytesWritten-mismatch"), enc.BytesWritten() == int64(buf.Len()), func() string {
			return fmt.Sprintf("after item %d (%s): BytesWritten=%d, the writer received %d", i, s.gr.Describe(it.v), enc.BytesWritten(), buf.Len())
		})
	}
	return ref, bounds
}

func sizeClass(v ocodec.Val) string {
	n := -1
	switch v.Kind {
	case ocodec.KU64s:
		n = len(v.U)
	case ocodec.KU64ss:
		n = len(v.UU)
	case ocodec.KFrs, ocodec.KFps:
		n = len(v.E)
	case ocodec.KFrss:
		n = len(v.EE)
	case ocodec.KFrsss:
		n = len(v.EEE)
	case ocodec.KG1s, ocodec.KG2s:
		n = len(v.P)
	}
	switch {
	case n < 0:
		return "-"
	case n <= 3:
		return fmt.Sprint(n)
	case n < 32:
		return "4..31"
	}
	return ">=32"
}

// decodeStream decodes the items of h from stream with one library Decoder and compares every step with
// the reference. expectErrAt >= 0: the reference says item expectErrAt is malformed/truncated (why); items
// before it must decode, that one must return an error.
type decodeOpts struct {
	chunk  string
	noSub  bool
	dirty  bool
	tag    string // violation-key input class
	tail   bool   // after the last item one more Decode must fail (end of stream)
	detail func() string
}

func decodeStream(c *mon.Ctx, s *slib, rng *gen.Rng, pl *pools, h []item, stream []byte, o decodeOpts) {
	cr := &countingReader{r: chunked(o.chunk, stream)}
	dec := s.decoder(cr, o.noSub)
	opn := "Decoder.Decode"
	if o.noSub {
		opn += "[nosubgroup]"
	}
	off := 0
	for i, it := range h {
		k := it.v.Kind
		pr := s.gr.Decode(k, stream[off:], !o.noSub)
		key := func(kind string) string {
			return fmt.Sprintf("%s/%s/%s/%s", itemKey(s, it), opn, kind, o.tag)
		}
		var dirty *ocodec.Val
		if o.dirty {
			sz := 2
			if isSliceKind(k) {
				// stale destinations of every relative length: the same (reuse path of the decoder), longer
				// (a decoder that only grows its destination keeps stale entries and reads too much), shorter
				switch n := lenOf(it.v); rng.Intn(5) {
				case 0:
					sz = n
				case 1:
					sz = n + 1
				case 2:
					sz = n + 1 + rng.Intn(4)
				case 3:
					if n > 0 {
						sz = n - 1
					}
				}
			}
			d := s.genVal(k, rng, pl, sz)
			dirty = &d
		}
		t := s.newTarget(k, it.tform, dirty)
		var err error
		desc := func() string {
			d := fmt.Sprintf("item %d of %d (%v) at offset %d, chunking=%s, stream(%d bytes)=%s; reference ok=%v why=%q", i, len(h), k, off, o.chunk, len(stream), hx(stream), pr.OK, pr.Why)
			if o.detail != nil {
				d += "; " + o.detail()
			}
			return d
		}
		c.Current(fmt.Sprintf("%s %s item %d/%d %v chunk=%s stream=%d bytes", s.l.name, o.tag, i, len(h), k, o.chunk, len(stream)))
		c.Class(fmt.Sprintf("%s/%s/%s", itemKey(s, it), opn, o.tag))
		if c.Guard(key("panic"), desc, func() { err = dec.Decode(t.Interface()) }) {
			return
		}
		st := "after-success"
		if err != nil {
			st = "after-error"
		}
		c.Check(opn, key("BytesRead-mismatch/"+st), dec.BytesRead() == cr.n, func() string {
			return fmt.Sprintf("BytesRead=%d, the reader handed out %d bytes; %s", dec.BytesRead(), cr.n, desc())
		})
		if !pr.OK {
			if pr.Alias && err != nil {
				return
			}
			c.Check(opn, key("nil-error-on-malformed"), err != nil, func() string {
				return fmt.Sprintf("Decode returned nil, decoded %s; %s", s.gr.Describe(s.fromLib(t, k)), desc())
			})
			return
		}
		if err != nil {
			if !pr.Alias {
				c.Check(opn, key("error-on-valid"), false, func() string { return fmt.Sprintf("err=%v; %s", err, desc()) })
			}
			return
		}
		got := s.fromLib(t, k)
		c.Check(opn, key("wrong-value"), s.gr.Equal(got, pr.V), func() string {
			return fmt.Sprintf("decoded %s, reference %s; %s", s.gr.Describe(got), s.gr.Describe(pr.V), desc())
		})
		off += pr.N
		c.Check(opn, key("BytesRead-mismatch/vs-reference"), dec.BytesRead() == int64(off), func() string {
			return fmt.Sprintf("BytesRead=%d, the reference grammar ends the item at %d; %s", dec.BytesRead(), off, desc())
		})
	}
	if o.tail && off == len(stream) {
		var x uint64
		var err error
		if c.Guard(s.l.name+"/uint64/"+opn+"/panic/end-of-stream", func() string { return "" }, func() { err = dec.Decode(&x) }) {
			return
		}
		c.Check(opn, s.l.name+"/uint64/"+opn+"/nil-error-on-malformed/end-of-stream", err != nil, func() string {
			return fmt.Sprintf("Decode(*uint64) at the end of a %d-byte stream returned nil (value %d)", len(stream), x)
		})
	}
}

func lenOf(v ocodec.Val) int {
	switch v.Kind {
	case ocodec.KU64s:
		return len(v.U)
	case ocodec.KU64ss:
		return len(v.UU)
	case ocodec.KFrs, ocodec.KFps:
		return len(v.E)
	case ocodec.KFrss:
		return len(v.EE)
	case ocodec.KFrsss:
		return len(v.EEE)
	case ocodec.KG1s, ocodec.KG2s:
		return len(v.P)
	}
	return 1
}

// badPoint is an encoding the reference rejects (under the subgroup setting sg, or under both).
type badPoint struct {
	b   []byte
	cls string
}

// badPoints collects malformed single-point encodings of a group, one per class.
func badPoints(r *grp, rng *gen.Rng, pool []ocurve.Pt) []badPoint {
	fm, F := r.fm, r.g.F
	Q := pool[1+rng.Intn(len(pool)-1)]
	cQ, rQ := fm.Encode(Q, true), fm.Encode(Q, false)
	fb := r.lib.fpBytes
	mask := fm.Fam.Mask()
	var out []badPoint
	add := func(b []byte, cls string) {
		// keep only what the reference rejects at least when the subgroup check is on
		if vd := fm.Decode(b, true); !vd.OK && !vd.Alias && vd.Why != "short" {
			out = append(out, badPoint{b, cls})
		}
	}
	pc, _ := chunkBE(F.P, fb)
	// compressed: x = p, x without root, invalid flags, infinity with payload
	o := append([]byte(nil), cQ...)
	copy(o, pc)
	if o[0]&mask == 0 {
		o[0] |= 0x80
		add(o, "compressed/x-chunk0=p")
	}
	if F.Deg() > 1 {
		o = append([]byte(nil), cQ...)
		copy(o[fb*(F.Deg()-1):], pc)
		add(o, "compressed/x-last-chunk=p")
	}
	x := F.Copy(Q.X)
	for i := 0; i < 64; i++ {
		x[0] = new(big.Int).Mod(new(big.Int).Add(x[0], big.NewInt(1)), F.P)
		if _, ok := fm.Root(x); !ok {
			break
		}
	}
	o = fm.Ser(x)
	o[0] |= 0x80
	add(o, "compressed/x-without-root")
	if fm.Fam == ocodec.ZCash {
		o = append([]byte(nil), cQ...)
		o[0] |= 0xE0
		add(o, "compressed/invalid-flags=0xe0")
		o = append([]byte(nil), rQ...)
		o[0] |= 0x20
		add(o, "raw/invalid-flags=0x20")
		o = make([]byte, fm.SizeU())
		o[0] = 0x40
		o[len(o)-1] = 1
		add(o, "raw-infinity-with-payload")
	}
	o = make([]byte, fm.SizeC())
	o[0] = fm.Encode(ocurve.Pt{Inf: true}, true)[0]
	o[len(o)-1] = 1
	add(o, "compressed-infinity-with-payload")
	// raw: not on curve, y not canonical
	add(append(fm.Ser(Q.X), fm.Ser(F.Add(Q.Y, F.One()))...), "raw/not-on-curve(y+1)")
	yp := new(big.Int).Add(Q.Y[F.Deg()-1], F.P)
	if yb, ok := chunkBE(yp, fb); ok {
		o = append([]byte(nil), rQ...)
		copy(o[fm.SizeC():], yb)
		add(o, "raw/y-chunk0=v+p")
	}
	// a curve point outside the subgroup, both forms
	for tries := 0; tries < 40; tries++ {
		x := make([]*big.Int, F.Deg())
		for i := range x {
			x[i] = rng.BigBelow(F.P)
		}
		if y, ok := fm.Root(x); ok {
			p := ocurve.Pt{X: x, Y: y}
			if !fm.InSubgroup(p) {
				add(fm.Encode(p, true), "compressed/on-curve-outside-subgroup")
				add(fm.Encode(p, false), "raw/on-curve-outside-subgroup")
			}
			break
		}
	}
	return out
}

func runStreams(c *mon.Ctx, s *slib) {
	L := s.l.name
	rng := gen.New(c.Seed, "c07/streams/"+L)
	pl := &pools{g1: mkPool(s.g1, rng, 70)}
	if s.g2 != nil {
		pl.g2 = mkPool(s.g2, rng, 70)
	}

	// ---- A. valid histories: both encoder modes, every chunking, both subgroup settings, stale targets ----
	nh := c.Pick(2, 12)
	for hi := 0; hi < nh; hi++ {
		sizes := []int{0, 1, 2, 3}
		if hi == 1 {
			sizes = []int{65, 3, 33}
		}
		h := s.history(rng, pl, sizes, c.Pick(3, 10))
		for _, raw := range []bool{false, true} {
			ref, _ := encodeHistory(c, s, h, raw, "valid-history")
			if ref == nil {
				continue
			}
			if hi == 0 && !raw {
				var ks []string
				for _, it := range h {
					ks = append(ks, it.v.Kind.String())
				}
				c.SampleOnce(L+"/history", map[string]any{"items": ks, "stream_bytes": len(ref), "stream": hx(ref)})
			}
			mode := "compressed"
			if raw {
				mode = "raw"
			}
			for ci, ch := range chunkings {
				if hi == 1 && ci > 0 && !c.Thorough() {
					continue // the long history is decoded once per mode in quick
				}
				decodeStream(c, s, rng, pl, h, ref, decodeOpts{chunk: ch, tag: "valid-history/" + mode + "/" + ch, tail: true, dirty: ci%2 == 1})
			}
			decodeStream(c, s, rng, pl, h, ref, decodeOpts{chunk: "whole", noSub: true, tag: "valid-history/" + mode, tail: true, dirty: true})
		}
		// a stream mixing both point forms item by item (the decoder reads the form from the flags)
		var mixed []byte
		for _, it := range h {
			mixed = append(mixed, s.gr.Encode(it.v, rng.Bool())...)
		}
		decodeStream(c, s, rng, pl, h, mixed, decodeOpts{chunk: "7-byte", tag: "valid-history/mixed-forms", tail: true})
	}

	// ---- B. truncation of a short history at every offset ----
	{
		h := s.history(rng, pl, []int{1, 2}, 0)
		for _, raw := range []bool{false, true} {
			stream := []byte{}
			for _, it := range h {
				stream = append(stream, s.gr.Encode(it.v, raw)...)
			}
			bounds := map[int]bool{}
			off := 0
			for _, it := range h {
				off += len(s.gr.Encode(it.v, raw))
				bounds[off] = true
			}
			mode := "compressed"
			if raw {
				mode = "raw"
			}
			cnt := 0
			for cut := 0; cut < len(stream); cut++ {
				near := bounds[cut] || bounds[cut+1] || bounds[cut-1] || bounds[cut-4] || bounds[cut-3]
				if !c.Thorough() && len(stream) > 700 && !near && rng.Intn(len(stream)/500+1) != 0 {
					continue
				}
				cnt++
				ch := chunkings[cut%len(chunkings)]
				cutv := cut
				decodeStream(c, s, rng, pl, h, stream[:cut], decodeOpts{chunk: ch, tag: "truncated-stream/" + mode, noSub: cut%3 == 0,
					detail: func() string { return fmt.Sprintf("stream of %d bytes cut at %d", len(stream), cutv) }})
			}
			c.AddExtra("truncation-offsets/"+L, int64(cnt))
		}
	}

	// ---- C. the i-th entry of a slice / nested vector corrupted ----
	corruptVectors(c, s, rng, pl)
	corruptPointSlices(c, s, rng, pl)

	// ---- D. writers that fail ----
	failingWriters(c, s, rng, pl)

	// ---- E. unusable arguments: an error, never a panic ----
	misuse(c, s)
}

func misuse(c *mon.Ctx, s *slib) {
	L := s.l.name
	var nilU *uint64
	type odd struct{ A []int }
	for _, t := range []struct {
		n string
		v any
	}{{"nil", nil}, {"non-pointer", uint64(5)}, {"nil-pointer", nilU}, {"unsupported-type", &odd{}}} {
		key := L + "/any/Decoder.Decode/"
		var err error
		dec := s.decoder(bytes.NewReader(make([]byte, 64)), false)
		c.Class(key + t.n)
		if c.Guard(key+"panic/"+t.n, func() string { return t.n }, func() { err = dec.Decode(t.v) }) {
			continue
		}
		c.Check("Decoder.Decode", key+"nil-error-on-malformed/"+t.n, err != nil, func() string { return "Decode(" + t.n + ") returned nil" })
	}
	for _, t := range []struct {
		n string
		v any
	}{{"nil", nil}, {"nil-pointer", reflect.Zero(reflect.PointerTo(s.g1.T)).Interface()}, {"unsupported-type", &odd{}}} {
		key := L + "/any/Encoder.Encode/"
		var err error
		var buf bytes.Buffer
		enc := s.encoder(&buf, false)
		c.Class(key + t.n)
		if c.Guard(key+"panic/"+t.n, func() string { return t.n }, func() { err = enc.Encode(t.v) }) {
			continue
		}
		c.Check("Encoder.Encode", key+"error-hidden/"+t.n, err != nil, func() string { return "Encode(" + t.n + ") returned nil" })
	}
}

// replaceAt returns stream with bytes [at, at+n) replaced by repl.
func replaceAt(stream []byte, at, n int, repl []byte) []byte {
	out := append([]byte(nil), stream[:at]...)
	out = append(out, repl...)
	return append(out, stream[at+n:]...)
}

func corruptVectors(c *mon.Ctx, s *slib, rng *gen.Rng, pl *pools) {
	type shape struct {
		k    ocodec.Kind
		size int
	}
	var shapes []shape
	has := func(k ocodec.Kind) bool {
		for _, x := range s.l.kinds {
			if x == k {
				return true
			}
		}
		return false
	}
	for _, k := range []ocodec.Kind{ocodec.KFr, ocodec.KFp} {
		shapes = append(shapes, shape{k, 1})
	}
	for _, k := range []ocodec.Kind{ocodec.KFrs, ocodec.KFps} {
		for _, n := range []int{1, 2, 3, c.Pick(9, 65)} {
			shapes = append(shapes, shape{k, n})
		}
	}
	for _, k := range []ocodec.Kind{ocodec.KFrss, ocodec.KFrsss} {
		if has(k) {
			for _, n := range []int{1, 2, 3, c.Pick(4, 7)} {
				shapes = append(shapes, shape{k, n})
			}
		}
	}
	for _, sh := range shapes {
		mod, nb := s.gr.FrMod, s.gr.FrBytes
		if sh.k == ocodec.KFp || sh.k == ocodec.KFps {
			mod, nb = s.gr.FpMod, s.gr.FpBytes
		}
		// non-empty inner vectors so that every row has a position to corrupt
		var v ocodec.Val
		for tries := 0; tries < 50; tries++ {
			v = s.genVal(sh.k, rng, pl, sh.size)
			ok := true
			for _, r := range v.EE {
				ok = ok && len(r) > 0
			}
			for _, rr := range v.EEE {
				ok = ok && len(rr) > 0
				for _, r := range rr {
					ok = ok && len(r) > 0
				}
			}
			if ok {
				break
			}
		}
		// SAFETY: the library's nested-vector decoder keeps parsing after an inner error (the finding recorded
		// under nil-error-on-malformed) and then reads element bytes as a length prefix; with arbitrary elements
		// that is a multi-gigabyte allocation which kills the process. The uncorrupted entries of the nested
		// shapes are therefore kept below 16, so that a misread prefix stays tiny.
		for _, r := range v.EE {
			for j := range r {
				r[j] = big.NewInt(int64(rng.Intn(16)))
			}
		}
		for _, rr := range v.EEE {
			for _, r := range rr {
				for j := range r {
					r[j] = big.NewInt(int64(rng.Intn(16)))
				}
			}
		}
		stream := s.gr.Encode(v, false)
		// element offsets with their logical position
		type pos struct {
			off int
			lbl string
		}
		var ps []pos
		off := 0
		switch sh.k {
		case ocodec.KFr, ocodec.KFp:
			ps = append(ps, pos{0, "single"})
		case ocodec.KFrs, ocodec.KFps:
			off = 4
			for i := range v.E {
				ps = append(ps, pos{off, idxClass(i, len(v.E))})
				off += nb
			}
		case ocodec.KFrss:
			off = 4
			for i, r := range v.EE {
				off += 4
				for j := range r {
					ps = append(ps, pos{off, "vector-" + idxClass(i, len(v.EE)) + "/entry-" + idxClass(j, len(r))})
					off += nb
				}
			}
		case ocodec.KFrsss:
			off = 4
			for i, rr := range v.EEE {
				off += 4
				for j, r := range rr {
					off += 4
					for k := range r {
						ps = append(ps, pos{off, "collection-" + idxClass(i, len(v.EEE)) + "/vector-" + idxClass(j, len(rr)) + "/entry-" + idxClass(k, len(r))})
						off += nb
					}
				}
			}
		}
		bads := []struct {
			n string
			v *big.Int
		}{{"=q", mod}, {"=q+1", new(big.Int).Add(mod, big.NewInt(1))}, {"=all-ones", new(big.Int).Sub(new(big.Int).Lsh(big.NewInt(1), uint(8*nb)), big.NewInt(1))}}
		h := []item{{v: v}}
		for pi, p := range ps {
			for bi, bad := range bads {
				if !c.Thorough() && len(ps) > 12 && bi != pi%len(bads) {
					continue
				}
				bb, ok := chunkBE(bad.v, nb)
				if !ok {
					continue
				}
				cs := replaceAt(stream, p.off, nb, bb)
				for tf := 0; tf < 2; tf++ {
					if tf == 1 && (sh.k != ocodec.KFrs && sh.k != ocodec.KFps || s.l.name == "stark-curve") {
						continue
					}
					h[0].tform = tf
					tag := fmt.Sprintf("corrupted-element%s/n=%s/%s", bad.n, sizeClass(v), p.lbl)
					if tf == 1 {
						tag += "/Vector.ReadFrom"
					}
					pp := p
					decodeStream(c, s, rng, pl, h, cs, decodeOpts{chunk: chunkings[(pi+bi)%len(chunkings)], tag: tag,
						detail: func() string { return fmt.Sprintf("element at byte offset %d replaced by %s", pp.off, bad.n) }})
				}
			}
		}
		h[0].tform = 0
		// length prefix one too large (the data runs out) and, for flat vectors, one too small (a shorter valid vector)
		if isSliceKind(sh.k) {
			n := lenOf(v)
			cs := replaceAt(stream, 0, 4, []byte{0, 0, 0, byte(n + 1)})
			decodeStream(c, s, rng, pl, h, cs, decodeOpts{chunk: "whole", tag: "length-prefix+1/n=" + sizeClass(v)})
			if sh.k == ocodec.KFrs || sh.k == ocodec.KFps {
				cs = replaceAt(stream, 0, 4, []byte{0, 0, 0, byte(n - 1)})
				decodeStream(c, s, rng, pl, h, cs, decodeOpts{chunk: "whole", tag: "length-prefix-1/n=" + sizeClass(v)})
			}
		}
	}
}

func idxClass(i, n int) string {
	switch {
	case n == 1:
		return "only"
	case i == 0:
		return "first"
	case i == n-1:
		return "last"
	}
	return "middle"
}

func corruptPointSlices(c *mon.Ctx, s *slib, rng *gen.Rng, pl *pools) {
	for _, k := range []ocodec.Kind{ocodec.KG1s, ocodec.KG2s} {
		g := s.grpOf(k)
		if g == nil {
			continue
		}
		pool := pl.g1
		if k == ocodec.KG2s {
			pool = pl.g2
		}
		bads := badPoints(g, rng, pool)
		ns := []int{1, 2, 3, 65}
		if c.Thorough() {
			ns = []int{1, 2, 3, 16, 17, 65, 130}
		}
		for _, n := range ns {
			v := s.genVal(k, rng, pl, n)
			for _, raw := range []bool{false, true} {
				if raw && n >= 65 && !c.Thorough() {
					continue
				}
				// item offsets
				offs := []int{4}
				for _, p := range v.P {
					offs = append(offs, offs[len(offs)-1]+len(g.fm.Encode(p, !raw)))
				}
				stream := s.gr.Encode(v, raw)
				var positions []int
				if n <= 3 || (c.Thorough() && n <= 65) {
					for i := 0; i < n; i++ {
						positions = append(positions, i)
					}
				} else {
					positions = []int{0, 1, n / 2, n - 2, n - 1, 2 + rng.Intn(n-4), 2 + rng.Intn(n-4)}
					for i := 0; c.Thorough() && i < 17; i++ {
						positions = append(positions, 2+rng.Intn(n-4))
					}
				}
				h := []item{{v: v}}
				mode := "compressed"
				if raw {
					mode = "raw"
				}
				for _, i := range positions {
					for bi, bad := range bads {
						if n >= 65 && !c.Thorough() && (bi+i)%2 == 1 {
							continue
						}
						cs := replaceAt(stream, offs[i], offs[i+1]-offs[i], bad.b)
						for _, noSub := range []bool{false, true} {
							tag := fmt.Sprintf("corrupted-point/%s/in-%s-slice/n=%s/%s", bad.cls, mode, sizeClass(v), idxClass(i, n))
							ii, bc := i, bad.cls
							decodeStream(c, s, rng, pl, h, cs, decodeOpts{chunk: chunkings[(i+bi)%len(chunkings)], noSub: noSub, tag: tag, dirty: (i+bi)%2 == 0,
								detail: func() string { return fmt.Sprintf("point %d of %d replaced by %s", ii, n, bc) }})
						}
					}
				}
				// length prefix one too large
				cs := replaceAt(stream, 0, 4, []byte{0, 0, 0, byte(n + 1)})
				decodeStream(c, s, rng, pl, h, cs, decodeOpts{chunk: "half", tag: "length-prefix+1/n=" + sizeClass(v)})
			}
		}
	}
}

func failingWriters(c *mon.Ctx, s *slib, rng *gen.Rng, pl *pools) {
	h := s.history(rng, pl, []int{1, 2, 3}, 0)
	for _, raw := range []bool{false, true} {
		mode := "compressed"
		if raw {
			mode = "raw"
		}
		op := "Encoder.Encode[" + mode + "]"
		var ends []int
		tot := 0
		for _, it := range h {
			tot += len(s.gr.Encode(it.v, raw))
			ends = append(ends, tot)
		}
		// (1) a writer that is full after `budget` bytes
		for budget := 0; budget < tot; budget++ {
			if !c.Thorough() && budget%3 != int(c.Seed)%3 {
				continue
			}
			w := &limitWriter{budget: budget}
			enc := s.encoder(w, raw)
			for i, it := range h {
				key := func(kind string) string { return fmt.Sprintf("%s/%s/%s/writer-full", itemKey(s, it), op, kind) }
				var err error
				desc := func() string {
					return fmt.Sprintf("writer accepts %d bytes; item %d (%s) occupies [%d,%d)", budget, i, s.gr.Describe(it.v), ends[i]-len(s.gr.Encode(it.v, raw)), ends[i])
				}
				if c.Guard(key("panic"), desc, func() { err = enc.Encode(s.toLib(it.v, it.form)) }) {
					break
				}
				c.Class(itemKey(s, it) + "/" + op + "/writer-full")
				if ends[i] <= budget {
					c.Check(op, key("error-on-valid"), err == nil, func() string { return fmt.Sprintf("err=%v; %s", err, desc()) })
					continue
				}
				c.Check(op, key("error-hidden"), err != nil, func() string {
					return "the writer returned an error during this Encode, Encode returned nil; " + desc()
				})
				c.Check(op, key("BytesWritten-mismatch"), enc.BytesWritten() == int64(w.buf.Len()), func() string {
					return fmt.Sprintf("BytesWritten=%d, the writer accepted %d bytes; %s", enc.BytesWritten(), w.buf.Len(), desc())
				})
				break
			}
		}
		// (2) a writer that fails one Write call and recovers
		for k := 1; k < 400; k++ {
			if !c.Thorough() && k > 40 && k%5 != 0 {
				continue
			}
			w := &hiccupWriter{k: k}
			enc := s.encoder(w, raw)
			hit := false
			for i, it := range h {
				key := func(kind string) string {
					return fmt.Sprintf("%s/%s/%s/writer-fails-one-call", itemKey(s, it), op, kind)
				}
				var err error
				desc := func() string {
					return fmt.Sprintf("Write call number %d fails with (0, err); item %d = %s", k, i, s.gr.Describe(it.v))
				}
				if c.Guard(key("panic"), desc, func() { err = enc.Encode(s.toLib(it.v, it.form)) }) {
					hit = true
					break
				}
				if w.failed {
					hit = true
					c.Class(itemKey(s, it) + "/" + op + "/writer-fails-one-call")
					c.Check(op, key("error-hidden"), err != nil, func() string {
						return "one Write call made by this Encode returned an error, Encode returned nil; " + desc()
					})
					break
				}
				c.Check(op, key("error-on-valid"), err == nil, func() string { return fmt.Sprintf("err=%v; %s", err, desc()) })
			}
			if !hit {
				break // k exceeds the number of Write calls of the history
			}
		}
	}
}
