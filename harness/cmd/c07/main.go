// C07: point and stream codecs of every curve package against a reference decoder/encoder written from the
// documented formats (flag tables of ecc/<curve>/marshal.go, length-prefixed stream grammar, RFC 8032 3.1
// twisted-Edwards compression, GT coefficient layout): round trips, acceptance sets, corruption of the i-th
// entry, truncation at every offset, reader chunkings, failing writers, byte counters.
package main

import (
	"flag"
	"os"
	"runtime/pprof"
	"sync"

	"verif/harness/adapt/te"
	"verif/harness/mon"
	"verif/harness/oracle/ocodec"
)

var mode = flag.String("mode", "main", "main | race")
var cpuprof = flag.String("cpuprofile", "", "write a CPU profile (debugging)")

func bindLib(c *mon.Ctx, l *curveLib) (*grp, *grp, *slib) {
	g1, err := l.bind(1)
	if err != nil {
		c.Inconclusive("%v", err)
		return nil, nil, nil
	}
	var g2 *grp
	if l.g2T != nil {
		if g2, err = l.bind(2); err != nil {
			c.Inconclusive("%v", err)
			return nil, nil, nil
		}
	}
	var s *slib
	if l.newEnc != nil {
		s = &slib{l: l, g1: g1, g2: g2}
		s.gr = &ocodec.Grammar{FrMod: l.frMod, FpMod: l.fpMod, FrBytes: l.frBytes, FpBytes: l.fpBytes, G1: g1.fm, MaxLen: 1 << 20, BlobLen: 5}
		if g2 != nil {
			s.gr.G2 = g2.fm
		}
	}
	return g1, g2, s
}

func main() {
	c := mon.Init("C07")
	if *cpuprof != "" {
		f, _ := os.Create(*cpuprof)
		pprof.StartCPUProfile(f)
		defer pprof.StopCPUProfile()
	}
	var wg sync.WaitGroup
	sem := make(chan struct{}, 16)
	spawn := func(name string, f func()) {
		if !mon.Selected(name) {
			return
		}
		wg.Add(1)
		go func() {
			defer wg.Done()
			sem <- struct{}{}
			defer func() { <-sem }()
			if c.Guard(name+"/harness/panic", func() string { return "uncaught panic in the monitor or the library" }, f) {
				c.Inconclusive("%s: the instance run was aborted by a panic (see the violation)", name)
			}
		}()
	}
	libs := allLibs()
	if *mode == "race" {
		for _, l := range libs {
			l := l
			if l.newEnc == nil {
				continue
			}
			spawn(l.name+"/race", func() {
				_, _, s := bindLib(c, l)
				if s != nil {
					runRace(c, s)
				}
			})
		}
		wg.Wait()
		c.Finish()
	}
	for _, l := range libs {
		l := l
		// binding is shared by the three jobs of a package; the reference caches are goroutine-safe
		var once sync.Once
		var g1, g2 *grp
		var s *slib
		get := func() { once.Do(func() { g1, g2, s = bindLib(c, l) }) }
		spawn(l.name+"/G1", func() {
			get()
			if g1 != nil {
				runPoints(c, g1, s)
			}
		})
		if l.g2T != nil {
			spawn(l.name+"/G2", func() {
				get()
				if g2 != nil {
					runPoints(c, g2, s)
				}
			})
		}
		if l.newEnc != nil {
			spawn(l.name+"/stream", func() {
				get()
				if s != nil {
					runStreams(c, s)
				}
			})
		}
		if l.gtT != nil {
			spawn(l.name+"/GT", func() { runGT(c, l) })
		}
		for _, cl := range contLibs() {
			if cl.name == l.name {
				cl := cl
				spawn(l.name+"/containers", func() {
					get()
					if s != nil {
						runContainers(c, cl, s)
					}
				})
			}
		}
	}
	for _, e := range te.All {
		e := e
		spawn(e.Name, func() {
			g := e.New()
			if err := g.Bind(); err != nil {
				c.Inconclusive("%s: %v", e.Name, err)
				return
			}
			runTE(c, e.Name, g)
		})
	}
	wg.Wait()
	pprof.StopCPUProfile()
	c.Finish()
}
