package main

import (
	"bytes"
	"encoding/hex"
	"fmt"
	"io"
	"math/big"
	"reflect"
	"strings"
	"sync"

	"verif/harness/gen"
	"verif/harness/mon"
	"verif/harness/oracle/ocodec"
	"verif/harness/oracle/ocurve"
	"verif/harness/oracle/ofield"
)

// countingReader counts the bytes actually handed to the consumer.
type countingReader struct {
	r io.Reader
	n int64
}

func (c *countingReader) Read(p []byte) (int, error) {
	n, err := c.r.Read(p)
	c.n += int64(n)
	return n, err
}

// exact returns a copy of b whose capacity equals its length: a library routine that reslices its argument
// beyond len (buf[a:b] only checks the capacity) then panics instead of silently reading the allocator's padding.
func exact(b []byte) []byte {
	o := make([]byte, len(b))
	copy(o, b)
	return o[:len(b):len(b)]
}

func hx(b []byte) string {
	if len(b) > 400 {
		return hex.EncodeToString(b[:200]) + "…" + hex.EncodeToString(b[len(b)-40:]) + fmt.Sprintf("(%d bytes)", len(b))
	}
	return hex.EncodeToString(b)
}

type namedPt struct {
	name string
	p    ocurve.Pt
	sub  bool
}

// entry is one decoding entry point of the library for a single point.
type entry struct {
	name  string
	sg    bool // subgroup check in force
	slice bool // the string is wrapped as a one-element slice stream
	run   func(r *grp, s *slib, b []byte) outcome
}

type outcome struct {
	err      error
	p        ocurve.Pt
	n        int  // consumed bytes reported (SetBytes) or BytesRead
	hasN     bool // n is meaningful
	consumed int64
	isDec    bool
	panicked bool
	panicVal any
}

func pointEntries(r *grp, s *slib) []entry {
	es := []entry{
		{name: "SetBytes", sg: true, run: func(r *grp, _ *slib, b []byte) (o outcome) {
			pt := r.newPoint(r.g.G) // stale receiver
			n, err := pt.Interface().(pointAPI).SetBytes(b)
			o.err, o.n, o.hasN = err, n, true
			if err == nil {
				o.p = r.readPoint(pt)
			}
			return
		}},
	}
	if r.lib.hasMarshal {
		es = append(es, entry{name: "Unmarshal", sg: true, run: func(r *grp, _ *slib, b []byte) (o outcome) {
			pt := r.newPoint(r.g.G)
			o.err = pt.Interface().(marshalAPI).Unmarshal(b)
			if o.err == nil {
				o.p = r.readPoint(pt)
			}
			return
		}})
	}
	if s != nil {
		k1, ks := ocodec.KG1, ocodec.KG1s
		if r.which == 2 {
			k1, ks = ocodec.KG2, ocodec.KG2s
		}
		for _, noSub := range []bool{false, true} {
			noSub := noSub
			sfx := ""
			if noSub {
				sfx = ",nosubgroup"
			}
			es = append(es, entry{name: "Decoder.Decode[point" + sfx + "]", sg: !noSub, run: func(r *grp, s *slib, b []byte) (o outcome) {
				cr := &countingReader{r: bytes.NewReader(b)}
				d := s.decoder(cr, noSub)
				dirty := ocodec.Val{Kind: k1, P: []ocurve.Pt{r.g.G}}
				t := s.newTarget(k1, 0, &dirty)
				o.err = d.Decode(t.Interface())
				o.n, o.hasN, o.consumed, o.isDec = int(d.BytesRead()), true, cr.n, true
				if o.err == nil {
					o.p = r.readPoint(t)
				}
				return
			}})
			es = append(es, entry{name: "Decoder.Decode[slice1" + sfx + "]", sg: !noSub, slice: true, run: func(r *grp, s *slib, b []byte) (o outcome) {
				st := append([]byte{0, 0, 0, 1}, b...)
				cr := &countingReader{r: bytes.NewReader(st)}
				d := s.decoder(cr, noSub)
				dirty := ocodec.Val{Kind: ks, P: []ocurve.Pt{r.g.G}}
				t := s.newTarget(ks, 0, &dirty)
				o.err = d.Decode(t.Interface())
				o.n, o.hasN, o.consumed, o.isDec = int(d.BytesRead())-4, true, cr.n-4, true
				if o.err == nil {
					if t.Elem().Len() != 1 {
						o.err = fmt.Errorf("c07: decoded slice has length %d", t.Elem().Len())
						return
					}
					o.p = r.readPoint(t.Elem().Index(0).Addr())
				}
				return
			}})
		}
	}
	return es
}

// jobQueue collects the generated cases (generation is sequential and seeded); run judges them with a few
// workers: the cases are independent and the reference caches are goroutine-safe.
type jobQueue struct {
	jobs []func()
}

func (q *jobQueue) run(workers int) {
	var wg sync.WaitGroup
	ch := make(chan func(), len(q.jobs))
	for _, j := range q.jobs {
		ch <- j
	}
	close(ch)
	for w := 0; w < workers; w++ {
		wg.Add(1)
		go func() {
			defer wg.Done()
			for j := range ch {
				j()
			}
		}()
	}
	wg.Wait()
	q.jobs = nil
}

// judgeNow runs every entry point on b and compares with the reference verdict.
func judgeNow(c *mon.Ctx, r *grp, s *slib, es []entry, b []byte, cls string) {
	for _, e := range es {
		vd := r.fm.Decode(b, e.sg)
		key := func(kind string) string { return r.name + "/" + e.name + "/" + kind + "/" + cls }
		in := exact(b)
		var o outcome
		func() {
			defer func() {
				if x := recover(); x != nil {
					o.panicked, o.panicVal = true, x
				}
			}()
			o = e.run(r, s, in)
		}()
		c.Class(r.name + "/" + e.name + "/" + cls)
		if strings.HasPrefix(cls, "compressed/chunk0=p") && e.name == "SetBytes" {
			c.SampleOnce(r.name, map[string]any{"entry": e.name, "class": cls, "input": hx(b), "library_error": fmt.Sprint(o.err), "reference_ok": vd.OK, "reference_reason": vd.Why})
		}
		desc := func() string {
			return fmt.Sprintf("input(%d bytes)=%s subgroupCheck=%v: library err=%v point=%s n=%d; reference ok=%v alias=%v why=%q point=%s n=%d",
				len(b), hx(b), e.sg, o.err, ptStr(r, o), o.n, vd.OK, vd.Alias, vd.Why, r.fm.C.String(vd.P), vd.N)
		}
		if !c.Check(e.name, key("panic"), !o.panicked, func() string { return fmt.Sprintf("PANIC %v on input(%d bytes)=%s", o.panicVal, len(b), hx(b)) }) {
			continue
		}
		c.Check(e.name, key("input-modified"), bytes.Equal(in, b), desc)
		if o.isDec {
			st := "after-error"
			if o.err == nil {
				st = "after-success"
			}
			c.Check(e.name, key("BytesRead-mismatch/"+st), int64(o.n) == o.consumed, func() string {
				return fmt.Sprintf("BytesRead (minus prefix)=%d but the reader handed out %d bytes; %s", o.n, o.consumed, desc())
			})
		}
		switch {
		case vd.Alias:
			if o.err == nil {
				c.Check(e.name, key("wrong-value"), o.p.Inf, desc)
			}
		case vd.OK && o.err != nil:
			c.Check(e.name, key("rejects-valid"), false, desc)
		case !vd.OK && o.err == nil:
			c.Check(e.name, key("accepts-invalid/"+vd.Why), false, desc)
		case !vd.OK:
			c.Eval(e.name, 1)
		default:
			c.Check(e.name, key("wrong-value"), r.fm.C.Eq(o.p, vd.P), desc)
			if o.hasN {
				c.Check(e.name, key("consumed-mismatch"), o.n == vd.N, desc)
			}
			// an accepted string re-encodes to itself in the same mode
			if r.fm.C.Eq(o.p, vd.P) {
				pt := r.newPoint(o.p)
				var re []byte
				if vd.Comp {
					re = arrBytes(pt, "Bytes")
				} else {
					re = arrBytes(pt, "RawBytes")
				}
				c.Check(e.name, key("reencode-differs"), bytes.Equal(re, b[:vd.N]), func() string {
					return fmt.Sprintf("accepted %s re-encodes to %s", hx(b[:vd.N]), hx(re))
				})
			}
		}
	}
}

func ptStr(r *grp, o outcome) string {
	if o.err != nil || o.panicked {
		return "-"
	}
	return r.fm.C.String(o.p)
}

// chunkBE writes v big-endian on n bytes; ok=false when it does not fit.
func chunkBE(v *big.Int, n int) ([]byte, bool) {
	if v.Sign() < 0 || v.BitLen() > 8*n {
		return nil, false
	}
	b := make([]byte, n)
	v.FillBytes(b)
	return b, true
}

// validPoints builds the valid-point workload of a group.
func validPoints(c *mon.Ctx, r *grp, rng *gen.Rng) (pts []namedPt) {
	C, F := r.fm.C, r.g.F
	add := func(n string, p ocurve.Pt, sub bool) {
		r.fm.Learn(p, sub)
		pts = append(pts, namedPt{n, p, sub})
	}
	G := r.g.G
	add("O", ocurve.Pt{Inf: true}, true)
	add("G", G, true)
	add("-G", C.Neg(G), true)
	add("[2]G", C.Double(G), true)
	for i := 0; i < c.Pick(4, 48); i++ {
		k := rng.BigBelow(r.g.R)
		add("[k]G", C.Mul(G, k), true)
	}
	// points with a prescribed y: y = 0 (2-torsion), the lexicographic boundary, 1, -1
	h := new(big.Int).Rsh(F.P, 1)
	h1 := new(big.Int).Add(h, big.NewInt(1))
	type ys struct {
		n string
		y ofield.El
	}
	var yl []ys
	mk := func(n string, at int, v *big.Int) {
		y := F.Zero()
		y[at].Set(v)
		yl = append(yl, ys{n, y})
	}
	d := F.Deg()
	yl = append(yl, ys{"y=0", F.Zero()})
	mk("y=(p-1)/2", 0, h)
	mk("y=(p+1)/2", 0, h1)
	mk("y=1", 0, big.NewInt(1))
	mk("y=p-1", 0, new(big.Int).Sub(F.P, big.NewInt(1)))
	if d > 1 {
		mk("y.top=(p-1)/2", d-1, h)
		mk("y.top=(p+1)/2", d-1, h1)
		mk("y.mid=(p+1)/2", 1, h1)
	}
	if !c.Thorough() && d > 2 {
		yl = yl[:5] // the root finder over Fp4 costs ~1 s per value
	}
	found := make([][]ocurve.Pt, len(yl))
	var wg sync.WaitGroup
	for i := range yl {
		wg.Add(1)
		go func(i int) {
			defer wg.Done()
			found[i] = ocodec.PointsWithY(C, yl[i].y)
		}(i)
	}
	wg.Wait()
	for k, e := range yl {
		for i, p := range found[k] {
			if i > 0 && !c.Thorough() {
				break
			}
			add("special:"+e.n, p, r.fm.InSubgroup(p))
		}
	}
	// over an extension field: points whose y lies in the base field (only the lowest coordinate is set), both signs.
	// The sign flag of such a point is decided by the tie-break of the lexicographic order; a curve point with a given
	// y exists for about one value in three, so small values are tried until one is found.
	if d > 1 {
		tries := c.Pick(6, 14)
		if d > 2 {
			tries = c.Pick(3, 8)
		}
		for v, got := int64(2), 0; v < int64(2+tries) && got < 1; v++ {
			y := F.Zero()
			y[0].SetInt64(v)
			if ps := ocodec.PointsWithY(C, y); len(ps) > 0 {
				got++
				add("special:y-in-base-field", ps[0], r.fm.InSubgroup(ps[0]))
				add("special:y-in-base-field(negated)", C.Neg(ps[0]), r.fm.InSubgroup(ps[0]))
			}
		}
	}
	// points of order 3 on the j = 0 curves (a = 0): x = 0 when b is a square, and the roots of x^3 = -4b
	if F.IsZero(C.A) {
		var xs []ofield.El
		xs = append(xs, F.Zero())
		xs = append(xs, ocodec.RootsOf(F, []ofield.El{F.MulInt(C.B, 4), F.Zero(), F.Zero(), F.One()})...)
		for i, x := range xs {
			if y, ok := r.fm.Root(x); ok {
				p := ocurve.Pt{X: x, Y: y}
				if !C.Add(C.Double(p), p).Inf {
					panic("c07: constructed 3-torsion point is not of order 3")
				}
				n := "special:order-3(x=0)"
				if i > 0 {
					n = "special:order-3(x^3=-4b)"
				}
				add(n, p, r.fm.InSubgroup(p))
				add(n, C.Neg(p), r.fm.InSubgroup(p))
			}
		}
	}
	// random points of the curve (outside the subgroup when the cofactor is not 1)
	want := c.Pick(2, 6)
	for tries := 0; want > 0 && tries < 200; tries++ {
		x := make(ofield.El, d)
		for i := range x {
			x[i] = rng.BigBelow(F.P)
		}
		if y, ok := r.fm.Root(x); ok {
			p := ocurve.Pt{X: x, Y: y}
			if rng.Bool() {
				p = C.Neg(p)
			}
			sub := r.fm.InSubgroup(p)
			n := "random-curve-point"
			if !sub {
				n = "on-curve-outside-subgroup"
			}
			add(n, p, sub)
			want--
		}
	}
	return
}

func runPoints(c *mon.Ctx, r *grp, s *slib) {
	q := &jobQueue{}
	judge := func(c *mon.Ctx, r *grp, s *slib, es []entry, b []byte, cls string) {
		b = append([]byte(nil), b...)
		q.jobs = append(q.jobs, func() {
			c.Guard(r.name+"/harness/panic", func() string { return cls + " " + hx(b) }, func() { judgeNow(c, r, s, es, b, cls) })
		})
	}
	defer q.run(6)
	rng := gen.New(c.Seed, "c07/points/"+r.name)
	es := pointEntries(r, s)
	fm := r.fm
	F := r.g.F
	sc, su := fm.SizeC(), fm.SizeU()
	mask := fm.Fam.Mask()
	pts := validPoints(c, r, rng)
	c.Extra("points/"+r.name, len(pts))

	// --- encoders against the reference encoder, decode of every produced string, trailing bytes ---
	for _, np := range pts {
		c.Current(r.name + " encode " + np.name)
		pt := r.newPoint(np.p)
		type encd struct {
			m    string
			comp bool
		}
		var ms []encd
		if r.lib.hasCompressed {
			ms = append(ms, encd{"Bytes", true})
		}
		ms = append(ms, encd{"RawBytes", false})
		cls := np.name
		for _, m := range ms {
			var got []byte
			if c.Guard(r.name+"/"+m.m+"/panic/"+cls, func() string { return fm.C.String(np.p) }, func() { got = arrBytes(pt, m.m) }) {
				continue
			}
			want := fm.Encode(np.p, m.comp)
			c.Class(r.name + "/" + m.m + "/" + cls)
			c.Check(m.m, r.name+"/"+m.m+"/encoding-mismatch/"+cls, bytes.Equal(got, want), func() string {
				return fmt.Sprintf("P=%s library=%s reference=%s", fm.C.String(np.p), hx(got), hx(want))
			})
			c.Check(m.m, r.name+"/"+m.m+"/receiver-modified/"+cls, fm.C.Eq(r.readPoint(pt), np.p), func() string { return fm.C.String(np.p) })
			judge(c, r, s, es, want, "valid:"+np.name+"/"+m.m)
			// trailing bytes: garbage, and enough of it to look like the longer form
			tr := append(append([]byte(nil), want...), rng.Bytes(1+rng.Intn(3))...)
			judge(c, r, s, es[:1], tr, "valid+trailing-garbage:"+np.name+"/"+m.m)
			if m.comp {
				tr = append(append([]byte(nil), want...), rng.Bytes(sc)...)
				judge(c, r, s, es[:1], tr, "valid+trailing-garbage:"+np.name+"/"+m.m)
			}
		}
		if r.lib.hasMarshal {
			var got []byte
			c.Guard(r.name+"/Marshal/panic/"+cls, func() string { return fm.C.String(np.p) }, func() { got = pt.Interface().(marshalAPI).Marshal() })
			c.Check("Marshal", r.name+"/Marshal/encoding-mismatch/"+cls, bytes.Equal(got, fm.Encode(np.p, false)), func() string {
				return fmt.Sprintf("P=%s Marshal=%s reference raw=%s", fm.C.String(np.p), hx(got), hx(fm.Encode(np.p, false)))
			})
		}
	}

	// a base subgroup point for the hostile variations
	var Q ocurve.Pt
	for _, np := range pts {
		if np.name == "[k]G" {
			Q = np.p
			break
		}
	}
	cQ, rQ := fm.Encode(Q, true), fm.Encode(Q, false)
	if fm.Fam == ocodec.NoFlags {
		cQ = nil
	}
	withFlags := func(b []byte, fl byte) []byte {
		o := append([]byte(nil), b...)
		o[0] = o[0]&^mask | fl
		return o
	}

	// --- (a) every flag pattern x payload shapes ---
	if fm.Fam != ocodec.NoFlags {
		for _, fl := range fm.Fam.Patterns() {
			lbl := fmt.Sprintf("flags=%#02x", fl)
			judge(c, r, s, es, withFlags(cQ, fl), lbl+"/payload=x(Q)")
			judge(c, r, s, es, withFlags(rQ, fl), lbl+"/payload=x(Q)|y(Q)")
			judge(c, r, s, es, withFlags(make([]byte, sc), fl), lbl+"/payload=zero/compressed-size")
			judge(c, r, s, es, withFlags(make([]byte, su), fl), lbl+"/payload=zero/raw-size")
			ff := bytes.Repeat([]byte{0xff}, su)
			judge(c, r, s, es, withFlags(ff, fl), lbl+"/payload=all-ones")
		}
	} else {
		judge(c, r, s, es, make([]byte, su), "payload=zero/raw-size")
		judge(c, r, s, es, bytes.Repeat([]byte{0xff}, su), "payload=all-ones")
	}

	// --- (b) non-canonical coordinates: each coefficient chunk = p, p+1, v+p, all-ones ---
	compFlag := byte(0x80)
	p := F.P
	nchunks := 2 * F.Deg()
	for ch := 0; ch < nchunks; ch++ {
		avail := 8 * r.lib.fpBytes
		for _, form := range []string{"compressed", "raw"} {
			if form == "compressed" && (ch >= F.Deg() || fm.Fam == ocodec.NoFlags) {
				continue
			}
			base := rQ
			if form == "compressed" {
				base = cQ
			}
			bits := avail
			if ch == 0 {
				for m := mask; m != 0; m <<= 1 {
					bits--
				}
			}
			old := new(big.Int).SetBytes(base[ch*r.lib.fpBytes : (ch+1)*r.lib.fpBytes])
			if ch == 0 {
				ob := append([]byte(nil), base[:r.lib.fpBytes]...)
				ob[0] &^= mask
				old.SetBytes(ob)
			}
			vars := []struct {
				n string
				v *big.Int
			}{
				{"=p", p}, {"=p+1", new(big.Int).Add(p, big.NewInt(1))}, {"=v+p", new(big.Int).Add(old, p)},
				{"=all-ones", new(big.Int).Sub(new(big.Int).Lsh(big.NewInt(1), uint(bits)), big.NewInt(1))},
				{"=p-1", new(big.Int).Sub(p, big.NewInt(1))}, {"=0", new(big.Int)},
			}
			for _, va := range vars {
				if va.v.BitLen() > bits {
					continue
				}
				cb, _ := chunkBE(va.v, r.lib.fpBytes)
				o := append([]byte(nil), base...)
				copy(o[ch*r.lib.fpBytes:], cb)
				if ch == 0 && form == "compressed" {
					o[0] |= compFlag
				}
				judge(c, r, s, es, o, fmt.Sprintf("%s/chunk%d%s", form, ch, va.n))
			}
		}
	}

	// --- (b') the curve point with the smallest abscissa: where the modulus nearly fills its bytes, v+p only fits for
	// such a v (prime fields; the model judges the bytes, whatever group the point is in) ---
	if F.Deg() == 1 {
		bits := 8 * r.lib.fpBytes
		for m := mask; m != 0; m <<= 1 {
			bits--
		}
		for k := int64(0); k < 64; k++ {
			x := F.FromInt64(k)
			y, ok := fm.Root(x)
			if !ok {
				continue
			}
			P := ocurve.Pt{X: x, Y: y}
			raw := fm.Encode(P, false)
			judge(c, r, s, es, raw, "raw/smallest-abscissa")
			v := new(big.Int).Add(big.NewInt(k), p)
			if v.BitLen() <= bits {
				cb, _ := chunkBE(v, r.lib.fpBytes)
				o := append([]byte(nil), raw...)
				copy(o, cb)
				judge(c, r, s, es, o, "raw/chunk0=v+p/smallest-abscissa")
				if fm.Fam != ocodec.NoFlags {
					cp := fm.Encode(P, true)
					o2 := append([]byte(nil), cp...)
					copy(o2, cb)
					o2[0] |= cp[0] & mask
					judge(c, r, s, es, o2, "compressed/chunk0=v+p/smallest-abscissa")
				}
			}
			break
		}
	}

	// --- (c) x without a square root, x of curve points outside the subgroup, both signs ---
	if fm.Fam != ocodec.NoFlags {
		x := F.Copy(Q.X)
		for i := 0; i < 64; i++ {
			x[0] = new(big.Int).Mod(new(big.Int).Add(x[0], big.NewInt(1)), p)
			if _, ok := fm.Root(x); !ok {
				break
			}
		}
		ser := fm.Ser(x)
		for _, fl := range fm.Fam.Patterns() {
			if f := fm.Fam.Parse(fl); f.Valid && f.Compressed && !f.Infinity {
				judge(c, r, s, es, withFlags(ser, fl), fmt.Sprintf("compressed/x-without-root/flags=%#02x", fl))
			}
		}
	}
	for _, np := range pts {
		if np.sub || np.p.Inf {
			continue
		}
		if fm.Fam != ocodec.NoFlags {
			b := fm.Encode(np.p, true)
			judge(c, r, s, es, b, "compressed/"+np.name)
			// the opposite sign flag denotes -P
			for _, fl := range fm.Fam.Patterns() {
				if f := fm.Fam.Parse(fl); f.Valid && f.Compressed && !f.Infinity && fl != b[0]&mask {
					judge(c, r, s, es, withFlags(b, fl), "compressed/opposite-sign-flag/"+np.name)
				}
			}
		}
		judge(c, r, s, es, fm.Encode(np.p, false), "raw/"+np.name)
	}

	// --- (e) raw pairs that are not on the curve ---
	{
		mkRaw := func(x, y ofield.El) []byte { return append(fm.Ser(x), fm.Ser(y)...) }
		one := F.One()
		judge(c, r, s, es, mkRaw(Q.X, F.Add(Q.Y, one)), "raw/y+1")
		judge(c, r, s, es, mkRaw(F.Add(Q.X, one), Q.Y), "raw/x+1")
		judge(c, r, s, es, mkRaw(Q.X, F.Zero()), "raw/y=0")
		judge(c, r, s, es, mkRaw(F.Zero(), Q.Y), "raw/x=0")
		judge(c, r, s, es, mkRaw(Q.X, F.Neg(Q.Y)), "raw/-Q")
		if top := mkRaw(Q.Y, Q.X); top[0]&mask == 0 {
			judge(c, r, s, es, top, "raw/swapped-coordinates")
		}
		small := F.Zero()
		small[0].SetInt64(1)
		judge(c, r, s, es, mkRaw(small, small), "raw/(1,1)")
	}

	// --- (g) infinity encodings with one payload bit set, at every byte position ---
	if fm.Fam != ocodec.NoFlags {
		for _, fl := range fm.Fam.Patterns() {
			f := fm.Fam.Parse(fl)
			if !f.Valid || !f.Infinity {
				continue
			}
			n := su
			form := "raw"
			if f.Compressed {
				n, form = sc, "compressed"
			}
			for pos := 0; pos < n; pos++ {
				if !c.Thorough() && pos > 2 && pos < n-2 && pos%r.lib.fpBytes > 1 && rng.Intn(4) != 0 {
					continue // quick: chunk borders + a seeded quarter of the interior
				}
				o := make([]byte, n)
				bit := byte(1) << uint(rng.Intn(8))
				if pos == 0 {
					bit = (byte(1) << uint(rng.Intn(8))) &^ mask
					if bit == 0 {
						bit = 1
					}
				}
				o[pos] = bit
				o[0] |= fl
				judge(c, r, s, es, o, fmt.Sprintf("%s-infinity-with-payload-bit/byte%s", form, posClass(pos, n, r.lib.fpBytes)))
			}
		}
	}
	// raw all-zero but one bit (the 2-bit and flag-less families encode raw infinity as all zero)
	for pos := 0; pos < su; pos++ {
		if !c.Thorough() && pos > 2 && pos < su-2 && rng.Intn(6) != 0 {
			continue
		}
		o := make([]byte, su)
		o[pos] = 1
		if pos == 0 && mask&1 != 0 {
			continue
		}
		judge(c, r, s, es, o, fmt.Sprintf("raw-zero-with-one-bit/byte%s", posClass(pos, su, r.lib.fpBytes)))
	}

	// --- (h) truncation of valid encodings at every length ---
	for _, enc := range [][]byte{cQ, rQ} {
		if enc == nil {
			continue
		}
		form := "raw"
		if len(enc) == sc {
			form = "compressed"
		}
		for l := 0; l < len(enc); l++ {
			lc := "short"
			if l >= sc {
				lc = "between-compressed-and-raw-size"
			}
			judge(c, r, s, es, enc[:l], "truncated/"+form+"/"+lc)
		}
	}

	// --- (i) random strings, (k) bit flips of a valid encoding ---
	for i := 0; i < c.Pick(8, 200); i++ {
		b := rng.Bytes(su)
		judge(c, r, s, es, b, fmt.Sprintf("random-bytes/flags=%#02x", b[0]&mask))
	}
	for _, enc := range [][]byte{cQ, rQ} {
		if enc == nil {
			continue
		}
		form := "raw"
		if len(enc) == sc {
			form = "compressed"
		}
		for i := 0; i < c.Pick(8, 256); i++ {
			o := append([]byte(nil), enc...)
			bit := rng.Intn(8 * len(o))
			o[bit/8] ^= 1 << uint(bit%8)
			judge(c, r, s, es, o, "bit-flip/"+form)
		}
	}
}

// posClass collapses a byte position into a small number of classes for violation keys.
func posClass(pos, n, fpBytes int) string {
	switch {
	case pos == 0:
		return "=first"
	case pos == n-1:
		return "=last"
	case pos%fpBytes == 0:
		return "=chunk-start"
	case pos%fpBytes == fpBytes-1:
		return "=chunk-end"
	}
	return "=interior"
}

var _ = reflect.TypeOf
