package main

import (
	"fmt"
	"io"
	"math/big"
	"reflect"

	"verif/harness/adapt/groups"
	"verif/harness/adapt/towers"
	"verif/harness/oracle/ocodec"
	"verif/harness/oracle/ocurve"
	"verif/harness/oracle/ofield"
)

// ---- reflection bridge between model values and library values ----

type bigGetter interface{ BigInt(*big.Int) *big.Int }

type pointAPI interface {
	SetBytes([]byte) (int, error)
	IsOnCurve() bool
	IsInSubGroup() bool
}
type marshalAPI interface {
	Marshal() []byte
	Unmarshal([]byte) error
}
type encAPI interface {
	Encode(v interface{}) error
	BytesWritten() int64
}
type decAPI interface {
	Decode(v interface{}) error
	BytesRead() int64
}

// grp is one group bound to its library package, its oracle curve and its reference format.
type grp struct {
	lib   *curveLib
	which int // 1 or 2
	name  string
	g     *groups.Group
	fm    *ocodec.Format
	T     reflect.Type
	deg   int
}

func (l *curveLib) bind(which int) (*grp, error) {
	nm := fmt.Sprintf("%s/G%d", l.name, which)
	var g *groups.Group
	for _, e := range groups.All {
		if e.Name == nm {
			g = e.New()
		}
	}
	if g == nil {
		return nil, fmt.Errorf("%s: no group adapter", nm)
	}
	if err := g.Bind(); err != nil {
		return nil, err
	}
	T := l.g1T
	if which == 2 {
		T = l.g2T
	}
	r := &grp{lib: l, which: which, name: nm, g: g, T: T, deg: g.F.Deg()}
	r.fm = ocodec.NewFormat(nm, g.C, g.R, l.fpBytes, l.fam)
	// the reference sizes are derived from the field degree and fp.Bytes; the library constants must agree
	sc, su := l.sizes[2*(which-1)], l.sizes[2*(which-1)+1]
	if sc != r.fm.SizeC() || su != r.fm.SizeU() {
		return nil, fmt.Errorf("%s: library sizes %d/%d, documented format %d/%d", nm, sc, su, r.fm.SizeC(), r.fm.SizeU())
	}
	// the generator must survive the bridge
	p := r.newPoint(g.G)
	if !p.Interface().(pointAPI).IsOnCurve() || !r.fm.C.Eq(r.readPoint(p), g.G) {
		return nil, fmt.Errorf("%s: reflection bridge does not preserve the generator", nm)
	}
	r.fm.MarkSubgroup(g.G)
	return r, nil
}

// newPoint builds a library point (pointer) from an oracle point; infinity is (0,0).
func (r *grp) newPoint(p ocurve.Pt) reflect.Value {
	v := reflect.New(r.T)
	r.setPoint(v, p)
	return v
}

func (r *grp) setPoint(ptr reflect.Value, p ocurve.Pt) {
	F := r.g.F
	var e ofield.El
	if p.Inf {
		e = append(F.Zero(), F.Zero()...)
	} else {
		e = append(F.Copy(p.X), F.Copy(p.Y)...)
	}
	towers.Unflatten(ptr.Interface(), e)
}

func (r *grp) readPoint(ptr reflect.Value) ocurve.Pt {
	e := towers.Flatten(ptr.Interface())
	x, y := e[:r.deg], e[r.deg:]
	if r.g.F.IsZero(x) && r.g.F.IsZero(y) {
		return ocurve.Pt{Inf: true}
	}
	return ocurve.Pt{X: x, Y: y}
}

// arrBytes calls a method returning a byte array and returns it as a slice.
func arrBytes(ptr reflect.Value, method string) []byte {
	m := ptr.MethodByName(method)
	if !m.IsValid() {
		panic("c07: no method " + method + " on " + ptr.Type().String())
	}
	out := m.Call(nil)[0]
	b := make([]byte, out.Len())
	reflect.Copy(reflect.ValueOf(b), out)
	return b
}

func setEl(ptr reflect.Value, v *big.Int) {
	ptr.MethodByName("SetBigInt").Call([]reflect.Value{reflect.ValueOf(v)})
}
func getEl(ptr reflect.Value) *big.Int {
	return ptr.Interface().(bigGetter).BigInt(new(big.Int))
}

// blob is a caller-defined value travelling through the io.WriterTo / io.ReaderFrom path of the codec.
type blob struct{ data []byte }

func (b *blob) WriteTo(w io.Writer) (int64, error) { n, err := w.Write(b.data); return int64(n), err }
func (b *blob) ReadFrom(r io.Reader) (int64, error) {
	n, err := io.ReadFull(r, b.data)
	return int64(n), err
}

// stream side -----------------------------------------------------------------------------------

type slib struct {
	l      *curveLib
	g1, g2 *grp
	gr     *ocodec.Grammar
}

func (s *slib) encoder(w io.Writer, raw bool) encAPI {
	args := []reflect.Value{reflect.ValueOf(&w).Elem()}
	if raw {
		args = append(args, reflect.ValueOf(s.l.rawOpt).Call(nil)[0])
	}
	return reflect.ValueOf(s.l.newEnc).Call(args)[0].Interface().(encAPI)
}

func (s *slib) decoder(rd io.Reader, noSub bool) decAPI {
	args := []reflect.Value{reflect.ValueOf(&rd).Elem()}
	if noSub {
		args = append(args, reflect.ValueOf(s.l.noSub).Call(nil)[0])
	}
	return reflect.ValueOf(s.l.newDec).Call(args)[0].Interface().(decAPI)
}

func (s *slib) elT(k ocodec.Kind) (reflect.Type, reflect.Type) {
	switch k {
	case ocodec.KFr, ocodec.KFrs, ocodec.KFrss, ocodec.KFrsss:
		return s.l.frT, s.l.frVecT
	}
	return s.l.fpT, s.l.fpVecT
}

func (s *slib) grpOf(k ocodec.Kind) *grp {
	if k == ocodec.KG2 || k == ocodec.KG2s {
		return s.g2
	}
	return s.g1
}

func (s *slib) elSlice(T reflect.Type, es []*big.Int) reflect.Value {
	sl := reflect.MakeSlice(reflect.SliceOf(T), len(es), len(es))
	for i, e := range es {
		setEl(sl.Index(i).Addr(), e)
	}
	return sl
}

// forms of the encoder argument: 0 = the plain documented form; 1 = the alternative accepted form
// (fr.Vector value for []fr, *[]G1Affine for []G1Affine); 2 = *fr.Vector (io.WriterTo path).
func (s *slib) toLib(v ocodec.Val, form int) any {
	switch v.Kind {
	case ocodec.KBlob:
		return &blob{data: append([]byte(nil), v.B...)}
	case ocodec.KU64:
		return v.U[0]
	case ocodec.KU32:
		return uint32(v.U[0])
	case ocodec.KU64s:
		return append([]uint64{}, v.U...)
	case ocodec.KU64ss:
		out := make([][]uint64, len(v.UU))
		for i := range out {
			out[i] = append([]uint64{}, v.UU[i]...)
		}
		return out
	case ocodec.KFr, ocodec.KFp:
		T, _ := s.elT(v.Kind)
		p := reflect.New(T)
		setEl(p, v.E[0])
		return p.Interface()
	case ocodec.KFrs, ocodec.KFps:
		T, VT := s.elT(v.Kind)
		sl := s.elSlice(T, v.E)
		switch form {
		case 1:
			return sl.Convert(VT).Interface()
		case 2:
			p := reflect.New(VT)
			p.Elem().Set(sl.Convert(VT))
			return p.Interface()
		}
		return sl.Interface()
	case ocodec.KFrss:
		T, _ := s.elT(v.Kind)
		out := reflect.MakeSlice(reflect.SliceOf(reflect.SliceOf(T)), len(v.EE), len(v.EE))
		for i := range v.EE {
			out.Index(i).Set(s.elSlice(T, v.EE[i]))
		}
		return out.Interface()
	case ocodec.KFrsss:
		T, _ := s.elT(v.Kind)
		st := reflect.SliceOf(reflect.SliceOf(T))
		out := reflect.MakeSlice(reflect.SliceOf(st), len(v.EEE), len(v.EEE))
		for i := range v.EEE {
			in := reflect.MakeSlice(st, len(v.EEE[i]), len(v.EEE[i]))
			for j := range v.EEE[i] {
				in.Index(j).Set(s.elSlice(T, v.EEE[i][j]))
			}
			out.Index(i).Set(in)
		}
		return out.Interface()
	case ocodec.KG1, ocodec.KG2:
		return s.grpOf(v.Kind).newPoint(v.P[0]).Interface()
	case ocodec.KG1s, ocodec.KG2s:
		g := s.grpOf(v.Kind)
		sl := reflect.MakeSlice(reflect.SliceOf(g.T), len(v.P), len(v.P))
		for i, p := range v.P {
			g.setPoint(sl.Index(i).Addr(), p)
		}
		if form == 1 {
			p := reflect.New(sl.Type())
			p.Elem().Set(sl)
			return p.Interface()
		}
		return sl.Interface()
	}
	panic("c07: bad kind")
}

// newTarget returns a pointer suitable for Decoder.Decode; form 1 selects *fr.Vector (io.ReaderFrom path) for
// the vector kinds; a non-nil dirty value pre-populates the target (stale content, reuse paths).
func (s *slib) newTarget(k ocodec.Kind, form int, dirty *ocodec.Val) reflect.Value {
	var T reflect.Type
	switch k {
	case ocodec.KBlob:
		return reflect.ValueOf(&blob{data: make([]byte, s.gr.BlobLen)})
	case ocodec.KU64:
		T = reflect.TypeOf(uint64(0))
	case ocodec.KU32:
		T = reflect.TypeOf(uint32(0))
	case ocodec.KU64s:
		T = reflect.TypeOf([]uint64{})
	case ocodec.KU64ss:
		T = reflect.TypeOf([][]uint64{})
	case ocodec.KFr, ocodec.KFp:
		T, _ = s.elT(k)
	case ocodec.KFrs, ocodec.KFps:
		et, vt := s.elT(k)
		T = reflect.SliceOf(et)
		if form == 1 {
			T = vt
		}
	case ocodec.KFrss:
		et, _ := s.elT(k)
		T = reflect.SliceOf(reflect.SliceOf(et))
	case ocodec.KFrsss:
		et, _ := s.elT(k)
		T = reflect.SliceOf(reflect.SliceOf(reflect.SliceOf(et)))
	case ocodec.KG1, ocodec.KG2:
		T = s.grpOf(k).T
	case ocodec.KG1s, ocodec.KG2s:
		T = reflect.SliceOf(s.grpOf(k).T)
	}
	p := reflect.New(T)
	if dirty != nil {
		src := reflect.ValueOf(s.toLib(*dirty, 0))
		if src.Kind() == reflect.Ptr {
			src = src.Elem()
		}
		if src.Type().ConvertibleTo(T) {
			p.Elem().Set(src.Convert(T))
		}
	}
	return p
}

func (s *slib) fromLib(ptr reflect.Value, k ocodec.Kind) ocodec.Val {
	v := ocodec.Val{Kind: k}
	e := ptr.Elem()
	els := func(sl reflect.Value) []*big.Int {
		out := make([]*big.Int, sl.Len())
		for i := range out {
			out[i] = getEl(sl.Index(i).Addr())
		}
		return out
	}
	switch k {
	case ocodec.KBlob:
		v.B = append([]byte(nil), ptr.Interface().(*blob).data...)
	case ocodec.KU64, ocodec.KU32:
		v.U = []uint64{e.Uint()}
	case ocodec.KU64s:
		v.U = append([]uint64{}, e.Interface().([]uint64)...)
	case ocodec.KU64ss:
		for _, r := range e.Interface().([][]uint64) {
			v.UU = append(v.UU, append([]uint64{}, r...))
		}
	case ocodec.KFr, ocodec.KFp:
		v.E = []*big.Int{getEl(ptr)}
	case ocodec.KFrs, ocodec.KFps:
		v.E = els(e)
	case ocodec.KFrss:
		for i := 0; i < e.Len(); i++ {
			v.EE = append(v.EE, els(e.Index(i)))
		}
	case ocodec.KFrsss:
		for i := 0; i < e.Len(); i++ {
			var ss [][]*big.Int
			for j := 0; j < e.Index(i).Len(); j++ {
				ss = append(ss, els(e.Index(i).Index(j)))
			}
			v.EEE = append(v.EEE, ss)
		}
	case ocodec.KG1, ocodec.KG2:
		v.P = []ocurve.Pt{s.grpOf(k).readPoint(ptr)}
	case ocodec.KG1s, ocodec.KG2s:
		g := s.grpOf(k)
		for i := 0; i < e.Len(); i++ {
			v.P = append(v.P, g.readPoint(e.Index(i).Addr()))
		}
	}
	return v
}
