package main

import (
	"bytes"
	"fmt"
	"sync"

	"verif/harness/gen"
	"verif/harness/mon"
	"verif/harness/oracle/ocodec"
	"verif/harness/oracle/ocurve"
)

// runRace (built with -race): several goroutines decode the same input bytes (shared backing array) into
// their own targets while others call SetBytes / Unmarshal on a shared buffer and encode a shared slice.
// The library's two-phase slice decoder runs its own worker goroutines underneath. Any write to shared input,
// or any unsynchronised access inside the decoder, is reported by the race detector (the driver turns every
// report into a violation); values are still compared with the model.
func runRace(c *mon.Ctx, s *slib) {
	L := s.l.name
	rng := gen.New(c.Seed, "c07/race/"+L)
	pl := &pools{g1: mkPool(s.g1, rng, 40)}
	if s.g2 != nil {
		pl.g2 = mkPool(s.g2, rng, 40)
	}
	rounds := c.Pick(3, 12)
	workers := 6
	for _, k := range []ocodec.Kind{ocodec.KG1s, ocodec.KG2s} {
		g := s.grpOf(k)
		if g == nil {
			continue
		}
		for _, n := range []int{3, 65} {
			v := s.genVal(k, rng, pl, n)
			// mix both forms inside one slice so that both branches of the first phase run
			st := []byte{0, 0, 0, byte(n)}
			for i, p := range v.P {
				st = append(st, g.fm.Encode(p, i%3 != 0)...)
			}
			// the same slice with several malformed entries spread over the worker chunks: phase two must report them
			pool := pl.g1
			if k == ocodec.KG2s {
				pool = pl.g2
			}
			bads := badPoints(g, rng, pool)
			var noroot []byte
			for _, b := range bads {
				if b.cls == "compressed/x-without-root" {
					noroot = b.b
				}
			}
			bad := []byte{0, 0, 0, byte(n)}
			for i, p := range v.P {
				if noroot != nil && (i%16 == 1 || i == n-1) {
					bad = append(bad, noroot...)
				} else {
					bad = append(bad, g.fm.Encode(p, true)...)
				}
			}
			one := g.fm.Encode(v.P[n-1], true)
			shared := reflectSlice(s, v)
			var wg sync.WaitGroup
			for w := 0; w < workers; w++ {
				w := w
				wg.Add(1)
				go func() {
					defer wg.Done()
					lr := gen.New(c.Seed, fmt.Sprintf("c07/race/%s/%v/%d/%d", L, k, n, w))
					for r := 0; r < rounds; r++ {
						key := fmt.Sprintf("%s/%v/Decoder.Decode/concurrent/n=%s", L, k, sizeClass(v))
						switch (w + r) % 4 {
						case 3:
							if noroot == nil {
								continue
							}
							dec := s.decoder(bytes.NewReader(bad), w%2 == 1)
							t := s.newTarget(k, 0, nil)
							var err error
							if c.Guard(key+"/panic", func() string { return hx(bad) }, func() { err = dec.Decode(t.Interface()) }) {
								return
							}
							c.Check("Decoder.Decode", key+"/nil-error-on-malformed/several-x-without-root", err != nil, func() string {
								return "a slice with several compressed points without square root decoded without error: " + hx(bad)
							})
						case 0, 1:
							dec := s.decoder(bytes.NewReader(st), w%2 == 1)
							var dirty *ocodec.Val
							if lr.Bool() {
								d := s.genVal(k, lr, pl, n)
								dirty = &d
							}
							t := s.newTarget(k, 0, dirty)
							var err error
							if c.Guard(key+"/panic", func() string { return hx(st) }, func() { err = dec.Decode(t.Interface()) }) {
								return
							}
							c.Class(key)
							if c.Check("Decoder.Decode", key+"/error-on-valid", err == nil, func() string { return fmt.Sprintf("%v on %s", err, hx(st)) }) {
								got := s.fromLib(t, k)
								c.Check("Decoder.Decode", key+"/wrong-value", s.gr.Equal(got, v), func() string {
									return fmt.Sprintf("decoded %s, expected %s from %s", s.gr.Describe(got), s.gr.Describe(v), hx(st))
								})
							}
						case 2:
							// single-point decoders on a shared buffer + an encoder over a shared slice
							pt := g.newPoint(ocurve.Pt{Inf: true})
							_, err := pt.Interface().(pointAPI).SetBytes(one)
							c.Check("SetBytes", fmt.Sprintf("%s/SetBytes/concurrent/error-on-valid", g.name), err == nil && g.fm.C.Eq(g.readPoint(pt), v.P[n-1]),
								func() string { return fmt.Sprintf("err=%v on %s", err, hx(one)) })
							var buf bytes.Buffer
							enc := s.encoder(&buf, r%2 == 0)
							err = enc.Encode(shared)
							want := s.gr.Encode(v, r%2 == 0)
							c.Check("Encoder.Encode", fmt.Sprintf("%s/%v/Encoder.Encode/concurrent/encoding-mismatch", L, k), err == nil && bytes.Equal(buf.Bytes(), want),
								func() string { return fmt.Sprintf("err=%v got %s want %s", err, hx(buf.Bytes()), hx(want)) })
						}
					}
				}()
			}
			wg.Wait()
		}
	}
}

func reflectSlice(s *slib, v ocodec.Val) any { return s.toLib(v, 0) }
