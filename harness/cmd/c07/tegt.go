package main

import (
	"bytes"
	"fmt"
	"math/big"
	"reflect"

	"verif/harness/adapt/te"
	"verif/harness/adapt/towers"
	"verif/harness/gen"
	"verif/harness/mon"
	"verif/harness/oracle/ocodec"
	"verif/harness/oracle/ofield"
	"verif/harness/oracle/oted"
)

// ---- twisted Edwards PointAffine.Bytes / Marshal / SetBytes / Unmarshal ----

type tePointAPI interface {
	Marshal() []byte
	Unmarshal([]byte) error
	SetBytes([]byte) (int, error)
}

func runTE(c *mon.Ctx, name string, g *te.Curve) {
	rng := gen.New(c.Seed, "c07/te/"+name)
	F := g.F
	lib := func(p oted.Pt) tePointAPI { return g.Lib(g.Rep(p, "aff", nil)).(tePointAPI) }
	read := func(p tePointAPI) oted.Pt {
		r := g.FromLib(p)
		return oted.Pt{X: r.C[0], Y: r.C[1]}
	}
	size := len(lib(g.B).Marshal())
	if want := (g.Q.BitLen() + 63) / 64 * 8; size != want {
		c.Fail(name+"/PointAffine.Marshal/size", "Marshal returns %d bytes, fr.Bytes is %d", size, want)
		return
	}
	ref := &ocodec.TE{C: g.C, Size: size}

	type np struct {
		n string
		p oted.Pt
	}
	pts := []np{{"O", g.C.Zero()}, {"base", g.B}, {"-base", g.C.Neg(g.B)}}
	pts = append(pts, np{"(0,-1)", oted.Pt{X: F.Zero(), Y: F.Neg(F.One())}})
	if p, ok := g.C.LiftY(F.Zero()); ok {
		pts = append(pts, np{"y=0", p}, np{"y=0,-x", g.C.Neg(p)})
	}
	for i := 0; i < c.Pick(4, 24); i++ {
		if p, ok := g.C.TryMul(g.B, rng.BigBelow(g.Order)); ok {
			pts = append(pts, np{"[k]base", p})
		}
	}
	for i, tries := 0, 0; i < c.Pick(4, 24) && tries < 400; tries++ {
		if p, ok := g.C.LiftY(ofield.El{rng.BigBelow(g.Q)}); ok {
			if rng.Bool() {
				p = g.C.Neg(p)
			}
			pts = append(pts, np{"random-curve-point", p})
			i++
		}
	}

	judge := func(b []byte, cls string) {
		vd := ref.Decode(b)
		for _, op := range []string{"SetBytes", "Unmarshal"} {
			key := func(kind string) string { return name + "/PointAffine." + op + "/" + kind + "/" + cls }
			in := exact(b)
			p := lib(g.B)
			var err error
			n := -1
			desc := func() string {
				got := "-"
				if err == nil {
					got = g.C.String(read(p))
				}
				return fmt.Sprintf("input(%d bytes)=%s: library err=%v n=%d point=%s; reference ok=%v why=%q point=%s", len(b), hx(b), err, n, got, vd.OK, vd.Why, refStr(g, vd))
			}
			c.Class(name + "/PointAffine." + op + "/" + cls)
			if c.Guard(key("panic"), func() string { return hx(b) }, func() {
				if op == "SetBytes" {
					n, err = p.SetBytes(in)
				} else {
					err = p.Unmarshal(in)
				}
			}) {
				continue
			}
			c.Check(op, key("input-modified"), bytes.Equal(in, b), desc)
			switch {
			case vd.OK && err != nil:
				c.Check(op, key("rejects-valid"), false, desc)
			case !vd.OK && err == nil:
				c.Check(op, key("accepts-invalid/"+vd.Why), false, desc)
			case !vd.OK:
				c.Eval(op, 1)
			default:
				got := read(p)
				c.Check(op, key("wrong-value"), g.C.Eq(got, vd.P), desc)
				if op == "SetBytes" {
					c.Check(op, key("consumed-mismatch"), n == size, desc)
				}
				re := lib(got).Marshal()
				c.Check(op, key("reencode-differs"), bytes.Equal(re, b[:size]), func() string {
					return fmt.Sprintf("accepted %s re-encodes to %s", hx(b[:size]), hx(re))
				})
			}
		}
	}

	for _, e := range pts {
		p := lib(e.p)
		want := ref.Encode(e.p)
		var got, got2 []byte
		if c.Guard(name+"/PointAffine.Bytes/panic/"+e.n, func() string { return g.C.String(e.p) }, func() {
			got = arrBytes(reflect.ValueOf(p), "Bytes")
			got2 = p.Marshal()
		}) {
			continue
		}
		c.Class(name + "/PointAffine.Bytes/" + e.n)
		c.Check("Bytes", name+"/PointAffine.Bytes/encoding-mismatch/"+e.n, bytes.Equal(got, want), func() string {
			return fmt.Sprintf("P=%s library=%s reference=%s", g.C.String(e.p), hx(got), hx(want))
		})
		c.Check("Marshal", name+"/PointAffine.Marshal/encoding-mismatch/"+e.n, bytes.Equal(got2, want), func() string {
			return fmt.Sprintf("P=%s library=%s reference=%s", g.C.String(e.p), hx(got2), hx(want))
		})
		c.Check("Bytes", name+"/PointAffine.Bytes/receiver-modified/"+e.n, g.C.Eq(read(p), e.p), func() string { return g.C.String(e.p) })
		judge(want, "valid:"+e.n)
		judge(append(append([]byte(nil), want...), rng.Bytes(1+rng.Intn(5))...), "valid+trailing-garbage:"+e.n)
		// the opposite sign bit: -P, or the forbidden x = 0 with the sign bit
		o := append([]byte(nil), want...)
		o[size-1] ^= 0x80
		cls := "sign-bit-flipped:" + e.n
		judge(o, cls)
	}

	// hostile y values: little-endian, sign bit clear / set
	le := func(v *big.Int, sign bool) ([]byte, bool) {
		if v.BitLen() > 8*size-1 {
			return nil, false
		}
		be := make([]byte, size)
		v.FillBytes(be)
		out := make([]byte, size)
		for i := range be {
			out[size-1-i] = be[i]
		}
		if sign {
			out[size-1] |= 0x80
		}
		return out, true
	}
	q := g.Q
	by := g.B.Y[0]
	var noroot *big.Int
	for y := new(big.Int).Set(by); ; y = new(big.Int).Add(y, big.NewInt(1)) {
		if _, ok := g.C.LiftY(ofield.El{new(big.Int).Mod(y, q)}); !ok {
			noroot = new(big.Int).Mod(y, q)
			break
		}
	}
	hostile := []struct {
		n string
		v *big.Int
	}{
		{"y=q", q}, {"y=q+1(alias-of-O)", new(big.Int).Add(q, big.NewInt(1))}, {"y=y(base)+q", new(big.Int).Add(by, q)},
		{"y=q-1+q", new(big.Int).Add(new(big.Int).Sub(q, big.NewInt(1)), q)},
		{"y=all-ones", new(big.Int).Sub(new(big.Int).Lsh(big.NewInt(1), uint(8*size-1)), big.NewInt(1))},
		{"y=2^bits(q)", new(big.Int).Lsh(big.NewInt(1), uint(q.BitLen()))},
		{"y-without-root", noroot},
		{"y=0", new(big.Int)}, {"y=1", big.NewInt(1)}, {"y=q-1", new(big.Int).Sub(q, big.NewInt(1))},
	}
	for _, h := range hostile {
		for _, sign := range []bool{false, true} {
			if b, ok := le(h.v, sign); ok {
				judge(b, fmt.Sprintf("%s/sign=%v", h.n, sign))
			}
		}
	}
	valid := ref.Encode(g.B)
	for l := 0; l < size; l++ {
		judge(valid[:l], "truncated")
	}
	for i := 0; i < c.Pick(16, 200); i++ {
		judge(rng.Bytes(size), "random-bytes")
	}
	for i := 0; i < c.Pick(8, 64); i++ {
		o := append([]byte(nil), valid...)
		bit := rng.Intn(8 * size)
		o[bit/8] ^= 1 << uint(bit%8)
		judge(o, "bit-flip")
	}
}

func refStr(g *te.Curve, vd ocodec.TEVerdict) string {
	if !vd.OK {
		return "-"
	}
	return g.C.String(vd.P)
}

// ---- GT (E12 / E24 / E6) Bytes / Marshal / SetBytes / Unmarshal ----

type gtAPI interface {
	SetBytes([]byte) error
}

// gtMarshalAPI is only implemented by E12 and E24 (the E6 of the bw6 curves has Bytes/SetBytes only).
type gtMarshalAPI interface {
	Marshal() []byte
	Unmarshal([]byte) error
}

func runGT(c *mon.Ctx, l *curveLib) {
	name := l.name + "/GT"
	rng := gen.New(c.Seed, "c07/gt/"+l.name)
	deg := l.sizeGT / l.fpBytes
	ref := &ocodec.GT{P: l.fpMod, Deg: deg, FpBytes: l.fpBytes, Reversed: l.gtReversed}
	if ref.Size() != l.sizeGT || reflect.New(l.gtT).Elem().NumField() == 0 {
		c.Fail(name+"/SizeOfGT", "SizeOfGT=%d is not a multiple of fp.Bytes=%d", l.sizeGT, l.fpBytes)
		return
	}
	mk := func(e ofield.El) reflect.Value {
		v := reflect.New(l.gtT)
		towers.Unflatten(v.Interface(), e)
		return v
	}
	if got := len(towers.Flatten(reflect.New(l.gtT).Interface())); got != deg {
		c.Fail(name+"/SizeOfGT", "the GT type has %d base-field coefficients, SizeOfGT/fp.Bytes = %d", got, deg)
		return
	}
	zero := func() ofield.El {
		e := make(ofield.El, deg)
		for i := range e {
			e[i] = new(big.Int)
		}
		return e
	}
	type ne struct {
		n string
		e ofield.El
	}
	els := []ne{{"zero", zero()}}
	one := zero()
	one[0].SetInt64(1)
	els = append(els, ne{"one", one})
	for i := 0; i < deg; i++ {
		u := zero()
		u[i].SetInt64(int64(i + 2))
		els = append(els, ne{"unit-vector", u})
	}
	mx := zero()
	for i := range mx {
		mx[i].Sub(l.fpMod, big.NewInt(1))
	}
	els = append(els, ne{"all-p-1", mx})
	for i := 0; i < c.Pick(4, 32); i++ {
		r := zero()
		for j := range r {
			r[j] = rng.BigBelow(l.fpMod)
		}
		els = append(els, ne{"random", r})
	}
	eq := func(a, b ofield.El) bool {
		for i := range a {
			if a[i].Cmp(b[i]) != 0 {
				return false
			}
		}
		return true
	}
	_, hasMarshal := reflect.New(l.gtT).Interface().(gtMarshalAPI)
	ops := []string{"SetBytes"}
	if hasMarshal {
		ops = append(ops, "Unmarshal")
	}
	judge := func(b []byte, cls string) {
		want, why := ref.Decode(b)
		for _, op := range ops {
			key := func(kind string) string { return name + "/" + op + "/" + kind + "/" + cls }
			in := exact(b)
			v := mk(mx)
			var err error
			c.Class(name + "/" + op + "/" + cls)
			if c.Guard(key("panic"), func() string { return fmt.Sprintf("%d bytes: %s", len(b), hx(b)) }, func() {
				if op == "SetBytes" {
					err = v.Interface().(gtAPI).SetBytes(in)
				} else {
					err = v.Interface().(gtMarshalAPI).Unmarshal(in)
				}
			}) {
				continue
			}
			desc := func() string {
				return fmt.Sprintf("input(%d bytes)=%s: library err=%v; reference why=%q", len(b), hx(b), err, why)
			}
			c.Check(op, key("input-modified"), bytes.Equal(in, b), desc)
			switch {
			case why == "" && err != nil:
				c.Check(op, key("rejects-valid"), false, desc)
			case why != "" && err == nil:
				// an accepted string must at least re-encode to itself
				re := arrBytes(v, "Bytes")
				c.Check(op, key("accepts-invalid/"+why), false, func() string {
					return fmt.Sprintf("%s; accepted string re-encodes to %s (identical=%v)", desc(), hx(re), bytes.Equal(re, b))
				})
			case why != "":
				c.Eval(op, 1)
			default:
				got := towers.Flatten(v.Interface())
				c.Check(op, key("wrong-value"), eq(got, want), func() string {
					return fmt.Sprintf("%s; decoded %v, reference %v", desc(), got, want)
				})
				re := arrBytes(v, "Bytes")
				c.Check(op, key("reencode-differs"), bytes.Equal(re, b), func() string {
					return fmt.Sprintf("accepted %s re-encodes to %s", hx(b), hx(re))
				})
			}
		}
	}
	for _, e := range els {
		v := mk(e.e)
		want := ref.Encode(e.e)
		var got, got2 []byte
		if c.Guard(name+"/Bytes/panic/"+e.n, func() string { return fmt.Sprint(e.e) }, func() {
			got = arrBytes(v, "Bytes")
			got2 = got
			if hasMarshal {
				got2 = v.Interface().(gtMarshalAPI).Marshal()
			}
		}) {
			continue
		}
		c.Class(name + "/Bytes/" + e.n)
		c.Check("Bytes", name+"/Bytes/encoding-mismatch/"+e.n, bytes.Equal(got, want), func() string {
			return fmt.Sprintf("z=%v library=%s reference=%s", e.e, hx(got), hx(want))
		})
		if hasMarshal {
			c.Check("Marshal", name+"/Marshal/encoding-mismatch/"+e.n, bytes.Equal(got2, want), func() string {
				return fmt.Sprintf("z=%v library=%s reference=%s", e.e, hx(got2), hx(want))
			})
		}
		judge(want, "valid:"+e.n)
	}
	// non-canonical coefficient at every position
	base := ref.Encode(els[len(els)-1].e)
	fb := l.fpBytes
	for i := 0; i < deg; i++ {
		old := new(big.Int).SetBytes(base[i*fb : (i+1)*fb])
		for _, va := range []struct {
			n string
			v *big.Int
		}{{"=p", l.fpMod}, {"=p+1", new(big.Int).Add(l.fpMod, big.NewInt(1))}, {"=v+p", new(big.Int).Add(old, l.fpMod)},
			{"=all-ones", new(big.Int).Sub(new(big.Int).Lsh(big.NewInt(1), uint(8*fb)), big.NewInt(1))}} {
			cb, ok := chunkBE(va.v, fb)
			if !ok {
				continue
			}
			judge(replaceAt(base, i*fb, fb, cb), "coefficient"+va.n+"/chunk-"+idxClass(i, deg))
		}
	}
	// wrong lengths
	for n := 0; n <= l.sizeGT+fb+1; n++ {
		if n == l.sizeGT {
			continue
		}
		if !c.Thorough() && n > 2 && n%fb > 1 && n%fb < fb-1 && n != l.sizeGT-2 && n != l.sizeGT+2 {
			continue
		}
		b := make([]byte, n)
		copy(b, base)
		cls := "length<SizeOfGT"
		if n > l.sizeGT {
			cls = "length>SizeOfGT"
		}
		judge(b, cls)
	}
}
