package main

import (
	"io"
	"math/big"
	"reflect"

	bls12377 "github.com/consensys/gnark-crypto/ecc/bls12-377"
	fp377 "github.com/consensys/gnark-crypto/ecc/bls12-377/fp"
	fr377 "github.com/consensys/gnark-crypto/ecc/bls12-377/fr"
	bls12381 "github.com/consensys/gnark-crypto/ecc/bls12-381"
	fp381 "github.com/consensys/gnark-crypto/ecc/bls12-381/fp"
	fr381 "github.com/consensys/gnark-crypto/ecc/bls12-381/fr"
	bls24315 "github.com/consensys/gnark-crypto/ecc/bls24-315"
	fp315 "github.com/consensys/gnark-crypto/ecc/bls24-315/fp"
	fr315 "github.com/consensys/gnark-crypto/ecc/bls24-315/fr"
	bls24317 "github.com/consensys/gnark-crypto/ecc/bls24-317"
	fp317 "github.com/consensys/gnark-crypto/ecc/bls24-317/fp"
	fr317 "github.com/consensys/gnark-crypto/ecc/bls24-317/fr"
	bn254 "github.com/consensys/gnark-crypto/ecc/bn254"
	fp254 "github.com/consensys/gnark-crypto/ecc/bn254/fp"
	fr254 "github.com/consensys/gnark-crypto/ecc/bn254/fr"
	bw6633 "github.com/consensys/gnark-crypto/ecc/bw6-633"
	fp633 "github.com/consensys/gnark-crypto/ecc/bw6-633/fp"
	fr633 "github.com/consensys/gnark-crypto/ecc/bw6-633/fr"
	bw6761 "github.com/consensys/gnark-crypto/ecc/bw6-761"
	fp761 "github.com/consensys/gnark-crypto/ecc/bw6-761/fp"
	fr761 "github.com/consensys/gnark-crypto/ecc/bw6-761/fr"
	grumpkin "github.com/consensys/gnark-crypto/ecc/grumpkin"
	fpgr "github.com/consensys/gnark-crypto/ecc/grumpkin/fp"
	frgr "github.com/consensys/gnark-crypto/ecc/grumpkin/fr"
	secp256k1 "github.com/consensys/gnark-crypto/ecc/secp256k1"
	fpsecp "github.com/consensys/gnark-crypto/ecc/secp256k1/fp"
	frsecp "github.com/consensys/gnark-crypto/ecc/secp256k1/fr"
	starkcurve "github.com/consensys/gnark-crypto/ecc/stark-curve"
	fpstark "github.com/consensys/gnark-crypto/ecc/stark-curve/fp"
	frstark "github.com/consensys/gnark-crypto/ecc/stark-curve/fr"

	"verif/harness/oracle/ocodec"
)

// curveLib registers the codec surface of one curve package; everything else is reached by reflection
// (rlib.go), so that one body of monitor code runs on the ten packages.
type curveLib struct {
	name           string // directory name under ecc/
	fam            ocodec.Family
	g1T, g2T       reflect.Type // G2 nil when the package has none
	frT, fpT       reflect.Type
	frVecT, fpVecT reflect.Type
	gtT            reflect.Type // nil when no pairing
	frMod, fpMod   *big.Int
	frBytes        int
	fpBytes        int
	sizes          [4]int // library constants SizeOfG1AffineCompressed, ...Uncompressed, G2 ...
	sizeGT         int
	gtReversed     bool
	newEnc, newDec any // nil when the package has no stream codec
	rawOpt, noSub  any
	kinds          []ocodec.Kind // stream value types of the package
	hasCompressed  bool          // Bytes() exists
	hasMarshal     bool
}

func tOf[T any]() reflect.Type { var z T; return reflect.TypeOf(z) }

var fullKinds = []ocodec.Kind{ocodec.KU64, ocodec.KU32, ocodec.KU64s, ocodec.KU64ss, ocodec.KFr, ocodec.KFp, ocodec.KFrs, ocodec.KFps,
	ocodec.KFrss, ocodec.KFrsss, ocodec.KG1, ocodec.KG2, ocodec.KG1s, ocodec.KG2s}

func without(ks []ocodec.Kind, drop ...ocodec.Kind) []ocodec.Kind {
	var out []ocodec.Kind
	for _, k := range ks {
		keep := true
		for _, d := range drop {
			if d == k {
				keep = false
			}
		}
		if keep {
			out = append(out, k)
		}
	}
	return out
}

var _ io.Writer

func allLibs() []*curveLib {
	return []*curveLib{
		{name: "bn254", fam: ocodec.TwoBit, g1T: tOf[bn254.G1Affine](), g2T: tOf[bn254.G2Affine](), frT: tOf[fr254.Element](), fpT: tOf[fp254.Element](),
			frVecT: tOf[fr254.Vector](), fpVecT: tOf[fp254.Vector](), gtT: tOf[bn254.GT](), frMod: fr254.Modulus(), fpMod: fp254.Modulus(),
			frBytes: fr254.Bytes, fpBytes: fp254.Bytes,
			sizes:  [4]int{bn254.SizeOfG1AffineCompressed, bn254.SizeOfG1AffineUncompressed, bn254.SizeOfG2AffineCompressed, bn254.SizeOfG2AffineUncompressed},
			sizeGT: bn254.SizeOfGT, gtReversed: true, newEnc: bn254.NewEncoder, newDec: bn254.NewDecoder, rawOpt: bn254.RawEncoding, noSub: bn254.NoSubgroupChecks,
			kinds: fullKinds, hasCompressed: true, hasMarshal: true},
		{name: "bls12-377", fam: ocodec.ZCash, g1T: tOf[bls12377.G1Affine](), g2T: tOf[bls12377.G2Affine](), frT: tOf[fr377.Element](), fpT: tOf[fp377.Element](),
			frVecT: tOf[fr377.Vector](), fpVecT: tOf[fp377.Vector](), gtT: tOf[bls12377.GT](), frMod: fr377.Modulus(), fpMod: fp377.Modulus(),
			frBytes: fr377.Bytes, fpBytes: fp377.Bytes,
			sizes:  [4]int{bls12377.SizeOfG1AffineCompressed, bls12377.SizeOfG1AffineUncompressed, bls12377.SizeOfG2AffineCompressed, bls12377.SizeOfG2AffineUncompressed},
			sizeGT: bls12377.SizeOfGT, gtReversed: true, newEnc: bls12377.NewEncoder, newDec: bls12377.NewDecoder, rawOpt: bls12377.RawEncoding, noSub: bls12377.NoSubgroupChecks,
			kinds: fullKinds, hasCompressed: true, hasMarshal: true},
		{name: "bls12-381", fam: ocodec.ZCash, g1T: tOf[bls12381.G1Affine](), g2T: tOf[bls12381.G2Affine](), frT: tOf[fr381.Element](), fpT: tOf[fp381.Element](),
			frVecT: tOf[fr381.Vector](), fpVecT: tOf[fp381.Vector](), gtT: tOf[bls12381.GT](), frMod: fr381.Modulus(), fpMod: fp381.Modulus(),
			frBytes: fr381.Bytes, fpBytes: fp381.Bytes,
			sizes:  [4]int{bls12381.SizeOfG1AffineCompressed, bls12381.SizeOfG1AffineUncompressed, bls12381.SizeOfG2AffineCompressed, bls12381.SizeOfG2AffineUncompressed},
			sizeGT: bls12381.SizeOfGT, gtReversed: true, newEnc: bls12381.NewEncoder, newDec: bls12381.NewDecoder, rawOpt: bls12381.RawEncoding, noSub: bls12381.NoSubgroupChecks,
			kinds: fullKinds, hasCompressed: true, hasMarshal: true},
		{name: "bls24-315", fam: ocodec.ZCash, g1T: tOf[bls24315.G1Affine](), g2T: tOf[bls24315.G2Affine](), frT: tOf[fr315.Element](), fpT: tOf[fp315.Element](),
			frVecT: tOf[fr315.Vector](), fpVecT: tOf[fp315.Vector](), gtT: tOf[bls24315.GT](), frMod: fr315.Modulus(), fpMod: fp315.Modulus(),
			frBytes: fr315.Bytes, fpBytes: fp315.Bytes,
			sizes:  [4]int{bls24315.SizeOfG1AffineCompressed, bls24315.SizeOfG1AffineUncompressed, bls24315.SizeOfG2AffineCompressed, bls24315.SizeOfG2AffineUncompressed},
			sizeGT: bls24315.SizeOfGT, gtReversed: false, newEnc: bls24315.NewEncoder, newDec: bls24315.NewDecoder, rawOpt: bls24315.RawEncoding, noSub: bls24315.NoSubgroupChecks,
			kinds: fullKinds, hasCompressed: true, hasMarshal: true},
		{name: "bls24-317", fam: ocodec.ZCash, g1T: tOf[bls24317.G1Affine](), g2T: tOf[bls24317.G2Affine](), frT: tOf[fr317.Element](), fpT: tOf[fp317.Element](),
			frVecT: tOf[fr317.Vector](), fpVecT: tOf[fp317.Vector](), gtT: tOf[bls24317.GT](), frMod: fr317.Modulus(), fpMod: fp317.Modulus(),
			frBytes: fr317.Bytes, fpBytes: fp317.Bytes,
			sizes:  [4]int{bls24317.SizeOfG1AffineCompressed, bls24317.SizeOfG1AffineUncompressed, bls24317.SizeOfG2AffineCompressed, bls24317.SizeOfG2AffineUncompressed},
			sizeGT: bls24317.SizeOfGT, gtReversed: false, newEnc: bls24317.NewEncoder, newDec: bls24317.NewDecoder, rawOpt: bls24317.RawEncoding, noSub: bls24317.NoSubgroupChecks,
			kinds: fullKinds, hasCompressed: true, hasMarshal: true},
		{name: "bw6-633", fam: ocodec.ZCash, g1T: tOf[bw6633.G1Affine](), g2T: tOf[bw6633.G2Affine](), frT: tOf[fr633.Element](), fpT: tOf[fp633.Element](),
			frVecT: tOf[fr633.Vector](), fpVecT: tOf[fp633.Vector](), gtT: tOf[bw6633.GT](), frMod: fr633.Modulus(), fpMod: fp633.Modulus(),
			frBytes: fr633.Bytes, fpBytes: fp633.Bytes,
			sizes:  [4]int{bw6633.SizeOfG1AffineCompressed, bw6633.SizeOfG1AffineUncompressed, bw6633.SizeOfG2AffineCompressed, bw6633.SizeOfG2AffineUncompressed},
			sizeGT: bw6633.SizeOfGT, gtReversed: true, newEnc: bw6633.NewEncoder, newDec: bw6633.NewDecoder, rawOpt: bw6633.RawEncoding, noSub: bw6633.NoSubgroupChecks,
			kinds: fullKinds, hasCompressed: true, hasMarshal: true},
		{name: "bw6-761", fam: ocodec.ZCash, g1T: tOf[bw6761.G1Affine](), g2T: tOf[bw6761.G2Affine](), frT: tOf[fr761.Element](), fpT: tOf[fp761.Element](),
			frVecT: tOf[fr761.Vector](), fpVecT: tOf[fp761.Vector](), gtT: tOf[bw6761.GT](), frMod: fr761.Modulus(), fpMod: fp761.Modulus(),
			frBytes: fr761.Bytes, fpBytes: fp761.Bytes,
			sizes:  [4]int{bw6761.SizeOfG1AffineCompressed, bw6761.SizeOfG1AffineUncompressed, bw6761.SizeOfG2AffineCompressed, bw6761.SizeOfG2AffineUncompressed},
			sizeGT: bw6761.SizeOfGT, gtReversed: true, newEnc: bw6761.NewEncoder, newDec: bw6761.NewDecoder, rawOpt: bw6761.RawEncoding, noSub: bw6761.NoSubgroupChecks,
			kinds: fullKinds, hasCompressed: true, hasMarshal: true},
		{name: "grumpkin", fam: ocodec.TwoBit, g1T: tOf[grumpkin.G1Affine](), frT: tOf[frgr.Element](), fpT: tOf[fpgr.Element](),
			frVecT: tOf[frgr.Vector](), fpVecT: tOf[fpgr.Vector](), frMod: frgr.Modulus(), fpMod: fpgr.Modulus(),
			frBytes: frgr.Bytes, fpBytes: fpgr.Bytes,
			sizes:  [4]int{grumpkin.SizeOfG1AffineCompressed, grumpkin.SizeOfG1AffineUncompressed, 0, 0},
			newEnc: grumpkin.NewEncoder, newDec: grumpkin.NewDecoder, rawOpt: grumpkin.RawEncoding, noSub: grumpkin.NoSubgroupChecks,
			kinds: without(fullKinds, ocodec.KG2, ocodec.KG2s), hasCompressed: true, hasMarshal: true},
		{name: "stark-curve", fam: ocodec.TwoBit, g1T: tOf[starkcurve.G1Affine](), frT: tOf[frstark.Element](), fpT: tOf[fpstark.Element](),
			frVecT: tOf[frstark.Vector](), fpVecT: tOf[fpstark.Vector](), frMod: frstark.Modulus(), fpMod: fpstark.Modulus(),
			frBytes: frstark.Bytes, fpBytes: fpstark.Bytes,
			sizes:  [4]int{starkcurve.SizeOfG1AffineCompressed, starkcurve.SizeOfG1AffineUncompressed, 0, 0},
			newEnc: starkcurve.NewEncoder, newDec: starkcurve.NewDecoder, rawOpt: starkcurve.RawEncoding, noSub: starkcurve.NoSubgroupChecks,
			// the hand-written stark-curve codec documents uint64, fr, fp, points and slices of them only
			kinds:         []ocodec.Kind{ocodec.KU64, ocodec.KU32, ocodec.KFr, ocodec.KFp, ocodec.KFrs, ocodec.KFps, ocodec.KG1, ocodec.KG1s},
			hasCompressed: true, hasMarshal: true},
		{name: "secp256k1", fam: ocodec.NoFlags, g1T: tOf[secp256k1.G1Affine](), frT: tOf[frsecp.Element](), fpT: tOf[fpsecp.Element](),
			frVecT: tOf[frsecp.Vector](), fpVecT: tOf[fpsecp.Vector](), frMod: frsecp.Modulus(), fpMod: fpsecp.Modulus(),
			frBytes: frsecp.Bytes, fpBytes: fpsecp.Bytes,
			sizes: [4]int{secp256k1.SizeOfG1AffineCompressed, secp256k1.SizeOfG1AffineUncompressed, 0, 0}},
	}
}
