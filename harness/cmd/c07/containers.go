package main

import (
	"bytes"
	"fmt"
	"io"
	"math/big"
	"reflect"
	"sync"

	ped377 "github.com/consensys/gnark-crypto/ecc/bls12-377/fr/pedersen"
	kzg377 "github.com/consensys/gnark-crypto/ecc/bls12-377/kzg"
	ped381 "github.com/consensys/gnark-crypto/ecc/bls12-381/fr/pedersen"
	kzg381 "github.com/consensys/gnark-crypto/ecc/bls12-381/kzg"
	ped315 "github.com/consensys/gnark-crypto/ecc/bls24-315/fr/pedersen"
	kzg315 "github.com/consensys/gnark-crypto/ecc/bls24-315/kzg"
	ped317 "github.com/consensys/gnark-crypto/ecc/bls24-317/fr/pedersen"
	kzg317 "github.com/consensys/gnark-crypto/ecc/bls24-317/kzg"
	ped254 "github.com/consensys/gnark-crypto/ecc/bn254/fr/pedersen"
	kzg254 "github.com/consensys/gnark-crypto/ecc/bn254/kzg"
	ped633 "github.com/consensys/gnark-crypto/ecc/bw6-633/fr/pedersen"
	kzg633 "github.com/consensys/gnark-crypto/ecc/bw6-633/kzg"
	ped761 "github.com/consensys/gnark-crypto/ecc/bw6-761/fr/pedersen"
	kzg761 "github.com/consensys/gnark-crypto/ecc/bw6-761/kzg"

	"verif/harness/gen"
	"verif/harness/mon"
	"verif/harness/oracle/ocodec"
	"verif/harness/oracle/ocurve"
)

// Containers built on the stream codec (anchors ecc/<curve>/kzg/marshal.go, fr/pedersen/pedersen.go): KZG SRS /
// proving key / verifying key and Pedersen keys. WriteTo / WriteRawTo / ReadFrom / UnsafeReadFrom round trips,
// returned byte counts, the point sections against the reference stream, truncation, corrupted points.

type contLib struct {
	name                             string
	newSRS                           func(n uint64, a *big.Int) (any, error)
	freshSRS, freshKzgPk, freshKzgVk func() any
	pedSetup                         any
	freshPedPk, freshPedVk           func() any
}

func contLibs() []contLib {
	return []contLib{
		{name: "bn254", newSRS: func(n uint64, a *big.Int) (any, error) { return kzg254.NewSRS(n, a) },
			freshSRS: func() any { return new(kzg254.SRS) }, freshKzgPk: func() any { return new(kzg254.ProvingKey) }, freshKzgVk: func() any { return new(kzg254.VerifyingKey) },
			pedSetup: ped254.Setup, freshPedPk: func() any { return new(ped254.ProvingKey) }, freshPedVk: func() any { return new(ped254.VerifyingKey) }},
		{name: "bls12-377", newSRS: func(n uint64, a *big.Int) (any, error) { return kzg377.NewSRS(n, a) },
			freshSRS: func() any { return new(kzg377.SRS) }, freshKzgPk: func() any { return new(kzg377.ProvingKey) }, freshKzgVk: func() any { return new(kzg377.VerifyingKey) },
			pedSetup: ped377.Setup, freshPedPk: func() any { return new(ped377.ProvingKey) }, freshPedVk: func() any { return new(ped377.VerifyingKey) }},
		{name: "bls12-381", newSRS: func(n uint64, a *big.Int) (any, error) { return kzg381.NewSRS(n, a) },
			freshSRS: func() any { return new(kzg381.SRS) }, freshKzgPk: func() any { return new(kzg381.ProvingKey) }, freshKzgVk: func() any { return new(kzg381.VerifyingKey) },
			pedSetup: ped381.Setup, freshPedPk: func() any { return new(ped381.ProvingKey) }, freshPedVk: func() any { return new(ped381.VerifyingKey) }},
		{name: "bls24-315", newSRS: func(n uint64, a *big.Int) (any, error) { return kzg315.NewSRS(n, a) },
			freshSRS: func() any { return new(kzg315.SRS) }, freshKzgPk: func() any { return new(kzg315.ProvingKey) }, freshKzgVk: func() any { return new(kzg315.VerifyingKey) },
			pedSetup: ped315.Setup, freshPedPk: func() any { return new(ped315.ProvingKey) }, freshPedVk: func() any { return new(ped315.VerifyingKey) }},
		{name: "bls24-317", newSRS: func(n uint64, a *big.Int) (any, error) { return kzg317.NewSRS(n, a) },
			freshSRS: func() any { return new(kzg317.SRS) }, freshKzgPk: func() any { return new(kzg317.ProvingKey) }, freshKzgVk: func() any { return new(kzg317.VerifyingKey) },
			pedSetup: ped317.Setup, freshPedPk: func() any { return new(ped317.ProvingKey) }, freshPedVk: func() any { return new(ped317.VerifyingKey) }},
		{name: "bw6-633", newSRS: func(n uint64, a *big.Int) (any, error) { return kzg633.NewSRS(n, a) },
			freshSRS: func() any { return new(kzg633.SRS) }, freshKzgPk: func() any { return new(kzg633.ProvingKey) }, freshKzgVk: func() any { return new(kzg633.VerifyingKey) },
			pedSetup: ped633.Setup, freshPedPk: func() any { return new(ped633.ProvingKey) }, freshPedVk: func() any { return new(ped633.VerifyingKey) }},
		{name: "bw6-761", newSRS: func(n uint64, a *big.Int) (any, error) { return kzg761.NewSRS(n, a) },
			freshSRS: func() any { return new(kzg761.SRS) }, freshKzgPk: func() any { return new(kzg761.ProvingKey) }, freshKzgVk: func() any { return new(kzg761.VerifyingKey) },
			pedSetup: ped761.Setup, freshPedPk: func() any { return new(ped761.ProvingKey) }, freshPedVk: func() any { return new(ped761.VerifyingKey) }},
	}
}

type container interface {
	io.WriterTo
	io.ReaderFrom
	WriteRawTo(io.Writer) (int64, error)
}
type unsafeReader interface {
	UnsafeReadFrom(io.Reader) (int64, error)
}

// checkContainer runs the generic round-trip / truncation checks on src; ref (optional) is the reference encoding
// of the leading point section in (compressed, raw) mode.
// usedDest: optional constructors of destinations that already hold another value of the same container type
// (longer slices, other points): decoding replaces it entirely.
var usedDest sync.Map // inst/what -> func() any

func checkContainer(c *mon.Ctx, rng *gen.Rng, inst, what string, src any, fresh func() any, ref func(raw bool) []byte) (streams [2][]byte) {
	s := src.(container)
	for mi, mode := range []string{"WriteTo", "WriteRawTo"} {
		var buf bytes.Buffer
		var n int64
		var err error
		key := func(kind, cls string) string { return inst + "/" + what + "." + mode + "/" + kind + "/" + cls }
		if c.Guard(key("panic", "valid"), func() string { return what }, func() {
			if mi == 0 {
				n, err = s.WriteTo(&buf)
			} else {
				n, err = s.WriteRawTo(&buf)
			}
		}) {
			continue
		}
		c.Class(inst + "/" + what + "." + mode)
		c.Check(mode, key("error-on-valid", "valid"), err == nil, func() string { return fmt.Sprint(err) })
		c.Check(mode, key("BytesWritten-mismatch", "valid"), n == int64(buf.Len()), func() string {
			return fmt.Sprintf("returned %d, the writer received %d bytes", n, buf.Len())
		})
		st := append([]byte(nil), buf.Bytes()...)
		streams[mi] = st
		if ref != nil {
			want := ref(mi == 1)
			c.Check(mode, key("encoding-mismatch", "point-section"), len(st) >= len(want) && bytes.Equal(st[:len(want)], want), func() string {
				return fmt.Sprintf("library stream starts with %s, reference point section %s", hx(st[:min(len(st), len(want))]), hx(want))
			})
		}
		// decode through every chunking, with and without subgroup checks
		for ci, ch := range chunkings {
			for _, uns := range []bool{false, true} {
				if uns && ci > 0 {
					continue
				}
				dst := fresh()
				op := "ReadFrom"
				if uns {
					if _, ok := dst.(unsafeReader); !ok {
						continue
					}
					op = "UnsafeReadFrom"
				}
				k2 := func(kind string) string {
					return inst + "/" + what + "." + op + "/" + kind + "/after-" + mode + "/" + ch
				}
				cr := &countingReader{r: chunked(ch, st)}
				var n2 int64
				var err2 error
				if c.Guard(k2("panic"), func() string { return hx(st) }, func() {
					if uns {
						n2, err2 = dst.(unsafeReader).UnsafeReadFrom(cr)
					} else {
						n2, err2 = dst.(container).ReadFrom(cr)
					}
				}) {
					continue
				}
				c.Class(inst + "/" + what + "." + op + "/after-" + mode + "/" + ch)
				c.Check(op, k2("error-on-valid"), err2 == nil, func() string { return fmt.Sprintf("%v on %s", err2, hx(st)) })
				c.Check(op, k2("BytesRead-mismatch"), n2 == cr.n && n2 == int64(len(st)), func() string {
					return fmt.Sprintf("returned %d, the reader handed out %d, the stream has %d bytes", n2, cr.n, len(st))
				})
				c.Check(op, k2("wrong-value"), err2 != nil || reflect.DeepEqual(dst, src), func() string {
					return fmt.Sprintf("decoded value differs from the encoded one; stream %s", hx(st))
				})
			}
		}
		// a destination that already holds another value
		if mkv, ok := usedDest.Load(inst + "/" + what); ok {
			mk := mkv.(func() any)
			for _, uns := range []bool{false, true} {
				dst := mk()
				op := "ReadFrom"
				if uns {
					if _, ok := dst.(unsafeReader); !ok {
						continue
					}
					op = "UnsafeReadFrom"
				}
				k2 := func(kind string) string {
					return inst + "/" + what + "." + op + "/" + kind + "/after-" + mode + "/used-destination"
				}
				var n2 int64
				var err2 error
				if c.Guard(k2("panic"), func() string { return hx(st) }, func() {
					if uns {
						n2, err2 = dst.(unsafeReader).UnsafeReadFrom(bytes.NewReader(st))
					} else {
						n2, err2 = dst.(container).ReadFrom(bytes.NewReader(st))
					}
				}) {
					continue
				}
				c.Class(inst + "/" + what + "." + op + "/after-" + mode + "/used-destination")
				c.Check(op, k2("error-on-valid"), err2 == nil, func() string { return fmt.Sprintf("%v on %s", err2, hx(st)) })
				c.Check(op, k2("BytesRead-mismatch"), n2 == int64(len(st)), func() string { return fmt.Sprintf("returned %d, the stream has %d bytes", n2, len(st)) })
				c.Check(op, k2("wrong-value"), err2 != nil || reflect.DeepEqual(dst, src), func() string {
					return fmt.Sprintf("a destination that held a larger value of the same type does not equal the encoded value after decoding; stream %s", hx(st))
				})
			}
		}
		// truncation: the first 40 offsets, the last three, a seeded sample (about 40 / 400) of the rest
		for cut := 0; cut < len(st); cut++ {
			if cut > 40 && cut < len(st)-3 && rng.Intn(len(st)/c.Pick(40, 400)+1) != 0 {
				continue
			}
			dst := fresh().(container)
			cr := &countingReader{r: chunked(chunkings[cut%len(chunkings)], st[:cut])}
			var n2 int64
			var err2 error
			k2 := func(kind string) string { return inst + "/" + what + ".ReadFrom/" + kind + "/truncated/after-" + mode }
			if c.Guard(k2("panic"), func() string { return fmt.Sprintf("cut at %d of %s", cut, hx(st)) }, func() { n2, err2 = dst.ReadFrom(cr) }) {
				continue
			}
			c.Check("ReadFrom", k2("nil-error-on-malformed"), err2 != nil, func() string {
				return fmt.Sprintf("stream of %d bytes cut at %d decoded without error", len(st), cut)
			})
			c.Check("ReadFrom", k2("BytesRead-mismatch"), n2 == cr.n, func() string {
				return fmt.Sprintf("returned %d, the reader handed out %d (stream of %d bytes cut at %d)", n2, cr.n, len(st), cut)
			})
		}
	}
	return
}

func runContainers(c *mon.Ctx, cl contLib, s *slib) {
	inst := cl.name
	rng := gen.New(c.Seed, "c07/containers/"+inst)
	g1 := s.g1
	C := g1.fm.C
	// ---- KZG ----
	size := 3 + rng.Intn(3)
	alpha := rng.BigBelow(g1.g.R)
	var srs any
	var err error
	if c.Guard(inst+"/kzg.NewSRS/panic", func() string { return alpha.String() }, func() { srs, err = cl.newSRS(uint64(size), alpha) }) || err != nil {
		c.Inconclusive("%s: kzg.NewSRS failed: %v", inst, err)
		return
	}
	pts := make([]ocurve.Pt, size)
	pw := big.NewInt(1)
	for i := range pts {
		pts[i] = C.Mul(g1.g.G, pw)
		g1.fm.Learn(pts[i], true)
		pw = new(big.Int).Mod(new(big.Int).Mul(pw, alpha), g1.g.R)
	}
	refPk := func(raw bool) []byte { return s.gr.Encode(ocodec.Val{Kind: ocodec.KG1s, P: pts}, raw) }
	sv := reflect.ValueOf(srs).Elem()
	alpha2 := rng.BigBelow(g1.g.R)
	other := func() reflect.Value {
		o, err := cl.newSRS(uint64(size+2), alpha2)
		if err != nil {
			return reflect.Value{}
		}
		return reflect.ValueOf(o)
	}
	if other().IsValid() {
		usedDest.Store(inst+"/kzg.ProvingKey", func() any { return other().Elem().FieldByName("Pk").Addr().Interface() })
		usedDest.Store(inst+"/kzg.VerifyingKey", func() any { return other().Elem().FieldByName("Vk").Addr().Interface() })
		usedDest.Store(inst+"/kzg.SRS", func() any { return other().Interface() })
	}
	pkStreams := checkContainer(c, rng, inst, "kzg.ProvingKey", sv.FieldByName("Pk").Addr().Interface(), cl.freshKzgPk, refPk)
	checkContainer(c, rng, inst, "kzg.VerifyingKey", sv.FieldByName("Vk").Addr().Interface(), cl.freshKzgVk, nil)
	checkContainer(c, rng, inst, "kzg.SRS", srs, cl.freshSRS, refPk)
	// the i-th point of the proving key corrupted
	pool := mkPool(g1, rng, 8)
	bads := badPoints(g1, rng, pool)
	for mi, st := range pkStreams {
		if st == nil {
			continue
		}
		ps := s.gr.G1.SizeC()
		if mi == 1 {
			ps = s.gr.G1.SizeU()
		}
		for i := 0; i < size; i++ {
			for _, bad := range bads {
				cs := replaceAt(st, 4+i*ps, ps, bad.b)
				for _, uns := range []bool{false, true} {
					vd := s.gr.Decode(ocodec.KG1s, cs, !uns)
					dst := cl.freshKzgPk()
					op := "ReadFrom"
					if uns {
						op = "UnsafeReadFrom"
					}
					key := func(kind string) string {
						return fmt.Sprintf("%s/kzg.ProvingKey.%s/%s/corrupted-point/%s/%s", inst, op, kind, bad.cls, idxClass(i, size))
					}
					var err2 error
					if c.Guard(key("panic"), func() string { return hx(cs) }, func() {
						if uns {
							_, err2 = dst.(unsafeReader).UnsafeReadFrom(bytes.NewReader(cs))
						} else {
							_, err2 = dst.(container).ReadFrom(bytes.NewReader(cs))
						}
					}) {
						continue
					}
					c.Class(fmt.Sprintf("%s/kzg.ProvingKey.%s/corrupted-point/%s", inst, op, bad.cls))
					if vd.OK {
						c.Check(op, key("error-on-valid"), err2 == nil, func() string { return fmt.Sprintf("%v on %s", err2, hx(cs)) })
					} else {
						c.Check(op, key("nil-error-on-malformed"), err2 != nil, func() string {
							return fmt.Sprintf("point %d replaced by %s (%s) decoded without error: %s", i, bad.cls, vd.Why, hx(cs))
						})
					}
				}
			}
		}
	}
	// ---- Pedersen ----
	basis := ocodec.Val{Kind: ocodec.KG1s, P: pool[1:5]}
	bases := reflect.MakeSlice(reflect.SliceOf(reflect.SliceOf(g1.T)), 1, 1)
	bases.Index(0).Set(reflect.ValueOf(s.toLib(basis, 0)))
	var out []reflect.Value
	if c.Guard(inst+"/pedersen.Setup/panic", func() string { return "" }, func() { out = reflect.ValueOf(cl.pedSetup).Call([]reflect.Value{bases}) }) {
		return
	}
	if !out[2].IsNil() {
		c.Inconclusive("%s: pedersen.Setup failed: %v", inst, out[2].Interface())
		return
	}
	pk := reflect.New(out[0].Type().Elem())
	pk.Elem().Set(out[0].Index(0))
	vk := reflect.New(out[1].Type())
	vk.Elem().Set(out[1])
	refBasis := func(raw bool) []byte { return s.gr.Encode(basis, raw) }
	checkContainer(c, rng, inst, "pedersen.ProvingKey", pk.Interface(), cl.freshPedPk, refBasis)
	checkContainer(c, rng, inst, "pedersen.VerifyingKey", vk.Interface(), cl.freshPedVk, nil)
}
