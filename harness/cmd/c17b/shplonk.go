package main

import (
	"fmt"
	"math/big"
	"reflect"
	"strings"
)

// ---------------------------------------------------------------------------------------------
// SHPLONK (Boneh, Drake, Fisch, Gabizon, eprint 2020/081, section 4.1), instantiated the way the package documents
// it: T is the concatenation of the S_i (so Z_{T\S_i} is the product over the OTHER sets, with multiplicity),
//
//	f  = sum_i gamma^i Z_{T\S_i} (f_i - r_i),   W  = [ (f / Z_T)(tau) ]
//	L  = sum_i gamma^i Z_{T\S_i}(z) (f_i - r_i(z)) - Z_T(z) (f / Z_T),   W' = [ L(tau) / (tau - z) ]
//	F  = sum_i gamma^i Z_{T\S_i}(z) cm_i - [ sum_i gamma^i Z_{T\S_i}(z) r_i(z) ] - Z_T(z) W
//	accept  <=>  e(F + z W', [1]_2) = e(W', [tau]_2)   <=>   F + z w' = tau w'  in the exponent.
//
// Everything below works in the exponent (mod r) with the trapdoor tau; no polynomial is ever divided by the oracle
// that decides acceptance.

type sstmt struct {
	polys [][]*big.Int // what the prover knows (nil for forged digests)
	dig   []*big.Int   // discrete logarithms of the digests
	pts   [][]*big.Int
	data  [][]byte
	hash  string
	class string
}

type sproof struct {
	w, wp *big.Int
	wPt   any // library points when the forger produced them with the proving key only
	wpPt  any
	cv    [][]*big.Int
}

func (p sproof) clone() sproof {
	return sproof{w: new(big.Int).Set(p.w), wp: new(big.Int).Set(p.wp), wPt: p.wPt, wpPt: p.wpPt, cv: cloneInts2(p.cv)}
}

func (p sproof) tree() *node {
	rows := &node{k: kSlice, elems: []*node{}}
	if p.cv == nil {
		rows.elems = nil
	}
	for i := range p.cv {
		r := &node{k: kSlice, elems: []*node{}}
		if p.cv[i] == nil {
			r.elems = nil
		}
		for j := range p.cv[i] {
			r.elems = append(r.elems, frNode(p.cv[i][j]))
		}
		rows.elems = append(rows.elems, r)
	}
	w, wp := g1Node(p.w), g1Node(p.wp)
	w.pt, wp.pt = p.wPt, p.wpPt
	return structNode("W", w, "WPrime", wp, "ClaimedValues", rows)
}

// sproofOf decodes a (possibly substituted) tree back into the oracle's view of a SHPLONK proof.
func sproofOf(t *node) sproof {
	var p sproof
	p.w, p.wp = t.fields["W"].v, t.fields["WPrime"].v
	p.wPt, p.wpPt = t.fields["W"].pt, t.fields["WPrime"].pt
	rows := t.fields["ClaimedValues"]
	if rows.elems != nil {
		p.cv = [][]*big.Int{}
	}
	for _, r := range rows.elems {
		var row []*big.Int
		if r.elems != nil {
			row = []*big.Int{}
		}
		for _, x := range r.elems {
			row = append(row, x.v)
		}
		p.cv = append(p.cv, row)
	}
	return p
}

func (e *env) wPoint(p sproof) any {
	if p.wPt != nil {
		return p.wPt
	}
	return e.g1(p.w)
}

// sShapeOK is the well-formedness of a proof object with respect to a statement.
func sShapeOK(dig []*big.Int, pts [][]*big.Int, cv [][]*big.Int) bool {
	if len(dig) != len(pts) || len(cv) != len(pts) {
		return false
	}
	for i := range pts {
		if len(cv[i]) != len(pts[i]) {
			return false
		}
	}
	return true
}

// bigF = sum_i gamma^i Z_{T\S_i}(z) (cm_i - r_i(z)) - Z_T(z) w   (exponent of F).
func (e *env) bigF(dig []*big.Int, pts, cv [][]*big.Int, w, gamma, z *big.Int) *big.Int {
	f := e.f
	acc, g := new(big.Int), big.NewInt(1)
	for i := range pts {
		zi := f.vanish(flatExcept(pts, i), z)
		ri := f.lagrangeAt(pts[i], cv[i], z)
		acc = f.add(acc, f.mul(f.mul(g, zi), f.sub(dig[i], ri)))
		g = f.mul(g, gamma)
	}
	return f.sub(acc, f.mul(f.vanish(flat(pts), z), w))
}

// sRelation decides acceptance: shape, challenges from the transcript, pairing equation in the exponent.
func (e *env) sRelation(hname string, dig []*big.Int, pts [][]*big.Int, data [][]byte, p sproof) (bool, string) {
	if !sShapeOK(dig, pts, p.cv) {
		return false, "shape"
	}
	g := e.gamma(hname, dig, pts, p.cv, data)
	z := e.zOf(hname, g, e.wPoint(p))
	F := e.bigF(dig, pts, p.cv, p.w, g.v, z.v)
	lhs := e.f.add(F, e.f.mul(z.v, p.wp))
	rhs := e.f.mul(e.tau, p.wp)
	if lhs.Cmp(rhs) == 0 {
		return true, "pairing equation holds"
	}
	return false, "pairing equation fails"
}

// trapdoorWP solves F + z w' = tau w' for w' (possible for ANY statement once tau is known).
func (e *env) trapdoorWP(dig []*big.Int, pts, cv [][]*big.Int, w, gamma, z *big.Int) *big.Int {
	return e.f.div(e.bigF(dig, pts, cv, w, gamma, z), e.f.sub(e.tau, z))
}

// sSpecProve is the honest prover of the specification, in the exponent.
func (e *env) sSpecProve(st *sstmt) sproof {
	f := e.f
	var p sproof
	p.cv = make([][]*big.Int, len(st.polys))
	for i := range st.polys {
		p.cv[i] = make([]*big.Int, len(st.pts[i]))
		for j := range st.pts[i] {
			p.cv[i][j] = f.horner(st.polys[i], st.pts[i][j])
		}
	}
	g := e.gamma(st.hash, st.dig, st.pts, p.cv, st.data)
	num, gi := new(big.Int), big.NewInt(1)
	for i := range st.pts {
		zi := f.vanish(flatExcept(st.pts, i), e.tau)
		ri := f.lagrangeAt(st.pts[i], p.cv[i], e.tau)
		num = f.add(num, f.mul(f.mul(gi, zi), f.sub(st.dig[i], ri)))
		gi = f.mul(gi, g.v)
	}
	p.w = f.div(num, f.vanish(flat(st.pts), e.tau))
	z := e.zOf(st.hash, g, e.g1(p.w))
	p.wp = e.trapdoorWP(st.dig, st.pts, p.cv, p.w, g.v, z.v)
	return p
}

// sQuotient is h = f / Z_T in coefficient form (used by the trapdoor-free forger, and as a second derivation of W).
func (e *env) sQuotient(polys, pts, cv [][]*big.Int, gamma *big.Int) ([]*big.Int, bool) {
	f := e.f
	var acc []*big.Int
	gi := big.NewInt(1)
	for i := range polys {
		ri := f.polyInterp(pts[i], cv[i])
		d := f.polyAdd(polys[i], f.polyScale(ri, f.n(-1)))
		t := f.polyMul(d, f.polyVanish(flatExcept(pts, i)))
		acc = f.polyAdd(acc, f.polyScale(t, gi))
		gi = f.mul(gi, gamma)
	}
	exact := true
	for _, s := range flat(pts) {
		var rem *big.Int
		acc, rem = f.divLinear(acc, s)
		if rem.Sign() != 0 {
			exact = false
		}
	}
	if len(acc) == 0 {
		acc = []*big.Int{new(big.Int)}
	}
	return acc, exact
}

// sLinearised is L(X) = sum_i gamma^i Z_{T\S_i}(z) (f_i(X) - r_i(z)) - Z_T(z) h(X) in coefficient form.
func (e *env) sLinearised(polys, pts, cv [][]*big.Int, h []*big.Int, gamma, z *big.Int) []*big.Int {
	f := e.f
	var acc []*big.Int
	gi := big.NewInt(1)
	for i := range polys {
		k := f.mul(gi, f.vanish(flatExcept(pts, i), z))
		t := f.polyScale(polys[i], k)
		t[0] = f.sub(t[0], f.mul(k, f.lagrangeAt(pts[i], cv[i], z)))
		acc = f.polyAdd(acc, t)
		gi = f.mul(gi, gamma)
	}
	return f.polyAdd(acc, f.polyScale(h, f.neg(f.vanish(flat(pts), z))))
}

func (e *env) commitPoly(p []*big.Int) (any, error) {
	p = trimPoly(p)
	if len(p) > e.in.PkLen(e.pk) {
		return nil, fmt.Errorf("forger polynomial of size %d exceeds the reference string", len(p))
	}
	return e.in.Commit(p, e.pk)
}

// ---------------------------------------------------------------------------------------------
// statements

func (e *env) sDigests(st *sstmt) {
	st.dig = make([]*big.Int, len(st.polys))
	for i := range st.polys {
		st.dig[i] = e.f.horner(st.polys[i], e.tau)
	}
}

func describeS(st *sstmt) string {
	var sz, ss []string
	for i := range st.polys {
		sz = append(sz, fmt.Sprint(len(st.polys[i])))
	}
	for i := range st.pts {
		ss = append(ss, fmt.Sprint(len(st.pts[i])))
	}
	return fmt.Sprintf("class=%s polys=%d sizes=[%s] |S_i|=[%s] data=%d hash=%s", st.class, len(st.pts), strings.Join(sz, ","), strings.Join(ss, ","), len(st.data), st.hash)
}

func (e *env) dumpS(st *sstmt) string {
	return fmt.Sprintf("%s tau=%s points=%s polys=%s data=%x", describeS(st), full(e.tau), fullList2(st.pts), fullList2(st.polys), st.data)
}

// sShape describes how a statement is drawn.
type sShape struct {
	class string
	sizes []int // polynomial sizes; 0 = the zero polynomial of size 4
	sets  []int // |S_i|
	// overlap: "" disjoint random sets, "same" all S_i equal (sets[0] points), "chain" S_i shares its first point
	// with the last point of S_{i-1}, "special" uses 0, 1, r-1 as the first points
	overlap string
	data    int // number of extra transcript strings
	hash    string
}

func (e *env) sDraw(sh sShape) *sstmt {
	st := &sstmt{hash: sh.hash, class: sh.class}
	if st.hash == "" {
		st.hash = "sha256"
	}
	for _, n := range sh.sizes {
		if n == 0 {
			z := make([]*big.Int, 4)
			for i := range z {
				z[i] = new(big.Int)
			}
			st.polys = append(st.polys, z)
			continue
		}
		st.polys = append(st.polys, e.randPoly(n))
	}
	special := []*big.Int{new(big.Int), big.NewInt(1), e.f.n(-1)}
	for i, m := range sh.sets {
		var s []*big.Int
		switch sh.overlap {
		case "same":
			if i > 0 {
				s = cloneInts(st.pts[0])
				break
			}
			fallthrough
		default:
			for j := 0; j < m; j++ {
				switch {
				case sh.overlap == "chain" && i > 0 && j == 0:
					prev := st.pts[i-1]
					s = append(s, new(big.Int).Set(prev[len(prev)-1]))
				case sh.overlap == "special" && len(special) > 0:
					s = append(s, special[0])
					special = special[1:]
				default:
					s = append(s, e.distinctFr(append(st.pts, s)...))
				}
			}
		}
		st.pts = append(st.pts, s)
	}
	for k := 0; k < sh.data; k++ {
		st.data = append(st.data, e.rng.Bytes(k*7%19))
	}
	e.sDigests(st)
	return st
}

// ---------------------------------------------------------------------------------------------
// honest run: library prover vs specification prover, library verifier on it

func (e *env) sHonest(st *sstmt) (sproof, bool) {
	c, in := e.c, e.in
	desc := func() string { return e.dumpS(st) }
	// digests through the library's Commit, as a user would; they must be [f_i(tau)]G
	digs := make([]any, len(st.polys))
	for i := range st.polys {
		d, err := in.Commit(st.polys[i], e.pk)
		if err != nil {
			c.Inconclusive("%s: kzg.Commit failed on a polynomial of size %d: %v", e.L, len(st.polys[i]), err)
			return sproof{}, false
		}
		if d != e.g1(st.dig[i]) {
			c.Inconclusive("%s: kzg.Commit(f) != [f(tau)]G1 for %s (reference string or G1Mul wrong: outside C17)", e.L, desc())
			return sproof{}, false
		}
		digs[i] = d
	}
	var lp any
	var got *node
	hf := newHash(st.hash)
	func() {
		var err error
		c.Current(e.L + " BatchOpen " + describeS(st))
		if c.Guard(e.L+"/BatchOpen/panic/"+st.class, desc, func() { lp, err = in.SOpen(st.polys, digs, st.pts, hf, e.pk, st.data...) }) {
			lp = nil
			return
		}
		if !c.Check("BatchOpen", e.L+"/BatchOpen/error/"+st.class, err == nil, func() string { return fmt.Sprintf("%s: err=%v", desc(), err) }) {
			lp = nil
			return
		}
		var rerr error
		if got, rerr = readTree(in, reflect.ValueOf(lp).Elem()); rerr != nil {
			c.Inconclusive("%s: proof struct %v", e.L, rerr)
			lp = nil
		}
	}()
	if lp != nil && !e.layoutSeen {
		// which transcript layout does the prover follow? (documented one, or claimed values bound as well)
		e.layoutSeen = true
		spec := e.sSpecProve(st)
		// W does not depend on gamma when there is a single polynomial, W' always does (through z)
		differs := func(p sproof) bool {
			return got.fields["W"].pt != e.g1(p.w) || (got.fields["WPrime"] != nil && got.fields["WPrime"].pt != e.g1(p.wp))
		}
		if got.fields["W"] != nil && differs(spec) {
			e.bindCV = true
			if differs(e.sSpecProve(st)) {
				e.bindCV = false
			}
		}
		c.Extra("fs_layout/"+e.L, map[bool]string{false: "gamma=H(points,digests,data) (as documented)", true: "gamma=H(points,digests,claimed values,data)"}[e.bindCV])
	}
	spec := e.sSpecProve(st)
	// second, coefficient-form derivation of W (oracle self-check)
	if g := e.gamma(st.hash, st.dig, st.pts, spec.cv, st.data); true {
		h, exact := e.sQuotient(st.polys, st.pts, spec.cv, g.v)
		if !exact || e.f.horner(h, e.tau).Cmp(spec.w) != 0 {
			c.Inconclusive("%s: the two oracle derivations of W disagree on %s", e.L, desc())
			return spec, false
		}
	}
	if ok, why := e.sRelation(st.hash, st.dig, st.pts, st.data, spec); !ok {
		c.Inconclusive("%s: oracle relation does not hold on the oracle's own honest proof (%s) %s", e.L, why, desc())
		return spec, false
	}
	if lp != nil {
		same, where := sameTree(e.g1, got, spec.tree(), nil)
		c.Check("BatchOpen", e.L+"/BatchOpen/proof-differs-from-specification/"+st.class, same, func() string {
			return fmt.Sprintf("%s: first difference at %s (W spec dlog %s, W' spec dlog %s)", desc(), where, full(spec.w), full(spec.wp))
		})
		// the library verifier on the library's own proof object
		var verr error
		if !c.Guard(e.L+"/BatchVerify/panic/honest", desc, func() { verr = in.SVerify(lp, digs, st.pts, newHash(st.hash), e.vk, st.data...) }) {
			c.Check("BatchVerify/honest", e.L+"/BatchVerify/honest-rejected/"+st.class, verr == nil, func() string { return fmt.Sprintf("%s: err=%v", desc(), verr) })
		}
		// and the same hash object reused for proving and verifying, as the package's tests do
		if !c.Guard(e.L+"/BatchVerify/panic/honest", desc, func() { verr = in.SVerify(lp, digs, st.pts, hf, e.vk, st.data...) }) {
			c.Check("BatchVerify/honest", e.L+"/BatchVerify/honest-rejected/"+st.class+"/reused-hash", verr == nil, func() string { return fmt.Sprintf("%s: err=%v", desc(), verr) })
		}
	}
	// the specification's proof, rebuilt from its discrete logarithms, shown to the library verifier
	e.truthS = spec.cv
	e.sTry("specification-proof", viewOf(st), spec.tree(), byRelation, true, describeS(st))
	c.Class(fmt.Sprintf("%s/honest/%s/polys%d/maxsize%d/points%d", e.L, st.class, len(st.polys), maxLen(st.polys), len(flat(st.pts))))
	c.SampleOnce(e.L+"/honest", map[string]any{"instance": e.L, "statement": describeS(st), "W_dlog": full(spec.w), "WPrime_dlog": full(spec.wp)})
	return spec, true
}

func flatBytes(d [][]byte) []byte {
	var out []byte
	for _, x := range d {
		out = append(out, x...)
	}
	return out
}

func maxLen(p [][]*big.Int) int {
	m := 0
	for i := range p {
		if len(p[i]) > m {
			m = len(p[i])
		}
	}
	return m
}

// sView is what the verifier is shown.
type sView struct {
	dig  []*big.Int
	pts  [][]*big.Int
	data [][]byte
	hash string
}

func viewOf(st *sstmt) sView {
	return sView{cloneInts(st.dig), cloneInts2(st.pts), st.data, st.hash}
}

// sTry shows (view, proof tree) to the library verifier and judges the answer.
// noTrap: the forger used the proving key only and v is the original statement; the statement is then false iff
// the claimed values differ from the evaluations of the committed polynomials (e.truthS).
func (e *env) sTry(kind string, v sView, t *node, exp expect, noTrap bool, note string) bool {
	p := sproofOf(t)
	falseNoTrap := noTrap && !equal2(p.cv, e.truthS)
	rel, why := false, ""
	if exp == byRelation {
		rel, why = e.sRelation(v.hash, v.dig, v.pts, v.data, p)
	}
	lp, err := e.libProof(e.in.NewSProof(), t)
	if err != nil {
		e.c.Inconclusive("%s: cannot build the library proof object: OpeningProof%v", e.L, err)
		return false
	}
	desc := func() string {
		return fmt.Sprintf("forgery=%s %s oracle=%v(%s) tau=%s digests(dlog)=%s points=%s data=%x hash=%s W(dlog)=%s W'(dlog)=%s claimed=%s",
			kind, note, rel, why, full(e.tau), fullList(v.dig), fullList2(v.pts), v.data, v.hash, full(p.w), full(p.wp), fullList2(p.cv))
	}
	acc := e.verdict(kind, exp, rel, falseNoTrap, func() error {
		return e.in.SVerify(lp, e.g1s(v.dig), v.pts, newHash(v.hash), e.vk, v.data...)
	}, desc)
	e.c.Class(fmt.Sprintf("%s/%s/oracle-%s", e.L, kind, map[bool]string{true: "accept", false: "reject"}[rel && exp == byRelation]))
	return acc
}

// ---------------------------------------------------------------------------------------------
// forgeries around one honest (statement, proof); donor = another honest pair of the same shape

func (e *env) sBattery(st *sstmt, hp sproof, donor *sstmt, dp sproof, depth int) {
	f := e.f
	v0 := viewOf(st)
	e.truthS = hp.cv
	g0 := e.gamma(st.hash, st.dig, st.pts, hp.cv, st.data)
	z0 := e.zOf(st.hash, g0, e.g1(hp.w))
	one := big.NewInt(1)
	n := len(st.pts)

	// positions of claimed values
	type pos struct{ i, j int }
	var all []pos
	for i := range hp.cv {
		for j := range hp.cv[i] {
			all = append(all, pos{i, j})
		}
	}
	sel := all
	if lim := depth * 6; len(sel) > lim {
		sel = nil
		for _, k := range e.rng.Perm(len(all))[:lim] {
			sel = append(sel, all[k])
		}
	}

	// ---- check "claimed values <-> interpolants r_i": one value changed, everything else honest
	for _, q := range sel {
		p := hp.clone()
		p.cv[q.i][q.j] = f.add(p.cv[q.i][q.j], one)
		e.sTry("claimed-value-shifted", v0, p.tree(), byRelation, true, fmt.Sprintf("position [%d][%d] +1", q.i, q.j))
	}
	for k, q := range sel {
		if k >= depth*2 {
			break
		}
		p := hp.clone()
		p.cv[q.i][q.j] = new(big.Int)
		e.sTry("claimed-value-zeroed", v0, p.tree(), byRelation, true, fmt.Sprintf("position [%d][%d]", q.i, q.j))
		p = hp.clone()
		p.cv[q.i][q.j] = e.randFr()
		e.sTry("claimed-value-random", v0, p.tree(), byRelation, true, fmt.Sprintf("position [%d][%d]", q.i, q.j))
		// ... and the same false claim made consistent with the pairing equation by a forger who knows tau:
		// the verifier must then ACCEPT (the equation is all it can check)
		p = hp.clone()
		p.cv[q.i][q.j] = f.add(p.cv[q.i][q.j], one)
		g := e.gamma(st.hash, st.dig, st.pts, p.cv, st.data)
		z := e.zOf(st.hash, g, e.g1(p.w))
		p.wp = e.trapdoorWP(st.dig, st.pts, p.cv, p.w, g.v, z.v)
		e.sTry("claimed-value-shifted+trapdoor-WPrime", v0, p.tree(), byRelation, false, fmt.Sprintf("position [%d][%d] +1, W' = F/(tau-z)", q.i, q.j))
	}
	if len(all) >= 2 {
		a, b := all[0], all[len(all)-1]
		if hp.cv[a.i][a.j].Cmp(hp.cv[b.i][b.j]) != 0 {
			p := hp.clone()
			p.cv[a.i][a.j], p.cv[b.i][b.j] = p.cv[b.i][b.j], p.cv[a.i][a.j]
			e.sTry("claimed-values-swapped", v0, p.tree(), byRelation, true, fmt.Sprintf("[%d][%d] <-> [%d][%d]", a.i, a.j, b.i, b.j))
		}
	}
	if donor != nil {
		p := hp.clone()
		p.cv[0] = cloneInts(dp.cv[0])
		e.sTry("claimed-row-from-other-proof", v0, p.tree(), byRelation, true, "row 0")
	}

	// ---- check "quotient W" / "linearised quotient W'" / "pairing equation"
	for _, m := range []struct {
		kind string
		w    *big.Int
	}{{"W-shifted", f.add(hp.w, one)}, {"W-identity", new(big.Int)}, {"W-random", e.randFr()}, {"W-replaced-by-WPrime", hp.wp}, {"W-negated", f.neg(hp.w)}} {
		p := hp.clone()
		p.w = m.w
		e.sTry(m.kind, v0, p.tree(), byRelation, false, "")
	}
	for _, m := range []struct {
		kind string
		w    *big.Int
	}{{"WPrime-shifted", f.add(hp.wp, one)}, {"WPrime-identity", new(big.Int)}, {"WPrime-random", e.randFr()}, {"WPrime-replaced-by-W", hp.w}, {"WPrime-negated", f.neg(hp.wp)}} {
		p := hp.clone()
		p.wp = m.w
		e.sTry(m.kind, v0, p.tree(), byRelation, false, "")
	}
	{
		p := hp.clone()
		p.w, p.wp = hp.wp, hp.w
		e.sTry("W-and-WPrime-exchanged", v0, p.tree(), byRelation, false, "")
		// W replaced, challenges recomputed, W' from the trapdoor: a valid (non-honest) proof of the TRUE statement
		p = hp.clone()
		p.w = f.add(hp.w, one)
		z := e.zOf(st.hash, g0, e.g1(p.w))
		p.wp = e.trapdoorWP(st.dig, st.pts, p.cv, p.w, g0.v, z.v)
		e.sTry("W-shifted+trapdoor-WPrime", v0, p.tree(), byRelation, false, "z recomputed from the new W")
		// z must be bound to W: W replaced, W' solved for the OLD z
		p = hp.clone()
		p.w = f.add(hp.w, one)
		p.wp = e.trapdoorWP(st.dig, st.pts, p.cv, p.w, g0.v, z0.v)
		e.sTry("stale-z/W-changed", v0, p.tree(), byRelation, false, "W' solved for the z of the honest W")
		// z must be chained to gamma: W' solved for z* = H(\"z\" || W)
		zs := e.zOf(st.hash, chal{raw: nil, v: g0.v}, e.g1(hp.w))
		p = hp.clone()
		p.wp = e.trapdoorWP(st.dig, st.pts, p.cv, p.w, g0.v, zs.v)
		e.sTry("binding-omitted/gamma-in-z", v0, p.tree(), byRelation, false, "W' solved for z* = H(z||W) without the previous challenge")
		// ... and each binding of the transcript left out: W' solved for the challenges such a verifier computes
		for _, om := range []string{"points", "digests", "data"} {
			if om == "data" && len(flatBytes(st.data)) == 0 {
				continue
			}
			go_ := e.gammaOmit(om, st.hash, st.dig, st.pts, hp.cv, st.data)
			zo := e.zOf(st.hash, go_, e.g1(hp.w))
			p = hp.clone()
			p.wp = e.trapdoorWP(st.dig, st.pts, p.cv, p.w, go_.v, zo.v)
			e.sTry("binding-omitted/"+om+"-in-gamma", v0, p.tree(), byRelation, false, "W' solved for the challenges of a transcript without the "+om)
		}
		zo := e.zOf(st.hash, g0, nil)
		p = hp.clone()
		p.wp = e.trapdoorWP(st.dig, st.pts, p.cv, p.w, g0.v, zo.v)
		e.sTry("binding-omitted/W-in-z", v0, p.tree(), byRelation, false, "W' solved for z* = H(z||gamma) without W")
		// gamma must enter F: W' solved for gamma = 1
		if n >= 2 {
			p = hp.clone()
			p.wp = e.trapdoorWP(st.dig, st.pts, p.cv, p.w, one, z0.v)
			e.sTry("stale-gamma/gamma=1", v0, p.tree(), byRelation, false, "W' solved for gamma=1 and the honest z")
		}
	}

	// ---- check "gamma and z are bound to the statement": one statement component changed, W' solved (trapdoor)
	// for the challenges of the ORIGINAL statement -> accepted exactly by a verifier that forgets to bind it
	for i := 0; i < n && i < depth+1; i++ {
		v := viewOf(st)
		v.dig[i] = f.add(v.dig[i], one)
		p := hp.clone()
		p.wp = e.trapdoorWP(v.dig, v.pts, p.cv, p.w, g0.v, z0.v)
		e.sTry("stale-challenges/digest-changed", v, p.tree(), byRelation, false, fmt.Sprintf("digest %d + G", i))
		p = hp.clone()
		e.sTry("digest-shifted", v, p.tree(), byRelation, false, fmt.Sprintf("digest %d + G, honest proof", i))
	}
	for k, q := range sel {
		if k >= depth+1 {
			break
		}
		v := viewOf(st)
		v.pts[q.i][q.j] = e.distinctFr(st.pts...)
		p := hp.clone()
		p.wp = e.trapdoorWP(v.dig, v.pts, p.cv, p.w, g0.v, z0.v)
		e.sTry("stale-challenges/point-changed", v, p.tree(), byRelation, false, fmt.Sprintf("point [%d][%d] replaced", q.i, q.j))
		e.sTry("point-changed", v, hp.tree(), byRelation, false, fmt.Sprintf("point [%d][%d] replaced, honest proof", q.i, q.j))
	}
	for i := 0; i < n; i++ {
		if len(st.pts[i]) >= 2 {
			// same set, other order (claimed values follow): the statement stays TRUE, the transcript changes
			v := viewOf(st)
			p := hp.clone()
			l := len(v.pts[i]) - 1
			v.pts[i][0], v.pts[i][l] = v.pts[i][l], v.pts[i][0]
			p.cv[i][0], p.cv[i][l] = p.cv[i][l], p.cv[i][0]
			e.sTry("stale-challenges/points-reordered-in-set", v, p.tree(), byRelation, false, fmt.Sprintf("set %d: first and last point exchanged together with their values", i))
			break
		}
	}
	if n >= 2 {
		// instances exchanged (digest, set and values together): true statement, other transcript and other weights
		v := viewOf(st)
		p := hp.clone()
		v.dig[0], v.dig[n-1] = v.dig[n-1], v.dig[0]
		v.pts[0], v.pts[n-1] = v.pts[n-1], v.pts[0]
		p.cv[0], p.cv[n-1] = p.cv[n-1], p.cv[0]
		e.sTry("instances-exchanged/honest-proof", v, p.tree(), byRelation, false, "")
		p.wp = e.trapdoorWP(v.dig, v.pts, p.cv, p.w, g0.v, z0.v)
		e.sTry("stale-challenges/instances-exchanged", v, p.tree(), byRelation, false, "")
		// digests exchanged only
		if st.dig[0].Cmp(st.dig[n-1]) != 0 {
			v = viewOf(st)
			v.dig[0], v.dig[n-1] = v.dig[n-1], v.dig[0]
			e.sTry("digests-exchanged", v, hp.tree(), byRelation, false, "")
		}
	}
	{
		v := viewOf(st)
		v.data = append(append([][]byte{}, st.data...), []byte{0x01})
		e.sTry("stale-challenges/data-appended", v, hp.tree(), byRelation, false, "")
		if len(st.data) > 0 {
			v = viewOf(st)
			v.data = st.data[:len(st.data)-1]
			if len(st.data[len(st.data)-1]) > 0 {
				e.sTry("stale-challenges/data-dropped", v, hp.tree(), byRelation, false, "")
			}
			for k := range st.data {
				if len(st.data[k]) > 0 {
					v = viewOf(st)
					v.data = append([][]byte{}, st.data...)
					d := append([]byte{}, st.data[k]...)
					d[len(d)-1] ^= 1
					v.data[k] = d
					e.sTry("stale-challenges/data-bit-flipped", v, hp.tree(), byRelation, false, fmt.Sprintf("piece %d", k))
					break
				}
			}
		}
		v = viewOf(st)
		v.hash = map[string]string{"sha256": "sha512", "sha512": "sha256"}[st.hash]
		e.sTry("stale-challenges/other-hash", v, hp.tree(), byRelation, false, "")
	}

	// ---- a complete honest proof of ANOTHER statement of the same shape
	if donor != nil {
		e.sTry("proof-of-other-statement", v0, dp.tree(), byRelation, true, "")
		p := hp.clone()
		p.w = dp.w
		e.sTry("W-from-other-proof", v0, p.tree(), byRelation, false, "")
		p = hp.clone()
		p.wp = dp.wp
		e.sTry("WPrime-from-other-proof", v0, p.tree(), byRelation, false, "")
	}

	// ---- adaptive forgeries, built with the proving key only
	e.sAdaptive(st, hp, depth)

	// ---- ill-formed proof objects
	e.sMalformed(st, hp)

	// ---- untargeted substitution of every leaf found by reflection
	e.sReflective(st, hp, dp, donor != nil, depth)
}

// sAdaptive: the forger does not know tau. It fixes W first, learns z, and only THEN chooses claimed values such
// that L(z) = 0, so that L/(X-z) is a polynomial it can commit to. This works iff neither gamma nor z depends on
// the claimed values.
func (e *env) sAdaptive(st *sstmt, hp sproof, depth int) {
	f, c := e.f, e.c
	var all [][2]int
	for i := range hp.cv {
		for j := range hp.cv[i] {
			all = append(all, [2]int{i, j})
		}
	}
	try := func(kind string, cv [][]*big.Int, h []*big.Int, note string, solveFor [2]int) {
		// gamma as the verifier will compute it if it ignores the claimed values (with binding the forger cannot
		// know gamma before choosing them; it then simply uses the value for the honest ones and fails)
		g := e.gamma(st.hash, st.dig, st.pts, hp.cv, st.data)
		wPt, err := e.commitPoly(h)
		if err != nil {
			c.Inconclusive("%s: adaptive forger: %v", e.L, err)
			return
		}
		z := e.zOf(st.hash, g, wPt)
		// solve sum_i gamma^i Z_{T\S_i}(z) (f_i(z) - r_i(z)) - Z_T(z) h(z) = 0 for cv[solveFor]
		i0, j0 := solveFor[0], solveFor[1]
		cv[i0][j0] = new(big.Int)
		acc, gi := new(big.Int), big.NewInt(1)
		var coef *big.Int
		for i := range st.pts {
			k := f.mul(gi, f.vanish(flatExcept(st.pts, i), z.v))
			acc = f.add(acc, f.mul(k, f.sub(f.horner(st.polys[i], z.v), f.lagrangeAt(st.pts[i], cv[i], z.v))))
			if i == i0 {
				coef = f.mul(k, f.lagrangeBasisAt(st.pts[i], j0, z.v))
			}
			gi = f.mul(gi, g.v)
		}
		acc = f.sub(acc, f.mul(f.vanish(flat(st.pts), z.v), f.horner(h, z.v)))
		if coef.Sign() == 0 {
			return
		}
		cv[i0][j0] = f.div(acc, coef)
		l := e.sLinearised(st.polys, st.pts, cv, h, g.v, z.v)
		q, rem := f.divLinear(l, z.v)
		if rem.Sign() != 0 {
			c.Inconclusive("%s: adaptive forger: L(z) != 0 after solving (harness error)", e.L)
			return
		}
		if len(q) == 0 {
			q = []*big.Int{new(big.Int)}
		}
		wpPt, err := e.commitPoly(q)
		if err != nil {
			c.Inconclusive("%s: adaptive forger: %v", e.L, err)
			return
		}
		falseClaims := 0
		for i := range cv {
			for j := range cv[i] {
				if cv[i][j].Cmp(hp.cv[i][j]) != 0 {
					falseClaims++
				}
			}
		}
		if falseClaims == 0 {
			return
		}
		p := sproof{w: f.horner(h, e.tau), wp: f.horner(q, e.tau), wPt: wPt, wpPt: wpPt, cv: cv}
		e.sTry(kind, viewOf(st), p.tree(), byRelation, true,
			fmt.Sprintf("NO TRAPDOOR USED: %s; %d claimed values differ from the evaluations of the committed polynomials (true values %s); W=Commit(h) with h=%s, W'=Commit(L/(X-z)) with z=%s",
				note, falseClaims, fullList2(hp.cv), fullList(h), full(z.v)))
	}
	g := e.gamma(st.hash, st.dig, st.pts, hp.cv, st.data)
	hHonest, exact := e.sQuotient(st.polys, st.pts, hp.cv, g.v)
	if !exact {
		c.Inconclusive("%s: honest quotient not exact (harness error)", e.L)
		return
	}
	// (1) honest W; two claimed values changed: one freely, one solved
	if len(all) >= 2 {
		for r := 0; r < depth; r++ {
			pm := e.rng.Perm(len(all))
			a, b := all[pm[0]], all[pm[1]]
			cv := cloneInts2(hp.cv)
			cv[a[0]][a[1]] = e.randFr()
			try("adaptive/two-claimed-values-changed", cv, hHonest, fmt.Sprintf("honest W kept, claimed value [%d][%d] chosen at random, [%d][%d] solved from L(z)=0", a[0], a[1], b[0], b[1]), b)
		}
	}
	// (2) arbitrary W: all claimed values but one chosen at random, the last one solved
	for r := 0; r < depth; r++ {
		hr := e.randPoly(len(hHonest))
		cv := cloneInts2(hp.cv)
		for _, q := range all {
			cv[q[0]][q[1]] = e.randFr()
		}
		s := all[e.rng.Intn(len(all))]
		try("adaptive/all-claimed-values-chosen", cv, hr, fmt.Sprintf("W commits to a random polynomial, every claimed value random except [%d][%d] solved from L(z)=0", s[0], s[1]), s)
	}
	// (3) a single value off, W arbitrary: the minimal forgery (one polynomial, one point suffices)
	{
		hr := e.randPoly(len(hHonest))
		s := all[e.rng.Intn(len(all))]
		try("adaptive/one-claimed-value-changed", cloneInts2(hp.cv), hr, fmt.Sprintf("W commits to a random polynomial, only [%d][%d] differs from the truth", s[0], s[1]), s)
	}
}

func (e *env) sMalformed(st *sstmt, hp sproof) {
	v0 := viewOf(st)
	n := len(st.pts)
	// a row of claimed values too short / empty / too long
	li := 0
	for i := range st.pts {
		if len(st.pts[i]) > len(st.pts[li]) {
			li = i
		}
	}
	p := hp.clone()
	p.cv[li] = p.cv[li][:len(p.cv[li])-1]
	e.sTry("malformed/claimed-row-shorter-than-set", v0, p.tree(), mustReject, false, fmt.Sprintf("row %d has %d values for %d points", li, len(p.cv[li]), len(st.pts[li])))
	p = hp.clone()
	p.cv[li] = nil
	e.sTry("malformed/claimed-row-nil", v0, p.tree(), mustReject, false, fmt.Sprintf("row %d", li))
	p = hp.clone()
	p.cv[li] = append(p.cv[li], e.randFr())
	if e.sTry("malformed/claimed-row-longer-than-set", v0, p.tree(), noPanicOnly, false, fmt.Sprintf("row %d", li)) {
		e.c.AddExtra("accepted_with_ignored_extra_claimed_values/"+e.L, 1)
	}
	// number of rows
	p = hp.clone()
	p.cv = p.cv[:n-1]
	e.sTry("malformed/claimed-rows-fewer", v0, p.tree(), mustReject, false, "")
	p = hp.clone()
	p.cv = append(p.cv, []*big.Int{e.randFr()})
	e.sTry("malformed/claimed-rows-more", v0, p.tree(), mustReject, false, "")
	p = hp.clone()
	p.cv = nil
	e.sTry("malformed/claimed-nil", v0, p.tree(), mustReject, false, "")
	// statement side: one set / one digest missing
	v := viewOf(st)
	v.pts = v.pts[:n-1]
	e.sTry("malformed/sets-fewer-than-digests", v, hp.tree(), mustReject, false, "")
	v = viewOf(st)
	v.dig = v.dig[:n-1]
	e.sTry("malformed/digests-fewer-than-sets", v, hp.tree(), mustReject, false, "")
	if n >= 2 {
		v = viewOf(st)
		v.dig = v.dig[:n-1]
		v.pts = v.pts[:n-1]
		e.sTry("malformed/statement-truncated", v, hp.tree(), mustReject, false, "last digest and set dropped, proof unchanged")
	}
}

// sReflective substitutes every leaf of the proof struct (found by reflection on the library type) by
// zero/identity, a random value, the corresponding value of another honest proof, and the value shifted by one.
func (e *env) sReflective(st *sstmt, hp sproof, dp sproof, haveDonor bool, depth int) {
	v0 := viewOf(st)
	base := hp.tree()
	dt := dp.tree()
	ls := base.leaves()
	byField := map[string]int{}
	for _, l := range ls {
		fp := l.fieldPath()
		byField[fp]++
		if byField[fp] > depth*3 {
			continue
		}
		orig := base.at(l)
		sub := func(kind string, v *big.Int) {
			if e.f.red(v).Cmp(orig.v) == 0 {
				return
			}
			t := base.clone()
			x := t.at(l)
			x.v, x.pt = e.f.red(v), nil
			e.sTry("substituted/"+fp+"/"+kind, v0, t, byRelation, true, "leaf "+l.String())
		}
		sub("zero", new(big.Int))
		sub("random", e.randFr())
		sub("shifted", e.f.add(orig.v, big.NewInt(1)))
		if haveDonor {
			if d := safeAt(dt, l); d != nil {
				sub("other-proof", d.v)
			}
		}
	}
}

func safeAt(n *node, p path) (out *node) {
	defer func() {
		if recover() != nil {
			out = nil
		}
	}()
	out = n.at(p)
	return
}
