package main

import (
	"math/big"
)

// fld is arithmetic modulo the scalar-field order r over math/big (the exponent field of G1).
type fld struct{ r *big.Int }

func (f fld) red(a *big.Int) *big.Int { return new(big.Int).Mod(a, f.r) }
func (f fld) add(a, b *big.Int) *big.Int {
	return f.red(new(big.Int).Add(a, b))
}
func (f fld) sub(a, b *big.Int) *big.Int {
	return f.red(new(big.Int).Sub(a, b))
}
func (f fld) neg(a *big.Int) *big.Int { return f.red(new(big.Int).Neg(a)) }
func (f fld) mul(a, b *big.Int) *big.Int {
	return f.red(new(big.Int).Mul(a, b))
}
func (f fld) inv(a *big.Int) *big.Int {
	if f.red(a).Sign() == 0 {
		panic("c17b oracle: inverse of zero")
	}
	return new(big.Int).ModInverse(f.red(a), f.r)
}
func (f fld) div(a, b *big.Int) *big.Int { return f.mul(a, f.inv(b)) }
func (f fld) exp(a *big.Int, k *big.Int) *big.Int {
	return new(big.Int).Exp(f.red(a), k, f.r)
}
func (f fld) expu(a *big.Int, k int) *big.Int { return f.exp(a, big.NewInt(int64(k))) }
func (f fld) n(k int64) *big.Int              { return f.red(big.NewInt(k)) }

// horner evaluates the coefficient vector p (low degree first) at x.
func (f fld) horner(p []*big.Int, x *big.Int) *big.Int {
	y := new(big.Int)
	for i := len(p) - 1; i >= 0; i-- {
		y.Mul(y, x)
		y.Add(y, p[i])
		y.Mod(y, f.r)
	}
	return y
}

// vanish evaluates prod_s (x - s) over the multiset pts.
func (f fld) vanish(pts []*big.Int, x *big.Int) *big.Int {
	y := big.NewInt(1)
	for _, s := range pts {
		y = f.mul(y, f.sub(x, s))
	}
	return y
}

// lagrangeAt evaluates at x the polynomial of degree < len(xs) taking the values ys on the pairwise distinct xs
// (Lagrange's formula, no coefficient form involved).
func (f fld) lagrangeAt(xs, ys []*big.Int, x *big.Int) *big.Int {
	acc := new(big.Int)
	for j := range xs {
		num, den := big.NewInt(1), big.NewInt(1)
		for k := range xs {
			if k == j {
				continue
			}
			num = f.mul(num, f.sub(x, xs[k]))
			den = f.mul(den, f.sub(xs[j], xs[k]))
		}
		acc = f.add(acc, f.mul(ys[j], f.div(num, den)))
	}
	return acc
}

// lagrangeBasisAt is L_j(x) for the nodes xs.
func (f fld) lagrangeBasisAt(xs []*big.Int, j int, x *big.Int) *big.Int {
	num, den := big.NewInt(1), big.NewInt(1)
	for k := range xs {
		if k == j {
			continue
		}
		num = f.mul(num, f.sub(x, xs[k]))
		den = f.mul(den, f.sub(xs[j], xs[k]))
	}
	return f.div(num, den)
}

// ---- coefficient-form helpers, only used by the trapdoor-free forger ----

func (f fld) polyAdd(a, b []*big.Int) []*big.Int {
	n := len(a)
	if len(b) > n {
		n = len(b)
	}
	out := make([]*big.Int, n)
	for i := range out {
		out[i] = new(big.Int)
		if i < len(a) {
			out[i].Add(out[i], a[i])
		}
		if i < len(b) {
			out[i].Add(out[i], b[i])
		}
		out[i].Mod(out[i], f.r)
	}
	return out
}

func (f fld) polyScale(a []*big.Int, k *big.Int) []*big.Int {
	out := make([]*big.Int, len(a))
	for i := range a {
		out[i] = f.mul(a[i], k)
	}
	return out
}

func (f fld) polyMul(a, b []*big.Int) []*big.Int {
	if len(a) == 0 || len(b) == 0 {
		return nil
	}
	out := make([]*big.Int, len(a)+len(b)-1)
	for i := range out {
		out[i] = new(big.Int)
	}
	for i := range a {
		for j := range b {
			out[i+j].Add(out[i+j], new(big.Int).Mul(a[i], b[j]))
		}
	}
	for i := range out {
		out[i].Mod(out[i], f.r)
	}
	return out
}

// polyVanish returns the coefficients of prod (X - s).
func (f fld) polyVanish(pts []*big.Int) []*big.Int {
	out := []*big.Int{big.NewInt(1)}
	for _, s := range pts {
		out = f.polyMul(out, []*big.Int{f.neg(s), big.NewInt(1)})
	}
	return out
}

// polyInterp returns the coefficients (len(xs) of them) of the interpolant of (xs, ys).
func (f fld) polyInterp(xs, ys []*big.Int) []*big.Int {
	out := make([]*big.Int, len(xs))
	for i := range out {
		out[i] = new(big.Int)
	}
	for j := range xs {
		var others []*big.Int
		for k := range xs {
			if k != j {
				others = append(others, xs[k])
			}
		}
		lj := f.polyVanish(others)
		c := f.div(ys[j], f.horner(lj, xs[j]))
		out = f.polyAdd(out, f.polyScale(lj, c))
	}
	return out
}

// divLinear returns q, rem with a = (X - z) q + rem (synthetic division).
func (f fld) divLinear(a []*big.Int, z *big.Int) ([]*big.Int, *big.Int) {
	if len(a) == 0 {
		return nil, new(big.Int)
	}
	q := make([]*big.Int, len(a)-1)
	carry := new(big.Int).Set(a[len(a)-1])
	for i := len(a) - 2; i >= 0; i-- {
		q[i] = new(big.Int).Set(carry)
		carry = f.add(a[i], f.mul(carry, z))
	}
	return q, carry
}

func trimPoly(a []*big.Int) []*big.Int {
	n := len(a)
	for n > 1 && a[n-1].Sign() == 0 {
		n--
	}
	return a[:n]
}

func cloneInts(a []*big.Int) []*big.Int {
	out := make([]*big.Int, len(a))
	for i := range a {
		out[i] = new(big.Int).Set(a[i])
	}
	return out
}

func cloneInts2(a [][]*big.Int) [][]*big.Int {
	out := make([][]*big.Int, len(a))
	for i := range a {
		out[i] = cloneInts(a[i])
	}
	return out
}

func cloneInts3(a [][][]*big.Int) [][][]*big.Int {
	out := make([][][]*big.Int, len(a))
	for i := range a {
		out[i] = cloneInts2(a[i])
	}
	return out
}
