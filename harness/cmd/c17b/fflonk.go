package main

import (
	"fmt"
	"math/big"
	"reflect"
	"strings"
)

// ---------------------------------------------------------------------------------------------
// fflonk (Gabizon, Williamson, eprint 2021/1167) as documented by the package: a pack (f_0..f_{n-1}) is committed as
// g(X) = sum_k f_k(X^t) X^k with t the smallest divisor of r-1 that is >= n; opening the pack at s^t is opening g on
// { s w^l : l < t } (w a primitive t-th root of unity, here MulGen^((r-1)/t)), because
//
//	g(s w^l) = sum_k f_k(s^t) (s w^l)^k .
//
// The verifier must (1) recompute each folded value from the outer claimed values f_k(s^t) with exactly that
// formula, for every point j and every l, (2) extend the sets the same way, in the same order, (3) verify the
// embedded SHPLONK proof for the digests on the extended sets.

type fstmt struct {
	packs [][][]*big.Int // packs[i][k]
	pts   [][]*big.Int
	data  [][]byte
	hash  string
	class string
	// derived by the oracle
	t      []int
	folded [][]*big.Int
	dig    []*big.Int
}

type fproof struct {
	s  sproof
	cv [][][]*big.Int // cv[i][k][j] = f_k(s_j^t)
}

func (p fproof) clone() fproof { return fproof{s: p.s.clone(), cv: cloneInts3(p.cv)} }

func (p fproof) tree() *node {
	packs := &node{k: kSlice, elems: []*node{}}
	if p.cv == nil {
		packs.elems = nil
	}
	for i := range p.cv {
		pk := &node{k: kSlice, elems: []*node{}}
		if p.cv[i] == nil {
			pk.elems = nil
		}
		for k := range p.cv[i] {
			row := &node{k: kSlice, elems: []*node{}}
			if p.cv[i][k] == nil {
				row.elems = nil
			}
			for j := range p.cv[i][k] {
				row.elems = append(row.elems, frNode(p.cv[i][k][j]))
			}
			pk.elems = append(pk.elems, row)
		}
		packs.elems = append(packs.elems, pk)
	}
	return structNode("SOpeningProof", p.s.tree(), "ClaimedValues", packs)
}

func fproofOf(t *node) fproof {
	var p fproof
	p.s = sproofOf(t.fields["SOpeningProof"])
	packs := t.fields["ClaimedValues"]
	if packs.elems != nil {
		p.cv = [][][]*big.Int{}
	}
	for _, pk := range packs.elems {
		var rows [][]*big.Int
		if pk.elems != nil {
			rows = [][]*big.Int{}
		}
		for _, r := range pk.elems {
			var row []*big.Int
			if r.elems != nil {
				row = []*big.Int{}
			}
			for _, x := range r.elems {
				row = append(row, x.v)
			}
			rows = append(rows, row)
		}
		p.cv = append(p.cv, rows)
	}
	return p
}

// nextDivisor: smallest t >= n dividing r-1 (the package gives up after 100 increments; such n are not used).
func (e *env) nextDivisor(n int) int {
	rm1 := new(big.Int).Sub(e.f.r, big.NewInt(1))
	for t := n; t < n+100; t++ {
		if new(big.Int).Mod(rm1, big.NewInt(int64(t))).Sign() == 0 {
			return t
		}
	}
	return -1
}

func (e *env) dividesRm1(t int) bool {
	if t <= 0 {
		return false
	}
	rm1 := new(big.Int).Sub(e.f.r, big.NewInt(1))
	return new(big.Int).Mod(rm1, big.NewInt(int64(t))).Sign() == 0
}

// omega returns MulGen^((r-1)/t) and checks that it has exact order t (so that the oracle does not depend on MulGen
// really generating the whole group).
func (e *env) omega(t int) (*big.Int, bool) {
	rm1 := new(big.Int).Sub(e.f.r, big.NewInt(1))
	w := e.f.exp(e.in.MulGen, new(big.Int).Div(rm1, big.NewInt(int64(t))))
	if e.f.expu(w, t).Cmp(big.NewInt(1)) != 0 {
		return w, false
	}
	for q := 2; q <= t; q++ {
		if t%q == 0 && isPrime(q) && e.f.expu(w, t/q).Cmp(big.NewInt(1)) == 0 {
			return w, false
		}
	}
	return w, true
}

func isPrime(q int) bool {
	for d := 2; d*d <= q; d++ {
		if q%d == 0 {
			return false
		}
	}
	return q >= 2
}

// extend returns [s_0, s_0 w, .., s_0 w^(t-1), s_1, ...].
func (e *env) extend(s []*big.Int, t int, w *big.Int) []*big.Int {
	var out []*big.Int
	for j := range s {
		x := new(big.Int).Set(s[j])
		for l := 0; l < t; l++ {
			out = append(out, x)
			x = e.f.mul(x, w)
		}
	}
	return out
}

func (e *env) fDerive(st *fstmt) bool {
	f := e.f
	st.t, st.folded, st.dig = nil, nil, nil
	for i := range st.packs {
		t := e.nextDivisor(len(st.packs[i]))
		if t < 0 {
			return false
		}
		st.t = append(st.t, t)
		m := maxLen(st.packs[i])
		g := make([]*big.Int, m*t)
		for k := range g {
			g[k] = new(big.Int)
		}
		for k := range st.packs[i] {
			for c := range st.packs[i][k] {
				g[c*t+k] = new(big.Int).Set(st.packs[i][k][c])
			}
		}
		st.folded = append(st.folded, g)
		// digest exponent from the definition sum_k f_k(tau^t) tau^k, not from the interleaved vector
		tt := f.expu(e.tau, t)
		d := new(big.Int)
		for k := range st.packs[i] {
			d = f.add(d, f.mul(f.horner(st.packs[i][k], tt), f.expu(e.tau, k)))
		}
		st.dig = append(st.dig, d)
	}
	return true
}

// fExtended computes the extended sets for the pack widths ts; ok=false when some t does not divide r-1.
func (e *env) fExtended(pts [][]*big.Int, ts []int) ([][]*big.Int, bool) {
	out := make([][]*big.Int, len(pts))
	for i := range pts {
		if !e.dividesRm1(ts[i]) {
			return nil, false
		}
		w, ok := e.omega(ts[i])
		if !ok {
			return nil, false
		}
		out[i] = e.extend(pts[i], ts[i], w)
	}
	return out, true
}

func (e *env) fSpecProve(st *fstmt) (fproof, bool) {
	f := e.f
	var p fproof
	for i := range st.packs {
		t := st.t[i]
		rows := make([][]*big.Int, t)
		for k := 0; k < t; k++ {
			rows[k] = make([]*big.Int, len(st.pts[i]))
			for j := range st.pts[i] {
				if k < len(st.packs[i]) {
					rows[k][j] = f.horner(st.packs[i][k], f.expu(st.pts[i][j], t))
				} else {
					rows[k][j] = new(big.Int)
				}
			}
		}
		p.cv = append(p.cv, rows)
	}
	ext, ok := e.fExtended(st.pts, st.t)
	if !ok {
		return p, false
	}
	p.s = e.sSpecProve(&sstmt{polys: st.folded, dig: st.dig, pts: ext, data: st.data, hash: st.hash})
	return p, true
}

// fRelation decides acceptance of a WELL-SHAPED fflonk proof: folding consistency for every (i,j,l), then the
// SHPLONK relation on the extended sets. The pack width t is the one announced by the proof object (the verifier's
// interface has no other source for it).
func (e *env) fRelation(hname string, dig []*big.Int, pts [][]*big.Int, data [][]byte, p fproof) (bool, string) {
	f := e.f
	if len(p.cv) != len(pts) || len(dig) != len(pts) || len(p.s.cv) != len(pts) {
		return false, "shape"
	}
	ts := make([]int, len(pts))
	for i := range pts {
		t := len(p.cv[i])
		if t == 0 {
			return false, "shape"
		}
		for k := range p.cv[i] {
			if len(p.cv[i][k]) != len(pts[i]) {
				return false, "shape"
			}
		}
		if len(p.s.cv[i]) != t*len(pts[i]) {
			return false, "shape"
		}
		ts[i] = t
	}
	ext, ok := e.fExtended(pts, ts)
	if !ok {
		return false, "pack width does not divide r-1"
	}
	for i := range pts {
		t := ts[i]
		for j := range pts[i] {
			for l := 0; l < t; l++ {
				x := ext[i][j*t+l]
				want := new(big.Int)
				for k := t - 1; k >= 0; k-- {
					want = f.add(f.mul(want, x), p.cv[i][k][j])
				}
				if want.Cmp(f.red(p.s.cv[i][j*t+l])) != 0 {
					return false, fmt.Sprintf("folding inconsistent at pack %d point %d root %d", i, j, l)
				}
			}
		}
	}
	return e.sRelation(hname, dig, ext, data, p.s)
}

func describeF(st *fstmt) string {
	var a []string
	for i := range st.packs {
		var sz []string
		for k := range st.packs[i] {
			sz = append(sz, fmt.Sprint(len(st.packs[i][k])))
		}
		a = append(a, fmt.Sprintf("{n=%d t=%d sizes=%s |S|=%d}", len(st.packs[i]), st.t[i], strings.Join(sz, ","), len(st.pts[i])))
	}
	return fmt.Sprintf("class=%s packs=%s data=%d hash=%s", st.class, strings.Join(a, ""), len(st.data), st.hash)
}

func (e *env) dumpF(st *fstmt) string {
	var ps []string
	for i := range st.packs {
		ps = append(ps, fullList2(st.packs[i]))
	}
	return fmt.Sprintf("%s tau=%s points=%s packs=[%s] data=%x", describeF(st), full(e.tau), fullList2(st.pts), strings.Join(ps, ","), st.data)
}

type fShape struct {
	class string
	packs [][]int // polynomial sizes per pack
	sets  []int
	data  int
	hash  string
}

func (e *env) fDraw(sh fShape) *fstmt {
	st := &fstmt{hash: sh.hash, class: sh.class}
	if st.hash == "" {
		st.hash = "sha256"
	}
	for i := range sh.packs {
		var pk [][]*big.Int
		for _, n := range sh.packs[i] {
			pk = append(pk, e.randPoly(n))
		}
		st.packs = append(st.packs, pk)
	}
	if !e.fDerive(st) {
		return nil
	}
	// points: the extended sets must be sets, i.e. the t-th powers of the points of one pack are pairwise distinct
	// and non-zero
	for i, m := range sh.sets {
		var s []*big.Int
		for len(s) < m {
			x := e.distinctFr(append(st.pts, s)...)
			xt := e.f.expu(x, st.t[i])
			dup := false
			for _, y := range s {
				if e.f.expu(y, st.t[i]).Cmp(xt) == 0 {
					dup = true
				}
			}
			if !dup {
				s = append(s, x)
			}
		}
		st.pts = append(st.pts, s)
	}
	for k := 0; k < sh.data; k++ {
		st.data = append(st.data, e.rng.Bytes(3+k*5%17))
	}
	return st
}

type fView struct {
	dig  []*big.Int
	pts  [][]*big.Int
	data [][]byte
	hash string
}

func fViewOf(st *fstmt) fView { return fView{cloneInts(st.dig), cloneInts2(st.pts), st.data, st.hash} }

func (e *env) fHonest(st *fstmt) (fproof, bool) {
	c, in := e.c, e.in
	desc := func() string { return e.dumpF(st) }
	digs := make([]any, len(st.packs))
	for i := range st.packs {
		// Fold against the definition
		var lf []*big.Int
		if c.Guard(e.L+"/Fold/panic/"+st.class, desc, func() { lf = in.FFold(st.packs[i]) }) {
			return fproof{}, false
		}
		okf := len(lf) == len(st.folded[i])
		for k := 0; okf && k < len(lf); k++ {
			okf = lf[k].Cmp(st.folded[i][k]) == 0
		}
		c.Check("Fold", e.L+"/Fold/differs-from-definition/"+st.class, okf, func() string {
			return fmt.Sprintf("%s pack %d: got %s want %s", desc(), i, fullList(lf), fullList(st.folded[i]))
		})
		d, err := in.FFoldAndCommit(st.packs[i], e.pk)
		if !c.Check("FoldAndCommit", e.L+"/FoldAndCommit/error/"+st.class, err == nil, func() string { return fmt.Sprintf("%s pack %d: err=%v", desc(), i, err) }) {
			return fproof{}, false
		}
		c.Check("FoldAndCommit", e.L+"/FoldAndCommit/digest-differs-from-definition/"+st.class, d == e.g1(st.dig[i]), func() string {
			return fmt.Sprintf("%s pack %d: digest != [sum_k f_k(tau^t) tau^k]G1 (dlog %s)", desc(), i, full(st.dig[i]))
		})
		digs[i] = e.g1(st.dig[i])
	}
	var lp any
	var got *node
	hf := newHash(st.hash)
	func() {
		var err error
		c.Current(e.L + " BatchOpen " + describeF(st))
		if c.Guard(e.L+"/BatchOpen/panic/"+st.class, desc, func() { lp, err = in.FOpen(st.packs, digs, st.pts, hf, e.pk, st.data...) }) {
			lp = nil
			return
		}
		if !c.Check("BatchOpen", e.L+"/BatchOpen/error/"+st.class, err == nil, func() string { return fmt.Sprintf("%s: err=%v", desc(), err) }) {
			lp = nil
			return
		}
		var rerr error
		if got, rerr = readTree(in, reflect.ValueOf(lp).Elem()); rerr != nil {
			c.Inconclusive("%s: proof struct %v", e.L, rerr)
			lp = nil
		}
	}()
	if lp != nil && !e.layoutSeen {
		e.layoutSeen = true
		spec, _ := e.fSpecProve(st)
		sp := got.fields["SOpeningProof"]
		// W does not depend on gamma when there is a single folded polynomial, W' always does (through z)
		differs := func(p sproof) bool {
			return sp.fields["W"].pt != e.g1(p.w) || (sp.fields["WPrime"] != nil && sp.fields["WPrime"].pt != e.g1(p.wp))
		}
		if sp != nil && sp.fields["W"] != nil && differs(spec.s) {
			e.bindCV = true
			if alt, _ := e.fSpecProve(st); differs(alt.s) {
				e.bindCV = false
			}
		}
		c.Extra("fs_layout/"+e.L, map[bool]string{false: "gamma=H(points,digests,data) (as documented)", true: "gamma=H(points,digests,claimed values,data)"}[e.bindCV])
	}
	spec, ok := e.fSpecProve(st)
	if !ok {
		c.Inconclusive("%s: MulGen^((r-1)/t) is not a primitive t-th root of unity for %s", e.L, describeF(st))
		return spec, false
	}
	if rel, why := e.fRelation(st.hash, st.dig, st.pts, st.data, spec); !rel {
		c.Inconclusive("%s: oracle relation does not hold on the oracle's own honest proof (%s) %s", e.L, why, desc())
		return spec, false
	}
	if lp != nil {
		same, where := sameTree(e.g1, got, spec.tree(), nil)
		c.Check("BatchOpen", e.L+"/BatchOpen/proof-differs-from-specification/"+st.class, same, func() string {
			return fmt.Sprintf("%s: first difference at %s", desc(), where)
		})
		var verr error
		if !c.Guard(e.L+"/BatchVerify/panic/honest", desc, func() { verr = in.FVerify(lp, digs, st.pts, newHash(st.hash), e.vk, st.data...) }) {
			c.Check("BatchVerify/honest", e.L+"/BatchVerify/honest-rejected/"+st.class, verr == nil, func() string { return fmt.Sprintf("%s: err=%v", desc(), verr) })
		}
		if !c.Guard(e.L+"/BatchVerify/panic/honest", desc, func() { verr = in.FVerify(lp, digs, st.pts, hf, e.vk, st.data...) }) {
			c.Check("BatchVerify/honest", e.L+"/BatchVerify/honest-rejected/"+st.class+"/reused-hash", verr == nil, func() string { return fmt.Sprintf("%s: err=%v", desc(), verr) })
		}
	}
	e.truthF = spec.cv
	e.fTry("specification-proof", fViewOf(st), spec.tree(), byRelation, true, describeF(st))
	nb, tot := 0, 0
	for i := range st.packs {
		nb += len(st.packs[i])
		tot += st.t[i] * len(st.pts[i])
	}
	c.Class(fmt.Sprintf("%s/honest/%s/packs%d/polys%d/t%v/extended-points%d", e.L, st.class, len(st.packs), nb, st.t, tot))
	c.SampleOnce(e.L+"/honest", map[string]any{"instance": e.L, "statement": describeF(st), "W_dlog": full(spec.s.w), "WPrime_dlog": full(spec.s.wp)})
	return spec, true
}

func (e *env) fTry(kind string, v fView, t *node, exp expect, noTrap bool, note string) bool {
	p := fproofOf(t)
	falseNoTrap := noTrap && !equal3(p.cv, e.truthF)
	rel, why := false, ""
	if exp == byRelation {
		rel, why = e.fRelation(v.hash, v.dig, v.pts, v.data, p)
		if why == "shape" {
			e.c.Inconclusive("%s: forgery %s is not well shaped but was submitted to the relation oracle", e.L, kind)
			return false
		}
	}
	lp, err := e.libProof(e.in.NewFProof(), t)
	if err != nil {
		e.c.Inconclusive("%s: cannot build the library proof object: OpeningProof%v", e.L, err)
		return false
	}
	desc := func() string {
		var cv []string
		for i := range p.cv {
			cv = append(cv, fullList2(p.cv[i]))
		}
		return fmt.Sprintf("forgery=%s %s oracle=%v(%s) tau=%s digests(dlog)=%s points=%s data=%x hash=%s outer-claimed=[%s] shplonk{W(dlog)=%s W'(dlog)=%s claimed=%s}",
			kind, note, rel, why, full(e.tau), fullList(v.dig), fullList2(v.pts), v.data, v.hash, strings.Join(cv, ","), full(p.s.w), full(p.s.wp), fullList2(p.s.cv))
	}
	acc := e.verdict(kind, exp, rel, falseNoTrap, func() error {
		return e.in.FVerify(lp, e.g1s(v.dig), v.pts, newHash(v.hash), e.vk, v.data...)
	}, desc)
	e.c.Class(fmt.Sprintf("%s/%s/oracle-%s", e.L, kind, map[bool]string{true: "accept", false: "reject"}[rel && exp == byRelation]))
	return acc
}

// fShift adds delta to the outer value [i][k][j] AND keeps the folding consistent by adding delta (s_j w^l)^k to the
// t folded values of point j.
func (e *env) fShift(p *fproof, ext [][]*big.Int, i, k, j int, delta *big.Int) {
	f := e.f
	t := len(p.cv[i])
	p.cv[i][k][j] = f.add(p.cv[i][k][j], delta)
	for l := 0; l < t; l++ {
		x := ext[i][j*t+l]
		p.s.cv[i][j*t+l] = f.add(p.s.cv[i][j*t+l], f.mul(delta, f.expu(x, k)))
	}
}

// fRefold recomputes all folded (inner) values from the outer ones on the given extended sets.
func (e *env) fRefold(p *fproof, ext [][]*big.Int) {
	f := e.f
	for i := range p.cv {
		t := len(p.cv[i])
		for j := range p.cv[i][0] {
			for l := 0; l < t; l++ {
				x := ext[i][j*t+l]
				y := new(big.Int)
				for k := t - 1; k >= 0; k-- {
					y = f.add(f.mul(y, x), p.cv[i][k][j])
				}
				p.s.cv[i][j*t+l] = y
			}
		}
	}
}

func (e *env) fBattery(st *fstmt, hp fproof, donor *fstmt, dp fproof, depth int) {
	f := e.f
	v0 := fViewOf(st)
	e.truthF = hp.cv
	ext, _ := e.fExtended(st.pts, st.t)
	g0 := e.gamma(st.hash, st.dig, ext, hp.s.cv, st.data)
	z0 := e.zOf(st.hash, g0, e.g1(hp.s.w))
	one := big.NewInt(1)
	n := len(st.pts)
	fix := func(p *fproof, dig []*big.Int, x [][]*big.Int, data [][]byte) { // valid W' for the true challenges, from tau
		g := e.gamma(st.hash, dig, x, p.s.cv, data)
		z := e.zOf(st.hash, g, e.g1(p.s.w))
		p.s.wp = e.trapdoorWP(dig, x, p.s.cv, p.s.w, g.v, z.v)
	}

	type pos struct{ i, k, j int }
	var outer []pos
	for i := range hp.cv {
		for k := range hp.cv[i] {
			for j := range hp.cv[i][k] {
				outer = append(outer, pos{i, k, j})
			}
		}
	}
	type ipos struct{ i, m int }
	var inner []ipos
	for i := range hp.s.cv {
		for m := range hp.s.cv[i] {
			inner = append(inner, ipos{i, m})
		}
	}
	pickO := outer
	if lim := depth * 8; len(pickO) > lim {
		pickO = nil
		for _, k := range e.rng.Perm(len(outer))[:lim] {
			pickO = append(pickO, outer[k])
		}
	}
	pickI := inner
	if lim := depth * 8; len(pickI) > lim {
		pickI = nil
		for _, k := range e.rng.Perm(len(inner))[:lim] {
			pickI = append(pickI, inner[k])
		}
	}

	// ---- check (1): folding consistency, every (i,k,j) and every (i, j*t+l)
	for _, q := range pickO {
		p := hp.clone()
		p.cv[q.i][q.k][q.j] = f.add(p.cv[q.i][q.k][q.j], one)
		kind := "outer-value-shifted"
		if q.k >= len(st.packs[q.i]) {
			kind = "outer-padding-value-nonzero"
		}
		e.fTry(kind, v0, p.tree(), byRelation, true, fmt.Sprintf("outer [%d][%d][%d] +1, folded values unchanged", q.i, q.k, q.j))
	}
	for _, q := range pickI {
		p := hp.clone()
		p.s.cv[q.i][q.m] = f.add(p.s.cv[q.i][q.m], one)
		e.fTry("folded-value-shifted", v0, p.tree(), byRelation, false, fmt.Sprintf("shplonk claimed value [%d][%d] +1 (point %d, root %d), outer values unchanged", q.i, q.m, q.m/st.t[q.i], q.m%st.t[q.i]))
	}
	// ---- the folding identity violated at exactly ONE (point j, root l): the outer values of point j are moved by the
	// coefficients of D(X) = prod_{l' != l} (X - s_j w^l'), which vanishes at all other roots of that point
	cnt := 0
	for i := range st.pts {
		t := st.t[i]
		if t < 2 {
			continue
		}
		for j := range st.pts[i] {
			for l := 0; l < t; l++ {
				if cnt >= depth*8 && !(l == t-1 && j == len(st.pts[i])-1) {
					continue
				}
				cnt++
				var others []*big.Int
				for l2 := 0; l2 < t; l2++ {
					if l2 != l {
						others = append(others, ext[i][j*t+l2])
					}
				}
				d := f.polyVanish(others)
				p := hp.clone()
				for k := 0; k < t; k++ {
					p.cv[i][k][j] = f.add(p.cv[i][k][j], d[k])
				}
				e.fTry("folding-violated-at-one-root-only", v0, p.tree(), byRelation, true, fmt.Sprintf("pack %d point %d: outer values moved by the coefficients of prod_{l'!=%d}(X - s w^l'), folded values honest", i, j, l))
			}
		}
	}
	// ---- outer and folded values changed consistently: only the embedded SHPLONK proof can catch it
	for c, q := range pickO {
		if c >= depth*3 {
			break
		}
		p := hp.clone()
		e.fShift(&p, ext, q.i, q.k, q.j, one)
		kind := "outer+folded-consistent"
		if q.k >= len(st.packs[q.i]) {
			kind = "outer-padding+folded-consistent"
		}
		e.fTry(kind, v0, p.tree(), byRelation, true, fmt.Sprintf("outer [%d][%d][%d] +1 and its %d folded values adjusted", q.i, q.k, q.j, st.t[q.i]))
		fix(&p, st.dig, ext, st.data)
		e.fTry(kind+"+trapdoor-WPrime", v0, p.tree(), byRelation, false, fmt.Sprintf("outer [%d][%d][%d] +1, folded values adjusted, W' = F/(tau-z)", q.i, q.k, q.j))
	}
	// ---- check (2): roots of unity and their order
	for i := range st.pts {
		t := st.t[i]
		if t < 2 {
			continue
		}
		// folded values of one point rotated by one root
		p := hp.clone()
		blk := cloneInts(p.s.cv[i][:t])
		for l := 0; l < t; l++ {
			p.s.cv[i][l] = blk[(l+1)%t]
		}
		e.fTry("roots-rotated", v0, p.tree(), byRelation, false, fmt.Sprintf("pack %d point 0: folded values rotated by one root", i))
		if t >= 3 {
			// a prover that extends the sets with another primitive root w' = w^(t-1) (= 1/w): complete honest proof
			// for those sets; then the same values put back into the verifier's order
			w, _ := e.omega(t)
			wInv := f.expu(w, t-1)
			ts2 := append([]int{}, st.t...)
			ext2 := cloneInts2(ext)
			ext2[i] = e.extend(st.pts[i], ts2[i], wInv)
			p = hp.clone()
			p.s = e.sSpecProve(&sstmt{polys: st.folded, dig: st.dig, pts: ext2, data: st.data, hash: st.hash})
			e.fTry("roots-other-primitive-root", v0, p.tree(), byRelation, false, fmt.Sprintf("pack %d extended with w^-1 by the prover", i))
			q := p.clone()
			for j := range st.pts[i] {
				for l := 0; l < t; l++ {
					q.s.cv[i][j*t+l] = p.s.cv[i][j*t+(t-l)%t]
				}
			}
			e.fTry("roots-other-primitive-root/values-reordered", v0, q.tree(), byRelation, false, fmt.Sprintf("pack %d extended with w^-1 by the prover, folded values presented in the verifier's order", i))
		}
		break
	}
	// ---- the embedded SHPLONK proof: W, W'
	for _, m := range []struct {
		kind string
		w    *big.Int
	}{{"W-shifted", f.add(hp.s.w, one)}, {"W-identity", new(big.Int)}, {"W-random", e.randFr()}, {"W-replaced-by-WPrime", hp.s.wp}} {
		p := hp.clone()
		p.s.w = m.w
		e.fTry(m.kind, v0, p.tree(), byRelation, false, "")
	}
	for _, m := range []struct {
		kind string
		w    *big.Int
	}{{"WPrime-shifted", f.add(hp.s.wp, one)}, {"WPrime-identity", new(big.Int)}, {"WPrime-random", e.randFr()}, {"WPrime-negated", f.neg(hp.s.wp)}} {
		p := hp.clone()
		p.s.wp = m.w
		e.fTry(m.kind, v0, p.tree(), byRelation, false, "")
	}
	{
		p := hp.clone()
		p.s.w = f.add(hp.s.w, one)
		fix(&p, st.dig, ext, st.data)
		e.fTry("W-shifted+trapdoor-WPrime", v0, p.tree(), byRelation, false, "")
		p = hp.clone()
		p.s.w = f.add(hp.s.w, one)
		p.s.wp = e.trapdoorWP(st.dig, ext, p.s.cv, p.s.w, g0.v, z0.v)
		e.fTry("stale-z/W-changed", v0, p.tree(), byRelation, false, "W' solved for the z of the honest W")
		for _, om := range []string{"points", "digests", "data"} {
			if om == "data" && len(flatBytes(st.data)) == 0 {
				continue
			}
			go_ := e.gammaOmit(om, st.hash, st.dig, ext, hp.s.cv, st.data)
			zo := e.zOf(st.hash, go_, e.g1(hp.s.w))
			p = hp.clone()
			p.s.wp = e.trapdoorWP(st.dig, ext, p.s.cv, p.s.w, go_.v, zo.v)
			e.fTry("binding-omitted/"+om+"-in-gamma", v0, p.tree(), byRelation, false, "W' solved for the challenges of a transcript without the "+om)
		}
		zo := e.zOf(st.hash, g0, nil)
		p = hp.clone()
		p.s.wp = e.trapdoorWP(st.dig, ext, p.s.cv, p.s.w, g0.v, zo.v)
		e.fTry("binding-omitted/W-in-z", v0, p.tree(), byRelation, false, "W' solved for z* = H(z||gamma) without W")
	}
	// ---- challenges bound to the statement (stale challenges + trapdoor W')
	for i := 0; i < n && i < depth+1; i++ {
		v := fViewOf(st)
		v.dig[i] = f.add(v.dig[i], one)
		p := hp.clone()
		p.s.wp = e.trapdoorWP(v.dig, ext, p.s.cv, p.s.w, g0.v, z0.v)
		e.fTry("stale-challenges/digest-changed", v, p.tree(), byRelation, false, fmt.Sprintf("digest %d + G", i))
		e.fTry("digest-shifted", v, hp.tree(), byRelation, false, fmt.Sprintf("digest %d + G, honest proof", i))
	}
	for i := 0; i < n && i < depth+1; i++ {
		// a point replaced: honest proof; then folded values recomputed for the new point (folding check passes) and W'
		// solved for the stale challenges
		v := fViewOf(st)
		for {
			x := e.distinctFr(st.pts...)
			ok := true
			for _, y := range st.pts[i] {
				if f.expu(y, st.t[i]).Cmp(f.expu(x, st.t[i])) == 0 {
					ok = false
				}
			}
			if ok {
				v.pts[i][0] = x
				break
			}
		}
		e.fTry("point-changed", v, hp.tree(), byRelation, false, fmt.Sprintf("point [%d][0] replaced, honest proof", i))
		ext2, _ := e.fExtended(v.pts, st.t)
		p := hp.clone()
		e.fRefold(&p, ext2)
		e.fTry("point-changed/folded-values-recomputed", v, p.tree(), byRelation, false, fmt.Sprintf("point [%d][0] replaced, folded values recomputed from the outer ones", i))
		p.s.wp = e.trapdoorWP(v.dig, ext2, p.s.cv, p.s.w, g0.v, z0.v)
		e.fTry("stale-challenges/point-changed", v, p.tree(), byRelation, false, fmt.Sprintf("point [%d][0] replaced, folded values recomputed, W' solved for the old challenges", i))
	}
	if n >= 2 {
		v := fViewOf(st)
		p := hp.clone()
		v.dig[0], v.dig[n-1] = v.dig[n-1], v.dig[0]
		v.pts[0], v.pts[n-1] = v.pts[n-1], v.pts[0]
		p.cv[0], p.cv[n-1] = p.cv[n-1], p.cv[0]
		p.s.cv[0], p.s.cv[n-1] = p.s.cv[n-1], p.s.cv[0]
		e.fTry("packs-exchanged/honest-proof", v, p.tree(), byRelation, false, "digest, set, outer and folded values of the first and last pack exchanged")
	}
	{
		v := fViewOf(st)
		v.data = append(append([][]byte{}, st.data...), []byte{0x01})
		e.fTry("stale-challenges/data-appended", v, hp.tree(), byRelation, false, "")
		if len(st.data) > 0 && len(st.data[0]) > 0 {
			v = fViewOf(st)
			v.data = append([][]byte{}, st.data...)
			d := append([]byte{}, st.data[0]...)
			d[0] ^= 0x80
			v.data[0] = d
			e.fTry("stale-challenges/data-bit-flipped", v, hp.tree(), byRelation, false, "")
		}
	}
	if donor != nil {
		e.fTry("proof-of-other-statement", v0, dp.tree(), byRelation, true, "")
		p := hp.clone()
		p.s = dp.s.clone()
		e.fTry("shplonk-proof-of-other-statement", v0, p.tree(), byRelation, false, "outer values kept")
		p = hp.clone()
		p.cv = cloneInts3(dp.cv)
		e.fTry("outer-values-of-other-statement", v0, p.tree(), byRelation, true, "shplonk proof kept")
	}
	// ---- pack width taken from the proof object: the folded polynomial opened as a pack of one
	e.fWidthOne(st, hp)
	// ---- adaptive (no trapdoor)
	e.fAdaptive(st, hp, ext, depth)
	e.fMalformed(st, hp)
	e.fReflective(st, hp, dp, donor != nil, depth)
}

// fWidthOne presents, for the same digests and points, an honest proof that treats every digest as a pack of ONE
// polynomial (the folded one). It satisfies everything BatchVerify can check, because the pack widths are not an
// input of the verifier; the outcome is recorded, not judged.
func (e *env) fWidthOne(st *fstmt, hp fproof) {
	multi := false
	for _, t := range st.t {
		if t > 1 {
			multi = true
		}
	}
	if !multi {
		return
	}
	var p fproof
	for i := range st.folded {
		row := make([]*big.Int, len(st.pts[i]))
		for j := range row {
			row[j] = e.f.horner(st.folded[i], st.pts[i][j])
		}
		p.cv = append(p.cv, [][]*big.Int{row})
	}
	p.s = e.sSpecProve(&sstmt{polys: st.folded, dig: st.dig, pts: st.pts, data: st.data, hash: st.hash})
	if e.fTry("pack-width-taken-from-proof", fViewOf(st), p.tree(), byRelation, false, "every digest opened as a pack of one polynomial") {
		e.c.AddExtra("accepted_width_one_proof_for_wider_pack/"+e.L, 1)
	}
}

// fAdaptive: the SHPLONK adaptive forgery carried through the folding. Folded values are chosen after z is known
// such that L(z)=0; the outer values are then DEFINED as the coefficients of the degree < t interpolant of the
// folded values of each point, which makes the folding check pass by construction.
func (e *env) fAdaptive(st *fstmt, hp fproof, ext [][]*big.Int, depth int) {
	f, c := e.f, e.c
	g := e.gamma(st.hash, st.dig, ext, hp.s.cv, st.data)
	h, exact := e.sQuotient(st.folded, ext, hp.s.cv, g.v)
	if !exact {
		c.Inconclusive("%s: honest quotient not exact (harness error)", e.L)
		return
	}
	var all [][2]int
	for i := range hp.s.cv {
		for m := range hp.s.cv[i] {
			all = append(all, [2]int{i, m})
		}
	}
	for r := 0; r < depth; r++ {
		hh := h
		note := "honest W kept"
		inner := cloneInts2(hp.s.cv)
		pm := e.rng.Perm(len(all))
		solve := all[pm[0]]
		if len(all) >= 2 && r%2 == 0 {
			a := all[pm[1]]
			inner[a[0]][a[1]] = e.randFr()
			note += fmt.Sprintf(", folded value [%d][%d] random, [%d][%d] solved from L(z)=0", a[0], a[1], solve[0], solve[1])
		} else {
			hh = e.randPoly(len(h))
			note = fmt.Sprintf("W commits to a random polynomial, folded value [%d][%d] solved from L(z)=0", solve[0], solve[1])
		}
		wPt, err := e.commitPoly(hh)
		if err != nil {
			c.Inconclusive("%s: adaptive forger: %v", e.L, err)
			return
		}
		z := e.zOf(st.hash, g, wPt)
		i0, m0 := solve[0], solve[1]
		inner[i0][m0] = new(big.Int)
		acc, gi := new(big.Int), big.NewInt(1)
		var coef *big.Int
		for i := range ext {
			k := f.mul(gi, f.vanish(flatExcept(ext, i), z.v))
			acc = f.add(acc, f.mul(k, f.sub(f.horner(st.folded[i], z.v), f.lagrangeAt(ext[i], inner[i], z.v))))
			if i == i0 {
				coef = f.mul(k, f.lagrangeBasisAt(ext[i], m0, z.v))
			}
			gi = f.mul(gi, g.v)
		}
		acc = f.sub(acc, f.mul(f.vanish(flat(ext), z.v), f.horner(hh, z.v)))
		if coef.Sign() == 0 {
			continue
		}
		inner[i0][m0] = f.div(acc, coef)
		l := e.sLinearised(st.folded, ext, inner, hh, g.v, z.v)
		q, rem := f.divLinear(l, z.v)
		if rem.Sign() != 0 {
			c.Inconclusive("%s: adaptive forger: L(z) != 0 after solving (harness error)", e.L)
			return
		}
		if len(q) == 0 {
			q = []*big.Int{new(big.Int)}
		}
		wpPt, err := e.commitPoly(q)
		if err != nil {
			c.Inconclusive("%s: adaptive forger: %v", e.L, err)
			return
		}
		p := fproof{s: sproof{w: f.horner(hh, e.tau), wp: f.horner(q, e.tau), wPt: wPt, wpPt: wpPt, cv: inner}}
		falseClaims := 0
		for i := range hp.cv {
			t := st.t[i]
			rows := make([][]*big.Int, t)
			for k := range rows {
				rows[k] = make([]*big.Int, len(st.pts[i]))
			}
			for j := range st.pts[i] {
				co := f.polyInterp(ext[i][j*t:(j+1)*t], inner[i][j*t:(j+1)*t])
				for k := 0; k < t; k++ {
					rows[k][j] = co[k]
					if co[k].Cmp(hp.cv[i][k][j]) != 0 {
						falseClaims++
					}
				}
			}
			p.cv = append(p.cv, rows)
		}
		if falseClaims == 0 {
			continue
		}
		e.fTry("adaptive/claimed-values-chosen-after-z", fViewOf(st), p.tree(), byRelation, true,
			fmt.Sprintf("NO TRAPDOOR USED: %s; outer values = interpolants of the folded ones; %d outer claimed values differ from f_k(s^t); z=%s", note, falseClaims, full(z.v)))
	}
}

func (e *env) fMalformed(st *fstmt, hp fproof) {
	v0 := fViewOf(st)
	n := len(st.pts)
	p := hp.clone()
	p.cv[0] = [][]*big.Int{}
	p.s.cv[0] = []*big.Int{}
	e.fTry("malformed/pack-of-width-zero", v0, p.tree(), mustReject, false, "outer ClaimedValues[0] empty, folded row empty")
	p = hp.clone()
	p.cv[0] = nil
	e.fTry("malformed/pack-nil", v0, p.tree(), mustReject, false, "outer ClaimedValues[0] nil")
	p = hp.clone()
	p.cv = p.cv[:n-1]
	e.fTry("malformed/outer-packs-fewer", v0, p.tree(), mustReject, false, "last outer pack dropped, shplonk proof unchanged")
	p = hp.clone()
	p.cv = nil
	e.fTry("malformed/outer-nil", v0, p.tree(), mustReject, false, "")
	p = hp.clone()
	p.cv = append(p.cv, cloneInts2(p.cv[0]))
	p.s.cv = append(p.s.cv, cloneInts(p.s.cv[0]))
	e.fTry("malformed/outer-and-folded-packs-more", v0, p.tree(), mustReject, false, "one more pack than sets, in both value arrays")
	p = hp.clone()
	p.cv = append(p.cv, cloneInts2(p.cv[0]))
	e.fTry("malformed/outer-packs-more", v0, p.tree(), mustReject, false, "one more outer pack than folded rows")
	p = hp.clone()
	p.s.cv = p.s.cv[:n-1]
	e.fTry("malformed/folded-rows-fewer", v0, p.tree(), mustReject, false, "")
	p = hp.clone()
	k := len(p.cv[0]) - 1
	p.cv[0][k] = p.cv[0][k][:len(p.cv[0][k])-1]
	e.fTry("malformed/outer-row-shorter", v0, p.tree(), mustReject, false, "")
	// every outer row of pack 0 one value short, folded row shortened accordingly: internally consistent, but not
	// with the number of points of the statement
	p = hp.clone()
	t := len(p.cv[0])
	for k := range p.cv[0] {
		p.cv[0][k] = p.cv[0][k][:len(p.cv[0][k])-1]
	}
	p.s.cv[0] = p.s.cv[0][:len(p.s.cv[0])-t]
	e.fTry("malformed/pack-one-point-short", v0, p.tree(), mustReject, false, "all rows of pack 0 cover one point less than the statement")
	p = hp.clone()
	for k := range p.cv[0] {
		p.cv[0][k] = append(p.cv[0][k], new(big.Int))
	}
	for l := 0; l < t; l++ {
		p.s.cv[0] = append(p.s.cv[0], new(big.Int))
	}
	e.fTry("malformed/pack-one-point-long", v0, p.tree(), mustReject, false, "all rows of pack 0 cover one point more than the statement")
	p = hp.clone()
	p.s.cv[0] = p.s.cv[0][:len(p.s.cv[0])-1]
	e.fTry("malformed/folded-row-shorter", v0, p.tree(), mustReject, false, "")
	// (a statement whose numbers of digests and sets differ is the caller's error, not the prover's: not demanded)
	// a width that does not divide r-1
	bad := 0
	for w := 2; w < 200; w++ {
		if !e.dividesRm1(w) {
			bad = w
			break
		}
	}
	if bad > 0 {
		p = hp.clone()
		m := len(st.pts[0])
		p.cv[0] = make([][]*big.Int, bad)
		for k := range p.cv[0] {
			p.cv[0][k] = make([]*big.Int, m)
			for j := range p.cv[0][k] {
				p.cv[0][k][j] = new(big.Int)
			}
		}
		p.s.cv[0] = make([]*big.Int, bad*m)
		for j := range p.s.cv[0] {
			p.s.cv[0][j] = new(big.Int)
		}
		e.fTry("malformed/width-not-dividing-r-1", v0, p.tree(), mustReject, false, fmt.Sprintf("pack 0 announced with %d polynomials", bad))
	}
}

func (e *env) fReflective(st *fstmt, hp fproof, dp fproof, haveDonor bool, depth int) {
	v0 := fViewOf(st)
	base := hp.tree()
	dt := dp.tree()
	byField := map[string]int{}
	for _, l := range base.leaves() {
		fp := l.fieldPath()
		byField[fp]++
		if byField[fp] > depth*3 {
			continue
		}
		orig := base.at(l)
		sub := func(kind string, v *big.Int) {
			if e.f.red(v).Cmp(orig.v) == 0 {
				return
			}
			t := base.clone()
			x := t.at(l)
			x.v, x.pt = e.f.red(v), nil
			e.fTry("substituted/"+fp+"/"+kind, v0, t, byRelation, true, "leaf "+l.String())
		}
		sub("zero", new(big.Int))
		sub("random", e.randFr())
		sub("shifted", e.f.add(orig.v, big.NewInt(1)))
		if haveDonor {
			if d := safeAt(dt, l); d != nil {
				sub("other-proof", d.v)
			}
		}
	}
}
