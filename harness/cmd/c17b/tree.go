package main

import (
	"fmt"
	"math/big"
	"reflect"
	"strings"
	"unsafe"

	"verif/harness/adapt/shplonks"
)

// A proof object is mirrored as a tree whose shape is DISCOVERED on the library's struct by reflection:
// structs -> named children, slices -> indexed children, leaves are G1 points (kept as discrete logarithms with
// respect to the generator, since the reference string has a known trapdoor) and scalar-field elements.
type kind int

const (
	kStruct kind = iota
	kSlice
	kG1
	kFr
)

type node struct {
	k      kind
	names  []string // struct field names, declaration order
	fields map[string]*node
	elems  []*node
	v      *big.Int // kFr: the value; kG1: the discrete logarithm (nil when unknown)
	pt     any      // kG1: a library point (takes precedence over v when building a library object)
}

func frNode(v *big.Int) *node { return &node{k: kFr, v: new(big.Int).Set(v)} }
func g1Node(d *big.Int) *node { return &node{k: kG1, v: new(big.Int).Set(d)} }
func sliceNode(es ...*node) *node {
	return &node{k: kSlice, elems: append([]*node{}, es...)}
}
func structNode(kv ...any) *node {
	n := &node{k: kStruct, fields: map[string]*node{}}
	for i := 0; i < len(kv); i += 2 {
		n.names = append(n.names, kv[i].(string))
		n.fields[kv[i].(string)] = kv[i+1].(*node)
	}
	return n
}

func (n *node) clone() *node {
	c := &node{k: n.k, pt: n.pt}
	if n.v != nil {
		c.v = new(big.Int).Set(n.v)
	}
	if n.k == kStruct {
		c.names = append([]string(nil), n.names...)
		c.fields = map[string]*node{}
		for k, v := range n.fields {
			c.fields[k] = v.clone()
		}
	}
	if n.elems != nil {
		c.elems = make([]*node, len(n.elems))
		for i := range n.elems {
			c.elems[i] = n.elems[i].clone()
		}
	}
	return c
}

// step is one move down the tree: a field name or an index.
type step struct {
	name string
	idx  int
}
type path []step

func (p path) String() string {
	var sb strings.Builder
	for i, s := range p {
		if s.name != "" {
			if i > 0 {
				sb.WriteByte('.')
			}
			sb.WriteString(s.name)
		} else {
			fmt.Fprintf(&sb, "[%d]", s.idx)
		}
	}
	return sb.String()
}

// fieldPath is the path with the indices dropped: the identity of a proof component ("ClaimedValues[][]").
func (p path) fieldPath() string {
	var sb strings.Builder
	for i, s := range p {
		if s.name != "" {
			if i > 0 {
				sb.WriteByte('.')
			}
			sb.WriteString(s.name)
		} else {
			sb.WriteString("[]")
		}
	}
	return sb.String()
}

func (n *node) at(p path) *node {
	cur := n
	for _, s := range p {
		if s.name != "" {
			cur = cur.fields[s.name]
		} else {
			cur = cur.elems[s.idx]
		}
	}
	return cur
}

// leaves lists the paths of all G1 / Fr leaves (depth first, declaration order).
func (n *node) leaves() []path {
	var out []path
	var rec func(x *node, p path)
	rec = func(x *node, p path) {
		switch x.k {
		case kStruct:
			for _, nm := range x.names {
				rec(x.fields[nm], append(append(path{}, p...), step{name: nm}))
			}
		case kSlice:
			for i, e := range x.elems {
				rec(e, append(append(path{}, p...), step{idx: i}))
			}
		default:
			out = append(out, p)
		}
	}
	rec(n, nil)
	return out
}

func isG1(t reflect.Type) bool {
	return t.Kind() == reflect.Struct && t.Name() == "G1Affine"
}
func isFr(t reflect.Type) bool {
	return t.Kind() == reflect.Array && t.Name() == "Element" && strings.HasSuffix(t.PkgPath(), "/fr")
}

// readTree mirrors a library value. A type that is neither a struct, a slice, a G1 point nor a scalar is reported:
// the oracle does not know what such a proof component means.
func readTree(in *shplonks.Inst, v reflect.Value) (*node, error) {
	t := v.Type()
	switch {
	case isG1(t):
		return &node{k: kG1, pt: addressableCopy(v).Interface()}, nil
	case isFr(t):
		return &node{k: kFr, v: in.FrVal(addressableCopy(v).Interface())}, nil
	case t.Kind() == reflect.Struct:
		n := &node{k: kStruct, fields: map[string]*node{}}
		for i := 0; i < t.NumField(); i++ {
			c, err := readTree(in, v.Field(i))
			if err != nil {
				return nil, fmt.Errorf("%s.%w", t.Field(i).Name, err)
			}
			n.names = append(n.names, t.Field(i).Name)
			n.fields[t.Field(i).Name] = c
		}
		return n, nil
	case t.Kind() == reflect.Slice:
		n := &node{k: kSlice, elems: []*node{}}
		for i := 0; i < v.Len(); i++ {
			c, err := readTree(in, v.Index(i))
			if err != nil {
				return nil, fmt.Errorf("[%d]%w", i, err)
			}
			n.elems = append(n.elems, c)
		}
		return n, nil
	}
	return nil, fmt.Errorf(": unmodelled component of type %s", t.String())
}

// addressableCopy returns a value whose Interface() may be taken even when v came from an unexported field.
func addressableCopy(v reflect.Value) reflect.Value {
	if v.CanInterface() {
		return v
	}
	if v.CanAddr() {
		return reflect.NewAt(v.Type(), unsafe.Pointer(v.UnsafeAddr())).Elem()
	}
	c := reflect.New(v.Type()).Elem()
	c.Set(v)
	return c
}

// buildLib writes the tree into the library value dst (settable). Every field of the library struct must be present
// in the tree and vice versa.
func buildLib(in *shplonks.Inst, g1 func(*big.Int) any, n *node, dst reflect.Value) error {
	if !dst.CanSet() && dst.CanAddr() {
		dst = reflect.NewAt(dst.Type(), unsafe.Pointer(dst.UnsafeAddr())).Elem()
	}
	t := dst.Type()
	switch {
	case isG1(t):
		if n.k != kG1 {
			return fmt.Errorf(": tree has no point here")
		}
		if n.pt != nil {
			dst.Set(reflect.ValueOf(n.pt))
		} else {
			dst.Set(reflect.ValueOf(g1(n.v)))
		}
		return nil
	case isFr(t):
		if n.k != kFr {
			return fmt.Errorf(": tree has no scalar here")
		}
		dst.Set(reflect.ValueOf(in.Fr(n.v)))
		return nil
	case t.Kind() == reflect.Struct:
		if n.k != kStruct {
			return fmt.Errorf(": tree has no struct here")
		}
		seen := 0
		for i := 0; i < t.NumField(); i++ {
			c, ok := n.fields[t.Field(i).Name]
			if !ok {
				return fmt.Errorf(".%s: field of the library proof struct unknown to the oracle", t.Field(i).Name)
			}
			seen++
			if err := buildLib(in, g1, c, dst.Field(i)); err != nil {
				return fmt.Errorf(".%s%w", t.Field(i).Name, err)
			}
		}
		if seen != len(n.fields) {
			return fmt.Errorf(": the oracle models fields %v that the library struct %s does not have", n.names, t.String())
		}
		return nil
	case t.Kind() == reflect.Slice:
		if n.k != kSlice {
			return fmt.Errorf(": tree has no slice here")
		}
		if n.elems == nil {
			dst.Set(reflect.Zero(t))
			return nil
		}
		s := reflect.MakeSlice(t, len(n.elems), len(n.elems))
		for i, e := range n.elems {
			if err := buildLib(in, g1, e, s.Index(i)); err != nil {
				return fmt.Errorf("[%d]%w", i, err)
			}
		}
		dst.Set(s)
		return nil
	}
	return fmt.Errorf(": unmodelled component of type %s", t.String())
}

// sameTree compares a tree read from the library (points as library values) with an oracle tree (points as
// discrete logarithms); it returns the path of the first difference.
func sameTree(g1 func(*big.Int) any, lib, want *node, p path) (bool, string) {
	if lib.k != want.k {
		return false, p.String() + ": kind"
	}
	switch lib.k {
	case kG1:
		if lib.pt != g1(want.v) {
			return false, p.String()
		}
	case kFr:
		if lib.v.Cmp(want.v) != 0 {
			return false, fmt.Sprintf("%s: got %s want %s", p.String(), short(lib.v), short(want.v))
		}
	case kStruct:
		if len(lib.names) != len(want.names) {
			return false, fmt.Sprintf("%s: fields %v vs modelled %v", p.String(), lib.names, want.names)
		}
		for _, nm := range lib.names {
			w, ok := want.fields[nm]
			if !ok {
				return false, p.String() + "." + nm + ": not modelled"
			}
			if ok, d := sameTree(g1, lib.fields[nm], w, append(append(path{}, p...), step{name: nm})); !ok {
				return false, d
			}
		}
	case kSlice:
		if len(lib.elems) != len(want.elems) {
			return false, fmt.Sprintf("%s: length %d want %d", p.String(), len(lib.elems), len(want.elems))
		}
		for i := range lib.elems {
			if ok, d := sameTree(g1, lib.elems[i], want.elems[i], append(append(path{}, p...), step{idx: i})); !ok {
				return false, d
			}
		}
	}
	return true, ""
}

func short(v *big.Int) string {
	if v == nil {
		return "<nil>"
	}
	s := v.Text(16)
	if len(s) > 16 {
		return "0x" + s[:8] + "…" + s[len(s)-6:]
	}
	return "0x" + s
}

func shortList(vs []*big.Int) string {
	var sb strings.Builder
	sb.WriteByte('[')
	for i, v := range vs {
		if i > 0 {
			sb.WriteByte(' ')
		}
		if i >= 6 {
			fmt.Fprintf(&sb, "…(%d)", len(vs))
			break
		}
		sb.WriteString(short(v))
	}
	sb.WriteByte(']')
	return sb.String()
}

func full(v *big.Int) string { return "0x" + v.Text(16) }

func fullList(vs []*big.Int) string {
	s := make([]string, len(vs))
	for i := range vs {
		s[i] = full(vs[i])
	}
	return "[" + strings.Join(s, ",") + "]"
}

func fullList2(vs [][]*big.Int) string {
	s := make([]string, len(vs))
	for i := range vs {
		s[i] = fullList(vs[i])
	}
	return "[" + strings.Join(s, ",") + "]"
}
