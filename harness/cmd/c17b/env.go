package main

import (
	"crypto/sha256"
	"crypto/sha512"
	"fmt"
	"hash"
	"math/big"
	"reflect"

	"verif/harness/adapt/shplonks"
	"verif/harness/gen"
	"verif/harness/mon"
)

// env is the state of one (curve, scheme) worker.
type env struct {
	c       *mon.Ctx
	in      *shplonks.Inst
	f       fld
	tau     *big.Int
	pk, vk  any
	rng     *gen.Rng
	L       string // violation-key instance, e.g. "ecc/bn254/shplonk"
	g1cache map[string]any
	// bindCV: the library's gamma also binds the claimed values (points, digests, claimed values, data).
	// Detected on the first honest proof; false = the layout documented in shplonk.deriveChallenge today.
	bindCV     bool
	layoutSeen bool
	truthS     [][]*big.Int   // true evaluations of the statement under attack (SHPLONK)
	truthF     [][][]*big.Int // true outer values of the statement under attack (fflonk)
}

func equal2(a, b [][]*big.Int) bool {
	if len(a) != len(b) {
		return false
	}
	for i := range a {
		if len(a[i]) != len(b[i]) {
			return false
		}
		for j := range a[i] {
			if a[i][j].Cmp(b[i][j]) != 0 {
				return false
			}
		}
	}
	return true
}

func equal3(a, b [][][]*big.Int) bool {
	if len(a) != len(b) {
		return false
	}
	for i := range a {
		if !equal2(a[i], b[i]) {
			return false
		}
	}
	return true
}

func newHash(name string) hash.Hash {
	if name == "sha512" {
		return sha512.New()
	}
	return sha256.New()
}

// g1 turns a discrete logarithm into the library's point type (cached).
func (e *env) g1(d *big.Int) any {
	k := e.f.red(d)
	key := k.Text(62)
	if p, ok := e.g1cache[key]; ok {
		return p
	}
	p := e.in.G1Mul(k)
	e.g1cache[key] = p
	return p
}

func (e *env) g1s(ds []*big.Int) []any {
	out := make([]any, len(ds))
	for i := range ds {
		out[i] = e.g1(ds[i])
	}
	return out
}

func (e *env) frBytes(v *big.Int) []byte {
	b := make([]byte, e.in.FrBytes)
	e.f.red(v).FillBytes(b)
	return b
}

// randFr returns a uniformly random non-zero scalar.
func (e *env) randFr() *big.Int {
	for {
		v := e.rng.BigBelow(e.f.r)
		if v.Sign() != 0 {
			return v
		}
	}
}

// distinctFr returns a random scalar different from all of avoid.
func (e *env) distinctFr(avoid ...[]*big.Int) *big.Int {
	for {
		v := e.randFr()
		ok := true
		for _, a := range avoid {
			for _, x := range a {
				if x.Cmp(v) == 0 {
					ok = false
				}
			}
		}
		if ok {
			return v
		}
	}
}

func (e *env) randPoly(n int) []*big.Int {
	p := make([]*big.Int, n)
	for i := range p {
		p[i] = e.rng.BigBelow(e.f.r)
	}
	return p
}

// expectation of one verification.
type expect int

const (
	byRelation  expect = iota // accept iff the scheme's algebraic relation holds (decided in the exponent)
	mustReject                // ill-formed proof object: an error is expected, a panic is reported separately
	noPanicOnly               // only the absence of a panic is demanded
)

// verdict records one BatchVerify observation against the oracle.
//
//	kind        forgery kind (goes into the violation key)
//	relHolds    the oracle's decision of the algebraic relation (ignored unless exp == byRelation)
//	falseNoTrap the statement shown to the verifier is false AND the forger used no trapdoor: acceptance is a
//	            soundness failure whatever the relation says
func (e *env) verdict(kind string, exp expect, relHolds bool, falseNoTrap bool, call func() error, desc func() string) (accepted bool) {
	var err error
	e.c.Current(e.L + " " + kind)
	if e.c.Guard(e.L+"/BatchVerify/panic/"+kind, desc, func() { err = call() }) {
		e.c.Eval("BatchVerify/"+kind, 1)
		return false
	}
	accepted = err == nil
	if err == shplonks.ErrInputModified {
		e.c.Fail(e.L+"/BatchVerify/input-modified/"+kind, "%s", desc())
		return false
	}
	d := func() string { return fmt.Sprintf("%s; library returned err=%v", desc(), err) }
	switch exp {
	case byRelation:
		if relHolds {
			if falseNoTrap {
				e.c.Check("BatchVerify/"+kind, e.L+"/BatchVerify/accepted-false-statement/"+kind, !accepted, d)
			} else {
				e.c.Check("BatchVerify/"+kind, e.L+"/BatchVerify/rejected-valid/"+kind, accepted, d)
			}
		} else {
			e.c.Check("BatchVerify/"+kind, e.L+"/BatchVerify/accepted-forgery/"+kind, !accepted, d)
		}
	case mustReject:
		e.c.Check("BatchVerify/"+kind, e.L+"/BatchVerify/accepted-malformed/"+kind, !accepted, d)
	case noPanicOnly:
		e.c.Eval("BatchVerify/"+kind, 1)
	}
	return accepted
}

// libProof builds a library proof object (pointer) of the type of `zero` from the tree.
func (e *env) libProof(zero any, t *node) (any, error) {
	p := reflect.New(reflect.TypeOf(zero).Elem())
	if err := buildLib(e.in, e.g1, t, p.Elem()); err != nil {
		return nil, err
	}
	return p.Interface(), nil
}

// ---------------------------------------------------------------------------------------------
// Fiat-Shamir, as documented: challenge = H(name || previous challenge || bound values ...), reduced mod r
// (fiat-shamir.Transcript.ComputeChallenge); "gamma" binds points (row major), digests, [claimed values,] extra data;
// "z" binds W. Points are the big-endian fr encoding; G1 points use the library's Marshal (codec = property C07).

type chal struct {
	raw []byte
	v   *big.Int
}

func (e *env) gamma(hname string, dig []*big.Int, pts [][]*big.Int, cv [][]*big.Int, data [][]byte) chal {
	return e.gammaOmit("", hname, dig, pts, cv, data)
}

// gammaOmit is gamma with one binding left out ("points", "digests", "data"): the challenge a verifier would compute
// if it forgot that binding. Only used to build forgeries that such a verifier accepts.
func (e *env) gammaOmit(omit, hname string, dig []*big.Int, pts [][]*big.Int, cv [][]*big.Int, data [][]byte) chal {
	h := newHash(hname)
	h.Write([]byte("gamma"))
	if omit == "points" {
		pts = nil
	}
	if omit == "digests" {
		dig = nil
	}
	if omit == "data" {
		data = nil
	}
	for i := range pts {
		for j := range pts[i] {
			h.Write(e.frBytes(pts[i][j]))
		}
	}
	for i := range dig {
		h.Write(e.in.G1Marshal(e.g1(dig[i])))
	}
	if e.bindCV {
		for i := range cv {
			for j := range cv[i] {
				h.Write(e.frBytes(cv[i][j]))
			}
		}
	}
	for _, d := range data {
		h.Write(d)
	}
	raw := h.Sum(nil)
	return chal{raw, e.f.red(new(big.Int).SetBytes(raw))}
}

func (e *env) zOf(hname string, g chal, w any) chal {
	h := newHash(hname)
	h.Write([]byte("z"))
	h.Write(g.raw)
	if w != nil {
		h.Write(e.in.G1Marshal(w))
	}
	raw := h.Sum(nil)
	return chal{raw, e.f.red(new(big.Int).SetBytes(raw))}
}

func flat(p [][]*big.Int) []*big.Int {
	var out []*big.Int
	for i := range p {
		out = append(out, p[i]...)
	}
	return out
}

func flatExcept(p [][]*big.Int, i int) []*big.Int {
	var out []*big.Int
	for k := range p {
		if k != i {
			out = append(out, p[k]...)
		}
	}
	return out
}
