// C17B (part of C17): SHPLONK and fflonk batch openings of the 7 pairing curves. The reference string is generated
// with a known trapdoor, so that every G1 element shown to a verifier has a known discrete logarithm and the
// oracle decides the pairing equation in the exponent. Honest proofs must equal the specification's proof and be
// accepted; for every check a verifier has to make a targeted forgery violating only that check is built;
// every leaf of the proof structs (found by reflection) is substituted; forgeries of false statements built WITHOUT
// the trapdoor must be rejected.
package main

import (
	"bytes"
	"fmt"
	"math/big"
	"sync"

	"verif/harness/adapt/shplonks"
	"verif/harness/gen"
	"verif/harness/mon"
	"verif/harness/oracle/ocurve"
	"verif/harness/oracle/ofield"
)

var sShapes = []sShape{
	{class: "minimal-1poly-1point", sizes: []int{2}, sets: []int{1}},
	{class: "constant-poly", sizes: []int{1}, sets: []int{1}},
	{class: "two-polys", sizes: []int{5, 9}, sets: []int{2, 3}},
	{class: "set-larger-than-poly", sizes: []int{7, 3, 12}, sets: []int{1, 4, 2}, data: 1},
	{class: "same-set-for-all", sizes: []int{8, 8, 8}, sets: []int{2, 2, 2}, overlap: "same"},
	{class: "overlapping-sets", sizes: []int{6, 10}, sets: []int{2, 2}, overlap: "chain"},
	{class: "zero-polynomial", sizes: []int{0, 5}, sets: []int{2, 1}},
	{class: "special-points-0-1-minus1", sizes: []int{33, 64}, sets: []int{2, 2}, overlap: "special", hash: "sha512"},
	{class: "five-polys", sizes: []int{1, 20, 3, 17, 6}, sets: []int{1, 3, 2, 1, 2}, data: 3},
	{class: "eight-polys-chained-sets", sizes: []int{3, 100, 1, 64, 17, 2, 31, 8}, sets: []int{5, 1, 2, 3, 1, 4, 2, 1}, overlap: "chain", data: 2},
}

var fShapes = []fShape{
	{class: "one-pack-one-poly", packs: [][]int{{3}}, sets: []int{1}},
	{class: "one-pack-two-polys", packs: [][]int{{4, 6}}, sets: []int{2}},
	{class: "three-polys", packs: [][]int{{5, 2, 7}}, sets: []int{2}},
	{class: "two-packs", packs: [][]int{{3, 5}, {6}}, sets: []int{2, 3}, data: 1},
	{class: "five-polys-and-a-pair", packs: [][]int{{2, 9, 4, 1, 6}, {3, 3}}, sets: []int{1, 2}, data: 2, hash: "sha512"},
	{class: "constant-polys", packs: [][]int{{1, 1}}, sets: []int{1}},
	{class: "nine-polys-and-a-pair", packs: [][]int{{10, 3, 7, 1, 9, 2, 8, 5, 6}, {4, 2}}, sets: []int{3, 2}, data: 1},
}

func deepShapes(class string) bool {
	switch class {
	case "two-polys", "set-larger-than-poly", "same-set-for-all", "one-pack-two-polys", "three-polys", "two-packs":
		return true
	}
	return false
}

// selfCheck validates what the monitor borrows from the library: ScalarMultiplicationBase against the affine
// double-and-add of oracle/ocurve, and the big-endian scalar encoding.
func selfCheck(c *mon.Ctx, in *shplonks.Inst, rng *gen.Rng) bool {
	fp := ofield.Prime(in.P)
	cv := &ocurve.Curve{F: fp, A: fp.FromInt(in.CurveA), B: fp.FromInt(in.CurveB)}
	g := ocurve.Pt{X: fp.FromInt(in.G1X), Y: fp.FromInt(in.G1Y)}
	if !cv.IsOnCurve(g) {
		c.Inconclusive("%s: G1 generator not on the curve", in.Name)
		return false
	}
	if !cv.Mul(g, in.R).Inf {
		c.Inconclusive("%s: [r]G1 != O", in.Name)
		return false
	}
	ks := []*big.Int{big.NewInt(0), big.NewInt(1), big.NewInt(2), new(big.Int).Sub(in.R, big.NewInt(1)), rng.BigBelow(in.R), rng.BigBelow(in.R)}
	for _, k := range ks {
		x, y := in.G1XY(in.G1Mul(k))
		w := cv.Mul(g, k)
		ok := false
		if w.Inf {
			ok = x.Sign() == 0 && y.Sign() == 0
		} else {
			ok = w.X[0].Cmp(x) == 0 && w.Y[0].Cmp(y) == 0
		}
		if !ok {
			c.Inconclusive("%s: ScalarMultiplicationBase(%s) differs from the affine oracle (outside C17: the monitor cannot map exponents to points)", in.Name, k.Text(16))
			return false
		}
	}
	v := rng.BigBelow(in.R)
	b := make([]byte, in.FrBytes)
	v.FillBytes(b)
	if !bytes.Equal(b, in.FrMarshal(v)) {
		c.Inconclusive("%s: fr.Element.Marshal is not the fixed-size big-endian encoding", in.Name)
		return false
	}
	return true
}

func runShplonk(e *env) {
	c := e.c
	shapes := append([]sShape{}, sShapes...)
	if c.Thorough() {
		// seeded shapes: 1..8 polynomials of size 1..150, sets of 1..6 points, all overlap modes, 0..3 extra strings
		for k := 0; k < 80; k++ {
			np := 1 + e.rng.Intn(8)
			sh := sShape{class: fmt.Sprintf("seeded-%d", k), data: e.rng.Intn(4), overlap: []string{"", "", "same", "chain", "special"}[e.rng.Intn(5)], hash: []string{"sha256", "sha256", "sha512"}[e.rng.Intn(3)]}
			m := 1 + e.rng.Intn(6)
			for i := 0; i < np; i++ {
				sz := 1 + e.rng.Intn(150)
				if e.rng.Intn(3) == 0 {
					sz = 1 + e.rng.Intn(8)
				}
				sh.sizes = append(sh.sizes, sz)
				if sh.overlap == "same" {
					sh.sets = append(sh.sets, m)
				} else {
					sh.sets = append(sh.sets, 1+e.rng.Intn(6))
				}
			}
			shapes = append(shapes, sh)
		}
		shapes = append(shapes, sShape{class: "large", sizes: []int{700, 512, 333}, sets: []int{3, 1, 5}, data: 1})
	}
	// the transcript layout is detected on the first honest proof: it must be one whose W and W' depend on gamma
	for _, sh := range shapes {
		if len(sh.sizes) >= 2 {
			e.sHonest(e.sDraw(sh))
			break
		}
	}
	for _, sh := range shapes {
		a := e.sDraw(sh)
		pa, okA := e.sHonest(a)
		b := e.sDraw(sh)
		pb, okB := e.sHonest(b)
		if !okA || !okB {
			continue // the honest failure is already recorded; forgeries need a sound base
		}
		depth := 2
		if deepShapes(sh.class) {
			depth = 3
		}
		if c.Thorough() {
			depth += 2
		}
		e.sBattery(a, pa, b, pb, depth)
	}
}

func runFflonk(e *env) {
	c := e.c
	shapes := append([]fShape{}, fShapes...)
	if c.Thorough() {
		shapes = append(shapes, fShape{class: "nine-polys-five-packs", packs: [][]int{{10, 11, 12, 13, 14, 15, 16, 17, 18}, {10, 11, 12, 13, 14, 15, 16, 17, 18}, {18, 3, 9, 1, 2, 3, 4, 5, 6}}, sets: []int{4, 5, 2}})
		for k := 0; k < 50; k++ {
			np := 1 + e.rng.Intn(4)
			sh := fShape{class: fmt.Sprintf("seeded-%d", k), data: e.rng.Intn(3), hash: []string{"sha256", "sha512"}[e.rng.Intn(2)]}
			for i := 0; i < np; i++ {
				var pk []int
				for j, n := 0, 1+e.rng.Intn(9); j < n; j++ {
					pk = append(pk, 1+e.rng.Intn(24))
				}
				sh.packs = append(sh.packs, pk)
				sh.sets = append(sh.sets, 1+e.rng.Intn(4))
			}
			shapes = append(shapes, sh)
		}
	}
	// the transcript layout is detected on the first honest proof: it must be one with several folded polynomials
	for _, sh := range shapes {
		if len(sh.packs) >= 2 {
			if a := e.fDraw(sh); a != nil {
				e.fHonest(a)
				break
			}
		}
	}
	for _, sh := range shapes {
		a := e.fDraw(sh)
		if a == nil {
			c.Note("%s: shape %s skipped, no divisor of r-1 within 100 of a pack size", e.L, sh.class)
			continue
		}
		pa, okA := e.fHonest(a)
		b := e.fDraw(sh)
		pb, okB := e.fHonest(b)
		if !okA || !okB {
			continue
		}
		depth := 2
		if deepShapes(sh.class) {
			depth = 3
		}
		if c.Thorough() {
			depth += 2
		}
		e.fBattery(a, pa, b, pb, depth)
	}
}

func main() {
	c := mon.Init("C17")
	var wg sync.WaitGroup
	for _, it := range shplonks.All {
		it := it
		if !mon.Selected("ecc/"+it.Name+"/shplonk") && !mon.Selected("ecc/"+it.Name+"/fflonk") {
			continue
		}
		wg.Add(1)
		go func() {
			defer wg.Done()
			in := it.New()
			rng := gen.New(c.Seed, "c17b/"+in.Name+"/srs")
			if !selfCheck(c, in, rng) {
				return
			}
			var tau *big.Int
			for {
				tau = rng.BigBelow(in.R)
				if tau.Sign() != 0 {
					break
				}
			}
			size := uint64(c.Pick(256, 2048))
			pk, vk, err := in.NewSRS(size, tau)
			if err != nil {
				c.Inconclusive("%s: kzg.NewSRS(%d, tau): %v", in.Name, size, err)
				return
			}
			var w2 sync.WaitGroup
			for _, scheme := range []string{"shplonk", "fflonk"} {
				scheme := scheme
				L := "ecc/" + in.Name + "/" + scheme
				if !mon.Selected(L) {
					continue
				}
				w2.Add(1)
				go func() {
					defer w2.Done()
					e := &env{c: c, in: in, f: fld{in.R}, tau: tau, pk: pk, vk: vk, L: L,
						rng: gen.New(c.Seed, "c17b/"+in.Name+"/"+scheme), g1cache: map[string]any{}}
					if scheme == "shplonk" {
						runShplonk(e)
					} else {
						runFflonk(e)
					}
				}()
			}
			w2.Wait()
		}()
	}
	wg.Wait()
	c.Extra("srs_size", c.Pick(256, 2048))
	c.Finish()
}
