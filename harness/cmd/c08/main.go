// C08: field-element conversions: round trips, lenient setters = residue mod q,
// strict decoders accept exactly canonical fixed-length encodings, vector codecs
// (sync + async), no panics on any documented input type.
package main

import (
	"bytes"
	"encoding/binary"
	"encoding/json"
	"flag"
	"fmt"
	"io"
	"math/big"
	"runtime/debug"
	"strings"
	"sync"
	"testing/iotest"

	"verif/harness/adapt/fields"
	"verif/harness/gen"
	"verif/harness/mon"
)

var mode = flag.String("mode", "all", "all | async (async/vector part only, for the race build)")

var one = big.NewInt(1)

func beBytes(v *big.Int, n int) []byte {
	b := make([]byte, n)
	v.FillBytes(b)
	return b
}

// limbBoundary: values on both sides of q that differ from q in one machine word (64- and 32-bit words) with the
// lower words all zero, all ones or equal to q's - the inputs that tell a word-by-word comparison with q apart
// from one that forgets a word. Returned as nb-byte big-endian strings; the caller's oracle decides which are < q.
func limbBoundary(q *big.Int, nb int) (above, below [][]byte) {
	seenA, seenB := map[string]bool{}, map[string]bool{}
	for _, w := range []uint{64, 32} {
		nw := (uint(nb)*8 + w - 1) / w
		for i := uint(0); i < nw; i++ {
			lowMask := new(big.Int).Sub(new(big.Int).Lsh(big.NewInt(1), w*i), big.NewInt(1))
			hi := new(big.Int).AndNot(q, lowMask) // q with the words below i cleared
			unit := new(big.Int).Lsh(big.NewInt(1), w*i)
			for _, low := range []*big.Int{new(big.Int), lowMask, new(big.Int).And(q, lowMask), big.NewInt(1)} {
				if low.Cmp(lowMask) > 0 {
					continue
				}
				for _, d := range []int64{0, 1, -1, 2} {
					v := new(big.Int).Add(hi, new(big.Int).Mul(unit, big.NewInt(d)))
					v.Or(v, low)
					if v.Sign() < 0 || v.BitLen() > 8*nb {
						continue
					}
					b := beBytes(v, nb)
					if v.Cmp(q) >= 0 {
						if !seenA[string(b)] {
							seenA[string(b)] = true
							above = append(above, b)
						}
					} else if !seenB[string(b)] {
						seenB[string(b)] = true
						below = append(below, b)
					}
				}
			}
		}
	}
	return
}

func rev(b []byte) []byte {
	r := make([]byte, len(b))
	for i := range b {
		r[len(b)-1-i] = b[i]
	}
	return r
}

func run[E any, P fields.Ptr[E]](c *mon.Ctx, f *fields.Field[E, P]) {
	q := f.Modulus
	N := f.Name
	rng := gen.New(c.Seed, "c08/"+N)
	nb := f.Bytes
	hx := func(v *big.Int) string { return v.Text(16) }
	val := func(e *E) *big.Int { return f.Value(e) }
	// eqv: element equals value v (mod q) and is canonical
	eqv := func(op, key string, e *E, v *big.Int, desc func() string) {
		w := new(big.Int).Mod(v, q)
		c.Check(op, N+"/"+key, f.Canonical(e) && val(e).Cmp(w) == 0, func() string {
			return fmt.Sprintf("%s: got %s (raw %s) want %s", desc(), hx(val(e)), hx(f.Raw(e)), hx(w))
		})
	}
	if *mode == "overflow" {
		overflowProbe(c, f)
		return
	}
	if *mode == "all" {
		L := fields.Lattice(f, rng, c.Pick(20, 1000), c.Thorough())
		// ---------- A. round trips of elements ----------
		seenRT := map[string]bool{}
		roundtrip := func(i int, v *big.Int, cls string) {
			if seenRT[v.String()] {
				return
			}
			seenRT[v.String()] = true
			x := f.FromValue(v)
			c.Class(N + "/roundtrip/" + cls)
			c.Current(N + " roundtrip " + hx(v))
			d := func(op string) func() string { return func() string { return op + " of " + hx(v) } }
			want := beBytes(v, nb)
			b := f.BytesOf(&x)
			c.Check("Bytes", N+"/Bytes/value-mismatch", bytes.Equal(b, want), func() string { return fmt.Sprintf("Bytes(%s)=%x", hx(v), b) })
			mb := P(&x).Marshal()
			c.Check("Marshal", N+"/Marshal/value-mismatch", bytes.Equal(mb, want), d("Marshal"))
			var z E
			P(&z).SetBytes(want)
			eqv("SetBytes", "SetBytes/roundtrip", &z, v, d("SetBytes(Bytes)"))
			var z1 E
			err := P(&z1).SetBytesCanonical(want)
			c.Check("SetBytesCanonical", N+"/SetBytesCanonical/rejected-canonical", err == nil, func() string { return fmt.Sprintf("%s err=%v", hx(v), err) })
			if err == nil {
				eqv("SetBytesCanonical", "SetBytesCanonical/roundtrip", &z1, v, d("SetBytesCanonical"))
			}
			var z2 E
			P(&z2).Unmarshal(want)
			eqv("Unmarshal", "Unmarshal/roundtrip", &z2, v, d("Unmarshal"))
			// byte orders
			buf := make([]byte, nb)
			f.BEPut(buf, x)
			c.Check("BigEndian.PutElement", N+"/BigEndian.PutElement/value-mismatch", bytes.Equal(buf, want), d("BigEndian.PutElement"))
			e1, err := f.BEElement(want)
			c.Check("BigEndian.Element", N+"/BigEndian.Element/rejected-canonical", err == nil, d("BigEndian.Element"))
			if err == nil {
				eqv("BigEndian.Element", "BigEndian.Element/roundtrip", &e1, v, d("BigEndian.Element"))
			}
			f.LEPut(buf, x)
			c.Check("LittleEndian.PutElement", N+"/LittleEndian.PutElement/value-mismatch", bytes.Equal(buf, rev(want)), d("LittleEndian.PutElement"))
			e2, err := f.LEElement(rev(want))
			c.Check("LittleEndian.Element", N+"/LittleEndian.Element/rejected-canonical", err == nil, d("LittleEndian.Element"))
			if err == nil {
				eqv("LittleEndian.Element", "LittleEndian.Element/roundtrip", &e2, v, d("LittleEndian.Element"))
			}
			// integers
			bi := P(&x).BigInt(new(big.Int))
			c.Check("BigInt", N+"/BigInt/value-mismatch", bi.Cmp(v) == 0, func() string { return fmt.Sprintf("BigInt(%s)=%s", hx(v), hx(bi)) })
			junk := new(big.Int).Lsh(one, 900) // destination pre-filled with a large value
			bi2 := P(&x).BigInt(junk)
			c.Check("BigInt", N+"/BigInt/value-mismatch-dirty-dest", bi2.Cmp(v) == 0, d("BigInt(dirty dest)"))
			br := P(&x).ToBigIntRegular(new(big.Int))
			c.Check("ToBigIntRegular", N+"/ToBigIntRegular/value-mismatch", br.Cmp(v) == 0, d("ToBigIntRegular"))
			bits := f.BitsOf(&x)
			bv := new(big.Int)
			for k := len(bits) - 1; k >= 0; k-- {
				bv.Lsh(bv, uint(f.LimbBits))
				bv.Or(bv, new(big.Int).SetUint64(bits[k]))
			}
			c.Check("Bits", N+"/Bits/value-mismatch", bv.Cmp(v) == 0, func() string { return fmt.Sprintf("Bits(%s)=%v", hx(v), bits) })
			var z3 E
			P(&z3).SetBigInt(bi)
			eqv("SetBigInt", "SetBigInt/roundtrip", &z3, v, d("SetBigInt(BigInt)"))
			// the source must not change
			c.Check("roundtrip", N+"/conversion/source-modified", val(&x).Cmp(v) == 0, d("source after conversions"))
			// text in every base
			for base := 2; base <= 36; base++ {
				if !c.Thorough() && base > 4 && base != 8 && base != 10 && base != 16 && base != 36 && (base+i)%7 != 0 {
					continue
				}
				t := P(&x).Text(base)
				p, ok := new(big.Int).SetString(t, base)
				c.Check("Text", N+"/Text/value-mismatch", ok && new(big.Int).Mod(p, q).Cmp(v) == 0, func() string {
					return fmt.Sprintf("Text(%d) of %s = %q", base, hx(v), t)
				})
			}
			s := P(&x).String()
			c.Check("String", N+"/String/not-Text10", s == P(&x).Text(10), d("String"))
			var z4 E
			_, err = P(&z4).SetString(s)
			c.Check("SetString", N+"/SetString/rejected-own-String", err == nil, func() string { return fmt.Sprintf("SetString(%q) err=%v", s, err) })
			if err == nil {
				eqv("SetString", "SetString/String-roundtrip", &z4, v, func() string { return fmt.Sprintf("SetString(String()=%q) of %s", s, hx(v)) })
			}
			var z5 E
			_, err = P(&z5).SetString("0x" + P(&x).Text(16))
			if c.Check("SetString", N+"/SetString/rejected-hex", err == nil, d("SetString(0x+Text(16))")) {
				eqv("SetString", "SetString/hex-roundtrip", &z5, v, d("SetString(0x+Text(16))"))
			}
			// JSON
			js, err := P(&x).MarshalJSON()
			if c.Check("MarshalJSON", N+"/MarshalJSON/error", err == nil && json.Valid(js), func() string { return fmt.Sprintf("MarshalJSON(%s)=%q err=%v", hx(v), js, err) }) {
				var z6 E
				err = P(&z6).UnmarshalJSON(js)
				if c.Check("UnmarshalJSON", N+"/UnmarshalJSON/rejected-own-json", err == nil, func() string { return fmt.Sprintf("UnmarshalJSON(%q) err=%v", js, err) }) {
					eqv("UnmarshalJSON", "UnmarshalJSON/json-roundtrip", &z6, v, func() string { return fmt.Sprintf("UnmarshalJSON(MarshalJSON()=%q) of %s", js, hx(v)) })
				}
				var z7 E
				if err := json.Unmarshal(js, P(&z7)); err == nil {
					eqv("json.Unmarshal", "json.Unmarshal/roundtrip", &z7, v, d("json.Unmarshal"))
				} else {
					c.Fail(N+"/json.Unmarshal/rejected-own-json", "json.Unmarshal(%q): %v", js, err)
				}
			}
			// SetInterface with each supported dynamic type
			for ti, in := range []any{x, &x, bi, *bi, want, s} {
				var z8 E
				_, err := P(&z8).SetInterface(in)
				if c.Check("SetInterface", N+"/SetInterface/rejected-supported-type", err == nil, func() string { return fmt.Sprintf("SetInterface(%T) err=%v", in, err) }) {
					eqv("SetInterface", fmt.Sprintf("SetInterface/type%d-mismatch", ti), &z8, v, func() string { return fmt.Sprintf("SetInterface(%T) of %s", in, hx(v)) })
				}
			}
			if i == len(L.V)/3 && cls != "int-list" {
				c.SampleOnce(N, map[string]any{"field": N, "value": hx(v), "class": cls, "bytes": fmt.Sprintf("%x", b), "text10": s, "json": string(js)})
			}
		}
		for i, v := range L.V {
			roundtrip(i, v, L.Cls[i])
		}

		// ---------- B. lenient setters on arbitrary integers ----------
		var ints []*big.Int
		addI := func(v *big.Int) { ints = append(ints, v, new(big.Int).Neg(v)) }
		for _, k := range []int64{0, 1, 2, 3, 65535, 65536, 65537} {
			addI(big.NewInt(k))
		}
		for k := int64(1); k <= 4; k++ {
			kq := new(big.Int).Mul(q, big.NewInt(k))
			addI(kq)
			addI(new(big.Int).Add(kq, one))
			addI(new(big.Int).Sub(kq, one))
		}
		addI(new(big.Int).Sub(new(big.Int).Lsh(one, uint(8*nb)), one))
		addI(new(big.Int).Lsh(one, uint(8*nb)))
		for k := 8; k <= 2*8*nb+8; k += 8 {
			if k%64 != 0 && k%32 != 0 && !c.Thorough() && k != 8*nb-8 && k != 8*nb+8 {
				continue
			}
			p := new(big.Int).Lsh(one, uint(k))
			addI(p)
			addI(new(big.Int).Add(p, one))
			addI(new(big.Int).Sub(p, one))
			// the class the short "-k" text form lives in: q - (2^k + small)
			addI(new(big.Int).Add(p, big.NewInt(65535)))
			addI(new(big.Int).Add(p, big.NewInt(5)))
		}
		addI(rng.BigBits(1000))
		addI(rng.BigBits(4000))
		for k := 0; k < c.Pick(20, 3000); k++ {
			addI(rng.BigBits(1 + rng.Intn(2*8*nb)))
		}
		for ii, v := range ints {
			c.Current(N + " lenient " + v.String())
			d := func(op string) func() string { return func() string { return op + "(" + v.String() + ")" } }
			keep := new(big.Int).Set(v)
			roundtrip(ii, new(big.Int).Mod(v, q), "int-list")
			var z E
			P(&z).SetBigInt(v)
			eqv("SetBigInt", "SetBigInt/not-residue", &z, v, d("SetBigInt"))
			c.Check("SetBigInt", N+"/SetBigInt/argument-modified", v.Cmp(keep) == 0, d("SetBigInt arg"))
			if v.IsInt64() {
				var z1 E
				P(&z1).SetInt64(v.Int64())
				eqv("SetInt64", "SetInt64/not-residue", &z1, v, d("SetInt64"))
				_, err := P(&z1).SetInterface(v.Int64())
				c.Check("SetInterface", N+"/SetInterface/int64-error", err == nil, d("SetInterface(int64)"))
				eqv("SetInterface", "SetInterface/int64-not-residue", &z1, v, d("SetInterface(int64)"))
				if int64(int(v.Int64())) == v.Int64() { // int has 32 bits on the 386 build
					_, _ = P(&z1).SetInterface(int(v.Int64()))
					eqv("SetInterface", "SetInterface/int-not-residue", &z1, v, d("SetInterface(int)"))
				}
			}
			if v.IsUint64() {
				var z1 E
				P(&z1).SetUint64(v.Uint64())
				eqv("SetUint64", "SetUint64/not-residue", &z1, v, d("SetUint64"))
				ne := f.NewElement(v.Uint64())
				eqv("NewElement", "NewElement/not-residue", &ne, v, d("NewElement"))
				_, _ = P(&z1).SetInterface(v.Uint64())
				eqv("SetInterface", "SetInterface/uint64-not-residue", &z1, v, d("SetInterface(uint64)"))
			}
			strs := []string{v.String(), v.Text(10)}
			neg := ""
			av := new(big.Int).Abs(v)
			if v.Sign() < 0 {
				neg = "-"
			}
			strs = append(strs, neg+"0x"+av.Text(16), neg+"0X"+strings.ToUpper(av.Text(16)), neg+"0b"+av.Text(2), neg+"0o"+av.Text(8), neg+"0"+av.Text(8))
			if v.Sign() >= 0 {
				strs = append(strs, "+"+v.String())
			}
			if len(av.String()) > 3 {
				s := av.String()
				strs = append(strs, neg+s[:1]+"_"+s[1:]) // underscores only allowed with base prefix -> must be an error or correct
			}
			for si, s := range strs {
				var z2 E
				P(&z2).SetUint64(77)
				var r *E
				var err error
				if c.Guard(N+"/SetString/panic", func() string { return fmt.Sprintf("SetString(%q)", s) }, func() { r, err = P(&z2).SetString(s) }) {
					continue
				}
				_, ok := new(big.Int).SetString(s, 0)
				if !c.Check("SetString", N+"/SetString/accept-mismatch", (err == nil) == ok, func() string { return fmt.Sprintf("SetString(%q) err=%v, big.Int accepts=%v", s, err, ok) }) {
					continue
				}
				if ok {
					eqv("SetString", fmt.Sprintf("SetString/form%d-not-residue", si), &z2, v, func() string { return fmt.Sprintf("SetString(%q)", s) })
					c.Check("SetString", N+"/SetString/returned-pointer", r == &z2, d("SetString return"))
				} else {
					eqv("SetString", "SetString/changed-on-error", &z2, big.NewInt(77), func() string { return fmt.Sprintf("SetString(%q) failed but changed the receiver", s) })
				}
				if len(s) <= f.Bits*3 && ok {
					var z3 E
					for _, js := range []string{s, `"` + s + `"`} {
						if (strings.HasPrefix(s, "+") || strings.Contains(s, "0x") || strings.Contains(s, "0X") || strings.Contains(s, "0b") || strings.Contains(s, "0o") || (len(av.String()) > 1 && strings.HasPrefix(strings.TrimPrefix(s, "-"), "0"))) && js == s {
							continue // not JSON numbers; only meaningful quoted
						}
						var err error
						if c.Guard(N+"/UnmarshalJSON/panic", func() string { return fmt.Sprintf("UnmarshalJSON(%q)", js) }, func() { err = P(&z3).UnmarshalJSON([]byte(js)) }) {
							continue
						}
						if c.Check("UnmarshalJSON", N+"/UnmarshalJSON/rejected-valid", err == nil, func() string { return fmt.Sprintf("UnmarshalJSON(%q) err=%v", js, err) }) {
							eqv("UnmarshalJSON", "UnmarshalJSON/not-residue", &z3, v, func() string { return fmt.Sprintf("UnmarshalJSON(%q)", js) })
						}
					}
				}
			}
			if ii%9 == 0 {
				c.Class(fmt.Sprintf("%s/lenient/int-bits%d-sign%d", N, v.BitLen(), v.Sign()))
			}
		}
		// junk strings: error, no panic, receiver unchanged
		junk := []string{"", " ", "-", "+", "0x", "0b", "0b2", "12a", "1__0", "_1", "1_", "0x_", "--1", "1e5", "1.5", "\x00", " 1", "1 ", "0x1g", "١٢", "1\n", "0o8", "NaN", "Inf", "0x-1", "-", "1-", "0_x1"}
		for _, s := range junk {
			var z E
			P(&z).SetUint64(99)
			var err error
			if !c.Guard(N+"/SetString/panic", func() string { return fmt.Sprintf("SetString(%q)", s) }, func() { _, err = P(&z).SetString(s) }) {
				_, ok := new(big.Int).SetString(s, 0)
				c.Check("SetString", N+"/SetString/junk-accept-mismatch", (err == nil) == ok, func() string { return fmt.Sprintf("SetString(%q) err=%v big.Int ok=%v", s, err, ok) })
				if err != nil {
					eqv("SetString", "SetString/changed-on-error", &z, big.NewInt(99), func() string { return fmt.Sprintf("SetString(%q)", s) })
				}
			}
			c.Guard(N+"/SetInterface/panic", func() string { return fmt.Sprintf("SetInterface(%q)", s) }, func() { _, _ = P(&z).SetInterface(s) })
		}
		jsonJunk := []string{"", `"`, `""`, `"12`, `12"`, `null`, `{}`, `[1]`, `true`, `"0x"`, `1e3`, `1.0`, `-`, `"-"`, strings.Repeat("9", f.Bits*3+1), `"` + strings.Repeat("1", f.Bits*3) + `"`, "\"\\u0031\""}
		for _, s := range jsonJunk {
			var z E
			c.Guard(N+"/UnmarshalJSON/panic", func() string { return fmt.Sprintf("UnmarshalJSON(%.40q)", s) }, func() {
				err := P(&z).UnmarshalJSON([]byte(s))
				if err == nil { // accepted: then it must be the residue of what big.Int parses after stripping quotes
					t := strings.TrimSuffix(strings.TrimPrefix(s, `"`), `"`)
					if p, ok := new(big.Int).SetString(t, 0); ok {
						eqv("UnmarshalJSON", "UnmarshalJSON/junk-not-residue", &z, p, func() string { return fmt.Sprintf("UnmarshalJSON(%.40q)", s) })
					} else {
						c.Fail(N+"/UnmarshalJSON/accepted-unparsable", "UnmarshalJSON(%.40q) returned nil error", s)
					}
				}
				c.Eval("UnmarshalJSON", 1)
			})
		}
		c.Class(N + "/junk-strings")
		// SetInterface: nil and unsupported types -> error, never panic
		for _, in := range []any{nil, (*E)(nil), (*big.Int)(nil), 1.5, struct{}{}, []int{1}, true, uint8(200), int8(-3), uint16(65535), int16(-300), uint32(1 << 31), int32(-1 << 31), uint(7)} {
			var z E
			var err error
			if c.Guard(N+"/SetInterface/panic", func() string { return fmt.Sprintf("SetInterface(%T %v)", in, in) }, func() { _, err = P(&z).SetInterface(in) }) {
				continue
			}
			var want *big.Int
			switch t := in.(type) {
			case uint8:
				want = big.NewInt(int64(t))
			case int8:
				want = big.NewInt(int64(t))
			case uint16:
				want = big.NewInt(int64(t))
			case int16:
				want = big.NewInt(int64(t))
			case uint32:
				want = big.NewInt(int64(t))
			case int32:
				want = big.NewInt(int64(t))
			case uint:
				want = big.NewInt(int64(t))
			}
			if want != nil {
				if c.Check("SetInterface", N+"/SetInterface/rejected-supported-type", err == nil, func() string { return fmt.Sprintf("SetInterface(%T)", in) }) {
					eqv("SetInterface", "SetInterface/small-int-not-residue", &z, want, func() string { return fmt.Sprintf("SetInterface(%T %v)", in, in) })
				}
			} else {
				c.Check("SetInterface", N+"/SetInterface/accepted-unsupported", err != nil, func() string { return fmt.Sprintf("SetInterface(%T) returned nil error", in) })
			}
		}

		// ---------- C. byte strings of every length ----------
		qb := beBytes(q, nb)
		qm1 := beBytes(new(big.Int).Sub(q, one), nb)
		qp1 := beBytes(new(big.Int).Add(q, one), nb)
		lbAbove, lbBelow := limbBoundary(q, nb)
		c.AddExtra("limb_boundary_values", int64(len(lbAbove)+len(lbBelow)))
		for l := 0; l <= 2*nb+1; l++ {
			var cands [][]byte
			cands = append(cands, make([]byte, l), bytes.Repeat([]byte{0xff}, l), rng.Bytes(l), rng.Bytes(l))
			if l == nb {
				cands = append(cands, lbAbove...)
				cands = append(cands, lbBelow...)
			}
			for _, src := range [][]byte{qb, qm1, qp1} {
				if l >= nb {
					cands = append(cands, append(make([]byte, l-nb), src...)) // left-padded
					ext := append(append([]byte{}, src...), make([]byte, l-nb)...)
					cands = append(cands, ext) // value shifted left
				} else {
					cands = append(cands, src[nb-l:])
				}
			}
			for _, b := range cands {
				v := new(big.Int).SetBytes(b)
				keep := append([]byte(nil), b...)
				var z E
				if c.Guard(N+"/SetBytes/panic", func() string { return fmt.Sprintf("SetBytes(%x)", b) }, func() { P(&z).SetBytes(b) }) {
					continue
				}
				eqv("SetBytes", "SetBytes/not-residue", &z, v, func() string { return fmt.Sprintf("SetBytes(len %d: %x)", l, b) })
				c.Check("SetBytes", N+"/SetBytes/argument-modified", bytes.Equal(b, keep), func() string { return fmt.Sprintf("SetBytes(%x)", keep) })
				var z1 E
				P(&z1).SetUint64(5)
				var err error
				if c.Guard(N+"/SetBytesCanonical/panic", func() string { return fmt.Sprintf("SetBytesCanonical(%x)", b) }, func() { err = P(&z1).SetBytesCanonical(b) }) {
					continue
				}
				canon := l == nb && v.Cmp(q) < 0
				c.Check("SetBytesCanonical", N+"/SetBytesCanonical/accept-mismatch", (err == nil) == canon, func() string {
					return fmt.Sprintf("SetBytesCanonical(len %d: %x) err=%v, canonical=%v", l, b, err, canon)
				})
				if err == nil && canon {
					eqv("SetBytesCanonical", "SetBytesCanonical/value-mismatch", &z1, v, func() string { return fmt.Sprintf("SetBytesCanonical(%x)", b) })
				}
				var z2 E
				_, err = P(&z2).SetInterface(b)
				if err == nil {
					eqv("SetInterface", "SetInterface/bytes-not-residue", &z2, v, func() string { return fmt.Sprintf("SetInterface([]byte %x)", b) })
				}
				if l == nb {
					for oi, dec := range []func([]byte) (E, error){f.BEElement, f.LEElement} {
						in := b
						name := "BigEndian.Element"
						if oi == 1 {
							in = rev(b)
							name = "LittleEndian.Element"
						}
						e, err := dec(in)
						c.Check(name, N+"/"+name+"/accept-mismatch", (err == nil) == canon, func() string { return fmt.Sprintf("%s(%x) err=%v canonical=%v", name, in, err, canon) })
						if err == nil && canon {
							eqv(name, name+"/value-mismatch", &e, v, func() string { return fmt.Sprintf("%s(%x)", name, in) })
						}
					}
				}
			}
			c.Class(fmt.Sprintf("%s/bytes/len%d", N, l))
		}
	}

	// ---------- E. vectors ----------
	lens := []int{}
	for n := 0; n <= 70; n++ {
		lens = append(lens, n)
	}
	lens = append(lens, 100, 127, 128, 129, 1000)
	if c.Thorough() {
		lens = append(lens, 255, 256, 257, 511, 513, 4099, 20000)
	}
	if *mode == "async" {
		lens = []int{0, 1, 2, 3, 15, 16, 17, 31, 33, 64, 65, 100, 1000}
	}
	qb := beBytes(q, nb)
	ff := bytes.Repeat([]byte{0xff}, nb)
	lbAboveV, _ := limbBoundary(q, nb)
	for _, n := range lens {
		c.Current(fmt.Sprintf("%s vector n=%d", N, n))
		vs := make([]*big.Int, n)
		a := make([]E, n)
		var want bytes.Buffer
		binary.Write(&want, binary.BigEndian, uint32(n))
		for i := range vs {
			switch i % 4 {
			case 0:
				vs[i] = new(big.Int).Sub(q, big.NewInt(int64(1+i)))
			case 1:
				vs[i] = big.NewInt(int64(i))
			default:
				vs[i] = rng.BigBelow(q)
			}
			vs[i].Mod(vs[i], q)
			a[i] = f.FromValue(vs[i])
			want.Write(beBytes(vs[i], nb))
		}
		var w bytes.Buffer
		nw, err := f.VecWriteTo(a, &w)
		c.Check("Vector.WriteTo", N+"/Vector.WriteTo/bytes-mismatch", err == nil && bytes.Equal(w.Bytes(), want.Bytes()), func() string { return fmt.Sprintf("n=%d err=%v", n, err) })
		c.Check("Vector.WriteTo", N+"/Vector.WriteTo/count-mismatch", nw == int64(want.Len()), func() string { return fmt.Sprintf("n=%d returned %d wrote %d", n, nw, w.Len()) })
		mb, err := f.VecMarshalBinary(a)
		c.Check("Vector.MarshalBinary", N+"/Vector.MarshalBinary/bytes-mismatch", err == nil && bytes.Equal(mb, want.Bytes()), func() string { return fmt.Sprintf("n=%d", n) })
		enc := want.Bytes()
		same := func(op string, got []E, extra string) {
			ok := len(got) == n
			for i := 0; ok && i < n; i++ {
				ok = f.Canonical(&got[i]) && val(&got[i]).Cmp(vs[i]) == 0
			}
			c.Check(op, N+"/"+op+"/roundtrip-mismatch", ok, func() string {
				bad := -1
				for i := 0; i < n && i < len(got); i++ {
					if val(&got[i]).Cmp(vs[i]) != 0 || !f.Canonical(&got[i]) {
						bad = i
						break
					}
				}
				return fmt.Sprintf("n=%d %s: len=%d first bad entry %d", n, extra, len(got), bad)
			})
		}
		readers := []struct {
			name string
			mk   func(b []byte) io.Reader
		}{
			{"whole", func(b []byte) io.Reader { return bytes.NewReader(b) }},
			{"onebyte", func(b []byte) io.Reader { return iotest.OneByteReader(bytes.NewReader(b)) }},
			{"half", func(b []byte) io.Reader { return iotest.HalfReader(bytes.NewReader(b)) }},
			{"dataerr", func(b []byte) io.Reader { return iotest.DataErrReader(bytes.NewReader(b)) }},
		}
		for ri, rd := range readers {
			if n > 200 && ri == 1 {
				continue
			}
			if *mode != "async" {
				got, nr, err := f.VecReadFrom(rd.mk(enc))
				if c.Check("Vector.ReadFrom", N+"/Vector.ReadFrom/error-on-valid/"+rd.name, err == nil, func() string { return fmt.Sprintf("n=%d err=%v", n, err) }) {
					same("Vector.ReadFrom", got, rd.name)
					c.Check("Vector.ReadFrom", N+"/Vector.ReadFrom/count-mismatch", nr == int64(len(enc)), func() string { return fmt.Sprintf("n=%d read %d of %d", n, nr, len(enc)) })
				}
			}
			got, nr, err, ch := f.VecAsyncReadFrom(rd.mk(enc))
			var cerr error
			if ch != nil {
				cerr = <-ch
			}
			if c.Check("Vector.AsyncReadFrom", N+"/Vector.AsyncReadFrom/error-on-valid/"+rd.name, err == nil && cerr == nil, func() string { return fmt.Sprintf("n=%d err=%v chan=%v", n, err, cerr) }) {
				same("Vector.AsyncReadFrom", got, rd.name)
				c.Check("Vector.AsyncReadFrom", N+"/Vector.AsyncReadFrom/count-mismatch", nr == int64(len(enc)), func() string { return fmt.Sprintf("n=%d read %d of %d", n, nr, len(enc)) })
			}
		}
		// receivers that already hold a vector: longer, shorter or of the same length, with stale content and spare
		// capacity - the decoded vector is the encoded one whatever the receiver held
		for di, dl := range []int{n, n + 3, n - 1, 2*n + 1} {
			if dl < 0 || (n > 200 && di > 1) {
				continue
			}
			stale := func() []E {
				v := make([]E, dl, dl+2)
				for i := range v {
					v[i] = f.FromValue(big.NewInt(int64(1000 + i)))
				}
				return v
			}
			tag := fmt.Sprintf("stale-receiver-len%+d", dl-n)
			if *mode != "async" {
				got, nr, err := f.VecReadFromInto(stale(), bytes.NewReader(enc))
				if c.Check("Vector.ReadFrom", N+"/Vector.ReadFrom/error-on-valid/"+tag, err == nil, func() string { return fmt.Sprintf("n=%d err=%v", n, err) }) {
					same("Vector.ReadFrom", got, tag)
					c.Check("Vector.ReadFrom", N+"/Vector.ReadFrom/count-mismatch", nr == int64(len(enc)), func() string { return fmt.Sprintf("n=%d read %d of %d (%s)", n, nr, len(enc), tag) })
				}
				got, err = f.VecUnmarshalBinaryInto(stale(), enc)
				if c.Check("Vector.UnmarshalBinary", N+"/Vector.UnmarshalBinary/error-on-valid/"+tag, err == nil, func() string { return fmt.Sprintf("n=%d err=%v", n, err) }) {
					same("Vector.UnmarshalBinary", got, tag)
				}
			}
			got, nr, err, ch := f.VecAsyncReadFromInto(stale(), bytes.NewReader(enc))
			var cerr error
			if ch != nil {
				cerr = <-ch
			}
			if c.Check("Vector.AsyncReadFrom", N+"/Vector.AsyncReadFrom/error-on-valid/"+tag, err == nil && cerr == nil, func() string { return fmt.Sprintf("n=%d err=%v chan=%v", n, err, cerr) }) {
				same("Vector.AsyncReadFrom", got, tag)
				c.Check("Vector.AsyncReadFrom", N+"/Vector.AsyncReadFrom/count-mismatch", nr == int64(len(enc)), func() string { return fmt.Sprintf("n=%d read %d of %d (%s)", n, nr, len(enc), tag) })
			}
		}
		if *mode != "async" {
			got, err := f.VecUnmarshalBinary(enc)
			if c.Check("Vector.UnmarshalBinary", N+"/Vector.UnmarshalBinary/error-on-valid", err == nil, func() string { return fmt.Sprintf("n=%d err=%v", n, err) }) {
				same("Vector.UnmarshalBinary", got, "")
			}
		}
		c.Class(fmt.Sprintf("%s/vector/n%d", N, n))
		// invalid entry at each position
		positions := []int{}
		if n <= 70 {
			for i := 0; i < n; i++ {
				positions = append(positions, i)
			}
		} else {
			positions = []int{0, 1, n / 2, n - 2, n - 1, rng.Intn(n)}
		}
		for _, pos := range positions {
			bads := [][]byte{qb, ff}
			if len(lbAboveV) > 0 {
				bads = append(bads, lbAboveV[(pos+n)%len(lbAboveV)])
			}
			for bi, badv := range bads {
				if bi == 1 && pos%3 != 0 {
					continue
				}
				bad := append([]byte(nil), enc...)
				copy(bad[4+pos*nb:], badv)
				if *mode != "async" {
					_, _, err := f.VecReadFrom(bytes.NewReader(bad))
					c.Check("Vector.ReadFrom", N+"/Vector.ReadFrom/accepted-non-canonical", err != nil, func() string { return fmt.Sprintf("n=%d entry %d = %x accepted", n, pos, badv) })
					_, err = f.VecUnmarshalBinary(bad)
					c.Check("Vector.UnmarshalBinary", N+"/Vector.UnmarshalBinary/accepted-non-canonical", err != nil, func() string { return fmt.Sprintf("n=%d entry %d = %x accepted", n, pos, badv) })
				}
				_, _, err, ch := f.VecAsyncReadFrom(bytes.NewReader(bad))
				var cerr error
				if ch != nil {
					cerr = <-ch
				}
				c.Check("Vector.AsyncReadFrom", N+"/Vector.AsyncReadFrom/accepted-non-canonical", err != nil || cerr != nil, func() string {
					return fmt.Sprintf("n=%d entry %d = %x accepted by the async reader (err=%v chan=%v)", n, pos, badv, err, cerr)
				})
			}
		}
		// truncations: every offset for small vectors, sampled beyond
		if n <= 12 || n == 33 {
			for cut := 0; cut < len(enc); cut++ {
				if n > 12 && cut%7 != 0 && cut != len(enc)-1 {
					continue
				}
				if *mode != "async" {
					_, _, err := f.VecReadFrom(bytes.NewReader(enc[:cut]))
					c.Check("Vector.ReadFrom", N+"/Vector.ReadFrom/accepted-truncated", err != nil, func() string { return fmt.Sprintf("n=%d cut=%d", n, cut) })
				}
				_, _, err, ch := f.VecAsyncReadFrom(bytes.NewReader(enc[:cut]))
				var cerr error
				if ch != nil {
					cerr = <-ch
				}
				c.Check("Vector.AsyncReadFrom", N+"/Vector.AsyncReadFrom/accepted-truncated", err != nil || cerr != nil, func() string { return fmt.Sprintf("n=%d cut=%d", n, cut) })
			}
		}
	}
	// length prefix larger than the data
	for _, claim := range []uint32{1, 2, 1000} {
		var b bytes.Buffer
		binary.Write(&b, binary.BigEndian, claim)
		b.Write(make([]byte, (int(claim)-1)*nb))
		_, _, err := f.VecReadFrom(bytes.NewReader(b.Bytes()))
		c.Check("Vector.ReadFrom", N+"/Vector.ReadFrom/accepted-short-data", err != nil, func() string { return fmt.Sprintf("claim=%d", claim) })
		_, _, err, ch := f.VecAsyncReadFrom(bytes.NewReader(b.Bytes()))
		var cerr error
		if ch != nil {
			cerr = <-ch
		}
		c.Check("Vector.AsyncReadFrom", N+"/Vector.AsyncReadFrom/accepted-short-data", err != nil || cerr != nil, func() string { return fmt.Sprintf("claim=%d", claim) })
	}
}

// overflowProbe: a 4-byte input whose length prefix n makes n*Bytes exceed 2^32 must be reported as an
// error (there is no data), by the synchronous and the asynchronous reader alike. The vector memory is
// only reserved, never touched. A fatal error here kills this (separate) stage process and is reported
// by the driver as a crash violation.
func overflowProbe[E any, P fields.Ptr[E]](c *mon.Ctx, f *fields.Field[E, P]) {
	N := f.Name
	claim := uint32((uint64(1)<<32 + uint64(f.Bytes) - 1) / uint64(f.Bytes))
	for _, extra := range []int{0, 3} {
		var b bytes.Buffer
		binary.Write(&b, binary.BigEndian, claim)
		b.Write(make([]byte, extra*f.Bytes))
		fmt.Printf("CURRENT %s AsyncReadFrom length-prefix=%d data=%d bytes\n", N, claim, extra*f.Bytes)
		_, _, err, ch := f.VecAsyncReadFrom(bytes.NewReader(b.Bytes()))
		var cerr error
		if ch != nil {
			cerr = <-ch
		}
		c.Check("Vector.AsyncReadFrom", N+"/Vector.AsyncReadFrom/accepted-short-data-large-prefix", err != nil || cerr != nil, func() string {
			return fmt.Sprintf("length prefix %d with %d data bytes accepted", claim, extra*f.Bytes)
		})
		debug.FreeOSMemory()
		_, _, err = f.VecReadFrom(bytes.NewReader(b.Bytes()))
		c.Check("Vector.ReadFrom", N+"/Vector.ReadFrom/accepted-short-data-large-prefix", err != nil, func() string {
			return fmt.Sprintf("length prefix %d with %d data bytes accepted", claim, extra*f.Bytes)
		})
		debug.FreeOSMemory()
	}
	c.Class(N + "/length-prefix-overflow")
}

func main() {
	c := mon.Init("C08")
	if *mode == "overflow" {
		for _, fl := range allFields {
			if mon.Selected(fl.name) {
				fl.fn(c)
			}
		}
		c.Finish()
	}
	var wg sync.WaitGroup
	sem := make(chan struct{}, 16)
	for _, fl := range allFields {
		if !mon.Selected(fl.name) {
			continue
		}
		wg.Add(1)
		fl := fl
		go func() {
			defer wg.Done()
			sem <- struct{}{}
			defer func() { <-sem }()
			defer func() {
				if r := recover(); r != nil {
					c.Fail(fl.name+"/harness/panic", "panic outside a guarded call: %v", r)
				}
			}()
			fl.fn(c)
		}()
	}
	wg.Wait()
	c.Finish()
}
