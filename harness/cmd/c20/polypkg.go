package main

import (
	"fmt"
	"math/big"
	"sync"

	"verif/harness/adapt/iops"
	"verif/harness/gen"
	"verif/harness/mon"
	"verif/harness/oracle/opoly"
)

// Part C: the polynomial package (univariate coefficient polynomials, interpolation on 0..n-1, multilinear tables).

func runPolyPkg(c *mon.Ctx, P *iops.PolyPkg, race bool) {
	F := opoly.F{P: P.Mod}
	N := P.Name
	rng := gen.New(c.Seed, "c20/poly/"+N)
	T := c.Thorough()
	rv := func(n int) []*big.Int {
		v := make([]*big.Int, n)
		for i := range v {
			switch rng.Intn(10) {
			case 0:
				v[i] = new(big.Int)
			case 1:
				v[i] = new(big.Int).Sub(F.P, one)
			case 2:
				v[i] = big.NewInt(1)
			default:
				v[i] = rng.BigBelow(F.P)
			}
		}
		return v
	}
	guardN := func(key string, desc func() string, fn func()) bool { return guard(c, N+"/"+key, desc, fn) }

	// ---- Eval (Horner) ----
	lens := []int{1, 2, 3, 4, 5, 8, 16, 17, 33, 64, 255}
	if T {
		lens = append(lens, 256, 1000, 4096)
	}
	if race {
		lens = []int{1, 8}
	}
	for _, n := range lens {
		for rep := 0; rep < c.Pick(3, 10); rep++ {
			p := rv(n)
			for xi, x := range []*big.Int{new(big.Int), big.NewInt(1), new(big.Int).Sub(F.P, one), rng.BigBelow(F.P), big.NewInt(int64(n))} {
				var r *big.Int
				desc := func() string { return fmt.Sprintf("Polynomial%s.Eval(%s)", hxs(p), hx(x)) }
				if guardN(fmt.Sprintf("Polynomial.Eval/panic/len=%d", n), desc, func() { r = P.Eval(p, x) }) {
					continue
				}
				check(c, "Polynomial.Eval", N+"/Polynomial.Eval/value-mismatch", r.Cmp(F.Horner(p, x)) == 0, func() string {
					return fmt.Sprintf("%s = %s want %s", desc(), hx(r), hx(F.Horner(p, x)))
				})
				c.Class(fmt.Sprintf("%s/Eval/len=%d/x%d", N, n, xi))
			}
			check(c, "Polynomial.Degree", N+"/Polynomial.Degree/mismatch", P.Degree(p) == uint64(n-1), func() string { return fmt.Sprintf("len %d Degree %d", n, P.Degree(p)) })
		}
	}

	// ---- arithmetic on coefficient vectors, compared as polynomials ----
	for _, pr := range [][2]int{{1, 1}, {1, 4}, {4, 1}, {3, 3}, {8, 5}, {5, 8}, {17, 17}, {2, 64}} {
		if race {
			break
		}
		a, b := rv(pr[0]), rv(pr[1])
		want := make([]*big.Int, max(pr[0], pr[1]))
		for i := range want {
			want[i] = new(big.Int)
			if i < len(a) {
				want[i] = F.Add(want[i], a[i])
			}
			if i < len(b) {
				want[i] = F.Add(want[i], b[i])
			}
		}
		for alias := 0; alias < 3; alias++ {
			var r []*big.Int
			desc := func() string {
				return fmt.Sprintf("Polynomial.Add(%s, %s) receiver=%s", hxs(a), hxs(b), []string{"empty", "p1", "p2"}[alias])
			}
			if guardN(fmt.Sprintf("Polynomial.Add/panic/alias=%d", alias), desc, func() { r = P.Add(a, b, alias) }) {
				continue
			}
			check(c, "Polynomial.Add", fmt.Sprintf("%s/Polynomial.Add/value-mismatch/alias=%d", N, alias), eqVec(r, want), func() string {
				return fmt.Sprintf("%s = %s want %s", desc(), hxs(r), hxs(want))
			})
			c.Class(fmt.Sprintf("%s/Add/%d+%d/alias%d", N, pr[0], pr[1], alias))
		}
		if pr[0] == pr[1] {
			r, ok := P.Sub(a, b)
			w := make([]*big.Int, len(a))
			for i := range w {
				w[i] = F.Sub(a[i], b[i])
			}
			check(c, "Polynomial.Sub", N+"/Polynomial.Sub/value-mismatch", ok && eqVec(r, w), func() string {
				return fmt.Sprintf("Sub(%s,%s)=%s want %s", hxs(a), hxs(b), hxs(r), hxs(w))
			})
		}
		k := rng.BigBelow(F.P)
		w := make([]*big.Int, len(a))
		for i := range w {
			w[i] = F.Mul(a[i], k)
		}
		for _, rl := range []int{0, len(a), len(a) + 2} {
			r := P.Scale(k, a, rl)
			check(c, "Polynomial.Scale", N+"/Polynomial.Scale/value-mismatch", eqVec(r, w), func() string {
				return fmt.Sprintf("receiver len %d: Scale(%s,%s)=%s want %s", rl, hx(k), hxs(a), hxs(r), hxs(w))
			})
		}
		r := P.ScaleInPlace(k, a)
		check(c, "Polynomial.ScaleInPlace", N+"/Polynomial.ScaleInPlace/value-mismatch", eqVec(r, w), func() string {
			return fmt.Sprintf("ScaleInPlace(%s,%s)=%s want %s", hx(k), hxs(a), hxs(r), hxs(w))
		})
		cl := P.Clone(a)
		check(c, "Polynomial.Clone", N+"/Polynomial.Clone/value-mismatch-or-shared-memory", eqVec(cl, a), func() string {
			return fmt.Sprintf("Clone(%s)=%s after zeroing the source", hxs(a), hxs(cl))
		})
		check(c, "Polynomial.Equal", N+"/Polynomial.Equal/mismatch", P.Equal(a, cpVec(a)) && P.Equal(a, b) == eqVec(a, b), func() string {
			return fmt.Sprintf("Equal(%s,%s)", hxs(a), hxs(b))
		})
		for _, dl := range []int{0, len(a), len(a) + 1} {
			r := P.Set(dl, a)
			check(c, "Polynomial.Set", N+"/Polynomial.Set/value-mismatch-or-shared-memory", eqVec(r, a), func() string {
				return fmt.Sprintf("receiver len %d: Set(%s) = %s after zeroing the argument", dl, hxs(a), hxs(r))
			})
		}
		c.Class(fmt.Sprintf("%s/arith/%d,%d", N, pr[0], pr[1]))
	}

	// ---- InterpolateOnRange: f(i) = v[i], 0 <= i < n <= 255; concurrent first use of the cached Lagrange bases ----
	var ns []int
	switch {
	case race:
		ns = []int{1, 2, 3, 9, 30, 31}
	case T:
		// (the library caches the Lagrange basis of every size ever used: n^2 elements each, never released)
		for n := 1; n <= 72; n++ {
			ns = append(ns, n)
		}
		for n := 80; n <= 248; n += 8 {
			ns = append(ns, n-1, n, n+1)
		}
		ns = append(ns, 253, 254, 255)
	default:
		for n := 1; n <= 34; n++ {
			ns = append(ns, n)
		}
		ns = append(ns, 63, 64, 65, 100, 127, 128, 129, 200, 254, 255)
	}
	type job struct {
		n    int
		v    []*big.Int
		kind string
	}
	var jobs []job
	for _, n := range ns {
		jobs = append(jobs, job{n, rv(n), "random"})
		cst := make([]*big.Int, n)
		k := rng.BigBelow(F.P)
		for i := range cst {
			cst[i] = k
		}
		jobs = append(jobs, job{n, cst, "constant"})
		if n <= 40 || T && n <= 72 {
			// values of a polynomial of lower degree
			lo := rv(1 + rng.Intn(n))
			vals := make([]*big.Int, n)
			for i := range vals {
				vals[i] = F.Horner(lo, big.NewInt(int64(i)))
			}
			jobs = append(jobs, job{n, vals, "low-degree"})
			jobs = append(jobs, job{n, rv(n), "random-again(cached basis)"})
		}
	}
	var wg sync.WaitGroup
	sem := make(chan struct{}, 4)
	for _, j := range jobs {
		j := j
		wg.Add(1)
		sem <- struct{}{}
		go func() {
			defer wg.Done()
			defer func() { <-sem }()
			var r []*big.Int
			desc := func() string { return fmt.Sprintf("InterpolateOnRange(%s) n=%d (%s)", hxs(j.v), j.n, j.kind) }
			in := cpVec(j.v)
			if guardN(fmt.Sprintf("InterpolateOnRange/panic/n=%d", j.n), desc, func() { r = P.InterpolateOnRange(in) }) {
				return
			}
			want := F.InterpolateOnRange(j.v)
			check(c, "InterpolateOnRange", N+"/InterpolateOnRange/length", len(r) == j.n, func() string { return fmt.Sprintf("%s: len %d (documented len(f)=len(v))", desc(), len(r)) })
			check(c, "InterpolateOnRange", N+"/InterpolateOnRange/value-mismatch/"+j.kind, opoly.EqualPoly(r, want), func() string {
				i := 0
				for i < j.n && F.Horner(r, big.NewInt(int64(i))).Cmp(j.v[i]) == 0 {
					i++
				}
				return fmt.Sprintf("%s = %s want %s (first i with f(i) != v[i]: %d)", desc(), hxs(r), hxs(want), i)
			})
			c.Class(fmt.Sprintf("%s/InterpolateOnRange/n=%d/%s", N, j.n, j.kind))
			if j.n == 5 {
				c.SampleOnce("InterpolateOnRange/"+j.kind, map[string]any{"instance": N, "v": hxs(j.v), "expected_coefficients": hxs(want)})
			}
		}()
	}
	wg.Wait()

	// ---- multilinear tables ----
	maxVars := c.Pick(8, 12)
	if race {
		maxVars = 4
	}
	bit := func(b, i, n int) *big.Int { return big.NewInt(int64(b >> (n - 1 - i) & 1)) }
	for n := 0; n <= maxVars; n++ {
		for rep := 0; rep < c.Pick(3, 6); rep++ {
			t := rv(1 << n)
			// points: random, a hypercube vertex, mixed
			var pts [][]*big.Int
			var pcls []string
			pts, pcls = append(pts, rv(n)), append(pcls, "random")
			vtx := rng.Intn(1 << n)
			pv := make([]*big.Int, n)
			for i := range pv {
				pv[i] = bit(vtx, i, n)
			}
			pts, pcls = append(pts, pv), append(pcls, "hypercube-vertex")
			mx := rv(n)
			for i := range mx {
				if i%2 == 0 {
					mx[i] = bit(vtx, i, n)
				}
			}
			pts, pcls = append(pts, mx), append(pcls, "mixed")
			for pi, pt := range pts {
				want := F.MultilinearEval(t, pt)
				if pcls[pi] == "hypercube-vertex" && want.Cmp(t[vtx]) != 0 {
					c.Inconclusive("oracle: multilinear extension at a vertex differs from the table entry")
					return
				}
				for _, pool := range []bool{false, true} {
					var r *big.Int
					var after []*big.Int
					desc := func() string {
						return fmt.Sprintf("MultiLin%s.Evaluate(%s, pool=%v) vars=%d", hxs(t), hxs(pt), pool, n)
					}
					if guardN(fmt.Sprintf("MultiLin.Evaluate/panic/pool=%v", pool), desc, func() { r, after = P.MLEvaluate(t, pt, pool) }) {
						continue
					}
					check(c, "MultiLin.Evaluate", fmt.Sprintf("%s/MultiLin.Evaluate/value-mismatch/pool=%v/%s", N, pool, pcls[pi]), r.Cmp(want) == 0 && !(len(after) == 1 && after[0].Sign() < 0), func() string {
						return fmt.Sprintf("%s = %s want %s", desc(), hx(r), hx(want))
					})
					check(c, "MultiLin.Evaluate", N+"/MultiLin.Evaluate/table-modified", eqVec(after, t), func() string { return desc() + ": the receiver was modified" })
				}
				c.Class(fmt.Sprintf("%s/MultiLin.Evaluate/vars=%d/%s", N, n, pcls[pi]))
				if n == 3 {
					c.SampleOnce("MultiLin.Evaluate/"+pcls[pi], map[string]any{"instance": N, "table": hxs(t), "point": hxs(pt), "expected": hx(want)})
				}
			}
			// Fold: the folded table is the table of f(r, X2..Xn)
			if n >= 1 {
				r := []*big.Int{rng.BigBelow(F.P), new(big.Int), big.NewInt(1)}[rep%3]
				half := 1 << (n - 1)
				want := make([]*big.Int, half)
				for j := 0; j < half; j++ {
					// a multilinear f is linear in X1: f(r, b) = (1-r) f(0, b) + r f(1, b); X1 is the most significant index bit
					want[j] = F.Add(F.Mul(F.Sub(one, r), t[j]), F.Mul(r, t[j+half]))
				}
				if n <= 6 { // and directly from the definition of the multilinear extension
					for j := 0; j < half; j++ {
						pt := make([]*big.Int, n)
						pt[0] = r
						for i := 1; i < n; i++ {
							pt[i] = bit(j, i-1, n-1)
						}
						if F.MultilinearEval(t, pt).Cmp(want[j]) != 0 {
							c.Inconclusive("oracle: fold definition disagrees with the multilinear extension")
							return
						}
					}
				}
				desc := func() string { return fmt.Sprintf("MultiLin%s.Fold(%s)", hxs(t), hx(r)) }
				var got []*big.Int
				if !guardN("MultiLin.Fold/panic", desc, func() { got = P.MLFold(t, r) }) {
					check(c, "MultiLin.Fold", N+"/MultiLin.Fold/value-mismatch", eqVec(got, want), func() string {
						return fmt.Sprintf("%s = %s want %s", desc(), hxs(got), hxs(want))
					})
				}
				for _, chunks := range []int{1, 2, 3} {
					if chunks > half {
						continue
					}
					if !guardN("MultiLin.FoldParallel/panic", desc, func() { got = P.MLFoldParallel(t, r, chunks) }) {
						check(c, "MultiLin.FoldParallel", N+"/MultiLin.FoldParallel/value-mismatch", eqVec(got, want), func() string {
							return fmt.Sprintf("FoldParallel in %d chunks: %s = %s want %s", chunks, desc(), hxs(got), hxs(want))
						})
					}
				}
				c.Class(fmt.Sprintf("%s/MultiLin.Fold/vars=%d/r%d", N, n, rep%3))
			}
			// Eq table and EvalEq
			q := pts[rep%3]
			m0 := []*big.Int{big.NewInt(1), rng.BigBelow(F.P)}[rep%2]
			tab := make([]*big.Int, 1<<n)
			for i := range tab {
				tab[i] = rng.BigBelow(F.P) // garbage that Eq must overwrite
			}
			tab[0] = m0
			wantTab := make([]*big.Int, 1<<n)
			for b := range wantTab {
				h := make([]*big.Int, n)
				for i := range h {
					h[i] = bit(b, i, n)
				}
				wantTab[b] = F.Mul(m0, F.Eq(q, h))
			}
			desc := func() string { return fmt.Sprintf("MultiLin(m[0]=%s).Eq(%s) vars=%d", hx(m0), hxs(q), n) }
			var got []*big.Int
			if !guardN("MultiLin.Eq/panic", desc, func() { got = P.MLEq(tab, q) }) {
				check(c, "MultiLin.Eq", N+"/MultiLin.Eq/value-mismatch", eqVec(got, wantTab), func() string {
					return fmt.Sprintf("%s = %s want %s", desc(), hxs(got), hxs(wantTab))
				})
			}
			h := pts[(rep+1)%3]
			ncls := "n>=1"
			if n == 0 {
				ncls = "n=0"
			}
			var r *big.Int
			d2 := func() string { return fmt.Sprintf("EvalEq(%s, %s)", hxs(q), hxs(h)) }
			if !guardN("EvalEq/panic/"+ncls, d2, func() { r = P.EvalEq(q, h) }) {
				check(c, "EvalEq", N+"/EvalEq/value-mismatch/"+ncls, r.Cmp(F.Eq(q, h)) == 0, func() string {
					return fmt.Sprintf("%s = %s want %s (product over %d variables)", d2(), hx(r), hx(F.Eq(q, h)), n)
				})
			}
			c.Class(fmt.Sprintf("%s/Eq/vars=%d/%s", N, n, pcls[rep%3]))
			// Sum / Add / NumVars
			u := rv(1 << n)
			s := new(big.Int)
			sumv := make([]*big.Int, 1<<n)
			for i := range t {
				s = F.Add(s, t[i])
				sumv[i] = F.Add(t[i], u[i])
			}
			gs := P.MLSum(t)
			check(c, "MultiLin.Sum", N+"/MultiLin.Sum/value-mismatch", gs.Cmp(s) == 0, func() string { return fmt.Sprintf("Sum(%s)=%s want %s", hxs(t), hx(gs), hx(s)) })
			ga := P.MLAdd(t, u)
			check(c, "MultiLin.Add", N+"/MultiLin.Add/value-mismatch", eqVec(ga, sumv), func() string { return fmt.Sprintf("Add(%s,%s)=%s", hxs(t), hxs(u), hxs(ga)) })
			check(c, "MultiLin.NumVars", N+"/MultiLin.NumVars/mismatch", P.MLNumVars(1<<n) == n, func() string { return fmt.Sprintf("NumVars(len %d)=%d", 1<<n, P.MLNumVars(1<<n)) })
		}
	}
}
