// C20: polynomial values are invariant under every change of representation.
//
// Part A (hist.go)    iop.Polynomial: bounded-exhaustive conversion histories from the 6 forms, every step decoded
//
//	back to coefficients by the oracle and evaluated / indexed against the denoted (shifted) polynomial.
//
// Part B (derived.go) iop.Evaluate (expressions), DivideByXMinusOne, BuildRatioShuffledVectors, BuildRatioCopyConstraint
//
//	against their definitions.
//
// Part C (polypkg.go) polynomial package: Eval, InterpolateOnRange, arithmetic, MultiLin Fold/Evaluate/Eq/EvalEq.
//
// The oracle is oracle/opoly (math/big, written from the definitions); field elements cross the boundary through
// fields.FromValue/Value (no library conversion routine is trusted).
package main

import (
	"flag"
	"fmt"
	"math/big"
	"os"
	"runtime/debug"
	"runtime/pprof"
	"strings"
	"sync"
	"sync/atomic"

	"verif/harness/adapt/iops"
	"verif/harness/gen"
	"verif/harness/mon"
	"verif/harness/oracle/opoly"
)

var mode = flag.String("mode", "all", "all | race (reduced workload for the race build)")
var cpuprof = flag.String("cpuprofile", "", "write a CPU profile (debugging the harness)")

var one = big.NewInt(1)

type env struct {
	c    *mon.Ctx
	I    *iops.IOP
	F    opoly.F
	N    string
	rng  *gen.Rng
	doms map[string]*dom
	race bool
}

// dom is a library domain together with the constants the oracle uses (read from the domain's public fields
// and validated: Gen must be a primitive root of unity of order n).
type dom struct {
	d       *iops.Domain
	n       int
	w, g    *big.Int
	variant string
	ok      bool
}

func hx(v *big.Int) string {
	if v == nil {
		return "nil"
	}
	return "0x" + v.Text(16)
}

func hxs(v []*big.Int) string {
	s := make([]string, 0, len(v))
	for i, x := range v {
		if i >= 16 {
			s = append(s, fmt.Sprintf("...(%d)", len(v)))
			break
		}
		s = append(s, hx(x))
	}
	return "[" + strings.Join(s, " ") + "]"
}

func eqVec(a, b []*big.Int) bool {
	if len(a) != len(b) {
		return false
	}
	for i := range a {
		if a[i].Cmp(b[i]) != 0 {
			return false
		}
	}
	return true
}

func cpVec(a []*big.Int) []*big.Int {
	r := make([]*big.Int, len(a))
	for i := range a {
		r[i] = new(big.Int).Set(a[i])
	}
	return r
}

// randVec: seeded coefficients; a few entries are forced to boundary values so that zero / q-1 limbs occur.
func (e *env) randVec(n int) []*big.Int {
	v := make([]*big.Int, n)
	for i := range v {
		switch e.rng.Intn(12) {
		case 0:
			v[i] = new(big.Int)
		case 1:
			v[i] = new(big.Int).Sub(e.F.P, one)
		case 2:
			v[i] = big.NewInt(int64(e.rng.Intn(5)))
		default:
			v[i] = e.rng.BigBelow(e.F.P)
		}
	}
	if n > 0 && v[n-1].Sign() == 0 {
		v[n-1] = big.NewInt(int64(1 + e.rng.Intn(1000))) // keep the degree at n-1
	}
	return v
}

func (e *env) nonzero() *big.Int {
	for {
		v := e.rng.BigBelow(e.F.P)
		if v.Sign() != 0 {
			return v
		}
	}
}

// domain returns the (cached) domain of cardinality n. variants: "default", "shift" (custom coset shift),
// "noprecomp" (WithoutPrecompute).
func (e *env) domain(n int, variant string) *dom {
	k := fmt.Sprintf("%d/%s", n, variant)
	if d, ok := e.doms[k]; ok {
		return d
	}
	var shift *big.Int
	if variant == "shift" {
		shift = gen.New(e.c.Seed, "c20/cosetshift/"+e.N).BigBelow(e.F.P)
		if shift.Sign() == 0 {
			shift = big.NewInt(7)
		}
	}
	D := &dom{n: n, variant: variant}
	if guard(e.c, e.N+"/fft.NewDomain/panic", func() string { return k }, func() { D.d = e.I.NewDomain(uint64(n), shift, variant != "noprecomp") }) {
		e.doms[k] = D
		return D
	}
	D.w, D.g = D.d.Gen, D.d.CosetShift
	D.ok = int(D.d.Card) == n && e.F.IsPrimitiveRoot(D.w, n) && D.g.Sign() != 0 && (shift == nil || shift.Cmp(D.g) == 0)
	// the coset must be disjoint from the subgroup for the coset forms to carry information different from Lagrange;
	// not required for correctness, only recorded.
	check(e.c, "fft.NewDomain", e.N+"/fft.NewDomain/bad-constants", D.ok, func() string {
		return fmt.Sprintf("NewDomain(%d,%s): Cardinality=%d Generator=%s FrMultiplicativeGen=%s: generator is not a primitive %d-th root of unity or shift not honoured", n, variant, D.d.Card, hx(D.w), hx(D.g), n)
	})
	e.doms[k] = D
	return D
}

// omega returns the root of unity of order size that the oracle uses for shifts: w_N^(N/size), N the domain size.
func (e *env) omega(D *dom, size int) *big.Int {
	if size <= 0 || D.n%size != 0 {
		return nil
	}
	return e.F.Exp(D.w, int64(D.n/size))
}

// seen counts the failures per key so that only the first witnesses (the ones mon keeps) pay for formatting.
var (
	seenMu sync.Mutex
	seen   = map[string]int{}
)

func firstFew(key string) bool {
	seenMu.Lock()
	defer seenMu.Unlock()
	seen[key]++
	return seen[key] <= 3
}

// check counts one oracle-decided evaluation of op and records a violation under key when !ok. Same contract as
// mon.Check, but passing evaluations are counted in per-operation atomic counters (flushed into the evidence by
// flushOps) and only the first failures of a key (the witnesses mon keeps) pay for formatting.
func check(c *mon.Ctx, op, key string, ok bool, detail func() string) bool {
	ctr, found := opCount.Load(op)
	if !found {
		ctr, _ = opCount.LoadOrStore(op, new(atomic.Int64))
	}
	ctr.(*atomic.Int64).Add(1)
	if !ok {
		if firstFew(key) {
			c.Fail(key, "%s", detail())
		} else {
			c.Fail(key, "")
		}
	}
	return ok
}

var opCount sync.Map

func flushOps(c *mon.Ctx) {
	opCount.Range(func(k, v any) bool {
		c.Eval(k.(string), int(v.(*atomic.Int64).Load()))
		return true
	})
}

// guard is mon.Guard with cheap handling of repeated panics of one key.
func guard(c *mon.Ctx, key string, desc func() string, fn func()) (panicked bool) {
	defer func() {
		if r := recover(); r != nil {
			panicked = true
			if firstFew(key) {
				st := string(debug.Stack())
				if len(st) > 1500 {
					st = st[:1500]
				}
				c.Fail(key, "PANIC %v on %s\n%s", r, desc(), st)
			} else {
				c.Fail(key, "")
			}
		}
	}()
	fn()
	return false
}

func pow2(n int) bool { return n > 0 && n&(n-1) == 0 }

func main() {
	c := mon.Init("C20")
	if *cpuprof != "" {
		f, _ := os.Create(*cpuprof)
		pprof.StartCPUProfile(f)
		defer pprof.StopCPUProfile()
	}
	race := *mode == "race"
	// oracle self-test (cheap, every run): the recursive transform agrees with Horner, interpolation inverts it,
	// Newton interpolation on 0..n-1 reproduces the values.
	selfTest(c)
	var wg sync.WaitGroup
	sem := make(chan struct{}, 16)
	launch := func(name string, fn func()) {
		if !mon.Selected(name) {
			return
		}
		wg.Add(1)
		go func() {
			defer wg.Done()
			sem <- struct{}{}
			defer func() { <-sem }()
			defer func() {
				if r := recover(); r != nil {
					c.Fail(name+"/harness/panic", "panic outside a guarded call: %v", r)
				}
			}()
			fn()
		}()
	}
	for _, I := range iops.IOPs {
		I := I
		mk := func(stream string) *env {
			return &env{c: c, I: I, F: opoly.F{P: I.Mod}, N: I.Name, rng: gen.New(c.Seed, "c20/"+stream+"/"+I.Name), doms: map[string]*dom{}, race: race}
		}
		launch(I.Name+"#hist", func() { runHistories(mk("hist")) })
		launch(I.Name+"#hist-long", func() { runLongHistories(mk("hist-long")) })
		launch(I.Name+"#derived", func() { runDerived(mk("derived")) })
	}
	for _, P := range iops.PolyPkgs {
		P := P
		launch(P.Name, func() { runPolyPkg(c, P, race) })
	}
	wg.Wait()
	flushOps(c)
	c.Extra("iop_instances", len(iops.IOPs))
	c.Extra("polynomial_instances", len(iops.PolyPkgs))
	if *cpuprof != "" {
		pprof.StopCPUProfile()
	}
	c.Finish()
}

func selfTest(c *mon.Ctx) {
	p, _ := new(big.Int).SetString("21888242871839275222246405745257275088548364400416034343698204186575808495617", 10)
	F := opoly.F{P: p}
	rng := gen.New(1, "c20/selftest")
	// a primitive 2^28-th root of unity of bn254 fr is 5^((p-1)/2^28)
	e := new(big.Int).Rsh(new(big.Int).Sub(p, one), 28)
	root := new(big.Int).Exp(big.NewInt(5), e, p)
	for _, n := range []int{1, 2, 4, 16} {
		w := F.Exp(root, int64((1<<28)/n))
		if !F.IsPrimitiveRoot(w, n) {
			c.Inconclusive("oracle self-test: root of unity of order %d not primitive", n)
			return
		}
		q := make([]*big.Int, n)
		for i := range q {
			q[i] = rng.BigBelow(p)
		}
		s := rng.BigBelow(p)
		s.Add(s, one)
		ev := F.EvalOnPowers(q, s, w, n)
		x := new(big.Int).Set(s)
		for i := 0; i < n; i++ {
			if ev[i].Cmp(F.Horner(q, x)) != 0 {
				c.Inconclusive("oracle self-test: EvalOnPowers != Horner (n=%d i=%d)", n, i)
				return
			}
			x = F.Mul(x, w)
		}
		if !eqVec(F.InterpolateOnPowers(ev, s, w), q) {
			c.Inconclusive("oracle self-test: InterpolateOnPowers does not invert EvalOnPowers (n=%d)", n)
			return
		}
		g := F.InterpolateOnRange(q)
		for i := 0; i < n; i++ {
			if F.Horner(g, big.NewInt(int64(i))).Cmp(q[i]) != 0 {
				c.Inconclusive("oracle self-test: InterpolateOnRange(n=%d) wrong at %d", n, i)
				return
			}
		}
	}
}
