package main

import (
	"fmt"
	"math/big"
	"strings"

	"verif/harness/adapt/iops"
	"verif/harness/oracle/opoly"
)

// ---------------------------------------------------------------------------------------------------------
// model of one iop.Polynomial object
//
//   data  : the coefficient vector q (length = len of the stored vector) of the underlying polynomial; shared by
//           all objects that share storage (ShallowClone)
//   view  : per object: size, shift (the object denotes q(w_size^shift * X)), whether the object itself has been
//           told its coset (ToLagrangeCoset / Clone / ReadFrom of such an object)
// ---------------------------------------------------------------------------------------------------------

type data struct {
	q []*big.Int
}

type obj struct {
	p        iops.Poly
	dt       *data
	size     int
	shift    int // the integer held by the library object (after a serialisation round trip: the uint32 image)
	ownCoset bool
	// known: the denotation of this object never depended on a coset nobody told it about. False only for an object
	// created directly in a LagrangeCoset form (NewPolynomial cannot be told the coset) that has not been passed a
	// domain yet; Evaluate is not demanded from such an object while it is in a LagrangeCoset form.
	known bool
	label string
}

const (
	opToCanonical = iota
	opToLagrange
	opToLagrangeCoset
	opToRegular
	opToBitReverse
	opClone
	opShallowClone
	opRoundTrip
	opSetSize
	opShift
)

var opNames = []string{"ToCanonical", "ToLagrange", "ToLagrangeCoset", "ToRegular", "ToBitReverse", "Clone", "ShallowClone", "WriteTo+ReadFrom", "SetSize", "Shift"}

func shiftClass(s int) string {
	switch {
	case s == 0:
		return "shift=0"
	case s < 0:
		return "shift<0"
	case s <= 5:
		return "shift=1..5"
	}
	return "shift>5"
}

// encode builds the stored vector of polynomial q (len(q) = n) in form f over domain D (n == D.n unless canonical regular).
func (e *env) encode(q []*big.Int, f iops.Form, D *dom) []*big.Int {
	var v []*big.Int
	switch f.Basis {
	case iops.Canonical:
		v = cpVec(q)
	case iops.Lagrange:
		v = e.F.EvalOnPowers(q, one, D.w, D.n)
	case iops.LagrangeCoset:
		v = e.F.EvalOnPowers(q, D.g, D.w, D.n)
	}
	if f.Layout == iops.BitReverse {
		v = opoly.BitRev(v)
	}
	return v
}

// decode returns the coefficients of the polynomial denoted (before shifting) by a stored vector in form f.
func (e *env) decode(st []*big.Int, f iops.Form, D *dom) ([]*big.Int, bool) {
	if f.Basis < 0 || f.Layout < 0 {
		return nil, false
	}
	n := len(st)
	if f == (iops.Form{Basis: iops.Canonical, Layout: iops.Regular}) {
		return st, true
	}
	if !pow2(n) {
		return nil, false
	}
	v := st
	if f.Layout == iops.BitReverse {
		v = opoly.BitRev(st)
	}
	switch f.Basis {
	case iops.Canonical:
		return v, true
	case iops.Lagrange, iops.LagrangeCoset:
		if n != D.n {
			return nil, false
		}
		s := one
		if f.Basis == iops.LagrangeCoset {
			s = D.g
		}
		return e.F.InterpolateOnPowers(v, s, D.w), true
	}
	return nil, false
}

// group = everything that is fixed while the histories are enumerated.
type group struct {
	D        *dom
	n0       int // initial length (<= D.n; < D.n only for Canonical-Regular: the object grows at its first conversion)
	form0    iops.Form
	shift    int
	alt      int // the value the Shift operation toggles to
	alphabet []int
	length   int
	q        []*big.Int
	st       []*big.Int      // q stored in form0
	xs       []*big.Int      // evaluation points (beyond the structured ones)
	maxIdx   int             // number of GetCoeff indices per check
	bad      map[string]bool // prefixes after which the object no longer denotes the model (reported once, not re-entered)
	tag      string
}

func (g *group) String() string {
	return fmt.Sprintf("n=%d domain=%d/%s init=%s shift=%d", g.n0, g.D.n, g.D.variant, g.form0, g.shift)
}

// runGroup enumerates every operation sequence of length g.length over g.alphabet (each one on a fresh object) and
// checks every prefix exactly once.
func (e *env) runGroup(g *group) {
	c := e.c
	L, A := g.length, len(g.alphabet)
	seq := make([]int, L)
	hidx := 0
	for {
		last := 0
		for k := L - 1; k >= 0; k-- {
			if seq[k] != 0 {
				last = k
				break
			}
		}
		e.runHistory(g, seq, last, hidx)
		hidx++
		// odometer
		k := L - 1
		for k >= 0 {
			seq[k]++
			if seq[k] < A {
				break
			}
			seq[k] = 0
			k--
		}
		if k < 0 {
			break
		}
	}
	c.AddExtra("histories", int64(hidx))
	c.SampleOnce(fmt.Sprintf("history/%s/len%d/alphabet%d", g.form0, L, A), map[string]any{"instance": e.N, "group": g.String(), "q": hxs(g.q),
		"last_history": e.histString(g, seq, L-1), "checked_after_each_step": "decode(stored vector, reported form) == q; Evaluate at {0,1,w^i,g*w^i,points that land on nodes after the shift,random,-1}; GetCoeff"})
	c.Class(fmt.Sprintf("%s/history-group/%s/len%d/alphabet%d", e.N, g, L, A))
}

func (e *env) histString(g *group, seq []int, upto int) string {
	s := []string{fmt.Sprintf("NewPolynomial(%s, q=%s).Shift(%d)", g, hxs(g.q), g.shift)}
	for k := 0; k <= upto && k < len(seq); k++ {
		s = append(s, opNames[g.alphabet[seq[k]]])
	}
	return strings.Join(s, " -> ")
}

func (e *env) runHistory(g *group, seq []int, checkFrom int, hidx int) {
	c := e.c
	D := g.D
	st := g.st
	cur := &obj{dt: &data{q: g.q}, known: g.form0.Basis != iops.LagrangeCoset, size: g.n0, label: "object"}
	c.Current(e.N + " " + g.String())
	if guard(c, e.N+"/NewPolynomial/panic", func() string { return g.String() }, func() {
		cur.p = e.I.NewPoly(st, g.form0)
		if g.shift != 0 || hidx%2 == 1 {
			cur.p.Shift(g.shift)
		}
	}) {
		return
	}
	cur.shift = g.shift
	if hidx == 0 {
		if !e.checkObj(g, cur, "NewPolynomial", g.form0, func() string { return e.histString(g, seq, -1) }, true) {
			return
		}
	}
	var others []*obj
	grown := g.n0 == D.n
	ph := 0
	for k, si := range seq {
		op := g.alphabet[si]
		before := cur.p.Form()
		hist := func() string { return e.histString(g, seq, k) }
		ph = ph*7 + si + 1 // a function of the prefix only: the same prefix is always executed with the same arguments
		nbTasks := []int{0, 1, 2, 16}[ph%4]
		if op <= opToLagrangeCoset && !grown {
			if before != (iops.Form{Basis: iops.Canonical, Layout: iops.Regular}) {
				return // growing a vector that is not Canonical-Regular is outside the contract: history not applicable
			}
			q2 := make([]*big.Int, D.n)
			for i := range q2 {
				if i < len(cur.dt.q) {
					q2[i] = cur.dt.q[i]
				} else {
					q2[i] = new(big.Int)
				}
			}
			cur.dt.q = q2
			grown = true
		}
		if op == opToBitReverse && !pow2(cur.p.Len()) {
			return // bit reversal of a vector whose length is not a power of two: not applicable
		}
		opn := opNames[op]
		pkey := fmt.Sprintf("%s/Polynomial.%s/panic/from=%s", e.N, opn, before)
		if op == opToLagrangeCoset && D.n == 1 {
			pkey += "/domain-size=1"
		}
		next := cur
		wantBasis, wantLayout := before.Basis, before.Layout
		if guard(c, pkey, hist, func() {
			switch op {
			case opToCanonical:
				cur.p.ToCanonical(D.d, nbTasks)
				wantBasis, wantLayout = iops.Canonical, -1
				cur.known = true
			case opToLagrange:
				cur.p.ToLagrange(D.d, nbTasks)
				wantBasis, wantLayout = iops.Lagrange, -1
				cur.known = true
			case opToLagrangeCoset:
				cur.p.ToLagrangeCoset(D.d)
				wantBasis, wantLayout = iops.LagrangeCoset, -1
				cur.known = true
				cur.ownCoset = true
			case opToRegular:
				cur.p.ToRegular()
				wantLayout = iops.Regular
			case opToBitReverse:
				cur.p.ToBitReverse()
				wantLayout = iops.BitReverse
			case opClone:
				capacity := -1
				if (ph/4)%2 == 0 {
					capacity = 2*cur.p.Len() + 3
				}
				np := cur.p.Clone(capacity)
				next = &obj{p: np, dt: &data{q: cur.dt.q}, known: cur.known, size: cur.size, shift: cur.shift, ownCoset: cur.ownCoset, label: "clone"}
				if capacity >= 0 {
					check(c, "Polynomial.Clone", e.N+"/Polynomial.Clone/capacity", np.Cap() >= capacity && np.Len() == cur.p.Len(), func() string {
						return fmt.Sprintf("%s: Clone(%d) has len %d cap %d", hist(), capacity, np.Len(), np.Cap())
					})
				}
				// a deep copy: overwriting the coefficients of the source (through Coefficients()) must not reach the clone
				src := e.freeze(cur, &others)
				zero := make([]*big.Int, cur.p.Len())
				for i := range zero {
					zero[i] = new(big.Int)
				}
				cur.p.Overwrite(zero)
				src.q = zero
			case opShallowClone:
				np := cur.p.ShallowClone()
				next = &obj{p: np, dt: cur.dt, known: cur.known, size: cur.size, shift: cur.shift, ownCoset: cur.ownCoset, label: "shallow clone"}
				cur.label = "original of a shallow clone"
				others = append(others, cur)
			case opRoundTrip:
				b, n, err := cur.p.WriteTo()
				ok := err == nil && int(n) == len(b)
				var np iops.Poly
				var n2 int64
				if ok {
					np, n2, err = e.I.ReadFrom(b)
					ok = err == nil && int(n2) == len(b)
				}
				if !check(c, "Polynomial.WriteTo+ReadFrom", e.N+"/Polynomial.WriteTo+ReadFrom/error-or-count", ok, func() string {
					return fmt.Sprintf("%s: written %d bytes (reported %d), read reported %d, err=%v", hist(), len(b), n, n2, err)
				}) {
					next = nil
					return
				}
				next = &obj{p: np, dt: &data{q: cur.dt.q}, known: cur.known, size: cur.size, shift: int(uint32(cur.shift)), ownCoset: cur.ownCoset, label: "deserialised"}
				e.freeze(cur, &others)
			case opSetSize:
				ns := g.n0
				if cur.size == g.n0 && g.n0 >= 2 {
					ns = g.n0 / 2
				}
				cur.p.SetSize(ns)
				cur.size = ns
			case opShift:
				ns := g.alt
				if cur.shift == g.alt {
					ns = g.shift
				}
				cur.p.Shift(ns)
				cur.shift = ns
			}
		}) {
			return
		}
		if next == nil {
			return
		}
		cur = next
		if k < checkFrom {
			if len(g.bad) > 0 && g.bad[fmt.Sprint(seq[:k+1])] {
				return
			}
			continue
		}
		// form label
		after := cur.p.Form()
		okForm := after.Basis == wantBasis && (wantLayout < 0 && after.Layout >= 0 || after.Layout == wantLayout)
		if !check(c, "Polynomial."+opn, fmt.Sprintf("%s/Polynomial.%s/form-label/from=%s", e.N, opn, before), okForm, func() string {
			return fmt.Sprintf("%s: form after the step is %s", hist(), after)
		}) {
			return
		}
		check(c, "Polynomial.Size", e.N+"/Polynomial.Size/mismatch/after="+opn, cur.p.Size() == cur.size, func() string {
			return fmt.Sprintf("%s: Size()=%d want %d", hist(), cur.p.Size(), cur.size)
		})
		if !e.checkObj(g, cur, opn, before, hist, false) {
			if g.bad == nil {
				g.bad = map[string]bool{}
			}
			g.bad[fmt.Sprint(seq[:k+1])] = true
			return
		}
		if k == len(seq)-1 {
			for _, o := range others {
				e.checkObj(g, o, opn+"(on the other object)", before, func() string { return hist() + " ; then looking at the " + o.label }, false)
			}
		}
	}
}

// freeze: cur stays alive as an object of its own; objects sharing its storage keep the current denotation.
func (e *env) freeze(cur *obj, others *[]*obj) *data {
	snap := &data{q: cur.dt.q}
	for _, o := range *others {
		if o.dt == cur.dt {
			o.dt = snap
		}
	}
	old := *cur
	old.dt = snap
	old.label = "source of a copy"
	*others = append(*others, &old)
	return snap
}

// checkObj: the stored vector, read under the form the object reports, denotes the model polynomial; Evaluate and
// GetCoeff return the values of the shifted polynomial. Returns false when the object no longer denotes the model
// (the rest of the history would only repeat the same failure).
func (e *env) checkObj(g *group, o *obj, opn string, before iops.Form, hist func() string, first bool) bool {
	c := e.c
	D := g.D
	F := e.F
	f := o.p.Form()
	st := o.p.Storage()
	got, ok := e.decode(st, f, D)
	dkey := fmt.Sprintf("%s/Polynomial.%s/denotation-changed/from=%s", e.N, opn, before)
	if strings.Contains(opn, "other object") {
		dkey = fmt.Sprintf("%s/other-object/denotation-changed/%s", e.N, strings.ReplaceAll(o.label, " ", "-"))
	}
	if !check(c, "decode", dkey, ok && opoly.EqualPoly(got, o.dt.q), func() string {
		return fmt.Sprintf("%s: stored vector %s in form %s denotes %s, the object denoted %s before", hist(), hxs(st), f, hxs(got), hxs(o.dt.q))
	}) {
		return false
	}
	c.Class(fmt.Sprintf("%s/%s/from=%s/n=%d/%s/%s", e.N, opn, before, len(st), D.variant, shiftClass(o.shift)))
	if !o.known && f.Basis == iops.LagrangeCoset {
		c.AddExtra("evaluate_skipped_fresh_lagrange_coset_object", 1)
		return true
	}
	N := len(st)
	// the shift factor w_size^shift (defined when size divides the domain size; shift 0 needs nothing)
	var sf *big.Int
	if o.shift == 0 {
		sf = one
	} else if ws := e.omegaFor(D, N, o.size); ws != nil {
		sf = F.Exp(ws, int64(o.shift))
	}
	if sf == nil {
		return true
	}
	sfInv := F.Inv(sf)
	basis := iops.Form{Basis: f.Basis}.String()
	basis = basis[:strings.Index(basis, "-")]
	// ---- Evaluate ----
	pts := []*big.Int{new(big.Int), one}
	if pow2(N) && N == D.n {
		i := e.rng.Intn(N)
		wi := F.Exp(D.w, int64(i))
		pts = append(pts, wi, F.Mul(D.g, wi), F.Mul(sfInv, wi), F.Mul(sfInv, F.Mul(D.g, wi)))
	}
	pts = append(pts, g.xs...)
	if !first { // rotate: 3 (4 for small vectors) of the points per step; every point on the first look at a group
		r := e.rng.Intn(len(pts))
		sel := []*big.Int{pts[r], pts[(r+3)%len(pts)], pts[(r+5)%len(pts)]}
		if N <= 16 {
			sel = append(sel, pts[(r+6)%len(pts)])
		}
		pts = sel
	}
	for _, x := range pts {
		y := F.Mul(sf, x)
		want := F.Horner(o.dt.q, y)
		xc := "generic"
		if x.Sign() == 0 {
			xc = "zero"
		}
		if pow2(N) && N == D.n {
			switch f.Basis {
			case iops.Lagrange:
				if F.Exp(y, int64(N)).Cmp(one) == 0 {
					xc = "interpolation-node"
				}
			case iops.LagrangeCoset:
				if F.Exp(F.Mul(y, F.Inv(D.g)), int64(N)).Cmp(one) == 0 {
					xc = "interpolation-node"
				}
			}
		}
		cls := basis + "/" + shiftClass(o.shift) + "/x=" + xc
		if f.Basis == iops.LagrangeCoset && !o.ownCoset {
			cls += "/coset-set-through-a-shallow-clone-only"
		}
		var r *big.Int
		if guard(c, e.N+"/Polynomial.Evaluate/panic/"+cls, func() string { return hist() + " ; Evaluate(" + hx(x) + ")" }, func() { r = o.p.Evaluate(x) }) {
			continue
		}
		check(c, "Polynomial.Evaluate", e.N+"/Polynomial.Evaluate/value-mismatch/"+cls, r.Cmp(want) == 0, func() string {
			return fmt.Sprintf("%s ; form %s size %d shift %d: Evaluate(%s) = %s, the denoted polynomial q(w_%d^%d * x) has value %s", hist(), f, o.size, o.shift, hx(x), hx(r), o.size, o.shift, hx(want))
		})
		c.Class(e.N + "/Evaluate/" + cls)
	}
	// ---- GetCoeff ----
	if f.Basis == iops.Canonical && o.shift != 0 {
		return true // "i-th entry" of a shifted coefficient vector is not defined by the documentation
	}
	if !pow2(N) && f.Layout != iops.Regular {
		return true
	}
	idx := make([]int, 0, g.maxIdx)
	if N <= g.maxIdx {
		for i := 0; i < N; i++ {
			idx = append(idx, i)
		}
	} else {
		idx = append(idx, 0, 1, N-1)
		for len(idx) < g.maxIdx {
			idx = append(idx, e.rng.Intn(N))
		}
	}
	for _, i := range idx {
		var want *big.Int
		switch f.Basis {
		case iops.Canonical:
			want = o.dt.q[i]
		case iops.Lagrange:
			want = F.Horner(o.dt.q, F.Mul(sf, F.Exp(D.w, int64(i))))
		case iops.LagrangeCoset:
			want = F.Horner(o.dt.q, F.Mul(sf, F.Mul(D.g, F.Exp(D.w, int64(i)))))
		}
		cls := basis + "/" + shiftClass(o.shift)
		var r *big.Int
		if guard(c, e.N+"/Polynomial.GetCoeff/panic/"+cls, func() string { return fmt.Sprintf("%s ; GetCoeff(%d)", hist(), i) }, func() { r = o.p.GetCoeff(i) }) {
			break
		}
		check(c, "Polynomial.GetCoeff", e.N+"/Polynomial.GetCoeff/value-mismatch/"+cls, r.Cmp(want) == 0, func() string {
			return fmt.Sprintf("%s ; form %s size %d shift %d: GetCoeff(%d) = %s, the %d-th entry of the shifted polynomial in this basis is %s", hist(), f, o.size, o.shift, i, hx(r), i, hx(want))
		})
	}
	c.Class(e.N + "/GetCoeff/" + basis + "/" + shiftClass(o.shift))
	return true
}

// omegaFor: root of unity of order size, as a power of the reference generator of the group's domain.
func (e *env) omegaFor(D *dom, N, size int) *big.Int {
	if size <= 0 || !pow2(size) || size > D.n {
		return nil
	}
	return e.omega(D, size)
}

var convOps = []int{opToCanonical, opToLagrange, opToLagrangeCoset, opToRegular, opToBitReverse}
var convOpsNoCoset = []int{opToCanonical, opToLagrange, opToRegular, opToBitReverse}
var allOps = []int{opToCanonical, opToLagrange, opToLagrangeCoset, opToRegular, opToBitReverse, opClone, opShallowClone, opRoundTrip, opSetSize, opShift}

var allShifts = func(size int) []int { return []int{0, 1, 2, 3, 4, 5, 6, 7, -1, -6, size, size + 3} } // every small shift (each has its own exponentiation shortcut)

func (e *env) newGroup(D *dom, n0 int, f iops.Form, shift int, alphabet []int, length int) *group {
	g := &group{D: D, n0: n0, form0: f, shift: shift, alphabet: alphabet, length: length, maxIdx: 4}
	g.alt = 2
	if shift == 2 {
		g.alt = 4
	}
	g.q = e.randVec(n0)
	g.st = e.encode(g.q, f, D)
	g.xs = []*big.Int{e.rng.BigBelow(e.F.P), new(big.Int).Sub(e.F.P, one)}
	return g
}

// runHistories: the bounded-exhaustive part on small sizes.
func runHistories(e *env) {
	c := e.c
	T := c.Thorough()
	type cfg struct {
		sizes    []int
		variants []string
		shifts   func(size int) []int
		alphabet []int
		length   int
	}
	some := func(size int) []int { return []int{0, 1, 7, -1} }
	two := func(size int) []int { return []int{0, 1} }
	few := func(size int) []int { return []int{0, 3} }
	var cfgs []cfg
	// conversions do not look at the shift: the long enumerations use two shifts, every shift class is combined with
	// every form-to-form transition in the length-2 enumerations.
	switch {
	case e.race:
		z := func(v ...int) func(int) []int { return func(int) []int { return v } }
		cfgs = []cfg{{[]int{8}, []string{"default"}, few, convOps, 2}, {[]int{256}, []string{"default"}, z(1), convOps, 1}}
	case !T:
		z := func(v ...int) func(int) []int { return func(int) []int { return v } }
		cfgs = []cfg{
			{[]int{1, 2, 4, 8}, []string{"default"}, z(0), convOps, 4},
			{[]int{2, 8}, []string{"shift"}, z(1), convOps, 4},
			{[]int{1, 2, 4, 8}, []string{"default"}, allShifts, convOps, 2},
			{[]int{64}, []string{"default"}, two, convOps, 3},
			{[]int{64}, []string{"shift"}, allShifts, convOps, 1},
			{[]int{2}, []string{"default"}, z(7), allOps, 3},
			{[]int{4}, []string{"default"}, z(1), allOps, 3},
			{[]int{8}, []string{"default"}, z(-1), allOps, 3},
			{[]int{2, 8}, []string{"shift"}, allShifts, allOps, 2},
			{[]int{4, 16}, []string{"noprecomp"}, few, convOpsNoCoset, 3},
			{[]int{512}, []string{"default"}, few, convOps, 2},
			{[]int{512}, []string{"shift", "noprecomp"}, z(1), convOpsNoCoset, 1},
		}
	default:
		z := func(v ...int) func(int) []int { return func(int) []int { return v } }
		cfgs = []cfg{
			{[]int{1, 2, 4, 8}, []string{"default"}, some, convOps, 5},
			{[]int{1, 2, 4, 8}, []string{"shift"}, two, convOps, 5},
			{[]int{1, 2, 4, 8, 16}, []string{"default", "shift"}, allShifts, convOps, 3},
			{[]int{16, 64}, []string{"default", "shift"}, some, convOps, 4},
			{[]int{64}, []string{"default"}, allShifts, convOps, 2},
			{[]int{2, 8}, []string{"default"}, z(1, -1), allOps, 4},
			{[]int{1, 4}, []string{"default"}, z(0, 7), allOps, 4},
			{[]int{1, 2, 4, 8, 32}, []string{"shift"}, allShifts, allOps, 3},
			{[]int{1, 2, 4, 8, 16, 64}, []string{"noprecomp"}, some, convOpsNoCoset, 4},
			{[]int{256}, []string{"default", "noprecomp"}, some, convOpsNoCoset, 3},
			{[]int{256}, []string{"shift"}, some, convOps, 3},
			{[]int{4096}, []string{"default", "noprecomp"}, two, convOpsNoCoset, 2},
			{[]int{4096}, []string{"shift"}, two, convOps, 2},
		}
	}
	for _, cf := range cfgs {
		for _, n := range cf.sizes {
			for _, v := range cf.variants {
				D := e.domain(n, v)
				if !D.ok {
					continue
				}
				for _, f := range iops.AllForms {
					for _, s := range cf.shifts(n) {
						e.runGroup(e.newGroup(D, n, f, s, cf.alphabet, cf.length))
					}
				}
			}
		}
	}
	if e.race {
		return
	}
	// growth: a Canonical-Regular vector shorter than the domain (the documented way to extend a polynomial)
	cr := iops.Form{Basis: iops.Canonical, Layout: iops.Regular}
	type gr struct{ n0, N int }
	grs := []gr{{1, 2}, {2, 8}, {4, 8}, {8, 32}, {3, 4}, {5, 16}, {1, 1}}
	if T {
		grs = append(grs, gr{16, 64}, gr{7, 64}, gr{64, 256}, gr{100, 1024})
	}
	for _, x := range grs {
		for _, v := range []string{"default", "shift"} {
			D := e.domain(x.N, v)
			if !D.ok {
				continue
			}
			shifts := []int{0, 1, 3, 7, -1}
			if !pow2(x.n0) {
				shifts = []int{0} // w_size is not defined for a size that is not a power of two
			}
			for _, s := range shifts {
				L := c.Pick(2, 3)
				if x.N > 64 {
					L = 2
				}
				e.runGroup(e.newGroup(D, x.n0, cr, s, allOps, L))
				if s <= 1 && s >= 0 && x.N <= 64 {
					e.runGroup(e.newGroup(D, x.n0, cr, s, convOps, c.Pick(3, 4)))
				}
			}
		}
	}
	e.runNoopLargerDomain()
}

// runLongHistories: the longest conversion-only histories (their own goroutine, so that they overlap with the rest).
func runLongHistories(e *env) {
	if e.race {
		return
	}
	c := e.c
	L := c.Pick(5, 6)
	sizes := []int{4}
	if c.Thorough() {
		sizes = []int{4, 8}
	}
	for _, n := range sizes {
		D := e.domain(n, "default")
		if !D.ok {
			continue
		}
		for _, f := range iops.AllForms {
			for _, s := range []int{1, -1} {
				if !c.Thorough() && s != 1 {
					continue
				}
				e.runGroup(e.newGroup(D, n, f, s, convOps, L))
			}
		}
	}
	if c.Thorough() {
		D := e.domain(4, "default")
		for _, f := range iops.AllForms {
			if f.Layout == iops.Regular {
				e.runGroup(e.newGroup(D, 4, f, 1, allOps, 5))
			}
		}
	}
}

// runNoopLargerDomain: "ToX leaves p unchanged if p was already in X form" - also when the domain passed is larger
// than the vector (the conversion methods grow the vector before looking at the form).
func (e *env) runNoopLargerDomain() {
	c := e.c
	for _, x := range [][2]int{{2, 4}, {4, 16}} {
		n0, N := x[0], x[1]
		small, lg := e.domain(n0, "default"), e.domain(N, "default")
		if !small.ok || !lg.ok {
			continue
		}
		for _, f := range iops.AllForms {
			q := e.randVec(n0)
			st := e.encode(q, f, small)
			var p iops.Poly
			opn := []string{"ToCanonical", "ToLagrange", "ToLagrangeCoset"}[f.Basis]
			desc := func() string {
				return fmt.Sprintf("NewPolynomial(len %d, %s, q=%s).%s(domain of size %d)", n0, f, hxs(q), opn, N)
			}
			key := fmt.Sprintf("%s/Polynomial.%s/panic/noop-with-larger-domain/%s", e.N, opn, f)
			if guard(c, key, desc, func() {
				p = e.I.NewPoly(st, f)
				switch f.Basis {
				case iops.Canonical:
					p.ToCanonical(lg.d, 0)
				case iops.Lagrange:
					p.ToLagrange(lg.d, 0)
				default:
					p.ToLagrangeCoset(lg.d)
				}
			}) {
				continue
			}
			// the value of the object at a generic point must not have changed
			xv := e.rng.BigBelow(e.F.P)
			want := e.F.Horner(q, xv)
			var r *big.Int
			after := p.Form()
			if guard(c, key, desc, func() { r = p.Evaluate(xv) }) {
				continue
			}
			check(c, "noop-with-larger-domain", fmt.Sprintf("%s/Polynomial.%s/denotation-changed/noop-with-larger-domain/%s", e.N, opn, f), after == f && r.Cmp(want) == 0, func() string {
				return fmt.Sprintf("%s: documented to leave p unchanged; before: p(%s) = %s; after: form %s, len %d, stored %s, Evaluate = %s", desc(), hx(xv), hx(want), after, p.Len(), hxs(p.Storage()), hx(r))
			})
			c.Class(fmt.Sprintf("%s/noop-with-larger-domain/%s/%d->%d", e.N, f, n0, N))
		}
	}
}
