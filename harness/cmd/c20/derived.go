package main

import (
	"fmt"
	"math/big"

	"verif/harness/adapt/iops"
	"verif/harness/oracle/opoly"
)

// Part B: constructions derived from iop polynomials, against their definitions.

func runDerived(e *env) {
	e.exprs()
	e.divide()
	e.shuffled()
	e.copyConstraint()
}

// natural returns the stored vector in natural (Regular) order.
func natural(st []*big.Int, layout int) []*big.Int {
	if layout == iops.BitReverse {
		return opoly.BitRev(st)
	}
	return st
}

type input struct {
	p     iops.Poly
	q     []*big.Int
	f     iops.Form
	size  int
	shift int
	st    []*big.Int
}

func (e *env) mkInput(D *dom, f iops.Form, size, shift int) *input {
	in := &input{q: e.randVec(D.n), f: f, size: size, shift: shift}
	in.st = e.encode(in.q, f, D)
	in.p = e.I.NewPoly(in.st, f)
	if size != D.n {
		in.p.SetSize(size)
	}
	if shift != 0 {
		in.p.Shift(shift)
	}
	return in
}

// entries returns the natural-order entries of the (shifted) object: values of the denoted polynomial at the nodes
// of its basis, or its coefficients for a canonical object (shift 0 only).
func (e *env) entries(D *dom, in *input) []*big.Int {
	F := e.F
	if in.f.Basis == iops.Canonical {
		return in.q
	}
	sf := one
	if in.shift != 0 {
		sf = F.Exp(e.omega(D, in.size), int64(in.shift))
	}
	s := sf
	if in.f.Basis == iops.LagrangeCoset {
		s = F.Mul(sf, D.g)
	}
	return F.EvalOnPowers(in.q, s, D.w, D.n)
}

// ---- iop.Evaluate ----
func (e *env) exprs() {
	c := e.c
	F := e.F
	sizes := []int{1, 2, 4, 8, 32, 128}
	trials := c.Pick(36, 108)
	if c.Thorough() {
		sizes = append(sizes, 1024)
	}
	if e.race {
		sizes, trials = []int{8, 32}, 4
	}
	for _, N := range sizes {
		D := e.domain(N, "default")
		if !D.ok {
			continue
		}
		for t := 0; t < trials; t++ {
			m := 1 + t%3
			mode := []string{"lagrange", "lagrange-coset", "mixed-bases"}[(t/3)%3]
			shifted := t%2 == 1
			ins := make([]*input, m)
			for j := range ins {
				f := iops.Form{Layout: e.rng.Intn(2)}
				switch mode {
				case "lagrange":
					f.Basis = iops.Lagrange
				case "lagrange-coset":
					f.Basis = iops.LagrangeCoset
				default:
					f.Basis = (j + t) % 3
				}
				size := N
				if N >= 2 && e.rng.Intn(3) == 0 {
					size = N / 2
				}
				s := 0
				if shifted && f.Basis != iops.Canonical {
					s = []int{1, 3, size + 1, 7, size}[e.rng.Intn(5)]
				}
				ins[j] = e.mkInput(D, f, size, s)
			}
			cf := make([]*big.Int, m+1)
			for j := range cf {
				cf[j] = e.rng.BigBelow(F.P)
			}
			// f(i, x) = cf[m] + i*x[0] + sum_j cf[j]*x[j]^(j+1)
			expr := func(i int, x []*big.Int) *big.Int {
				r := F.Add(cf[m], F.Mul(F.Int(int64(i)), x[0]))
				for j := range x {
					r = F.Add(r, F.Mul(cf[j], F.Exp(x[j], int64(j+1))))
				}
				return r
			}
			form := iops.AllForms[(t+t/6)%6]
			cls := mode + "/" + map[bool]string{false: "shift=0", true: "shifted"}[shifted]
			desc := func() string {
				s := fmt.Sprintf("iop.Evaluate(f, r(provided=%v), %s", t%4 < 2, form)
				for _, in := range ins {
					s += fmt.Sprintf(", {%s size %d shift %d stored %s}", in.f, in.size, in.shift, hxs(in.st))
				}
				return s + fmt.Sprintf(") N=%d f(i,x)=c+i*x0+sum cj*xj^(j+1) c=%s", N, hxs(cf))
			}
			want := make([]*big.Int, N)
			ent := make([][]*big.Int, m)
			for j, in := range ins {
				ent[j] = e.entries(D, in)
			}
			for i := 0; i < N; i++ {
				x := make([]*big.Int, m)
				for j := range x {
					x[j] = ent[j][i]
				}
				want[i] = expr(i, x)
			}
			xs := make([]iops.Poly, m)
			for j := range xs {
				xs[j] = ins[j].p
			}
			var res iops.Poly
			var err error
			c.Current(e.N + " " + desc())
			if guard(c, e.N+"/iop.Evaluate/panic/"+cls, desc, func() { res, err = e.I.Evaluate(expr, t%4 < 2, form, xs) }) {
				continue
			}
			if !check(c, "iop.Evaluate", e.N+"/iop.Evaluate/error/"+cls, err == nil && res != nil, func() string { return fmt.Sprintf("%s: error %v", desc(), err) }) {
				continue
			}
			check(c, "iop.Evaluate", e.N+"/iop.Evaluate/form-or-size/"+cls, res.Form() == form && res.Size() == ins[0].size && res.Len() == N, func() string {
				return fmt.Sprintf("%s: result form %s size %d len %d", desc(), res.Form(), res.Size(), res.Len())
			})
			got := natural(res.Storage(), form.Layout)
			check(c, "iop.Evaluate", e.N+"/iop.Evaluate/entry-mismatch/"+cls, eqVec(got, want), func() string {
				return fmt.Sprintf("%s: entries (natural order) %s want %s", desc(), hxs(got), hxs(want))
			})
			for _, i := range []int{0, N / 2, N - 1} {
				var r *big.Int
				if guard(c, e.N+"/iop.Evaluate/result.GetCoeff/panic", desc, func() { r = res.GetCoeff(i) }) {
					break
				}
				check(c, "iop.Evaluate", e.N+"/iop.Evaluate/result.GetCoeff-mismatch/"+cls, r.Cmp(want[i]) == 0, func() string {
					return fmt.Sprintf("%s: result.GetCoeff(%d)=%s want %s (the result has shift 0)", desc(), i, hx(r), hx(want[i]))
				})
			}
			if form.Basis == iops.Lagrange {
				// the result, read as a polynomial in Lagrange form, takes the value f(...) at every node: evaluate it elsewhere
				x := e.rng.BigBelow(F.P)
				if F.Exp(x, int64(N)).Cmp(one) != 0 {
					wv := F.Horner(F.InterpolateOnPowers(want, one, D.w), x)
					var r *big.Int
					if !guard(c, e.N+"/iop.Evaluate/result.Evaluate/panic", desc, func() { r = res.Evaluate(x) }) {
						check(c, "iop.Evaluate", e.N+"/iop.Evaluate/result.Evaluate-mismatch/"+cls, r.Cmp(wv) == 0, func() string {
							return fmt.Sprintf("%s: result.Evaluate(%s)=%s want %s", desc(), hx(x), hx(r), hx(wv))
						})
					}
				}
			}
			for j, in := range ins {
				check(c, "iop.Evaluate", e.N+"/iop.Evaluate/input-modified", eqVec(in.p.Storage(), in.st) && in.p.Form() == in.f, func() string {
					return fmt.Sprintf("%s: input %d now %s %s", desc(), j, in.p.Form(), hxs(in.p.Storage()))
				})
			}
			c.Class(fmt.Sprintf("%s/iop.Evaluate/N=%d/m=%d/%s/out=%s", e.N, N, m, cls, form))
			c.SampleOnce("iop.Evaluate/"+cls, map[string]any{"instance": e.N, "call": desc(), "expected_entries": hxs(want)})
		}
		// documented errors
		var err error
		if !guard(c, e.N+"/iop.Evaluate/panic/no-input", func() string { return "iop.Evaluate with no polynomial" }, func() {
			_, err = e.I.Evaluate(func(int, []*big.Int) *big.Int { return new(big.Int) }, false, iops.AllForms[0], nil)
		}) {
			check(c, "iop.Evaluate", e.N+"/iop.Evaluate/no-error/no-input", err != nil, func() string { return "iop.Evaluate with no polynomial returned no error" })
		}
		if N >= 2 {
			a, b := e.mkInput(D, iops.AllForms[2], N, 0), e.mkInput(e.domain(N/2, "default"), iops.AllForms[2], N/2, 0)
			if !guard(c, e.N+"/iop.Evaluate/panic/inconsistent-sizes", func() string { return "iop.Evaluate with lengths N and N/2" }, func() {
				_, err = e.I.Evaluate(func(int, []*big.Int) *big.Int { return new(big.Int) }, false, iops.AllForms[2], []iops.Poly{a.p, b.p})
			}) {
				check(c, "iop.Evaluate", e.N+"/iop.Evaluate/no-error/inconsistent-sizes", err != nil, func() string {
					return fmt.Sprintf("iop.Evaluate with lengths %d and %d returned no error", N, N/2)
				})
			}
		}
	}
}

// ---- DivideByXMinusOne: a / (X^n0 - 1) on the coset of the big domain ----
func (e *env) divide() {
	c := e.c
	F := e.F
	pairs := [][2]int{{1, 2}, {2, 2}, {2, 4}, {4, 16}, {8, 32}, {8, 8}, {1, 1}, {16, 64}}
	if c.Thorough() {
		pairs = append(pairs, [2]int{64, 256}, [2]int{256, 1024}, [2]int{32, 32})
	}
	if e.race {
		pairs = [][2]int{{8, 32}}
	}
	for _, pr := range pairs {
		n0, N := pr[0], pr[1]
		// the coset is the big domain's: the small domain only gives n0, whatever its own coset shift is
		for _, vv := range [][2]string{{"default", "default"}, {"shift", "shift"}, {"default", "shift"}, {"shift", "default"}} {
			variant := vv[1]
			if vv[0] != vv[1] {
				variant = "small-" + vv[0] + "/big-" + vv[1]
			}
			D0, D1 := e.domain(n0, vv[0]), e.domain(N, vv[1])
			if !D0.ok || !D1.ok {
				continue
			}
			w0 := e.omega(D1, n0)
			// (g w^i)^n0 - 1
			den := make([]*big.Int, N)
			bad := false
			for i := range den {
				den[i] = F.Sub(F.Exp(F.Mul(D1.g, F.Exp(D1.w, int64(i))), int64(n0)), one)
				bad = bad || den[i].Sign() == 0
			}
			if bad {
				c.Note("%s: X^%d-1 vanishes on the coset of the %s domain of size %d, DivideByXMinusOne not exercised there", e.N, n0, variant, N)
				continue
			}
			for _, layout := range []int{iops.Regular, iops.BitReverse} {
				for _, s := range []int{0, 1, 3, n0 + 1, 7} {
					for _, exact := range []bool{true, false} {
						var ap []*big.Int // a' = the denoted (shifted) polynomial
						if exact {
							if N == n0 {
								continue
							}
							h := e.randVec(N - n0)
							xn := make([]*big.Int, n0+1)
							for i := range xn {
								xn[i] = new(big.Int)
							}
							xn[0], xn[n0] = F.Int(-1), big.NewInt(1)
							ap = F.MulPoly(h, xn)
						} else {
							ap = e.randVec(N)
						}
						// a(X) = a'(w0^-s X)
						a := make([]*big.Int, N)
						t := F.Exp(w0, int64(-s))
						tp := big.NewInt(1)
						for k := range a {
							a[k] = F.Mul(ap[k], tp)
							tp = F.Mul(tp, t)
						}
						f := iops.Form{Basis: iops.LagrangeCoset, Layout: layout}
						st := e.encode(a, f, D1)
						cls := fmt.Sprintf("%s/exact=%v", shiftClass(s), exact)
						desc := func() string {
							return fmt.Sprintf("DivideByXMinusOne(a={%s len %d size %d shift %d stored %s}, domains [%d %d]/%s)", f, N, n0, s, hxs(st), n0, N, variant)
						}
						var p, res iops.Poly
						var err error
						c.Current(e.N + " " + desc())
						if guard(c, e.N+"/DivideByXMinusOne/panic/"+cls, desc, func() {
							p = e.I.NewPoly(st, f)
							p.SetSize(n0)
							p.Shift(s)
							res, err = e.I.DivideByXMinusOne(p, D0.d, D1.d)
						}) {
							continue
						}
						if !check(c, "DivideByXMinusOne", e.N+"/DivideByXMinusOne/error/"+cls, err == nil, func() string { return desc() + ": " + err.Error() }) {
							continue
						}
						// definition: the polynomial of degree < N taking the values a'(x)/(x^n0-1) on the coset
						vals := F.EvalOnPowers(ap, D1.g, D1.w, N)
						for i := range vals {
							vals[i] = F.Mul(vals[i], F.Inv(den[i]))
						}
						want := F.InterpolateOnPowers(vals, D1.g, D1.w)
						rf := res.Form()
						check(c, "DivideByXMinusOne", e.N+"/DivideByXMinusOne/form-or-size/"+cls, rf == iops.AllForms[0] && res.Size() == n0, func() string {
							return fmt.Sprintf("%s: result form %s (documented Canonical Regular) size %d", desc(), rf, res.Size())
						})
						got, ok := e.decode(res.Storage(), rf, D1)
						check(c, "DivideByXMinusOne", e.N+"/DivideByXMinusOne/value-mismatch/"+cls, ok && opoly.EqualPoly(got, want), func() string {
							return fmt.Sprintf("%s: quotient %s want %s", desc(), hxs(got), hxs(want))
						})
						check(c, "DivideByXMinusOne", e.N+"/DivideByXMinusOne/input-modified", eqVec(p.Storage(), st) && p.Form() == f, func() string { return desc() })
						c.Class(fmt.Sprintf("%s/DivideByXMinusOne/%d:%d/%s/%s/%s", e.N, n0, N, variant, f, cls))
						c.SampleOnce("DivideByXMinusOne/"+cls, map[string]any{"instance": e.N, "call": desc(), "expected_quotient": hxs(want)})
					}
				}
			}
			// documented error: not LagrangeCoset
			in := e.mkInput(D1, iops.AllForms[2], n0, 0)
			var err error
			if !guard(c, e.N+"/DivideByXMinusOne/panic/not-coset", func() string { return "Lagrange input" }, func() { _, err = e.I.DivideByXMinusOne(in.p, D0.d, D1.d) }) {
				check(c, "DivideByXMinusOne", e.N+"/DivideByXMinusOne/no-error/not-coset", err != nil, func() string { return "a Lagrange-form input was accepted" })
			}
		}
	}
}

// ratioInputs builds m inputs of length N in seeded forms (coset forms are relative to D's coset).
func (e *env) ratioInputs(D *dom, m int, t int) []*input {
	ins := make([]*input, m)
	for j := range ins {
		f := iops.AllForms[(t+j*5+e.rng.Intn(6))%6]
		if D.variant != "default" && f.Basis == iops.LagrangeCoset && t%2 == 0 {
			f.Basis = iops.Lagrange
		}
		ins[j] = e.mkInput(D, f, D.n, 0)
	}
	return ins
}

func polys(ins []*input) []iops.Poly {
	r := make([]iops.Poly, len(ins))
	for i := range ins {
		r[i] = ins[i].p
	}
	return r
}

func descInputs(ins []*input) string {
	s := ""
	for _, in := range ins {
		s += fmt.Sprintf(" {%s q=%s}", in.f, hxs(in.q))
	}
	return s
}

// checkRatioResult: the result, read in the expected form, is the interpolant of Z on the domain.
func (e *env) checkRatioResult(name, cls string, D *dom, res iops.Poly, form iops.Form, Z []*big.Int, ins []*input, desc func() string) {
	c := e.c
	F := e.F
	rf := res.Form()
	check(c, name, e.N+"/"+name+"/form/"+cls, rf == form && res.Len() == D.n, func() string {
		return fmt.Sprintf("%s: result form %s len %d", desc(), rf, res.Len())
	})
	want := F.InterpolateOnPowers(Z, one, D.w)
	got, ok := e.decode(res.Storage(), rf, D)
	check(c, name, e.N+"/"+name+"/value-mismatch/"+cls, ok && opoly.EqualPoly(got, want), func() string {
		return fmt.Sprintf("%s: result denotes %s, the definition gives Z = %s on the domain, i.e. %s", desc(), hxs(got), hxs(Z), hxs(want))
	})
	if rf.Basis != iops.LagrangeCoset { // (a result in coset form was never told its coset)
		x := e.rng.BigBelow(F.P)
		if F.Exp(x, int64(D.n)).Cmp(one) != 0 {
			var r *big.Int
			if !guard(c, e.N+"/"+name+"/result.Evaluate/panic", desc, func() { r = res.Evaluate(x) }) {
				check(c, name, e.N+"/"+name+"/result.Evaluate-mismatch/"+cls, r.Cmp(F.Horner(want, x)) == 0, func() string {
					return fmt.Sprintf("%s: result.Evaluate(%s)=%s want %s", desc(), hx(x), hx(r), hx(F.Horner(want, x)))
				})
			}
		}
	}
	// the inputs are documented to be put in Lagrange form; they must still denote the same polynomials
	for j, in := range ins {
		f := in.p.Form()
		q, ok := e.decode(in.p.Storage(), f, D)
		check(c, name, e.N+"/"+name+"/input-denotation-changed/from="+in.f.String(), ok && opoly.EqualPoly(q, in.q), func() string {
			return fmt.Sprintf("%s: input %d (was %s) is now %s and denotes %s", desc(), j, in.f, f, hxs(q))
		})
	}
}

// ---- BuildRatioShuffledVectors ----
func (e *env) shuffled() {
	c := e.c
	F := e.F
	sizes := []int{1, 2, 4, 8, 32}
	trials := c.Pick(36, 144)
	if c.Thorough() {
		sizes = append(sizes, 128)
	}
	if e.race {
		sizes, trials = []int{8, 128}, 12
	}
	for _, N := range sizes {
		for t := 0; t < trials; t++ {
			// t = 6u + f: expected form f, nbPolynomials and domain argument vary with u so that every pairing occurs
			u, fi := t/6, t%6
			variant := "default"
			passDomain := (u/3+fi)%2 == 0
			if passDomain && (u+fi/2)%2 == 0 {
				variant = "shift"
			}
			D := e.domain(N, variant)
			if !D.ok {
				continue
			}
			m := 1 + u%3
			if u >= 3 && u%3 == 0 {
				m = 7 + (u/3)%2 // more wires than any small-exponent shortcut covers
			}
			num, den := e.ratioInputs(D, m, t), e.ratioInputs(D, m, t+3)
			beta := e.rng.BigBelow(F.P)
			form := iops.AllForms[t%6]
			// definition: Z(w^0)=1, Z(w^(j+1)) = Z(w^j) * prod_i (beta - P_i(w^j)) / (beta - Q_i(w^j))
			Z := make([]*big.Int, N)
			Z[0] = big.NewInt(1)
			pv, qv := make([][]*big.Int, m), make([][]*big.Int, m)
			for i := 0; i < m; i++ {
				pv[i], qv[i] = F.EvalOnPowers(num[i].q, one, D.w, N), F.EvalOnPowers(den[i].q, one, D.w, N)
			}
			defined := true
			for j := 0; j+1 < N; j++ {
				a, b := big.NewInt(1), big.NewInt(1)
				for i := 0; i < m; i++ {
					a = F.Mul(a, F.Sub(beta, pv[i][j]))
					b = F.Mul(b, F.Sub(beta, qv[i][j]))
				}
				if b.Sign() == 0 {
					defined = false
					break
				}
				Z[j+1] = F.Mul(Z[j], F.Mul(a, F.Inv(b)))
			}
			if !defined {
				continue
			}
			cls := fmt.Sprintf("nbPolynomials=%d/expected=%s", m, form)
			desc := func() string {
				return fmt.Sprintf("BuildRatioShuffledVectors(num=%s, den=%s, beta=%s, %s, domain=%v(%s)) N=%d", descInputs(num), descInputs(den), hx(beta), form, passDomain, variant, N)
			}
			var dd *iops.Domain
			if passDomain {
				dd = D.d
			}
			var res iops.Poly
			var err error
			c.Current(e.N + " " + desc())
			if guard(c, fmt.Sprintf("%s/BuildRatioShuffledVectors/panic/nbPolynomials=%d", e.N, m), desc, func() {
				res, err = e.I.BuildRatioShuffledVectors(polys(num), polys(den), beta, form, dd)
			}) {
				continue
			}
			if !check(c, "BuildRatioShuffledVectors", e.N+"/BuildRatioShuffledVectors/error/"+cls, err == nil, func() string { return fmt.Sprintf("%s: %v", desc(), err) }) {
				continue
			}
			e.checkRatioResult("BuildRatioShuffledVectors", cls, D, res, form, Z, append(append([]*input{}, num...), den...), desc)
			c.Class(fmt.Sprintf("%s/BuildRatioShuffledVectors/N=%d/%s/domain=%v/%s", e.N, N, cls, passDomain, variant))
			c.SampleOnce(fmt.Sprintf("BuildRatioShuffledVectors/m=%d", m), map[string]any{"instance": e.N, "call": desc(), "expected_Z_on_domain": hxs(Z)})
		}
	}
}

// ---- BuildRatioCopyConstraint ----
func (e *env) copyConstraint() {
	c := e.c
	F := e.F
	sizes := []int{1, 2, 4, 8, 32, 128}
	trials := c.Pick(36, 144)
	if c.Thorough() {
		sizes = append(sizes, 512)
	}
	if e.race {
		sizes, trials = []int{8, 128}, 12
	}
	for _, N := range sizes {
		for t := 0; t < trials; t++ {
			u, fi := t/6, t%6
			variant := "default"
			passDomain := (u/3+fi)%2 == 0
			if passDomain && (u+fi/2)%2 == 0 {
				variant = "shift"
			}
			D := e.domain(N, variant)
			if !D.ok {
				continue
			}
			m := 1 + u%3
			if u >= 3 && u%3 == 0 {
				m = 7 + (u/3)%2 // more wires than any small-exponent shortcut covers
			}
			ins := e.ratioInputs(D, m, t)
			beta, gamma := e.rng.BigBelow(F.P), e.rng.BigBelow(F.P)
			form := iops.AllForms[t%6]
			var perm []int64
			pcls := "random-permutation"
			switch (u + fi) % 3 {
			case 0:
				for _, v := range e.rng.Perm(m * N) {
					perm = append(perm, int64(v))
				}
			case 1:
				pcls = "identity"
				for v := 0; v < m*N; v++ {
					perm = append(perm, int64(v))
				}
			default:
				pcls = "cycle"
				for v := 0; v < m*N; v++ {
					perm = append(perm, int64((v+1)%(m*N)))
				}
			}
			// support: id[k*N+i] = g^k * w^i
			id := make([]*big.Int, m*N)
			gk := big.NewInt(1)
			for k := 0; k < m; k++ {
				wi := big.NewInt(1)
				for i := 0; i < N; i++ {
					id[k*N+i] = F.Mul(gk, wi)
					wi = F.Mul(wi, D.w)
				}
				gk = F.Mul(gk, D.g)
			}
			pv := make([][]*big.Int, m)
			for k := 0; k < m; k++ {
				pv[k] = F.EvalOnPowers(ins[k].q, one, D.w, N)
			}
			Z := make([]*big.Int, N)
			Z[0] = big.NewInt(1)
			defined := true
			for i := 0; i+1 < N; i++ {
				a, b := big.NewInt(1), big.NewInt(1)
				for k := 0; k < m; k++ {
					a = F.Mul(a, F.Add(F.Add(pv[k][i], F.Mul(beta, id[k*N+i])), gamma))
					b = F.Mul(b, F.Add(F.Add(pv[k][i], F.Mul(beta, id[perm[k*N+i]])), gamma))
				}
				if b.Sign() == 0 {
					defined = false
					break
				}
				Z[i+1] = F.Mul(Z[i], F.Mul(a, F.Inv(b)))
			}
			if !defined {
				continue
			}
			cls := fmt.Sprintf("nbPolynomials=%d/%s/expected=%s", m, pcls, form)
			desc := func() string {
				return fmt.Sprintf("BuildRatioCopyConstraint(entries=%s, perm=%v, beta=%s, gamma=%s, %s, domain=%v(%s)) N=%d", descInputs(ins), perm, hx(beta), hx(gamma), form, passDomain, variant, N)
			}
			var dd *iops.Domain
			if passDomain {
				dd = D.d
			}
			var res iops.Poly
			var err error
			c.Current(e.N + " " + desc())
			if guard(c, fmt.Sprintf("%s/BuildRatioCopyConstraint/panic/nbPolynomials=%d", e.N, m), desc, func() {
				res, err = e.I.BuildRatioCopyConstraint(polys(ins), perm, beta, gamma, form, dd)
			}) {
				continue
			}
			if !check(c, "BuildRatioCopyConstraint", e.N+"/BuildRatioCopyConstraint/error/"+cls, err == nil, func() string { return fmt.Sprintf("%s: %v", desc(), err) }) {
				continue
			}
			e.checkRatioResult("BuildRatioCopyConstraint", cls, D, res, form, Z, ins, desc)
			c.Class(fmt.Sprintf("%s/BuildRatioCopyConstraint/N=%d/%s/domain=%v/%s", e.N, N, cls, passDomain, variant))
			c.SampleOnce(fmt.Sprintf("BuildRatioCopyConstraint/%s", pcls), map[string]any{"instance": e.N, "call": desc(), "expected_Z_on_domain": hxs(Z)})
		}
	}
}
