// C04: MSM (MultiExp / Fold / forced window sizes / signed-digit recoding) vs the oracle linear
// combination, over hostile input multisets, task counts, GOMAXPROCS values and repetitions;
// error reporting; termination (no-progress detector).
package main

import (
	"flag"
	"fmt"
	"math/big"
	"runtime"
	"sync"
	"time"

	"verif/harness/adapt/groups"
	"verif/harness/gen"
	"verif/harness/mon"
	"verif/harness/oracle/ocurve"
)

var mode = flag.String("mode", "all", "all | race (reduced sizes for the race build)")

var one = big.NewInt(1)

type env struct {
	c    *mon.Ctx
	g    *groups.Group
	rng  *gen.Rng
	ks   []*big.Int // pool[j] = [ks[j]] G
	pool []ocurve.Pt
	iO   int // index of the point at infinity
}

// expected = [sum_i s_i * k_{idx_i} mod r] G  (one oracle multiplication)
func (e *env) expected(idx []int, sc []*big.Int) ocurve.Pt {
	acc := new(big.Int)
	for i, j := range idx {
		acc.Add(acc, new(big.Int).Mul(sc[i], e.ks[j]))
	}
	acc.Mod(acc, e.g.R)
	return e.g.C.Mul(e.g.G, acc)
}

func shapeScalars(e *env, shape string, n int, c uint64) []*big.Int {
	r := e.g.R
	sc := make([]*big.Int, n)
	for i := range sc {
		switch shape {
		case "zero":
			sc[i] = new(big.Int)
		case "one":
			sc[i] = big.NewInt(1)
		case "r-1":
			sc[i] = new(big.Int).Sub(r, one)
		case "small": // all digits in the lowest window: chunk 0 heavily overweight
			sc[i] = big.NewInt(int64(1 + e.rng.Intn(1000)))
		case "single-digit": // one non-zero c-bit digit at a random window
			w := uint(e.rng.Intn(r.BitLen()/int(c) + 1))
			sc[i] = new(big.Int).Lsh(big.NewInt(int64(1+e.rng.Intn(1<<c-1))), w*uint(c))
			sc[i].Mod(sc[i], r)
		case "top-carry": // all-ones patterns: every digit > 2^(c-1) so carries ripple into the last window
			sc[i] = new(big.Int).Sub(new(big.Int).Lsh(one, uint(r.BitLen()-1-e.rng.Intn(3))), big.NewInt(int64(1+e.rng.Intn(3))))
			sc[i].Mod(sc[i], r)
		case "top-only": // only the last window is non-zero, over its whole range (it may be wider than c bits): the last
			// chunk is the only one with work (overweight) and needs the buckets of the last window size
			shift := uint(c) * uint((r.BitLen()+int(c)-1)/int(c)-1)
			top := new(big.Int).Rsh(r, shift)
			t := new(big.Int).Sub(top, big.NewInt(int64(e.rng.Intn(64)))) // near the top of the range
			if i%4 == 3 || t.Sign() <= 0 {
				t = new(big.Int).Add(e.rng.BigBelow(top), one)
			}
			sc[i] = new(big.Int).Lsh(t, shift)
			sc[i].Mod(sc[i], r)
		case "runs": // a few full-size values, each repeated over a long run of consecutive entries: every entry of a run
			// wants the bucket the previous one is still waiting for (the batched-affine addition queues such conflicts)
			if i%max(n/100, 2) == 0 { // about 100 runs
				sc[i] = e.rng.BigBelow(r)
			} else {
				sc[i] = sc[i-1]
			}
		case "sorted-small": // sorted small values: runs of equal digits in the lowest window, zero elsewhere
			sc[i] = big.NewInt(int64(1 + i/max(n/100, 2)))
		case "half": // digits exactly 2^(c-1) boundary
			v := new(big.Int)
			for k := 0; k*int(c) < r.BitLen()-1; k++ {
				v.SetBit(v, k*int(c)+int(c)-1, 1)
			}
			sc[i] = v.Mod(v, r)
		default:
			sc[i] = e.rng.BigBelow(r)
		}
	}
	return sc
}

func shapePoints(e *env, shape string, n int) []int {
	idx := make([]int, n)
	np := len(e.pool)
	for i := range idx {
		switch shape {
		case "same":
			idx[i] = 1
		case "pairs": // P, -P alternating (pool is laid out as P_j at 2j+1, -P_j at 2j+2)
			idx[i] = 1 + 2*((i/2)%((np-1)/2)) + i%2
		case "infinity":
			idx[i] = e.iO
			if i%3 == 0 {
				idx[i] = 1 + e.rng.Intn(np-1)
			}
		default:
			idx[i] = 1 + e.rng.Intn(np-1)
		}
	}
	return idx
}

func runGroup(c *mon.Ctx, g *groups.Group) {
	N := g.Name
	if g.MultiExp == nil {
		return
	}
	if err := g.Bind(); err != nil {
		c.Fail(N+"/constants/validation", "%v", err)
		return
	}
	e := &env{c: c, g: g, rng: gen.New(c.Seed, "c04/"+N)}
	C := g.C
	f := g.F
	// pool: index 0 = O, then P_j, -P_j
	np := c.Pick(24, 64)
	e.ks = []*big.Int{new(big.Int)}
	e.pool = []ocurve.Pt{{Inf: true}}
	e.iO = 0
	acc := g.G
	kacc := big.NewInt(1)
	for j := 0; j < np/2; j++ {
		var k *big.Int
		var p ocurve.Pt
		if j < 6 { // small multiples 1..6 (so that P_a + P_b = P_c collisions and doublings occur in buckets)
			k = new(big.Int).Set(kacc)
			p = acc
			acc = C.Add(acc, g.G)
			kacc = new(big.Int).Add(kacc, one)
		} else {
			k = e.rng.BigBelow(g.R)
			p = C.Mul(g.G, k)
		}
		e.ks = append(e.ks, k, new(big.Int).Sub(g.R, k))
		e.pool = append(e.pool, p, C.Neg(p))
	}
	reps := make([]groups.Rep, len(e.pool))
	for i, p := range e.pool {
		reps[i] = g.Rep(p, "aff", f.One())
	}
	g.MSMSetPool(reps)
	race := *mode == "race"
	sizes := []int{0, 1, 2, 3, 17, 255, 1000, 4096, 6001}
	if c.Thorough() && !race {
		sizes = append(sizes, 1<<14, 1<<16)
		if f.Deg() > 1 {
			sizes = sizes[:len(sizes)-1]
		}
	}
	if race {
		sizes = []int{0, 3, 300, 5000}
	}
	scShapes := []string{"random", "zero", "one", "r-1", "small", "single-digit", "top-carry", "half", "runs", "sorted-small"}
	ptShapes := []string{"distinct", "same", "pairs", "infinity"}
	tasks := []int{-1, 0, 1, 2, 3, 15, 16, 17, 64, 1024}
	procs := []int{1, 2, 3, 8, 16}
	if race {
		tasks = []int{0, 1, 3, 17}
		procs = []int{2, 16}
	}
	limit := 60 * time.Second
	caseNo := 0
	check := func(what, key, cls string, got groups.Rep, err error, want ocurve.Pt, desc func() string) {
		if err == groups.ErrInputModified {
			c.Fail(key+"/input-modified", "%s", desc())
			return
		}
		if !c.Check(what, key+"/unexpected-error", err == nil, func() string { return fmt.Sprintf("%s: %v", desc(), err) }) {
			return
		}
		gp := g.Pt(got)
		c.Check(what, key+"/mismatch/"+cls, C.Eq(gp, want), func() string {
			return fmt.Sprintf("%s = %s, oracle %s", desc(), C.String(gp), C.String(want))
		})
	}
	for _, n := range sizes {
		for si, ss := range scShapes {
			for pi, ps := range ptShapes {
				// quick tier: a Latin-square style subset of (scalar shape x point shape) per size, all pairs covered across sizes
				runShape := (ss == "runs" || ss == "sorted-small") && ps == "distinct" && n >= 1000 // always with distinct points
				if !c.Thorough() && n > 17 && (si+pi+n)%3 != 0 && !runShape {
					continue
				}
				if race && (si+pi+n)%6 != 0 && !(runShape && n >= 5000) {
					continue
				}
				cwin := uint64(4)
				if n > 0 {
					cwin = bestC(n, g.FrBits)
				}
				sc := shapeScalars(e, ss, n, cwin)
				idx := shapePoints(e, ps, n)
				want := e.expected(idx, sc)
				cls := fmt.Sprintf("n%d/%s/%s", n, ss, ps)
				// rotate task counts / GOMAXPROCS / variants over the cases; small n: all task counts
				tlist := tasks
				if n > 300 && !c.Thorough() {
					tlist = []int{tasks[caseNo%len(tasks)], tasks[(caseNo+3)%len(tasks)], 1, 3}
				}
				for ti, nb := range tlist {
					gmp := procs[(caseNo+ti)%len(procs)]
					variant := []string{"jac", "aff"}[(caseNo+ti)%2]
					prev := runtime.GOMAXPROCS(gmp)
					key := N + "/MultiExp"
					desc := func() string {
						return fmt.Sprintf("MultiExp[%s](n=%d scalars=%s points=%s NbTasks=%d GOMAXPROCS=%d)", variant, n, ss, ps, nb, gmp)
					}
					c.Current(desc())
					for rep := 0; rep < 2; rep++ {
						var out groups.Rep
						var err error
						if !mon.Watch(c, key, desc, limit, func() { out, err = g.MultiExp(idx, sc, nb, variant) }, n) {
							runtime.GOMAXPROCS(prev)
							return
						}
						check("MultiExp", key, cls, out, err, want, desc)
						if n < 100 {
							break
						}
					}
					runtime.GOMAXPROCS(prev)
					c.Class(fmt.Sprintf("%s/MultiExp/%s/tasks%d/procs%d", N, cls, nb, gmp))
				}
				caseNo++
			}
		}
	}
	// the regime in which the routine picks its largest window on its own (more than about 2^18.8 points; the forced
	// window sizes below go through the inner routine and never through that choice)
	if !race && (c.Thorough() || (f.Deg() == 1 && g.FrBits <= 256)) {
		n := 1<<19 + 1
		hs, ht := []string{"random"}, []int{0}
		if c.Thorough() {
			hs, ht = []string{"random", "small"}, []int{0, 16, 3}
		}
		for hi, ss := range hs {
			sc := shapeScalars(e, ss, n, bestC(n, g.FrBits))
			idx := shapePoints(e, "distinct", n)
			want := e.expected(idx, sc)
			for ti, nb := range ht {
				variant := []string{"jac", "aff"}[(hi+ti)%2]
				key := N + "/MultiExp"
				desc := func() string {
					return fmt.Sprintf("MultiExp[%s](n=%d scalars=%s points=distinct NbTasks=%d)", variant, n, ss, nb)
				}
				c.Current(desc())
				var out groups.Rep
				var err error
				if !mon.Watch(c, key, desc, 5*limit, func() { out, err = g.MultiExp(idx, sc, nb, variant) }, n) {
					return
				}
				check("MultiExp", key, fmt.Sprintf("n%d/%s/distinct", n, ss), out, err, want, desc)
				c.Class(fmt.Sprintf("%s/MultiExp/n%d/%s/tasks%d", N, n, ss, nb))
			}
		}
	}
	c.SampleOnce(N, map[string]any{"group": N, "n": 1000, "scalars": "small", "points": "pairs", "NbTasks": 3, "expected": "one oracle multiplication of G by sum s_i*k_i mod r"})
	// error reporting
	{
		idx := shapePoints(e, "distinct", 5)
		sc := shapeScalars(e, "random", 4, 4)
		_, err := g.MultiExp(idx, sc, 0, "jac")
		c.Check("MultiExp", N+"/MultiExp/missing-error/length-mismatch", err != nil && err != groups.ErrInputModified, func() string { return "5 points, 4 scalars: no error" })
		_, err = g.MultiExp(idx, sc, 0, "aff")
		c.Check("MultiExp", N+"/MultiExp/missing-error/length-mismatch", err != nil && err != groups.ErrInputModified, func() string { return "5 points, 4 scalars (affine receiver): no error" })
		// the length contract in both directions, at sizes below and above the thresholds where the routine splits
		// the work, with every kind of task count and both receivers
		for _, pq := range [][2]int{{0, 1}, {1, 0}, {1, 2}, {2, 1}, {4, 5}, {33, 32}, {32, 33}, {600, 601}, {601, 600}, {600, 1200}} {
			if race && pq[0]+pq[1] > 100 {
				continue
			}
			idx := shapePoints(e, "distinct", pq[0])
			sc := shapeScalars(e, "random", pq[1], 4)
			for _, nb := range []int{0, 1, 3, 64} {
				for _, variant := range []string{"jac", "aff"} {
					var err error
					if c.Guard(N+"/MultiExp/panic/length-mismatch", func() string { return fmt.Sprintf("%d points, %d scalars, NbTasks=%d, %s receiver", pq[0], pq[1], nb, variant) }, func() {
						_, err = g.MultiExp(idx, sc, nb, variant)
					}) {
						continue
					}
					c.Check("MultiExp", N+"/MultiExp/missing-error/length-mismatch", err != nil && err != groups.ErrInputModified, func() string {
						return fmt.Sprintf("%d points, %d scalars, NbTasks=%d, %s receiver: no error", pq[0], pq[1], nb, variant)
					})
					c.Class(fmt.Sprintf("%s/MultiExp/length-mismatch/%dx%d", N, pq[0], pq[1]))
				}
			}
		}
		sc = shapeScalars(e, "random", 5, 4)
		for _, nb := range []int{1025, 2048, 1 << 20} {
			_, err = g.MultiExp(idx, sc, nb, "jac")
			c.Check("MultiExp", N+"/MultiExp/missing-error/NbTasks>1024", err != nil && err != groups.ErrInputModified, func() string { return fmt.Sprintf("NbTasks=%d: no error", nb) })
			_, err = g.Fold(idx, big.NewInt(3), nb, "jac")
			c.Check("Fold", N+"/Fold/missing-error/NbTasks>1024", err != nil, func() string { return fmt.Sprintf("Fold NbTasks=%d: no error", nb) })
		}
		_, err = g.MultiExp(idx, sc, 1024, "jac")
		c.Check("MultiExp", N+"/MultiExp/unexpected-error", err == nil, func() string { return fmt.Sprintf("NbTasks=1024: %v", err) })
	}
	// Fold: sum coeff^i P_i
	for _, n := range []int{0, 1, 2, 3, 33, 500} {
		if race && n > 33 {
			continue
		}
		for ci, coeff := range []*big.Int{big.NewInt(0), big.NewInt(1), new(big.Int).Sub(g.R, one), big.NewInt(2), e.rng.BigBelow(g.R)} {
			for _, ps := range []string{"distinct", "same", "pairs"} {
				idx := shapePoints(e, ps, n)
				sc := make([]*big.Int, n)
				pw := big.NewInt(1)
				for i := range sc {
					sc[i] = new(big.Int).Set(pw)
					pw.Mul(pw, coeff).Mod(pw, g.R)
				}
				want := e.expected(idx, sc)
				for _, nb := range []int{0, 1, 3} {
					variant := []string{"jac", "aff"}[(n+ci+nb)%2]
					desc := func() string {
						return fmt.Sprintf("Fold[%s](n=%d coeff=%s points=%s NbTasks=%d)", variant, n, coeff, ps, nb)
					}
					var out groups.Rep
					var err error
					if !mon.Watch(c, N+"/Fold", desc, limit, func() { out, err = g.Fold(idx, coeff, nb, variant) }, n) {
						return
					}
					check("Fold", N+"/Fold", fmt.Sprintf("n%d/c%d/%s", n, ci, ps), out, err, want, desc)
				}
				c.Class(fmt.Sprintf("%s/Fold/n%d/c%d/%s", N, n, ci, ps))
			}
		}
	}
	// forced window sizes through the shim: both processors, every c
	nInner := c.Pick(2000, 6000)
	if race {
		nInner = 700
	}
	for _, cw := range g.MSMWindows {
		for _, ss := range []string{"random", "small", "top-carry", "half", "single-digit", "top-only"} {
			if (race || !c.Thorough()) && ss != "random" && ss != "top-only" && (int(cw)+len(ss))%3 != 0 {
				continue
			}
			for _, ps := range []string{"distinct", "pairs", "infinity"} {
				if ps == "infinity" && ss != "random" && !c.Thorough() {
					continue // points at infinity mixed into the input: every window size / bucket method, random scalars
				}
				sc := shapeScalars(e, ss, nInner, cw)
				idx := shapePoints(e, ps, nInner)
				want := e.expected(idx, sc)
				for _, nb := range []int{1, 3, 16, 40} {
					if race && nb != 3 && nb != 16 {
						continue
					}
					if (int(cw)+nb)%2 == 0 && !c.Thorough() {
						continue
					}
					desc := func() string {
						return fmt.Sprintf("_innerMsm(c=%d n=%d scalars=%s points=%s NbTasks=%d)", cw, nInner, ss, ps, nb)
					}
					c.Current(desc())
					var out groups.Rep
					if !mon.Watch(c, N+"/innerMsm", desc, limit, func() { out = g.InnerMsm(cw, idx, sc, nb) }, nInner) {
						return
					}
					check("innerMsm", N+"/innerMsm", fmt.Sprintf("c%d/%s/%s", cw, ss, ps), out, nil, want, desc)
				}
				c.Class(fmt.Sprintf("%s/innerMsm/c%d/%s/%s", N, cw, ss, ps))
			}
		}
	}
	// signed-digit recoding identity
	if g.PartitionScalars != nil && !race {
		for _, cw := range g.MSMWindows {
			var sc []*big.Int
			for _, ss := range []string{"random", "zero", "one", "r-1", "small", "single-digit", "top-carry", "half"} {
				sc = append(sc, shapeScalars(e, ss, 12, cw)...)
			}
			for _, nb := range []int{1, 16} {
				digits := g.PartitionScalars(sc, cw, nb)
				nbChunks := (g.FrBits + int(cw) - 1) / int(cw)
				ok := len(digits) == nbChunks*len(sc)
				bad := -1
				for i := 0; ok && i < len(sc); i++ {
					v := new(big.Int)
					for ch := nbChunks - 1; ch >= 0; ch-- {
						b := digits[ch*len(sc)+i]
						d := int64(b >> 1)
						if b&1 == 1 {
							d = -d - 1
						}
						v.Lsh(v, uint(cw))
						v.Add(v, big.NewInt(d))
					}
					if v.Cmp(sc[i]) != 0 {
						ok = false
						bad = i
					}
				}
				c.Check("partitionScalars", fmt.Sprintf("%s/partitionScalars/recoding-identity/c%d", N, cw), ok, func() string {
					return fmt.Sprintf("c=%d nbTasks=%d: sum digit_j 2^(cj) != scalar for entry %d (%v)", cw, nb, bad, sc[max0(bad)])
				})
			}
			c.Class(fmt.Sprintf("%s/partitionScalars/c%d", N, cw))
		}
	}
}

func max0(i int) int {
	if i < 0 {
		return 0
	}
	return i
}

// bestC mirrors the documented cost model only to aim scalar shapes at window boundaries (an input generator, not an oracle).
func bestC(n, frBits int) uint64 {
	best, min := uint64(4), 1e300
	for c := 4; c <= 16; c++ {
		cost := float64((frBits+1)*(n+(1<<c))) / float64(c)
		if cost < min {
			min, best = cost, uint64(c)
		}
	}
	return best
}

func main() {
	c := mon.Init("C04")
	var wg sync.WaitGroup
	// MSM changes GOMAXPROCS process-wide: run the groups sequentially
	for _, gi := range groups.All {
		if !mon.Selected(gi.Name) {
			continue
		}
		gi := gi
		wg.Add(1)
		func() {
			defer wg.Done()
			defer func() {
				if r := recover(); r != nil {
					c.Fail(gi.Name+"/harness/panic", "panic outside a guarded call: %v", r)
				}
			}()
			runGroup(c, gi.New())
		}()
	}
	wg.Wait()
	c.Extra("gomaxprocs_seen", []int{1, 2, 3, 8, 16})
	c.Extra("numcpu", runtime.NumCPU())
	c.Finish()
}
