// C19: receiver/operand aliasing. For every exported method z.Op(x, y, ...) of the arithmetic types
// (field elements, vectors, tower elements, points in every coordinate system, polynomials, multilinear
// tables) discovered by reflection, and every set partition of the positions {receiver, same-typed
// operands}, the call on aliased objects must give the result of the same call on pairwise-distinct
// copies holding the same values, and operands that are not the receiver must be left unchanged.
package main

import (
	"fmt"
	"math/big"
	"reflect"
	"runtime"
	"sort"
	"strings"
	"sync"

	"verif/harness/adapt/fields"
	"verif/harness/adapt/groups"
	"verif/harness/adapt/te"
	"verif/harness/adapt/towers"
	"verif/harness/adapt/towertypes"
	"verif/harness/gen"
	"verif/harness/mon"
	"verif/harness/oracle/ocurve"
	"verif/harness/oracle/ofield"
	"verif/harness/oracle/oted"
)

// entry is one arithmetic type with a deterministic sampler: Sample(i, shape) returns a pointer to a fresh
// object; equal (i, shape) give equal values. Shapes are lengths for slice types.
type entry struct {
	Name   string
	Sample func(i, shape int) any
	Shapes int
}

var (
	regMu   sync.Mutex
	entries []*entry
	byType  = map[reflect.Type]*entry{} // struct/slice type -> entry
)

func register(e *entry) {
	regMu.Lock()
	defer regMu.Unlock()
	entries = append(entries, e)
	byType[reflect.TypeOf(e.Sample(0, 0)).Elem()] = e
}

// hashInt: deterministic pseudo-random big integers from (seed, i, k)
func hashInt(seed int64, tag string, i, k int, mod *big.Int) *big.Int {
	r := gen.New(seed, fmt.Sprintf("c19/%s/%d/%d", tag, i, k))
	return r.BigBelow(mod)
}

var vecLens = []int{0, 1, 2, 5, 16, 17, 24, 31, 33, 47, 100}

// run registers the Element and Vector entries of one field (called from zz_fields_all.go).
func run[E any, P fields.Ptr[E]](c *mon.Ctx, f *fields.Field[E, P]) {
	seed := c.Seed
	q := f.Modulus
	val := func(i, k int) *big.Int {
		switch i {
		case 0:
			return new(big.Int)
		case 1:
			return big.NewInt(1)
		case 2:
			return new(big.Int).Sub(q, big.NewInt(1))
		}
		return hashInt(seed, f.Name, i, k, q)
	}
	register(&entry{Name: f.Name + ".Element", Shapes: 1, Sample: func(i, shape int) any {
		e := f.FromValue(val(i, 0))
		return &e
	}})
	// Vector: methods are on *Vector with Vector params; find the named slice type through VecSum's closure is not
	// possible, so use the generic []E and convert by reflection in the engine (named type discovered from a method).
	vt := vectorType[E, P](f)
	if vt != nil {
		register(&entry{Name: f.Name + ".Vector", Shapes: len(vecLens), Sample: func(i, shape int) any {
			n := vecLens[shape%len(vecLens)]
			v := reflect.MakeSlice(vt, n, n)
			for k := 0; k < n; k++ {
				e := f.FromValue(val(i+3, k))
				v.Index(k).Set(reflect.ValueOf(e))
			}
			p := reflect.New(vt)
			p.Elem().Set(v)
			return p.Interface()
		}})
	}
}

// vectorType finds the named Vector type of a field package through the element's package path (registered types table).
func vectorType[E any, P fields.Ptr[E]](f *fields.Field[E, P]) reflect.Type {
	if t, ok := vectorTypes[f.Name]; ok {
		return t
	}
	return nil
}

func groupEntries(c *mon.Ctx) {
	for _, gi := range groups.All {
		g := gi.New()
		if err := g.Bind(); err != nil {
			c.Fail(g.Name+"/constants/validation", "%v", err)
			continue
		}
		rng := gen.New(c.Seed, "c19/"+g.Name)
		C := g.C
		pool := []ocurve.Pt{{Inf: true}, g.G, C.Double(g.G), C.Neg(g.G), C.Mul(g.G, rng.BigBelow(g.R)), C.Mul(g.G, rng.BigBelow(g.R)), C.Neg(C.Double(g.G))}
		zs := make([]ofield.El, 8)
		for i := range zs {
			z := g.F.Zero()
			for k := range z {
				z[k] = rng.BigBelow(g.P)
			}
			if i == 0 || g.F.IsZero(z) {
				z = g.F.One()
			}
			zs[i] = z
		}
		for _, sys := range []string{"aff", "jac"} {
			sys := sys
			g := g
			register(&entry{Name: g.Name + "." + sys, Shapes: 1, Sample: func(i, shape int) any {
				return g.Lib(g.Rep(pool[i%len(pool)], sys, zs[i%len(zs)]))
			}})
		}
	}
	for _, ci := range te.All {
		g := ci.New()
		if err := g.Bind(); err != nil {
			c.Fail(g.Name+"/constants/validation", "%v", err)
			continue
		}
		rng := gen.New(c.Seed, "c19/"+g.Name)
		C := g.C
		pool := []oted.Pt{C.Zero(), g.B, C.Double(g.B), C.Neg(g.B), C.Mul(g.B, rng.BigBelow(g.Order)), C.Mul(g.B, rng.BigBelow(g.Order))}
		zs := make([]ofield.El, 8)
		for i := range zs {
			zs[i] = ofield.El{rng.BigBelow(g.Q)}
			if i == 0 || g.F.IsZero(zs[i]) {
				zs[i] = g.F.One()
			}
		}
		for _, sys := range []string{"aff", "proj", "ext"} {
			sys := sys
			g := g
			register(&entry{Name: g.Name + "." + sys, Shapes: 1, Sample: func(i, shape int) any {
				return g.Lib(g.Rep(pool[i%len(pool)], sys, zs[i%len(zs)]))
			}})
		}
	}
}

func towerEntries(c *mon.Ctx) {
	for _, ti := range towertypes.All {
		tw := ti.New()
		for _, p := range tw.Types {
			T := reflect.TypeOf(p).Elem()
			deg := len(towers.Flatten(p))
			name := tw.Name + "." + T.Name()
			P := tw.P
			seed := c.Seed
			register(&entry{Name: name, Shapes: 1, Sample: func(i, shape int) any {
				v := make(ofield.El, deg)
				if i >= 9 && i <= 11 {
					// special classes that select rare branches (square roots, inverses, sparse products): an element of
					// the base field that is a non-residue there (9), -1 (10), an element with only its second
					// coordinate set (11)
					for k := range v {
						v[k] = new(big.Int)
					}
					switch i {
					case 9:
						nr := big.NewInt(2)
						for big.Jacobi(nr, P) != -1 {
							nr.Add(nr, big.NewInt(1))
						}
						v[0] = nr
					case 10:
						v[0] = new(big.Int).Sub(P, big.NewInt(1))
					default:
						v[1%deg] = hashInt(seed, name, i, 1, P)
					}
					np := reflect.New(T)
					towers.Unflatten(np.Interface(), v)
					return np.Interface()
				}
				for k := range v {
					switch {
					case i == 0:
						v[k] = new(big.Int)
					case i == 1:
						v[k] = new(big.Int)
						if k == 0 {
							v[k].SetInt64(1)
						}
					case i%5 == 2 && k%2 == 1: // sparse
						v[k] = new(big.Int)
					default:
						v[k] = hashInt(seed, name, i, k, P)
					}
				}
				np := reflect.New(T)
				towers.Unflatten(np.Interface(), v)
				return np.Interface()
			}})
		}
	}
}

// ---------------- engine ----------------

var skip = map[string]bool{"SetRandom": true, "MustSetRandom": true, "String": true, "Text": true, "SetString": true, "SetInterface": true,
	"UnmarshalJSON": true, "MarshalJSON": true, "Unmarshal": true, "UnmarshalBinary": true, "MarshalBinary": true, "ReadFrom": true, "WriteTo": true,
	"AsyncReadFrom": true, "SetBytes": true, "SetBytesCanonical": true, "Bytes": true, "RawBytes": true, "Marshal": true, "Less": true, "Swap": true, "Len": true,
	"FoldParallel": true,
	// the pointer argument of these is the documented destination, not an operand
	"BigInt": true, "ToBigIntRegular": true}

var bigPtrT = reflect.TypeOf((*big.Int)(nil))

// lateInts remembers every *big.Int handed to the library as an input together with its value: an input must not be
// kept by the library and rewritten by a later call either (pooled temporaries), so all of them are compared again
// when the run of a type is over.
type lateInt struct {
	p    *big.Int
	want *big.Int
	key  string
}

var (
	lateMu   sync.Mutex
	lateInts = map[string][]lateInt{}
)

func rememberInt(entry, key string, p *big.Int) {
	lateMu.Lock()
	lateInts[entry] = append(lateInts[entry], lateInt{p, new(big.Int).Set(p), key})
	lateMu.Unlock()
}

func checkLateInts(c *mon.Ctx, entry string) {
	lateMu.Lock()
	l := lateInts[entry]
	delete(lateInts, entry)
	lateMu.Unlock()
	bad := map[string]bool{}
	for _, x := range l {
		if x.p.Cmp(x.want) != 0 && !bad[x.key] {
			bad[x.key] = true
			c.Fail(entry+"/input-argument-modified-by-a-later-call", "a *big.Int that was passed as an input to %s (value %s) holds %s after later calls on other objects: the library kept it", x.key, x.want, x.p)
		}
	}
	c.Eval(entry+"/late-input-check", len(l))
}

type meth struct {
	e     *entry
	T     reflect.Type // struct or slice type
	m     reflect.Method
	alias []int // parameter indexes (1-based in m.Type.In) that may alias the receiver
}

// otherArg builds a value for a parameter that is not an alias candidate; ok=false when unsupported.
func otherArg(t reflect.Type, k int, shape int, variant ...int) (reflect.Value, bool) {
	switch {
	case t == bigPtrT:
		v := int64(5 + 3*k)
		if len(variant) > 0 {
			v += 7 * int64(variant[0]) // different magnitudes from call to call: a temporary that is reused shows
			switch variant[0] % 4 {
			case 1:
				v = -v // negative exponents / scalars take their own branch (inverse, negation of a copy)
			case 2:
				v = 0
			case 3:
				return reflect.ValueOf(new(big.Int).Neg(new(big.Int).Lsh(big.NewInt(int64(3+k)), 70))), true
			}
		}
		return reflect.ValueOf(big.NewInt(v)), true
	case t.Kind() == reflect.Int:
		return reflect.ValueOf(k % 3).Convert(t), true
	case t.Kind() == reflect.Uint64 || t.Kind() == reflect.Uint32 || t.Kind() == reflect.Uint:
		return reflect.ValueOf(uint64(k%3 + 1)).Convert(t), true
	case t.Kind() == reflect.Bool:
		return reflect.ValueOf(k%2 == 0), true
	case t.Kind() == reflect.Pointer:
		if e, ok := byType[t.Elem()]; ok {
			return reflect.ValueOf(e.Sample(5+k, shape)), true
		}
	default:
		if e, ok := byType[t]; ok {
			return reflect.ValueOf(e.Sample(5+k, shape)).Elem(), true
		}
	}
	return reflect.Value{}, false
}

// partitions of n positions as restricted growth strings
func partitions(n int) [][]int {
	var out [][]int
	cur := make([]int, n)
	var rec func(i, maxb int)
	rec = func(i, maxb int) {
		if i == n {
			out = append(out, append([]int(nil), cur...))
			return
		}
		for b := 0; b <= maxb+1; b++ {
			cur[i] = b
			nm := maxb
			if b > maxb {
				nm = b
			}
			rec(i+1, nm)
		}
	}
	cur[0] = 0
	rec(1, 0)
	return out
}

func clonePtr(p reflect.Value) reflect.Value {
	n := reflect.New(p.Type().Elem())
	if p.Elem().Kind() == reflect.Slice {
		s := reflect.MakeSlice(p.Elem().Type(), p.Elem().Len(), p.Elem().Len())
		reflect.Copy(s, p.Elem())
		n.Elem().Set(s)
	} else {
		n.Elem().Set(p.Elem())
	}
	return n
}

func same(a, b reflect.Value) bool { // a, b pointers to T
	if m := a.MethodByName("Equal"); m.IsValid() && m.Type().NumIn() == 1 && m.Type().NumOut() == 1 && m.Type().Out(0).Kind() == reflect.Bool {
		in := m.Type().In(0)
		if in == a.Type() {
			return m.Call([]reflect.Value{b})[0].Bool()
		}
		if in == a.Type().Elem() {
			return m.Call([]reflect.Value{b.Elem()})[0].Bool()
		}
	}
	return reflect.DeepEqual(a.Elem().Interface(), b.Elem().Interface())
}

func show(p reflect.Value) string {
	s := fmt.Sprintf("%v", p.Elem().Interface())
	if len(s) > 160 {
		s = s[:160] + "…"
	}
	return s
}

func runEntry(c *mon.Ctx, e *entry, skipped map[string]bool) {
	sp := reflect.ValueOf(e.Sample(0, 0))
	T := sp.Type().Elem()
	pT := sp.Type()
	for mi := 0; mi < pT.NumMethod(); mi++ {
		m := pT.Method(mi)
		if skip[m.Name] {
			continue
		}
		mt := m.Type
		var alias []int
		supported := true
		for k := 1; k < mt.NumIn(); k++ {
			in := mt.In(k)
			if in == pT || (T.Kind() == reflect.Slice && in == T) {
				alias = append(alias, k)
				continue
			}
			if _, ok := otherArg(in, k, 0); !ok {
				supported = false
			}
		}
		if len(alias) == 0 {
			// nothing can alias; the method is still run (receiver alone) when it takes other inputs by pointer
			// (*big.Int exponents / scalars): they are operands that must be left unchanged
			hasPtrInput := false
			for k := 1; k < mt.NumIn(); k++ {
				if mt.In(k).Kind() == reflect.Pointer {
					hasPtrInput = true
				}
			}
			if !hasPtrInput || !supported || mt.IsVariadic() {
				continue
			}
		}
		if !supported || mt.IsVariadic() {
			skipped[e.Name+"."+m.Name] = true
			continue
		}
		key := e.Name + "." + m.Name
		recvIsInput := probeReceiverIsInput(e, m, alias)
		if len(alias) > 0 && !recvIsInput {
			overlapCases(c, e, m, key, alias)
		}
		parts := partitions(1 + len(alias))
		for shape := 0; shape < e.Shapes; shape++ {
			for _, part := range parts {
				nblocks := 0
				for _, b := range part {
					if b+1 > nblocks {
						nblocks = b + 1
					}
				}
				if nblocks == len(part) && shape > 0 && T.Kind() != reflect.Slice {
					continue
				}
				// value assignments: a few choices of distinct / equal values per block
				for va0 := 0; va0 < c.Pick(9, 52); va0++ {
					vals := make([]int, nblocks)
					va := va0
					if va0 >= 9 {
						va = va0 - 2
					}
					for b := range vals {
						if va0 == 7 || va0 == 8 { // the other two rotations of the special values: every block holds 0 once,
							// also the block that several argument positions share (0/0, O+O, the zero polynomial)
							vals[b] = (b + 2*(va0-7)) % 3
							continue
						}
						if va >= 4 && va <= 6 { // special classes of the type (towers: indexes 9..11, see towerEntries)
							vals[b] = 9 + (va+b)%3
							continue
						}
						if va >= 7 { // thorough: further generic / special mixtures
							vals[b] = (va*7 + (3+va/23)*b) % 23
							continue
						}
						switch va {
						case 0:
							vals[b] = 3 + b // distinct generic values
						case 1:
							vals[b] = 3 // equal values in distinct objects
						case 2:
							vals[b] = (b + 1) % 3 // special values 0,1,q-1 / O,G,2G
						default:
							vals[b] = 4 + 2*b
						}
					}
					runCase(c, e, m, key, alias, part, vals, shape, recvIsInput)
				}
				c.Class(fmt.Sprintf("%s/partition%v/shape%d", key, part, shape))
			}
		}
		// methods taking *big.Int inputs: a burst of simultaneous calls with negative and positive values from several
		// goroutines. Temporaries of such routines live in sync.Pools; objects that were wrongly put there (a caller's
		// exponent) sit in the shared part of the pool and are only handed out again when several Gets are outstanding
		// at once - after the burst the late check of the remembered inputs sees them rewritten.
		hasBig := false
		for k := 1; k < mt.NumIn(); k++ {
			hasBig = hasBig || mt.In(k) == bigPtrT
		}
		if hasBig {
			var wg sync.WaitGroup
			for g := 0; g < 64; g++ {
				wg.Add(1)
				go func(g int) {
					defer wg.Done()
					defer func() { _ = recover() }()
					for rep := 0; rep < 8; rep++ {
						runtime.Gosched()
						recv := reflect.ValueOf(e.Sample(3+g%3, 0))
						args := make([]reflect.Value, mt.NumIn()-1)
						ai := 0
						for k := 1; k < mt.NumIn(); k++ {
							isAlias := false
							for _, a := range alias {
								if a == k {
									isAlias = true
								}
							}
							switch {
							case isAlias:
								o := reflect.ValueOf(e.Sample(4+ai, 0))
								ai++
								if mt.In(k).Kind() == reflect.Pointer {
									args[k-1] = o
								} else {
									args[k-1] = o.Elem()
								}
							default:
								v, _ := otherArg(mt.In(k), k, 0, 4*(g+rep)+1+2*(rep%2)) // negative values of many magnitudes
								args[k-1] = v
							}
						}
						r := recv
						if mt.In(0).Kind() != reflect.Pointer {
							r = recv.Elem()
						}
						r.MethodByName(m.Name).Call(args)
					}
				}(g)
			}
			wg.Wait()
		}
	}
}

// overlapCases: slice types only. The receiver and one operand are views of different lengths into one array (p :=
// q[:k], or q := p[:k]): not the same object, so the operand is "an operand other than the receiver" and must come out
// unchanged, and the receiver must get the value it gets with separate arrays.
func overlapCases(c *mon.Ctx, e *entry, m reflect.Method, key string, alias []int) {
	mt := m.Type
	T := mt.In(0).Elem()
	if T.Kind() != reflect.Slice {
		return
	}
	for shape := 0; shape < e.Shapes; shape++ {
		for _, apos := range alias {
			for dir := 0; dir < 2; dir++ {
				full := reflect.ValueOf(e.Sample(4, shape)) // *T
				n := full.Elem().Len()
				if n < 2 {
					continue
				}
				k := n / 2
				mk := func(overlap bool) (recv reflect.Value, args []reflect.Value, operand reflect.Value) {
					base := reflect.ValueOf(e.Sample(4, shape))
					short := reflect.New(T)
					if overlap {
						short.Elem().Set(base.Elem().Slice(0, k)) // capacity runs to the end of base
					} else {
						cp := reflect.MakeSlice(T, k, n)
						reflect.Copy(cp, base.Elem().Slice(0, k))
						short.Elem().Set(cp)
					}
					if dir == 0 {
						recv, operand = short, base // receiver is a prefix view of the operand
					} else {
						recv, operand = base, short // operand is a prefix view of the receiver
					}
					args = make([]reflect.Value, mt.NumIn()-1)
					oi := 0
					for kk := 1; kk < mt.NumIn(); kk++ {
						isAlias := false
						for _, a := range alias {
							if a == kk {
								isAlias = true
							}
						}
						switch {
						case kk == apos:
							if mt.In(kk).Kind() == reflect.Pointer {
								args[kk-1] = operand
							} else {
								args[kk-1] = operand.Elem()
							}
						case isAlias:
							o := reflect.ValueOf(e.Sample(6+oi, shape))
							oi++
							if mt.In(kk).Kind() == reflect.Pointer {
								args[kk-1] = o
							} else {
								args[kk-1] = o.Elem()
							}
						default:
							v, _ := otherArg(mt.In(kk), kk, shape)
							args[kk-1] = v
						}
					}
					return
				}
				call := func(recv reflect.Value, args []reflect.Value) (pan any) {
					defer func() { pan = recover() }()
					recv.MethodByName(m.Name).Call(args)
					return
				}
				rr, ra, _ := mk(false)
				if call(rr, ra) != nil {
					continue // outside the contract (length mismatch)
				}
				or, oa, oop := mk(true)
				opBefore := reflect.MakeSlice(T, oop.Elem().Len(), oop.Elem().Len())
				reflect.Copy(opBefore, oop.Elem())
				desc := func() string {
					return fmt.Sprintf("%s, operand %d and receiver views of one array (dir %d: 0 = receiver is operand[:%d], 1 = operand is receiver[:%d]), shape %d", key, apos, dir, k, k, shape)
				}
				c.Eval(key, 1)
				if p := call(or, oa); p != nil {
					c.Fail(key+"/panic-when-overlapping", "%s: panics only when the slices overlap: %v", desc(), p)
					continue
				}
				if !same(or, rr) {
					c.Fail(key+"/overlapping-result-differs", "%s: receiver = %s, with separate arrays = %s", desc(), show(or), show(rr))
					continue
				}
				if dir == 0 && !reflect.DeepEqual(oop.Elem().Interface(), opBefore.Interface()) {
					c.Fail(key+"/operand-modified/overlapping-view", "%s: the operand (not the receiver object) was modified: %s", desc(), show(oop))
				}
				c.Class(fmt.Sprintf("%s/overlap/%d/%d", key, apos, dir))
			}
		}
	}
}

// probeReceiverIsInput runs the method on generic, pairwise distinct operands with two different receiver contents: if
// the resulting receivers differ (or a call panics) the receiver is one of the inputs (in-place methods such as
// AddAssign, AddMixed); otherwise it is a pure destination. Generic operands only: special values are what the cases
// themselves are for.
func probeReceiverIsInput(e *entry, m reflect.Method, alias []int) bool {
	mt := m.Type
	recvIsPtr := mt.In(0).Kind() == reflect.Pointer
	for shape := 0; shape < e.Shapes && shape < 3; shape++ {
		var res [2]reflect.Value
		for r := 0; r < 2; r++ {
			recv := reflect.ValueOf(e.Sample(15+r, shape))
			args := make([]reflect.Value, mt.NumIn()-1)
			ai := 0
			for k := 1; k < mt.NumIn(); k++ {
				isAlias := false
				for _, a := range alias {
					if a == k {
						isAlias = true
					}
				}
				if isAlias {
					o := reflect.ValueOf(e.Sample(3+ai, shape))
					ai++
					if mt.In(k).Kind() == reflect.Pointer {
						args[k-1] = o
					} else {
						args[k-1] = o.Elem()
					}
				} else {
					v, ok := otherArg(mt.In(k), k, shape)
					if !ok {
						return true
					}
					args[k-1] = v
				}
			}
			panicked := false
			func() {
				defer func() {
					if recover() != nil {
						panicked = true
					}
				}()
				rr := recv
				if !recvIsPtr {
					rr = recv.Elem()
				}
				rr.MethodByName(m.Name).Call(args)
			}()
			if panicked {
				return true
			}
			res[r] = recv
		}
		if !same(res[0], res[1]) {
			return true
		}
	}
	return false
}

func runCase(c *mon.Ctx, e *entry, m reflect.Method, key string, alias, part, vals []int, shape int, recvIsInput bool) {
	mt := m.Type
	recvIsPtr := mt.In(0).Kind() == reflect.Pointer
	variant := 0
	for _, v := range vals {
		variant += v
	}
	plainRecv := false // reference run with the receiver holding the same value as in the aliased run
	build := func(aliased bool) (recv reflect.Value, args []reflect.Value, objs []reflect.Value) {
		objs = make([]reflect.Value, len(part)) // pointer per position
		if aliased {
			blocks := map[int]reflect.Value{}
			for pos, b := range part {
				if _, ok := blocks[b]; !ok {
					blocks[b] = reflect.ValueOf(e.Sample(vals[b], shape))
				}
				objs[pos] = blocks[b]
			}
		} else {
			for pos, b := range part {
				objs[pos] = reflect.ValueOf(e.Sample(vals[b], shape))
			}
			if !recvIsInput && !plainRecv {
				// the receiver is a pure destination for this method (probed in runEntry): in the reference run it starts
				// with unrelated content, so a method that leaves it untouched in some branch cannot pass by accident
				objs[0] = reflect.ValueOf(e.Sample(17+variant%3, shape))
			}
		}
		recv = objs[0]
		args = make([]reflect.Value, mt.NumIn()-1)
		ai := 1
		for k := 1; k < mt.NumIn(); k++ {
			isAlias := false
			for _, a := range alias {
				if a == k {
					isAlias = true
				}
			}
			if isAlias {
				if mt.In(k).Kind() == reflect.Pointer {
					args[k-1] = objs[ai]
				} else {
					args[k-1] = objs[ai].Elem() // slice header sharing the backing array
				}
				ai++
			} else {
				v, _ := otherArg(mt.In(k), k, shape, variant)
				args[k-1] = v
			}
		}
		return
	}
	call := func(recv reflect.Value, args []reflect.Value) (res []reflect.Value, pan any) {
		defer func() { pan = recover() }()
		r := recv
		if !recvIsPtr {
			r = recv.Elem()
		}
		res = r.MethodByName(m.Name).Call(args)
		return
	}
	desc := func() string {
		return fmt.Sprintf("%s with positions (receiver, operands) partition %v, value indexes %v, shape %d", key, part, vals, shape)
	}
	fr, fa, fobjs := build(false)
	before := make([]reflect.Value, len(fobjs))
	for i := range fobjs {
		before[i] = clonePtr(fobjs[i])
	}
	fres, fpan := call(fr, fa)
	ar, aa, aobjs := build(true)
	ares, apan := call(ar, aa)
	c.Eval(key, 1)
	if fpan != nil {
		return // the call on distinct objects panics: outside the contract for these values (e.g. length mismatch)
	}
	if apan != nil {
		// a method may refuse some receiver contents whatever the operands are (Polynomial.Add indexes an empty
		// receiver): the panic is only due to aliasing if distinct objects holding the same values do not panic
		plainRecv = true
		pr, pa, _ := build(false)
		if _, ppan := call(pr, pa); ppan != nil {
			return
		}
		c.Fail(key+"/panic-when-aliased/"+fmt.Sprint(part), "%s: panics only when aliased: %v", desc(), apan)
		return
	}
	// a nil pointer result means "no result, receiver left as it was" (documented for Sqrt of a non-residue): both runs
	// must agree on that, and then there is no value to compare
	if len(fres) > 0 && fres[0].Kind() == reflect.Pointer && len(ares) > 0 {
		if fres[0].IsNil() != ares[0].IsNil() {
			c.Fail(key+"/aliased-return-differs/"+fmt.Sprint(part), "%s: one call returned nil, the other did not", desc())
			return
		}
		if fres[0].IsNil() {
			return
		}
	}
	// receiver result
	if !same(ar, fr) {
		c.Fail(key+"/aliased-result-differs/"+fmt.Sprint(part), "%s: receiver after aliased call = %s, after call on distinct copies = %s", desc(), show(ar), show(fr))
		return
	}
	// other results
	for i := range fres {
		a, b := ares[i], fres[i]
		if a.Kind() == reflect.Pointer && !a.IsNil() && !b.IsNil() && a.Type().Elem() == ar.Type().Elem() {
			if !same(a, b) {
				c.Fail(key+"/aliased-return-differs/"+fmt.Sprint(part), "%s: returned %s vs %s", desc(), show(a), show(b))
			}
			continue
		}
		if a.Kind() == reflect.Chan || a.Kind() == reflect.Func {
			continue
		}
		if a.CanInterface() && !reflect.DeepEqual(a.Interface(), b.Interface()) {
			// returned struct/array values of an arithmetic type: compare through a pointer for Equal
			if _, ok := byType[a.Type()]; ok {
				pa, pb := reflect.New(a.Type()), reflect.New(a.Type())
				pa.Elem().Set(a)
				pb.Elem().Set(b)
				if same(pa, pb) {
					continue
				}
			}
			c.Fail(key+"/aliased-return-differs/"+fmt.Sprint(part), "%s: returned %v vs %v", desc(), a.Interface(), b.Interface())
		}
	}
	// arguments that are not alias candidates (*big.Int exponents and scalars, operands of other types) are inputs:
	// unchanged after both calls
	for k := 1; k < mt.NumIn(); k++ {
		isAlias := false
		for _, a := range alias {
			if a == k {
				isAlias = true
			}
		}
		if isAlias || mt.In(k).Kind() != reflect.Pointer {
			continue
		}
		ref, ok := otherArg(mt.In(k), k, shape, variant)
		if !ok {
			continue
		}
		for run, got := range []reflect.Value{fa[k-1], aa[k-1]} {
			eq := false
			if mt.In(k) == bigPtrT {
				eq = got.Interface().(*big.Int).Cmp(ref.Interface().(*big.Int)) == 0
				if eq {
					rememberInt(e.Name, key, got.Interface().(*big.Int))
				}
			} else {
				eq = reflect.DeepEqual(got.Elem().Interface(), ref.Elem().Interface())
			}
			if !eq {
				c.Fail(key+"/input-argument-modified", "%s: argument %d (%s) changed by the call (run %d: 0 = distinct objects, 1 = aliased): now %v, was %v", desc(), k, mt.In(k), run, got.Interface(), ref.Interface())
			}
		}
	}
	// operands that are not in the receiver's block must be unchanged (in both runs)
	for pos := 1; pos < len(part); pos++ {
		if part[pos] != part[0] {
			ref := reflect.ValueOf(e.Sample(vals[part[pos]], shape))
			if !reflect.DeepEqual(aobjs[pos].Elem().Interface(), ref.Elem().Interface()) {
				c.Fail(key+"/operand-modified/"+fmt.Sprint(part), "%s: operand %d changed to %s", desc(), pos, show(aobjs[pos]))
			}
		}
		if !reflect.DeepEqual(fobjs[pos].Elem().Interface(), before[pos].Elem().Interface()) {
			c.Fail(key+"/operand-modified/distinct", "%s: operand %d changed to %s by the call on distinct objects", desc(), pos, show(fobjs[pos]))
		}
	}
}

func main() {
	c := mon.Init("C19")
	for _, fl := range allFields {
		fl.fn(c) // registers Element + Vector entries
	}
	towerEntries(c)
	groupEntries(c)
	polyEntries(c)
	skipped := map[string]bool{}
	var mu sync.Mutex
	var wg sync.WaitGroup
	sem := make(chan struct{}, 16)
	for _, e := range entries {
		if !mon.Selected(e.Name) {
			continue
		}
		e := e
		wg.Add(1)
		go func() {
			defer wg.Done()
			sem <- struct{}{}
			defer func() { <-sem }()
			defer func() {
				if r := recover(); r != nil {
					c.Fail(e.Name+"/harness/panic", "panic outside a guarded call: %v", r)
				}
			}()
			sk := map[string]bool{}
			runEntry(c, e, sk)
			checkLateInts(c, e.Name)
			mu.Lock()
			for k := range sk {
				skipped[k] = true
			}
			mu.Unlock()
		}()
	}
	wg.Wait()
	var sk []string
	for k := range skipped {
		sk = append(sk, k)
	}
	sort.Strings(sk)
	c.Extra("methods_skipped_unsupported_parameter_types", sk)
	c.Extra("types", len(entries))
	c.SampleOnce("example", map[string]any{"method": "ecc/bn254/fr.Element.Add", "partitions": fmt.Sprint(partitions(3)), "meaning": "position 0 = receiver; equal numbers = same object"})
	_ = strings.TrimSpace
	c.Finish()
}
