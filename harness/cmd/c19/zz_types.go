// Code generated (see tools notes in main.go). DO NOT EDIT.

package main

import (
	"math/big"
	"reflect"

	f0 "github.com/consensys/gnark-crypto/ecc/bls12-377/fp"
	f1 "github.com/consensys/gnark-crypto/ecc/bls12-377/fr"
	r0 "github.com/consensys/gnark-crypto/ecc/bls12-377/fr"
	p0 "github.com/consensys/gnark-crypto/ecc/bls12-377/fr/polynomial"
	f2 "github.com/consensys/gnark-crypto/ecc/bls12-381/fp"
	f3 "github.com/consensys/gnark-crypto/ecc/bls12-381/fr"
	r1 "github.com/consensys/gnark-crypto/ecc/bls12-381/fr"
	p1 "github.com/consensys/gnark-crypto/ecc/bls12-381/fr/polynomial"
	f4 "github.com/consensys/gnark-crypto/ecc/bls24-315/fp"
	f5 "github.com/consensys/gnark-crypto/ecc/bls24-315/fr"
	r2 "github.com/consensys/gnark-crypto/ecc/bls24-315/fr"
	p2 "github.com/consensys/gnark-crypto/ecc/bls24-315/fr/polynomial"
	f6 "github.com/consensys/gnark-crypto/ecc/bls24-317/fp"
	f7 "github.com/consensys/gnark-crypto/ecc/bls24-317/fr"
	r3 "github.com/consensys/gnark-crypto/ecc/bls24-317/fr"
	p3 "github.com/consensys/gnark-crypto/ecc/bls24-317/fr/polynomial"
	f8 "github.com/consensys/gnark-crypto/ecc/bn254/fp"
	f9 "github.com/consensys/gnark-crypto/ecc/bn254/fr"
	r4 "github.com/consensys/gnark-crypto/ecc/bn254/fr"
	p4 "github.com/consensys/gnark-crypto/ecc/bn254/fr/polynomial"
	f10 "github.com/consensys/gnark-crypto/ecc/bw6-633/fp"
	f11 "github.com/consensys/gnark-crypto/ecc/bw6-633/fr"
	r5 "github.com/consensys/gnark-crypto/ecc/bw6-633/fr"
	p5 "github.com/consensys/gnark-crypto/ecc/bw6-633/fr/polynomial"
	f12 "github.com/consensys/gnark-crypto/ecc/bw6-761/fp"
	f13 "github.com/consensys/gnark-crypto/ecc/bw6-761/fr"
	r6 "github.com/consensys/gnark-crypto/ecc/bw6-761/fr"
	p6 "github.com/consensys/gnark-crypto/ecc/bw6-761/fr/polynomial"
	f14 "github.com/consensys/gnark-crypto/ecc/grumpkin/fp"
	f15 "github.com/consensys/gnark-crypto/ecc/grumpkin/fr"
	r7 "github.com/consensys/gnark-crypto/ecc/grumpkin/fr"
	p7 "github.com/consensys/gnark-crypto/ecc/grumpkin/fr/polynomial"
	f16 "github.com/consensys/gnark-crypto/ecc/secp256k1/fp"
	f17 "github.com/consensys/gnark-crypto/ecc/secp256k1/fr"
	f18 "github.com/consensys/gnark-crypto/ecc/stark-curve/fp"
	f19 "github.com/consensys/gnark-crypto/ecc/stark-curve/fr"
	f22 "github.com/consensys/gnark-crypto/field/babybear"
	f20 "github.com/consensys/gnark-crypto/field/goldilocks"
	f21 "github.com/consensys/gnark-crypto/field/koalabear"

	"verif/harness/mon"
)

var vectorTypes = map[string]reflect.Type{
	"ecc/bls12-377/fp":   reflect.TypeOf(f0.Vector{}),
	"ecc/bls12-377/fr":   reflect.TypeOf(f1.Vector{}),
	"ecc/bls12-381/fp":   reflect.TypeOf(f2.Vector{}),
	"ecc/bls12-381/fr":   reflect.TypeOf(f3.Vector{}),
	"ecc/bls24-315/fp":   reflect.TypeOf(f4.Vector{}),
	"ecc/bls24-315/fr":   reflect.TypeOf(f5.Vector{}),
	"ecc/bls24-317/fp":   reflect.TypeOf(f6.Vector{}),
	"ecc/bls24-317/fr":   reflect.TypeOf(f7.Vector{}),
	"ecc/bn254/fp":       reflect.TypeOf(f8.Vector{}),
	"ecc/bn254/fr":       reflect.TypeOf(f9.Vector{}),
	"ecc/bw6-633/fp":     reflect.TypeOf(f10.Vector{}),
	"ecc/bw6-633/fr":     reflect.TypeOf(f11.Vector{}),
	"ecc/bw6-761/fp":     reflect.TypeOf(f12.Vector{}),
	"ecc/bw6-761/fr":     reflect.TypeOf(f13.Vector{}),
	"ecc/grumpkin/fp":    reflect.TypeOf(f14.Vector{}),
	"ecc/grumpkin/fr":    reflect.TypeOf(f15.Vector{}),
	"ecc/secp256k1/fp":   reflect.TypeOf(f16.Vector{}),
	"ecc/secp256k1/fr":   reflect.TypeOf(f17.Vector{}),
	"ecc/stark-curve/fp": reflect.TypeOf(f18.Vector{}),
	"ecc/stark-curve/fr": reflect.TypeOf(f19.Vector{}),
	"field/goldilocks":   reflect.TypeOf(f20.Vector{}),
	"field/koalabear":    reflect.TypeOf(f21.Vector{}),
	"field/babybear":     reflect.TypeOf(f22.Vector{}),
}

// polynomial lengths depend on the value index so that operands of different lengths meet
var polyLens = []int{0, 1, 3, 4, 10, 20, 5, 7}

func polyVal(seed int64, name string, i, k int, mod *big.Int) *big.Int {
	if i == 0 {
		return new(big.Int)
	}
	return hashInt(seed, name, i, k, mod)
}

func polyEntries(c *mon.Ctx) {
	seed := c.Seed
	{
		name := "ecc/bls12-377/fr/polynomial"
		mod := r0.Modulus()
		mk := func(i, k int) r0.Element { var e r0.Element; e.SetBigInt(polyVal(seed, name, i, k, mod)); return e }
		register(&entry{Name: name + ".Polynomial", Shapes: 1, Sample: func(i, shape int) any {
			n := polyLens[i%len(polyLens)]
			p := make(p0.Polynomial, n)
			for k := range p {
				p[k] = mk(i, k)
			}
			return &p
		}})
		register(&entry{Name: name + ".MultiLin", Shapes: 3, Sample: func(i, shape int) any {
			n := 1 << (shape + 1)
			p := make(p0.MultiLin, n)
			for k := range p {
				p[k] = mk(i, k)
			}
			return &p
		}})
	}
	{
		name := "ecc/bls12-381/fr/polynomial"
		mod := r1.Modulus()
		mk := func(i, k int) r1.Element { var e r1.Element; e.SetBigInt(polyVal(seed, name, i, k, mod)); return e }
		register(&entry{Name: name + ".Polynomial", Shapes: 1, Sample: func(i, shape int) any {
			n := polyLens[i%len(polyLens)]
			p := make(p1.Polynomial, n)
			for k := range p {
				p[k] = mk(i, k)
			}
			return &p
		}})
		register(&entry{Name: name + ".MultiLin", Shapes: 3, Sample: func(i, shape int) any {
			n := 1 << (shape + 1)
			p := make(p1.MultiLin, n)
			for k := range p {
				p[k] = mk(i, k)
			}
			return &p
		}})
	}
	{
		name := "ecc/bls24-315/fr/polynomial"
		mod := r2.Modulus()
		mk := func(i, k int) r2.Element { var e r2.Element; e.SetBigInt(polyVal(seed, name, i, k, mod)); return e }
		register(&entry{Name: name + ".Polynomial", Shapes: 1, Sample: func(i, shape int) any {
			n := polyLens[i%len(polyLens)]
			p := make(p2.Polynomial, n)
			for k := range p {
				p[k] = mk(i, k)
			}
			return &p
		}})
		register(&entry{Name: name + ".MultiLin", Shapes: 3, Sample: func(i, shape int) any {
			n := 1 << (shape + 1)
			p := make(p2.MultiLin, n)
			for k := range p {
				p[k] = mk(i, k)
			}
			return &p
		}})
	}
	{
		name := "ecc/bls24-317/fr/polynomial"
		mod := r3.Modulus()
		mk := func(i, k int) r3.Element { var e r3.Element; e.SetBigInt(polyVal(seed, name, i, k, mod)); return e }
		register(&entry{Name: name + ".Polynomial", Shapes: 1, Sample: func(i, shape int) any {
			n := polyLens[i%len(polyLens)]
			p := make(p3.Polynomial, n)
			for k := range p {
				p[k] = mk(i, k)
			}
			return &p
		}})
		register(&entry{Name: name + ".MultiLin", Shapes: 3, Sample: func(i, shape int) any {
			n := 1 << (shape + 1)
			p := make(p3.MultiLin, n)
			for k := range p {
				p[k] = mk(i, k)
			}
			return &p
		}})
	}
	{
		name := "ecc/bn254/fr/polynomial"
		mod := r4.Modulus()
		mk := func(i, k int) r4.Element { var e r4.Element; e.SetBigInt(polyVal(seed, name, i, k, mod)); return e }
		register(&entry{Name: name + ".Polynomial", Shapes: 1, Sample: func(i, shape int) any {
			n := polyLens[i%len(polyLens)]
			p := make(p4.Polynomial, n)
			for k := range p {
				p[k] = mk(i, k)
			}
			return &p
		}})
		register(&entry{Name: name + ".MultiLin", Shapes: 3, Sample: func(i, shape int) any {
			n := 1 << (shape + 1)
			p := make(p4.MultiLin, n)
			for k := range p {
				p[k] = mk(i, k)
			}
			return &p
		}})
	}
	{
		name := "ecc/bw6-633/fr/polynomial"
		mod := r5.Modulus()
		mk := func(i, k int) r5.Element { var e r5.Element; e.SetBigInt(polyVal(seed, name, i, k, mod)); return e }
		register(&entry{Name: name + ".Polynomial", Shapes: 1, Sample: func(i, shape int) any {
			n := polyLens[i%len(polyLens)]
			p := make(p5.Polynomial, n)
			for k := range p {
				p[k] = mk(i, k)
			}
			return &p
		}})
		register(&entry{Name: name + ".MultiLin", Shapes: 3, Sample: func(i, shape int) any {
			n := 1 << (shape + 1)
			p := make(p5.MultiLin, n)
			for k := range p {
				p[k] = mk(i, k)
			}
			return &p
		}})
	}
	{
		name := "ecc/bw6-761/fr/polynomial"
		mod := r6.Modulus()
		mk := func(i, k int) r6.Element { var e r6.Element; e.SetBigInt(polyVal(seed, name, i, k, mod)); return e }
		register(&entry{Name: name + ".Polynomial", Shapes: 1, Sample: func(i, shape int) any {
			n := polyLens[i%len(polyLens)]
			p := make(p6.Polynomial, n)
			for k := range p {
				p[k] = mk(i, k)
			}
			return &p
		}})
		register(&entry{Name: name + ".MultiLin", Shapes: 3, Sample: func(i, shape int) any {
			n := 1 << (shape + 1)
			p := make(p6.MultiLin, n)
			for k := range p {
				p[k] = mk(i, k)
			}
			return &p
		}})
	}
	{
		name := "ecc/grumpkin/fr/polynomial"
		mod := r7.Modulus()
		mk := func(i, k int) r7.Element { var e r7.Element; e.SetBigInt(polyVal(seed, name, i, k, mod)); return e }
		register(&entry{Name: name + ".Polynomial", Shapes: 1, Sample: func(i, shape int) any {
			n := polyLens[i%len(polyLens)]
			p := make(p7.Polynomial, n)
			for k := range p {
				p[k] = mk(i, k)
			}
			return &p
		}})
		register(&entry{Name: name + ".MultiLin", Shapes: 3, Sample: func(i, shape int) any {
			n := 1 << (shape + 1)
			p := make(p7.MultiLin, n)
			for k := range p {
				p[k] = mk(i, k)
			}
			return &p
		}})
	}
}
