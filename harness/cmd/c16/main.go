// C16: Merkle trees (streaming accumulator + Vortex Poseidon2 tree) against the recursive
// tree-hash model: exhaustive (n,i), all single-component tamperings, decompositions.
package main

import (
	"bytes"
	"crypto/sha256"
	"encoding/binary"
	"fmt"
	"hash"
	"testing/iotest"

	"github.com/consensys/gnark-crypto/accumulator/merkletree"
	"github.com/consensys/gnark-crypto/ecc/bn254/fr"
	_ "github.com/consensys/gnark-crypto/ecc/bn254/fr/mimc"
	_ "github.com/consensys/gnark-crypto/ecc/bn254/fr/poseidon2"
	"github.com/consensys/gnark-crypto/field/koalabear"
	"github.com/consensys/gnark-crypto/field/koalabear/vortex"
	ghash "github.com/consensys/gnark-crypto/hash"

	"verif/harness/gen"
	"verif/harness/mon"
)

type hcfg struct {
	label string
	newH  func() hash.Hash
	leaf  func(id int) []byte // unique leaf data, fixed size
}

func hsum(h hash.Hash, data ...[]byte) []byte {
	h.Reset()
	for _, d := range data {
		if _, err := h.Write(d); err != nil {
			panic(err)
		}
	}
	return h.Sum(nil)
}

// model: RFC-6962-shaped tree hash without domain prefixes (as documented in tree.go)
type mdl struct {
	h      hash.Hash
	leaves [][]byte
	memo   map[[2]int][]byte
}

func (m *mdl) mth(lo, hi int) []byte { // leaves[lo:hi], hi>lo
	if v, ok := m.memo[[2]int{lo, hi}]; ok {
		return v
	}
	var r []byte
	if hi-lo == 1 {
		r = hsum(m.h, m.leaves[lo])
	} else {
		k := 1
		for k*2 < hi-lo {
			k *= 2
		}
		r = hsum(m.h, m.mth(lo, lo+k), m.mth(lo+k, hi))
	}
	m.memo[[2]int{lo, hi}] = r
	return r
}
func (m *mdl) path(i, lo, hi int) [][]byte {
	if hi-lo == 1 {
		return nil
	}
	k := 1
	for k*2 < hi-lo {
		k *= 2
	}
	if i < lo+k {
		return append(m.path(i, lo, lo+k), m.mth(lo+k, hi))
	}
	return append(m.path(i, lo+k, hi), m.mth(lo, lo+k))
}

func eqSets(a, b [][]byte) bool {
	if len(a) != len(b) {
		return false
	}
	for i := range a {
		if !bytes.Equal(a[i], b[i]) {
			return false
		}
	}
	return true
}

func cloneSet(a [][]byte) [][]byte {
	r := make([][]byte, len(a))
	for i := range a {
		r[i] = append([]byte(nil), a[i]...)
	}
	return r
}

// contiguous lays byte strings out back to back in one array and returns them as sub-slices whose capacity runs to the
// end of the array (what a decoder that slices one input buffer produces): a routine that appends to one of them
// overwrites the next.
func contiguous(parts [][]byte) (views [][]byte, whole []byte) {
	for _, p := range parts {
		whole = append(whole, p...)
	}
	whole = append(whole, 0xA5, 0x5A, 0xA5, 0x5A)
	off := 0
	for _, p := range parts {
		views = append(views, whole[off:off+len(p)])
		off += len(p)
	}
	return
}

func accumulator(c *mon.Ctx, cfg hcfg, N int, rng *gen.Rng) {
	h := cfg.newH()
	vh := cfg.newH()
	L := cfg.label
	for n := 1; n <= N; n++ {
		m := &mdl{h: cfg.newH(), memo: map[[2]int][]byte{}}
		for k := 0; k < n; k++ {
			m.leaves = append(m.leaves, cfg.leaf(n*1000+k))
		}
		wantRoot := m.mth(0, n)
		for i := 0; i < n; i++ {
			c.Current(fmt.Sprintf("%s n=%d i=%d", L, n, i))
			t := merkletree.New(h)
			if err := t.SetIndex(uint64(i)); err != nil {
				c.Fail(L+"/SetIndex/error", "n=%d i=%d err=%v", n, i, err)
				continue
			}
			// the leaves are views into one array (hostile layout); queries are read-only: the root is read before the proof
			// for every other index, and the proof is produced twice
			lv, flat := contiguous(m.leaves)
			flat0 := append([]byte(nil), flat...)
			for k := 0; k < n; k++ {
				t.Push(lv[k])
				if k == n/2 && (i+n)%3 == 0 {
					// SetIndex on a tree that already holds leaves is refused (documented) - and changes nothing
					other := uint64((i + 1) % n)
					if err := t.SetIndex(other); err == nil {
						c.Fail(L+"/SetIndex/accepted-on-non-empty-tree", "n=%d i=%d: SetIndex(%d) after %d pushes returned nil", n, i, other, k+1)
					}
				}
				// a proof asked for while the tree is still growing (once the proven leaf is in): it is the proof for the
				// leaves pushed so far, and asking leaves the tree as it was
				if k == (n+i)/2 && k >= i && k < n-1 && (n+i)%3 == 1 {
					rk, psk, ik, nk := t.Prove()
					wantk := append([][]byte{m.leaves[i]}, m.path(i, 0, k+1)...)
					c.Check("Prove", L+"/Prove/intermediate-mismatch", bytes.Equal(rk, m.mth(0, k+1)) && eqSets(psk, wantk) && ik == uint64(i) && nk == uint64(k+1), func() string {
						return fmt.Sprintf("n=%d i=%d: Prove() after %d pushes: root=%x proofLen=%d want %d", n, i, k+1, rk, len(psk), len(wantk))
					})
				}
				if (i+k)%5 == 0 {
					r := t.Root()
					c.Check("Root", L+"/Root/intermediate-mismatch", bytes.Equal(r, m.mth(0, k+1)), func() string {
						return fmt.Sprintf("n=%d i=%d: Root() after %d pushes", n, i, k+1)
					})
					// the root handed out is the caller's: overwritten (with its spare capacity), it must not reach the
					// tree - the following roots and the proof would show it
					scribble(r)
				}
			}
			if i%2 == 0 {
				c.Check("Root", L+"/Root/mismatch-before-prove", bytes.Equal(t.Root(), wantRoot), func() string { return fmt.Sprintf("n=%d i=%d", n, i) })
			}
			root, ps, idx, nl := t.Prove()
			want := append([][]byte{m.leaves[i]}, m.path(i, 0, n)...)
			desc := func() string {
				return fmt.Sprintf("n=%d i=%d root=%x wantRoot=%x proofLen=%d wantLen=%d idx=%d numLeaves=%d", n, i, root, wantRoot, len(ps), len(want), idx, nl)
			}
			{
				// the root is handed out as a copy (the proof set is documented state of the tree and is left alone)
				keepRoot := append([]byte(nil), root...)
				scribble(root)
				root2, ps2, idx2, nl2 := t.Prove()
				root = keepRoot
				c.Check("Prove", L+"/Prove/second-call-differs", bytes.Equal(root2, wantRoot) && eqSets(ps2, want) && idx2 == uint64(i) && nl2 == uint64(n), func() string {
					return desc() + fmt.Sprintf("; second Prove(): root=%x proofLen=%d", root2, len(ps2))
				})
				c.Check("Prove", L+"/Push/leaf-buffer-modified", bytes.Equal(flat, flat0), desc)
			}
			c.Check("Prove", L+"/Prove/root-mismatch", bytes.Equal(root, wantRoot), desc)
			c.Check("Prove", L+"/Root/mismatch", bytes.Equal(t.Root(), wantRoot), desc)
			c.Check("Prove", L+"/Prove/proofset-mismatch", eqSets(ps, want), desc)
			c.Check("Prove", L+"/Prove/index-or-count", idx == uint64(i) && nl == uint64(n), desc)
			ps = cloneSet(want) // tamper the model's (= honest) proof
			c.Check("VerifyProof", L+"/Verify/honest-rejected", merkletree.VerifyProof(vh, wantRoot, ps, uint64(i), uint64(n)), desc)
			{
				// the same proof as views into one decoded buffer: accepted, and the buffer is left alone
				cs, buf := contiguous(want)
				buf0 := append([]byte(nil), buf...)
				okc := merkletree.VerifyProof(vh, wantRoot, cs, uint64(i), uint64(n))
				c.Check("VerifyProof", L+"/Verify/honest-rejected/contiguous-proof-buffer", okc, desc)
				c.Check("VerifyProof", L+"/Verify/proof-buffer-modified", bytes.Equal(buf, buf0), desc)
			}
			if n <= 40 || i%7 == 0 || i == n-1 {
				c.Class(fmt.Sprintf("%s/n%d/depth%d/i-mod4=%d", L, n, len(want), i%4))
			}
			rej := func(kind string, root []byte, set [][]byte, index uint64) {
				ok := merkletree.VerifyProof(vh, root, set, index, uint64(n))
				c.Check("VerifyProof/tamper", L+"/Verify/accepted-tampered/"+kind, !ok, func() string {
					return fmt.Sprintf("n=%d i=%d tamper=%s index=%d proofLen=%d accepted", n, i, kind, index, len(set))
				})
			}
			// flip one byte of leaf / root / each sibling (for the field-based hashes the flipped byte is a low-order
			// one, so the element stays a canonical field element: non-canonical bytes are probed separately below)
			for e := 0; e < len(ps); e++ {
				s := cloneSet(ps)
				pos := (i + e) % len(s[e])
				if cfg.label != "sha256" {
					pos = len(s[e]) - 1 - (i+e)%8
				}
				s[e][pos] ^= 0x01
				kind := "sibling-flip"
				if e == 0 {
					kind = "leaf-flip"
				}
				rej(kind, wantRoot, s, uint64(i))
			}
			if cfg.label != "sha256" && (n <= 8 || i == n/2) {
				// a component followed by a block the hash refuses (a hash that stops at the refused block has absorbed
				// the honest prefix): the changed component must not verify, and must not panic
				for e := 0; e < len(ps); e++ {
					s := cloneSet(ps)
					s[e] = append(append([]byte(nil), s[e]...), bytes.Repeat([]byte{0xff}, len(ps[e]))...)
					var ok bool
					kind := "sibling-extended-by-refused-block"
					if e == 0 {
						kind = "leaf-extended-by-refused-block"
					}
					if !c.Guard(L+"/Verify/panic/"+kind, func() string { return fmt.Sprintf("n=%d i=%d component %d", n, i, e) }, func() { ok = merkletree.VerifyProof(vh, wantRoot, s, uint64(i), uint64(n)) }) {
						c.Check("VerifyProof/tamper", L+"/Verify/accepted-tampered/"+kind, !ok, func() string { return fmt.Sprintf("n=%d i=%d component %d", n, i, e) })
					}
				}
			}
			if cfg.label != "sha256" && n <= 6 && len(ps) > 1 {
				// a sibling that is not a canonical field element: the verifier must reject it, not panic
				s := cloneSet(ps)
				for k := range s[1] {
					s[1][k] = 0xff
				}
				var ok bool
				if !c.Guard(L+"/Verify/panic/non-canonical-sibling", func() string { return fmt.Sprintf("n=%d i=%d sibling 1 = ff..ff", n, i) }, func() { ok = merkletree.VerifyProof(vh, wantRoot, s, uint64(i), uint64(n)) }) {
					c.Check("VerifyProof/tamper", L+"/Verify/accepted-tampered/non-canonical-sibling", !ok, func() string { return fmt.Sprintf("n=%d i=%d", n, i) })
				}
			}
			r2 := append([]byte(nil), wantRoot...)
			r2[i%len(r2)] ^= 0x80
			rej("root-flip", r2, ps, uint64(i))
			rej("root-nil", nil, ps, uint64(i))
			// other indices, same n
			for j := 0; j < n; j++ {
				if j != i && (n <= 48 || j%5 == i%5 || j == n-1 || j == 0) {
					rej("index-changed", wantRoot, ps, uint64(j))
				}
			}
			// out-of-range indices
			for _, j := range []uint64{uint64(n), uint64(n + 1), uint64(i) + 1<<uint(len(ps)-1), uint64(i) + 1<<uint(len(ps)), ^uint64(0), uint64(i) + 1<<32, uint64(i) | 1<<63} {
				if j >= uint64(n) {
					rej("index-out-of-range", wantRoot, ps, j)
				}
			}
			// drop each element / first / last, append, duplicate
			for e := 0; e < len(ps); e++ {
				s := append(cloneSet(ps[:e]), cloneSet(ps[e+1:])...)
				rej("element-dropped", wantRoot, s, uint64(i))
				d := append(cloneSet(ps[:e+1]), cloneSet(ps[e:])...)
				rej("element-duplicated", wantRoot, d, uint64(i))
			}
			rej("element-appended", wantRoot, append(cloneSet(ps), wantRoot), uint64(i))
			rej("element-appended", wantRoot, append(cloneSet(ps), cfg.leaf(5)), uint64(i))
			rej("empty-proof", wantRoot, nil, uint64(i))
			if len(ps) > 2 {
				s := cloneSet(ps)
				s[1], s[2] = s[2], s[1]
				rej("siblings-swapped", wantRoot, s, uint64(i))
			}
			// proof of another leaf presented for this index is covered by index-changed (symmetric)
		}
		// root without SetIndex
		t := merkletree.New(h)
		for k := 0; k < n; k++ {
			t.Push(m.leaves[k])
		}
		c.Check("Root", L+"/Root/no-index-mismatch", bytes.Equal(t.Root(), wantRoot), func() string { return fmt.Sprintf("n=%d", n) })
	}
}

// decompositions of the leaf sequence into Push / PushSubTree, and segmented readers
type piece struct {
	lo, hi int
	cached bool
}

// enumerate all decompositions of aligned block [lo,hi) (size power of two) avoiding index i for cached pieces
func decomps(lo, hi, i int, out *[][]piece, cur []piece, rest func(cur []piece)) {
	// option 1: cached whole block (if it does not contain i)
	if !(lo <= i && i < hi) {
		rest(append(append([]piece(nil), cur...), piece{lo, hi, true}))
	}
	if hi-lo == 1 {
		rest(append(append([]piece(nil), cur...), piece{lo, hi, false}))
		return
	}
	mid := (lo + hi) / 2
	decomps(lo, mid, i, out, cur, func(c1 []piece) {
		decomps(mid, hi, i, out, c1, rest)
	})
}

func allDecomps(n, i int) [][]piece {
	// split n into its binary blocks (largest first), combine decompositions of each
	var blocks [][2]int
	lo := 0
	for b := 1 << 20; b >= 1; b >>= 1 {
		if n&b != 0 {
			blocks = append(blocks, [2]int{lo, lo + b})
			lo += b
		}
	}
	var res [][]piece
	var rec func(k int, cur []piece)
	rec = func(k int, cur []piece) {
		if k == len(blocks) {
			res = append(res, cur)
			return
		}
		decomps(blocks[k][0], blocks[k][1], i, nil, cur, func(c []piece) { rec(k+1, c) })
	}
	rec(0, nil)
	return res
}

func randDecomp(rng *gen.Rng, n, i int) []piece {
	var res []piece
	var rec func(lo, hi int)
	rec = func(lo, hi int) {
		contains := lo <= i && i < hi
		if !contains && rng.Intn(3) == 0 {
			res = append(res, piece{lo, hi, true})
			return
		}
		if hi-lo == 1 {
			res = append(res, piece{lo, hi, false})
			return
		}
		rec(lo, (lo+hi)/2)
		rec((lo+hi)/2, hi)
	}
	lo := 0
	for b := 1 << 20; b >= 1; b >>= 1 {
		if n&b != 0 {
			rec(lo, lo+b)
			lo += b
		}
	}
	return res
}

// scribble overwrites a returned slice over its whole capacity.
func scribble(b []byte) {
	b = b[:cap(b)]
	for i := range b {
		b[i] ^= 0xA5
	}
}

func log2(x int) int {
	r := 0
	for x > 1 {
		x >>= 1
		r++
	}
	return r
}

func decompositions(c *mon.Ctx, cfg hcfg, rng *gen.Rng) {
	h := cfg.newH()
	L := cfg.label
	nExh := c.Pick(9, 12)
	if cfg.label != "sha256" {
		nExh = c.Pick(6, 8)
	}
	run := func(n, i int, m *mdl, d []piece, kind string) {
		t := merkletree.New(h)
		t.SetIndex(uint64(i))
		// cached sub-tree roots stored back to back in one table, as a cache would keep them
		var cachedRoots [][]byte
		for _, p := range d {
			if p.cached {
				cachedRoots = append(cachedRoots, m.mth(p.lo, p.hi))
			}
		}
		cviews, ctable := contiguous(cachedRoots)
		ctable0 := append([]byte(nil), ctable...)
		ci := 0
		defer func() {
			c.Check("PushSubTree", L+"/"+kind+"/cached-root-table-modified", bytes.Equal(ctable, ctable0), func() string {
				return fmt.Sprintf("n=%d i=%d decomposition=%v", n, i, d)
			})
		}()
		for _, p := range d {
			if p.cached {
				ci++
				if err := t.PushSubTree(log2(p.hi-p.lo), cviews[ci-1]); err != nil {
					c.Fail(L+"/PushSubTree/error", "n=%d i=%d piece=%v err=%v decomposition=%v", n, i, p, err, d)
					return
				}
			} else {
				t.Push(m.leaves[p.lo])
			}
			// the root of what has been pushed so far, asked for between the pieces (a cached root must follow every
			// kind of push)
			if (n+i)%2 == 0 {
				c.Check("Root", L+"/"+kind+"/intermediate-root-mismatch", bytes.Equal(t.Root(), m.mth(0, p.hi)), func() string {
					return fmt.Sprintf("n=%d i=%d after piece %v of decomposition %v", n, i, p, d)
				})
			}
		}
		root, ps, idx, nl := t.Prove()
		want := append([][]byte{m.leaves[i]}, m.path(i, 0, n)...)
		c.Check("PushSubTree", L+"/"+kind+"/root-or-proof-differs", bytes.Equal(root, m.mth(0, n)) && eqSets(ps, want) && idx == uint64(i) && nl == uint64(n), func() string {
			return fmt.Sprintf("n=%d i=%d decomposition=%v root=%x want=%x proofLen=%d wantLen=%d numLeaves=%d", n, i, d, root, m.mth(0, n), len(ps), len(want), nl)
		})
	}
	// the same on a root-only tree (SetIndex never called): any aligned block may come as a cached sub-tree,
	// including the very first element pushed
	runPlain := func(n int, m *mdl, d []piece, kind string) {
		t := merkletree.New(h)
		for pi, p := range d {
			if pi == 1 && n%2 == 0 {
				// a refused SetIndex (the tree is not empty) must not turn the root-only tree into a proof tree
				if err := t.SetIndex(uint64(p.lo)); err == nil {
					c.Fail(L+"/SetIndex/accepted-on-non-empty-tree", "n=%d: SetIndex(%d) after the first piece returned nil", n, p.lo)
				}
			}
			if p.cached {
				if err := t.PushSubTree(log2(p.hi-p.lo), m.mth(p.lo, p.hi)); err != nil {
					c.Fail(L+"/PushSubTree/error/root-only-tree", "n=%d piece=%v err=%v decomposition=%v", n, p, err, d)
					return
				}
			} else {
				t.Push(m.leaves[p.lo])
			}
			if n%2 == 1 {
				c.Check("Root", L+"/"+kind+"/intermediate-root-mismatch/root-only-tree", bytes.Equal(t.Root(), m.mth(0, p.hi)), func() string {
					return fmt.Sprintf("n=%d after piece %v of decomposition %v", n, p, d)
				})
			}
		}
		root := t.Root()
		c.Check("PushSubTree", L+"/"+kind+"/root-differs/root-only-tree", bytes.Equal(root, m.mth(0, n)), func() string {
			return fmt.Sprintf("n=%d decomposition=%v root=%x want=%x", n, d, root, m.mth(0, n))
		})
	}
	mk := func(n int) *mdl {
		m := &mdl{h: cfg.newH(), memo: map[[2]int][]byte{}}
		for k := 0; k < n; k++ {
			m.leaves = append(m.leaves, cfg.leaf(n*1000+k))
		}
		return m
	}
	total := 0
	for n := 1; n <= nExh; n++ {
		m := mk(n)
		for i := 0; i < n; i++ {
			ds := allDecomps(n, i)
			for _, d := range ds {
				run(n, i, m, d, "decomposition")
				total++
			}
			c.Class(fmt.Sprintf("%s/decomp-exhaustive/n%d/i%d/%d", L, n, i, len(ds)))
			if n == 5 && i == 1 {
				c.SampleOnce(L+"-decomposition", map[string]any{"n": n, "i": i, "pieces[lo,hi,cached]": ds[len(ds)/2]})
			}
		}
	}
	for n := 1; n <= nExh; n++ {
		m := mk(n)
		ds := allDecomps(n, -1)
		for _, d := range ds {
			runPlain(n, m, d, "decomposition")
			total++
		}
		c.Class(fmt.Sprintf("%s/decomp-exhaustive/n%d/root-only/%d", L, n, len(ds)))
	}
	c.AddExtra("decompositions_exhaustive", int64(total))
	for k := 0; k < c.Pick(300, 3000); k++ {
		n := nExh + 1 + rng.Intn(120)
		i := rng.Intn(n)
		m := mk(n)
		d := randDecomp(rng, n, i)
		run(n, i, m, d, "decomposition-seeded")
		if k%3 == 0 {
			runPlain(n, m, randDecomp(rng, n, -1), "decomposition-seeded")
		}
		c.Class(fmt.Sprintf("%s/decomp-seeded/n%d/pieces%d", L, n, len(d)))
	}
	// segmented readers
	segN := c.Pick(40, 130)
	for n := 1; n <= segN; n++ {
		m := mk(n)
		var buf []byte
		for _, l := range m.leaves {
			buf = append(buf, l...)
		}
		seg := len(m.leaves[0])
		for _, short := range []int{0, 1} { // last leaf shortened (sha256 only: arbitrary length leaves)
			data := buf
			if short == 1 {
				if cfg.label != "sha256" || seg < 2 {
					continue
				}
				data = buf[:len(buf)-3]
				m2 := mk(n)
				m2.leaves[n-1] = m2.leaves[n-1][:seg-3]
				m = m2
			}
			for ri, mkr := range []func() interfaceReader{
				func() interfaceReader { return bytes.NewReader(data) },
				func() interfaceReader { return iotest.OneByteReader(bytes.NewReader(data)) },
				func() interfaceReader { return iotest.HalfReader(bytes.NewReader(data)) },
				func() interfaceReader { return iotest.DataErrReader(bytes.NewReader(data)) },
			} {
				root, err := merkletree.ReaderRoot(mkr(), h, seg)
				c.Check("ReaderRoot", fmt.Sprintf("%s/ReaderRoot/mismatch/reader%d", L, ri), err == nil && bytes.Equal(root, m.mth(0, n)), func() string {
					return fmt.Sprintf("n=%d short=%d err=%v root=%x want=%x", n, short, err, root, m.mth(0, n))
				})
				for _, i := range []int{0, n / 2, n - 1} {
					root, ps, nl, err := merkletree.BuildReaderProof(mkr(), h, seg, uint64(i))
					want := append([][]byte{m.leaves[i]}, m.path(i, 0, n)...)
					c.Check("BuildReaderProof", fmt.Sprintf("%s/BuildReaderProof/mismatch/reader%d", L, ri), err == nil && bytes.Equal(root, m.mth(0, n)) && eqSets(ps, want) && nl == uint64(n), func() string {
						return fmt.Sprintf("n=%d i=%d short=%d err=%v", n, i, short, err)
					})
				}
				c.Class(fmt.Sprintf("%s/reader%d/n%d/short%d", L, ri, n, short))
			}
		}
	}
}

type interfaceReader interface{ Read([]byte) (int, error) }

// ---- Vortex Poseidon2 tree ----
func vortexTree(c *mon.Ctx, N int, rng *gen.Rng) {
	L := "vortex"
	mkLeaf := func(id int) vortex.Hash {
		var hsh vortex.Hash
		for k := range hsh {
			hsh[k].SetUint64(uint64(id*8 + k + 1))
		}
		return hsh
	}
	sizes := []int{}
	for n := 1; n <= N; n++ {
		sizes = append(sizes, n)
	}
	sizes = append(sizes, 255, 256, 257, 511, 512, 513, 1024, 1025, 2047) // parallel level construction (>=512 nodes per level)
	if c.Thorough() {
		sizes = append(sizes, 4096, 5000)
	}
	for _, n := range sizes {
		// hostile layout: the leaves are a prefix of a larger array whose tail holds other (non-zero) hashes; the tree
		// is a function of the n leaves only and the tail is not the library's to touch
		backing := make([]vortex.Hash, 2*n+70)
		for k := range backing {
			backing[k] = mkLeaf(n*4096 + k)
		}
		leaves := backing[:n]
		if n%3 == 0 {
			leaves = backing[:n:n] // no spare capacity
		}
		orig := append([]vortex.Hash(nil), leaves...)
		origTail := fmt.Sprint(backing[n:])
		mt := vortex.BuildMerkleTree(leaves)
		c.Check("BuildMerkleTree", L+"/Build/wrote-beyond-the-leaves", fmt.Sprint(backing[n:]) == origTail, func() string { return fmt.Sprintf("n=%d cap=%d", n, cap(leaves)) })
		// model
		p2 := 1
		for p2 < n {
			p2 *= 2
		}
		lvl := make([]vortex.Hash, p2)
		copy(lvl, leaves)
		levels := [][]vortex.Hash{lvl}
		for len(lvl) > 1 {
			nx := make([]vortex.Hash, len(lvl)/2)
			for k := range nx {
				nx[k] = vortex.CompressPoseidon2(lvl[2*k], lvl[2*k+1])
			}
			levels = append(levels, nx)
			lvl = nx
		}
		wantRoot := lvl[0]
		depth := len(levels) - 1
		c.Check("BuildMerkleTree", L+"/Root/mismatch", mt.Root() == wantRoot, func() string { return fmt.Sprintf("n=%d", n) })
		c.Check("BuildMerkleTree", L+"/Build/input-modified", fmt.Sprint(orig) == fmt.Sprint(leaves), func() string { return fmt.Sprintf("n=%d", n) })
		c.Check("BuildMerkleTree", L+"/Depth/mismatch", mt.Depth() == depth, func() string { return fmt.Sprintf("n=%d depth=%d want=%d", n, mt.Depth(), depth) })
		idxs := []int{}
		if n <= N {
			for i := 0; i < n; i++ {
				idxs = append(idxs, i)
			}
		} else {
			idxs = []int{0, 1, n / 2, n - 2, n - 1, rng.Intn(n), rng.Intn(n)}
		}
		for _, i := range idxs {
			c.Current(fmt.Sprintf("vortex n=%d i=%d", n, i))
			var proof vortex.MerkleProof
			var err error
			if c.Guard(L+"/Open/panic", func() string { return fmt.Sprintf("n=%d i=%d", n, i) }, func() { proof, err = mt.Open(i) }) {
				continue
			}
			var want vortex.MerkleProof
			pos := i
			for l := 0; l < depth; l++ {
				want = append(want, levels[l][pos^1])
				pos >>= 1
			}
			okp := err == nil && len(proof) == len(want)
			if okp {
				for k := range want {
					okp = okp && proof[k] == want[k]
				}
			}
			c.Check("Open", L+"/Open/proof-mismatch", okp, func() string { return fmt.Sprintf("n=%d i=%d err=%v len=%d want=%d", n, i, err, len(proof), len(want)) })
			c.Check("Verify", L+"/Verify/honest-rejected", want.Verify(i, leaves[i], wantRoot) == nil, func() string { return fmt.Sprintf("n=%d i=%d", n, i) })
			c.Class(fmt.Sprintf("vortex/n%d/depth%d/i-mod4=%d", n, depth, i%4))
			rej := func(kind string, pr vortex.MerkleProof, idx int, leaf, root vortex.Hash) {
				var e error
				if c.Guard(L+"/Verify/panic/"+kind, func() string { return fmt.Sprintf("n=%d i=%d idx=%d", n, i, idx) }, func() { e = pr.Verify(idx, leaf, root) }) {
					return
				}
				c.Check("Verify/tamper", L+"/Verify/accepted-tampered/"+kind, e != nil, func() string {
					return fmt.Sprintf("n=%d i=%d depth=%d tamper=%s index=%d (0x%x) accepted", n, i, depth, kind, idx, uint64(idx))
				})
			}
			cp := func() vortex.MerkleProof { return append(vortex.MerkleProof(nil), want...) }
			var one koalabear.Element
			one.SetOne()
			lf := leaves[i]
			lf[i%8].Add(&lf[i%8], &one)
			rej("leaf-changed", cp(), i, lf, wantRoot)
			rt := wantRoot
			rt[(i+3)%8].Add(&rt[(i+3)%8], &one)
			rej("root-changed", cp(), i, leaves[i], rt)
			for e := 0; e < depth; e++ {
				p := cp()
				p[e][e%8].Add(&p[e][e%8], &one)
				rej("sibling-changed", p, i, leaves[i], wantRoot)
				rej("element-dropped", append(cp()[:e], cp()[e+1:]...), i, leaves[i], wantRoot)
				d := append(cp()[:e+1], want[e:]...)
				rej("element-duplicated", d, i, leaves[i], wantRoot)
			}
			rej("element-appended", append(cp(), wantRoot), i, leaves[i], wantRoot)
			for j := 0; j < p2; j++ {
				if j != i && (p2 <= 64 || j%9 == i%9 || j == p2-1) {
					rej("index-changed", cp(), j, leaves[i], wantRoot)
				}
			}
			for _, j := range []int{i + p2, i + 2*p2, i + p2<<7, i | 1<<40, i | 1<<62, -1, i - p2, -p2 + i - 1} {
				if j < 0 || j >= p2 {
					rej("index-out-of-range", cp(), j, leaves[i], wantRoot)
				}
			}
		}
		// Open out of range must return an error, not panic
		for _, j := range []int{p2, p2 + 1, -1} {
			var err error
			if !c.Guard(L+"/Open/panic-out-of-range", func() string { return fmt.Sprintf("n=%d index=%d", n, j) }, func() { _, err = mt.Open(j) }) {
				c.Check("Open", L+"/Open/out-of-range-accepted", err != nil, func() string { return fmt.Sprintf("n=%d index=%d", n, j) })
			}
		}
	}
}

func main() {
	c := mon.Init("C16")
	rng := gen.New(c.Seed, "c16")
	salt := uint64(c.Seed) * 0x9e3779b97f4a7c15
	shaLeaf := func(id int) []byte {
		b := make([]byte, 8)
		binary.BigEndian.PutUint64(b, uint64(id)^salt)
		return b
	}
	frLeaf := func(id int) []byte {
		var e fr.Element
		e.SetUint64(uint64(id) + 1)
		var s fr.Element
		s.SetUint64(salt)
		e.Mul(&e, &s) // spread over the field, still canonical
		b := e.Bytes()
		return b[:]
	}
	N := c.Pick(130, 520)
	accumulator(c, hcfg{"sha256", sha256.New, shaLeaf}, N, rng)
	nField := c.Pick(34, 130)
	accumulator(c, hcfg{"mimc", func() hash.Hash { return ghash.MIMC_BN254.New() }, frLeaf}, nField, rng)
	accumulator(c, hcfg{"poseidon2", func() hash.Hash { return ghash.POSEIDON2_BN254.New() }, frLeaf}, nField, rng)
	decompositions(c, hcfg{"sha256", sha256.New, shaLeaf}, rng)
	decompositions(c, hcfg{"mimc", func() hash.Hash { return ghash.MIMC_BN254.New() }, frLeaf}, rng)
	decompositions(c, hcfg{"poseidon2", func() hash.Hash { return ghash.POSEIDON2_BN254.New() }, frLeaf}, rng)
	vortexTree(c, c.Pick(130, 300), rng)
	c.Extra("max_leaves_exhaustive", map[string]int{"sha256": N, "mimc": nField, "poseidon2": nField})
	c.Sample(map[string]any{"tree": "sha256", "n": 5, "i": 3, "check": "root, proof set, honest verify, all tamperings"})
	c.Finish()
}
