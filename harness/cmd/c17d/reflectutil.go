package main

// Reflection helpers: deep copies of proof objects, discovery of every field of a proof struct
// (exported or not), and the single-field substitutions of the untargeted part of the check.

import (
	"fmt"
	"math/big"
	"reflect"
	"strings"
	"unsafe"

	"verif/harness/gen"
)

// settable returns v made settable (unexported fields are reached through their address).
func settable(v reflect.Value) reflect.Value {
	if v.CanSet() || !v.CanAddr() {
		return v
	}
	return reflect.NewAt(v.Type(), unsafe.Pointer(v.UnsafeAddr())).Elem()
}

func rfield(v reflect.Value, name string) reflect.Value {
	f := v.FieldByName(name)
	if !f.IsValid() {
		panic("c17d: no field " + name + " in " + v.Type().String())
	}
	return settable(f)
}

// deepCopy copies src into dst (both addressable, same type), following slices and pointers.
func deepCopy(dst, src reflect.Value) {
	dst, src = settable(dst), settable(src)
	switch src.Kind() {
	case reflect.Slice:
		if src.IsNil() {
			dst.Set(reflect.Zero(src.Type()))
			return
		}
		n := reflect.MakeSlice(src.Type(), src.Len(), src.Len())
		for i := 0; i < src.Len(); i++ {
			deepCopy(n.Index(i), src.Index(i))
		}
		dst.Set(n)
	case reflect.Array:
		for i := 0; i < src.Len(); i++ {
			deepCopy(dst.Index(i), src.Index(i))
		}
	case reflect.Struct:
		for i := 0; i < src.NumField(); i++ {
			deepCopy(dst.Field(i), src.Field(i))
		}
	case reflect.Ptr:
		if src.IsNil() {
			dst.Set(reflect.Zero(src.Type()))
			return
		}
		n := reflect.New(src.Type().Elem())
		deepCopy(n.Elem(), src.Elem())
		dst.Set(n)
	default:
		dst.Set(src)
	}
}

func cloneOf[T any](x *T) *T {
	n := new(T)
	deepCopy(reflect.ValueOf(n).Elem(), reflect.ValueOf(x).Elem())
	return n
}

// elemOps tells the walker how to treat a field-element type (a leaf, with arithmetic).
type elemOps struct {
	mod     *big.Int
	toBig   func(v reflect.Value) *big.Int // v addressable
	fromBig func(v reflect.Value, x *big.Int)
}

type step struct {
	field string // struct field name, or "" for an index
	index int
}

type site struct {
	path []step
	kind string // "elem", "bytes", "uint", "int", "slice"
	typ  reflect.Type
}

// generic returns the path without slice indices (array indices are kept: they have meaning).
func (s site) generic(root reflect.Value) string {
	var parts []string
	v := root
	for _, st := range s.path {
		v = settable(v)
		for v.Kind() == reflect.Ptr {
			v = v.Elem()
		}
		if st.field != "" {
			parts = append(parts, st.field)
			v = v.FieldByName(st.field)
		} else {
			if v.Kind() == reflect.Array && v.Len() <= 4 {
				parts = append(parts, fmt.Sprint(st.index))
			}
			v = v.Index(st.index)
		}
	}
	return strings.Join(parts, ".")
}

func (s site) exact() string {
	var parts []string
	for _, st := range s.path {
		if st.field != "" {
			parts = append(parts, st.field)
		} else {
			parts = append(parts, fmt.Sprintf("[%d]", st.index))
		}
	}
	return strings.Join(parts, "")
}

func resolve(root reflect.Value, path []step) reflect.Value {
	v := root
	for _, st := range path {
		v = settable(v)
		for v.Kind() == reflect.Ptr {
			v = settable(v.Elem())
		}
		if st.field != "" {
			v = v.FieldByName(st.field)
		} else {
			v = v.Index(st.index)
		}
	}
	return settable(v)
}

// discover lists the substitution sites below root. Long slices are sampled (first, second,
// middle, last and one seeded position).
func discover(root reflect.Value, elems map[reflect.Type]*elemOps, rng *gen.Rng, maxPerSlice int) []site {
	var out []site
	var rec func(v reflect.Value, path []step)
	cp := func(p []step, s step) []step { return append(append([]step(nil), p...), s) }
	rec = func(v reflect.Value, path []step) {
		v = settable(v)
		t := v.Type()
		if _, ok := elems[t]; ok {
			out = append(out, site{path, "elem", t})
			return
		}
		switch v.Kind() {
		case reflect.Ptr:
			if !v.IsNil() {
				rec(v.Elem(), path)
			}
		case reflect.Struct:
			for i := 0; i < v.NumField(); i++ {
				rec(v.Field(i), cp(path, step{field: t.Field(i).Name}))
			}
		case reflect.Slice:
			if t.Elem().Kind() == reflect.Uint8 {
				out = append(out, site{path, "bytes", t})
				return
			}
			out = append(out, site{path, "slice", t})
			for _, i := range sampleIdx(v.Len(), rng, maxPerSlice) {
				rec(v.Index(i), cp(path, step{index: i}))
			}
		case reflect.Array:
			for _, i := range sampleIdx(v.Len(), rng, maxPerSlice) {
				rec(v.Index(i), cp(path, step{index: i}))
			}
		case reflect.Uint64, reflect.Uint32, reflect.Uint:
			out = append(out, site{path, "uint", t})
		case reflect.Int, reflect.Int64:
			out = append(out, site{path, "int", t})
		}
	}
	rec(root, nil)
	return out
}

func sampleIdx(n int, rng *gen.Rng, max int) []int {
	if n <= max {
		r := make([]int, n)
		for i := range r {
			r[i] = i
		}
		return r
	}
	seen := map[int]bool{}
	var r []int
	for _, i := range []int{0, 1, n / 2, n - 1, rng.Intn(n)} {
		if !seen[i] {
			seen[i] = true
			r = append(r, i)
		}
	}
	return r
}

var leafKinds = map[string][]string{
	"elem":  {"zero", "random", "other", "shift"},
	"bytes": {"zero", "random", "other", "shift", "truncated", "empty"},
	"uint":  {"zero", "random", "other", "shift", "minus1", "huge"},
	"int":   {"zero", "random", "other", "shift", "minus1", "negative", "huge"},
	"slice": {"drop-last", "dup-last", "swap-first-two", "nil"},
}

// shapePreserving tells whether a substitution keeps the proof well-formed (same lengths).
func shapePreserving(siteKind, kind string) bool {
	if siteKind == "slice" {
		return false
	}
	return kind != "truncated" && kind != "empty"
}

// substitute applies kind at the site of dst; other is the same site in an unrelated honest object
// (invalid Value if there is none). Returns false when the substitution does not apply.
func substitute(dst reflect.Value, other reflect.Value, s site, kind string, elems map[reflect.Type]*elemOps, rng *gen.Rng) bool {
	switch s.kind {
	case "elem":
		ops := elems[s.typ]
		cur := ops.toBig(dst)
		var nv *big.Int
		switch kind {
		case "zero":
			nv = new(big.Int)
		case "random":
			nv = rng.BigBelow(ops.mod)
		case "other":
			if !other.IsValid() {
				return false
			}
			nv = ops.toBig(other)
		case "shift":
			nv = new(big.Int).Add(cur, big.NewInt(1))
			nv.Mod(nv, ops.mod)
		}
		if nv.Cmp(cur) == 0 {
			return false
		}
		ops.fromBig(dst, nv)
		return true
	case "bytes":
		cur := dst.Bytes()
		var nb []byte
		switch kind {
		case "zero":
			nb = make([]byte, len(cur))
		case "random":
			n := len(cur)
			if n == 0 {
				n = 8 // an unset field (e.g. ProofOfProximity.ID) receives some bytes
			}
			nb = rng.Bytes(n)
		case "other":
			if !other.IsValid() {
				return false
			}
			nb = append([]byte(nil), other.Bytes()...)
		case "shift":
			if len(cur) == 0 {
				return false
			}
			x := new(big.Int).SetBytes(cur)
			x.Add(x, big.NewInt(1))
			nb = make([]byte, len(cur))
			lim := new(big.Int).Lsh(big.NewInt(1), uint(8*len(cur)))
			x.Mod(x, lim)
			x.FillBytes(nb)
		case "truncated":
			if len(cur) == 0 {
				return false
			}
			nb = append([]byte(nil), cur[:len(cur)-1]...)
		case "empty":
			if len(cur) == 0 {
				return false
			}
			nb = []byte{}
		}
		if string(nb) == string(cur) {
			return false
		}
		dst.SetBytes(nb)
		return true
	case "uint":
		cur := dst.Uint()
		var nv uint64
		switch kind {
		case "zero":
			nv = 0
		case "random":
			nv = uint64(rng.Intn(1 << 20))
		case "other":
			if !other.IsValid() {
				return false
			}
			nv = other.Uint()
		case "shift":
			nv = cur + 1
		case "minus1":
			nv = cur - 1
		case "huge":
			nv = cur | 1<<63
		}
		if nv == cur {
			return false
		}
		dst.SetUint(nv)
		return true
	case "int":
		cur := dst.Int()
		var nv int64
		switch kind {
		case "zero":
			nv = 0
		case "random":
			nv = int64(rng.Intn(1 << 12))
		case "other":
			if !other.IsValid() {
				return false
			}
			nv = other.Int()
		case "shift":
			nv = cur + 1
		case "minus1":
			nv = cur - 1
		case "negative":
			nv = -cur - 1
		case "huge":
			nv = cur | 1<<40
		}
		if nv == cur {
			return false
		}
		dst.SetInt(nv)
		return true
	case "slice":
		n := dst.Len()
		switch kind {
		case "drop-last":
			if n == 0 {
				return false
			}
			dst.Set(dst.Slice(0, n-1))
		case "dup-last":
			if n == 0 {
				return false
			}
			e := reflect.New(dst.Type().Elem()).Elem()
			deepCopy(e, dst.Index(n-1))
			dst.Set(reflect.Append(dst, e))
		case "swap-first-two":
			if n < 2 || reflect.DeepEqual(dst.Index(0).Interface(), dst.Index(1).Interface()) {
				return false
			}
			a := reflect.New(dst.Type().Elem()).Elem()
			deepCopy(a, dst.Index(0))
			dst.Index(0).Set(dst.Index(1))
			dst.Index(1).Set(a)
		case "nil":
			if dst.IsNil() {
				return false
			}
			dst.Set(reflect.Zero(dst.Type()))
		}
		return true
	}
	return false
}

// tryResolve resolves a path in another object, returning an invalid Value when it does not exist there.
func tryResolve(root reflect.Value, path []step) (v reflect.Value) {
	defer func() {
		if recover() != nil {
			v = reflect.Value{}
		}
	}()
	return resolve(root, path)
}
