package main

// FRI: honest proofs, targeted forgeries (one specification check violated at a time), and
// reflection-driven single-field substitutions, for one curve. Generic over the seven generated
// packages ecc/<curve>/fr/fri.

import (
	"bytes"
	"crypto/sha256"
	"crypto/sha512"
	"fmt"
	"hash"
	"math/big"
	"reflect"
	"strings"

	"verif/harness/gen"
	"verif/harness/mon"
)

type iopp[E, PP, OP any] interface {
	BuildProofOfProximity(p []E) (PP, error)
	VerifyProofOfProximity(proof PP) error
	Open(p []E, position uint64) (OP, error)
	VerifyOpening(position uint64, openingProof OP, pp PP) error
}

type elemPtr[E any] interface {
	*E
	SetBigInt(*big.Int) *E
	BigInt(*big.Int) *big.Int
}

type friRunner struct {
	name string
	run  func(c *mon.Ctx, hashName string, size uint64, rep int)
}

type friEnv[E any, P elemPtr[E], PP, OP any] struct {
	c      *mon.Ctx
	name   string // curve
	mod    *big.Int
	nbytes int
	gen    func(uint64) *big.Int
	newFn  func(uint64, hash.Hash) iopp[E, PP, OP]
	elems  map[reflect.Type]*elemOps

	// per (hash,size)
	hname string
	size  uint64
	spec  *friSpec
	iop   iopp[E, PP, OP]
	rng   *gen.Rng
	pre   string // key prefix fri/<curve>
	cls   string // class prefix
}

func mkFri[E any, P elemPtr[E], PP, OP any](name string, mod *big.Int, nbytes int, gen func(uint64) *big.Int, newFn func(uint64, hash.Hash) iopp[E, PP, OP]) friRunner {
	return friRunner{name, func(c *mon.Ctx, hashName string, size uint64, rep int) {
		e := &friEnv[E, P, PP, OP]{c: c, name: name, mod: mod, nbytes: nbytes, gen: gen, newFn: newFn}
		var zero E
		e.elems = map[reflect.Type]*elemOps{reflect.TypeOf(zero): {
			mod:     mod,
			toBig:   func(v reflect.Value) *big.Int { return P(v.Addr().Interface().(*E)).BigInt(new(big.Int)) },
			fromBig: func(v reflect.Value, x *big.Int) { P(v.Addr().Interface().(*E)).SetBigInt(x) },
		}}
		e.runSize(hashName, size, rep)
	}}
}

func hashByName(n string) func() hash.Hash {
	if n == "sha512" {
		return sha512.New
	}
	return sha256.New
}

func (e *friEnv[E, P, PP, OP]) el(x *big.Int) E {
	var v E
	P(&v).SetBigInt(x)
	return v
}

func (e *friEnv[E, P, PP, OP]) els(p []*big.Int) []E {
	r := make([]E, len(p))
	for i := range p {
		r[i] = e.el(p[i])
	}
	return r
}

// ---- reflection bridges between the library's proof objects and the model's ----

func (e *friEnv[E, P, PP, OP]) toSpec(pp *PP) sproof {
	v := reflect.ValueOf(pp).Elem()
	sp := sproof{ID: rfield(v, "ID").Bytes()}
	rounds := rfield(v, "Rounds")
	for i := 0; i < rounds.Len(); i++ {
		rv := rounds.Index(i)
		var r sround
		inter := rfield(rv, "Interactions")
		r.Inter = make([][2]mproof, inter.Len())
		for s := 0; s < inter.Len(); s++ {
			for j := 0; j < 2; j++ {
				m := inter.Index(s).Index(j)
				ps := rfield(m, "ProofSet")
				var set [][]byte
				for k := 0; k < ps.Len(); k++ {
					set = append(set, ps.Index(k).Bytes())
				}
				r.Inter[s][j] = mproof{Root: rfield(m, "MerkleRoot").Bytes(), Set: set, NumLeaves: rfield(m, "numLeaves").Uint()}
			}
		}
		r.Eval = e.elems[reflect.TypeOf(*new(E))].toBig(rfield(rv, "Evaluation"))
		sp.Rounds = append(sp.Rounds, r)
	}
	return sp
}

func cloneSet(s [][]byte) [][]byte {
	if s == nil {
		return nil
	}
	r := make([][]byte, len(s))
	for i := range s {
		r[i] = append([]byte(nil), s[i]...)
	}
	return r
}

func (e *friEnv[E, P, PP, OP]) fromSpec(sp sproof) *PP {
	pp := new(PP)
	v := reflect.ValueOf(pp).Elem()
	if sp.ID != nil {
		rfield(v, "ID").SetBytes(append([]byte(nil), sp.ID...))
	}
	rounds := rfield(v, "Rounds")
	rounds.Set(reflect.MakeSlice(rounds.Type(), len(sp.Rounds), len(sp.Rounds)))
	for i, r := range sp.Rounds {
		rv := rounds.Index(i)
		inter := rfield(rv, "Interactions")
		inter.Set(reflect.MakeSlice(inter.Type(), len(r.Inter), len(r.Inter)))
		for s := range r.Inter {
			for j := 0; j < 2; j++ {
				m := inter.Index(s).Index(j)
				rfield(m, "MerkleRoot").SetBytes(append([]byte(nil), r.Inter[s][j].Root...))
				rfield(m, "ProofSet").Set(reflect.ValueOf(cloneSet(r.Inter[s][j].Set)))
				rfield(m, "numLeaves").SetUint(r.Inter[s][j].NumLeaves)
			}
		}
		e.elems[reflect.TypeOf(*new(E))].fromBig(rfield(rv, "Evaluation"), r.Eval)
	}
	return pp
}

func (e *friEnv[E, P, PP, OP]) openToSpec(op *OP) sopen {
	v := reflect.ValueOf(op).Elem()
	ps := rfield(v, "ProofSet")
	var set [][]byte
	for k := 0; k < ps.Len(); k++ {
		set = append(set, ps.Index(k).Bytes())
	}
	return sopen{Root: rfield(v, "merkleRoot").Bytes(), Set: set, NumLeaves: rfield(v, "numLeaves").Uint(),
		Index: rfield(v, "index").Uint(), Claimed: e.elems[reflect.TypeOf(*new(E))].toBig(rfield(v, "ClaimedValue"))}
}

func (e *friEnv[E, P, PP, OP]) openFromSpec(o sopen) *OP {
	op := new(OP)
	v := reflect.ValueOf(op).Elem()
	rfield(v, "merkleRoot").SetBytes(append([]byte(nil), o.Root...))
	rfield(v, "ProofSet").Set(reflect.ValueOf(cloneSet(o.Set)))
	rfield(v, "numLeaves").SetUint(o.NumLeaves)
	rfield(v, "index").SetUint(o.Index)
	e.elems[reflect.TypeOf(*new(E))].fromBig(rfield(v, "ClaimedValue"), o.Claimed)
	return op
}

func sproofEqual(a, b sproof) bool {
	if len(a.Rounds) != len(b.Rounds) {
		return false
	}
	for i := range a.Rounds {
		x, y := a.Rounds[i], b.Rounds[i]
		if x.Eval.Cmp(y.Eval) != 0 || len(x.Inter) != len(y.Inter) {
			return false
		}
		for s := range x.Inter {
			for j := 0; j < 2; j++ {
				p, q := x.Inter[s][j], y.Inter[s][j]
				if !bytes.Equal(p.Root, q.Root) || p.NumLeaves != q.NumLeaves || len(p.Set) != len(q.Set) {
					return false
				}
				for k := range p.Set {
					if !bytes.Equal(p.Set[k], q.Set[k]) {
						return false
					}
				}
			}
		}
	}
	return true
}

func describeSproof(sp sproof) string {
	var b strings.Builder
	for ri, r := range sp.Rounds {
		fmt.Fprintf(&b, "round%d{eval=%s", ri, r.Eval.Text(16))
		for s := range r.Inter {
			for j := 0; j < 2; j++ {
				m := r.Inter[s][j]
				leaf := ""
				if len(m.Set) > 0 {
					leaf = fmt.Sprintf("%x", m.Set[0])
				}
				fmt.Fprintf(&b, " [%d][%d]{root=%x.. n=%d set=%d leaf=%s}", s, j, m.Root[:min(6, len(m.Root))], m.NumLeaves, len(m.Set), leaf)
			}
		}
		b.WriteString("}")
	}
	s := b.String()
	if len(s) > 1800 {
		s = s[:1800] + "…"
	}
	return s
}

// ---- judging one (possibly forged) proof ----

// judge runs the library verifier on pp and compares with the model. origin names the forgery
// (targeted:<kind> or subst:<path>:<kind>); wellFormed tells whether the object keeps the shape
// of an honest proof.
func (e *friEnv[E, P, PP, OP]) judge(origin string, pp *PP, wellFormed bool, what func() string) (accepted bool, fails failSet) {
	c := e.c
	sp := e.toSpec(pp)
	fails = e.spec.verify(sp)
	var err error
	panicked, pv := mon.Try(func() { err = e.iop.VerifyProofOfProximity(*pp) })
	c.Eval("fri.VerifyProofOfProximity/forged", 1)
	desc := func() string {
		return fmt.Sprintf("%s hash=%s size=%d N=%d steps=%d origin=%s: %s; model: failing checks=%s; library: panicked=%v (%v) err=%v; proof=%s",
			e.name, e.hname, e.size, e.spec.N, e.spec.k, origin, what(), fails, panicked, pv, err, describeSproof(sp))
	}
	if panicked {
		c.AddExtra("fri_panics_on_forged", 1)
		if wellFormed {
			c.Fail(e.pre+"/VerifyProofOfProximity/panic-on-forged/"+originKey(origin), "%s", desc())
		}
		return false, fails
	}
	if err == nil && len(fails) > 0 {
		c.Fail(e.pre+"/VerifyProofOfProximity/accepted-forgery/"+fails.String()+"/"+originKey(origin), "%s", desc())
	}
	if err != nil && len(fails) == 0 {
		c.AddExtra("fri_library_rejects_model_accepts", 1)
	}
	if err != nil {
		c.AddExtra("fri_forged_rejected", 1)
	} else if len(fails) == 0 {
		c.AddExtra("fri_altered_but_still_valid_accepted", 1)
		c.Class(e.pre + "/still-valid-after/" + originKey(origin))
	}
	return err == nil, fails
}

// originKey drops the per-case parameters (step numbers etc. after '@').
func originKey(o string) string {
	if i := strings.Index(o, "@"); i >= 0 {
		return o[:i]
	}
	return o
}

func (e *friEnv[E, P, PP, OP]) judgeOpening(origin string, position uint64, op *OP, pp *PP, wellFormed bool, what func() string) {
	c := e.c
	so := e.openToSpec(op)
	spp := e.toSpec(pp)
	fails := e.spec.verifyOpening(position, so, spp)
	var err error
	panicked, pv := mon.Try(func() { err = e.iop.VerifyOpening(position, *op, *pp) })
	c.Eval("fri.VerifyOpening/forged", 1)
	desc := func() string {
		leaf := ""
		if len(so.Set) > 0 {
			leaf = fmt.Sprintf("%x", so.Set[0])
		}
		return fmt.Sprintf("%s hash=%s size=%d N=%d origin=%s: %s; position=%d opening{root=%x numLeaves=%d index=%d set=%d leaf=%s claimed=%s}; model: failing checks=%s; library: panicked=%v (%v) err=%v",
			e.name, e.hname, e.size, e.spec.N, origin, what(), position, so.Root, so.NumLeaves, so.Index, len(so.Set), leaf, so.Claimed.Text(16), fails, panicked, pv, err)
	}
	if panicked {
		c.AddExtra("fri_panics_on_forged", 1)
		if wellFormed {
			c.Fail(e.pre+"/VerifyOpening/panic-on-forged/"+originKey(origin), "%s", desc())
		}
		return
	}
	if err == nil && len(fails) > 0 {
		c.Fail(e.pre+"/VerifyOpening/accepted-forgery/"+fails.String()+"/"+originKey(origin), "%s", desc())
	}
	if err != nil {
		c.AddExtra("fri_forged_rejected", 1)
	}
}

// expect asserts that the forgery violates what it is meant to violate (harness self-check).
func (e *friEnv[E, P, PP, OP]) expect(origin string, fails failSet, required, allowed []string) bool {
	if !fails.within(required, allowed) {
		e.c.Inconclusive("forgery %s for %s size=%d does not violate the intended checks: model fails %s, wanted %v (+%v)", origin, e.name, e.size, fails, required, allowed)
		return false
	}
	return true
}

// ---- polynomials ----

type polyCase struct {
	cls string
	p   []*big.Int
}

func (e *friEnv[E, P, PP, OP]) randPoly(n int) []*big.Int {
	p := make([]*big.Int, n)
	for i := range p {
		p[i] = e.rng.BigBelow(e.mod)
	}
	return p
}

func (e *friEnv[E, P, PP, OP]) polys() []polyCase {
	n := int(e.size)
	var r []polyCase
	nr := e.c.Pick(2, 5)
	if n >= 1024 {
		nr = 1
	}
	for i := 0; i < nr; i++ {
		r = append(r, polyCase{"random-full", e.randPoly(n)})
	}
	if n >= 1024 && !e.c.Thorough() {
		return r
	}
	m1 := new(big.Int).Sub(e.mod, big.NewInt(1))
	mono := make([]*big.Int, n)
	allm := make([]*big.Int, n)
	for i := range mono {
		mono[i] = new(big.Int)
		allm[i] = m1
	}
	mono[n-1] = big.NewInt(1)
	r = append(r,
		polyCase{"zero", []*big.Int{}},
		polyCase{"constant", []*big.Int{e.rng.BigBelow(e.mod)}},
		polyCase{"top-monomial", mono},
		polyCase{"all-minus-one", allm})
	if n >= 3 {
		r = append(r, polyCase{"random-shorter", e.randPoly(n/2 + 1)})
	}
	return r
}

// ---- the run for one (hash, size) ----

func (e *friEnv[E, P, PP, OP]) runSize(hname string, size uint64, rep int) {
	c := e.c
	e.hname, e.size = hname, size
	e.pre = "fri/" + e.name
	e.cls = fmt.Sprintf("fri/%s/%s/size%d", e.name, hname, size)
	e.rng = gen.New(c.Seed, fmt.Sprintf("c17d/fri/%s/%s/%d/%d", e.name, hname, size, rep))
	newH := hashByName(hname)
	n0 := nextPow2(size)
	e.spec = newFriSpec(e.mod, e.nbytes, size, e.gen(uint64(friRho*n0)), newH)
	if !e.spec.genOK() {
		c.Inconclusive("%s: domain generator of order %d is not primitive", e.name, e.spec.N)
		return
	}
	if c.Guard(e.pre+"/New/panic", func() string { return fmt.Sprint("size=", size) }, func() { e.iop = e.newFn(size, newH()) }) {
		return
	}
	if e.spec.k == 0 {
		e.runDegenerate()
		return
	}
	polys := e.polys()
	other := e.randPoly(int(size)) // the unrelated honest statement
	var otherPP PP
	var err error
	if c.Guard(e.pre+"/BuildProofOfProximity/panic", func() string { return e.cls }, func() { otherPP, err = e.iop.BuildProofOfProximity(e.els(other)) }) || err != nil {
		if err != nil {
			c.Fail(e.pre+"/BuildProofOfProximity/error", "%s: %v", e.cls, err)
		}
		return
	}
	for pi, pc := range polys {
		c.Current(fmt.Sprintf("%s poly %d %s", e.cls, pi, pc.cls))
		e.onePoly(pi, pc, other, &otherPP)
	}
	e.highDegree()
}

func (e *friEnv[E, P, PP, OP]) runDegenerate() {
	// size 1: no folding step, nothing is committed. The prover returns a proof; the verifier is
	// expected to accept it (or to refuse the parameters), not to crash.
	c := e.c
	p := e.randPoly(1)
	var pp PP
	var err error
	if c.Guard(e.pre+"/BuildProofOfProximity/panic/size=1", func() string { return e.cls }, func() { pp, err = e.iop.BuildProofOfProximity(e.els(p)) }) {
		return
	}
	if err != nil {
		c.Note("%s: BuildProofOfProximity refuses size 1: %v", e.name, err)
		return
	}
	var verr error
	if !c.Guard(e.pre+"/VerifyProofOfProximity/panic/honest-proof-size=1", func() string {
		return fmt.Sprintf("%s: New(size=1) and BuildProofOfProximity succeed (0 folding steps, proof=%s), VerifyProofOfProximity on that proof panics", e.cls, describeSproof(e.toSpec(&pp)))
	}, func() { verr = e.iop.VerifyProofOfProximity(pp) }) {
		c.Check("fri.VerifyProofOfProximity/honest", e.pre+"/VerifyProofOfProximity/honest-rejected/size=1", verr == nil, func() string { return fmt.Sprintf("%s err=%v", e.cls, verr) })
	}
	c.Eval("fri.VerifyProofOfProximity/honest", 1)
	c.Class(e.cls + "/honest/degenerate")
}

func (e *friEnv[E, P, PP, OP]) onePoly(pi int, pc polyCase, other []*big.Int, otherPP *PP) {
	c := e.c
	var pp PP
	var err error
	lp := e.els(pc.p)
	if c.Guard(e.pre+"/BuildProofOfProximity/panic", func() string { return e.cls + "/" + pc.cls }, func() { pp, err = e.iop.BuildProofOfProximity(lp) }) {
		return
	}
	if err != nil {
		c.Fail(e.pre+"/BuildProofOfProximity/error/"+pc.cls, "%s: %v", e.cls, err)
		return
	}
	// (1) completeness
	var verr error
	if c.Guard(e.pre+"/VerifyProofOfProximity/panic/honest", func() string { return e.cls + "/" + pc.cls }, func() { verr = e.iop.VerifyProofOfProximity(pp) }) {
		return
	}
	sp := e.toSpec(&pp)
	c.Check("fri.VerifyProofOfProximity/honest", e.pre+"/VerifyProofOfProximity/honest-rejected/"+pc.cls, verr == nil, func() string {
		return fmt.Sprintf("%s poly=%s len=%d err=%v proof=%s", e.cls, pc.cls, len(pc.p), verr, describeSproof(sp))
	})
	fails := e.spec.verify(sp)
	c.Check("fri.Build/model-verifier", e.pre+"/BuildProofOfProximity/honest-proof-fails-spec-check/"+fails.String(), len(fails) == 0, func() string {
		return fmt.Sprintf("%s poly=%s len=%d: the prover's proof fails the specification checks %s; proof=%s", e.cls, pc.cls, len(pc.p), fails, describeSproof(sp))
	})
	c.Class(e.cls + "/honest/" + pc.cls)
	mine := e.spec.prove(pc.p, friHooks{})
	if !sproofEqual(mine, sp) {
		c.AddExtra("fri_prover_differs_from_model_prover", 1)
		c.Note("%s poly=%s: library proof differs from the model prover's proof (both may be valid)", e.cls, pc.cls)
	} else {
		c.AddExtra("fri_prover_equals_model_prover", 1)
	}
	// the model prover's proof must be accepted as well (same statement, same deterministic protocol)
	if pi == 0 {
		mp := e.fromSpec(mine)
		var merr error
		if !c.Guard(e.pre+"/VerifyProofOfProximity/panic/honest", func() string { return e.cls }, func() { merr = e.iop.VerifyProofOfProximity(*mp) }) {
			c.Check("fri.VerifyProofOfProximity/honest", e.pre+"/VerifyProofOfProximity/honest-rejected/model-prover", merr == nil, func() string {
				return fmt.Sprintf("%s poly=%s err=%v proof=%s", e.cls, pc.cls, merr, describeSproof(mine))
			})
		}
	}
	if verr != nil || len(fails) != 0 {
		return
	}
	// (2) openings
	e.openings(pi, pc, &pp, other, otherPP)
	// (3) targeted forgeries and untargeted substitutions on the proof of proximity
	if pi < 2 || pc.cls == "zero" {
		e.targeted(pc)
		e.substitutions(&pp, otherPP)
	}
}

// ---- openings ----

func (e *friEnv[E, P, PP, OP]) openings(pi int, pc polyCase, pp *PP, other []*big.Int, otherPP *PP) {
	c := e.c
	N := uint64(e.spec.N)
	lp := e.els(pc.p)
	positions := []uint64{0, 1, N/2 - 1, N / 2, N - 1, uint64(e.rng.Intn(int(N))), uint64(e.rng.Intn(int(N)))}
	if pi > 0 {
		positions = positions[4:]
	} else if e.c.Thorough() && N <= 64 {
		positions = positions[:0]
		for q := uint64(0); q < N; q++ {
			positions = append(positions, q) // every point of the domain
		}
	}
	seen := map[uint64]bool{}
	first := true
	for _, pos := range positions {
		if seen[pos] {
			continue
		}
		seen[pos] = true
		var op OP
		var err error
		if c.Guard(e.pre+"/Open/panic", func() string { return fmt.Sprintf("%s pos=%d", e.cls, pos) }, func() { op, err = e.iop.Open(lp, pos) }) {
			continue
		}
		if err != nil {
			c.Fail(e.pre+"/Open/error", "%s pos=%d err=%v", e.cls, pos, err)
			continue
		}
		so := e.openToSpec(&op)
		y := e.spec.horner(pc.p, e.spec.pow(e.spec.gen, int(pos)))
		c.Check("fri.Open", e.pre+"/Open/claimed-value-wrong", so.Claimed.Cmp(y) == 0, func() string {
			return fmt.Sprintf("%s poly=%s position=%d claimed=%s want p(g^position)=%s", e.cls, pc.cls, pos, so.Claimed.Text(16), y.Text(16))
		})
		var verr error
		if c.Guard(e.pre+"/VerifyOpening/panic/honest", func() string { return fmt.Sprintf("%s pos=%d", e.cls, pos) }, func() { verr = e.iop.VerifyOpening(pos, op, *pp) }) {
			continue
		}
		c.Check("fri.VerifyOpening/honest", e.pre+"/VerifyOpening/honest-rejected", verr == nil, func() string {
			return fmt.Sprintf("%s poly=%s position=%d err=%v", e.cls, pc.cls, pos, verr)
		})
		fails := e.spec.verifyOpening(pos, so, e.toSpec(pp))
		c.Check("fri.Open/model-verifier", e.pre+"/Open/honest-opening-fails-spec-check/"+fails.String(), len(fails) == 0, func() string {
			return fmt.Sprintf("%s poly=%s position=%d: failing %s; opening root=%x numLeaves=%d index=%d", e.cls, pc.cls, pos, fails, so.Root, so.NumLeaves, so.Index)
		})
		c.Class(fmt.Sprintf("%s/opening-honest/%s", e.cls, posClass(pos, N)))
		if verr != nil || len(fails) != 0 || (!first && pi > 0) {
			continue
		}
		// targeted opening forgeries
		what := func() string { return "honest opening of poly " + pc.cls }
		for _, k := range []string{"shift", "zero", "random"} {
			f := cloneOf(&op)
			v := rfield(reflect.ValueOf(f).Elem(), "ClaimedValue")
			if substitute(v, reflect.Value{}, site{kind: "elem", typ: v.Type()}, k, e.elems, e.rng) {
				fs := e.spec.verifyOpening(pos, e.openToSpec(f), e.toSpec(pp))
				if e.expect("claimed-value-"+k, fs, []string{"claimed"}, nil) {
					e.judgeOpening("targeted:claimed-value-changed", pos, f, pp, true, func() string { return what() + ", ClaimedValue " + k })
				}
			}
		}
		// opening of an unrelated polynomial (internally consistent) against this proof of proximity
		var oop OP
		if !c.Guard(e.pre+"/Open/panic", func() string { return e.cls }, func() { oop, err = e.iop.Open(e.els(other), pos) }) && err == nil {
			e.judgeOpening("targeted:opening-of-other-polynomial", pos, &oop, pp, true, func() string { return "opening of an unrelated polynomial at the same position" })
			e.judgeOpening("targeted:proof-of-proximity-of-other-polynomial", pos, &op, otherPP, true, func() string { return "honest opening against the proof of proximity of an unrelated polynomial" })
		}
		// honest opening presented for other positions
		for _, q := range []uint64{pos ^ 1, (pos + N/2) % N, (pos + 1) % N, N - 1 - pos, pos + N, pos | 1<<40} {
			if q != pos {
				e.judgeOpening("targeted:position-changed", q, &op, pp, true, func() string { return fmt.Sprintf("honest opening for position %d presented for position %d", pos, q) })
			}
		}
		// tree size
		for _, nl := range []uint64{N - 1, N / 2, N + 1, 2 * N, 0} {
			f := cloneOf(&op)
			rfield(reflect.ValueOf(f).Elem(), "numLeaves").SetUint(nl)
			e.judgeOpening("targeted:numLeaves-changed", pos, f, pp, true, func() string { return fmt.Sprintf("numLeaves %d instead of %d", nl, N) })
		}
		// the same root opened as a tree of N/2 leaves: the "leaf" at sorted index s is the pair of leaf hashes
		// (2s, 2s+1) of the real tree, so one commitment opens the same position to two different values
		if s := sortedIndex(int(pos), int(N)); pos < N && s < int(N)/2 && len(so.Set) >= 2 {
			h := e.spec.newH()
			ev := e.spec.evalDomain(pc.p)
			srt := toSorted(ev)
			leaves := make([][]byte, len(srt))
			for j, v := range srt {
				leaves[j] = e.spec.enc(v)
			}
			tr := buildTree(h, leaves)
			node := append(append([]byte(nil), tr.levels[0][2*s]...), tr.levels[0][2*s+1]...)
			set := [][]byte{node}
			idx := s
			for l := 1; l < len(tr.levels)-1; l++ {
				set = append(set, tr.levels[l][idx^1])
				idx >>= 1
			}
			o := sopen{Root: tr.root(), Set: set, NumLeaves: N / 2, Index: uint64(s), Claimed: e.spec.dec(node)}
			if fs := e.spec.verifyOpening(pos, o, e.toSpec(pp)); e.expect("inner-node-as-leaf", fs, []string{"merkle"}, nil) && o.Claimed.Cmp(so.Claimed) != 0 {
				e.judgeOpening("targeted:inner-node-opened-as-leaf", pos, e.openFromSpec(o), pp, true, func() string {
					return fmt.Sprintf("same root, numLeaves=N/2, leaf = H(leaf %d)||H(leaf %d) of the committed tree, claimed value = that string mod r (the honest opening of the same position claims %s)", 2*s, 2*s+1, so.Claimed.Text(16))
				})
			}
		}
		c.Class(fmt.Sprintf("%s/opening-forged/%s", e.cls, posClass(pos, N)))
		// untargeted substitutions of every field of the opening proof
		if first {
			first = false
			var otherOp *OP
			if err == nil {
				otherOp = &oop
			}
			e.substOpening(pos, &op, otherOp, pp)
		}
	}
	// out-of-range positions are refused by the prover
	for _, pos := range []uint64{N, N + 1, 1 << 40} {
		var err error
		if !c.Guard(e.pre+"/Open/panic/out-of-range", func() string { return fmt.Sprintf("%s pos=%d", e.cls, pos) }, func() { _, err = e.iop.Open(lp, pos) }) {
			c.Check("fri.Open", e.pre+"/Open/out-of-range-accepted", err != nil, func() string { return fmt.Sprintf("%s position=%d N=%d", e.cls, pos, N) })
		}
	}
}

func posClass(pos, N uint64) string {
	switch {
	case pos == 0:
		return "pos0"
	case pos == N-1:
		return "last"
	case pos == N/2 || pos == N/2-1:
		return "middle"
	case pos < N/2:
		return "first-half"
	}
	return "second-half"
}

func (e *friEnv[E, P, PP, OP]) substOpening(pos uint64, op, other *OP, pp *PP) {
	root := reflect.ValueOf(op).Elem()
	sites := discover(root, e.elems, e.rng, 6)
	for _, s := range sites {
		gp := s.generic(root)
		for _, k := range leafKinds[s.kind] {
			f := cloneOf(op)
			var ov reflect.Value
			if other != nil {
				ov = tryResolve(reflect.ValueOf(other).Elem(), s.path)
			}
			if !substitute(resolve(reflect.ValueOf(f).Elem(), s.path), ov, s, k, e.elems, e.rng) {
				continue
			}
			e.judgeOpening("subst:OpeningProof."+gp+":"+k, pos, f, pp, shapePreserving(s.kind, k), func() string { return "field " + s.exact() + " <- " + k })
			e.c.Class(fmt.Sprintf("%s/opening-subst/%s/%s", e.cls, gp, k))
		}
	}
}

// ---- untargeted substitutions of the proof of proximity ----

func (e *friEnv[E, P, PP, OP]) substitutions(pp, other *PP) {
	root := reflect.ValueOf(pp).Elem()
	sites := discover(root, e.elems, e.rng, 8)
	// whole-component substitutions: one step (both openings) / one opening from the unrelated proof
	sp, so := e.toSpec(pp), e.toSpec(other)
	for i := 0; i < e.spec.k && i < len(so.Rounds[0].Inter); i++ {
		f := e.toSpec(pp)
		f.Rounds[0].Inter[i] = so.Rounds[0].Inter[i]
		if !reflect.DeepEqual(f.Rounds[0].Inter[i], sp.Rounds[0].Inter[i]) {
			e.judge("subst:Rounds.Interactions:step-from-other-proof", e.fromSpec(f), true, func() string { return fmt.Sprintf("step %d (both openings) taken from an unrelated honest proof", i) })
		}
		for j := 0; j < 2; j++ {
			f := e.toSpec(pp)
			f.Rounds[0].Inter[i][j] = so.Rounds[0].Inter[i][j]
			e.judge(fmt.Sprintf("subst:Rounds.Interactions.%d:opening-from-other-proof", j), e.fromSpec(f), len(f.Rounds[0].Inter[i][j].Set) == len(sp.Rounds[0].Inter[i][j].Set),
				func() string { return fmt.Sprintf("opening [%d][%d] taken from an unrelated honest proof", i, j) })
		}
		e.c.Class(e.cls + "/subst/Rounds.Interactions/component-from-other-proof")
	}
	for _, s := range sites {
		gp := s.generic(root)
		for _, k := range leafKinds[s.kind] {
			f := cloneOf(pp)
			ov := tryResolve(reflect.ValueOf(other).Elem(), s.path)
			if !substitute(resolve(reflect.ValueOf(f).Elem(), s.path), ov, s, k, e.elems, e.rng) {
				continue
			}
			e.judge("subst:"+gp+":"+k, f, shapePreserving(s.kind, k), func() string { return "field " + s.exact() + " <- " + k })
			e.c.Class(fmt.Sprintf("%s/subst/%s/%s", e.cls, gp, k))
		}
	}
}

// ---- targeted forgeries ----

func (e *friEnv[E, P, PP, OP]) targeted(pc polyCase) {
	f := e.spec
	c := e.c
	ev := f.evalDomain(pc.p)
	one := big.NewInt(1)
	try := func(kind string, sp sproof, required, allowed []string, what string) {
		fails := f.verify(sp)
		ek := e.pre + "/" + originKey(kind)
		if len(fails) == 0 {
			// the altered object happens to be a valid proof (e.g. the derived position did not move)
			noteEffect(ek, false)
			c.AddExtra("fri_forgery_coincidentally_valid", 1)
			return
		}
		if !e.expect(kind, fails, required, allowed) {
			return
		}
		noteEffect(ek, true)
		c.SampleOnce("fri/"+originKey(kind), map[string]any{"curve": e.name, "hash": e.hname, "size": e.size, "forgery": what, "specification checks violated": fails.String()})
		e.judge("targeted:"+kind, e.fromSpec(sp), true, func() string { return what })
		c.Class(e.cls + "/targeted/" + originKey(kind))
	}
	mk := func(hk friHooks) sproof {
		return sproof{Rounds: []sround{f.openChain(f.commitChain(0, ev, hk))}}
	}
	honestCh := f.commitChain(0, ev, friHooks{})

	// final evaluation replaced (openings re-derived for the new transcript)
	try("final-evaluation-changed", mk(friHooks{eval: func(h *big.Int) *big.Int { return f.add(h, one) }}), []string{"final"}, nil,
		"prover announces evaluation+1 and answers the queries that follow from it")
	// a step commits to fold+1 (still low degree): only the folding relation into that step breaks
	for _, t := range uniq(1, f.k-1, f.k/2) {
		if t < 1 || t >= f.k {
			continue
		}
		tt := t
		try(fmt.Sprintf("step-not-the-fold-of-previous@%d", t), mk(friHooks{commit: func(step int, h []*big.Int) []*big.Int {
			if step != tt {
				return h
			}
			r := make([]*big.Int, len(h))
			for i := range h {
				r[i] = f.add(h[i], one)
			}
			return r
		}}), []string{"fold"}, nil, fmt.Sprintf("step %d commits to (fold of step %d)+1", t, t-1))
	}
	// consistent proof answered at another position than the transcript-derived one
	for _, d := range []int{2, f.N / 2, 1} {
		dd := d
		allowed := []string{"fold", "final"}
		req := []string{"merkle"}
		try(fmt.Sprintf("answers-at-another-position@+%d", d), mk(friHooks{pos: func(h int) int { return (h + dd) % f.N }}), req, allowed,
			fmt.Sprintf("all openings consistent but at query position+%d", d))
	}
	// transcript deviations
	try("transcript/challenges-not-chained", mk(friHooks{noChain: true}), nil, []string{"merkle", "fold", "final"}, "prover derives each challenge without the previous one")
	try("transcript/salt-changed", mk(friHooks{saltShift: 1}), nil, []string{"merkle", "fold", "final"}, "prover binds salt+1")
	try("transcript/final-evaluation-not-bound", mk(friHooks{noEvalBind: true}), nil, []string{"merkle", "fold", "final"}, "query position derived without the final evaluation")
	if f.k >= 2 {
		for _, t := range uniq(1, f.k-1) {
			try(fmt.Sprintf("transcript/root-not-bound@%d", t), mk(friHooks{skipRootAt: t}), nil, []string{"merkle", "fold", "final"}, fmt.Sprintf("challenge %d derived without the root of step %d", t, t))
		}
	}
	// step-0 pair moved along the kernel of the folding map: only the Merkle openings break
	{
		sp := sproof{Rounds: []sround{f.openChain(honestCh)}}
		s := honestCh.si[0]
		u := f.mul(honestCh.xs[0], f.inv(f.pow(f.gen, s/2)))
		dl := f.sub(u, one) // -(1-u)
		dr := f.add(one, u) // 1+u
		in := &sp.Rounds[0].Inter[0]
		l, r := f.dec(in[0].Set[0]), f.dec(in[1].Set[0])
		in[0].Set[0] = f.enc(f.add(l, dl))
		in[1].Set[0] = f.enc(f.add(r, dr))
		try("leaf-pair-changed-keeping-the-fold", sp, []string{"merkle"}, nil, "both step-0 leaves moved so that the folded value is unchanged; paths untouched")
	}
	// tree sizes: the numLeaves fields are redundant (the verifier derives the sizes from the domain); a proof
	// whose copies are altered still proves the same true statement and the model says so. Counted, not demanded.
	for _, t := range uniq(0, f.k-1) {
		sp := sproof{Rounds: []sround{f.openChain(honestCh)}}
		in := &sp.Rounds[0].Inter[t]
		in[0].NumLeaves--
		in[1].NumLeaves--
		if len(f.verify(sp)) == 0 {
			e.judge(fmt.Sprintf("neutral:numLeaves-minus-one@%d", t), e.fromSpec(sp), true, func() string { return "redundant numLeaves fields altered" })
		}
	}
	// second fibre opening from another tree (its own, unbound, MerkleRoot), statement false
	for _, t := range uniq(0, f.k-1, f.k/2) {
		e.fibreForgery(t, try)
	}
}

func uniq(xs ...int) []int {
	seen := map[int]bool{}
	var r []int
	for _, x := range xs {
		if !seen[x] && x >= 0 {
			seen[x] = true
			r = append(r, x)
		}
	}
	return r
}

// fibreForgery: the prover commits at step 0 to a function that is far from every low-degree
// polynomial (uniform values), folds honestly up to step t, then commits at step t+1 to an
// unrelated low-degree codeword (or, for t = k-1, announces an unrelated final evaluation). The
// folding relation t -> t+1 is false. It is patched through the opening [t][1] only: that leaf is
// replaced by the value the relation wants, and [t][1].MerkleRoot by the root that this leaf
// hashes up to. Every other component is honest; the only specification check that fails is
// "both openings of a step are against the same (transcript-bound) root".
func (e *friEnv[E, P, PP, OP]) fibreForgery(t int, try func(kind string, sp sproof, required, allowed []string, what string)) {
	f := e.spec
	for attempt := 0; attempt < 60; attempt++ {
		garbage := make([]*big.Int, f.N)
		for i := range garbage {
			garbage[i] = e.rng.BigBelow(f.mod)
		}
		hk := friHooks{}
		if t < f.k-1 {
			deg := f.n0 >> (t + 1)
			q := e.randPoly(deg)
			sub := &friSpec{mod: f.mod, N: f.N >> (t + 1), gen: f.pow(f.gen, 1<<(t+1))}
			cw := sub.evalDomain(q)
			tt := t
			hk.commit = func(step int, h []*big.Int) []*big.Int {
				if step == tt+1 {
					return cw
				}
				return h
			}
		} else {
			v := e.rng.BigBelow(f.mod)
			hk.eval = func(*big.Int) *big.Int { return v }
		}
		ch := f.commitChain(0, garbage, hk)
		s := ch.si[t]
		c := s % 2
		if t > 0 && c == 1 {
			continue // [t][1] is also constrained by the previous folding relation: other transcript needed
		}
		var target *big.Int
		if t < f.k-1 {
			target = ch.vec[t+1][ch.si[t+1]]
		} else {
			target = ch.eval
		}
		u := f.mul(ch.xs[t], f.inv(f.pow(ch.gsteps[t], s/2)))
		den := f.sub(big.NewInt(1), u)
		if den.Sign() == 0 {
			continue
		}
		sr := f.openChain(ch)
		in := &sr.Inter[t]
		l := f.dec(in[0].Set[0])
		// l(1+u) + r'(1-u) = 2*target
		rp := f.mul(f.sub(f.add(target, target), f.mul(l, f.add(big.NewInt(1), u))), f.inv(den))
		if rp.Cmp(f.dec(in[1].Set[0])) == 0 {
			continue
		}
		h := f.newH()
		in[1].Set[0] = f.enc(rp)
		step := "first"
		if t == f.k-1 {
			step = "last"
		} else if t > 0 {
			step = "middle"
		}
		{
			// same leaf, but [t][1].MerkleRoot left at the committed root: only the Merkle opening of [t][1] fails
			keep := sround{Inter: make([][2]mproof, len(sr.Inter)), Eval: sr.Eval}
			for i := range sr.Inter {
				for j := 0; j < 2; j++ {
					keep.Inter[i][j] = mproof{Root: sr.Inter[i][j].Root, Set: cloneSet(sr.Inter[i][j].Set), NumLeaves: sr.Inter[i][j].NumLeaves}
				}
			}
			try(fmt.Sprintf("second-fibre-leaf-solved-from-the-folding-equation-path-unchanged/%s-step@%d", step, t), sproof{Rounds: []sround{keep}}, []string{"merkle"}, nil,
				fmt.Sprintf("as the unrelated-tree forgery at step %d but MerkleRoot untouched: leaf [%d][1] = %s has no valid path", t, t, rp.Text(16)))
		}
		full := make([][]byte, len(in[c].Set))
		copy(full, in[c].Set)
		if c == 0 {
			full[0], full[1] = in[1].Set[0], in[1].Set[1]
		} else {
			full = in[1].Set
		}
		in[1].Root = rootFromSet(h, full, s|1)
		par := "partial-opening"
		if c == 1 {
			par = "full-opening"
		}
		try(fmt.Sprintf("second-fibre-opening-from-unrelated-tree/%s-step/%s@%d", step, par, t), sproof{Rounds: []sround{sr}}, []string{"merkle"}, nil,
			fmt.Sprintf("step 0 commits to uniform values (not close to any low-degree polynomial); step %d does not fold into what follows; leaf [%d][1] replaced by %s and [%d][1].MerkleRoot by the root of that path", t, t, rp.Text(16), t))
		if t == 0 && c == 1 {
			// consequence for openings: the forged leaf can be "opened" against the accepted proof
			pos := uint64(s/2 + f.N/2)
			o := sopen{Root: in[1].Root, Set: cloneSet(in[1].Set), NumLeaves: uint64(f.N), Index: uint64(s), Claimed: rp}
			pp := e.fromSpec(sproof{Rounds: []sround{sr}})
			if fs := f.verifyOpening(pos, o, e.toSpec(pp)); e.expect("opening-vs-unbound-root", fs, []string{"root"}, nil) {
				e.judgeOpening("targeted:opening-against-the-unbound-root", pos, e.openFromSpec(o), pp, true,
					func() string {
						return "opening of the forged leaf against [0][1].MerkleRoot of the forged proof of proximity"
					})
			}
		}
		return
	}
	e.c.AddExtra("fri_fibre_forgery_not_constructible", 1)
}

// highDegree: inputs of too high degree through the honest prover. With one round and one query a
// false statement is accepted with noticeable probability by design; what is demanded is that the
// library accepts only what the specification verifier accepts.
func (e *friEnv[E, P, PP, OP]) highDegree() {
	c := e.c
	f := e.spec
	for i, n := range []int{f.n0 + 1, 2 * f.n0, f.N} {
		p := e.randPoly(n)
		var pp PP
		var err error
		if c.Guard(e.pre+"/BuildProofOfProximity/panic/high-degree", func() string { return e.cls }, func() { pp, err = e.iop.BuildProofOfProximity(e.els(p)) }) || err != nil {
			continue
		}
		acc, fails := e.judge(fmt.Sprintf("honest-prover:degree-too-high@%d", i), &pp, true, func() string { return fmt.Sprintf("polynomial with %d coefficients through BuildProofOfProximity", n) })
		c.Class(fmt.Sprintf("%s/high-degree/len%dx/accepted=%v/model=%v", e.cls, n/f.n0, acc, len(fails) == 0))
	}
}
