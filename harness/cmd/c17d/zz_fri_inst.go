// Code generated for c17d (one block per curve carrying ecc/<curve>/fr/fri); DO NOT EDIT by hand.
package main

import (
	"hash"
	"math/big"

	fr_bls12377 "github.com/consensys/gnark-crypto/ecc/bls12-377/fr"
	fft_bls12377 "github.com/consensys/gnark-crypto/ecc/bls12-377/fr/fft"
	fri_bls12377 "github.com/consensys/gnark-crypto/ecc/bls12-377/fr/fri"
	fr_bls12381 "github.com/consensys/gnark-crypto/ecc/bls12-381/fr"
	fft_bls12381 "github.com/consensys/gnark-crypto/ecc/bls12-381/fr/fft"
	fri_bls12381 "github.com/consensys/gnark-crypto/ecc/bls12-381/fr/fri"
	fr_bls24315 "github.com/consensys/gnark-crypto/ecc/bls24-315/fr"
	fft_bls24315 "github.com/consensys/gnark-crypto/ecc/bls24-315/fr/fft"
	fri_bls24315 "github.com/consensys/gnark-crypto/ecc/bls24-315/fr/fri"
	fr_bls24317 "github.com/consensys/gnark-crypto/ecc/bls24-317/fr"
	fft_bls24317 "github.com/consensys/gnark-crypto/ecc/bls24-317/fr/fft"
	fri_bls24317 "github.com/consensys/gnark-crypto/ecc/bls24-317/fr/fri"
	fr_bn254 "github.com/consensys/gnark-crypto/ecc/bn254/fr"
	fft_bn254 "github.com/consensys/gnark-crypto/ecc/bn254/fr/fft"
	fri_bn254 "github.com/consensys/gnark-crypto/ecc/bn254/fr/fri"
	fr_bw6633 "github.com/consensys/gnark-crypto/ecc/bw6-633/fr"
	fft_bw6633 "github.com/consensys/gnark-crypto/ecc/bw6-633/fr/fft"
	fri_bw6633 "github.com/consensys/gnark-crypto/ecc/bw6-633/fr/fri"
	fr_bw6761 "github.com/consensys/gnark-crypto/ecc/bw6-761/fr"
	fft_bw6761 "github.com/consensys/gnark-crypto/ecc/bw6-761/fr/fft"
	fri_bw6761 "github.com/consensys/gnark-crypto/ecc/bw6-761/fr/fri"
)

var friRunners = []friRunner{
	mkFri[fr_bn254.Element, *fr_bn254.Element, fri_bn254.ProofOfProximity, fri_bn254.OpeningProof]("bn254", fr_bn254.Modulus(), fr_bn254.Bytes,
		func(n uint64) *big.Int { return fft_bn254.NewDomain(n).Generator.BigInt(new(big.Int)) },
		func(size uint64, h hash.Hash) iopp[fr_bn254.Element, fri_bn254.ProofOfProximity, fri_bn254.OpeningProof] {
			return fri_bn254.RADIX_2_FRI.New(size, h)
		}),
	mkFri[fr_bls12377.Element, *fr_bls12377.Element, fri_bls12377.ProofOfProximity, fri_bls12377.OpeningProof]("bls12-377", fr_bls12377.Modulus(), fr_bls12377.Bytes,
		func(n uint64) *big.Int { return fft_bls12377.NewDomain(n).Generator.BigInt(new(big.Int)) },
		func(size uint64, h hash.Hash) iopp[fr_bls12377.Element, fri_bls12377.ProofOfProximity, fri_bls12377.OpeningProof] {
			return fri_bls12377.RADIX_2_FRI.New(size, h)
		}),
	mkFri[fr_bls12381.Element, *fr_bls12381.Element, fri_bls12381.ProofOfProximity, fri_bls12381.OpeningProof]("bls12-381", fr_bls12381.Modulus(), fr_bls12381.Bytes,
		func(n uint64) *big.Int { return fft_bls12381.NewDomain(n).Generator.BigInt(new(big.Int)) },
		func(size uint64, h hash.Hash) iopp[fr_bls12381.Element, fri_bls12381.ProofOfProximity, fri_bls12381.OpeningProof] {
			return fri_bls12381.RADIX_2_FRI.New(size, h)
		}),
	mkFri[fr_bls24315.Element, *fr_bls24315.Element, fri_bls24315.ProofOfProximity, fri_bls24315.OpeningProof]("bls24-315", fr_bls24315.Modulus(), fr_bls24315.Bytes,
		func(n uint64) *big.Int { return fft_bls24315.NewDomain(n).Generator.BigInt(new(big.Int)) },
		func(size uint64, h hash.Hash) iopp[fr_bls24315.Element, fri_bls24315.ProofOfProximity, fri_bls24315.OpeningProof] {
			return fri_bls24315.RADIX_2_FRI.New(size, h)
		}),
	mkFri[fr_bls24317.Element, *fr_bls24317.Element, fri_bls24317.ProofOfProximity, fri_bls24317.OpeningProof]("bls24-317", fr_bls24317.Modulus(), fr_bls24317.Bytes,
		func(n uint64) *big.Int { return fft_bls24317.NewDomain(n).Generator.BigInt(new(big.Int)) },
		func(size uint64, h hash.Hash) iopp[fr_bls24317.Element, fri_bls24317.ProofOfProximity, fri_bls24317.OpeningProof] {
			return fri_bls24317.RADIX_2_FRI.New(size, h)
		}),
	mkFri[fr_bw6633.Element, *fr_bw6633.Element, fri_bw6633.ProofOfProximity, fri_bw6633.OpeningProof]("bw6-633", fr_bw6633.Modulus(), fr_bw6633.Bytes,
		func(n uint64) *big.Int { return fft_bw6633.NewDomain(n).Generator.BigInt(new(big.Int)) },
		func(size uint64, h hash.Hash) iopp[fr_bw6633.Element, fri_bw6633.ProofOfProximity, fri_bw6633.OpeningProof] {
			return fri_bw6633.RADIX_2_FRI.New(size, h)
		}),
	mkFri[fr_bw6761.Element, *fr_bw6761.Element, fri_bw6761.ProofOfProximity, fri_bw6761.OpeningProof]("bw6-761", fr_bw6761.Modulus(), fr_bw6761.Bytes,
		func(n uint64) *big.Int { return fft_bw6761.NewDomain(n).Generator.BigInt(new(big.Int)) },
		func(size uint64, h hash.Hash) iopp[fr_bw6761.Element, fri_bw6761.ProofOfProximity, fri_bw6761.OpeningProof] {
			return fri_bw6761.RADIX_2_FRI.New(size, h)
		}),
}
