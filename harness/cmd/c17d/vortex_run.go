package main

// Vortex (field/koalabear/vortex): honest openings, targeted forgeries, and reflection-driven
// single-field substitutions of VerifierInput / Proof.

import (
	"fmt"
	"math/big"
	"reflect"

	"github.com/consensys/gnark-crypto/field/koalabear"
	fext "github.com/consensys/gnark-crypto/field/koalabear/extensions"
	"github.com/consensys/gnark-crypto/field/koalabear/sis"
	"github.com/consensys/gnark-crypto/field/koalabear/vortex"

	"verif/harness/gen"
	"verif/harness/mon"
)

type vtxCfg struct {
	nbCols, rate, rows, sisCap int
	sisLogDeg, sisLogBound     int
	nSel                       int
	selKind                    string
}

func (v vtxCfg) String() string {
	return fmt.Sprintf("cols%d/rate%d/rows%d/sis%d-%d-cap%d/sel-%s%d", v.nbCols, v.rate, v.rows, v.sisLogDeg, v.sisLogBound, v.sisCap, v.selKind, v.nSel)
}

var kbElems = map[reflect.Type]*elemOps{reflect.TypeOf(koalabear.Element{}): {
	mod: big.NewInt(kbP),
	toBig: func(v reflect.Value) *big.Int {
		return new(big.Int).SetUint64(v.Addr().Interface().(*koalabear.Element).Uint64())
	},
	fromBig: func(v reflect.Value, x *big.Int) { v.Addr().Interface().(*koalabear.Element).SetUint64(x.Uint64()) },
}}

func vortexJobs(c *mon.Ctx) []job {
	if !mon.Selected("vortex/koalabear") {
		return nil
	}
	cols := []int{1, 2, 4, 8, 16, 64}
	rows := []int{1, 2, 3, 8, 17, 5}
	if c.Thorough() {
		cols = []int{1, 2, 4, 8, 16, 32, 64, 128, 256, 512}
		rows = []int{1, 2, 3, 8, 17, 5, 64, 33, 300, 4}
	}
	sisP := [][2]int{{4, 8}, {9, 16}, {6, 16}, {5, 8}} // degree >= 16: Commit hashes 16 columns at a time and reads 16-element blocks of each SIS hash
	selK := []string{"one", "few", "dups", "many"}
	var jobs []job
	jobs = append(jobs, job{"vortex/koalabear/column-hash-paths", 1, func() { columnHashPaths(c) }})
	idx := 0
	for _, nc := range cols {
		for _, rate := range []int{2, 4, 8} {
			reps := 1
			if c.Thorough() {
				reps = 2
			}
			for rep := 0; rep < reps; rep++ {
				cfg := vtxCfg{nbCols: nc, rate: rate, rows: rows[idx%len(rows)], sisLogDeg: sisP[idx%len(sisP)][0], sisLogBound: sisP[idx%len(sisP)][1], selKind: selK[idx%len(selK)]}
				cfg.sisCap = cfg.rows
				if idx%3 == 1 {
					cfg.sisCap = cfg.rows + 3 // hash capacity larger than the number of rows
				}
				idx++
				cfg2 := cfg
				jobs = append(jobs, job{"vortex/koalabear/" + cfg2.String(), nc * rate * cfg2.rows / 4, func() { runVortex(c, cfg2) }})
			}
		}
	}
	return jobs
}

type vtxEnv struct {
	c    *mon.Ctx
	cfg  vtxCfg
	p    *vortex.Params
	spec *vtxSpec
	rng  *gen.Rng
	pre  string
	cls  string
}

func (e *vtxEnv) randBase() uint64 { return uint64(e.rng.Intn(kbP)) }
func (e *vtxEnv) randE4() e4       { return e4{e.randBase(), e.randBase(), e.randBase(), e.randBase()} }

func (e *vtxEnv) matrix(cls string) ([][]koalabear.Element, [][]uint64) {
	m := make([][]koalabear.Element, e.cfg.rows)
	o := make([][]uint64, e.cfg.rows)
	for i := range m {
		m[i] = make([]koalabear.Element, e.cfg.nbCols)
		o[i] = make([]uint64, e.cfg.nbCols)
		for j := range m[i] {
			var v uint64
			switch cls {
			case "zero":
			case "max":
				v = kbP - 1
			default:
				v = e.randBase()
			}
			o[i][j] = v
			m[i][j].SetUint64(v)
		}
	}
	return m, o
}

func (e *vtxEnv) selected() []int {
	N := e.spec.N
	var n int
	switch e.cfg.selKind {
	case "one":
		n = 1
	case "few":
		n = 3
	case "dups":
		n = 4
	case "many":
		n = N/2 + 1
	}
	s := make([]int, n)
	for i := range s {
		s[i] = e.rng.Intn(N)
	}
	if e.cfg.selKind == "dups" {
		s[1] = s[0]
		s[3] = N - 1
	}
	if e.cfg.selKind == "few" {
		s[0] = 0
	}
	return s
}

type vtxStmt struct {
	xcls, acls string
	rows       [][]koalabear.Element
	orows      [][]uint64
	x, alpha   e4
	ys         []e4
	sel        []int
	ps         *vortex.ProverState
	in         vortex.VerifierInput
}

func (e *vtxEnv) point(cls string) e4 {
	switch cls {
	case "zero":
		return e4{}
	case "one":
		return e4{1, 0, 0, 0}
	case "base":
		return e4FromBase(e.randBase())
	case "small-domain":
		return e4FromBase(kbPow(e.spec.wSmall, uint64(e.rng.Intn(e.spec.nbCols))))
	case "big-domain":
		return e4FromBase(kbPow(e.spec.wN, uint64(2*e.rng.Intn(e.spec.N/2)+1)))
	}
	return e.randE4()
}

// honest builds an honest statement + proof with the library's prover; claims come from the model.
func (e *vtxEnv) honest(mcls, xcls, acls string) (*vtxStmt, bool) {
	c := e.c
	st := &vtxStmt{xcls: xcls, acls: acls}
	st.rows, st.orows = e.matrix(mcls)
	st.x, st.alpha = e.point(xcls), e.point(acls)
	st.sel = e.selected()
	for _, r := range st.orows {
		st.ys = append(st.ys, e.spec.rowEval(r, st.x))
	}
	var err error
	var proof *vortex.Proof
	if c.Guard(e.pre+"/Commit/panic", func() string { return e.cls }, func() { st.ps, err = vortex.Commit(e.p, st.rows) }) {
		return nil, false
	}
	if err != nil {
		c.Fail(e.pre+"/Commit/error", "%s: %v", e.cls, err)
		return nil, false
	}
	if c.Guard(e.pre+"/OpenLinComb/panic", func() string { return e.cls }, func() { st.ps.OpenLinComb(fromE4(st.alpha)) }) {
		return nil, false
	}
	if c.Guard(e.pre+"/OpenColumns/panic", func() string { return e.cls }, func() { proof, err = st.ps.OpenColumns(st.sel) }) {
		return nil, false
	}
	if err != nil {
		c.Fail(e.pre+"/OpenColumns/error", "%s sel=%v: %v", e.cls, st.sel, err)
		return nil, false
	}
	cv := make([]fext.E4, len(st.ys))
	for i := range cv {
		cv[i] = fromE4(st.ys[i])
	}
	st.in = vortex.VerifierInput{MerkleRoot: st.ps.GetCommitment(), ClaimedValues: cv, EvaluationPoint: fromE4(st.x), SelectedColumns: append([]int(nil), st.sel...), Alpha: fromE4(st.alpha), Proof: proof}
	return st, true
}

func describeVin(in *vortex.VerifierInput) string {
	s := fmt.Sprintf("x=%v alpha=%v selected=%v claims=%d", toE4(in.EvaluationPoint), toE4(in.Alpha), in.SelectedColumns, len(in.ClaimedValues))
	if len(in.ClaimedValues) > 0 {
		s += fmt.Sprintf(" y0=%v", toE4(in.ClaimedValues[0]))
	}
	if in.Proof != nil {
		s += fmt.Sprintf(" len(UAlpha)=%d", len(in.Proof.UAlpha))
		if len(in.Proof.UAlpha) > 0 {
			s += fmt.Sprintf(" UAlpha[0]=%v", toE4(in.Proof.UAlpha[0]))
		}
		if len(in.Proof.OpenedColumns) > 0 {
			col := in.Proof.OpenedColumns[0]
			var v []uint64
			for i := 0; i < len(col) && i < 6; i++ {
				v = append(v, col[i].Uint64())
			}
			s += fmt.Sprintf(" column[0][:6]=%v (len %d)", v, len(col))
		}
	}
	s += fmt.Sprintf(" root=%v", in.MerkleRoot[0].Uint64())
	return s
}

func (e *vtxEnv) judge(origin string, in *vortex.VerifierInput, wellFormed bool, what func() string) {
	c := e.c
	fails := e.spec.verify(in)
	var err error
	panicked, pv := mon.Try(func() { err = e.p.Verify(*in) })
	c.Eval("vortex.Verify/forged", 1)
	desc := func() string {
		return fmt.Sprintf("%s origin=%s: %s; model: failing checks=%s; library: panicked=%v (%v) err=%v; input: %s", e.cls, origin, what(), fails, panicked, pv, err, describeVin(in))
	}
	if panicked {
		c.AddExtra("vortex_panics_on_forged", 1)
		if wellFormed {
			c.Fail(e.pre+"/Verify/panic-on-forged/"+originKey(origin), "%s", desc())
		}
		return
	}
	if err == nil && len(fails) > 0 {
		c.Fail(e.pre+"/Verify/accepted-forgery/"+fails.String()+"/"+originKey(origin), "%s", desc())
	}
	if err != nil && len(fails) == 0 {
		c.AddExtra("vortex_library_rejects_model_accepts", 1)
	}
	if err != nil {
		c.AddExtra("vortex_forged_rejected", 1)
	} else if len(fails) == 0 {
		c.AddExtra("vortex_altered_but_still_valid_accepted", 1)
		c.Class(e.pre + "/still-valid-after/" + originKey(origin))
	}
}

func cloneVin(in *vortex.VerifierInput) *vortex.VerifierInput { return cloneOf(in) }

func runVortex(c *mon.Ctx, cfg vtxCfg) {
	e := &vtxEnv{c: c, cfg: cfg, pre: "vortex/koalabear", cls: "vortex/koalabear/" + cfg.String()}
	e.rng = gen.New(c.Seed, "c17d/"+e.cls)
	key, err := sis.NewRSis(int64(c.Seed)+7, cfg.sisLogDeg, cfg.sisLogBound, cfg.sisCap)
	if err != nil {
		c.Inconclusive("%s: NewRSis: %v", e.cls, err)
		return
	}
	N := cfg.nbCols * cfg.rate
	nSel := 1
	p, err := vortex.NewParams(cfg.nbCols, cfg.rows, key, cfg.rate, nSel)
	if err != nil {
		c.Fail(e.pre+"/NewParams/error", "%s: %v", e.cls, err)
		return
	}
	e.p = p
	e.spec = newVtxSpec(p)
	// the documented root of unity must agree with the library's and have the right order
	g, gerr := koalabear.Generator(uint64(N))
	if gerr != nil || g.Uint64() != e.spec.wN || kbPow(e.spec.wN, uint64(N)) != 1 || (N > 1 && kbPow(e.spec.wN, uint64(N/2)) != kbP-1) || kbPow(e.spec.wN, uint64(cfg.rate)) != e.spec.wSmall {
		c.Inconclusive("%s: subgroup generator mismatch", e.cls)
		return
	}
	// the special evaluation points (nodes of the row domain and of the codeword domain, where the Lagrange
	// evaluation takes its shortcut) also with a random matrix and a genuine extension element as alpha, so that the
	// shortcut has to return a full extension value
	xcls := []string{"generic", "zero", "base", "small-domain", "big-domain", "small-domain", "big-domain", "one", "big-domain"}
	acls := []string{"generic", "zero", "one", "base", "generic", "generic", "generic", "generic", "base"}
	mcls := []string{"random", "random", "max", "random", "zero", "random", "random", "random", "max"}
	for i := range xcls {
		c.Current(e.cls + " x=" + xcls[i])
		st, ok := e.honest(mcls[i], xcls[i], acls[i])
		if !ok {
			continue
		}
		tag := fmt.Sprintf("matrix-%s/x-%s/alpha-%s", mcls[i], xcls[i], acls[i])
		// library's own evaluation helper (used by callers to compute the claims)
		for r := range st.rows {
			got, err := vortex.EvalBasePolyLagrange(st.rows[r], st.in.EvaluationPoint)
			c.Check("vortex.EvalBasePolyLagrange", e.pre+"/EvalBasePolyLagrange/mismatch/x-"+xcls[i], err == nil && toE4(got) == st.ys[r], func() string {
				return fmt.Sprintf("%s row=%v x=%v got=%v err=%v want=%v", e.cls, st.orows[r], st.x, toE4(got), err, st.ys[r])
			})
		}
		var verr error
		if c.Guard(e.pre+"/Verify/panic/honest", func() string { return e.cls + "/" + tag }, func() { verr = e.p.Verify(st.in) }) {
			continue
		}
		c.Check("vortex.Verify/honest", e.pre+"/Verify/honest-rejected/"+tag, verr == nil, func() string {
			return fmt.Sprintf("%s %s err=%v input: %s", e.cls, tag, verr, describeVin(&st.in))
		})
		fails := e.spec.verify(&st.in)
		c.Check("vortex.Prover/model-verifier", e.pre+"/Prover/honest-proof-fails-spec-check/"+fails.String(), len(fails) == 0, func() string {
			return fmt.Sprintf("%s %s: the prover's proof fails the specification checks %s; input: %s", e.cls, tag, fails, describeVin(&st.in))
		})
		c.Class(e.cls + "/honest/" + tag)
		if verr != nil || len(fails) != 0 {
			continue
		}
		// one commitment opened a second time with another challenge: the second opening is an honest proof of the same
		// statement, and the first proof - already handed out - still is
		if i%2 == 0 {
			alpha2 := e.point("generic")
			var proof2 *vortex.Proof
			var err2 error
			if !c.Guard(e.pre+"/OpenLinComb/panic/second-opening", func() string { return e.cls }, func() {
				st.ps.OpenLinComb(fromE4(alpha2))
				proof2, err2 = st.ps.OpenColumns(st.sel)
			}) && err2 == nil {
				in2 := st.in
				in2.Alpha, in2.Proof = fromE4(alpha2), proof2
				var v1, v2 error
				if !c.Guard(e.pre+"/Verify/panic/second-opening", func() string { return e.cls + "/" + tag }, func() { v2 = e.p.Verify(in2); v1 = e.p.Verify(st.in) }) {
					c.Check("vortex.Verify/honest", e.pre+"/Verify/honest-rejected/second-opening-of-one-commitment/"+tag, v2 == nil, func() string {
						return fmt.Sprintf("%s %s: OpenLinComb + OpenColumns called a second time on the same ProverState: %v", e.cls, tag, v2)
					})
					c.Check("vortex.Verify/honest", e.pre+"/Verify/honest-rejected/first-proof-after-second-opening/"+tag, v1 == nil, func() string {
						return fmt.Sprintf("%s %s: the proof produced by the first opening no longer verifies after the second one: %v", e.cls, tag, v1)
					})
				}
			}
		}
		other, ok := e.honest("random", "generic", "generic")
		if !ok {
			continue
		}
		e.targeted(st, other, tag)
		if i < 2 || c.Thorough() {
			e.substitutions(st, other, tag)
		}
	}
	// column index beyond the code word is refused by the prover
	if st, ok := e.honest("random", "generic", "generic"); ok {
		for _, col := range []int{N, N + 1, 1 << 30} {
			var err error
			if !c.Guard(e.pre+"/OpenColumns/panic/out-of-range", func() string { return fmt.Sprint(e.cls, " col=", col) }, func() { _, err = st.ps.OpenColumns([]int{col}) }) {
				c.Check("vortex.OpenColumns", e.pre+"/OpenColumns/out-of-range-accepted", err != nil, func() string { return fmt.Sprint(e.cls, " col=", col) })
			}
		}
	}
}

func (e *vtxEnv) targeted(st, other *vtxStmt, tag string) {
	c := e.c
	s := e.spec
	N := s.N
	try := func(kind string, in *vortex.VerifierInput, required, allowed []string, what string) {
		fails := s.verify(in)
		ek := e.pre + "/" + kind
		if len(fails) == 0 {
			// e.g. constant rows: all columns are equal, exchanging them changes nothing
			noteEffect(ek, false)
			c.AddExtra("vortex_forgery_coincidentally_valid", 1)
			return
		}
		if !fails.within(required, allowed) {
			c.Inconclusive("forgery %s for %s/%s does not violate the intended checks: model fails %s, wanted %v (+%v)", kind, e.cls, tag, fails, required, allowed)
			return
		}
		noteEffect(ek, true)
		c.SampleOnce("vortex/"+kind, map[string]any{"parameters": e.cfg.String(), "statement": tag, "forgery": what, "specification checks violated": fails.String()})
		e.judge("targeted:"+kind, in, true, func() string { return what })
		c.Class(e.cls + "/targeted/" + kind)
	}
	one := e4{1, 0, 0, 0}
	addConst := func(u []fext.E4, d e4) {
		for j := range u {
			u[j] = fromE4(toE4(u[j]).add(d))
		}
	}
	// (a) false claim, UAlpha moved by the constant codeword that hides it: only lincomb fails
	for _, r := range uniq(0, e.cfg.rows-1) {
		in := cloneVin(&st.in)
		delta := e.randE4()
		in.ClaimedValues[r] = fromE4(st.ys[r].add(delta))
		addConst(in.Proof.UAlpha, delta.mul(st.alpha.pow(uint64(r))))
		if r > 0 && st.alpha.isZero() {
			continue // alpha = 0: rows > 0 do not enter the statement
		}
		try("false-claim-with-ualpha-shifted-by-constant-codeword", in, []string{"lincomb"}, nil,
			fmt.Sprintf("claim of row %d increased by %v, every entry of UAlpha increased by delta*alpha^%d; columns and paths honest", r, delta, r))
	}
	// (b) UAlpha + codeword vanishing at x (claims unchanged)
	if e.cfg.nbCols >= 2 {
		in := cloneVin(&st.in)
		k := e.randE4()
		for j := range in.Proof.UAlpha {
			wj := e4FromBase(kbPow(s.wN, uint64(j)))
			in.Proof.UAlpha[j] = fromE4(toE4(in.Proof.UAlpha[j]).add(wj.sub(st.x).mul(k)))
		}
		try("ualpha-shifted-by-codeword-vanishing-at-x", in, nil, []string{"lincomb"}, "UAlpha += k*(X - x) evaluated on the domain; claims, columns, paths honest")
	}
	// (c) commitment and columns of one matrix, UAlpha and claims of another
	{
		in := cloneVin(&st.in)
		var ps2 *vortex.ProverState
		var err error
		if !c.Guard(e.pre+"/Commit/panic", func() string { return e.cls }, func() {
			ps2, err = vortex.Commit(e.p, other.rows)
			ps2.OpenLinComb(st.in.Alpha)
		}) && err == nil {
			in.Proof.UAlpha = append([]fext.E4(nil), ps2.Ualpha...)
			for r := range in.ClaimedValues {
				in.ClaimedValues[r] = fromE4(s.rowEval(other.orows[r], st.x))
			}
			try("ualpha-and-claims-of-another-matrix", in, []string{"lincomb"}, nil, "root/columns/paths of matrix A, UAlpha and claimed values of an unrelated matrix B")
		}
	}
	// (d) one claim changed
	for _, r := range uniq(0, e.cfg.rows-1) {
		if r > 0 && st.alpha.isZero() {
			continue
		}
		in := cloneVin(&st.in)
		in.ClaimedValues[r] = fromE4(st.ys[r].add(one))
		try("claim-changed", in, []string{"eval"}, nil, fmt.Sprintf("claimed value of row %d + 1", r))
	}
	// (e) UAlpha + word of too high degree that vanishes at x and on the opened columns: only rs fails
	{
		distinct := map[int]bool{}
		for _, cidx := range st.sel {
			distinct[cidx] = true
		}
		if e.cfg.nbCols+len(distinct) < N {
			in := cloneVin(&st.in)
			k := e.randE4()
			for j := range in.Proof.UAlpha {
				w := kbPow(s.wN, uint64(j))
				v := e4FromBase(w).sub(st.x).mul(k).scale(kbPow(w, uint64(e.cfg.nbCols-1)))
				for cidx := range distinct {
					v = v.scale(kbSub(w, kbPow(s.wN, uint64(cidx))))
				}
				in.Proof.UAlpha[j] = fromE4(toE4(in.Proof.UAlpha[j]).add(v))
			}
			try("ualpha-plus-high-degree-word-vanishing-at-x-and-opened-columns", in, []string{"rs"}, nil, "UAlpha += k (X-x) X^(NbColumns-1) prod (X - w^c) over the opened columns")
		}
	}
	// (e') the same in one coordinate only: the factor vanishing at x is the minimal polynomial of x over F_p
	{
		distinct := map[int]bool{}
		for _, cidx := range st.sel {
			distinct[cidx] = true
		}
		if e.cfg.nbCols+3+len(distinct) < N {
			conj := []e4{st.x, st.x.pow(kbP), st.x.pow(kbP).pow(kbP), st.x.pow(kbP).pow(kbP).pow(kbP)}
			for coord := 0; coord < 4; coord++ {
				in := cloneVin(&st.in)
				k := 1 + e.randBase()%(kbP-1)
				okBase := true
				for j := range in.Proof.UAlpha {
					w := kbPow(s.wN, uint64(j))
					m := e4{1, 0, 0, 0}
					for _, cj := range conj {
						m = m.mul(e4FromBase(w).sub(cj))
					}
					if m[1] != 0 || m[2] != 0 || m[3] != 0 {
						okBase = false
						break
					}
					v := kbMul(kbMul(m[0], k), kbPow(w, uint64(e.cfg.nbCols-1)))
					for cidx := range distinct {
						v = kbMul(v, kbSub(w, kbPow(s.wN, uint64(cidx))))
					}
					u := toE4(in.Proof.UAlpha[j])
					u[coord] = kbAdd(u[coord], v)
					in.Proof.UAlpha[j] = fromE4(u)
				}
				if !okBase {
					c.Inconclusive("%s: minimal polynomial of x has coefficients outside the base field (model arithmetic inconsistent)", e.cls)
					break
				}
				try(fmt.Sprintf("ualpha-coordinate-%d-plus-high-degree-word-vanishing-at-x-and-opened-columns", coord), in, []string{"rs"}, nil,
					fmt.Sprintf("coordinate %d of UAlpha += k m_x(X) X^(NbColumns-1) prod (X - w^c), m_x the minimal polynomial of x over the base field", coord))
			}
		}
	}
	// (f) Merkle path node / column entry / column swapped
	{
		in := cloneVin(&st.in)
		if len(in.Proof.MerkleProofOpenedColumns[0]) > 0 {
			h := &in.Proof.MerkleProofOpenedColumns[0][0]
			h[3].SetUint64(kbAdd(h[3].Uint64(), 1))
			try("merkle-path-node-changed", in, []string{"merkle"}, nil, "first sibling of the first path + 1")
		}
		in = cloneVin(&st.in)
		k := len(st.sel) - 1
		col := in.Proof.OpenedColumns[k]
		col[len(col)-1].SetUint64(kbAdd(col[len(col)-1].Uint64(), 1))
		allowed := []string{}
		// the same column index may be selected twice: the other copy stays honest
		try("opened-column-entry-changed", in, []string{"merkle"}, append(allowed, "lincomb"), "last entry of the last opened column + 1")
		if len(st.sel) >= 2 && st.sel[0] != st.sel[len(st.sel)-1] {
			in = cloneVin(&st.in)
			pr := in.Proof
			l := len(st.sel) - 1
			pr.OpenedColumns[0], pr.OpenedColumns[l] = pr.OpenedColumns[l], pr.OpenedColumns[0]
			pr.MerkleProofOpenedColumns[0], pr.MerkleProofOpenedColumns[l] = pr.MerkleProofOpenedColumns[l], pr.MerkleProofOpenedColumns[0]
			try("columns-and-paths-swapped", in, []string{"merkle"}, []string{"lincomb"}, "first and last opened column exchanged together with their paths")
		}
	}
	// (g) commitment to an encoded matrix with one corrupted column; that column is opened
	{
		in := cloneVin(&st.in)
		depth := len(st.ps.MerkleTree.Levels) - 1
		leaves := append([]vortex.Hash(nil), st.ps.MerkleTree.Levels[depth]...)
		cidx := st.sel[0]
		bad := append([]koalabear.Element(nil), st.in.Proof.OpenedColumns[0]...)
		bad[0].SetUint64(kbAdd(bad[0].Uint64(), 1+uint64(e.rng.Intn(1000))))
		sisH := make([]koalabear.Element, e.p.Key.Degree)
		if err := e.p.Key.Hash(bad, sisH); err == nil {
			leaves[cidx] = vortex.HashPoseidon2(sisH)
			tree := vortex.BuildMerkleTree(leaves)
			in.MerkleRoot = tree.Root()
			okp := true
			for k, cc := range st.sel {
				pth, err := tree.Open(cc)
				if err != nil {
					okp = false
					break
				}
				in.Proof.MerkleProofOpenedColumns[k] = pth
				if cc == cidx {
					in.Proof.OpenedColumns[k] = append([]koalabear.Element(nil), bad...)
				}
			}
			if okp {
				try("commitment-to-matrix-with-a-corrupted-column", in, []string{"lincomb"}, nil,
					fmt.Sprintf("the committed encoded matrix differs from the rows' code words in column %d; root and all paths recomputed; UAlpha and claims of the rows", cidx))
			}
		}
	}
	// (h) UAlpha of double length: first half honest, second half steers the Lagrange evaluation
	if 2*N <= 1<<24 {
		M := 2 * N
		wM := kbGen(M)
		xm := st.x.pow(uint64(M))
		if xm != one {
			in := cloneVin(&st.in)
			delta := e.randE4()
			in.ClaimedValues[0] = fromE4(st.ys[0].add(delta))
			var target e4
			for i := len(in.ClaimedValues) - 1; i >= 0; i-- {
				target = target.mul(st.alpha).add(toE4(in.ClaimedValues[i]))
			}
			pref := xm.sub(one).scale(kbInv(uint64(M)))
			lag := func(j int) e4 { // Lagrange basis polynomial of w^j at x
				wj := kbPow(wM, uint64(j))
				return pref.scale(wj).mul(st.x.sub(e4FromBase(wj)).inv())
			}
			var partial e4
			for j := 0; j < N; j++ {
				partial = partial.add(toE4(st.in.Proof.UAlpha[j]).mul(lag(j)))
			}
			js := N + e.rng.Intn(N)
			u2 := make([]fext.E4, M)
			copy(u2, st.in.Proof.UAlpha)
			u2[js] = fromE4(target.sub(partial).mul(lag(js).inv()))
			in.Proof.UAlpha = u2
			try("ualpha-of-double-length-with-false-claim", in, []string{"ualpha-len", "eval"}, nil,
				fmt.Sprintf("UAlpha has 2N entries: the first N are the honest ones, entry %d is chosen so that the interpolant over 2N points takes the (false) claimed combination at x", js))
		}
	}
	// (i) verifier-side values changed: selected column index aliased / out of range, root, alpha, x
	for _, d := range []int{N, 2 * N, -N, 1 << 40} {
		in := cloneVin(&st.in)
		in.SelectedColumns[0] += d
		try("selected-column-index-aliased", in, []string{"merkle"}, nil, fmt.Sprintf("selected column %d presented as %d", st.sel[0], in.SelectedColumns[0]))
	}
	{
		in := cloneVin(&st.in)
		in.SelectedColumns[0] = (st.sel[0] + 1) % N
		try("selected-column-index-changed", in, []string{"merkle"}, []string{"lincomb"}, "first selected index + 1, proof unchanged")
		in = cloneVin(&st.in)
		in.MerkleRoot = other.in.MerkleRoot
		try("root-of-another-commitment", in, []string{"merkle"}, nil, "Merkle root of an unrelated commitment")
		in = cloneVin(&st.in)
		in.Alpha = fromE4(st.alpha.add(one))
		try("alpha-changed", in, nil, []string{"eval", "lincomb"}, "proof made for alpha verified with alpha+1")
		in = cloneVin(&st.in)
		in.EvaluationPoint = fromE4(st.x.add(one))
		try("evaluation-point-changed", in, nil, []string{"eval"}, "proof for x verified at x+1")
		in = cloneVin(&st.in)
		in.Proof = cloneOf(other.in.Proof)
		if len(other.sel) >= len(st.sel) {
			try("proof-of-another-statement", in, nil, []string{"eval", "merkle", "lincomb"}, "whole Proof taken from an unrelated honest statement")
		}
	}
}

func (e *vtxEnv) substitutions(st, other *vtxStmt, tag string) {
	root := reflect.ValueOf(&st.in).Elem()
	sites := discover(root, kbElems, e.rng, 5)
	for _, s := range sites {
		gp := s.generic(root)
		for _, k := range leafKinds[s.kind] {
			f := cloneVin(&st.in)
			ov := tryResolve(reflect.ValueOf(&other.in).Elem(), s.path)
			if !substitute(resolve(reflect.ValueOf(f).Elem(), s.path), ov, s, k, kbElems, e.rng) {
				continue
			}
			e.judge("subst:"+gp+":"+k, f, shapePreserving(s.kind, k), func() string { return "field " + s.exact() + " <- " + k })
			e.c.Class(fmt.Sprintf("%s/subst/%s/%s", e.cls, gp, k))
		}
	}
}

// columnHashPaths: Commit hashes the columns' SIS digests 16 at a time when the code word size is a
// multiple of 16 and one by one otherwise, the verifier always one by one. Both must give the same
// leaf, for every ring-SIS degree the constructors accept, or honest proofs cannot verify. (Run
// here on the exported functions: inside Commit the 16-at-a-time path runs in worker goroutines,
// where a panic cannot be recovered by the monitor - this is why the parameter grid of this check
// keeps the ring-SIS degree >= 16.)
func columnHashPaths(c *mon.Ctx) {
	rng := gen.New(c.Seed, "c17d/vortex/column-hash-paths")
	for _, deg := range []int{2, 4, 8, 16, 32, 64, 512} {
		in := make([]koalabear.Element, 16*deg)
		for i := range in {
			in[i].SetUint64(uint64(rng.Intn(kbP)))
		}
		var leaves [16]vortex.Hash
		cls := fmt.Sprintf("sis-degree=%d", deg)
		c.Class("vortex/koalabear/column-hash-paths/" + cls)
		if c.Guard("vortex/koalabear/Commit/column-hash-16-at-a-time/panic/"+cls, func() string {
			return fmt.Sprintf("HashPoseidon2x16(16 SIS digests of %d elements, leaves, %d) as called by Commit when SizeCodeWord %% 16 == 0 (sis.NewRSis(seed, log2(%d), ..) and NewParams accept the parameters)", deg, deg, deg)
		}, func() { vortex.HashPoseidon2x16(in, leaves[:], deg) }) {
			continue
		}
		ok := true
		for j := 0; j < 16; j++ {
			ok = ok && leaves[j] == vortex.HashPoseidon2(in[j*deg:(j+1)*deg])
		}
		c.Check("vortex.Commit/column-hash", "vortex/koalabear/Commit/column-hash-16-at-a-time/differs-from-one-by-one/"+cls, ok, func() string {
			return fmt.Sprintf("HashPoseidon2x16 and HashPoseidon2 disagree on SIS digests of %d elements: the verifier recomputes leaves one by one", deg)
		})
	}
}
