// C17D (part of C17): FRI proximity proofs / openings (7 curves) and the Vortex polynomial
// commitment (koalabear). Honest proofs must be accepted; every forgery that a verifier following
// the scheme's specification rejects must be rejected by the library's verifier. The
// specification verifiers (fri_spec.go, vortex_spec.go) report WHICH checks a proof fails, so an
// accepted forgery is keyed by the missing check.
package main

import (
	"flag"
	"fmt"
	"os"
	"runtime/debug"
	"sync"
	"time"

	"verif/harness/mon"
)

var flagMode = flag.String("mode", "all", "fri | vortex | all")

// effect records, per forgery kind, how often the constructed object really violated the intended
// specification checks (a kind that never does would make its rejections meaningless).
var effect = struct {
	sync.Mutex
	tried, effective map[string]int
}{tried: map[string]int{}, effective: map[string]int{}}

func noteEffect(kind string, effective bool) {
	effect.Lock()
	effect.tried[kind]++
	if effective {
		effect.effective[kind]++
	}
	effect.Unlock()
}

type job struct {
	name string
	cost int
	run  func()
}

func main() {
	c := mon.Init("C17")
	var jobs []job
	if *flagMode == "fri" || *flagMode == "all" {
		jobs = append(jobs, friJobs(c)...)
	}
	if *flagMode == "vortex" || *flagMode == "all" {
		jobs = append(jobs, vortexJobs(c)...)
	}
	// largest first, 16 workers
	for i := range jobs {
		for j := i + 1; j < len(jobs); j++ {
			if jobs[j].cost > jobs[i].cost {
				jobs[i], jobs[j] = jobs[j], jobs[i]
			}
		}
	}
	ch := make(chan job)
	var wg sync.WaitGroup
	for w := 0; w < 16; w++ {
		wg.Add(1)
		go func() {
			defer wg.Done()
			for j := range ch {
				func() {
					defer func() {
						if r := recover(); r != nil {
							c.Inconclusive("harness panic in job %s: %v\n%s", j.name, r, string(debug.Stack()))
						}
					}()
					t0 := time.Now()
					j.run()
					if os.Getenv("VERIF_DEBUG") != "" {
						fmt.Fprintf(os.Stderr, "job %s %.1fs\n", j.name, time.Since(t0).Seconds())
					}
				}()
			}
		}()
	}
	for _, j := range jobs {
		ch <- j
	}
	close(ch)
	wg.Wait()
	c.Extra("jobs", len(jobs))
	eff := map[string]string{}
	for k, n := range effect.tried {
		eff[k] = fmt.Sprintf("%d/%d", effect.effective[k], n)
		if effect.effective[k] == 0 {
			c.Inconclusive("forgery kind %s was constructed %d times and never violated the intended specification check", k, n)
		}
	}
	c.Extra("targeted_forgeries_effective_over_constructed", eff)
	c.Finish()
}

func friJobs(c *mon.Ctx) []job {
	sizes := []uint64{1, 2, 3, 4, 5, 8, 13, 16, 32, 64}
	sha512Sizes := map[uint64]bool{2: true, 4: true, 16: true}
	if c.Thorough() {
		sizes = append(sizes, 6, 7, 9, 31, 33, 100, 128, 256, 1000, 1024, 4096, 8192)
		sha512Sizes = map[uint64]bool{1: true, 2: true, 3: true, 4: true, 8: true, 16: true, 64: true, 256: true}
	}
	var jobs []job
	for _, r := range friRunners {
		if !mon.Selected("fri/" + r.name) {
			continue
		}
		for _, s := range sizes {
			for _, h := range []string{"sha256", "sha512"} {
				if h == "sha512" && !sha512Sizes[s] {
					continue
				}
				reps := 1
				if c.Thorough() {
					switch {
					case s <= 128:
						reps = 4
					case s <= 1024:
						reps = 2
					}
				}
				for rep := 0; rep < reps; rep++ {
					r, s, h, rep := r, s, h, rep
					jobs = append(jobs, job{fmt.Sprintf("fri/%s/%s/%d/%d", r.name, h, s, rep), int(s) * 10, func() { r.run(c, h, s, rep) }})
				}
			}
		}
	}
	return jobs
}
