// C15: Fiat-Shamir transcript vs. its sequential specification, on bounded-exhaustive
// and seeded call histories, including caller-side mutation events.
package main

import (
	"bytes"
	"crypto/sha256"
	"fmt"
	"hash"
	"strings"

	mimc377 "github.com/consensys/gnark-crypto/ecc/bls12-377/fr/mimc"
	mimc381 "github.com/consensys/gnark-crypto/ecc/bls12-381/fr/mimc"
	mimc315 "github.com/consensys/gnark-crypto/ecc/bls24-315/fr/mimc"
	mimc317 "github.com/consensys/gnark-crypto/ecc/bls24-317/fr/mimc"
	"github.com/consensys/gnark-crypto/ecc/bn254/fr"
	"github.com/consensys/gnark-crypto/ecc/bn254/fr/mimc"
	mimc633 "github.com/consensys/gnark-crypto/ecc/bw6-633/fr/mimc"
	mimc761 "github.com/consensys/gnark-crypto/ecc/bw6-761/fr/mimc"
	mimcGr "github.com/consensys/gnark-crypto/ecc/grumpkin/fr/mimc"
	fiatshamir "github.com/consensys/gnark-crypto/fiat-shamir"

	"verif/harness/gen"
	"verif/harness/mon"
)

// ---- sequential model ----
type mchal struct {
	bindings [][]byte
	value    []byte
	computed bool
}
type model struct {
	names []string
	ch    []mchal
	newH  func() hash.Hash
}

func newModel(newH func() hash.Hash, names []string) *model {
	return &model{names: names, ch: make([]mchal, len(names)), newH: newH}
}
func (m *model) idx(name string) int {
	for i, n := range m.names {
		if n == name {
			return i
		}
	}
	return -1
}
func (m *model) bind(name string, v []byte) bool { // returns ok
	i := m.idx(name)
	if i < 0 || m.ch[i].computed {
		return false
	}
	m.ch[i].bindings = append(m.ch[i].bindings, append([]byte(nil), v...))
	return true
}
func (m *model) compute(name string) ([]byte, bool) {
	i := m.idx(name)
	if i < 0 {
		return nil, false
	}
	if m.ch[i].computed {
		return append([]byte(nil), m.ch[i].value...), true
	}
	if i > 0 && !m.ch[i-1].computed {
		return nil, false
	}
	h := chunked{m.newH()}
	// anything the hash refuses makes the challenge not computable (never the case for SHA-256 and for MiMC in its
	// default byte order; a little-endian MiMC refuses names and previous values that are not canonical in that order)
	if _, err := h.Write([]byte(name)); err != nil {
		return nil, false
	}
	if i > 0 {
		if _, err := h.Write(m.ch[i-1].value); err != nil {
			return nil, false
		}
	}
	for _, b := range m.ch[i].bindings {
		// a value the hash refuses (MiMC: not a sequence of canonical field elements) cannot be hashed: the
		// challenge is not computable and the transcript stays as it is
		if _, err := h.Write(b); err != nil {
			return nil, false
		}
	}
	m.ch[i].value = h.Sum(nil)
	m.ch[i].computed = true
	return append([]byte(nil), m.ch[i].value...), true
}

// chunked feeds a hash in pieces other than the ones the transcript uses: a value of several whole blocks goes in one
// block at a time (MiMC-like hashes, for which only whole blocks and single short values are defined), anything else
// in 7-byte pieces when the hash takes arbitrary bytes (SHA-256). The digest of a message does not depend on how it
// was cut into writes, so the model stays a model of the same challenge.
type chunked struct{ hash.Hash }

func (c chunked) Write(p []byte) (int, error) {
	if len(p) == 0 {
		return 0, nil // writing nothing changes nothing: the model does not even call the hash
	}
	bs := c.Hash.BlockSize()
	field := c.Hash.Size() == bs && bs >= 32 && bs <= 96 // one field element in, one out
	switch {
	case field && len(p) < bs:
		// documented for the field hashes: a short input stands for the element it is the left-padded
		// form of. The model pads by itself and hands over a whole block
		pp := make([]byte, bs)
		copy(pp[bs-len(p):], p)
		if _, err := c.Hash.Write(pp); err != nil {
			return 0, err
		}
		return len(p), nil
	case field && len(p) > bs && len(p)%bs == 0:
		for k := 0; k < len(p); k += bs {
			if _, err := c.Hash.Write(p[k : k+bs]); err != nil {
				return k, err
			}
		}
		return len(p), nil
	case !field && len(p) > 7:
		for k := 0; k < len(p); k += 7 {
			e := k + 7
			if e > len(p) {
				e = len(p)
			}
			if _, err := c.Hash.Write(p[k:e]); err != nil {
				return k, err
			}
		}
		return len(p), nil
	}
	return c.Hash.Write(p)
}

// ---- events ----
const (
	evBind = iota
	evCompute
	evMutBound
	evMutReturned
	evBindBad // Bind of a value the hash refuses (only for hashes that refuse some inputs)
)

type event struct {
	kind int
	name int // index into names, len(names) = unknown
}

func (e event) String(names []string) string {
	n := "?unknown"
	if e.name < len(names) {
		n = names[e.name]
	}
	switch e.kind {
	case evBind:
		return "Bind(" + n + ")"
	case evBindBad:
		return "BindRefusedValue(" + n + ")"
	case evCompute:
		return "Compute(" + n + ")"
	case evMutBound:
		return "MutateLastBound"
	}
	return "MutateLastReturned"
}

type hcfg struct {
	label string
	newH  func() hash.Hash
	names []string
	val   func(ctr int) []byte // unique value per bind
	bad   func(ctr int) []byte // a value the hash refuses (nil when the hash accepts everything)
}

func fmtHist(names []string, h []event) string {
	s := make([]string, len(h))
	for i, e := range h {
		s[i] = e.String(names)
	}
	return strings.Join(s, ";")
}

// runHistory replays one history on the library and on the model, comparing after each step.
// returns a classification string of the history (for distinct counting).
func runHistory(c *mon.Ctx, cfg hcfg, names []string, hist []event) {
	// the names are passed as the caller's own slice, which is reused for something else right away: the transcript
	// keeps what it was given, not a view of the caller's storage
	ids := append([]string(nil), names...)
	t := fiatshamir.NewTranscript(cfg.newH(), ids...)
	for i := range ids {
		ids[i] = names[(i+1)%len(names)] + "'"
	}
	if len(ids) > 1 {
		ids[len(ids)-1] = names[0] // an already known name in another position
	}
	m := newModel(cfg.newH, names)
	var lastBound, lastRet []byte
	lastRetRecomputed := false
	mutRet, mutBound := false, false
	ctr := 0
	nameOf := func(i int) string {
		if i < len(names) {
			return names[i]
		}
		return "zz-unknown"
	}
	ctxTag := func() string {
		s := ""
		if mutRet {
			s += "+after-mutate-returned"
		}
		if mutBound {
			s += "+after-mutate-bound"
		}
		return s
	}
	step := func(i int, e event) bool {
		switch e.kind {
		case evBind, evBindBad:
			ctr++
			v := cfg.val(ctr)
			if e.kind == evBindBad {
				v = cfg.bad(ctr)
			}
			mv := append([]byte(nil), v...)
			err := t.Bind(nameOf(e.name), v)
			ok := m.bind(nameOf(e.name), mv)
			lastBound = v
			if !c.Check("Bind", cfg.label+"/Bind/error-mismatch", (err == nil) == ok, func() string {
				return fmt.Sprintf("names=%v history=%s step=%d: Bind err=%v, model ok=%v", names, fmtHist(names, hist), i, err, ok)
			}) {
				return false
			}
		case evCompute:
			got, err := t.ComputeChallenge(nameOf(e.name))
			wasComputed := false
			if j := m.idx(nameOf(e.name)); j >= 0 {
				wasComputed = m.ch[j].computed
			}
			want, ok := m.compute(nameOf(e.name))
			if !c.Check("ComputeChallenge", cfg.label+"/Compute/error-mismatch"+ctxTag(), (err == nil) == ok, func() string {
				return fmt.Sprintf("names=%v history=%s step=%d: Compute err=%v, model ok=%v", names, fmtHist(names, hist), i, err, ok)
			}) {
				return false
			}
			if ok {
				kind := "first"
				if wasComputed {
					kind = "recompute"
				}
				if !c.Check("ComputeChallenge", cfg.label+"/Compute/"+kind+"-value-mismatch"+ctxTag(), bytes.Equal(got, want), func() string {
					return fmt.Sprintf("names=%v history=%s step=%d: got %x want %x", names, fmtHist(names, hist), i, got, want)
				}) {
					return false
				}
				lastRet = got
				lastRetRecomputed = wasComputed
			}
		case evMutBound:
			if lastBound != nil {
				for k := range lastBound {
					lastBound[k] ^= 0x5a
				}
				if len(lastBound) > 0 {
					mutBound = true
				}
			}
		case evMutReturned:
			if lastRet != nil {
				// keep MiMC values canonical: zero the slice (a valid field element)
				for k := range lastRet {
					lastRet[k] = 0
				}
				lastRet[len(lastRet)-1] = 7
				// what a caller that builds a message does: append to the value it was given. If the returned slice
				// has spare capacity this writes behind it (canonical content again: zeros and a small last byte)
				if spare := cap(lastRet) - len(lastRet); spare > 0 {
					ext := lastRet[:cap(lastRet)]
					for k := len(lastRet); k < len(ext); k++ {
						ext[k] = 0
					}
					ext[len(ext)-1] = 9
				}
				mutRet = true
				_ = lastRetRecomputed
			}
		}
		return true
	}
	for i, e := range hist {
		if !step(i, e) {
			return
		}
	}
	// final sweep: compute every challenge in order, compare with the model.
	for j := range names {
		if !step(len(hist)+j, event{evCompute, j}) {
			return
		}
	}
	// and once more (recompute path) after everything
	for j := range names {
		if !step(len(hist)+len(names)+j, event{evCompute, j}) {
			return
		}
	}
}

func classify(hist []event, nn int) string {
	// class = multiset signature of the history: counts per kind + whether a mutation precedes a compute
	var b, cp, mb, mr, unk int
	for _, e := range hist {
		switch e.kind {
		case evBind, evBindBad:
			b++
		case evCompute:
			cp++
		case evMutBound:
			mb++
		case evMutReturned:
			mr++
		}
		if (e.kind == evBind || e.kind == evCompute) && e.name == nn {
			unk++
		}
	}
	return fmt.Sprintf("n%d/b%d/c%d/mb%d/mr%d/u%d", nn, b, cp, mb, mr, unk)
}

func main() {
	c := mon.Init("C15")
	shaVal := func(ctr int) []byte { // unique, variable length (0..5 bytes)
		l := ctr % 6
		v := make([]byte, l)
		for i := range v {
			v[i] = byte(ctr*31 + i)
		}
		return v
	}
	mimcVal := func(ctr int) []byte {
		if ctr%7 == 3 {
			return []byte{} // an empty value: absorbed as nothing
		}
		if ctr%5 == 1 { // a short value (MiMC pads each Write shorter than a block on its own)
			return []byte{byte(1 + ctr%200), byte(ctr % 7)}[:1+ctr%2]
		}
		var e fr.Element
		e.SetUint64(uint64(1000 + ctr))
		b := e.Bytes()
		if ctr%3 == 0 { // two blocks
			var e2 fr.Element
			e2.SetUint64(uint64(77 + ctr))
			b2 := e2.Bytes()
			return append(b[:], b2[:]...)
		}
		return b[:]
	}
	mimcBad := func(ctr int) []byte {
		switch ctr % 3 {
		case 0:
			return bytes.Repeat([]byte{0xff}, 32) // >= r
		case 1: // a canonical block followed by one that is not: refused as a whole
			var e fr.Element
			e.SetUint64(uint64(5 + ctr))
			b := e.Bytes()
			return append(b[:], bytes.Repeat([]byte{0xff}, 32)...)
		}
		var e fr.Element
		e.SetUint64(uint64(9 + ctr))
		b := e.Bytes()
		return append(b[:], 0x01) // not a whole number of blocks
	}
	// MiMC configured for little-endian input: every block reversed (values that are canonical in that order); the
	// transcript resets the hasher before every challenge, and a reset keeps the configuration
	rev := func(b []byte) []byte {
		out := make([]byte, len(b))
		for k := 0; k+32 <= len(b); k += 32 {
			for j := 0; j < 32; j++ {
				out[k+j] = b[k+31-j]
			}
		}
		copy(out[len(b)/32*32:], b[len(b)/32*32:])
		return out
	}
	mimcValLE := func(ctr int) []byte { return rev(mimcVal(ctr)) }
	mimcBadLE := func(ctr int) []byte { return rev(mimcBad(ctr)) }
	cfgs := []hcfg{
		{"sha256", sha256.New, []string{"alpha", "beta", "gamma", "delta"}, shaVal, nil},
		{"mimc", func() hash.Hash { return mimc.NewMiMC() }, []string{"a", "bb", "gamma", strings.Repeat("n", 40)}, mimcVal, mimcBad}, // the 4th name is refused by MiMC (40 bytes: not a whole number of blocks)
		{"mimc-le", func() hash.Hash { return mimc.NewMiMC(mimc.WithByteOrder(fr.LittleEndian)) }, []string{"a" + strings.Repeat("-", 30) + " ", "b" + strings.Repeat("-", 30) + " ", "c" + strings.Repeat("-", 30) + " ", "bb"}, mimcValLE, mimcBadLE}, // 32 printable bytes, last one < 0x30: canonical in little endian
	}
	maxLen := map[string]int{"sha256": c.Pick(6, 7), "mimc": c.Pick(4, 5), "mimc-le": c.Pick(3, 4)}
	// the MiMC of every other field as transcript hash (shorter histories): values are small integers written on one
	// block, every third one on two blocks
	for _, o := range []struct {
		label string
		newH  func() hash.Hash
	}{
		{"mimc-bls12-377", func() hash.Hash { return mimc377.NewMiMC() }}, {"mimc-bls12-381", func() hash.Hash { return mimc381.NewMiMC() }},
		{"mimc-bls24-315", func() hash.Hash { return mimc315.NewMiMC() }}, {"mimc-bls24-317", func() hash.Hash { return mimc317.NewMiMC() }},
		{"mimc-bw6-633", func() hash.Hash { return mimc633.NewMiMC() }}, {"mimc-bw6-761", func() hash.Hash { return mimc761.NewMiMC() }},
		{"mimc-grumpkin", func() hash.Hash { return mimcGr.NewMiMC() }},
	} {
		bs := o.newH().BlockSize()
		val := func(ctr int) []byte {
			if ctr%7 == 3 {
				return []byte{}
			}
			if ctr%5 == 1 {
				lens := []int{1, 2, bs - 1, bs/2 + 1, bs - 16, bs - 9}
				v := make([]byte, lens[(ctr/5)%len(lens)])
				for i := range v {
					v[i] = byte(1 + (ctr+3*i)%200)
				}
				return v
			}
			b := make([]byte, bs)
			b[bs-2], b[bs-1] = byte((1000+ctr)>>8), byte(1000+ctr)
			if ctr%3 == 0 {
				b2 := make([]byte, bs)
				b2[bs-1] = byte(77 + ctr)
				return append(b, b2...)
			}
			return b
		}
		bad := func(ctr int) []byte {
			good := make([]byte, bs)
			good[bs-1] = byte(5 + ctr%100)
			switch ctr % 3 {
			case 0:
				return bytes.Repeat([]byte{0xff}, bs)
			case 1:
				return append(good, bytes.Repeat([]byte{0xff}, bs)...)
			}
			return append(good, 0x01)
		}
		// names of every length regime below one block (the transcript writes them to the hash as they are)
		cfgs = append(cfgs, hcfg{o.label, o.newH, []string{"a", strings.Repeat("b", bs-12), "gamma", strings.Repeat("d", bs-1)}, val, bad})
		maxLen[o.label] = c.Pick(3, 4)
	}
	exhaustive := int64(0)
	for _, cfg := range cfgs {
		for nn := 1; nn <= 3; nn++ {
			names := cfg.names[:nn]
			// alphabet
			var alpha []event
			for i := 0; i <= nn; i++ {
				alpha = append(alpha, event{evBind, i})
			}
			for i := 0; i <= nn; i++ {
				alpha = append(alpha, event{evCompute, i})
			}
			alpha = append(alpha, event{evMutBound, 0}, event{evMutReturned, 0})
			if cfg.bad != nil {
				for i := 0; i < nn; i++ {
					alpha = append(alpha, event{evBindBad, i})
				}
			}
			L := maxLen[cfg.label]
			if nn == 3 && !c.Thorough() && cfg.label == "sha256" {
				L = 5 // 10^6 histories of length 6 would be 10^6*~14 steps; keep quick bounded
			}
			for l := 0; l <= L; l++ {
				idx := make([]int, l)
				hist := make([]event, l)
				for {
					for i := range idx {
						hist[i] = alpha[idx[i]]
					}
					runHistory(c, cfg, names, hist)
					exhaustive++
					if exhaustive%997 == 0 {
						c.Class(cfg.label + "/" + classify(hist, nn))
					}
					if exhaustive%200003 == 1 {
						c.Sample(map[string]any{"hash": cfg.label, "names": names, "history": fmtHist(names, hist)})
					}
					// next
					k := l - 1
					for k >= 0 {
						idx[k]++
						if idx[k] < len(alpha) {
							break
						}
						idx[k] = 0
						k--
					}
					if k < 0 {
						break
					}
				}
				c.Class(fmt.Sprintf("%s/exhaustive-n%d-len%d", cfg.label, nn, l))
			}
		}
	}
	c.Extra("exhaustive_histories", exhaustive)
	// seeded long histories, 4 names
	rng := gen.New(c.Seed, "c15")
	nLong := c.Pick(4000, 40000)
	for _, cfg := range cfgs {
		n := nLong
		if cfg.label == "mimc" {
			n /= 8
		}
		for k := 0; k < n; k++ {
			nn := 1 + rng.Intn(4)
			names := cfg.names[:nn]
			l := 10 + rng.Intn(21)
			hist := make([]event, l)
			for i := range hist {
				r := rng.Intn(100)
				switch {
				case r < 6 && cfg.bad != nil:
					hist[i] = event{evBindBad, rng.Intn(nn)}
				case r < 40:
					hist[i] = event{evBind, rng.Intn(nn + 1)}
				case r < 80:
					hist[i] = event{evCompute, rng.Intn(nn + 1)}
					if rng.Intn(3) > 0 { // bias to in-order computes so deep states are reached
						hist[i].name = rng.Intn(nn)
					}
				case r < 90:
					hist[i] = event{evMutBound, 0}
				default:
					hist[i] = event{evMutReturned, 0}
				}
			}
			runHistory(c, cfg, names, hist)
			c.Class(cfg.label + "/long/" + classify(hist, nn))
			if k == 0 {
				c.Sample(map[string]any{"hash": cfg.label, "names": names, "history": fmtHist(names, hist)})
			}
		}
	}
	c.Extra("seeded_long_histories", nLong+nLong/8)
	c.Finish()
}
