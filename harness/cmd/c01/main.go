// C01: prime-field arithmetic vs math/big, for all 23 fields, on boundary lattices,
// Montgomery-limb patterns and seeded random operands; canonicity of every result.
package main

import (
	"fmt"
	"math/big"
	"strings"
	"sync"
	"unsafe"

	"verif/harness/adapt/fields"
	"verif/harness/gen"
	"verif/harness/mon"
)

var (
	one = big.NewInt(1)
	two = big.NewInt(2)
)

type env[E any, P fields.Ptr[E]] struct {
	c   *mon.Ctx
	f   *fields.Field[E, P]
	q   *big.Int
	rng *gen.Rng
}

func (e *env[E, P]) el(v *big.Int) E { return e.f.FromValue(v) }

// chk compares a result element with the oracle value and checks canonicity.
func (e *env[E, P]) chk(op, cls string, got *E, want *big.Int, desc func() string) {
	f := e.f
	raw := f.Raw(got)
	if raw.Cmp(e.q) >= 0 {
		e.c.Check(op, f.Name+"/"+op+"/non-canonical", false, func() string {
			return fmt.Sprintf("%s: raw limbs %s >= q (class %s)", desc(), raw.Text(16), cls)
		})
		return
	}
	v := f.Value(got)
	e.c.Check(op, f.Name+"/"+op+"/value-mismatch", v.Cmp(want) == 0, func() string {
		return fmt.Sprintf("%s: got %s want %s (class %s)", desc(), v.Text(16), want.Text(16), cls)
	})
}

func mod(x, q *big.Int) *big.Int { return x.Mod(x, q) }

func oinv(x, q *big.Int) *big.Int {
	if x.Sign() == 0 {
		return new(big.Int)
	}
	return new(big.Int).ModInverse(x, q)
}

func oexp(x, k, q *big.Int) *big.Int {
	if k.Sign() == 0 {
		return big.NewInt(1)
	}
	if k.Sign() < 0 {
		return new(big.Int).Exp(oinv(x, q), new(big.Int).Neg(k), q)
	}
	return new(big.Int).Exp(x, k, q)
}

func run[E any, P fields.Ptr[E]](c *mon.Ctx, f *fields.Field[E, P]) {
	q := f.Modulus
	rng := gen.New(c.Seed, "c01/"+f.Name)
	e := &env[E, P]{c, f, q, rng}
	N := f.Name
	bigL := c.Thorough()
	L := fields.Lattice(f, rng, c.Pick(30, 80), bigL)
	// keep the pairwise part bounded in quick: cap lattice for pairs
	pairL := L
	if capN := c.Pick(150, 400); len(pairL.V) > capN {
		// keep all non-mixed classes, subsample mixed
		var p fields.Vals
		for i := range L.V {
			if L.Cls[i] != "mont-limbs-mixed" || rng.Intn(len(L.V)) < capN/2 {
				p.V = append(p.V, L.V[i])
				p.Cls = append(p.Cls, L.Cls[i])
			}
		}
		pairL = p
	}
	c.Extra(N+".lattice", map[string]int{"unary": len(L.V), "pairs": len(pairL.V)})
	hx := func(v *big.Int) string { return v.Text(16) }
	els := make([]E, len(L.V))
	for i, v := range L.V {
		els[i] = e.el(v)
		// self-check of the adapter: Value(FromValue(v)) == v and library BigInt agrees (C08 covers conversions in depth)
		if f.Value(&els[i]).Cmp(v) != 0 {
			c.Inconclusive("adapter round trip failed for %s", N)
			return
		}
	}
	pels := make([]E, len(pairL.V))
	for i, v := range pairL.V {
		pels[i] = e.el(v)
	}
	half := oinv(two, q)

	// ---------- unary ----------
	unary := func(vals fields.Vals, els []E) {
		for i, v := range vals.V {
			x := els[i]
			cls := vals.Cls[i]
			d := func(op string) func() string { return func() string { return op + "(" + hx(v) + ")" } }
			c.Current(N + " unary " + hx(v))
			c.Class(N + "/unary/" + cls)
			var z E
			pz := P(&z)
			pz.Neg(&x)
			e.chk("Neg", cls, &z, mod(new(big.Int).Neg(v), q), d("Neg"))
			pz.Double(&x)
			e.chk("Double", cls, &z, mod(new(big.Int).Lsh(v, 1), q), d("Double"))
			pz.Square(&x)
			e.chk("Square", cls, &z, mod(new(big.Int).Mul(v, v), q), d("Square"))
			pz.Inverse(&x)
			e.chk("Inverse", cls, &z, oinv(v, q), d("Inverse"))
			if f.InverseExp != nil && v.Sign() != 0 {
				var z2 E
				f.InverseExp(&z2, x)
				e.chk("inverseExp", cls, &z2, oinv(v, q), d("inverseExp"))
			}
			z = x
			pz.Halve()
			e.chk("Halve", cls, &z, mod(new(big.Int).Mul(v, half), q), d("Halve"))
			z = x
			f.MulBy3(&z)
			e.chk("MulBy3", cls, &z, mod(new(big.Int).Mul(v, big.NewInt(3)), q), d("MulBy3"))
			z = x
			f.MulBy5(&z)
			e.chk("MulBy5", cls, &z, mod(new(big.Int).Mul(v, big.NewInt(5)), q), d("MulBy5"))
			z = x
			f.MulBy13(&z)
			e.chk("MulBy13", cls, &z, mod(new(big.Int).Mul(v, big.NewInt(13)), q), d("MulBy13"))
			if f.Mul2ExpNegN != nil {
				for n := uint32(0); n <= 33; n++ {
					f.Mul2ExpNegN(&z, &x, n)
					w := new(big.Int).Exp(half, big.NewInt(int64(n)), q)
					e.chk("Mul2ExpNegN", cls, &z, mod(w.Mul(w, v), q), func() string { return fmt.Sprintf("Mul2ExpNegN(%s,%d)", hx(v), n) })
				}
			}
			// Legendre / Sqrt
			jac := 0
			if v.Sign() != 0 {
				jac = big.Jacobi(v, q)
			}
			xx := x
			lg := P(&xx).Legendre()
			c.Check("Legendre", N+"/Legendre/value-mismatch", lg == jac, func() string { return fmt.Sprintf("Legendre(%s)=%d want %d", hx(v), lg, jac) })
			var s E
			res := P(&s).Sqrt(&x)
			if jac >= 0 {
				if c.Check("Sqrt", N+"/Sqrt/nil-for-square", res != nil, func() string { return "Sqrt(" + hx(v) + ") returned nil for a square" }) {
					sv := f.Value(&s)
					e.chk("Sqrt", cls, &s, sv, d("Sqrt")) // canonicity
					c.Check("Sqrt", N+"/Sqrt/root-squared-mismatch", new(big.Int).Exp(sv, two, q).Cmp(v) == 0, func() string {
						return fmt.Sprintf("Sqrt(%s)=%s, square is not the operand", hx(v), hx(sv))
					})
				}
			} else {
				c.Check("Sqrt", N+"/Sqrt/non-nil-for-non-square", res == nil, func() string { return "Sqrt(" + hx(v) + ") returned a root for a non-square" })
			}
			// predicates
			c.Check("IsZero", N+"/IsZero/mismatch", P(&x).IsZero() == (v.Sign() == 0), d("IsZero"))
			c.Check("IsOne", N+"/IsOne/mismatch", P(&x).IsOne() == (v.Cmp(one) == 0), d("IsOne"))
			hq := new(big.Int).Rsh(q, 1)
			c.Check("LexicographicallyLargest", N+"/LexicographicallyLargest/mismatch", P(&x).LexicographicallyLargest() == (v.Cmp(hq) > 0), d("LexicographicallyLargest"))
			// BitLen is documented on the internal (Montgomery) representation and is not part of C01.
			c.Check("IsUint64", N+"/IsUint64/mismatch", P(&x).IsUint64() == v.IsUint64(), d("IsUint64"))
			if v.IsUint64() {
				c.Check("Uint64", N+"/Uint64/mismatch", P(&x).Uint64() == v.Uint64(), d("Uint64"))
			}
		}
	}
	unary(L, els)

	// ---------- exponentiation ----------
	exps := []*big.Int{big.NewInt(0), big.NewInt(1), big.NewInt(-1), big.NewInt(2), big.NewInt(-2), big.NewInt(3),
		new(big.Int).Sub(q, one), new(big.Int).Sub(q, two), new(big.Int).Set(q), new(big.Int).Neg(q), new(big.Int).Add(q, one),
		new(big.Int).Lsh(one, 64), new(big.Int).Sub(new(big.Int).Lsh(one, 64), one), new(big.Int).Lsh(one, uint(f.Bits)),
		rng.BigBits(1000), new(big.Int).Neg(rng.BigBits(700)), rng.BigBits(f.Bits), new(big.Int).Neg(rng.BigBits(f.Bits / 2)),
		new(big.Int).Rsh(q, 1)}
	// multiples of the group order q-1, short and long, of both signs, and their neighbours: x^(k(q-1)) = 1 for x != 0;
	// an implementation that reduces long exponents modulo q-1 meets a zero exponent after the reduction
	qm1 := new(big.Int).Sub(q, one)
	for _, m := range []*big.Int{two, big.NewInt(-6), new(big.Int).Lsh(one, 200), new(big.Int).Neg(new(big.Int).Lsh(one, 70))} {
		k := new(big.Int).Mul(qm1, m)
		exps = append(exps, k, new(big.Int).Add(k, one), new(big.Int).Sub(k, one))
	}
	bases := []int{}
	for i := range L.V {
		if L.Cls[i] != "mont-limbs-mixed" && (L.Cls[i] != "2^k" && L.Cls[i] != "2^k+1" && L.Cls[i] != "-2^k" || i%3 == 0) {
			bases = append(bases, i)
		}
	}
	for _, i := range bases {
		for ki, k := range exps {
			if !c.Thorough() && len(k.Bytes()) > 40 && i%4 != 0 {
				continue
			}
			var z E
			P(&z).Exp(els[i], k)
			e.chk("Exp", L.Cls[i], &z, oexp(L.V[i], k, q), func() string { return fmt.Sprintf("Exp(%s, %s)", hx(L.V[i]), k.String()) })
			c.Class(fmt.Sprintf("%s/Exp/%s/k%d", N, L.Cls[i], ki))
		}
	}
	// the exponent argument must not be modified
	{
		k := new(big.Int).Neg(big.NewInt(12345))
		var z E
		P(&z).Exp(els[len(els)-1], k)
		c.Check("Exp", N+"/Exp/exponent-modified", k.Cmp(big.NewInt(-12345)) == 0, func() string { return "Exp modified its exponent: " + k.String() })
	}
	// ... not even temporarily: the exponent is an input, several goroutines may pass the same *big.Int
	{
		k := new(big.Int).Neg(big.NewInt(0x1234567))
		nb := 8
		if len(els) < nb {
			nb = len(els)
		}
		want := make([]*big.Int, nb)
		for i := range want {
			want[i] = oexp(L.V[i], k, q)
		}
		var wg sync.WaitGroup
		bad := make([]int, nb)
		for g := 0; g < nb; g++ {
			wg.Add(1)
			go func(g int) {
				defer wg.Done()
				for rep := 0; rep < 60; rep++ {
					var z E
					P(&z).Exp(els[g], k)
					if f.Value(&z).Cmp(want[g]) != 0 {
						bad[g]++
					}
				}
			}(g)
		}
		wg.Wait()
		tot := 0
		for _, b := range bad {
			tot += b
		}
		c.Check("Exp", N+"/Exp/shared-exponent-concurrent-mismatch", tot == 0 && k.Cmp(big.NewInt(-0x1234567)) == 0, func() string {
			return fmt.Sprintf("%d of %d Exp(x, k) calls sharing one negative exponent object between %d goroutines returned a wrong value; k afterwards = %s", tot, nb*60, nb, k)
		})
	}

	// ---------- binary, all pairs ----------
	for i, a := range pairL.V {
		x := pels[i]
		for j, b := range pairL.V {
			y := pels[j]
			c.Current(N + " binary " + hx(a) + " " + hx(b))
			d := func(op string) func() string {
				return func() string { return op + "(" + hx(a) + ", " + hx(b) + ")" }
			}
			cls := pairL.Cls[i] + "," + pairL.Cls[j]
			var z E
			pz := P(&z)
			pz.Add(&x, &y)
			e.chk("Add", cls, &z, mod(new(big.Int).Add(a, b), q), d("Add"))
			pz.Sub(&x, &y)
			e.chk("Sub", cls, &z, mod(new(big.Int).Sub(a, b), q), d("Sub"))
			pz.Mul(&x, &y)
			prod := mod(new(big.Int).Mul(a, b), q)
			e.chk("Mul", cls, &z, prod, d("Mul"))
			if f.MulGeneric != nil {
				var z2 E
				f.MulGeneric(&z2, &x, &y)
				e.chk("_mulGeneric", cls, &z2, prod, d("_mulGeneric"))
			}
			if j%3 == i%3 || c.Thorough() {
				pz.Div(&x, &y)
				e.chk("Div", cls, &z, mod(new(big.Int).Mul(a, oinv(b, q)), q), d("Div"))
			}
			bx, by := x, y
			f.Butterfly(&bx, &by)
			e.chk("Butterfly", cls, &bx, mod(new(big.Int).Add(a, b), q), d("Butterfly.a"))
			e.chk("Butterfly", cls, &by, mod(new(big.Int).Sub(a, b), q), d("Butterfly.b"))
			if f.ButterflyGeneric != nil {
				bx, by = x, y
				f.ButterflyGeneric(&bx, &by)
				e.chk("_butterflyGeneric", cls, &bx, mod(new(big.Int).Add(a, b), q), d("_butterflyGeneric.a"))
				e.chk("_butterflyGeneric", cls, &by, mod(new(big.Int).Sub(a, b), q), d("_butterflyGeneric.b"))
			}
			cmp := P(&x).Cmp(&y)
			c.Check("Cmp", N+"/Cmp/mismatch", cmp == a.Cmp(b), func() string { return fmt.Sprintf("Cmp(%s,%s)=%d", hx(a), hx(b), cmp) })
			eq := P(&x).Equal(&y)
			c.Check("Equal", N+"/Equal/mismatch", eq == (a.Cmp(b) == 0), d("Equal"))
			ne := f.NotEqual(&x, &y)
			c.Check("NotEqual", N+"/NotEqual/mismatch", (ne != 0) == (a.Cmp(b) != 0), d("NotEqual"))
			pz.Select(0, &x, &y)
			e.chk("Select", cls, &z, a, d("Select0"))
			pz.Select(1, &x, &y)
			e.chk("Select", cls, &z, b, d("Select1"))
			if (i+j)%16 == 0 {
				pz.Select(-1, &x, &y)
				e.chk("Select", cls, &z, b, d("Select-1"))
				pz.Select(1<<40, &x, &y)
				e.chk("Select", cls, &z, b, d("Select(2^40)"))
			}
		}
		c.Class(N + "/binary-row/" + pairL.Cls[i] + "/" + hx(a))
	}
	c.SampleOnce(N, map[string]any{"field": N, "op": "Mul", "x": hx(pairL.V[len(pairL.V)/2]), "y": hx(pairL.V[len(pairL.V)-1]), "operand_classes": pairL.Cls[len(pairL.V)/2] + "," + pairL.Cls[len(pairL.V)-1]})

	// ---------- random tuples (bulk) ----------
	nr := c.Pick(20000, 200000)
	for k := 0; k < nr; k++ {
		a, b := rng.BigBelow(q), rng.BigBelow(q)
		if k%5 == 0 { // small / sparse values
			a = rng.BigBits(1 + rng.Intn(f.Bits))
			a.Mod(a, q)
		}
		x, y := e.el(a), e.el(b)
		var z E
		pz := P(&z)
		d := func(op string) func() string {
			return func() string { return op + "(" + hx(a) + ", " + hx(b) + ")" }
		}
		pz.Mul(&x, &y)
		e.chk("Mul", "random", &z, mod(new(big.Int).Mul(a, b), q), d("Mul"))
		pz.Add(&x, &y)
		e.chk("Add", "random", &z, mod(new(big.Int).Add(a, b), q), d("Add"))
		pz.Sub(&x, &y)
		e.chk("Sub", "random", &z, mod(new(big.Int).Sub(a, b), q), d("Sub"))
		pz.Square(&x)
		e.chk("Square", "random", &z, mod(new(big.Int).Mul(a, a), q), d("Square"))
		pz.Inverse(&x)
		e.chk("Inverse", "random", &z, oinv(a, q), d("Inverse"))
		if k%8 == 0 {
			var s E
			res := P(&s).Sqrt(&x)
			jac := 0
			if a.Sign() != 0 {
				jac = big.Jacobi(a, q)
			}
			ok := (res != nil) == (jac >= 0)
			if ok && res != nil {
				sv := f.Value(&s)
				ok = new(big.Int).Exp(sv, two, q).Cmp(a) == 0 && f.Canonical(&s)
			}
			c.Check("Sqrt", N+"/Sqrt/random-mismatch", ok, d("Sqrt"))
			xx := x
			c.Check("Legendre", N+"/Legendre/value-mismatch", P(&xx).Legendre() == jac, d("Legendre"))
		}
	}
	c.Class(N + "/random-bulk")
	// inversion stress: values of every bit length
	for bl := 1; bl <= f.Bits; bl++ {
		for rep := 0; rep < c.Pick(2, 20); rep++ {
			a := rng.BigBits(bl)
			a.SetBit(a, bl-1, 1)
			a.Mod(a, q)
			x := e.el(a)
			var z E
			P(&z).Inverse(&x)
			e.chk("Inverse", "bitlen", &z, oinv(a, q), func() string { return "Inverse(" + hx(a) + ")" })
		}
	}
	c.Class(N + "/inverse-every-bitlen")

	// ---------- BatchInvert ----------
	for _, n := range []int{0, 1, 2, 3, 17, 64} {
		for _, zpos := range []int{-1, 0, n / 2, n - 1, -2} { // -2 => all zero
			if zpos >= n {
				continue
			}
			vs := make([]*big.Int, n)
			in := make([]E, n)
			for i := range vs {
				vs[i] = L.V[(i*7+n+zpos+2)%len(L.V)]
				if i == zpos || zpos == -2 {
					vs[i] = new(big.Int)
				}
				in[i] = e.el(vs[i])
			}
			keep := append([]E(nil), in...)
			var out []E
			if c.Guard(N+"/BatchInvert/panic", func() string { return fmt.Sprintf("n=%d zero at %d", n, zpos) }, func() { out = f.BatchInvert(in) }) {
				continue
			}
			c.Check("BatchInvert", N+"/BatchInvert/length", len(out) == n, func() string { return fmt.Sprintf("n=%d got len %d", n, len(out)) })
			for i := 0; i < n && i < len(out); i++ {
				e.chk("BatchInvert", "batch", &out[i], oinv(vs[i], q), func() string { return fmt.Sprintf("BatchInvert n=%d zero@%d entry %d = %s", n, zpos, i, hx(vs[i])) })
				c.Check("BatchInvert", N+"/BatchInvert/input-modified", f.Raw(&in[i]).Cmp(f.Raw(&keep[i])) == 0, func() string { return fmt.Sprintf("n=%d entry %d", n, i) })
			}
			c.Class(fmt.Sprintf("%s/BatchInvert/n%d/z%d", N, n, zpos))
		}
	}

	// batches whose running product passes through 1, -1 or the first entry again (sets closed under inversion, an
	// entry next to its inverse, zeros in between): the intermediate values of the one-inversion trick are special
	{
		x, y := L.V[5%len(L.V)], L.V[11%len(L.V)]
		if x.Sign() == 0 {
			x = big.NewInt(2)
		}
		if y.Sign() == 0 {
			y = big.NewInt(3)
		}
		inv := func(a *big.Int) *big.Int { return oinv(a, q) }
		mul := func(a, b *big.Int) *big.Int { return new(big.Int).Mod(new(big.Int).Mul(a, b), q) }
		neg := func(a *big.Int) *big.Int { return new(big.Int).Mod(new(big.Int).Neg(a), q) }
		m1 := new(big.Int).Sub(q, big.NewInt(1))
		one, two, zero := big.NewInt(1), big.NewInt(2), new(big.Int)
		for bi, vs := range [][]*big.Int{
			{x, inv(x)}, {m1, m1}, {two, zero, inv(two)}, {x, y, inv(mul(x, y))}, {x, inv(x), y, inv(y), two}, {one, one, one}, {m1},
			{x, neg(inv(x))}, {zero, x, inv(x), zero}, {x, inv(x), x, inv(x), x, inv(x)}, {inv(two), two, m1, m1, one}, {x, y, inv(y), inv(x)},
		} {
			n := len(vs)
			in := make([]E, n)
			for i := range vs {
				in[i] = e.el(vs[i])
			}
			var out []E
			if c.Guard(N+"/BatchInvert/panic", func() string { return fmt.Sprintf("structured batch %d", bi) }, func() { out = f.BatchInvert(in) }) {
				continue
			}
			c.Check("BatchInvert", N+"/BatchInvert/length", len(out) == n, func() string { return fmt.Sprintf("n=%d got len %d", n, len(out)) })
			for i := 0; i < n && i < len(out); i++ {
				e.chk("BatchInvert", "batch", &out[i], oinv(vs[i], q), func() string {
					return fmt.Sprintf("BatchInvert of a batch whose running product passes through special values (batch %d, n=%d) entry %d = %s", bi, n, i, hx(vs[i]))
				})
			}
			c.Class(fmt.Sprintf("%s/BatchInvert/structured%d", N, bi))
		}
	}

	// ---------- vectors ----------
	lens := []int{}
	for n := 0; n <= 35; n++ {
		lens = append(lens, n)
	}
	lens = append(lens, 63, 64, 65, 111, 112, 113, 255, 256, 257)
	if c.Thorough() {
		lens = append(lens, 511, 512, 513, 1000, 4097)
	}
	for _, n := range lens {
		for variant := 0; variant < 6; variant++ { // 0: lattice values, 1: random, 2..5: accumulator boundary shapes
			av, bv := make([]*big.Int, n), make([]*big.Int, n)
			a, b := make([]E, n), make([]E, n)
			for i := 0; i < n; i++ {
				if variant == 0 {
					av[i], bv[i] = L.V[(i*5+n)%len(L.V)], L.V[(i*11+3*n+1)%len(L.V)]
					if n > 4 && i%3 == 0 { // heavy on q-1 so reductions in accumulators are stressed
						av[i], bv[i] = new(big.Int).Sub(q, one), new(big.Int).Sub(q, big.NewInt(int64(1+i%2)))
					}
				} else {
					av[i], bv[i] = rng.BigBelow(q), rng.BigBelow(q)
				}
				a[i], b[i] = e.el(av[i]), e.el(bv[i])
			}
			if variant >= 2 {
				if n < 2 {
					continue
				}
				// cancelling pairs (x, -x) against equal multipliers: Sum = InnerProduct = 0 with integer sums that are
				// multiples of q; then all zero / total = q-1 / total = 1
				for i := 0; i+1 < n; i += 2 {
					av[i] = rng.BigBelow(q)
					av[i+1] = mod(new(big.Int).Neg(av[i]), q)
					bv[i] = rng.BigBelow(q)
					bv[i+1] = bv[i]
				}
				if n%2 == 1 {
					av[n-1], bv[n-1] = new(big.Int), new(big.Int)
				}
				switch variant {
				case 3:
					for i := range av {
						av[i], bv[i] = new(big.Int), new(big.Int)
					}
				case 4, 5:
					if n%2 == 0 {
						av[n-2], bv[n-2] = new(big.Int), new(big.Int)
					}
					av[n-1], bv[n-1] = new(big.Int).Sub(q, one), big.NewInt(1)
					if variant == 5 {
						av[n-1] = big.NewInt(1)
					}
				}
				for i := 0; i < n; i++ {
					a[i], b[i] = e.el(av[i]), e.el(bv[i])
				}
			}
			desc := func(op string) func() string {
				return func() string {
					s := make([]string, 0, n)
					for i := 0; i < n && i < 6; i++ {
						s = append(s, hx(av[i])+":"+hx(bv[i]))
					}
					return fmt.Sprintf("Vector.%s n=%d variant=%d first=%s", op, n, variant, strings.Join(s, " "))
				}
			}
			c.Current(fmt.Sprintf("%s vector n=%d variant=%d", N, n, variant))
			c.Class(fmt.Sprintf("%s/vector/n%d/v%d", N, n, variant))
			res := make([]E, n)
			sc := L.V[(n+3)%len(L.V)]
			scE := e.el(sc)
			type vop struct {
				name string
				call func()
				want func(i int) *big.Int
			}
			ops := []vop{
				{"Add", func() { f.VecAdd(res, a, b) }, func(i int) *big.Int { return mod(new(big.Int).Add(av[i], bv[i]), q) }},
				{"Sub", func() { f.VecSub(res, a, b) }, func(i int) *big.Int { return mod(new(big.Int).Sub(av[i], bv[i]), q) }},
				{"Mul", func() { f.VecMul(res, a, b) }, func(i int) *big.Int { return mod(new(big.Int).Mul(av[i], bv[i]), q) }},
				{"ScalarMul", func() { f.VecScalarMul(res, a, &scE) }, func(i int) *big.Int { return mod(new(big.Int).Mul(av[i], sc), q) }},
			}
			for _, o := range ops {
				for i := range res {
					f.SetRaw(&res[i], big.NewInt(0xdead))
				}
				if c.Guard(fmt.Sprintf("%s/Vector.%s/panic/n=%d", N, o.name, n), desc(o.name), o.call) {
					continue
				}
				for i := 0; i < n; i++ {
					e.chk("Vector."+o.name, "vec", &res[i], o.want(i), func() string { return desc(o.name)() + fmt.Sprintf(" entry %d", i) })
				}
				if n == 0 {
					c.Eval("Vector."+o.name, 1)
				}
			}
			var sum, ip E
			if !c.Guard(fmt.Sprintf("%s/Vector.Sum/panic/n=%d", N, n), desc("Sum"), func() { sum = f.VecSum(a) }) {
				w := new(big.Int)
				for i := range av {
					w.Add(w, av[i])
				}
				e.chk("Vector.Sum", "vec", &sum, mod(w, q), desc("Sum"))
			}
			if !c.Guard(fmt.Sprintf("%s/Vector.InnerProduct/panic/n=%d", N, n), desc("InnerProduct"), func() { ip = f.VecInnerProduct(a, b) }) {
				w := new(big.Int)
				for i := range av {
					w.Add(w, new(big.Int).Mul(av[i], bv[i]))
				}
				e.chk("Vector.InnerProduct", "vec", &ip, mod(w, q), desc("InnerProduct"))
			}
		}
	}
	// very long vectors: the reducing operations accumulate lazily and reduce with precomputed constants (Barrett mu,
	// accumulator width); an estimate that is slightly off only shows once enough terms are accumulated. Constant
	// vectors make the expected value n*v (resp. n*v*w) with no oracle cost; one field at a time to bound memory.
	bigVecMu.Lock()
	defer bigVecMu.Unlock()
	var zeroE E
	nBig := 1_300_000
	if int(unsafe.Sizeof(zeroE)) > 48 {
		nBig = 400_000
	}
	if c.Thorough() {
		nBig *= 4
	}
	for vi, v := range []*big.Int{new(big.Int).Sub(q, big.NewInt(1)), new(big.Int).Rsh(q, 1), e.rng.BigBelow(q)} {
		el := f.FromValue(v)
		a := make([]E, nBig)
		for i := range a {
			a[i] = el
		}
		desc := func(op string) func() string {
			return func() string { return fmt.Sprintf("Vector.%s of %d copies of %s", op, nBig, v.Text(16)) }
		}
		var sum, ip E
		if !c.Guard(fmt.Sprintf("%s/Vector.Sum/panic/n=%d", N, nBig), desc("Sum"), func() { sum = f.VecSum(a) }) {
			w := new(big.Int).Mul(big.NewInt(int64(nBig)), v)
			e.chk("Vector.Sum", "long-vector", &sum, mod(w, q), desc("Sum"))
		}
		if !c.Guard(fmt.Sprintf("%s/Vector.InnerProduct/panic/n=%d", N, nBig), desc("InnerProduct"), func() { ip = f.VecInnerProduct(a, a) }) {
			w := new(big.Int).Mul(big.NewInt(int64(nBig)), new(big.Int).Mul(v, v))
			e.chk("Vector.InnerProduct", "long-vector", &ip, mod(w, q), desc("InnerProduct"))
		}
		c.Class(fmt.Sprintf("%s/Vector.Sum/long/%d", N, vi))
	}
}

var bigVecMu sync.Mutex

func main() {
	c := mon.Init("C01")
	var wg sync.WaitGroup
	sem := make(chan struct{}, 16)
	for _, fl := range allFields {
		if !mon.Selected(fl.name) {
			continue
		}
		wg.Add(1)
		fl := fl
		go func() {
			defer wg.Done()
			sem <- struct{}{}
			defer func() { <-sem }()
			defer func() {
				if r := recover(); r != nil {
					c.Fail(fl.name+"/harness/panic", "panic outside a guarded call: %v", r)
				}
			}()
			fl.fn(c)
		}()
	}
	wg.Wait()
	if c.Thorough() {
		sweep31(c)
	}
	c.Finish()
}
