package main

import (
	"fmt"
	"sync"
	"sync/atomic"

	"github.com/consensys/gnark-crypto/field/babybear"
	"github.com/consensys/gnark-crypto/field/koalabear"

	"verif/harness/mon"
)

// sweep31: exhaustive sweep over all q inputs of the unary operations of the two 31-bit fields
// against a native uint64 oracle (thorough tier). The Montgomery raw limb is the loop variable, so
// every representation is visited; the value is raw*R^-1.
type ops31 struct {
	name string
	q    uint64
	// each returns the raw limb of the result for raw limb input m
	neg, dbl, sq, inv, halve, mul3, mul5, mul13 func(m uint32) uint32
	mulc                                        func(m, c uint32) uint32
}

func powmod(b, e, q uint64) uint64 {
	r := uint64(1)
	b %= q
	for e > 0 {
		if e&1 == 1 {
			r = r * b % q
		}
		b = b * b % q
		e >>= 1
	}
	return r
}

func sweep31(c *mon.Ctx) {
	kb := ops31{name: "field/koalabear", q: 2130706433,
		neg:   func(m uint32) uint32 { x := koalabear.Element{m}; var z koalabear.Element; z.Neg(&x); return z[0] },
		dbl:   func(m uint32) uint32 { x := koalabear.Element{m}; var z koalabear.Element; z.Double(&x); return z[0] },
		sq:    func(m uint32) uint32 { x := koalabear.Element{m}; var z koalabear.Element; z.Square(&x); return z[0] },
		inv:   func(m uint32) uint32 { x := koalabear.Element{m}; var z koalabear.Element; z.Inverse(&x); return z[0] },
		halve: func(m uint32) uint32 { x := koalabear.Element{m}; x.Halve(); return x[0] },
		mul3:  func(m uint32) uint32 { x := koalabear.Element{m}; koalabear.MulBy3(&x); return x[0] },
		mul5:  func(m uint32) uint32 { x := koalabear.Element{m}; koalabear.MulBy5(&x); return x[0] },
		mul13: func(m uint32) uint32 { x := koalabear.Element{m}; koalabear.MulBy13(&x); return x[0] },
		mulc: func(m, k uint32) uint32 {
			x := koalabear.Element{m}
			y := koalabear.Element{k}
			var z koalabear.Element
			z.Mul(&x, &y)
			return z[0]
		},
	}
	bb := ops31{name: "field/babybear", q: 2013265921,
		neg:   func(m uint32) uint32 { x := babybear.Element{m}; var z babybear.Element; z.Neg(&x); return z[0] },
		dbl:   func(m uint32) uint32 { x := babybear.Element{m}; var z babybear.Element; z.Double(&x); return z[0] },
		sq:    func(m uint32) uint32 { x := babybear.Element{m}; var z babybear.Element; z.Square(&x); return z[0] },
		inv:   func(m uint32) uint32 { x := babybear.Element{m}; var z babybear.Element; z.Inverse(&x); return z[0] },
		halve: func(m uint32) uint32 { x := babybear.Element{m}; x.Halve(); return x[0] },
		mul3:  func(m uint32) uint32 { x := babybear.Element{m}; babybear.MulBy3(&x); return x[0] },
		mul5:  func(m uint32) uint32 { x := babybear.Element{m}; babybear.MulBy5(&x); return x[0] },
		mul13: func(m uint32) uint32 { x := babybear.Element{m}; babybear.MulBy13(&x); return x[0] },
		mulc: func(m, k uint32) uint32 {
			x := babybear.Element{m}
			y := babybear.Element{k}
			var z babybear.Element
			z.Mul(&x, &y)
			return z[0]
		},
	}
	for _, o := range []ops31{kb, bb} {
		q := o.q
		R := (uint64(1) << 32) % q
		Rinv := powmod(R, q-2, q)
		R2 := R * R % q
		inv2 := powmod(2, q-2, q)
		var total atomic.Int64
		var wg sync.WaitGroup
		nw := 16
		bad := func(op string, m uint32, got uint32, want uint64) {
			c.Fail(o.name+"/"+op+"/sweep-mismatch", "raw limb %d: got raw %d want raw %d", m, got, want)
		}
		for w := 0; w < nw; w++ {
			wg.Add(1)
			go func(w int) {
				defer wg.Done()
				n := int64(0)
				// constants for mul sweep: multiply by a few fixed raw constants
				consts := []uint32{1, uint32(R), uint32(q - 1), 0x7fffffff % uint32(q), 12345}
				for m64 := uint64(w); m64 < q; m64 += uint64(nw) {
					m := uint32(m64)
					// value v = m*Rinv; results in Montgomery form: f(v)*R
					if g := o.neg(m); uint64(g) != (q-m64)%q {
						bad("Neg", m, g, (q-m64)%q)
					}
					if g := o.dbl(m); uint64(g) != 2*m64%q {
						bad("Double", m, g, 2*m64%q)
					}
					// square: (m*Rinv)^2*R = m^2*Rinv
					if g, wv := o.sq(m), m64*m64%q*Rinv%q; uint64(g) != wv {
						bad("Square", m, g, wv)
					}
					if g, wv := o.halve(m), m64*inv2%q; uint64(g) != wv {
						bad("Halve", m, g, wv)
					}
					if g := o.mul3(m); uint64(g) != 3*m64%q {
						bad("MulBy3", m, g, 3*m64%q)
					}
					if g := o.mul5(m); uint64(g) != 5*m64%q {
						bad("MulBy5", m, g, 5*m64%q)
					}
					if g := o.mul13(m); uint64(g) != 13*m64%q {
						bad("MulBy13", m, g, 13*m64%q)
					}
					for _, k := range consts {
						if g, wv := o.mulc(m, k), m64*uint64(k)%q*Rinv%q; uint64(g) != wv {
							bad("Mul", m, g, wv)
						}
					}
					// inverse: (m*Rinv)^-1 * R = R^2 * m^-1 ; check by multiplication: inv_raw * m == R^2 (mod q)
					g := uint64(o.inv(m))
					if m == 0 {
						if g != 0 {
							bad("Inverse", m, uint32(g), 0)
						}
					} else if g >= q || g*m64%q != R2 {
						bad("Inverse", m, uint32(g), 0)
					}
					n += 8 + int64(len(consts))
				}
				total.Add(n)
			}(w)
		}
		wg.Wait()
		c.Eval("sweep31", int(total.Load()))
		c.Class(o.name + "/exhaustive-sweep-all-raw-limbs")
		c.Extra(o.name+".exhaustive_unary_inputs", q)
		c.Note("%s: exhaustive sweep of all %d raw limbs for Neg, Double, Square, Halve, MulBy3/5/13, Inverse, Mul by 5 constants", o.name, q)
	}
	_ = fmt.Sprint
}
