// C06: extension-field and GT routines vs generic arithmetic in the oracle quotient rings.
// Methods are discovered by reflection over every tower type; each is matched by name/signature to an
// oracle semantics; unmatched exported methods are listed in the evidence as uncovered.
package main

import (
	"fmt"
	"math/big"
	"reflect"
	"sort"
	"strings"
	"sync"

	"verif/harness/adapt/pairings"
	"verif/harness/adapt/towers"
	"verif/harness/adapt/towertypes"
	"verif/harness/gen"
	"verif/harness/mon"
	"verif/harness/oracle/ofield"
)

var (
	one    = big.NewInt(1)
	bigT   = reflect.TypeOf((*big.Int)(nil))
	errorT = reflect.TypeOf((*error)(nil)).Elem()
)

// tinfo describes one tower type of one tower.
type tinfo struct {
	Name   string
	T      reflect.Type // struct type
	F      *ofield.Fld
	Deg    int
	Sub    *tinfo // type of the sub-blocks (nil when blocks are prime-field elements)
	LeafT  reflect.Type
	NBlock int
}

type env struct {
	c     *mon.Ctx
	tw    *towertypes.Tower
	ot    *towers.Tower
	N     string
	rng   *gen.Rng
	types map[string]*tinfo // by type name
	byT   map[reflect.Type]*tinfo
	seed  *big.Int // curve seed (signed)
	unc   map[string]bool
	gt    *tinfo
	cyc   map[string][]operand // cyclotomic-subgroup elements per type name (labelled)
	gtEls []ofield.El          // elements of order r (pairing values)
}

func (e *env) mk(ti *tinfo, v ofield.El) reflect.Value {
	p := reflect.New(ti.T)
	towers.Unflatten(p.Interface(), v)
	return p
}
func (e *env) rd(p reflect.Value) ofield.El { return towers.Flatten(p.Interface()) }

func (e *env) mkLeaf(v *big.Int) reflect.Value {
	ti := e.leafOwner()
	p := reflect.New(ti.LeafT)
	p.MethodByName("SetBigInt").Call([]reflect.Value{reflect.ValueOf(v)})
	return p
}
func (e *env) leafOwner() *tinfo {
	for _, t := range e.types {
		if t.Sub == nil {
			return t
		}
	}
	panic("no leaf owner")
}

func (e *env) randEl(f *ofield.Fld) ofield.El {
	v := f.Zero()
	for i := range v {
		v[i] = e.rng.BigBelow(f.P)
	}
	return v
}

type operand struct {
	v   ofield.El
	cls string
}

// operands: 0, 1, -1, random, and sparse patterns over the sub-blocks.
func (e *env) operands(ti *tinfo, n int) []operand {
	f := ti.F
	out := []operand{{f.Zero(), "0"}, {f.One(), "1"}, {f.Neg(f.One()), "-1"}}
	for i := 0; i < 3; i++ {
		out = append(out, operand{e.randEl(f), "random"})
	}
	bd := ti.Deg / ti.NBlock
	// sparse: each subset of blocks (capped), non-zero blocks random or +-1
	nsub := 1 << ti.NBlock
	var subsets []int
	if nsub <= 64 {
		for s := 1; s < nsub-1; s++ {
			subsets = append(subsets, s)
		}
	} else {
		for b := 0; b < ti.NBlock; b++ {
			subsets = append(subsets, 1<<b, (nsub-1)&^(1<<b))
		}
		for k := 0; k < 24; k++ {
			subsets = append(subsets, 1+e.rng.Intn(nsub-2))
		}
	}
	for si, s := range subsets {
		v := f.Zero()
		for b := 0; b < ti.NBlock; b++ {
			if s&(1<<b) == 0 {
				continue
			}
			for k := 0; k < bd; k++ {
				switch (si + b) % 3 {
				case 0:
					v[b*bd+k] = e.rng.BigBelow(f.P)
				case 1:
					if k == 0 {
						v[b*bd].SetInt64(1)
					}
				default:
					if k == 0 {
						v[b*bd].Sub(f.P, one)
					}
				}
			}
		}
		out = append(out, operand{v, fmt.Sprintf("sparse-blocks-%b", s)})
	}
	// single base-coordinate patterns
	for k := 0; k < ti.Deg; k++ {
		v := f.Zero()
		v[k] = e.rng.BigBelow(f.P)
		out = append(out, operand{v, fmt.Sprintf("single-coordinate-%d", k)})
	}
	if n > 0 && len(out) > n {
		// keep the first 6 and a seeded subset of the rest
		keep := out[:6]
		rest := out[6:]
		for _, i := range e.rng.Perm(len(rest))[:n-6] {
			keep = append(keep, rest[i])
		}
		out = keep
	}
	return out
}

func (e *env) key(ti *tinfo, m, kind string) string {
	return e.N + "/" + ti.Name + "." + m + "/" + kind
}

// call invokes ptr.method(args...) under the panic guard; returns results.
func (e *env) call(ti *tinfo, recv reflect.Value, m string, desc func() string, args ...reflect.Value) ([]reflect.Value, bool) {
	var res []reflect.Value
	if e.c.Guard(e.key(ti, m, "panic"), desc, func() { res = recv.MethodByName(m).Call(args) }) {
		return nil, false
	}
	return res, true
}

func (e *env) cmp(ti *tinfo, m, cls string, got reflect.Value, want ofield.El, desc func() string) {
	g := e.rd(got)
	e.c.Check(ti.Name+"."+m, e.key(ti, m, "value-mismatch"), ti.F.Eq(g, want), func() string {
		return fmt.Sprintf("%s [%s]: got %s want %s", desc(), cls, ti.F.String(g), ti.F.String(want))
	})
}

func (e *env) junk(ti *tinfo) reflect.Value { return e.mk(ti, e.randEl(ti.F)) }

// nextBeta returns the element of ti.F by which the next tower level is defined (X^n = beta), if any.
func (e *env) nextBeta(ti *tinfo) ofield.El {
	for _, f := range []*ofield.Fld{e.ot.Fp2, e.ot.Fp3, e.ot.Fp4, e.ot.Fp6, e.ot.Fp12, e.ot.Fp24, e.ot.GT} {
		if f != nil && f.Base == ti.F {
			return f.Beta
		}
	}
	return nil
}

func runTower(c *mon.Ctx, tw *towertypes.Tower) {
	N := tw.Name
	e := &env{c: c, tw: tw, N: N, rng: gen.New(c.Seed, "c06/"+N), types: map[string]*tinfo{}, byT: map[reflect.Type]*tinfo{}, unc: map[string]bool{}, cyc: map[string][]operand{}}
	if tw.Kind == "pairing" {
		e.ot = towers.For(N, tw.P)
		e.seed = seeds[N]
	} else {
		e.ot = smallTower(N, tw.P)
	}
	// type table
	fieldByDeg := map[int]*ofield.Fld{}
	for _, f := range []*ofield.Fld{e.ot.Fp2, e.ot.Fp3, e.ot.Fp4, e.ot.Fp6, e.ot.Fp12, e.ot.Fp24} {
		if f != nil {
			fieldByDeg[f.Deg()] = f
		}
	}
	var tis []*tinfo
	for _, p := range tw.Types {
		T := reflect.TypeOf(p).Elem()
		deg := len(towers.Flatten(p))
		ti := &tinfo{Name: T.Name(), T: T, Deg: deg, F: fieldByDeg[deg], NBlock: T.NumField()}
		if T.Name() == "E6D" { // bw6-761 direct sextic representation: handled by its own routine
			ti.F = nil
		}
		tis = append(tis, ti)
		e.types[ti.Name] = ti
		e.byT[T] = ti
	}
	for _, ti := range tis {
		ft := ti.T.Field(0).Type
		if s, ok := e.byT[ft]; ok {
			ti.Sub = s
		} else {
			ti.LeafT = ft
		}
	}
	if tw.GT != nil {
		e.gt = e.byT[reflect.TypeOf(tw.GT).Elem()]
	}
	// oracle tower sanity: every non-residue must be a non-residue (irreducibility of X^n - beta)
	for _, ti := range tis {
		if ti.F == nil || ti.F.Base == nil {
			continue
		}
		f := ti.F
		q := f.Base.Order()
		exp := new(big.Int).Sub(q, one)
		exp.Div(exp, big.NewInt(int64(f.N)))
		if f.Base.IsOne(f.Base.Exp(f.Beta, exp)) {
			c.Inconclusive("%s: documented modulus of %s is reducible in the oracle (beta is a %d-th power)", N, ti.Name, f.N)
			return
		}
	}
	sort.Slice(tis, func(i, j int) bool { return tis[i].Deg < tis[j].Deg })
	e.prepareCyclotomic()
	for _, ti := range tis {
		if ti.F == nil {
			e.runE6D(ti)
			continue
		}
		e.runType(ti)
	}
	e.runFuncs()
	var unc []string
	for k := range e.unc {
		unc = append(unc, k)
	}
	sort.Strings(unc)
	c.Extra(N+".uncovered_methods", unc)
}

func smallTower(name string, p *big.Int) *towers.Tower {
	t := &towers.Tower{Fp: ofield.Prime(p)}
	beta := map[string]int64{"field/koalabear/extensions": 3, "field/babybear/extensions": 11, "field/goldilocks/extensions": 7}[name]
	t.Fp2 = t.Fp.Ext(2, t.Fp.FromInt64(beta))
	if !strings.Contains(name, "goldilocks") {
		t.Fp4 = t.Fp2.Ext(2, t.Fp2.FromInts(big.NewInt(0), big.NewInt(1)))
	}
	return t
}

var seeds = map[string]*big.Int{}

func init() {
	for k, v := range map[string]string{"bn254": "4965661367192848881", "bls12-377": "9586122913090633729", "bls12-381": "-15132376222941642752",
		"bls24-315": "-3218079743", "bls24-317": "3640754176", "bw6-633": "-3218079743", "bw6-761": "9586122913090633729"} {
		seeds[k], _ = new(big.Int).SetString(v, 10)
	}
}

func main() {
	c := mon.Init("C06")
	var wg sync.WaitGroup
	for _, ti := range towertypes.All {
		if !mon.Selected(ti.Name) {
			continue
		}
		ti := ti
		wg.Add(1)
		go func() {
			defer wg.Done()
			defer func() {
				if r := recover(); r != nil {
					c.Fail(ti.Name+"/harness/panic", "panic outside a guarded call: %v", r)
				}
			}()
			runTower(c, ti.New())
		}()
	}
	wg.Wait()
	_ = pairings.All
	c.Finish()
}
