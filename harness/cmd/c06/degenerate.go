package main

import (
	"math/big"

	"verif/harness/oracle/ofield"
)

// Construction of cyclotomic-subgroup elements with a prescribed zero coordinate (the measure-zero inputs of
// the Karabina decompression special cases). GT = Fq^6 (q = p^d); for m in Fq^3 (first half of a GT element)
// and w the quadratic generator, y = (m+w)/(m-w) has norm 1 over Fq^3 and z = y*y^q lies in the subgroup of
// order q^2-q+1 = Phi_k(p). Fixing two coordinates of m, coord_b(z)*N(m-w)^2 is a polynomial of degree <= 12
// in the third coordinate t in Fq: it is interpolated from 14 evaluations and its roots in Fq are found by
// gcd with X^q - X and Cantor-Zassenhaus splitting. All arithmetic is oracle arithmetic.

type poly []ofield.El // low -> high over fq

type pctx struct{ f *ofield.Fld }

func (p pctx) trim(a poly) poly {
	for len(a) > 0 && p.f.IsZero(a[len(a)-1]) {
		a = a[:len(a)-1]
	}
	return a
}
func (p pctx) add(a, b poly) poly {
	if len(a) < len(b) {
		a, b = b, a
	}
	r := make(poly, len(a))
	for i := range a {
		r[i] = p.f.Copy(a[i])
	}
	for i := range b {
		r[i] = p.f.Add(r[i], b[i])
	}
	return p.trim(r)
}
func (p pctx) sub(a, b poly) poly {
	nb := make(poly, len(b))
	for i := range b {
		nb[i] = p.f.Neg(b[i])
	}
	return p.add(a, nb)
}
func (p pctx) mul(a, b poly) poly {
	if len(a) == 0 || len(b) == 0 {
		return nil
	}
	r := make(poly, len(a)+len(b)-1)
	for i := range r {
		r[i] = p.f.Zero()
	}
	for i := range a {
		for j := range b {
			r[i+j] = p.f.Add(r[i+j], p.f.Mul(a[i], b[j]))
		}
	}
	return p.trim(r)
}
func (p pctx) scale(a poly, c ofield.El) poly {
	r := make(poly, len(a))
	for i := range a {
		r[i] = p.f.Mul(a[i], c)
	}
	return p.trim(r)
}
func (p pctx) divmod(a, m poly) (poly, poly) {
	a = append(poly{}, p.trim(a)...)
	m = p.trim(m)
	if len(a) < len(m) {
		return nil, a
	}
	quo := make(poly, len(a)-len(m)+1)
	for i := range quo {
		quo[i] = p.f.Zero()
	}
	inv := p.f.Inv(m[len(m)-1])
	for len(a) >= len(m) {
		c := p.f.Mul(a[len(a)-1], inv)
		sh := len(a) - len(m)
		quo[sh] = c
		for i := range m {
			a[sh+i] = p.f.Sub(a[sh+i], p.f.Mul(m[i], c))
		}
		a[len(a)-1] = p.f.Zero()
		a = p.trim(a)
	}
	return p.trim(quo), a
}
func (p pctx) mod(a, m poly) poly { _, r := p.divmod(a, m); return r }
func (p pctx) gcd(a, b poly) poly {
	a, b = p.trim(a), p.trim(b)
	for len(b) > 0 {
		a, b = b, p.mod(a, b)
	}
	if len(a) > 0 {
		a = p.scale(a, p.f.Inv(a[len(a)-1]))
	}
	return a
}
func (p pctx) powmod(base poly, e *big.Int, m poly) poly {
	r := poly{p.f.One()}
	b := p.mod(base, m)
	for i := e.BitLen() - 1; i >= 0; i-- {
		r = p.mod(p.mul(r, r), m)
		if e.Bit(i) == 1 {
			r = p.mod(p.mul(r, b), m)
		}
	}
	return r
}
func (p pctx) eval(a poly, x ofield.El) ofield.El {
	r := p.f.Zero()
	for i := len(a) - 1; i >= 0; i-- {
		r = p.f.Add(p.f.Mul(r, x), a[i])
	}
	return r
}

// roots returns the roots of g lying in fq.
func (e *env) polyRoots(p pctx, g poly) []ofield.El {
	q := p.f.Order()
	x := poly{p.f.Zero(), p.f.One()}
	xq := p.powmod(x, q, g)
	h := p.gcd(g, p.sub(xq, x))
	var roots []ofield.El
	half := new(big.Int).Rsh(new(big.Int).Sub(q, big.NewInt(1)), 1)
	var split func(h poly, depth int)
	split = func(h poly, depth int) {
		h = p.trim(h)
		if len(h) <= 1 || depth > 40 {
			return
		}
		if len(h) == 2 {
			roots = append(roots, p.f.Neg(h[0])) // monic
			return
		}
		d := e.randEl(p.f)
		w := p.powmod(poly{d, p.f.One()}, half, h)
		w = p.sub(w, poly{p.f.One()})
		a := p.gcd(h, w)
		if len(a) <= 1 || len(a) == len(h) {
			split(h, depth+1)
			return
		}
		split(a, depth+1)
		quo, _ := p.divmod(h, a)
		split(quo, depth+1)
	}
	split(h, 0)
	return roots
}

// degenerateCyclotomic tries to build an element of the cyclotomic subgroup of ti (the GT type, degree 6d over
// Fq) whose Fq-block `block` (0..5) is zero. Returns ok=false when no root is found within the attempt budget.
func (e *env) degenerateCyclotomic(ti *tinfo, fq *ofield.Fld, block int, attempts int) (ofield.El, bool) {
	F := ti.F
	d := fq.Deg()
	p := pctx{fq}
	zOf := func(t, m1, m2 ofield.El) (ofield.El, ofield.El, bool) {
		num, den := F.Zero(), F.Zero()
		copy(num[0:d], t)
		copy(num[d:2*d], m1)
		copy(num[2*d:3*d], m2)
		copy(den[0:3*d], num[0:3*d])
		num[3*d] = big.NewInt(1)
		den[3*d] = new(big.Int).Sub(F.P, big.NewInt(1))
		// norm of den down to Fq
		acc := F.One()
		cur := den
		for k := 0; k < 6; k++ {
			acc = F.Mul(acc, cur)
			cur = frob(F, cur, d)
		}
		for i := d; i < len(acc); i++ {
			if acc[i].Sign() != 0 {
				return nil, nil, false // not in Fq: the tower layout assumption fails
			}
		}
		nden := ofield.El(acc[:d])
		if fq.IsZero(nden) {
			return nil, nden, true
		}
		y := F.Mul(num, F.Inv(den))
		return F.Mul(y, frob(F, y, d)), nden, true
	}
	const D = 14
	for attempt := 0; attempt < attempts; attempt++ {
		m1, m2 := e.randEl(fq), e.randEl(fq)
		xs := make([]ofield.El, D)
		ys := make([]ofield.El, D)
		okAll := true
		for i := 0; i < D; i++ {
			xs[i] = fq.FromInt64(int64(i + 2))
			z, n, ok := zOf(xs[i], m1, m2)
			if !ok || z == nil {
				okAll = false
				break
			}
			c := ofield.El(z[block*d : (block+1)*d])
			ys[i] = fq.Mul(c, fq.Sqr(n))
		}
		if !okAll {
			continue
		}
		var g poly
		for i := 0; i < D; i++ {
			li := poly{fq.One()}
			den := fq.One()
			for j := 0; j < D; j++ {
				if j == i {
					continue
				}
				li = p.mul(li, poly{fq.Neg(xs[j]), fq.One()})
				den = fq.Mul(den, fq.Sub(xs[i], xs[j]))
			}
			g = p.add(g, p.scale(li, fq.Mul(fq.Inv(den), ys[i])))
		}
		// consistency of the interpolation at a fresh point
		tchk := fq.FromInt64(1000 + int64(attempt))
		if zc, nc, ok := zOf(tchk, m1, m2); !ok || zc == nil || !fq.Eq(p.eval(g, tchk), fq.Mul(ofield.El(zc[block*d:(block+1)*d]), fq.Sqr(nc))) {
			continue
		}
		for _, r := range e.polyRoots(p, g) {
			z, n, ok := zOf(r, m1, m2)
			if !ok || z == nil || fq.IsZero(n) {
				continue
			}
			if !fq.IsZero(ofield.El(z[block*d:(block+1)*d])) || F.IsOne(z) {
				continue
			}
			return z, true
		}
	}
	return nil, false
}
