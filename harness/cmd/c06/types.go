package main

import (
	"fmt"
	"math/big"
	"reflect"
	"regexp"
	"strings"

	"verif/harness/oracle/ofield"
)

// frobenius matrices (x -> x^p is Fp-linear): images of the basis computed once by oracle exponentiation.
var frobCache = map[*ofield.Fld][]ofield.El{}

func frobBasis(f *ofield.Fld) []ofield.El {
	if m, ok := frobCache[f]; ok {
		return m
	}
	m := make([]ofield.El, f.Deg())
	for i := range m {
		b := f.Zero()
		b[i].SetInt64(1)
		m[i] = f.Exp(b, f.P)
	}
	frobCache[f] = m
	return m
}

// frob returns x^(p^k).
func frob(f *ofield.Fld, x ofield.El, k int) ofield.El {
	m := frobBasis(f)
	for ; k > 0; k-- {
		r := f.Zero()
		for i := range x {
			if x[i].Sign() == 0 {
				continue
			}
			for j := range r {
				t := new(big.Int).Mul(x[i], m[i][j])
				r[j].Add(r[j], t)
			}
		}
		for j := range r {
			r[j].Mod(r[j], f.P)
		}
		x = r
	}
	return x
}

var skipMethods = map[string]bool{"String": true, "Bytes": true, "Marshal": true, "Unmarshal": true, "SetBytes": true, "SetRandom": true,
	"MustSetRandom": true, "SetString": true, "Bits": true, "Cmp": true, "SetOne": true, "SetZero": true}

var sparseRe = regexp.MustCompile(`^MulBy([0-9]+)$`)

func (e *env) runType(ti *tinfo) {
	c := e.c
	f := ti.F
	pT := reflect.PointerTo(ti.T)
	ops := e.operands(ti, c.Pick(26, 60))
	nb := c.Pick(10, 16)
	if ti.Deg >= 12 {
		nb = c.Pick(8, 12)
	}
	bops := ops
	if len(bops) > nb {
		bops = append(append([]operand{}, ops[:6]...), ops[6:nb]...)
	}
	hx := func(v ofield.El) string { return f.String(v) }
	// the constant setters, on receivers that already hold a value (every coordinate is theirs to write)
	for _, sn := range []string{"SetOne", "SetZero"} {
		m, ok := pT.MethodByName(sn)
		if !ok || m.Type.NumIn() != 1 {
			continue
		}
		want := f.Zero()
		if sn == "SetOne" {
			want = f.One()
		}
		for k := 0; k < 4; k++ {
			recv := reflect.New(ti.T)
			held := "a zero-valued receiver"
			if k > 0 {
				recv = e.junk(ti)
				held = "a receiver holding " + hx(e.rd(recv))
			}
			desc := func() string { return fmt.Sprintf("%s.%s() on %s", ti.Name, sn, held) }
			if _, ok := e.call(ti, recv, sn, desc); ok {
				e.cmp(ti, sn, "used-receiver", recv, want, desc)
			}
		}
		c.Class(e.key(ti, sn, "used-receiver"))
	}
	for i := 0; i < pT.NumMethod(); i++ {
		m := pT.Method(i)
		name := m.Name
		if skipMethods[name] {
			continue
		}
		mt := m.Type
		var in, out []reflect.Type
		for k := 1; k < mt.NumIn(); k++ {
			in = append(in, mt.In(k))
		}
		for k := 0; k < mt.NumOut(); k++ {
			out = append(out, mt.Out(k))
		}
		is := func(ts []reflect.Type, want ...reflect.Type) bool {
			if len(ts) != len(want) {
				return false
			}
			for k := range ts {
				if ts[k] != want[k] {
					return false
				}
			}
			return true
		}
		K := func(kind string) string { return e.key(ti, name, kind) }
		switch {
		// ---------- z.Op(x, y) ----------
		case is(in, pT, pT) && is(out, pT):
			var sem func(a, b ofield.El) ofield.El
			switch name {
			case "Add":
				sem = f.Add
			case "Sub":
				sem = f.Sub
			case "Mul":
				sem = f.Mul
			case "Div":
				sem = f.Div
			}
			if sem == nil {
				e.unc[ti.Name+"."+name] = true
				continue
			}
			for _, a := range bops {
				for _, b := range bops {
					x, y, z := e.mk(ti, a.v), e.mk(ti, b.v), e.junk(ti)
					desc := func() string { return fmt.Sprintf("%s.%s(%s, %s)", ti.Name, name, hx(a.v), hx(b.v)) }
					if _, ok := e.call(ti, z, name, desc, x, y); !ok {
						continue
					}
					e.cmp(ti, name, a.cls+","+b.cls, z, sem(a.v, b.v), desc)
					c.Check(ti.Name+"."+name, K("operand-modified"), f.Eq(e.rd(x), a.v) && f.Eq(e.rd(y), b.v), desc)
				}
				c.Class(e.N + "/" + ti.Name + "." + name + "/" + a.cls)
			}
		// ---------- z.Op(x) ----------
		case is(in, pT) && is(out, pT):
			e.unary(ti, name, ops)
		// ---------- z.Exp(x, k) ----------
		case len(in) == 2 && in[0] == ti.T && in[1] == bigT && is(out, pT):
			e.expLike(ti, name, ops)
		// ---------- predicates ----------
		case len(in) == 0 && is(out, reflect.TypeOf(true)):
			for _, a := range ops {
				var want bool
				switch name {
				case "IsZero":
					want = f.IsZero(a.v)
				case "IsOne":
					want = f.IsOne(a.v)
				case "LexicographicallyLargest":
					// documented on the coordinates: the highest coordinate that is not zero decides, and it is "largest"
					// when it exceeds (p-1)/2; for x != 0 exactly one of x, -x is largest (the sign bit of point encodings)
					half := new(big.Int).Rsh(f.P, 1)
					for k := len(a.v) - 1; k >= 0; k-- {
						if a.v[k].Sign() != 0 {
							want = a.v[k].Cmp(half) > 0
							break
						}
					}
				default:
					continue
				}
				x := e.mk(ti, a.v)
				desc := func() string { return fmt.Sprintf("%s.%s(%s)", ti.Name, name, hx(a.v)) }
				if res, ok := e.call(ti, x, name, desc); ok {
					c.Check(ti.Name+"."+name, K("predicate-mismatch"), res[0].Bool() == want, desc)
				}
			}
			if name == "IsInSubGroup" {
				e.isInSubGroup(ti)
			} else if name != "IsZero" && name != "IsOne" && name != "LexicographicallyLargest" {
				e.unc[ti.Name+"."+name] = true
			}
			c.Class(e.N + "/" + ti.Name + "." + name)
		case is(in, pT) && is(out, reflect.TypeOf(true)) && name == "Equal":
			for i, a := range bops {
				for j, b := range bops {
					x, y := e.mk(ti, a.v), e.mk(ti, b.v)
					desc := func() string { return fmt.Sprintf("%s.Equal(%s, %s)", ti.Name, hx(a.v), hx(b.v)) }
					if res, ok := e.call(ti, x, name, desc, y); ok {
						c.Check(ti.Name+".Equal", K("predicate-mismatch"), res[0].Bool() == f.Eq(a.v, b.v), desc)
					}
					_ = i
					_ = j
				}
			}
			c.Class(e.N + "/" + ti.Name + ".Equal")
		case len(in) == 0 && is(out, reflect.TypeOf(0)) && name == "Legendre":
			for _, a := range ops {
				x := e.mk(ti, a.v)
				desc := func() string { return fmt.Sprintf("%s.Legendre(%s)", ti.Name, hx(a.v)) }
				if res, ok := e.call(ti, x, name, desc); ok {
					c.Check(ti.Name+".Legendre", K("value-mismatch"), int(res[0].Int()) == f.Legendre(a.v), func() string {
						return fmt.Sprintf("%s = %d, oracle %d", desc(), res[0].Int(), f.Legendre(a.v))
					})
				}
				c.Class(e.N + "/" + ti.Name + ".Legendre/" + a.cls)
			}
		case len(in) == 0 && len(out) == 0 && name == "Halve":
			half := f.Inv(f.FromInt64(2))
			for _, a := range ops {
				x := e.mk(ti, a.v)
				desc := func() string { return fmt.Sprintf("%s.Halve(%s)", ti.Name, hx(a.v)) }
				if _, ok := e.call(ti, x, name, desc); ok {
					e.cmp(ti, name, a.cls, x, f.Mul(a.v, half), desc)
				}
			}
			c.Class(e.N + "/" + ti.Name + ".Halve")
		// ---------- multiplication by an element of a subfield: z.MulByElement(x, y *leaf), z.MulByE2(x, y *E2) ----------
		case len(in) == 2 && in[0] == pT && in[1].Kind() == reflect.Pointer && is(out, pT) && (name == "MulByElement" || strings.HasPrefix(name, "MulByE")):
			var sf *ofield.Fld
			var mkSub func(v ofield.El) reflect.Value
			if sub, ok := e.byT[in[1].Elem()]; ok {
				sf = sub.F
				mkSub = func(v ofield.El) reflect.Value { return e.mk(sub, v) }
			} else {
				sf = e.ot.Fp
				mkSub = func(v ofield.El) reflect.Value { return e.mkLeaf(v[0]) }
			}
			var subvals []ofield.El
			subvals = append(subvals, sf.Zero(), sf.One(), sf.Neg(sf.One()), e.randEl(sf), e.randEl(sf))
			for _, a := range bops {
				for _, s := range subvals {
					x, y, z := e.mk(ti, a.v), mkSub(s), e.junk(ti)
					desc := func() string { return fmt.Sprintf("%s.%s(%s, %s)", ti.Name, name, hx(a.v), sf.String(s)) }
					if _, ok := e.call(ti, z, name, desc, x, y); ok {
						e.cmp(ti, name, a.cls, z, f.Mul(a.v, f.Embed(s)), desc)
					}
				}
				c.Class(e.N + "/" + ti.Name + "." + name + "/" + a.cls)
			}
		// ---------- sparse products: z.MulBy034(c0, c3, c4), z.MulBy01234(&[5]B) (receiver is operand and destination) ----------
		case sparseRe.MatchString(name) && is(out, pT):
			e.sparse(ti, name, in, bops)
		case name == "Select" && len(in) == 3:
			for _, cond := range []int{0, 1, -1, 7} {
				a, b := ops[3].v, ops[4].v
				x, y, z := e.mk(ti, a), e.mk(ti, b), e.junk(ti)
				desc := func() string { return fmt.Sprintf("%s.Select(%d, x, y)", ti.Name, cond) }
				if _, ok := e.call(ti, z, name, desc, reflect.ValueOf(cond), x, y); ok {
					want := a
					if cond != 0 {
						want = b
					}
					e.cmp(ti, name, fmt.Sprint(cond), z, want, desc)
				}
			}
			c.Class(e.N + "/" + ti.Name + ".Select")
		case name == "CompressTorus" || name == "DecompressTorus":
			e.torus(ti, name)
		default:
			e.unc[ti.Name+"."+name] = true
		}
	}
	c.SampleOnce(e.N+"/"+ti.Name, map[string]any{"tower": e.N, "type": ti.Name, "degree": ti.Deg, "operand_example": hx(ops[len(ops)/2].v), "class": ops[len(ops)/2].cls})
}

func (e *env) unary(ti *tinfo, name string, ops []operand) {
	c := e.c
	f := ti.F
	hx := func(v ofield.El) string { return f.String(v) }
	var sem func(a ofield.El) ofield.El
	domain := "all"
	switch name {
	case "Neg":
		sem = f.Neg
	case "Double":
		sem = func(a ofield.El) ofield.El { return f.Add(a, a) }
	case "Square":
		sem = f.Sqr
	case "Inverse":
		sem = f.Inv
	case "Set":
		sem = func(a ofield.El) ofield.El { return a }
	case "Conjugate", "InverseUnitary":
		if f.N != 2 {
			e.unc[ti.Name+"."+name] = true
			return
		}
		sem = f.Conj
	case "Frobenius":
		sem = func(a ofield.El) ofield.El { return frob(f, a, 1) }
	case "FrobeniusSquare":
		sem = func(a ofield.El) ofield.El { return frob(f, a, 2) }
	case "FrobeniusCube":
		sem = func(a ofield.El) ofield.El { return frob(f, a, 3) }
	case "FrobeniusQuad":
		sem = func(a ofield.El) ofield.El { return frob(f, a, 4) }
	case "MulByNonResidue", "MulByNonResidueInv":
		beta := e.nextBeta(ti)
		if beta == nil {
			e.linearConstant(ti, name, ops)
			return
		}
		if name == "MulByNonResidueInv" {
			beta = f.Inv(beta)
		}
		sem = func(a ofield.El) ofield.El { return f.Mul(a, beta) }
	case "Sqrt":
		domain = "squares"
		sem = nil
	case "CyclotomicSquare":
		domain = "cyclotomic"
		sem = f.Sqr
	case "CyclotomicSquareCompressed", "DecompressKarabina":
		e.karabina(ti, name)
		return
	default:
		if strings.HasPrefix(name, "MulByNonResidue") || name == "MulBybTwistCurveCoeff" {
			e.linearConstant(ti, name, ops)
			return
		}
		if strings.HasPrefix(name, "Exp") { // Expt, ExptHalf, Expc1 ...: fixed exponents on the cyclotomic subgroup
			e.fixedExp(ti, name)
			return
		}
		e.unc[ti.Name+"."+name] = true
		return
	}
	list := ops
	if domain == "cyclotomic" {
		list = append([]operand(nil), e.cyc[ti.Name]...)
		if len(list) == 0 {
			e.unc[ti.Name+"."+name+"(no cyclotomic elements)"] = true
			return
		}
	}
	if strings.HasPrefix(name, "Frobenius") && ti.Deg >= 24 && !c.Thorough() {
		list = list[:12]
	}
	for _, a := range list {
		if domain == "squares" {
			// Sqrt: documented for squares only; the returned root must square to the operand
			sq := f.Sqr(a.v)
			x, z := e.mk(ti, sq), e.junk(ti)
			desc := func() string { return fmt.Sprintf("%s.Sqrt(%s)", ti.Name, hx(sq)) }
			if _, ok := e.call(ti, z, name, desc, x); ok {
				g := e.rd(z)
				c.Check(ti.Name+".Sqrt", e.key(ti, name, "root-squared-mismatch"), f.Eq(f.Sqr(g), sq), func() string {
					return fmt.Sprintf("%s = %s whose square is not the operand [%s^2]", desc(), hx(g), a.cls)
				})
			}
			c.Class(e.N + "/" + ti.Name + ".Sqrt/" + a.cls)
			continue
		}
		x, z := e.mk(ti, a.v), e.junk(ti)
		desc := func() string { return fmt.Sprintf("%s.%s(%s)", ti.Name, name, hx(a.v)) }
		if _, ok := e.call(ti, z, name, desc, x); !ok {
			continue
		}
		e.cmp(ti, name, a.cls, z, sem(a.v), desc)
		c.Check(ti.Name+"."+name, e.key(ti, name, "operand-modified"), f.Eq(e.rd(x), a.v), desc)
		c.Class(e.N + "/" + ti.Name + "." + name + "/" + a.cls)
	}
}

// linearConstant: routines documented as "multiply by a fixed constant": f(x) must equal x*f(1) in the oracle
// ring (the constant itself is pinned by the Frobenius / pairing checks that consume it).
func (e *env) linearConstant(ti *tinfo, name string, ops []operand) {
	f := ti.F
	o := e.mk(ti, f.One())
	z := e.junk(ti)
	desc1 := func() string { return fmt.Sprintf("%s.%s(1)", ti.Name, name) }
	if _, ok := e.call(ti, z, name, desc1, o); !ok {
		return
	}
	k := e.rd(z)
	for _, a := range ops {
		x, z := e.mk(ti, a.v), e.junk(ti)
		desc := func() string { return fmt.Sprintf("%s.%s(%s)", ti.Name, name, f.String(a.v)) }
		if _, ok := e.call(ti, z, name, desc, x); ok {
			e.cmp(ti, name, a.cls+"(x*f(1))", z, f.Mul(a.v, k), desc)
		}
	}
	e.c.Class(e.N + "/" + ti.Name + "." + name + "/linear-in-x")
}

func (e *env) expLike(ti *tinfo, name string, ops []operand) {
	c := e.c
	f := ti.F
	var bases []operand
	switch name {
	case "Exp":
		bases = []operand{ops[0], ops[1], ops[2], ops[3], ops[4]}
		if len(ops) > 8 {
			bases = append(bases, ops[7], ops[8])
		}
	case "CyclotomicExp":
		bases = append(bases, e.cyc[ti.Name]...)
	case "ExpGLV":
		for i, v := range e.gtEls {
			bases = append(bases, operand{v, fmt.Sprintf("GT-%d", i)})
		}
	default:
		e.unc[ti.Name+"."+name] = true
		return
	}
	if len(bases) == 0 {
		e.unc[ti.Name+"."+name+"(no domain elements)"] = true
		return
	}
	r := e.tw.R
	if r == nil {
		r = f.P
	}
	exps := []*big.Int{big.NewInt(0), big.NewInt(1), big.NewInt(-1), big.NewInt(2), big.NewInt(-2), big.NewInt(3), new(big.Int).Sub(r, one), new(big.Int).Set(r), new(big.Int).Add(r, one),
		new(big.Int).Lsh(one, 64), new(big.Int).Sub(new(big.Int).Lsh(one, 64), one), new(big.Int).Lsh(one, 127), e.rng.BigBits(r.BitLen()), new(big.Int).Neg(e.rng.BigBits(r.BitLen())), e.rng.BigBits(r.BitLen() / 2),
		new(big.Int).Lsh(one, uint(r.BitLen())), e.rng.BigBits(r.BitLen() + 70), new(big.Int).Neg(e.rng.BigBits(2 * r.BitLen()))}
	if ti.Deg <= 6 || c.Thorough() {
		exps = append(exps, e.rng.BigBits(1000), new(big.Int).Neg(e.rng.BigBits(777)))
	}
	nGeneric := len(exps)
	if name == "ExpGLV" {
		// exponents a + b*lambda mod r for the eigenvalues an implementation can use on GT - the Frobenius (x^p, so
		// lambda = p mod r, and its inverse) and the primitive cube roots of unity mod r: the two halves of the
		// decomposition are then (a, b) up to the lattice reduction, so that halves of different word lengths, a zero
		// half and maximal halves are all met
		lams := []*big.Int{new(big.Int).Mod(f.P, r)}
		if inv := new(big.Int).ModInverse(lams[0], r); inv != nil {
			lams = append(lams, inv)
		}
		if sq := new(big.Int).ModSqrt(new(big.Int).Sub(r, big.NewInt(3)), r); sq != nil && new(big.Int).Mod(r, big.NewInt(3)).Int64() == 1 {
			inv2 := new(big.Int).ModInverse(big.NewInt(2), r)
			for _, s := range []*big.Int{sq, new(big.Int).Sub(r, sq)} {
				lam := new(big.Int).Sub(s, one)
				lams = append(lams, lam.Mul(lam, inv2).Mod(lam, r))
			}
		}
		{
			p2 := func(k uint) *big.Int { return new(big.Int).Lsh(one, k) }
			pairs := [][2]*big.Int{{p2(10), p2(64)}, {p2(64), p2(10)}, {big.NewInt(0), p2(64)}, {big.NewInt(1), p2(65)}, {p2(63), p2(64)},
				{new(big.Int).Sub(p2(64), one), p2(64)}, {p2(64), new(big.Int).Sub(p2(64), one)}, {p2(20), p2(uint(r.BitLen()/2 - 1))}, {p2(uint(r.BitLen()/2 - 1)), big.NewInt(3)}}
			for _, lam := range lams {
				for pi, ab := range pairs {
					v := new(big.Int).Mul(ab[1], lam)
					v.Add(v, ab[0]).Mod(v, r)
					if pi%2 == 1 {
						v.Neg(v)
					}
					exps = append(exps, v)
				}
			}
		}
	}
	// the exponent objects are used again for every base: an implementation that keeps a reference to the caller's
	// *big.Int (a scratch pool, a cache) and writes through it during a later call changes them behind the caller
	pristine := make([]*big.Int, len(exps))
	for i, k := range exps {
		pristine[i] = new(big.Int).Set(k)
	}
	defer func() {
		for i, k := range exps {
			c.Check(ti.Name+"."+name, e.key(ti, name, "exponent-modified-by-a-later-call"), k.Cmp(pristine[i]) == 0, func() string {
				return fmt.Sprintf("%s.%s: the *big.Int passed as exponent #%d held %s when it was passed, holds %s after further calls with other exponents", ti.Name, name, i, pristine[i], k)
			})
			k.Set(pristine[i])
		}
	}()
	for bi, b := range bases {
		for ki, k := range exps {
			if !c.Check(ti.Name+"."+name, e.key(ti, name, "exponent-modified-by-a-later-call"), k.Cmp(pristine[ki]) == 0, func() string {
				return fmt.Sprintf("%s.%s: the *big.Int passed as exponent #%d held %s when it was passed, holds %s after further calls with other exponents", ti.Name, name, ki, pristine[ki], k)
			}) {
				k.Set(pristine[ki])
			}
			if ti.Deg >= 12 && !c.Thorough() && (bi+ki)%2 == 1 && ki > 5 && ki < nGeneric {
				continue
			}
			if ki >= nGeneric && bi != 1 && !c.Thorough() {
				continue // lattice-crafted exponents: one base (a generator of GT, bases[0] is 1) in the quick tier
			}
			x, z := e.mk(ti, b.v), e.junk(ti)
			keep := new(big.Int).Set(k)
			desc := func() string { return fmt.Sprintf("%s.%s(%s, k=%s)", ti.Name, name, f.String(b.v), k) }
			if _, ok := e.call(ti, z, name, desc, x.Elem(), reflect.ValueOf(k)); !ok {
				continue
			}
			e.cmp(ti, name, fmt.Sprintf("%s/k%d", b.cls, ki), z, f.Exp(b.v, k), desc)
			c.Check(ti.Name+"."+name, e.key(ti, name, "exponent-modified"), k.Cmp(keep) == 0, desc)
			c.Class(fmt.Sprintf("%s/%s.%s/%s/k%d", e.N, ti.Name, name, b.cls, ki))
		}
	}
}

// sparse: z.MulBy<digits>(blocks...) multiplies the receiver by the sparse element having the given blocks.
func (e *env) sparse(ti *tinfo, name string, in []reflect.Type, bops []operand) {
	c := e.c
	f := ti.F
	digits := sparseRe.FindStringSubmatch(name)[1]
	bd := ti.Deg / ti.NBlock
	// position units: blocks of the *smallest* extension level below ti whose type matches the argument type
	var argT reflect.Type
	arr := false
	if len(in) == 1 && in[0].Kind() == reflect.Pointer && in[0].Elem().Kind() == reflect.Array && in[0].Elem().Elem().Kind() != reflect.Uint64 && in[0].Elem().Elem().Kind() != reflect.Uint32 {
		arr = true
		argT = in[0].Elem().Elem()
	} else {
		for _, t := range in {
			if t.Kind() != reflect.Pointer {
				e.unc[ti.Name+"."+name] = true
				return
			}
		}
		argT = in[0].Elem()
	}
	var sf *ofield.Fld
	var mkArg func(v ofield.El) reflect.Value
	if sub, ok := e.byT[argT]; ok {
		sf = sub.F
		mkArg = func(v ofield.El) reflect.Value { return e.mk(sub, v) }
	} else {
		sf = e.ot.Fp
		mkArg = func(v ofield.El) reflect.Value { return e.mkLeaf(v[0]) }
	}
	unit := sf.Deg() // coefficients per position
	npos := ti.Deg / unit
	_ = bd
	nargs := len(in)
	if arr {
		nargs = in[0].Elem().Len()
	}
	var pos []int
	for _, d := range digits {
		pos = append(pos, int(d-'0'))
	}
	implicit := -1
	if len(pos) != nargs {
		e.unc[ti.Name+"."+name+"(digits/args mismatch)"] = true
		return
	}
	// on the GT type the two-argument line products carry an implicit 1: MulBy34 -> block 0, MulBy01 -> block 4
	if ti == e.gt && e.tw.Kind == "pairing" {
		if name == "MulBy34" {
			implicit = 0
		}
		if name == "MulBy01" && npos == 6 {
			implicit = 4
		}
	}
	for _, p := range pos {
		if p >= npos {
			e.unc[ti.Name+"."+name+"(position out of range)"] = true
			return
		}
	}
	subvals := func(k int) ofield.El {
		switch k % 4 {
		case 0:
			return e.randEl(sf)
		case 1:
			return sf.Zero()
		case 2:
			return sf.One()
		}
		return e.randEl(sf)
	}
	for ai, a := range bops {
		for variant := 0; variant < 3; variant++ {
			vals := make([]ofield.El, nargs)
			for k := range vals {
				if variant == 0 {
					vals[k] = e.randEl(sf)
				} else {
					vals[k] = subvals(ai + k + variant)
				}
			}
			sp := f.Zero()
			for k, p := range pos {
				copy(sp[p*unit:(p+1)*unit], vals[k])
			}
			if implicit >= 0 {
				sp[implicit*unit] = big.NewInt(1)
			}
			z := e.mk(ti, a.v)
			var args []reflect.Value
			if arr {
				av := reflect.New(in[0].Elem())
				for k := range vals {
					av.Elem().Index(k).Set(mkArg(vals[k]).Elem())
				}
				args = []reflect.Value{av}
			} else {
				for k := range vals {
					args = append(args, mkArg(vals[k]))
				}
			}
			desc := func() string {
				return fmt.Sprintf("%s.%s: %s times sparse %s", ti.Name, name, f.String(a.v), f.String(sp))
			}
			if _, ok := e.call(ti, z, name, desc, args...); ok {
				e.cmp(ti, name, a.cls, z, f.Mul(a.v, sp), desc)
				// the blocks of the sparse element are operands: unchanged by the call (a line is reused for several
				// accumulators), and a second product by the same objects gives the same value
				same := true
				for k := range vals {
					var cur ofield.El
					if arr {
						cur = e.rd(args[0].Elem().Index(k).Addr())
					} else {
						cur = e.rd(args[k])
					}
					same = same && sf.Eq(cur, vals[k])
				}
				c.Check(ti.Name+"."+name, e.key(ti, name, "operand-modified"), same, desc)
				z2 := e.mk(ti, a.v)
				if _, ok2 := e.call(ti, z2, name, desc, args...); ok2 && same {
					e.cmp(ti, name, a.cls+"/second-product-same-objects", z2, f.Mul(a.v, sp), desc)
				}
			}
		}
		c.Class(e.N + "/" + ti.Name + "." + name + "/" + a.cls)
	}
}
