package main

import (
	"fmt"
	"math/big"
	"reflect"
	"regexp"
	"sort"

	"verif/harness/oracle/ofield"
)

var batchInvRe = regexp.MustCompile(`^BatchInvert(E[0-9]+D?)$`)
var spBySpRe = regexp.MustCompile(`^Mul([0-9]+)By([0-9]+)$`)

// runFuncs drives the package-level functions of the tower.
func (e *env) runFuncs() {
	c := e.c
	names := make([]string, 0, len(e.tw.Funcs))
	for k := range e.tw.Funcs {
		names = append(names, k)
	}
	sort.Strings(names)
	for _, name := range names {
		fn := reflect.ValueOf(e.tw.Funcs[name])
		switch {
		case batchInvRe.MatchString(name):
			ti := e.types[batchInvRe.FindStringSubmatch(name)[1]]
			if ti == nil || ti.F == nil {
				e.unc[name] = true
				continue
			}
			f := ti.F
			ops := e.operands(ti, 12)
			for _, n := range []int{0, 1, 2, 3, 9} {
				for _, zpos := range []int{-1, 0, n - 1, -2} {
					if zpos >= n {
						continue
					}
					vals := make([]ofield.El, n)
					sl := reflect.MakeSlice(reflect.SliceOf(ti.T), n, n)
					for i := range vals {
						vals[i] = ops[(i*5+n+3)%len(ops)].v
						if f.IsZero(vals[i]) {
							vals[i] = f.One()
						}
						if i == zpos || zpos == -2 {
							vals[i] = f.Zero()
						}
						sl.Index(i).Set(e.mk(ti, vals[i]).Elem())
					}
					key := e.N + "/" + name
					var res []reflect.Value
					if c.Guard(key+"/panic", func() string { return fmt.Sprintf("n=%d zero@%d", n, zpos) }, func() { res = fn.Call([]reflect.Value{sl}) }) {
						continue
					}
					ok := res[0].Len() == n
					for i := 0; ok && i < n; i++ {
						ok = f.Eq(e.rd(res[0].Index(i).Addr()), f.Inv(vals[i])) && f.Eq(e.rd(sl.Index(i).Addr()), vals[i])
					}
					c.Check(name, key+"/value-mismatch", ok, func() string { return fmt.Sprintf("n=%d zero at %d", n, zpos) })
					c.Class(fmt.Sprintf("%s/%s/n%d/z%d", e.N, name, n, zpos))
				}
			}
		case spBySpRe.MatchString(name):
			e.sparseBySparse(name, fn)
		case name == "BatchCompressTorus" || name == "BatchDecompressTorus" || name == "BatchDecompressKarabina":
			// exercised by torus() / karabina()
		case name == "MulAccE4":
			e.mulAcc(fn)
		case name == "FromTower" || name == "ToTower":
			// exercised by runE6D
		default:
			e.unc[name] = true
		}
	}
}

// sparseBySparse: Mul034By034(d0,d3,d4,c0,c3,c4) returns the five possibly non-zero blocks of the product of two
// sparse GT elements, in the block order consumed by MulBy01234 / MulBy01245.
func (e *env) sparseBySparse(name string, fn reflect.Value) {
	c := e.c
	ti := e.gt
	if ti == nil {
		e.unc[name] = true
		return
	}
	f := ti.F
	m := spBySpRe.FindStringSubmatch(name)
	if m[1] != m[2] {
		e.unc[name] = true
		return
	}
	var pos []int
	for _, d := range m[1] {
		pos = append(pos, int(d-'0'))
	}
	ft := fn.Type()
	nargs := ft.NumIn()
	argT := ft.In(0).Elem()
	var sf *ofield.Fld
	var mkArg func(v ofield.El) reflect.Value
	var rdArg func(v reflect.Value) ofield.El
	if sub, ok := e.byT[argT]; ok {
		sf = sub.F
		mkArg = func(v ofield.El) reflect.Value { return e.mk(sub, v) }
		rdArg = func(v reflect.Value) ofield.El { return e.rd(v) }
	} else {
		sf = e.ot.Fp
		mkArg = func(v ofield.El) reflect.Value { return e.mkLeaf(v[0]) }
		rdArg = func(v reflect.Value) ofield.El {
			r := v.MethodByName("BigInt").Call([]reflect.Value{reflect.ValueOf(new(big.Int))})
			return ofield.El{r[0].Interface().(*big.Int)}
		}
	}
	unit := sf.Deg()
	npos := ti.Deg / unit
	implicit := -1
	if nargs == 2*len(pos) {
		// all blocks explicit
	} else {
		e.unc[name+"(arity)"] = true
		return
	}
	// two-block line products carry an implicit one (see sparse()): Mul34By34 -> block 0, Mul01By01 -> block 4
	if name == "Mul34By34" {
		implicit = 0
	}
	if name == "Mul01By01" && npos == 6 {
		implicit = 4
	}
	// consumer: the MulBy<5 digits> method of GT taking *[5]B tells where the returned blocks live
	var consumer string
	pT := reflect.PointerTo(ti.T)
	for i := 0; i < pT.NumMethod(); i++ {
		mm := pT.Method(i)
		if sparseRe.MatchString(mm.Name) && mm.Type.NumIn() == 2 && mm.Type.In(1).Kind() == reflect.Pointer && mm.Type.In(1).Elem().Kind() == reflect.Array && mm.Type.In(1).Elem().Len() == 5 {
			consumer = mm.Name
		}
	}
	if consumer == "" {
		e.unc[name+"(no consumer)"] = true
		return
	}
	var rpos []int
	for _, d := range sparseRe.FindStringSubmatch(consumer)[1] {
		rpos = append(rpos, int(d-'0'))
	}
	for trial := 0; trial < c.Pick(12, 40); trial++ {
		mkSparse := func() ([]ofield.El, ofield.El) {
			vals := make([]ofield.El, len(pos))
			sp := f.Zero()
			for k, p := range pos {
				switch (trial + k) % 5 {
				case 0:
					vals[k] = sf.Zero()
				case 1:
					vals[k] = sf.One()
				default:
					vals[k] = e.randEl(sf)
				}
				copy(sp[p*unit:(p+1)*unit], vals[k])
			}
			if implicit >= 0 {
				sp[implicit*unit] = big.NewInt(1)
			}
			return vals, sp
		}
		dv, dsp := mkSparse()
		cv, csp := mkSparse()
		var args []reflect.Value
		for _, v := range dv {
			args = append(args, mkArg(v))
		}
		for _, v := range cv {
			args = append(args, mkArg(v))
		}
		key := e.N + "/" + name
		desc := func() string { return fmt.Sprintf("%s: sparse %s times sparse %s", name, f.String(dsp), f.String(csp)) }
		var res []reflect.Value
		if c.Guard(key+"/panic", desc, func() { res = fn.Call(args) }) {
			continue
		}
		want := f.Mul(dsp, csp)
		got := f.Zero()
		arr := reflect.New(res[0].Type())
		arr.Elem().Set(res[0])
		for k, p := range rpos {
			copy(got[p*unit:(p+1)*unit], rdArg(arr.Elem().Index(k).Addr()))
		}
		c.Check(name, key+"/value-mismatch", f.Eq(got, want), func() string {
			return fmt.Sprintf("%s: blocks %v of the result placed per %s give %s, dense product is %s", desc(), rpos, consumer, f.String(got), f.String(want))
		})
		c.Class(fmt.Sprintf("%s/%s/pattern%d", e.N, name, trial%5))
	}
}

// mulAcc: MulAccE4(alpha, scale, res): res[i] += alpha*scale[i] over the small-field quartic extension.
func (e *env) mulAcc(fn reflect.Value) {
	c := e.c
	ti := e.types["E4"]
	if ti == nil {
		e.unc["MulAccE4"] = true
		return
	}
	f := ti.F
	ft := fn.Type()
	leafT := ft.In(1).Elem()
	for _, n := range []int{0, 1, 2, 3, 4, 5, 7, 8, 15, 16, 17, 31, 33, 64, 100} {
		alpha := e.randEl(f)
		if n%3 == 1 {
			alpha = f.One()
		}
		scale := reflect.MakeSlice(ft.In(1), n, n)
		res := reflect.MakeSlice(ft.In(2), n, n)
		sv := make([]*big.Int, n)
		rv := make([]ofield.El, n)
		for i := 0; i < n; i++ {
			sv[i] = e.rng.BigBelow(f.P)
			if i%5 == 4 {
				sv[i] = new(big.Int).Sub(f.P, one)
			}
			l := reflect.New(leafT)
			l.MethodByName("SetBigInt").Call([]reflect.Value{reflect.ValueOf(sv[i])})
			scale.Index(i).Set(l.Elem())
			rv[i] = e.randEl(f)
			res.Index(i).Set(e.mk(ti, rv[i]).Elem())
		}
		key := e.N + "/MulAccE4"
		if c.Guard(fmt.Sprintf("%s/panic/n=%d", key, n), func() string { return fmt.Sprintf("n=%d", n) }, func() { fn.Call([]reflect.Value{e.mk(ti, alpha), scale, res}) }) {
			continue
		}
		ok := true
		bad := -1
		for i := 0; ok && i < n; i++ {
			want := f.Add(rv[i], f.Mul(alpha, f.FromInt(sv[i])))
			if !f.Eq(e.rd(res.Index(i).Addr()), want) {
				ok, bad = false, i
			}
		}
		c.Check("MulAccE4", key+"/value-mismatch", ok, func() string { return fmt.Sprintf("n=%d entry %d", n, bad) })
		if n == 0 {
			c.Eval("MulAccE4", 1)
		}
		c.Class(fmt.Sprintf("%s/MulAccE4/n%d", e.N, n))
	}
}

// runE6D: bw6-761 direct sextic representation: ToTower(FromTower(x)) = x and products agree with E6.
func (e *env) runE6D(ti *tinfo) {
	c := e.c
	e6 := e.types["E6"]
	from, ok1 := e.tw.Funcs["FromTower"]
	to, ok2 := e.tw.Funcs["ToTower"]
	if e6 == nil || !ok1 || !ok2 {
		e.unc["E6D"] = true
		return
	}
	f := e6.F
	ops := e.operands(e6, 16)
	conv := func(fn any, p reflect.Value) reflect.Value { return reflect.ValueOf(fn).Call([]reflect.Value{p})[0] }
	for _, a := range ops {
		x := e.mk(e6, a.v)
		var back reflect.Value
		if c.Guard(e.N+"/E6D.FromTower/panic", func() string { return f.String(a.v) }, func() { back = conv(to, conv(from, x)) }) {
			continue
		}
		c.Check("E6D", e.N+"/E6D.ToTower(FromTower)/roundtrip-mismatch", f.Eq(e.rd(back), a.v), func() string { return f.String(a.v) })
		// ring operations of E6D through the isomorphism
		for _, b := range ops[:6] {
			y := e.mk(e6, b.v)
			for _, opn := range []string{"Mul", "Add", "Sub"} {
				dx, dy := conv(from, x), conv(from, y)
				m := dx.MethodByName(opn)
				if !m.IsValid() {
					continue
				}
				z := reflect.New(ti.T)
				var r reflect.Value
				if c.Guard(e.N+"/E6D."+opn+"/panic", func() string { return opn }, func() { z.MethodByName(opn).Call([]reflect.Value{dx, dy}); r = conv(to, z) }) {
					continue
				}
				var want ofield.El
				switch opn {
				case "Mul":
					want = f.Mul(a.v, b.v)
				case "Add":
					want = f.Add(a.v, b.v)
				default:
					want = f.Sub(a.v, b.v)
				}
				c.Check("E6D."+opn, e.N+"/E6D."+opn+"/value-mismatch", f.Eq(e.rd(r), want), func() string {
					return fmt.Sprintf("E6D.%s(%s, %s) through ToTower", opn, f.String(a.v), f.String(b.v))
				})
			}
		}
		c.Class(e.N + "/E6D/" + a.cls)
	}
	pT := reflect.PointerTo(ti.T)
	for i := 0; i < pT.NumMethod(); i++ {
		n := pT.Method(i).Name
		if n != "Mul" && n != "Add" && n != "Sub" && !skipMethods[n] {
			e.unc["E6D."+n] = true
		}
	}
}
