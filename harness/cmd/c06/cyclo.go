package main

import (
	"fmt"
	"math/big"
	"reflect"
	"strings"

	"verif/harness/adapt/pairings"
	"verif/harness/oracle/ofield"
)

// easyPart maps any non-zero x of the GT field (degree k) into the cyclotomic subgroup:
// x^((p^(k/2)-1)(p^(k/6)+1)), computed with oracle conjugation, inversion and Frobenius.
func easyPart(f *ofield.Fld, x ofield.El) ofield.El {
	y := f.Mul(f.Conj(x), f.Inv(x)) // x^(p^(k/2) - 1)
	return f.Mul(frob(f, y, f.Deg()/6), y)
}

func (e *env) prepareCyclotomic() {
	if e.gt == nil || e.gt.F == nil {
		return
	}
	ti := e.gt
	f := ti.F
	n := e.c.Pick(5, 10)
	ops := e.operands(ti, 0)
	var els []operand
	els = append(els, operand{f.One(), "cyclotomic-one"})
	// random, sparse and single-coordinate sources: the sparse ones give structured cyclotomic elements
	picks := []int{3, 4, 5}
	for i := 6; i < len(ops) && len(picks) < n+3; i += 1 + len(ops)/n {
		picks = append(picks, i)
	}
	for _, i := range picks {
		if f.IsZero(ops[i].v) {
			continue
		}
		z := easyPart(f, ops[i].v)
		els = append(els, operand{z, fmt.Sprintf("cyclotomic-easy(%s)", ops[i].cls)})
	}
	// measure-zero members: a prescribed Fq-block of the element is zero (Karabina g1, g2, g3, g5 = blocks 1, 2, 3, 5)
	fq := e.ot.Fp
	for _, cand := range []*ofield.Fld{e.ot.Fp2, e.ot.Fp3, e.ot.Fp4, e.ot.Fp6, e.ot.Fp12} {
		if cand != nil && cand.Deg()*6 == f.Deg() {
			fq = cand
		}
	}
	if fq.Deg()*6 == f.Deg() {
		order := new(big.Int).Mul(fq.Order(), fq.Order())
		order.Sub(order, fq.Order()).Add(order, one) // q^2 - q + 1
		sqrtExp := new(big.Int).Rsh(new(big.Int).Add(order, one), 1)
		blks := []int{3, 5}
		if e.c.Thorough() {
			blks = []int{3, 5, 2, 1}
		}
		for _, blk := range blks {
			z, ok := e.degenerateCyclotomic(ti, fq, blk, e.c.Pick(5, 8))
			if !ok {
				e.unc[fmt.Sprintf("%s:cyclotomic element with block %d = 0 (construction found no root)", ti.Name, blk)] = true
				continue
			}
			if !f.IsOne(f.Exp(z, order)) {
				e.c.Inconclusive("%s: constructed degenerate element is not in the cyclotomic subgroup", e.N)
				return
			}
			els = append(els, operand{z, fmt.Sprintf("degenerate(block%d=0)", blk)})
			// its square root in the (odd order) subgroup: squaring it lands on the degenerate element
			els = append(els, operand{f.Exp(z, sqrtExp), fmt.Sprintf("degenerate(sqrt-of-block%d=0)", blk)})
			e.c.Class(fmt.Sprintf("%s/%s/degenerate-cyclotomic/block%d", e.N, ti.Name, blk))
		}
	}
	e.cyc[ti.Name] = els
	// elements of order r: pairing values g^a
	for _, pi := range pairings.All {
		if pi.Name != e.N {
			continue
		}
		p := pi.New()
		g, err := p.GT("Pair", []*big.Int{one}, []*big.Int{one})
		if err != nil || len(g) != f.Deg() {
			e.c.Inconclusive("%s: cannot obtain a pairing value", e.N)
			return
		}
		if f.IsOne(g) || !f.IsOne(f.Exp(g, e.tw.R)) {
			e.c.Fail(e.N+"/pairing-value/not-of-order-r", "e(G1,G2) is not of exact order r")
			return
		}
		e.gtEls = append(e.gtEls, f.One(), g, f.Exp(g, e.rng.BigBelow(e.tw.R)), f.Exp(g, new(big.Int).Sub(e.tw.R, one)))
		if e.c.Thorough() {
			e.gtEls = append(e.gtEls, f.Exp(g, e.rng.BigBelow(e.tw.R)), f.Exp(g, big.NewInt(2)))
		}
	}
	e.c.Extra(e.N+".cyclotomic_elements", len(els))
}

// IsInSubGroup on the documented domain (cyclotomic subgroup): true iff z^r = 1.
func (e *env) isInSubGroup(ti *tinfo) {
	f := ti.F
	var list []operand
	for i, v := range e.gtEls {
		list = append(list, operand{v, fmt.Sprintf("GT-%d", i)})
	}
	list = append(list, e.cyc[ti.Name]...)
	// cyclotomic element times a GT element: still cyclotomic, order not r unless the cofactor part is trivial
	if len(e.gtEls) > 1 && len(e.cyc[ti.Name]) > 2 {
		list = append(list, operand{f.Mul(e.gtEls[1], e.cyc[ti.Name][1].v), "cyclotomic*GT"})
	}
	for _, a := range list {
		want := f.IsOne(f.Exp(a.v, e.tw.R))
		x := e.mk(ti, a.v)
		desc := func() string { return fmt.Sprintf("%s.IsInSubGroup(%s) [%s]", ti.Name, f.String(a.v), a.cls) }
		if res, ok := e.call(ti, x, "IsInSubGroup", desc); ok {
			e.c.Check(ti.Name+".IsInSubGroup", e.key(ti, "IsInSubGroup", fmt.Sprintf("predicate-mismatch/want-%v", want)), res[0].Bool() == want, func() string {
				return fmt.Sprintf("%s = %v, oracle z^r==1 is %v", desc(), res[0].Bool(), want)
			})
		}
		e.c.Class(e.N + "/" + ti.Name + ".IsInSubGroup/" + a.cls)
	}
}

// Karabina: DecompressKarabina(CyclotomicSquareCompressed(x)) = x^2 and DecompressKarabina(x) = x on the
// cyclotomic subgroup; receiver distinct from the operand (aliasing is C19's business, but a routine that
// reads the receiver instead of the operand is wrong here too).
func (e *env) karabina(ti *tinfo, name string) {
	if name != "DecompressKarabina" {
		return // handled together with DecompressKarabina
	}
	f := ti.F
	hasCSC := reflect.PointerTo(ti.T).MethodByName
	_, ok1 := hasCSC("CyclotomicSquareCompressed")
	for _, op := range e.cyc[ti.Name] {
		v, cls := op.v, op.cls
		x, z := e.mk(ti, v), e.junk(ti)
		desc := func() string { return fmt.Sprintf("%s.DecompressKarabina(%s) [%s]", ti.Name, f.String(v), cls) }
		if _, ok := e.call(ti, z, "DecompressKarabina", desc, x); ok {
			e.cmp(ti, "DecompressKarabina", cls+"/identity-on-cyclotomic", z, v, desc)
		}
		if ok1 {
			x2, c1, z2 := e.mk(ti, v), e.junk(ti), e.junk(ti)
			desc2 := func() string {
				return fmt.Sprintf("%s.DecompressKarabina(CyclotomicSquareCompressed(%s)) [%s]", ti.Name, f.String(v), cls)
			}
			if _, ok := e.call(ti, c1, "CyclotomicSquareCompressed", desc2, x2); ok {
				if _, ok := e.call(ti, z2, "DecompressKarabina", desc2, c1); ok {
					e.cmp(ti, "CyclotomicSquareCompressed", cls+"/square", z2, f.Sqr(v), desc2)
				}
			}
		}
		e.c.Class(e.N + "/" + ti.Name + ".Karabina/" + cls)
	}
	// batch form
	if fn, ok := e.tw.Funcs["BatchDecompressKarabina"]; ok {
		els := e.cyc[ti.Name]
		for _, n := range []int{0, 1, 2, len(els)} {
			sl := reflect.MakeSlice(reflect.SliceOf(ti.T), n, n)
			for i := 0; i < n; i++ {
				sl.Index(i).Set(e.mk(ti, els[i%len(els)].v).Elem())
			}
			var res []reflect.Value
			key := e.N + "/BatchDecompressKarabina"
			if e.c.Guard(key+"/panic", func() string { return fmt.Sprintf("n=%d", n) }, func() { res = reflect.ValueOf(fn).Call([]reflect.Value{sl}) }) {
				continue
			}
			out := res[0]
			ok := out.Len() == n
			bad := -1
			kind := "value-mismatch"
			for i := 0; ok && i < n; i++ {
				if !f.Eq(e.rd(out.Index(i).Addr()), els[i%len(els)].v) {
					ok, bad = false, i
					if cl := els[i%len(els)].cls; strings.HasPrefix(cl, "degenerate(") {
						kind += "/" + cl
					}
				}
			}
			e.c.Check("BatchDecompressKarabina", key+"/"+kind, ok, func() string { return fmt.Sprintf("n=%d entry %d (%s)", n, bad, els[bad%len(els)].cls) })
			e.c.Class(fmt.Sprintf("%s/BatchDecompressKarabina/n%d", e.N, n))
		}
		// the batch routine on what it is made for: compressed squares, each written by CyclotomicSquareCompressed into a
		// receiver that held something else before (the coordinates that are not part of the compressed form keep that
		// content): entry i must come back as els[i]^2, exactly as the single-element routine gives
		if ok1 {
			for _, n := range []int{1, 2, len(els), len(els) + 3} {
				sl := reflect.MakeSlice(reflect.SliceOf(ti.T), n, n)
				good := true
				for i := 0; i < n && good; i++ {
					c1 := e.junk(ti)
					_, good = e.call(ti, c1, "CyclotomicSquareCompressed", func() string { return "compressing for the batch" }, e.mk(ti, els[i%len(els)].v))
					sl.Index(i).Set(c1.Elem())
				}
				if !good {
					continue
				}
				var res []reflect.Value
				key := e.N + "/BatchDecompressKarabina"
				if e.c.Guard(key+"/panic", func() string { return fmt.Sprintf("compressed squares, n=%d", n) }, func() { res = reflect.ValueOf(fn).Call([]reflect.Value{sl}) }) {
					continue
				}
				out := res[0]
				ok, bad := out.Len() == n, -1
				for i := 0; ok && i < n; i++ {
					if !f.Eq(e.rd(out.Index(i).Addr()), f.Sqr(els[i%len(els)].v)) {
						ok, bad = false, i
					}
				}
				e.c.Check("BatchDecompressKarabina", key+"/compressed-squares-in-used-receivers/value-mismatch", ok, func() string {
					return fmt.Sprintf("n=%d entry %d (%s): not the square of the compressed element", n, bad, els[bad%len(els)].cls)
				})
				e.c.Class(fmt.Sprintf("%s/BatchDecompressKarabina/compressed-squares/n%d", e.N, n))
			}
		}
	}
}

// fixedExp: Expt & friends: x^t for the curve seed t on the cyclotomic subgroup. Only names whose exponent is
// documented are checked; the others are listed as uncovered.
func (e *env) fixedExp(ti *tinfo, name string) {
	f := ti.F
	if e.seed == nil {
		e.unc[ti.Name+"."+name] = true
		return
	}
	var k *big.Int
	t := e.seed
	switch name {
	case "Expt":
		k = new(big.Int).Set(t)
	case "ExptHalf":
		k = new(big.Int).Quo(t, big.NewInt(2))
	case "ExptMinus1":
		k = new(big.Int).Sub(t, one)
	case "ExptPlus1":
		k = new(big.Int).Add(t, one)
	case "ExptMinus1Square":
		k = new(big.Int).Sub(t, one)
		k.Mul(k, k)
	case "ExptSquarePlus1":
		k = new(big.Int).Mul(t, t)
		k.Add(k, one)
	case "ExptMinus1Div3":
		k = new(big.Int).Sub(t, one)
		k.Quo(k, big.NewInt(3))
	default:
		e.unc[ti.Name+"."+name] = true
		return
	}
	for _, op := range e.cyc[ti.Name] {
		v, cls := op.v, op.cls
		x, z := e.mk(ti, v), e.junk(ti)
		desc := func() string { return fmt.Sprintf("%s.%s(%s) [%s], exponent %s", ti.Name, name, f.String(v), cls, k) }
		if _, ok := e.call(ti, z, name, desc, x); ok {
			e.cmp(ti, name, cls, z, f.Exp(v, k), desc)
		}
		e.c.Class(e.N + "/" + ti.Name + "." + name + "/" + cls)
	}
}

// torus: Rubin-Silverberg compression on the cyclotomic subgroup: Decompress(Compress(z)) = z for z != +-1,
// Compress(+-1) must be an error; explicit formula (1 + C0)/C1.
func (e *env) torus(ti *tinfo, name string) {
	if name != "CompressTorus" {
		return // DecompressTorus is exercised through the round trip below (it lives on the half-degree type)
	}
	f := ti.F
	half := ti.Sub
	if half == nil || half.F == nil {
		e.unc[ti.Name+".CompressTorus"] = true
		return
	}
	hd := half.Deg
	var all []reflect.Value
	var allv []ofield.El
	for _, op := range e.cyc[ti.Name] {
		v, cls := op.v, op.cls
		x := e.mk(ti, v)
		desc := func() string { return fmt.Sprintf("%s.CompressTorus(%s) [%s]", ti.Name, f.String(v), cls) }
		res, ok := e.call(ti, x, "CompressTorus", desc)
		if !ok {
			continue
		}
		c1zero := half.F.IsZero(ofield.El(v[hd:]))
		isErr := !res[1].IsNil()
		if !e.c.Check(ti.Name+".CompressTorus", e.key(ti, "CompressTorus", fmt.Sprintf("error-mismatch/want-error-%v", c1zero)), isErr == c1zero, func() string {
			return fmt.Sprintf("%s: error=%v but C1==0 is %v", desc(), isErr, c1zero)
		}) || isErr {
			continue
		}
		comp := reflect.New(half.T)
		comp.Elem().Set(res[0])
		want := half.F.Mul(half.F.Add(half.F.One(), ofield.El(v[:hd])), half.F.Inv(ofield.El(v[hd:])))
		e.c.Check(ti.Name+".CompressTorus", e.key(ti, "CompressTorus", "value-mismatch"), half.F.Eq(e.rd(comp), want), func() string {
			return fmt.Sprintf("%s != (1+C0)/C1", desc())
		})
		var dres []reflect.Value
		if e.c.Guard(e.key(half, "DecompressTorus", "panic"), desc, func() { dres = comp.MethodByName("DecompressTorus").Call(nil) }) {
			continue
		}
		back := reflect.New(ti.T)
		back.Elem().Set(dres[0])
		e.cmp(half, "DecompressTorus", cls+"/roundtrip", back2(back, ti, e), v, desc)
		_ = back
		all = append(all, x)
		allv = append(allv, v)
		e.c.Class(e.N + "/" + ti.Name + ".Torus/" + cls)
	}
	// batch forms
	bc, ok1 := e.tw.Funcs["BatchCompressTorus"]
	bd, ok2 := e.tw.Funcs["BatchDecompressTorus"]
	if ok1 && ok2 && len(all) > 0 {
		for _, n := range []int{1, 2, len(all)} { // n = 0 is a documented error ("invalid input size")
			sl := reflect.MakeSlice(reflect.SliceOf(ti.T), n, n)
			for i := 0; i < n; i++ {
				sl.Index(i).Set(all[i%len(all)].Elem())
			}
			key := e.N + "/BatchCompressTorus"
			var r1, r2 []reflect.Value
			if e.c.Guard(key+"/panic", func() string { return fmt.Sprintf("n=%d", n) }, func() { r1 = reflect.ValueOf(bc).Call([]reflect.Value{sl}) }) {
				continue
			}
			if !e.c.Check("BatchCompressTorus", key+"/unexpected-error", r1[1].IsNil(), func() string { return fmt.Sprintf("n=%d: %v", n, r1[1].Interface()) }) {
				continue
			}
			if e.c.Guard(e.N+"/BatchDecompressTorus/panic", func() string { return fmt.Sprintf("n=%d", n) }, func() { r2 = reflect.ValueOf(bd).Call([]reflect.Value{r1[0]}) }) {
				continue
			}
			ok := r2[1].IsNil() && r2[0].Len() == n
			for i := 0; ok && i < n; i++ {
				ok = f.Eq(e.rd(r2[0].Index(i).Addr()), allv[i%len(all)])
			}
			e.c.Check("BatchDecompressTorus", e.N+"/BatchDecompressTorus/roundtrip-mismatch", ok, func() string { return fmt.Sprintf("n=%d", n) })
			e.c.Class(fmt.Sprintf("%s/BatchTorus/n%d", e.N, n))
		}
		// a batch containing 1 (C1 = 0) must be reported as an error
		sl := reflect.MakeSlice(reflect.SliceOf(ti.T), 2, 2)
		sl.Index(0).Set(all[0].Elem())
		sl.Index(1).Set(e.mk(ti, f.One()).Elem())
		var r1 []reflect.Value
		if !e.c.Guard(e.N+"/BatchCompressTorus/panic", func() string { return "batch containing 1" }, func() { r1 = reflect.ValueOf(bc).Call([]reflect.Value{sl}) }) {
			e.c.Check("BatchCompressTorus", e.N+"/BatchCompressTorus/missing-error", !r1[1].IsNil(), func() string { return "batch containing the element 1 (C1=0) was compressed without error" })
		}
	}
	_ = strings.TrimSpace
}

func back2(p reflect.Value, ti *tinfo, e *env) reflect.Value { return p }
