package main

import (
	"fmt"
	"math/big"
	"strings"
	"sync"
	"time"

	"verif/harness/adapt/groups"
	"verif/harness/adapt/h2c"
	"verif/harness/gen"
	"verif/harness/mon"
	"verif/harness/oracle/ocurve"
	"verif/harness/oracle/ofield"
	"verif/harness/oracle/oh2c"
)

// Z of the Shallue-van de Woestijne instances, as documented in internal/generator/config/<curve>.go (HashSuiteSvdw.z)
// and in the comments of ecc/bls24-31x/hash_to_g2.go. Flattened tower coefficients.
var svdwZ = map[string][]int64{
	"bn254/G1": {1}, "bn254/G2": {1, 0}, "grumpkin/G1": {1}, "secp256k1/G1": {1}, "stark-curve/G1": {1},
	"bls24-315/G2": {1, 0, 1, 0}, "bls24-317/G2": {1, 0, 1, 0},
}

// groups whose cofactor is 1: the map output IS the group element (MapToG == MapToCurve, exactly the oracle point).
var cofactorOne = map[string]bool{"bn254/G1": true, "grumpkin/G1": true, "secp256k1/G1": true, "stark-curve/G1": true}

// RFC 9380 8.8.1 / 8.8.2: constants of the BLS12-381 suites (E' coefficients and Z).
var rfcSuite = map[string][3][]string{
	"bls12-381/G1": {
		{"144698a3b8e9433d693a02c96d4982b0ea985383ee66a8d8e8981aefd881ac98936f8da0e0f97f5cf428082d584c1d"},
		{"12e2908d11688030018b12e8753eee3b2016c1f0f24f4070a0b9c14fcef35ef55a23215a316ceaa5d1cc48e98e172be0"},
		{"b"}},
	"bls12-381/G2": {{"0", "f0"}, {"3f4", "3f4"}, {"-2", "-1"}},
}

type cenv struct {
	c     *mon.Ctx
	in    *h2c.Inst
	g     *groups.Group
	f     *ofield.Fld
	E     *ocurve.Curve // the group's curve
	Em    *ocurve.Curve // the curve the raw map targets (E' for SSWU, E for SvdW)
	svdw  *oh2c.SvdW
	sswu  *oh2c.SSWU
	iso   *oh2c.Iso
	N, W  string // instance name, "1" or "2"
	p     *big.Int
	rng   *gen.Rng
	heavy bool
	mu    sync.Mutex
	seenX map[string]ofield.El // abscissa -> a random u that produced it (collision detector)
}

type ucase struct {
	u   ofield.El
	cls string
}

func toPt(f *ofield.Fld, p h2c.Pt) ocurve.Pt {
	if f.IsZero(p.X) && f.IsZero(p.Y) {
		return ocurve.Pt{Inf: true}
	}
	return ocurve.Pt{X: p.X, Y: p.Y}
}

func (e *cenv) oracleMap(u ofield.El) oh2c.MapRes {
	if e.svdw != nil {
		return e.svdw.Map(u)
	}
	return e.sswu.Map(u)
}

// liftX returns a point of curve c with abscissa x when there is one.
func liftX(c *ocurve.Curve, x ofield.El) (ocurve.Pt, bool) {
	f := c.F
	y, ok := oh2c.Sqrt(f, f.Add(f.Add(f.Mul(f.Sqr(x), x), f.Mul(c.A, x)), c.B))
	if !ok {
		return ocurve.Pt{}, false
	}
	return ocurve.Pt{X: f.Copy(x), Y: y}, true
}

func (e *cenv) fn(base string) string { return e.N + "/" + base + e.W }

func elFromHex(f *ofield.Fld, hs []string) ofield.El {
	vs := make([]*big.Int, len(hs))
	for i, h := range hs {
		v, ok := new(big.Int).SetString(h, 16)
		if !ok {
			panic("bad hex constant " + h)
		}
		vs[i] = v.Mod(v, f.P)
	}
	return f.FromInts(vs...)
}

func runCurve(c *mon.Ctx, in *h2c.Inst) {
	N := in.Name
	var g *groups.Group
	for _, ge := range groups.All {
		if ge.Name == N {
			g = ge.New()
		}
	}
	if g == nil {
		c.Inconclusive("%s: no group adapter", N)
		return
	}
	if err := g.Bind(); err != nil {
		c.Inconclusive("%s: %v", N, err)
		return
	}
	e := &cenv{c: c, in: in, g: g, f: g.F, E: g.C, N: N, W: N[len(N)-1:], p: g.P, rng: gen.New(c.Seed, "c13/"+N), seenX: map[string]ofield.El{}}
	f := e.f
	if f.Deg() != in.Deg {
		c.Inconclusive("%s: oracle coordinate field has degree %d, adapter says %d", N, f.Deg(), in.Deg)
		return
	}
	e.heavy = in.Deg >= 4

	// ---- the oracle map, from documented constants
	switch in.Kind {
	case "SVDW":
		zc := svdwZ[N]
		vs := make([]*big.Int, len(zc))
		for i := range zc {
			vs[i] = big.NewInt(zc[i])
		}
		e.svdw = &oh2c.SvdW{C: e.E, Z: f.FromInts(vs...)}
		e.Em = e.E
		// the selection criteria of Z are constants-level facts: recorded as evidence, not as violations (their observable
		// consequences - undefined map values, invalid points - are what the behavioural checks below catch)
		err := e.svdw.CheckZ()
		c.Class(N + "/constants/svdw-Z-criteria")
		c.Eval("constants", 1)
		if err != nil {
			c.Note("%s: Z = %s does not satisfy RFC 9380 6.6.1: %v", N, f.String(e.svdw.Z), err)
			c.Extra(N+".Z_criteria_violated", err.Error())
		}
	case "SSWU":
		a, b, z := in.IsoCurve()
		e.Em = &ocurve.Curve{F: f, A: a, B: b}
		e.sswu = &oh2c.SSWU{C: e.Em, Z: z}
		// the selection criteria of Z are constants-level facts: recorded as evidence (notes + extra), not as violations;
		// their observable consequences (undefined map values -> invalid points) are caught by the behavioural checks
		bad := e.sswu.CheckZ()
		c.Class(N + "/constants/sswu-Z-criteria")
		c.Eval("constants", 4)
		var violated []int
		for _, k := range []int{0, 1, 2, 4} {
			if msg, failed := bad[k]; failed {
				violated = append(violated, k)
				c.Note("%s: RFC 9380 6.6.2 criterion %d on Z is violated: %s; A'=%s B'=%s Z=%s", N, k, msg, f.String(a), f.String(b), f.String(z))
			}
		}
		if _, failed := bad[0]; failed {
			c.Fail(N+"/constants/sswu-degenerate-curve", "A'*B' = 0: the simplified SWU map is not applicable (A'=%s B'=%s)", f.String(a), f.String(b))
			return
		}
		cubic := []ofield.El{f.Sub(b, z), a, f.Zero(), f.One()}
		c.Class(N + "/constants/sswu-Z-irreducible")
		if !oh2c.CubicHasNoRoot(f, cubic) {
			violated = append(violated, 3)
			rs := oh2c.RootsInF(f, cubic, gen.New(1, "c13/cubic"))
			txt := ""
			for _, r := range rs {
				v := f.Sub(f.Add(f.Add(f.Mul(f.Sqr(r), r), f.Mul(a, r)), b), z)
				txt += fmt.Sprintf(" x=%s (g'(x)-Z = %s)", f.String(r), f.String(v))
			}
			c.Note("%s: RFC 9380 6.6.2 criterion 3 on Z is violated: g'(x) - Z has a root in F:%s; Z=%s", N, txt, f.String(z))
		}
		if len(violated) > 0 {
			c.Extra(N+".Z_criteria_violated", violated)
		}
		if rs, ok := rfcSuite[N]; ok {
			wa, wb, wz := elFromHex(f, rs[0]), elFromHex(f, rs[1]), elFromHex(f, rs[2])
			c.Class(N + "/constants/rfc-suite")
			c.Check("constants", N+"/constants/rfc-suite-mismatch", f.Eq(a, wa) && f.Eq(b, wb) && f.Eq(z, wz), func() string {
				return fmt.Sprintf("library (A',B',Z) = (%s,%s,%s), RFC 9380 8.8 gives (%s,%s,%s)", f.String(a), f.String(b), f.String(z), f.String(wa), f.String(wb), f.String(wz))
			})
		}
		m := in.IsoMap()
		e.iso = &oh2c.Iso{F: f, XN: m[0], XD: m[1], YN: m[2], YD: m[3], Monic: true}
		c.Extra(N+".isogeny_degrees", []int{len(m[0]) - 1, len(m[1]), len(m[2]) - 1, len(m[3])})
	}

	t0 := time.Now()
	defer func() { c.Extra(N+".wall_s", int(time.Since(t0).Seconds())) }()
	ucs := e.uCases()
	e.helpers(ucs)
	if e.iso != nil {
		e.isogenyChecks(ucs)
	}
	for _, uc := range ucs {
		e.checkMap(uc.u, uc.cls)
	}
	e.hashChecks()
	if N == "bls12-381/G1" || N == "bls12-381/G2" {
		e.rfcVectors()
	}
}

// ---------------------------------------------------------------------------------------------
// inputs

func (e *cenv) uCases() []ucase {
	f, p, rng := e.f, e.p, e.rng
	var out []ucase
	add := func(cls string, u ofield.El) { out = append(out, ucase{u, cls}) }
	pm := func(k int64) *big.Int { return new(big.Int).Mod(big.NewInt(k), p) }
	if f.Deg() == 1 {
		add("zero", f.FromInt64(0))
		add("one", f.FromInt64(1))
		add("minus-one", f.FromInt64(-1))
		for _, k := range []int64{2, -2, 3, -3, 4, 5, 6, 7, 8, 9} {
			add("small", f.FromInt64(k))
		}
		h := new(big.Int).Rsh(p, 1)
		add("half", f.FromInt(h))
		add("half", f.FromInt(new(big.Int).Add(h, big.NewInt(1))))
		limbs := (p.BitLen() + 63) / 64
		R := new(big.Int).Lsh(big.NewInt(1), uint(64*limbs))
		for _, v := range []*big.Int{R, new(big.Int).Mul(R, R), new(big.Int).ModInverse(new(big.Int).Mod(R, p), p)} {
			add("montgomery-constant", f.FromInt(v))
		}
		for _, k := range []uint{63, 64, 65, 127, 128, uint(p.BitLen() - 1)} {
			for _, d := range []int64{-1, 0, 1} {
				v := new(big.Int).Lsh(big.NewInt(1), k)
				v.Add(v, big.NewInt(d))
				if v.Cmp(p) < 0 {
					add("limb-boundary", f.FromInt(v))
				}
			}
		}
	} else {
		// all coefficient vectors over {0, 1, -1}: every zero-prefix pattern of sgn0, Fp-embedded and pure-imaginary u
		d := f.Deg()
		n := 1
		for i := 0; i < d; i++ {
			n *= 3
		}
		for k := 0; k < n; k++ {
			vs := make([]*big.Int, d)
			kk := k
			for i := 0; i < d; i++ {
				vs[i] = pm(int64([]int{0, 1, -1}[kk%3]))
				kk /= 3
			}
			cls := "coeffs-in-{0,1,-1}"
			if k == 0 {
				cls = "zero"
			}
			add(cls, f.FromInts(vs...))
		}
		// zero prefix of every length followed by random coefficients (even and odd first non-zero coefficient)
		for z := 0; z < d; z++ {
			for par := 0; par < 2; par++ {
				vs := make([]*big.Int, d)
				for i := range vs {
					switch {
					case i < z:
						vs[i] = new(big.Int)
					case i == z:
						v := rng.BigBelow(p)
						if int(v.Bit(0)) != par {
							v.Xor(v, big.NewInt(1))
						}
						if v.Sign() == 0 || v.Cmp(p) >= 0 {
							v = big.NewInt(int64(2 + par))
						}
						vs[i] = v
					default:
						vs[i] = rng.BigBelow(p)
					}
				}
				add(fmt.Sprintf("zero-prefix=%d", z), f.FromInts(vs...))
			}
		}
		for i := 0; i < d; i++ {
			vs := make([]*big.Int, d)
			for j := range vs {
				vs[j] = new(big.Int)
			}
			vs[i] = rng.BigBelow(p)
			add("single-coefficient", f.FromInts(vs...))
		}
	}
	{
		// values whose Montgomery representation has a single non-zero limb (helpers such as G?NotZero read raw limbs)
		limbs := (p.BitLen() + 63) / 64
		R := new(big.Int).Lsh(big.NewInt(1), uint(64*limbs))
		rinv := new(big.Int).ModInverse(new(big.Int).Mod(R, p), p)
		for k := 0; k < limbs; k++ {
			for _, pat := range []uint64{1, 1 << 63} {
				raw := new(big.Int).Lsh(new(big.Int).SetUint64(pat), uint(64*k))
				if raw.Cmp(p) >= 0 {
					continue
				}
				v := new(big.Int).Mul(raw, rinv)
				v.Mod(v, p)
				for pos := 0; pos < f.Deg(); pos++ {
					vs := make([]*big.Int, f.Deg())
					for j := range vs {
						vs[j] = new(big.Int)
					}
					vs[pos] = v
					add("montgomery-single-limb", f.FromInts(vs...))
				}
			}
		}
	}
	var exc []ofield.El
	if e.svdw != nil {
		exc = e.svdw.Exceptional()
	} else {
		exc = e.sswu.Exceptional()
	}
	e.c.Extra(e.N+".exceptional_inputs_in_F", len(exc))
	for _, u := range exc {
		add("exceptional", u)
	}
	nr := e.c.Pick(160, 1500)
	if f.Deg() == 2 {
		nr = e.c.Pick(64, 600)
	}
	if e.heavy {
		nr = e.c.Pick(16, 200)
	}
	for i := 0; i < nr; i++ {
		vs := make([]*big.Int, f.Deg())
		for j := range vs {
			vs[j] = rng.BigBelow(p)
		}
		add("random", f.FromInts(vs...))
	}
	return out
}

// ---------------------------------------------------------------------------------------------
// exported helpers: sgn0, NotZero, MulByZ, SqrtRatio

func (e *cenv) helpers(ucs []ucase) {
	c, f, in := e.c, e.f, e.in
	if in.Sgn0 != nil {
		K := e.N + "/G" + e.W + "Sgn0"
		for _, uc := range ucs {
			u := uc.u
			var got uint64
			desc := func() string { return fmt.Sprintf("G%sSgn0(%s)", e.W, f.String(u)) }
			if c.Guard(K+"/panic/"+uc.cls, desc, func() { got = in.Sgn0(u) }) {
				continue
			}
			c.Class(K + "/" + uc.cls)
			want := oh2c.Sgn0(u)
			c.Check("Sgn0", K+"/mismatch/"+uc.cls, got == want, func() string { return desc() + fmt.Sprintf(" = %d, RFC 9380 4.1 gives %d", got, want) })
			var nz uint64
			c.Guard(e.N+"/G"+e.W+"NotZero/panic", desc, func() { nz = in.NotZero(u) })
			c.Check("NotZero", e.N+"/G"+e.W+"NotZero/mismatch/"+uc.cls, (nz != 0) == !f.IsZero(u), func() string {
				return fmt.Sprintf("G%sNotZero(%s) = %d", e.W, f.String(u), nz)
			})
		}
	}
	if in.Kind != "SSWU" {
		return
	}
	Z := e.sswu.Z
	K := e.N + "/G" + e.W + "MulByZ"
	for _, uc := range ucs {
		u := uc.u
		var z1, z2 ofield.El
		desc := func() string { return fmt.Sprintf("G%sMulByZ(x=%s)", e.W, f.String(u)) }
		if c.Guard(K+"/panic", desc, func() { z1, z2 = in.MulByZ(u) }) {
			continue
		}
		c.Class(K + "/" + uc.cls)
		want := f.Mul(Z, u)
		c.Check("MulByZ", K+"/mismatch", f.Eq(z1, want), func() string { return desc() + fmt.Sprintf(" = %s want Z*x = %s", f.String(z1), f.String(want)) })
		c.Check("MulByZ", K+"/mismatch/aliased", f.Eq(z2, want), func() string {
			return desc() + fmt.Sprintf(" in place = %s want Z*x = %s", f.String(z2), f.String(want))
		})
	}
	// sqrt_ratio(u, v), v != 0: (true, sqrt(u/v)) when u/v is square, (false, sqrt(Z*u/v)) otherwise (RFC 9380 F.2.1)
	K = e.N + "/G" + e.W + "SqrtRatio"
	type pair struct {
		u, v ofield.El
		cls  string
	}
	var ps []pair
	rnd := func() ofield.El {
		vs := make([]*big.Int, f.Deg())
		for j := range vs {
			vs[j] = e.rng.BigBelow(e.p)
		}
		x := f.FromInts(vs...)
		if f.IsZero(x) {
			return f.One()
		}
		return x
	}
	n := e.c.Pick(48, 400)
	if e.heavy {
		n = e.c.Pick(6, 60)
	}
	for i := 0; i < n; i++ {
		v := rnd()
		if i%5 == 0 {
			v = f.One()
		}
		s := rnd()
		sq := f.Sqr(s)
		ps = append(ps, pair{f.Mul(sq, v), v, "square-ratio"})
		ps = append(ps, pair{f.Mul(f.Mul(sq, Z), v), v, "non-square-ratio"})
		ps = append(ps, pair{rnd(), v, "random"})
	}
	ps = append(ps, pair{f.Zero(), f.One(), "u=0"}, pair{f.Zero(), rnd(), "u=0"}, pair{f.One(), f.One(), "u=v"}, pair{Z, f.One(), "u=Z"})
	for _, pr := range ps {
		u, v := pr.u, pr.v
		desc := func() string { return fmt.Sprintf("G%sSqrtRatio(u=%s, v=%s)", e.W, f.String(u), f.String(v)) }
		var z, ua, va ofield.El
		var fl uint64
		if c.Guard(K+"/panic/"+pr.cls, desc, func() { z, fl, ua, va = in.SqrtRatio(u, v) }) {
			continue
		}
		c.Class(K + "/" + pr.cls)
		c.Check("SqrtRatio", K+"/input-modified", f.Eq(ua, u) && f.Eq(va, v), func() string { return desc() + ": u or v was written" })
		isQR := oh2c.IsSquare(f, f.Div(u, v))
		if !f.IsZero(u) { // for u = 0 the RFC's own algorithms disagree on the flag (F.2.1.1 gives false, F.2.1.2 true): only the root is checked
			c.Check("SqrtRatio", K+"/flag/"+pr.cls, (fl == 0) == isQR, func() string {
				return desc() + fmt.Sprintf(": returned flag %d (0 = u/v is a square), is_square(u/v) = %v", fl, isQR)
			})
		}
		tgt := u
		if fl != 0 {
			tgt = f.Mul(Z, u)
		}
		c.Check("SqrtRatio", K+"/root/"+pr.cls, f.Eq(f.Mul(f.Sqr(z), v), tgt), func() string {
			return desc() + fmt.Sprintf(": z = %s, z^2*v != %s (is_square(u/v) = %v)", f.String(z), f.String(tgt), isQR)
		})
	}
}

// ---------------------------------------------------------------------------------------------
// isogeny E' -> E

func (e *cenv) isogenyChecks(ucs []ucase) {
	c, f, in := e.c, e.f, e.in
	K := e.N + "/G" + e.W + "Isogeny"
	var pts []ocurve.Pt
	// points of E'(F): lifted random abscissas (both signs) and images of the oracle map
	n := e.c.Pick(16, 200)
	for len(pts) < n {
		vs := make([]*big.Int, f.Deg())
		for j := range vs {
			vs[j] = e.rng.BigBelow(e.p)
		}
		if p, ok := liftX(e.Em, f.FromInts(vs...)); ok {
			pts = append(pts, p, e.Em.Neg(p))
		}
	}
	for i, uc := range ucs {
		if i%4 == 0 || uc.cls == "exceptional" || uc.cls == "zero" {
			if r := e.oracleMap(uc.u); !r.Undefined {
				pts = append(pts, r.P)
			}
		}
	}
	img := make([]ocurve.Pt, len(pts))
	for i, p := range pts {
		want := e.iso.Eval(p)
		img[i] = want
		desc := func() string { return fmt.Sprintf("G%sIsogeny(%s)", e.W, e.Em.String(p)) }
		c.Class(K + "/point-of-E'")
		// the rational maps must send E' to E (validates the coefficient tables against the two curve equations)
		c.Check("Isogeny", K+"/coefficients/image-off-curve", e.E.IsOnCurve(want), func() string {
			return desc() + ": the rational maps (library coefficient tables, evaluated by the oracle) give " + e.E.String(want) + " which is not on E"
		})
		var got h2c.Pt
		if c.Guard(K+"/panic", desc, func() { got = in.Isogeny(p.X, p.Y) }) {
			continue
		}
		c.Check("Isogeny", K+"/mismatch", e.E.Eq(toPt(f, got), want), func() string {
			return desc() + fmt.Sprintf(" = %s, the rational maps give %s", e.E.String(toPt(f, got)), e.E.String(want))
		})
	}
	// group homomorphism (an isogeny is one): iso(P+Q) = iso(P)+iso(Q), iso(2P) = 2 iso(P)
	for i := 0; i+1 < len(pts) && i < e.c.Pick(24, 200); i++ {
		p, q := pts[i], pts[i+1]
		s := e.iso.Eval(e.Em.Add(p, q))
		c.Class(K + "/homomorphism")
		c.Check("Isogeny", K+"/coefficients/not-a-homomorphism", e.E.Eq(s, e.E.Add(img[i], img[i+1])), func() string {
			return fmt.Sprintf("iso(P+Q) != iso(P)+iso(Q) for P=%s Q=%s", e.Em.String(p), e.Em.String(q))
		})
		d := e.iso.Eval(e.Em.Double(p))
		c.Check("Isogeny", K+"/coefficients/not-a-homomorphism", e.E.Eq(d, e.E.Double(img[i])), func() string {
			return fmt.Sprintf("iso(2P) != 2 iso(P) for P=%s", e.Em.String(p))
		})
	}
	// kernel: rational roots of the denominators (exceptional inputs of the isogeny, RFC 9380 6.6.3 / appendix E)
	maxDeg := e.c.Pick(12, 200)
	if e.heavy {
		maxDeg = 0
	}
	xd := e.iso.DenPoly("x")
	if len(xd)-1 > maxDeg*f.Deg() && !c.Thorough() {
		c.Note("%s: x-denominator of degree %d: rational roots searched in the thorough tier only", e.N, len(xd)-1)
		return
	}
	roots := oh2c.RootsInF(f, xd, gen.New(c.Seed, "c13/roots/"+e.N))
	c.Extra(e.N+".isogeny_x_denominator_roots_in_F", len(roots))
	for _, x0 := range roots {
		desc := func() string { return fmt.Sprintf("G%sIsogeny at the kernel abscissa x=%s", e.W, f.String(x0)) }
		p, ok := liftX(e.Em, x0)
		if !ok {
			c.Class(K + "/kernel-abscissa/not-rational-point")
			continue
		}
		c.Class(K + "/kernel-point")
		var got h2c.Pt
		if c.Guard(K+"/panic/kernel-point", desc, func() { got = in.Isogeny(p.X, p.Y) }) {
			continue
		}
		c.Check("Isogeny", K+"/mismatch/kernel-point", toPt(f, got).Inf, func() string {
			return desc() + fmt.Sprintf(": a kernel point must map to the identity, got %s", e.E.String(toPt(f, got)))
		})
		// a u reaching that point through x1: 1/(t^2+t) = -A x0/B - 1, t = Z u^2
		A, B, Z := e.Em.A, e.Em.B, e.sswu.Z
		s := f.Sub(f.Neg(f.Div(f.Mul(A, x0), B)), f.One())
		if f.IsZero(s) {
			continue
		}
		disc := f.Add(f.One(), f.MulInt(f.Inv(s), 4))
		if r, ok := oh2c.Sqrt(f, disc); ok {
			for _, sg := range []ofield.El{r, f.Neg(r)} {
				t := f.Div(f.Sub(sg, f.One()), f.FromInt64(2))
				if u, ok := oh2c.Sqrt(f, f.Div(t, Z)); ok {
					e.checkMap(u, "isogeny-kernel")
					e.checkMap(f.Neg(u), "isogeny-kernel")
				}
			}
		}
	}
}

// ---------------------------------------------------------------------------------------------
// MapToCurve / MapToG on one u

// checkMap returns the library's MapToG(u) as an oracle point (valid only when gok).
func (e *cenv) checkMap(u ofield.El, cls string) (gpt ocurve.Pt, gok bool) {
	c, f, in := e.c, e.f, e.in
	KM := e.fn("MapToCurve")
	res := e.oracleMap(u)
	want, branch, exc, flipped := res.P, res.Branch, res.Exc, res.Flipped
	undefined := res.Undefined // the RFC map has no value at u (Z violates its criteria): only validity can be demanded
	bcls := fmt.Sprintf("branch=x%d", branch)
	if undefined {
		bcls = "rfc-map-undefined"
	}
	desc := func() string { return fmt.Sprintf("MapToCurve%s(u=%s) [class %s, %s]", e.W, f.String(u), cls, bcls) }
	c.Current(desc())
	var got, got2 h2c.Pt
	var ua ofield.El
	if c.Guard(KM+"/panic/"+cls, desc, func() { got, ua = in.MapToCurve(u); got2, _ = in.MapToCurve(u) }) {
		return ocurve.Pt{}, false
	}
	cell := KM + "/" + cls + "/" + bcls
	if exc {
		cell += "/inv0(0)"
	}
	if flipped {
		cell += "/y-negated"
	}
	c.Class(cell)
	gp := toPt(f, got)
	c.Check("MapToCurve", KM+"/input-modified", f.Eq(ua, u), func() string { return desc() + ": *u was written, now " + f.String(ua) })
	c.Check("MapToCurve", KM+"/nondeterministic", f.Eq(got.X, got2.X) && f.Eq(got.Y, got2.Y), func() string { return desc() + ": two calls, two results" })
	on := c.Check("MapToCurve", KM+"/off-curve/"+cls+"/"+bcls, !gp.Inf && e.Em.IsOnCurve(gp), func() string {
		return desc() + " = " + e.Em.String(gp) + " is not a point of the target curve y^2 = x^3 + " + f.String(e.Em.A) + " x + " + f.String(e.Em.B)
	})
	sok := true
	if on && !f.IsZero(gp.Y) {
		sok = c.Check("MapToCurve", KM+"/sgn0-mismatch/"+fmt.Sprintf("sgn0(u)=%d/", oh2c.Sgn0(u))+cls, oh2c.Sgn0(gp.Y) == oh2c.Sgn0(u), func() string {
			return desc() + fmt.Sprintf(": sgn0(y) = %d but sgn0(u) = %d (y = %s)", oh2c.Sgn0(gp.Y), oh2c.Sgn0(u), f.String(gp.Y))
		})
	}
	if !undefined {
		if res.Alt != nil && on && e.Em.Eq(gp, *res.Alt) {
			c.Class(cell + "/g(x1)=0:straight-line-value")
			c.Eval("MapToCurve", 1)
		} else {
			xok := c.Check("MapToCurve", KM+"/rfc-mismatch/x/"+bcls+"/"+cls, !gp.Inf && f.Eq(gp.X, want.X), func() string {
				return desc() + fmt.Sprintf(": x = %s, the RFC 9380 map gives x = %s", f.String(got.X), f.String(want.X))
			})
			if xok && on && sok {
				c.Check("MapToCurve", KM+"/rfc-mismatch/y/"+bcls+"/"+cls, f.Eq(gp.Y, want.Y), func() string {
					return desc() + fmt.Sprintf(": y = %s, the RFC 9380 map gives y = %s", f.String(got.Y), f.String(want.Y))
				})
			}
		}
	}
	if on && (cls == "random" || cls == "hashed-u") {
		e.mu.Lock()
		k := f.String(gp.X)
		if prev, dup := e.seenX[k]; dup && !f.Eq(prev, u) && !f.Eq(prev, f.Neg(u)) {
			c.Fail(KM+"/collision/independent-u/"+bcls, "%s and u=%s (not +-u) map to the same abscissa %s: for independent random u this has probability ~ 8/q", desc(), f.String(prev), k)
		}
		e.seenX[k] = u
		e.mu.Unlock()
		c.Eval("MapToCurve", 1)
	}

	// MapToG
	KG := e.fn("MapToG")
	descG := func() string { return fmt.Sprintf("MapToG%s(u=%s) [class %s, %s]", e.W, f.String(u), cls, bcls) }
	c.Current(descG())
	var gg, gg2 h2c.Pt
	if c.Guard(KG+"/panic/"+cls, descG, func() { gg = in.MapToG(u); gg2 = in.MapToG(u) }) {
		return ocurve.Pt{}, false
	}
	c.Class(KG + "/" + cls + "/" + bcls)
	P := toPt(f, gg)
	c.Check("MapToG", KG+"/nondeterministic", f.Eq(gg.X, gg2.X) && f.Eq(gg.Y, gg2.Y), func() string { return descG() + ": two calls, two results" })
	onG := c.Check("MapToG", KG+"/off-curve/"+cls+"/"+bcls, e.E.IsOnCurve(P), func() string { return descG() + " = " + e.E.String(P) + " is not on the curve" })
	osub := false
	if onG {
		osub = e.E.Mul(P, e.g.R).Inf
		c.Check("MapToG", KG+"/not-in-subgroup/"+cls+"/"+bcls, osub, func() string { return descG() + " = " + e.E.String(P) + ": [r]P != O" })
	}
	if !P.Inf {
		// the library's own predicates are observed on the returned point (they are what callers would use)
		var lon, lsub bool
		if !c.Guard(KG+"/panic/predicates", descG, func() { lon = in.LibIsOnCurve(gg); lsub = in.LibIsInSubGroup(gg) }) {
			c.Check("MapToG", KG+"/IsOnCurve-disagrees", lon == onG, func() string {
				return descG() + fmt.Sprintf(" = %s: IsOnCurve() = %v, oracle curve equation says %v", e.E.String(P), lon, onG)
			})
			if onG {
				c.Check("MapToG", KG+"/IsInSubGroup-disagrees", lsub == osub, func() string {
					return descG() + fmt.Sprintf(" = %s: IsInSubGroup() = %v, oracle [r]P = O is %v", e.E.String(P), lsub, osub)
				})
			}
		}
	}
	switch {
	case cofactorOne[e.N]:
		if !undefined {
			c.Check("MapToG", KG+"/rfc-mismatch/"+bcls+"/"+cls, e.E.Eq(P, want), func() string {
				return descG() + " = " + e.E.String(P) + ", cofactor 1: the RFC 9380 map gives " + e.E.String(want)
			})
		}
	default:
		// MapToG must be clear_cofactor(isogeny(MapToCurve(u))): built from the library's own MapToCurve output (compared
		// with the oracle map above) pushed through the oracle's evaluation of the rational maps.
		if !on {
			break
		}
		Q := gp
		if e.iso != nil {
			Q = e.iso.Eval(Q)
		}
		Qm := Q // the mapped point itself
		if !Q.Inf && e.E.Double(Q).Inf {
			// a point of order 2 has trivial r-part: any homomorphism into the subgroup of odd prime order r sends it to the identity
			Q = ocurve.Pt{Inf: true}
		}
		if in.ClearCofactor != nil {
			// the group-level function must be the composition of the verified pieces: ClearCofactor applied to the
			// oracle's mapped point (the library's clearing is used as a building block here; that it is a homomorphism
			// into the subgroup is established by the subgroup checks and the HashTo composition check)
			lq := h2c.Pt{X: f.Zero(), Y: f.Zero()}
			if !Qm.Inf {
				lq = h2c.Pt{X: Qm.X, Y: Qm.Y}
			}
			var cc h2c.Pt
			if !c.Guard(KG+"/panic/ClearCofactor", descG, func() { cc = in.ClearCofactor(lq) }) {
				c.Check("MapToG", KG+"/composition-mismatch/"+bcls+"/"+cls, e.E.Eq(toPt(f, cc), P), func() string {
					return descG() + " = " + e.E.String(P) + " but ClearCofactor(isogeny(map(u))) with the mapped point " + e.E.String(Qm) + " is " + e.E.String(toPt(f, cc))
				})
			}
		}
		// clear_cofactor is a homomorphism onto the subgroup: it kills a point only when its r-part is trivial,
		// which has probability 1/r for the inputs used here (points of order 2 excepted, handled above)
		if !Q.Inf {
			c.Check("MapToG", KG+"/identity/"+cls, !P.Inf, func() string {
				return descG() + ": returned the identity although the mapped point " + e.E.String(Q) + " is not"
			})
		} else {
			c.Check("MapToG", KG+"/identity-expected/"+cls, P.Inf, func() string {
				return descG() + ": the mapped point is in the kernel of the isogeny, expected the identity, got " + e.E.String(P)
			})
		}
	}
	return P, onG
}

// ---------------------------------------------------------------------------------------------
// EncodeTo / HashTo

func (e *cenv) uFromHash(msg, dst []byte, count int) ([]ofield.El, error) {
	us, err := oh2c.HashToField(msg, dst, count, e.p, e.f.Deg())
	if err != nil {
		return nil, err
	}
	out := make([]ofield.El, count)
	for i := range us {
		out[i] = e.f.FromInts(us[i]...)
	}
	return out, nil
}

// libConventionU reproduces the convention found in the code of the two hand written E4 instances
// (ecc/bls24-31x/hash_to_g2.go): count*2 base-field elements, u_i = (e_{2i}, 0, e_{2i+1}, 0).
func (e *cenv) libConventionU(msg, dst []byte, count int) []ofield.El {
	us, err := oh2c.HashToField(msg, dst, 2*count, e.p, 1)
	if err != nil {
		return nil
	}
	out := make([]ofield.El, count)
	z := new(big.Int)
	for i := range out {
		out[i] = e.f.FromInts(us[2*i][0], z, us[2*i+1][0], z)
	}
	return out
}

func (e *cenv) hashChecks() {
	c, f, in := e.c, e.f, e.in
	msgLens := []int{0, 1, 31, 32, 33, 63, 64, 65, 1000}
	dstLens := []int{0, 1, 16, 255}
	if e.heavy && !c.Thorough() {
		msgLens = []int{0, 33, 65}
		dstLens = []int{1, 255}
	} else if f.Deg() == 2 && !c.Thorough() {
		msgLens = []int{0, 1, 32, 64, 65, 1000}
		dstLens = []int{0, 16, 255}
	}
	type mc struct{ ml, dl int }
	var cases []mc
	for _, ml := range msgLens {
		for _, dl := range dstLens {
			cases = append(cases, mc{ml, dl})
		}
	}
	if c.Thorough() {
		n := 200
		if e.heavy {
			n = 40
		}
		for i := 0; i < n; i++ {
			cases = append(cases, mc{e.rng.Intn(300), 1 + e.rng.Intn(255)})
		}
	}
	KE, KH := e.N+"/EncodeToG"+e.W, e.N+"/HashToG"+e.W
	outSeen := map[string]string{}
	for _, cs := range cases {
		msg, dst := mkBytes(e.rng, cs.ml, e.rng.Bool()), mkBytes(e.rng, cs.dl, e.rng.Bool())
		m0, d0 := append([]byte{}, msg...), append([]byte{}, dst...)
		msg, dst, whole := hostileLayout(msg, dst)
		w0 := append([]byte{}, whole...)
		cls := msgClass(cs.ml) + "/" + dstClass(cs.dl)
		for _, op := range []string{"EncodeToG", "HashToG"} {
			K, count, call := KE, 1, in.EncodeTo
			if op == "HashToG" {
				K, count, call = KH, 2, in.HashTo
			}
			desc := func() string { return fmt.Sprintf("%s%s(msg=%s, dst=%s)", op, e.W, hx(m0), hx(d0)) }
			c.Current(desc())
			var got, got2 h2c.Pt
			var err error
			if c.Guard(K+"/panic/"+cls, desc, func() { got, err = call(msg, dst); got2, _ = call(msg, dst) }) {
				continue
			}
			c.Class(K + "/" + cls)
			if !c.Check(op, K+"/spurious-error/"+cls, err == nil, func() string { return desc() + fmt.Sprintf(": error %v", err) }) {
				continue
			}
			c.Check(op, K+"/input-modified/"+cls, string(whole) == string(w0), func() string {
				return desc() + ": msg, dst or the bytes behind them were written (dst, msg and a canary are laid out in one array)"
			})
			c.Check(op, K+"/nondeterministic/"+cls, f.Eq(got.X, got2.X) && f.Eq(got.Y, got2.Y), func() string { return desc() + ": two calls, two results" })
			P := toPt(f, got)
			{
				// distinct (msg, dst) must not collide (probability ~ 1/r each): spec-independent degeneracy detector
				k := op + f.String(got.X) + f.String(got.Y)
				if prev, dup := outSeen[k]; dup {
					c.Fail(K+"/collision/grid", "%s and %s return the same point %s", desc(), prev, e.E.String(P))
				}
				outSeen[k] = desc()
				c.Eval(op, 1)
			}
			if c.Check(op, K+"/off-curve/"+cls, e.E.IsOnCurve(P), func() string { return desc() + " = " + e.E.String(P) + " is not on the curve" }) {
				c.Check(op, K+"/not-in-subgroup/"+cls, e.E.Mul(P, e.g.R).Inf, func() string { return desc() + " = " + e.E.String(P) + ": [r]P != O" })
			}
			// RFC 9380 section 3: encode_to_curve = clear_cofactor(map(u)), hash_to_curve = clear_cofactor(map(u0) + map(u1)),
			// u = hash_to_field(msg, count) over the coordinate field; clear_cofactor is a homomorphism, so both are sums
			// of MapToG outputs (each checked against the oracle map by checkMap on these very u, class hashed-u).
			compose := func(us []ofield.El) (ocurve.Pt, bool) {
				acc := ocurve.Pt{Inf: true}
				for _, u := range us {
					g, ok := e.checkMap(u, "hashed-u")
					if !ok {
						return acc, false
					}
					acc = e.E.Add(acc, g)
				}
				return acc, true
			}
			us, _ := e.uFromHash(msg, dst, count)
			want, ok := compose(us)
			if !ok {
				c.Note("%s: composition check skipped for one message: MapToG of its u is off the curve (reported separately)", K)
				continue
			}
			if e.E.Eq(P, want) {
				c.Check(op, K+"/rfc-mismatch/"+cls, true, nil)
				continue
			}
			if e.heavy {
				if w2, ok2 := compose(e.libConventionU(msg, dst, count)); ok2 && e.E.Eq(P, w2) {
					c.Check(op, K+"/rfc-mismatch-hash_to_field-m=4/"+cls, false, func() string {
						return desc() + " = " + e.E.String(P) + ": RFC 9380 5.2 draws the 4 coefficients of each u in F_p^4 (len_in_bytes = count*4*L); the library draws 2 and leaves coefficients 1 and 3 at zero (u = (e0,0,e1,0)); with the RFC's u = " + elsString(f, us) + " the result would be " + e.E.String(want)
					})
					continue
				}
			}
			c.Check(op, K+"/rfc-mismatch/"+cls, false, func() string {
				return desc() + " = " + e.E.String(P) + ", composition of hash_to_field and MapToG gives " + e.E.String(want) + " (u = " + elsString(f, us) + ")"
			})
		}
	}
	// cheap sweep (library calls only): distinct messages must give distinct points
	for _, op := range []string{"EncodeToG", "HashToG"} {
		K, call := KE, in.EncodeTo
		if op == "HashToG" {
			K, call = KH, in.HashTo
		}
		dst := []byte("C13-collision-sweep")
		for i := 0; i < c.Pick(96, 2000); i++ {
			msg := append([]byte(fmt.Sprintf("sweep-%d-", i)), e.rng.Bytes(e.rng.Intn(40))...)
			desc := func() string { return fmt.Sprintf("%s%s(msg=%s, dst=%q)", op, e.W, hx(msg), dst) }
			var got h2c.Pt
			var err error
			if c.Guard(K+"/panic/sweep", desc, func() { got, err = call(msg, dst) }) || err != nil {
				continue
			}
			k := op + f.String(got.X) + f.String(got.Y)
			if prev, dup := outSeen[k]; dup {
				c.Fail(K+"/collision/sweep", "%s and %s return the same point %s", desc(), prev, e.E.String(toPt(f, got)))
			}
			outSeen[k] = desc()
			c.Eval(op, 1)
		}
		c.Class(K + "/collision-sweep")
	}
	// inadmissible tags
	for _, dl := range []int{256, 257, 1000} {
		msg, dst := e.rng.Bytes(10), e.rng.Bytes(dl)
		for _, op := range []string{"EncodeToG", "HashToG"} {
			K, call := KE, in.EncodeTo
			if op == "HashToG" {
				K, call = KH, in.HashTo
			}
			desc := func() string { return fmt.Sprintf("%s%s(msg=%s, dst of %d bytes)", op, e.W, hx(msg), dl) }
			var err error
			if c.Guard(K+"/panic/dst>255", desc, func() { _, err = call(msg, dst) }) {
				continue
			}
			c.Class(K + "/dst>255")
			c.Check(op, K+"/missing-error/dst>255", err != nil, func() string { return desc() + ": no error" })
		}
	}
}

func elsString(f *ofield.Fld, us []ofield.El) string {
	var s []string
	for _, u := range us {
		s = append(s, f.String(u))
	}
	return strings.Join(s, " ; ")
}

// ---------------------------------------------------------------------------------------------
// RFC 9380 J.9.1 / J.9.2 (BLS12-381)

func (e *cenv) parse(s string) ofield.El {
	parts := strings.Split(s, ",")
	vs := make([]*big.Int, len(parts))
	for i, p := range parts {
		v, ok := new(big.Int).SetString(strings.TrimPrefix(strings.TrimSpace(p), "0x"), 16)
		if !ok {
			panic("bad vector coordinate " + p)
		}
		vs[i] = v
	}
	return e.f.FromInts(vs...)
}

func (e *cenv) rfcVectors() {
	c, f, in := e.c, e.f, e.in
	enc, hsh := encodeToG1Vector, hashToG1Vector
	if e.W == "2" {
		enc, hsh = encodeToG2Vector, hashToG2Vector
	}
	K := e.N + "/rfc-vector"
	pt := func(p rfcPoint) ocurve.Pt { return ocurve.Pt{X: e.parse(p.x), Y: e.parse(p.y)} }
	one := func(suite string, msg string, dst []byte, us []string, Qs []rfcPoint, P rfcPoint) {
		c.Class(K + "/" + suite)
		desc := func() string { return fmt.Sprintf("RFC 9380 J.9 %s msg=%q", suite, msg) }
		// oracle self-check: hash_to_field and the generic map followed by the rational maps reproduce u and Q
		ou, err := e.uFromHash([]byte(msg), dst, len(us))
		if err != nil {
			c.Inconclusive("oracle hash_to_field failed on an RFC vector: %v", err)
			return
		}
		sum := ocurve.Pt{Inf: true}
		for i := range us {
			u := e.parse(us[i])
			if !f.Eq(ou[i], u) {
				c.Inconclusive("oracle hash_to_field does not reproduce u of %s", desc())
				return
			}
			wq := pt(Qs[i])
			oq := e.iso.Eval(e.oracleMap(u).P)
			var lm h2c.Pt
			var lq h2c.Pt
			if c.Guard(K+"/panic", desc, func() { lm, _ = in.MapToCurve(u); lq = in.Isogeny(lm.X, lm.Y) }) {
				return
			}
			libOK := c.Check("rfc-vector", K+"/Q/"+suite, e.E.Eq(toPt(f, lq), wq), func() string {
				return desc() + fmt.Sprintf(": Isogeny(MapToCurve(u%d)) = %s, the RFC gives Q%d = %s", i, e.E.String(toPt(f, lq)), i, e.E.String(wq))
			})
			if libOK && !e.E.Eq(oq, wq) {
				c.Inconclusive("oracle SSWU+isogeny does not reproduce Q of %s although the library does", desc())
				return
			}
			sum = e.E.Add(sum, wq)
		}
		wp := pt(P)
		var lp h2c.Pt
		var lerr error
		call := in.EncodeTo
		if len(us) == 2 {
			call = in.HashTo
		}
		if c.Guard(K+"/panic", desc, func() { lp, lerr = call([]byte(msg), dst) }) {
			return
		}
		c.Check("rfc-vector", K+"/P/"+suite, lerr == nil && e.E.Eq(toPt(f, lp), wp), func() string {
			return desc() + fmt.Sprintf(": got %s err=%v, the RFC gives P = %s", e.E.String(toPt(f, lp)), lerr, e.E.String(wp))
		})
		// the vectors themselves: P is in the subgroup and P = h_eff * (Q0 + Q1) is consistent with MapToG being a homomorphism image
		if !e.E.IsOnCurve(wp) || !e.E.Mul(wp, e.g.R).Inf {
			c.Inconclusive("RFC vector P of %s is not in the subgroup according to the oracle", desc())
		}
		if len(us) == 1 {
			var lg h2c.Pt
			u := e.parse(us[0])
			if !c.Guard(K+"/panic", desc, func() { lg = in.MapToG(u) }) {
				c.Check("rfc-vector", K+"/MapToG/"+suite, e.E.Eq(toPt(f, lg), wp), func() string {
					return desc() + fmt.Sprintf(": MapToG(u) = %s, the RFC gives P = %s", e.E.String(toPt(f, lg)), e.E.String(wp))
				})
			}
		}
	}
	for _, cs := range enc.cases {
		one("NU", cs.msg, enc.dst, []string{cs.u}, []rfcPoint{cs.Q}, cs.P)
	}
	for _, cs := range hsh.cases {
		one("RO", cs.msg, hsh.dst, []string{cs.u0, cs.u1}, []rfcPoint{cs.Q0, cs.Q1}, cs.P)
	}
}

var _ = mon.Selected
