package main

import (
	"bytes"
	"encoding/hex"
	"fmt"
	"math/big"
	"sync"

	fhash "github.com/consensys/gnark-crypto/field/hash"

	"verif/harness/adapt/fields"
	"verif/harness/gen"
	"verif/harness/mon"
	"verif/harness/oracle/oh2c"
)

// lenClass is the input class of an expand_message output length.
func lenClass(n int) string {
	switch {
	case n == 0:
		return "len=0"
	case n < 32:
		return "len=1..31"
	case n == 32:
		return "len=32"
	case n > 8160:
		return "len>8160"
	case n == 8160:
		return "len=8160"
	case n%32 == 0:
		return "len=32k"
	}
	return "len=32k+r"
}

func dstClass(n int) string {
	switch {
	case n == 0:
		return "dst=0"
	case n > 255:
		return "dst>255"
	case n == 255:
		return "dst=255"
	}
	return "dst=1..254"
}

func msgClass(n int) string {
	switch {
	case n == 0:
		return "msg=0"
	case n < 64:
		return "msg<block"
	case n == 64:
		return "msg=block"
	}
	return "msg>block"
}

func hx(b []byte) string {
	if len(b) > 48 {
		return fmt.Sprintf("%s…(%d bytes)", hex.EncodeToString(b[:48]), len(b))
	}
	return hex.EncodeToString(b)
}

// hostileLayout copies dst and msg into one array, dst first with the message right behind it (so dst has spare
// capacity that is the caller's live data) and a canary at the end: a routine that appends to its arguments or
// writes past them changes the array.
func hostileLayout(msg, dst []byte) (m, d, whole []byte) {
	whole = make([]byte, 0, len(dst)+len(msg)+8)
	whole = append(append(append(whole, dst...), msg...), 0xA5, 0x5A, 0xA5, 0x5A, 0xA5, 0x5A, 0xA5, 0x5A)
	m, d = whole[len(dst):len(dst)+len(msg)], whole[:len(dst)]
	if len(msg) == 0 {
		m = msg // keep the nil / empty distinction of the case
	}
	if len(dst) == 0 {
		d = dst
	}
	return
}

func mkBytes(rng *gen.Rng, n int, nilWhenEmpty bool) []byte {
	if n == 0 {
		if nilWhenEmpty {
			return nil
		}
		return []byte{}
	}
	return rng.Bytes(n)
}

func runFieldStage(c *mon.Ctx) {
	var wg sync.WaitGroup
	launch := func(name string, fn func()) {
		if !mon.Selected(name) {
			return
		}
		wg.Add(1)
		go func() {
			defer wg.Done()
			c.Guard(name+"/harness/panic", func() string { return "panic outside a guarded call, instance " + name }, fn)
		}()
	}
	launch("field/hash", func() { runExpand(c) })
	for _, e := range allFields {
		e := e
		launch(e.name, func() { e.fn(c) })
	}
	wg.Wait()
}

// ---------------------------------------------------------------------------------------------
// hash.ExpandMsgXmd directly

var rfcK1 = []struct {
	msg string
	n   int
	hex string
}{
	{"", 0x20, "68a985b87eb6b46952128911f2a4412bbc302a9d759667f87f7a21d803f07235"},
	{"abc", 0x20, "d8ccab23b5985ccea865c6c97b6e5b8350e794e603b4b97902f53a8a0d605615"},
	{"abcdef0123456789", 0x20, "eff31487c770a893cfb36f912fbfcbff40d5661771ca4b2cb4eafe524333f5c1"},
	{"q128_" + rep("q", 128), 0x20, "b23a1d2b4d97b2ef7785562a7e8bac7eed54ed6e97e29aa51bfe3f12ddad1ff9"},
	{"a512_" + rep("a", 512), 0x20, "4623227bcc01293b8c130bf771da8c298dede7383243dc0993d2d94823958c4c"},
	{"", 0x80, "af84c27ccfd45d41914fdff5df25293e221afc53d8ad2ac06d5e3e29485dadbee0d121587713a3e0dd4d5e69e93eb7cd4f5df4cd103e188cf60cb02edc3edf18eda8576c412b18ffb658e3dd6ec849469b979d444cf7b26911a08e63cf31f9dcc541708d3491184472c2c29bb749d4286b004ceb5ee6b9a7fa5b646c993f0ced"},
	{"abc", 0x80, "abba86a6129e366fc877aab32fc4ffc70120d8996c88aee2fe4b32d6c7b6437a647e6c3163d40b76a73cf6a5674ef1d890f95b664ee0afa5359a5c4e07985635bbecbac65d747d3d2da7ec2b8221b17b0ca9dc8a1ac1c07ea6a1e60583e2cb00058e77b7b72a298425cd1b941ad4ec65e8afc50303a22c0f99b0509b4c895f40"},
	{"abcdef0123456789", 0x80, "ef904a29bffc4cf9ee82832451c946ac3c8f8058ae97d8d629831a74c6572bd9ebd0df635cd1f208e2038e760c4994984ce73f0d55ea9f22af83ba4734569d4bc95e18350f740c07eef653cbb9f87910d833751825f0ebefa1abe5420bb52be14cf489b37fe1a72f7de2d10be453b2c9d9eb20c7e3f6edc5a60629178d9478df"},
	{"q128_" + rep("q", 128), 0x80, "80be107d0884f0d881bb460322f0443d38bd222db8bd0b0a5312a6fedb49c1bbd88fd75d8b9a09486c60123dfa1d73c1cc3169761b17476d3c6b7cbbd727acd0e2c942f4dd96ae3da5de368d26b32286e32de7e5a8cb2949f866a0b80c58116b29fa7fabb3ea7d520ee603e0c25bcaf0b9a5e92ec6a1fe4e0391d1cdbce8c68a"},
	{"a512_" + rep("a", 512), 0x80, "546aff5444b5b79aa6148bd81728704c32decb73a3ba76e9e75885cad9def1d06d6792f8a7d12794e90efed817d96920d728896a4510864370c207f99bd4a608ea121700ef01ed879745ee3e4ceef777eda6d9e5e38b90c86ea6fb0b36504ba4a45d22e86f6db5dd43d98a294bebb9125d5b794e9d2a81181066eb954966a487"},
}

func rep(s string, n int) string { return string(bytes.Repeat([]byte(s), n)) }

func checkExpand(c *mon.Ctx, msg, dst []byte, n int) {
	const N = "field/hash/ExpandMsgXmd"
	cls := lenClass(n) + "/" + dstClass(len(dst))
	c.Class(N + "/" + cls + "/" + msgClass(len(msg)))
	want, werr := oh2c.ExpandXMD(msg, dst, n)
	m0, d0 := append([]byte{}, msg...), append([]byte{}, dst...)
	msg, dst, whole := hostileLayout(msg, dst)
	w0 := append([]byte{}, whole...)
	desc := func() string { return fmt.Sprintf("ExpandMsgXmd(msg=%s, dst=%s, lenInBytes=%d)", hx(m0), hx(d0), n) }
	var got []byte
	var err error
	c.Current(desc())
	if c.Guard(N+"/panic/"+cls, desc, func() { got, err = fhash.ExpandMsgXmd(msg, dst, n) }) {
		c.Eval("ExpandMsgXmd", 1)
		return
	}
	c.Check("ExpandMsgXmd", N+"/input-modified", bytes.Equal(whole, w0), func() string {
		return desc() + ": msg, dst or the bytes behind them were written (dst, msg and a canary are laid out in one array)"
	})
	if werr != nil {
		c.Check("ExpandMsgXmd", N+"/missing-error/"+cls, err != nil, func() string {
			return desc() + fmt.Sprintf(": RFC 5.3.1 step 2 aborts (%v), the library returned %d bytes and no error", werr, len(got))
		})
		return
	}
	if !c.Check("ExpandMsgXmd", N+"/spurious-error/"+cls, err == nil, func() string { return desc() + fmt.Sprintf(": admissible parameters, got error %v", err) }) {
		return
	}
	c.Check("ExpandMsgXmd", N+"/rfc-mismatch/"+cls, bytes.Equal(got, want), func() string {
		return desc() + fmt.Sprintf(": got %d bytes %s, RFC 9380 5.3.1 gives %d bytes %s", len(got), hx(got), len(want), hx(want))
	})
}

func runExpand(c *mon.Ctx) {
	rng := gen.New(c.Seed, "c13/expand")
	// RFC K.1 vectors: first the oracle (a mismatch there means the monitor is broken), then the library
	dstK := []byte("QUUX-V01-CS02-with-expander-SHA256-128")
	for _, v := range rfcK1 {
		want, _ := hex.DecodeString(v.hex)
		o, err := oh2c.ExpandXMD([]byte(v.msg), dstK, v.n)
		if err != nil || !bytes.Equal(o, want) {
			c.Inconclusive("oracle expand_message_xmd does not reproduce RFC 9380 K.1 (msg %q len %d)", v.msg, v.n)
			return
		}
		got, err := fhash.ExpandMsgXmd([]byte(v.msg), dstK, v.n)
		c.Class("field/hash/ExpandMsgXmd/rfc-K.1-vector")
		c.Check("ExpandMsgXmd", "field/hash/ExpandMsgXmd/rfc-vector", err == nil && bytes.Equal(got, want), func() string {
			return fmt.Sprintf("RFC 9380 K.1 vector msg=%q len=%d: got %s err=%v want %s", v.msg, v.n, hx(got), err, v.hex)
		})
	}
	// every output length, for a few (msg, dst) shapes
	combos := [][2]int{{rng.Intn(100), 1 + rng.Intn(254)}}
	if c.Thorough() {
		combos = append(combos, [2]int{0, 0}, [2]int{64, 255}, [2]int{1000, 16}, [2]int{rng.Intn(3000), rng.Intn(256)})
	}
	for ci, cb := range combos {
		msg, dst := mkBytes(rng, cb[0], ci%2 == 1), mkBytes(rng, cb[1], ci%2 == 1)
		for n := 0; n <= 8162; n++ {
			checkExpand(c, msg, dst, n)
		}
		for _, n := range []int{8191, 8192, 8193, 16320, 65535, 65536, 65537, 1 << 20} {
			checkExpand(c, msg, dst, n)
		}
	}
	// grid of message / dst lengths at the interesting output lengths
	for _, ml := range []int{0, 1, 31, 32, 33, 55, 56, 63, 64, 65, 119, 120, 1000} {
		for _, dl := range []int{0, 1, 16, 254, 255, 256, 257, 1000} {
			for _, n := range []int{0, 1, 20, 31, 32, 33, 48, 64, 96, 8159, 8160, 8161} {
				checkExpand(c, mkBytes(rng, ml, rng.Bool()), mkBytes(rng, dl, rng.Bool()), n)
			}
		}
	}
	for i := 0; i < c.Pick(300, 5000); i++ {
		checkExpand(c, rng.Bytes(rng.Intn(300)), rng.Bytes(rng.Intn(256)), rng.Intn(8161))
	}
}

// ---------------------------------------------------------------------------------------------
// <field>.Hash for the 23 fields, and the hash_to_field wrapper of the field when it has one

func run[E any, P fields.Ptr[E]](c *mon.Ctx, f *fields.Field[E, P]) {
	N := f.Name
	q := f.Modulus
	rng := gen.New(c.Seed, "c13/"+N)
	L := oh2c.L(q, 128)
	maxCount := 8160 / L
	c.Extra(N+".L", L)

	check := func(msg, dst []byte, count int) {
		n := count * L
		cls := lenClass(n)
		c.Class(N + "/Hash/" + cls + "/" + dstClass(len(dst)) + "/" + msgClass(len(msg)))
		want, werr := oh2c.HashToField(msg, dst, count, q, 1)
		m0, d0 := append([]byte{}, msg...), append([]byte{}, dst...)
		msg, dst, whole := hostileLayout(msg, dst)
		w0 := append([]byte{}, whole...)
		desc := func() string {
			return fmt.Sprintf("%s.Hash(msg=%s, dst=%s, count=%d) [L=%d, len_in_bytes=%d]", N, hx(m0), hx(d0), count, L, n)
		}
		c.Current(desc())
		var got []E
		var err error
		if c.Guard(N+"/Hash/panic/"+cls, desc, func() { got, err = f.Hash(msg, dst, count) }) {
			c.Eval("Hash", 1)
			return
		}
		c.Check("Hash", N+"/Hash/input-modified", bytes.Equal(whole, w0), func() string {
			return desc() + ": msg, dst or the bytes behind them were written (dst, msg and a canary are laid out in one array)"
		})
		if werr != nil {
			c.Check("Hash", N+"/Hash/missing-error/"+cls+"/"+dstClass(len(dst)), err != nil, func() string {
				return desc() + fmt.Sprintf(": inadmissible (%v) but no error, %d elements returned", werr, len(got))
			})
			return
		}
		if !c.Check("Hash", N+"/Hash/spurious-error/"+cls, err == nil, func() string { return desc() + fmt.Sprintf(": admissible parameters, got error %v", err) }) {
			return
		}
		if !c.Check("Hash", N+"/Hash/wrong-count/"+cls, len(got) == count, func() string { return desc() + fmt.Sprintf(": %d elements returned", len(got)) }) {
			return
		}
		okCanon, okVal, bad := true, true, -1
		for i := range got {
			if f.Raw(&got[i]).Cmp(q) >= 0 {
				okCanon, bad = false, i
				break
			}
			if f.Value(&got[i]).Cmp(want[i][0]) != 0 {
				okVal, bad = false, i
				break
			}
		}
		c.Check("Hash", N+"/Hash/non-canonical/"+cls, okCanon, func() string {
			return desc() + fmt.Sprintf(": element %d has raw limbs %s >= q", bad, f.Raw(&got[bad]).Text(16))
		})
		c.Check("Hash", N+"/Hash/rfc-mismatch/"+cls, okVal, func() string {
			return desc() + fmt.Sprintf(": element %d = %s, RFC 9380 hash_to_field gives %s", bad, f.Value(&got[bad]).Text(16), want[bad][0].Text(16))
		})
	}

	counts := []int{0, 1, 2, 3, 8, maxCount - 1, maxCount, maxCount + 1, maxCount + 2, 2 * maxCount}
	// counts around len_in_bytes = 32 (only below it for the small fields) and around one / two hash blocks
	for _, tgt := range []int{32, 64, 96} {
		counts = append(counts, tgt/L, tgt/L+1)
	}
	seen := map[int]bool{}
	for _, cnt := range counts {
		if cnt < 0 || seen[cnt] {
			continue
		}
		seen[cnt] = true
		for _, ml := range []int{0, 1, 31, 32, 33, 63, 64, 65, 1000} {
			for _, dl := range []int{0, 1, 16, 255, 256} {
				check(mkBytes(rng, ml, rng.Bool()), mkBytes(rng, dl, rng.Bool()), cnt)
			}
		}
	}
	if c.Thorough() {
		msg, dst := rng.Bytes(40), rng.Bytes(20)
		for cnt := 0; cnt <= maxCount+2; cnt++ {
			check(msg, dst, cnt)
			check(nil, nil, cnt)
		}
	}
	for i := 0; i < c.Pick(150, 3000); i++ {
		check(rng.Bytes(rng.Intn(200)), rng.Bytes(rng.Intn(256)), rng.Intn(maxCount+1))
	}
	// the same (msg, dst, count) twice, concurrently with the other fields (shared big.Int pool): determinism
	{
		msg, dst := rng.Bytes(77), rng.Bytes(33)
		var a, b []E
		var ea, eb error
		if !c.Guard(N+"/Hash/panic/"+lenClass(4*L), func() string { return "determinism probe" }, func() {
			a, ea = f.Hash(msg, dst, 4)
			b, eb = f.Hash(msg, dst, 4)
		}) {
			same := ea == nil && eb == nil && len(a) == len(b)
			for i := 0; same && i < len(a); i++ {
				same = f.Raw(&a[i]).Cmp(f.Raw(&b[i])) == 0
			}
			c.Check("Hash", N+"/Hash/nondeterministic", same, func() string { return "two identical calls returned different elements" })
		}
	}

	// hash_to_field wrapper (hash.Hash)
	mk, ok := h2fNew[N]
	if !ok {
		return
	}
	W := N + "/hash_to_field"
	for i := 0; i < c.Pick(40, 600); i++ {
		dl := []int{0, 1, 16, 255, rng.Intn(256)}[i%5]
		dst := mkBytes(rng, dl, i%2 == 0)
		d0 := append([]byte{}, dst...)
		np := rng.Intn(4)
		var pieces [][]byte
		var all []byte
		for j := 0; j < np; j++ {
			p := rng.Bytes([]int{0, 1, 31, 32, 33, 64, 200}[rng.Intn(7)])
			pieces = append(pieces, p)
			all = append(all, p...)
		}
		prefix := rng.Bytes(rng.Intn(5))
		cls := fmt.Sprintf("writes=%d/%s", np, dstClass(dl))
		c.Class(W + "/" + cls)
		desc := func() string {
			return fmt.Sprintf("%s.New(dst=%s); %d writes (total %s); Sum(prefix %s)", W, hx(d0), np, hx(all), hx(prefix))
		}
		c.Current(desc())
		exp := func(m []byte) []byte {
			u, err := oh2c.HashToField(m, d0, 1, q, 1)
			if err != nil {
				panic(err)
			}
			return u[0][0].FillBytes(make([]byte, f.Bytes))
		}
		c.Guard(W+"/panic/"+dstClass(dl), desc, func() {
			h := mk(dst)
			for k := range dst { // the constructor documents that it copies the separator
				dst[k] ^= 0xff
			}
			for _, p := range pieces {
				// the buffer handed to Write is the caller's again when Write returns (io.Writer: "must not retain p"):
				// it is overwritten at once, as a caller streaming through one buffer does
				buf := append(make([]byte, 0, len(p)+3), p...)
				n, err := h.Write(buf)
				for k := range buf {
					buf[k] ^= 0xa5
				}
				c.Check("h2f.Write", W+"/Write/short", err == nil && n == len(p), func() string { return desc() + fmt.Sprintf(": Write returned (%d, %v)", n, err) })
			}
			pre := append(make([]byte, 0, len(prefix)+f.Bytes+8), prefix...)
			s1 := h.Sum(pre)
			want := append(append([]byte{}, prefix...), exp(all)...)
			c.Check("h2f.Sum", W+"/Sum/rfc-mismatch", bytes.Equal(s1, want), func() string {
				return desc() + fmt.Sprintf(": got %s want prefix||I2OSP(hash_to_field(msg)[0]) = %s", hx(s1), hx(want))
			})
			s2 := h.Sum(nil)
			c.Check("h2f.Sum", W+"/Sum/not-idempotent", bytes.Equal(s2, want[len(prefix):]), func() string {
				return desc() + fmt.Sprintf(": second Sum(nil) = %s want %s", hx(s2), hx(want[len(prefix):]))
			})
			c.Check("h2f.Size", W+"/Size", h.Size() == f.Bytes && len(s2) == h.Size(), func() string {
				return fmt.Sprintf("%s: Size()=%d, Sum length %d, field bytes %d", W, h.Size(), len(s2), f.Bytes)
			})
			extra := rng.Bytes(1 + rng.Intn(70))
			ebuf := append([]byte(nil), extra...)
			h.Write(ebuf)
			for k := range ebuf {
				ebuf[k] = 0
			}
			s3 := h.Sum(nil)
			w3 := exp(append(append([]byte{}, all...), extra...))
			c.Check("h2f.Sum", W+"/Sum/after-Sum-Write", bytes.Equal(s3, w3), func() string {
				return desc() + fmt.Sprintf("; Write(%s); Sum: got %s want %s", hx(extra), hx(s3), hx(w3))
			})
			h.Reset()
			s4 := h.Sum(nil)
			w4 := exp(nil)
			c.Check("h2f.Reset", W+"/Reset", bytes.Equal(s4, w4), func() string {
				return desc() + fmt.Sprintf("; Reset; Sum: got %s want hash of the empty message %s", hx(s4), hx(w4))
			})
			// the first write after a Reset, through a buffer that is reused at once
			ebuf = append(ebuf[:0], extra...)
			h.Write(ebuf)
			for k := range ebuf {
				ebuf[k] = 0xff
			}
			s5 := h.Sum(nil)
			w5 := exp(extra)
			c.Check("h2f.Sum", W+"/Sum/after-Reset-Write", bytes.Equal(s5, w5), func() string {
				return desc() + fmt.Sprintf("; Reset; Write(%s) from a buffer overwritten afterwards; Sum: got %s want %s", hx(extra), hx(s5), hx(w5))
			})
		})
	}
}

var _ = big.NewInt
