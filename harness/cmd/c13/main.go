// C13: hash-to-field and hash-to-curve against an oracle written from RFC 9380.
//
//	-mode=field : hash.ExpandMsgXmd (every output length), <field>.Hash of the 23 fields, the 16 hash_to_field
//	              hash.Hash wrappers, RFC K.1 vectors
//	-mode=curve : the 17 groups with a map: sgn0 / sqrt_ratio / Z-multiplication / isogeny helpers, MapToCurve
//	              vs the generic RFC definition of SvdW / SSWU, MapToG / EncodeTo / HashTo (on curve, in the
//	              subgroup by oracle [r]P, deterministic, RFC composition), RFC J.9 vectors for BLS12-381
package main

import (
	"flag"
	"sync"

	"verif/harness/adapt/h2c"
	"verif/harness/mon"
)

var mode = flag.String("mode", "all", "field | curve | all")

func main() {
	c := mon.Init("C13")
	if *mode == "field" || *mode == "all" {
		runFieldStage(c)
	}
	if *mode == "curve" || *mode == "all" {
		var wg sync.WaitGroup
		for _, e := range h2c.All {
			if !mon.Selected(e.Name) {
				continue
			}
			wg.Add(1)
			go func(name string, mk func() *h2c.Inst) {
				defer wg.Done()
				key := name + "/harness/panic"
				c.Guard(key, func() string { return "monitor or library panic outside a guarded call, instance " + name }, func() {
					runCurve(c, mk())
				})
			}(e.Name, e.New)
		}
		wg.Wait()
	}
	c.Finish()
}
