// The 16 hash_to_field wrapper packages (hash.Hash over <field>.Hash), keyed by the field adapter name.

package main

import (
	"hash"

	h2f_bls12377_fp "github.com/consensys/gnark-crypto/ecc/bls12-377/fp/hash_to_field"
	h2f_bls12377_fr "github.com/consensys/gnark-crypto/ecc/bls12-377/fr/hash_to_field"
	h2f_bls12381_fp "github.com/consensys/gnark-crypto/ecc/bls12-381/fp/hash_to_field"
	h2f_bls12381_fr "github.com/consensys/gnark-crypto/ecc/bls12-381/fr/hash_to_field"
	h2f_bls24315_fp "github.com/consensys/gnark-crypto/ecc/bls24-315/fp/hash_to_field"
	h2f_bls24315_fr "github.com/consensys/gnark-crypto/ecc/bls24-315/fr/hash_to_field"
	h2f_bls24317_fp "github.com/consensys/gnark-crypto/ecc/bls24-317/fp/hash_to_field"
	h2f_bls24317_fr "github.com/consensys/gnark-crypto/ecc/bls24-317/fr/hash_to_field"
	h2f_bn254_fp "github.com/consensys/gnark-crypto/ecc/bn254/fp/hash_to_field"
	h2f_bn254_fr "github.com/consensys/gnark-crypto/ecc/bn254/fr/hash_to_field"
	h2f_bw6633_fp "github.com/consensys/gnark-crypto/ecc/bw6-633/fp/hash_to_field"
	h2f_bw6633_fr "github.com/consensys/gnark-crypto/ecc/bw6-633/fr/hash_to_field"
	h2f_bw6761_fp "github.com/consensys/gnark-crypto/ecc/bw6-761/fp/hash_to_field"
	h2f_bw6761_fr "github.com/consensys/gnark-crypto/ecc/bw6-761/fr/hash_to_field"
	h2f_grumpkin_fp "github.com/consensys/gnark-crypto/ecc/grumpkin/fp/hash_to_field"
	h2f_grumpkin_fr "github.com/consensys/gnark-crypto/ecc/grumpkin/fr/hash_to_field"
)

var h2fNew = map[string]func([]byte) hash.Hash{
	"ecc/bls12-377/fp": h2f_bls12377_fp.New,
	"ecc/bls12-377/fr": h2f_bls12377_fr.New,
	"ecc/bls12-381/fp": h2f_bls12381_fp.New,
	"ecc/bls12-381/fr": h2f_bls12381_fr.New,
	"ecc/bls24-315/fp": h2f_bls24315_fp.New,
	"ecc/bls24-315/fr": h2f_bls24315_fr.New,
	"ecc/bls24-317/fp": h2f_bls24317_fp.New,
	"ecc/bls24-317/fr": h2f_bls24317_fr.New,
	"ecc/bn254/fp":     h2f_bn254_fp.New,
	"ecc/bn254/fr":     h2f_bn254_fr.New,
	"ecc/bw6-633/fp":   h2f_bw6633_fp.New,
	"ecc/bw6-633/fr":   h2f_bw6633_fr.New,
	"ecc/bw6-761/fp":   h2f_bw6761_fp.New,
	"ecc/bw6-761/fr":   h2f_bw6761_fr.New,
	"ecc/grumpkin/fp":  h2f_grumpkin_fp.New,
	"ecc/grumpkin/fr":  h2f_grumpkin_fr.New,
}
